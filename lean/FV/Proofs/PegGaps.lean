/-
White space and comments of the regenerated grammar (`WS`, `_`, `__`): what the three gap rules
consume.  `IsGap body g`: the text `g` is a run of items of the repetition body `body`, whatever
follows; the rule theorems (`PegTypes`, `PegFields`) take gaps as arbitrary texts with this
property, so they hold for every white space / comment the grammar admits at that place.
-/
import FV.Proofs.PegIdl

namespace FV.PegIdl
open FV.Peg FV.Generated FV.Act

/-- A run of items of a repetition body, without the final failure. -/
inductive Items (g : Grammar) (e : Expr) (k : Nat) : List Char → List Tree → List Char → Prop
  | nil {inp} : Items g e k inp [] inp
  | cons {inp t mid ts rest} : ParsesTo g e inp t mid k → Items g e k mid ts rest → Items g e k inp (t :: ts) rest

theorem Items.mono {g e k k' inp ts rest} (h : Items g e k inp ts rest) (hk : k ≤ k') : Items g e k' inp ts rest := by
  induction h with
  | nil => exact .nil
  | cons hp _ ih => exact .cons (hp.mono hk) ih

theorem Items.append {g e k a ts1 b ts2 c} (h1 : Items g e k a ts1 b) (h2 : Items g e k b ts2 c) : Items g e k a (ts1 ++ ts2) c := by
  induction h1 with
  | nil => exact h2
  | cons hp _ ih => exact .cons hp (ih h2)

theorem Items.starRun {g e k inp ts rest} (h : Items g e k inp ts rest) (hf : FailsOn g e rest k) : StarRun g e k inp ts rest := by
  induction h with
  | nil => exact .done hf
  | cons hp _ ih => exact .step hp (ih hf)

/-- `g` is consumed item by item by the repetition body `body`, whatever text follows. -/
def IsGap (body : Expr) (g : List Char) : Prop :=
  ∀ next, ∃ ts, Items grammar body (g.length + 60) (g ++ next) ts next ∧ ts.length ≤ g.length

theorem IsGap.nil (body : Expr) : IsGap body [] := fun _ => ⟨[], .nil, Nat.le_refl _⟩

theorem IsGap.append {body : Expr} {g1 g2 : List Char} (h1 : IsGap body g1) (h2 : IsGap body g2) : IsGap body (g1 ++ g2) := by
  intro next
  obtain ⟨ts2, i2, l2⟩ := h2 next
  obtain ⟨ts1, i1, l1⟩ := h1 (g2 ++ next)
  refine ⟨ts1 ++ ts2, ?_, by simp; omega⟩
  rw [List.append_assoc]
  exact (i1.mono (by simp)).append (i2.mono (by simp))

/-! ### the three gap rules -/

theorem lk_UU : grammar.lookup "__" = some rule_UU := by rfl
theorem lk_EOL : grammar.lookup "EOL" = some rule_EOL := by rfl
theorem lk_Comment : grammar.lookup "Comment" = some rule_Comment := by rfl
theorem lk_MLC : grammar.lookup "MultiLineComment" = some rule_MultiLineComment := by rfl
theorem lk_SLC : grammar.lookup "SingleLineComment" = some rule_SingleLineComment := by rfl
theorem lk_SourceChar : grammar.lookup "SourceChar" = some rule_SourceChar := by rfl

/-- The repetition bodies of `WS`, `_` and `__`. -/
def wsBody : Expr := .ref "Whitespace"
def uBody : Expr := .choice [.ref "Whitespace", .ref "MultiLineCommentNoLineTerminator"]
def uuBody : Expr := .choice [.ref "Whitespace", .ref "EOL", .ref "Comment"]

theorem rule_WS_eq : rule_WS = .star wsBody := rfl
theorem rule_U_eq : rule_U = .star uBody := rfl
theorem rule_UU_eq : rule_UU = .star uuBody := rfl

/-- What `Whitespace` accepts: space, tab, carriage return. -/
def wsC (c : Char) : Bool := clsMatches [' ', '\t', '\r'] [] false false c

/-- Characters that start no item of any gap rule (every token of the rules below starts with one). -/
def tokC (c : Char) : Bool := !(wsC c || c == '\n' || c == '/' || c == '#')

def TokHead (x : List Char) : Prop := ∀ c r, x = c :: r → tokC c = true

theorem ws_parses (c : Char) (r : List Char) (h : wsC c = true) : ParsesTo grammar (.ref "Whitespace") (c :: r) (.text [c]) r 2 :=
  ParsesTo.ref lk_Whitespace (by rw [rule_Whitespace]; exact ParsesTo.cls h)

theorem ws_fails (c : Char) (r : List Char) (h : wsC c = false) : FailsOn grammar (.ref "Whitespace") (c :: r) 2 :=
  FailsOn.ref lk_Whitespace (by rw [rule_Whitespace]; exact FailsOn.cls h)

theorem ws_fails_nil : FailsOn grammar (.ref "Whitespace") [] 2 :=
  FailsOn.ref lk_Whitespace (by rw [rule_Whitespace]; exact FailsOn.cls_nil)

/-- One white space character is an item of all three gap rules. -/
theorem IsGap.wsChar_ws (c : Char) (h : wsC c = true) : IsGap wsBody [c] := by
  intro next
  exact ⟨[.text [c]], .cons ((ws_parses c next h).mono (by simp)) .nil, by simp⟩

theorem IsGap.wsChar_u (c : Char) (h : wsC c = true) : IsGap uBody [c] := by
  intro next
  refine ⟨[.text [c]], .cons ?_ .nil, by simp⟩
  exact (ParsesTo.choice (ChoiceRun.head (ws_parses c next h))).mono (by simp)

theorem IsGap.wsChar_uu (c : Char) (h : wsC c = true) : IsGap uuBody [c] := by
  intro next
  refine ⟨[.text [c]], .cons ?_ .nil, by simp⟩
  exact (ParsesTo.choice (ChoiceRun.head (ws_parses c next h))).mono (by simp)

/-- A newline is an item of `__`. -/
theorem IsGap.newline_uu : IsGap uuBody ['\n'] := by
  intro next
  refine ⟨[.text ['\n']], .cons ?_ .nil, by simp⟩
  have h1 : FailsOn grammar (.ref "Whitespace") ('\n' :: next) 2 := ws_fails _ _ (by decide)
  have h2 : ParsesTo grammar (.ref "EOL") ('\n' :: next) (.text ['\n']) next 2 :=
    ParsesTo.ref lk_EOL (by rw [rule_EOL]; exact ParsesTo.lit_append ['\n'] next)
  exact (ParsesTo.choice (ChoiceRun.tail h1 (ChoiceRun.head h2))).mono (by simp)

/-- White space only. -/
def IsWs (w : List Char) : Prop := ∀ c ∈ w, wsC c = true

theorem IsGap.of_ws {body : Expr} (h1 : ∀ c, wsC c = true → IsGap body [c]) : ∀ w, IsWs w → IsGap body w := by
  intro w
  induction w with
  | nil => intro _; exact IsGap.nil body
  | cons c t ih =>
    intro hw
    have := (h1 c (hw c (by simp))).append (ih (fun x hx => hw x (by simp [hx])))
    simpa using this

theorem IsWs.gap_ws {w} (h : IsWs w) : IsGap wsBody w := IsGap.of_ws IsGap.wsChar_ws w h
theorem IsWs.gap_u {w} (h : IsWs w) : IsGap uBody w := IsGap.of_ws IsGap.wsChar_u w h
theorem IsWs.gap_uu {w} (h : IsWs w) : IsGap uuBody w := IsGap.of_ws IsGap.wsChar_uu w h

/-! ### a gap rule consumes exactly a gap when a token follows -/

theorem docstring_fails_tok (x : List Char) (h : ∀ c r, x = c :: r → c ≠ '/') : FailsOn grammar (.ref "DocString") x 10 := by
  have hl : matchLit false ['/', '*', '*', '@'] x = none := by
    cases x with
    | nil => rfl
    | cons c r => simp [matchLit, h c r rfl]
  have h1 := FailsOn.act (tag := "DocString1") (FailsOn.seq (SeqFail.head (es := [
    .star (.seq [.notP (.lit ['*', '/'] false), .ref "SourceChar"]), .lit ['*', '/'] false]) (FailsOn.lit (g := grammar) hl)))
  exact (FailsOn.ref lk_DocString (by rw [rule_DocString]; exact h1)).mono (by simp)

theorem mlcn_fails_tok (x : List Char) (h : ∀ c r, x = c :: r → c ≠ '/') : FailsOn grammar (.ref "MultiLineCommentNoLineTerminator") x 20 := by
  have hl : matchLit false ['/', '*'] x = none := by
    cases x with
    | nil => rfl
    | cons c r => simp [matchLit, h c r rfl]
  have h1 : ParsesTo grammar (.notP (.ref "DocString")) x .nil x 11 := ParsesTo.notP (docstring_fails_tok x h)
  have h2 := FailsOn.seq (SeqFail.tail h1 (SeqFail.head (es := [
    .star (.seq [.notP (.choice [.lit ['*', '/'] false, .ref "EOL"]), .ref "SourceChar"]), .lit ['*', '/'] false])
    ((FailsOn.lit (g := grammar) hl).mono (by omega : 1 ≤ 11))))
  exact (FailsOn.ref lk_MLCN (by rw [rule_MultiLineCommentNoLineTerminator]; exact h2)).mono (by simp)

theorem tok_ne_slash {x : List Char} (h : TokHead x) : ∀ c r, x = c :: r → c ≠ '/' := by
  intro c r hx hc
  subst hc
  have := h _ r hx
  revert this; decide

theorem tok_not_ws {x : List Char} (h : TokHead x) : ∀ c r, x = c :: r → wsC c = false := by
  intro c r hx
  have := h c r hx
  simp only [tokC, Bool.not_eq_true', Bool.or_eq_false_iff] at this
  exact this.1.1.1

theorem wsRef_fails_tok (x : List Char) (h : TokHead x) : FailsOn grammar (.ref "Whitespace") x 2 := by
  cases x with
  | nil => exact ws_fails_nil
  | cons c r => exact ws_fails c r (tok_not_ws h c r rfl)

theorem uBody_fails_tok (x : List Char) (h : TokHead x) : FailsOn grammar uBody x 25 := by
  refine (FailsOn.choice (k := 20) (es := [.ref "Whitespace", .ref "MultiLineCommentNoLineTerminator"]) ?_).mono (by simp)
  intro e he
  simp only [List.mem_cons, List.mem_nil_iff, or_false] at he
  rcases he with rfl | rfl
  · exact (wsRef_fails_tok x h).mono (by omega)
  · exact mlcn_fails_tok x (tok_ne_slash h)

/-- Rule `_` consumes exactly a gap of its kind when a token (or the end) follows. -/
theorem u_consumes (g next : List Char) (hg : IsGap uBody g) (hn : TokHead next) :
    ∃ ts, ParsesTo grammar (.ref "_") (g ++ next) (.seq ts) next (2 * g.length + 70) := by
  obtain ⟨ts, hi, hl⟩ := hg next
  have h1 := ParsesTo.star ((hi.mono (by omega : g.length + 60 ≤ g.length + 60)).starRun ((uBody_fails_tok next hn).mono (by omega)))
  have h2 := ParsesTo.ref lk_U (by rw [rule_U_eq]; exact h1)
  exact ⟨ts, h2.mono (by omega)⟩

theorem wsBody_fails (x : List Char) (h : StopsAt wsC x) : FailsOn grammar wsBody x 2 := by
  cases x with
  | nil => exact ws_fails_nil
  | cons c r => exact ws_fails c r (h c r rfl)

/-- Rule `WS` consumes exactly a run of white space when no white space follows. -/
theorem ws_consumes (w next : List Char) (hw : IsWs w) (hn : StopsAt wsC next) :
    ∃ ts, ParsesTo grammar (.ref "WS") (w ++ next) (.seq ts) next (2 * w.length + 70) := by
  obtain ⟨ts, hi, hl⟩ := hw.gap_ws next
  have h1 := ParsesTo.star (hi.starRun ((wsBody_fails next hn).mono (by omega : 2 ≤ w.length + 60)))
  have h2 := ParsesTo.ref lk_WS (by rw [rule_WS_eq]; exact h1)
  exact ⟨ts, h2.mono (by omega)⟩

theorem tok_ne_hash {x : List Char} (h : TokHead x) : ∀ c r, x = c :: r → c ≠ '#' := by
  intro c r hx hc
  subst hc
  have := h _ r hx
  revert this; decide

theorem tok_ne_nl {x : List Char} (h : TokHead x) : ∀ c r, x = c :: r → c ≠ '\n' := by
  intro c r hx hc
  subst hc
  have := h _ r hx
  revert this; decide

theorem lit_fails_head (w : Char) (ws x : List Char) (h : ∀ c r, x = c :: r → c ≠ w) : matchLit false (w :: ws) x = none := by
  cases x with
  | nil => rfl
  | cons c r => simp [matchLit, h c r rfl]

theorem comment_fails_tok (x : List Char) (h : TokHead x) : FailsOn grammar (.ref "Comment") x 30 := by
  have hs := tok_ne_slash h
  have h1 : ParsesTo grammar (.notP (.ref "DocString")) x .nil x 11 := ParsesTo.notP (docstring_fails_tok x hs)
  have hm : FailsOn grammar (.ref "MultiLineComment") x 20 := by
    have h2 := FailsOn.seq (SeqFail.tail h1 (SeqFail.head (es := [
      .star (.seq [.notP (.lit ['*', '/'] false), .ref "SourceChar"]), .lit ['*', '/'] false])
      ((FailsOn.lit (g := grammar) (lit_fails_head '/' ['*'] x hs)).mono (by omega : 1 ≤ 11))))
    exact (FailsOn.ref lk_MLC (by rw [rule_MultiLineComment]; exact h2)).mono (by simp)
  have hsl : FailsOn grammar (.ref "SingleLineComment") x 20 := by
    have a1 := FailsOn.seq (k := 1) (SeqFail.head (es := [.star (.seq [.notP (.ref "EOL"), .ref "SourceChar"])])
      (FailsOn.lit (g := grammar) (lit_fails_head '/' ['/'] x hs)))
    have a2 := FailsOn.seq (k := 1) (SeqFail.head (es := [.star (.seq [.notP (.ref "EOL"), .ref "SourceChar"])])
      (FailsOn.lit (g := grammar) (lit_fails_head '#' [] x (tok_ne_hash h))))
    have hc : FailsOn grammar rule_SingleLineComment x 10 := by
      rw [rule_SingleLineComment]
      refine (FailsOn.choice (k := 5) ?_).mono (by simp)
      intro e he
      simp only [List.mem_cons, List.mem_nil_iff, or_false] at he
      rcases he with rfl | rfl
      · exact a1.mono (by simp)
      · exact a2.mono (by simp)
    exact (FailsOn.ref lk_SLC hc).mono (by omega)
  have hc : FailsOn grammar rule_Comment x 25 := by
    rw [rule_Comment]
    refine (FailsOn.choice (k := 20) ?_).mono (by simp)
    intro e he
    simp only [List.mem_cons, List.mem_nil_iff, or_false] at he
    rcases he with rfl | rfl
    · exact hm
    · exact hsl
  exact (FailsOn.ref lk_Comment hc).mono (by omega)

theorem uuBody_fails_tok (x : List Char) (h : TokHead x) : FailsOn grammar uuBody x 35 := by
  refine (FailsOn.choice (k := 30) (es := [.ref "Whitespace", .ref "EOL", .ref "Comment"]) ?_).mono (by simp)
  intro e he
  simp only [List.mem_cons, List.mem_nil_iff, or_false] at he
  rcases he with rfl | rfl | rfl
  · exact (wsRef_fails_tok x h).mono (by omega)
  · exact (FailsOn.ref lk_EOL (by rw [rule_EOL]; exact FailsOn.lit (lit_fails_head '\n' [] x (tok_ne_nl h)))).mono (by omega)
  · exact comment_fails_tok x h

/-- Rule `__` consumes exactly a gap of its kind when a token (or the end) follows. -/
theorem uu_consumes (g next : List Char) (hg : IsGap uuBody g) (hn : TokHead next) :
    ∃ ts, ParsesTo grammar (.ref "__") (g ++ next) (.seq ts) next (2 * g.length + 70) := by
  obtain ⟨ts, hi, hl⟩ := hg next
  have h1 := ParsesTo.star ((hi.mono (by omega : g.length + 60 ≤ g.length + 60)).starRun ((uuBody_fails_tok next hn).mono (by omega)))
  have h2 := ParsesTo.ref lk_UU (by rw [rule_UU_eq]; exact h1)
  exact ⟨ts, h2.mono (by omega)⟩

end FV.PegIdl
