/-
Helper lemmas for C14 (Props/C14.lean): the mutex invariant of the shared-output model
`FV.Proc.step` and its preservation by every action.
-/
import FV.Model.Processor

namespace FV.Proc

/-- Invariant of the concurrent-writers system. `out_eq` is the statement of interest; the
rest is what makes it inductive. -/
structure SysInv (s : Sys) : Prop where
  out_eq : s.out = (s.fin.map fun g => (s.reply g).flatten).flatten ++ s.partialOut
  holder_holding : ∀ g, s.holder = some g → ∃ w, s.st g = .holding w ∧ w ≤ (s.reply g).length
  holding_holder : ∀ g w, s.st g = .holding w → s.holder = some g
  fin_done : ∀ g, g ∈ s.fin ↔ s.st g = .done
  fin_nodup : s.fin.Nodup
  lt_n : ∀ g, s.st g ≠ .idle → g < s.n

theorem take_succ_flatten (l : List Bytes) (w : Nat) (c : Bytes) (h : l[w]? = some c) :
    (l.take (w + 1)).flatten = (l.take w).flatten ++ c := by
  rw [List.take_add_one, h]; simp

theorem inv_init (n : Nat) (reply : Nat → List Bytes) : SysInv (Sys.init n reply) := by
  constructor <;> simp [Sys.init, Sys.partialOut]

theorem step_const (s s' : Sys) (a : Action) (h : step s a = some s') : s'.n = s.n ∧ s'.reply = s.reply := by
  cases a with
  | lock g =>
    simp only [step] at h
    split at h
    · cases h; exact ⟨rfl, rfl⟩
    · cases h
  | writeChunk g =>
    simp only [step] at h
    split at h
    · split at h
      · split at h
        · cases h; exact ⟨rfl, rfl⟩
        · cases h
      · cases h
    · cases h
  | unlock g =>
    simp only [step] at h
    split at h
    · cases h; exact ⟨rfl, rfl⟩
    · cases h

theorem inv_step (s s' : Sys) (a : Action) (hi : SysInv s) (h : step s a = some s') : SysInv s' := by
  cases a with
  | lock g =>
    simp only [step] at h
    split at h
    · rename_i hc
      obtain ⟨hn, hh, hst⟩ := hc
      cases h
      have hpo : s.partialOut = [] := by simp [Sys.partialOut, hh]
      constructor
      · simp only [Sys.partialOut, upd, if_true, List.take_zero, List.flatten_nil]
        have := hi.out_eq
        rw [hpo] at this
        exact this
      · intro g' hg'
        simp only [Option.some.injEq] at hg'
        subst hg'
        exact ⟨0, by simp [upd], Nat.zero_le _⟩
      · intro g' w hg'
        simp only [upd] at hg'
        split at hg'
        · rename_i heq; rw [heq]
        · have := hi.holding_holder g' w hg'
          rw [hh] at this; cases this
      · intro g'
        simp only [upd]
        split
        · rename_i heq
          have heq' := heq.symm; subst heq'
          constructor
          · intro hm; have := (hi.fin_done g).1 hm; rw [hst] at this; cases this
          · intro hx; cases hx
        · exact hi.fin_done g'
      · exact hi.fin_nodup
      · intro g' hg'
        simp only [upd] at hg'
        split at hg'
        · rename_i heq; rw [heq]; exact hn
        · exact hi.lt_n g' hg'
    · cases h
  | writeChunk g =>
    simp only [step] at h
    split at h
    · rename_i hh
      split at h
      · rename_i w hst
        split at h
        · rename_i c hc
          cases h
          have hpo : s.partialOut = ((s.reply g).take w).flatten := by simp [Sys.partialOut, hh, hst]
          have hw : w < (s.reply g).length := by
            have := List.getElem?_eq_some_iff.1 hc
            exact this.1
          constructor
          · simp only [Sys.partialOut, hh, upd, if_true]
            rw [take_succ_flatten _ _ _ hc, hi.out_eq, hpo]
            simp
          · intro g' hg'
            simp only [hh, Option.some.injEq] at hg'
            subst hg'
            exact ⟨w + 1, by simp [upd], hw⟩
          · intro g' w' hg'
            simp only [upd] at hg'
            split at hg'
            · rename_i heq; rw [heq]; exact hh
            · exact hi.holding_holder g' w' hg'
          · intro g'
            simp only [upd]
            split
            · rename_i heq
              have heq' := heq.symm; subst heq'
              constructor
              · intro hm; have := (hi.fin_done g).1 hm; rw [hst] at this; cases this
              · intro hx; cases hx
            · exact hi.fin_done g'
          · exact hi.fin_nodup
          · intro g' hg'
            simp only [upd] at hg'
            split at hg'
            · rename_i heq; rw [heq]; exact hi.lt_n g (by rw [hst]; intro hx; cases hx)
            · exact hi.lt_n g' hg'
        · cases h
      · cases h
    · cases h
  | unlock g =>
    simp only [step] at h
    split at h
    · rename_i hc
      obtain ⟨hh, hst⟩ := hc
      cases h
      have hpo : s.partialOut = (s.reply g).flatten := by simp [Sys.partialOut, hh, hst]
      have hnot : g ∉ s.fin := by
        intro hm; have := (hi.fin_done g).1 hm; rw [hst] at this; cases this
      constructor
      · simp only [Sys.partialOut]
        rw [hi.out_eq, hpo]
        simp
      · intro g' hg'; cases hg'
      · intro g' w hg'
        simp only [upd] at hg'
        split at hg'
        · cases hg'
        · have := hi.holding_holder g' w hg'
          rw [hh] at this
          simp only [Option.some.injEq] at this
          subst this
          rename_i hne; exact absurd rfl hne
      · intro g'
        simp only [upd, List.mem_append, List.mem_singleton]
        split
        · rename_i heq; simp [heq]
        · rename_i hne
          constructor
          · intro hm
            cases hm with
            | inl hm => exact (hi.fin_done g').1 hm
            | inr hm => exact absurd hm hne
          · intro hd; exact Or.inl ((hi.fin_done g').2 hd)
      · exact List.nodup_append.2 ⟨hi.fin_nodup, by simp, by
          intro a ha b hb
          simp only [List.mem_singleton] at hb
          subst hb
          intro hab; subst hab; exact hnot ha⟩
      · intro g' hg'
        simp only [upd] at hg'
        split at hg'
        · rename_i heq; rw [heq]; exact hi.lt_n g (by rw [hst]; intro hx; cases hx)
        · exact hi.lt_n g' hg'
    · cases h


theorem run_const (s s' : Sys) (acts : List Action) (h : run s acts = some s') :
    s'.n = s.n ∧ s'.reply = s.reply := by
  induction acts generalizing s with
  | nil => simp only [run, Option.some.injEq] at h; subst h; exact ⟨rfl, rfl⟩
  | cons a t ih =>
    simp only [run] at h
    split at h
    · rename_i s1 hs1
      have h1 := step_const s s1 a hs1
      have h2 := ih s1 h
      exact ⟨h2.1.trans h1.1, h2.2.trans h1.2⟩
    · cases h

theorem inv_run (s s' : Sys) (acts : List Action) (hi : SysInv s) (h : run s acts = some s') : SysInv s' := by
  induction acts generalizing s with
  | nil => simp only [run, Option.some.injEq] at h; subst h; exact hi
  | cons a t ih =>
    simp only [run] at h
    split at h
    · rename_i s1 hs1
      exact ih s1 (inv_step s s1 a hi hs1) h
    · cases h

end FV.Proc
