/-
Invariant of the adapter transport model (repaired code) and its preservation by every action (C15).
-/
import FV.Model.Adapter
namespace FV.Adapter

@[simp] theorem setCall_calls (s : Sys) (i j : Nat) (pc : CPc) :
    (setCall s i pc).calls[j]? = (s.calls[j]?).map fun c => if i = j then { c with pc := pc } else c := by
  simp [setCall, List.getElem?_modify]

@[simp] theorem setCall_incs (s : Sys) (i : Nat) (pc : CPc) : (setCall s i pc).incs = s.incs := rfl
@[simp] theorem setCall_isOpen (s : Sys) (i : Nat) (pc : CPc) : (setCall s i pc).isOpen = s.isOpen := rfl
@[simp] theorem setCall_mu (s : Sys) (i : Nat) (pc : CPc) : (setCall s i pc).mu = s.mu := rfl
@[simp] theorem setCall_fresh (s : Sys) (i : Nat) (pc : CPc) : (setCall s i pc).fresh = s.fresh := rfl
@[simp] theorem setCall_panicked (s : Sys) (i : Nat) (pc : CPc) : (setCall s i pc).panicked = s.panicked := rfl
@[simp] theorem setCall_mon (s : Sys) (i : Nat) (pc : CPc) : (setCall s i pc).mon = s.mon := rfl
@[simp] theorem setCall_monLog (s : Sys) (i : Nat) (pc : CPc) : (setCall s i pc).monLog = s.monLog := rfl
@[simp] theorem setCall_monSent (s : Sys) (i : Nat) (pc : CPc) : (setCall s i pc).monSent = s.monSent := rfl

@[simp] theorem setLoop_incs (s : Sys) (k j : Nat) (pc : LPc) :
    (setLoop s k pc).incs[j]? = (s.incs[j]?).map fun i => if k = j then { i with loop := pc } else i := by
  simp [setLoop, List.getElem?_modify]
@[simp] theorem setLoop_len (s : Sys) (k : Nat) (pc : LPc) : (setLoop s k pc).incs.length = s.incs.length := by
  simp [setLoop]
@[simp] theorem setLoop_calls (s : Sys) (k : Nat) (pc : LPc) : (setLoop s k pc).calls = s.calls := rfl
@[simp] theorem setLoop_isOpen (s : Sys) (k : Nat) (pc : LPc) : (setLoop s k pc).isOpen = s.isOpen := rfl
@[simp] theorem setLoop_mu (s : Sys) (k : Nat) (pc : LPc) : (setLoop s k pc).mu = s.mu := rfl
@[simp] theorem setLoop_fresh (s : Sys) (k : Nat) (pc : LPc) : (setLoop s k pc).fresh = s.fresh := rfl
@[simp] theorem setLoop_panicked (s : Sys) (k : Nat) (pc : LPc) : (setLoop s k pc).panicked = s.panicked := rfl
@[simp] theorem setLoop_mon (s : Sys) (k : Nat) (pc : LPc) : (setLoop s k pc).mon = s.mon := rfl
@[simp] theorem setLoop_monLog (s : Sys) (k : Nat) (pc : LPc) : (setLoop s k pc).monLog = s.monLog := rfl
@[simp] theorem setLoop_monSent (s : Sys) (k : Nat) (pc : LPc) : (setLoop s k pc).monSent = s.monSent := rfl

@[simp] theorem notifyMon_incs (s : Sys) (c : Cause) : (notifyMon s c).incs = s.incs := by
  unfold notifyMon; cases s.mon <;> simp only []; split <;> rfl
@[simp] theorem notifyMon_calls (s : Sys) (c : Cause) : (notifyMon s c).calls = s.calls := by
  unfold notifyMon; cases s.mon <;> simp only []; split <;> rfl
@[simp] theorem notifyMon_fresh (s : Sys) (c : Cause) : (notifyMon s c).fresh = s.fresh := by
  unfold notifyMon; cases s.mon <;> simp only []; split <;> rfl
@[simp] theorem notifyMon_panicked (s : Sys) (c : Cause) : (notifyMon s c).panicked = s.panicked := by
  unfold notifyMon; cases s.mon <;> simp only []; split <;> rfl
@[simp] theorem notifyMon_monLog (s : Sys) (c : Cause) : (notifyMon s c).monLog = s.monLog := by
  unfold notifyMon; cases s.mon <;> simp only []; split <;> rfl

/-- What `doClose` does to incarnation `j` (repaired code). -/
def closeInc (cur : Nat) (w : Closer) (j : Nat) (i : Inc) : Inc :=
  if j = cur then publish w (wake { i with sig := i.sig + 1 }) else wake i

theorem doClose_incs (s : Sys) (w : Closer) (hf : s.fresh = true) (j : Nat) :
    (doClose s w).incs[j]? = (s.incs[j]?).map (closeInc s.cur w j) := by
  unfold doClose
  simp only [notifyMon_incs, Sys.setSig, hf, if_true, Sys.curSig, Sys.sigOf, Sys.cur,
    List.getElem?_modify, List.getElem?_map]
  cases hj : s.incs[j]? with
  | none => simp
  | some i =>
    by_cases hc : s.incs.length - 1 = j
    · subst hc; simp [closeInc, hj]
    · have hc' : ¬ j = s.incs.length - 1 := fun h => hc h.symm
      simp [closeInc, hc, hc']

@[simp] theorem doClose_len (s : Sys) (w : Closer) : (doClose s w).incs.length = s.incs.length := by
  unfold doClose Sys.setSig
  split <;> simp
@[simp] theorem doClose_calls (s : Sys) (w : Closer) : (doClose s w).calls = s.calls := by
  unfold doClose Sys.setSig
  split <;> simp
@[simp] theorem doClose_isOpen (s : Sys) (w : Closer) : (doClose s w).isOpen = false := rfl
@[simp] theorem doClose_mu (s : Sys) (w : Closer) : (doClose s w).mu = none := rfl
@[simp] theorem doClose_fresh (s : Sys) (w : Closer) : (doClose s w).fresh = s.fresh := by
  unfold doClose Sys.setSig
  split <;> simp
@[simp] theorem doClose_monLog (s : Sys) (w : Closer) : (doClose s w).monLog = s.monLog := by
  unfold doClose Sys.setSig
  split <;> simp
theorem doClose_panicked (s : Sys) (w : Closer) :
    (doClose s w).panicked = (s.panicked || (s.incs[s.cur]?.map Inc.chanClosed).getD false) := by
  unfold doClose Sys.setSig
  split <;> simp

structure SysInv (s : Sys) : Prop where
  fresh : s.fresh = true
  noPanic : s.panicked = false
  muOpen : s.mu.isSome → s.isOpen = true
  muCall : ∀ i, s.mu = some (.call i) → s.calls[i]? = some ⟨.close, .atSignal⟩
  muLoop : ∀ k, s.mu = some (.loop k) → ∃ w, s.loopPc k = some (.atSignal w)
  callAt : ∀ i c, s.calls[i]? = some c → c.pc = .atSignal → s.mu = some (.call i)
  loopAt : ∀ k w, s.loopPc k = some (.atSignal w) → s.mu = some (.loop k)
  openInc : s.isOpen = true → ∃ i, s.incs[s.cur]? = some i ∧ i.sig = 0 ∧ i.chan = [] ∧ i.chanClosed = false ∧ i.closedBy = none
  closedInc : ∀ k i, s.incs[k]? = some i → ¬ s.openAt k → ∃ w, i.closedBy = some w ∧ i.chan = [w.cause] ∧ i.chanClosed = true
  loopDone : ∀ k, s.loopPc k = some .done → ¬ s.openAt k
  monBuf : ∀ buf, s.mon = some buf → buf.length ≤ 1
  monCount : s.monSent = s.monLog.length + (s.mon.getD []).length

theorem inv_init : SysInv (init true) := by
  constructor <;> simp [init, Sys.loopPc, Sys.openAt]

/-- a call finishes (or stays) without touching anything but its own pc; nobody holds the mutex -/
theorem inv_setCall_done {s : Sys} (h : SysInv s) (hmu : s.mu = none) (i : Nat) (r : Ret) :
    SysInv (setCall s i (.done r)) := by
  constructor
  · exact h.fresh
  · exact h.noPanic
  · simp [hmu]
  · simp [hmu]
  · simp [hmu]
  · intro j c hc hpc
    simp only [setCall_calls, Option.map_eq_some_iff] at hc
    obtain ⟨c0, hc0, rfl⟩ := hc
    by_cases hij : i = j
    · simp [hij] at hpc
    · simp only [hij, if_false] at hpc
      have := h.callAt j c0 hc0 hpc
      simp [hmu] at this
  · intro k w hk; exact h.loopAt k w hk
  · exact h.openInc
  · exact h.closedInc
  · exact h.loopDone
  · exact h.monBuf
  · exact h.monCount

theorem inv_invoke {s : Sys} (h : SysInv s) (kd : Kind) :
    SysInv { s with calls := s.calls ++ [⟨kd, .start⟩] } := by
  constructor
  · exact h.fresh
  · exact h.noPanic
  · exact h.muOpen
  · intro i hi
    have := h.muCall i hi
    simp only []
    rw [List.getElem?_append_left]; exact this
    have := (List.getElem?_eq_some_iff.mp this).1; exact this
  · exact h.muLoop
  · intro j c hc hpc
    simp only [] at hc
    by_cases hj : j < s.calls.length
    · rw [List.getElem?_append_left hj] at hc; exact h.callAt j c hc hpc
    · rw [List.getElem?_append_right (by omega)] at hc
      by_cases h0 : j - s.calls.length = 0
      · simp [h0] at hc; subst hc; simp at hpc
      · have : (j - s.calls.length) = (j - s.calls.length - 1) + 1 := by omega
        rw [this] at hc; simp at hc
  · exact h.loopAt
  · exact h.openInc
  · exact h.closedInc
  · exact h.loopDone
  · exact h.monBuf
  · exact h.monCount

theorem cur_lt_of_some {s : Sys} {i : Inc} (h : s.incs[s.cur]? = some i) : s.cur + 1 = s.incs.length := by
  have := (List.getElem?_eq_some_iff.mp h).1
  unfold Sys.cur at *; omega

theorem openAt_iff_cur {s : Sys} (hne : s.incs ≠ []) (k : Nat) : s.openAt k ↔ (s.isOpen = true ∧ k = s.cur) := by
  have : 0 < s.incs.length := List.length_pos_iff.mpr hne
  unfold Sys.openAt Sys.cur; constructor <;> (rintro ⟨a, b⟩; exact ⟨a, by omega⟩)

/-- Open succeeds: a new incarnation -/
theorem inv_open {s : Sys} (h : SysInv s) (hmu : s.mu = none) (hcl : s.isOpen = false) :
    SysInv { s with isOpen := true, incs := s.incs ++ [newInc] } := by
  constructor
  · exact h.fresh
  · exact h.noPanic
  · intro _; rfl
  · simp [hmu]
  · simp [hmu]
  · intro j c hc hpc; have := h.callAt j c hc hpc; simp [hmu] at this
  · intro k w hk
    simp only [Sys.loopPc] at hk
    by_cases hj : k < s.incs.length
    · rw [List.getElem?_append_left hj] at hk; have := h.loopAt k w hk; simp [hmu] at this
    · rw [List.getElem?_append_right (by omega)] at hk
      by_cases h0 : k - s.incs.length = 0
      · simp [h0, newInc] at hk
      · have : (k - s.incs.length) = (k - s.incs.length - 1) + 1 := by omega
        rw [this] at hk; simp at hk
  · intro _
    refine ⟨newInc, ?_, rfl, rfl, rfl, rfl⟩
    simp [Sys.cur]
  · intro k i hk hno
    simp only [] at hk
    by_cases hj : k < s.incs.length
    · rw [List.getElem?_append_left hj] at hk
      exact h.closedInc k i hk (by simp [Sys.openAt, hcl])
    · exfalso; apply hno
      have := (List.getElem?_eq_some_iff.mp hk).1
      simp at this
      simp [Sys.openAt]; omega
  · intro k hk
    simp only [Sys.loopPc] at hk
    by_cases hj : k < s.incs.length
    · simp [Sys.openAt]; omega
    · rw [List.getElem?_append_right (by omega)] at hk
      by_cases h0 : k - s.incs.length = 0
      · simp [h0, newInc] at hk
      · have : (k - s.incs.length) = (k - s.incs.length - 1) + 1 := by omega
        rw [this] at hk; simp at hk
  · exact h.monBuf
  · exact h.monCount

/-- `setLoop` to a pc that is neither `atSignal` nor `done`, from a pc that is not `atSignal` -/
theorem inv_setLoop {s : Sys} (h : SysInv s) (k : Nat) (pc : LPc) (hpc1 : ∀ w, pc ≠ .atSignal w) (hpc2 : pc ≠ .done)
    (hold : ∀ w, s.loopPc k ≠ some (.atSignal w)) : SysInv (setLoop s k pc) := by
  constructor
  · exact h.fresh
  · exact h.noPanic
  · exact h.muOpen
  · exact h.muCall
  · intro j hj
    obtain ⟨w, hw⟩ := h.muLoop j hj
    refine ⟨w, ?_⟩
    simp only [Sys.loopPc, setLoop_incs, Option.map_map] at hw ⊢
    by_cases hkj : k = j
    · subst hkj; exact absurd hw (hold w)
    · cases hi : s.incs[j]? <;> simp [hi, hkj] at hw ⊢; exact hw
  · exact h.callAt
  · intro j w hj
    simp only [Sys.loopPc, setLoop_incs, Option.map_map] at hj
    by_cases hkj : k = j
    · subst hkj; cases hi : s.incs[k]? <;> simp [hi] at hj; exact absurd hj (hpc1 w)
    · apply h.loopAt j w
      cases hi : s.incs[j]? <;> simp [hi, hkj, Sys.loopPc] at hj ⊢; exact hj
  · intro ho
    obtain ⟨i, hi, h1, h2, h3, h4⟩ := h.openInc ho
    refine ⟨if k = s.cur then { i with loop := pc } else i, ?_, ?_, ?_, ?_, ?_⟩
    · have hlen : (setLoop s k pc).cur = s.cur := by simp [Sys.cur]
      rw [hlen, setLoop_incs, hi]; rfl
    all_goals split <;> assumption
  · intro j i hj hno
    simp only [setLoop_incs, Option.map_eq_some_iff] at hj
    obtain ⟨i0, hi0, rfl⟩ := hj
    have := h.closedInc j i0 hi0 (by simpa [Sys.openAt] using hno)
    split <;> exact this
  · intro j hj
    simp only [Sys.loopPc, setLoop_incs, Option.map_map] at hj
    have : s.loopPc j = some .done := by
      by_cases hkj : k = j
      · subst hkj; cases hi : s.incs[k]? <;> simp [hi] at hj; exact absurd hj hpc2
      · cases hi : s.incs[j]? <;> simp [hi, hkj, Sys.loopPc] at hj ⊢; exact hj
    simpa [Sys.openAt] using h.loopDone j this
  · exact h.monBuf
  · exact h.monCount

theorem loopPc_setLoop (s : Sys) (k j : Nat) (pc : LPc) :
    (setLoop s k pc).loopPc j = if k = j then (s.loopPc j).map (fun _ => pc) else s.loopPc j := by
  simp only [Sys.loopPc, setLoop_incs, Option.map_map]
  by_cases hkj : k = j <;> cases hi : s.incs[j]? <;> simp [hkj]

/-- a read loop returns; its incarnation is not the open one -/
theorem inv_setLoop_done {s : Sys} (h : SysInv s) (k : Nat) (hno : ¬ s.openAt k)
    (hold : ∀ w, s.loopPc k ≠ some (.atSignal w)) : SysInv (setLoop s k .done) := by
  constructor
  · exact h.fresh
  · exact h.noPanic
  · exact h.muOpen
  · exact h.muCall
  · intro j hj
    obtain ⟨w, hw⟩ := h.muLoop j hj
    refine ⟨w, ?_⟩
    rw [loopPc_setLoop]
    by_cases hkj : k = j
    · subst hkj; exact absurd hw (hold w)
    · simp [hkj]; exact hw
  · exact h.callAt
  · intro j w hj
    rw [loopPc_setLoop] at hj
    by_cases hkj : k = j
    · subst hkj; cases hp : s.loopPc k <;> simp [hp] at hj
    · simp [hkj] at hj; exact h.loopAt j w hj
  · intro ho
    obtain ⟨i, hi, h1, h2, h3, h4⟩ := h.openInc ho
    refine ⟨if k = s.cur then { i with loop := .done } else i, ?_, ?_, ?_, ?_, ?_⟩
    · have hlen : (setLoop s k .done).cur = s.cur := by simp [Sys.cur]
      rw [hlen, setLoop_incs, hi]; rfl
    all_goals split <;> assumption
  · intro j i hj hn
    simp only [setLoop_incs, Option.map_eq_some_iff] at hj
    obtain ⟨i0, hi0, rfl⟩ := hj
    have := h.closedInc j i0 hi0 (by simpa [Sys.openAt] using hn)
    split <;> exact this
  · intro j hj
    rw [loopPc_setLoop] at hj
    by_cases hkj : k = j
    · subst hkj; simpa [Sys.openAt] using hno
    · simp [hkj] at hj; simpa [Sys.openAt] using h.loopDone j hj
  · exact h.monBuf
  · exact h.monCount

/-- close(): the mutex is taken by call `i`, transport open -/
theorem inv_acquire_call {s : Sys} (h : SysInv s) (hmu : s.mu = none) (ho : s.isOpen = true) (i : Nat)
    (hc : s.calls[i]? = some ⟨.close, .start⟩) :
    SysInv (setCall { s with mu := some (.call i) } i .atSignal) := by
  constructor
  · exact h.fresh
  · exact h.noPanic
  · intro _; exact ho
  · intro j hj
    simp only [setCall_mu, Option.some.injEq, Pid.call.injEq] at hj
    subst hj
    simp [hc]
  · intro k hk; simp at hk
  · intro j c hcj hpc
    simp only [setCall_calls, Option.map_eq_some_iff] at hcj
    obtain ⟨c0, hc0, rfl⟩ := hcj
    by_cases hij : i = j
    · subst hij; rfl
    · simp only [hij, if_false] at hpc
      have := h.callAt j c0 hc0 hpc
      simp [hmu] at this
  · intro k w hk
    have := h.loopAt k w hk
    simp [hmu] at this
  · exact h.openInc
  · exact h.closedInc
  · exact h.loopDone
  · exact h.monBuf
  · exact h.monCount

theorem inv_acquire_loop {s : Sys} (h : SysInv s) (hmu : s.mu = none) (ho : s.isOpen = true) (k : Nat) (w : Closer)
    (hk : ∃ pc, s.loopPc k = some pc) :
    SysInv (setLoop { s with mu := some (.loop k) } k (.atSignal w)) := by
  have hnone : ∀ j w', s.loopPc j ≠ some (.atSignal w') := by
    intro j w' hj; have := h.loopAt j w' hj; simp [hmu] at this
  constructor
  · exact h.fresh
  · exact h.noPanic
  · intro _; exact ho
  · intro j hj; simp at hj
  · intro j hj
    simp only [setLoop_mu, Option.some.injEq, Pid.loop.injEq] at hj
    subst hj
    refine ⟨w, ?_⟩
    rw [loopPc_setLoop]
    obtain ⟨pc, hpc⟩ := hk
    simp [Sys.loopPc] at hpc ⊢
    obtain ⟨a, ha, _⟩ := hpc
    simp [ha]
  · intro j c hcj hpc
    have := h.callAt j c hcj hpc
    simp [hmu] at this
  · intro j w' hj
    rw [loopPc_setLoop] at hj
    by_cases hkj : k = j
    · subst hkj; rfl
    · simp [hkj] at hj; exact absurd hj (hnone j w')
  · intro _
    obtain ⟨i, hi, h1, h2, h3, h4⟩ := h.openInc ho
    refine ⟨if k = s.cur then { i with loop := .atSignal w } else i, ?_, ?_, ?_, ?_, ?_⟩
    · have hlen : (setLoop { s with mu := some (.loop k) } k (.atSignal w)).cur = s.cur := by simp [Sys.cur]
      rw [hlen, setLoop_incs]; simp only []; rw [hi]; rfl
    all_goals split <;> assumption
  · intro j i hj hn
    simp only [setLoop_incs, Option.map_eq_some_iff] at hj
    obtain ⟨i0, hi0, rfl⟩ := hj
    have := h.closedInc j i0 hi0 (by simpa [Sys.openAt] using hn)
    split <;> exact this
  · intro j hj
    rw [loopPc_setLoop] at hj
    by_cases hkj : k = j
    · subst hkj; cases hp : ({ s with mu := some (Pid.loop k) } : Sys).loopPc k <;> simp [hp] at hj
    · simp [hkj] at hj
      have := h.loopDone j hj
      simpa [Sys.openAt] using this
  · exact h.monBuf
  · exact h.monCount

theorem setSig_incs (s : Sys) (hf : s.fresh = true) (k n j : Nat) :
    (s.setSig k n).incs[j]? = (s.incs[j]?).map fun i => if k = j then { i with sig := n } else i := by
  simp [Sys.setSig, hf, List.getElem?_modify]

theorem setSig_loopPc (s : Sys) (hf : s.fresh = true) (k n j : Nat) : (s.setSig k n).loopPc j = s.loopPc j := by
  simp only [Sys.loopPc, setSig_incs s hf, Option.map_map]
  cases s.incs[j]? <;> simp
  split <;> rfl

theorem setSig_other (s : Sys) (hf : s.fresh = true) (k n : Nat) :
    (s.setSig k n).fresh = s.fresh ∧ (s.setSig k n).isOpen = s.isOpen ∧ (s.setSig k n).mu = s.mu ∧
    (s.setSig k n).calls = s.calls ∧ (s.setSig k n).mon = s.mon ∧ (s.setSig k n).monLog = s.monLog ∧
    (s.setSig k n).monSent = s.monSent ∧ (s.setSig k n).panicked = s.panicked ∧
    (s.setSig k n).incs.length = s.incs.length := by
  simp [Sys.setSig, hf]

/-- the token count of an incarnation that is not the open one is unconstrained -/
theorem inv_setSig {s : Sys} (h : SysInv s) (k n : Nat) (hno : ¬ s.openAt k) : SysInv (s.setSig k n) := by
  obtain ⟨e1, e2, e3, e4, e5, e6, e7, e8, e9⟩ := setSig_other s h.fresh k n
  have hpc := setSig_loopPc s h.fresh k n
  have hcur : (s.setSig k n).cur = s.cur := by simp [Sys.cur, e9]
  have hoa : ∀ j, (s.setSig k n).openAt j ↔ s.openAt j := by intro j; simp [Sys.openAt, e2, e9]
  constructor
  · rw [e1]; exact h.fresh
  · rw [e8]; exact h.noPanic
  · rw [e3, e2]; exact h.muOpen
  · rw [e3, e4]; exact h.muCall
  · rw [e3]; intro j hj; obtain ⟨w, hw⟩ := h.muLoop j hj; exact ⟨w, by rw [hpc]; exact hw⟩
  · rw [e3, e4]; exact h.callAt
  · rw [e3]; intro j w hj; rw [hpc] at hj; exact h.loopAt j w hj
  · rw [e2, hcur]; intro ho
    obtain ⟨i, hi, h1, h2, h3, h4⟩ := h.openInc ho
    have hk : k ≠ s.cur := by
      intro hk; apply hno; subst hk; exact ⟨ho, cur_lt_of_some hi⟩
    refine ⟨i, ?_, h1, h2, h3, h4⟩
    rw [setSig_incs s h.fresh, hi]; simp [hk]
  · intro j i hj hn
    rw [setSig_incs s h.fresh] at hj
    simp only [Option.map_eq_some_iff] at hj
    obtain ⟨i0, hi0, rfl⟩ := hj
    have := h.closedInc j i0 hi0 (by rw [← hoa]; exact hn)
    split <;> exact this
  · intro j hj; rw [hpc] at hj; rw [hoa]; exact h.loopDone j hj
  · rw [e5]; exact h.monBuf
  · rw [e7, e6, e5]; exact h.monCount

theorem sigOf_pos_not_open {s : Sys} (h : SysInv s) (k : Nat) (hp : s.sigOf k > 0) : ¬ s.openAt k := by
  intro ⟨ho, hk⟩
  obtain ⟨i, hi, h1, _⟩ := h.openInc ho
  have : k = s.cur := by unfold Sys.cur; omega
  subst this
  simp [Sys.sigOf, h.fresh, hi, h1] at hp

theorem curSig_zero {s : Sys} (h : SysInv s) (ho : s.isOpen = true) : s.curSig = 0 := by
  obtain ⟨i, hi, h1, _⟩ := h.openInc ho
  simp [Sys.curSig, Sys.sigOf, h.fresh, hi, h1]

theorem closeInc_loop (cur : Nat) (w : Closer) (j : Nat) (i : Inc) :
    (closeInc cur w j i).loop = if i.loop = .reading then .onerror .err else i.loop := by
  unfold closeInc publish wake
  split <;> split <;> simp_all

theorem doClose_loopPc_at (s : Sys) (hf : s.fresh = true) (w : Closer) (j : Nat) (w' : Closer) :
    (doClose s w).loopPc j = some (.atSignal w') ↔ s.loopPc j = some (.atSignal w') := by
  simp only [Sys.loopPc, doClose_incs s w hf, Option.map_map]
  cases hi : s.incs[j]? with
  | none => simp
  | some i => simp [closeInc_loop]; split <;> simp_all

theorem doClose_loopPc_done (s : Sys) (hf : s.fresh = true) (w : Closer) (j : Nat) :
    (doClose s w).loopPc j = some .done ↔ s.loopPc j = some .done := by
  simp only [Sys.loopPc, doClose_incs s w hf, Option.map_map]
  cases hi : s.incs[j]? with
  | none => simp
  | some i => simp [closeInc_loop]; split <;> simp_all

theorem doClose_loopPc_some (s : Sys) (hf : s.fresh = true) (w : Closer) (j : Nat) :
    (∃ pc, (doClose s w).loopPc j = some pc) ↔ (∃ pc, s.loopPc j = some pc) := by
  simp only [Sys.loopPc, doClose_incs s w hf, Option.map_map]
  cases hi : s.incs[j]? <;> simp

theorem doClose_all_closed {s : Sys} (h : SysInv s) (ho : s.isOpen = true) (w : Closer) (j : Nat) (i : Inc)
    (hj : (doClose s w).incs[j]? = some i) : ∃ w', i.closedBy = some w' ∧ i.chan = [w'.cause] ∧ i.chanClosed = true := by
  rw [doClose_incs s w h.fresh] at hj
  simp only [Option.map_eq_some_iff] at hj
  obtain ⟨i0, hi0, rfl⟩ := hj
  obtain ⟨ic, hic, h1, h2, h3, h4⟩ := h.openInc ho
  by_cases hjc : j = s.cur
  · subst hjc
    rw [hic] at hi0; cases hi0
    refine ⟨w, ?_, ?_, ?_⟩ <;> simp [closeInc, publish, wake, h2, h4, closeChanCap] <;> split <;> simp [h2, h4]
  · have hno : ¬ s.openAt j := by
      intro ⟨_, hk⟩; apply hjc; unfold Sys.cur; omega
    obtain ⟨w', a, b, c⟩ := h.closedInc j i0 hi0 hno
    refine ⟨w', ?_, ?_, ?_⟩ <;> simp [closeInc, hjc, wake] <;> split <;> assumption

theorem doClose_noPanic {s : Sys} (h : SysInv s) (ho : s.isOpen = true) (w : Closer) : (doClose s w).panicked = false := by
  obtain ⟨ic, hic, h1, h2, h3, h4⟩ := h.openInc ho
  rw [doClose_panicked, h.noPanic, hic]; simp [h3]

theorem notifyMon_mon (s : Sys) (c : Cause) (hb : ∀ buf, s.mon = some buf → buf.length ≤ 1)
    (hc : s.monSent = s.monLog.length + (s.mon.getD []).length) :
    (∀ buf, (notifyMon s c).mon = some buf → buf.length ≤ 1) ∧
    (notifyMon s c).monSent = (notifyMon s c).monLog.length + ((notifyMon s c).mon.getD []).length := by
  unfold notifyMon
  cases hm : s.mon with
  | none => simp [hm] at hc ⊢; exact hc
  | some buf =>
    simp only []
    have := hb buf hm
    split
    · rename_i hl
      simp [monitorChanCap] at hl
      simp [hl, hm] at hc ⊢; omega
    · simp [hm] at hc ⊢; exact ⟨this, hc⟩

theorem doClose_mon {s : Sys} (h : SysInv s) (w : Closer) :
    (∀ buf, (doClose s w).mon = some buf → buf.length ≤ 1) ∧
    (doClose s w).monSent = (doClose s w).monLog.length + ((doClose s w).mon.getD []).length := by
  have e : ∀ (x : Sys), ({ x with isOpen := false, mu := none } : Sys).mon = x.mon := fun _ => rfl
  unfold doClose
  simp only []
  apply notifyMon_mon
  · simp only [Sys.setSig, h.fresh, if_true]; exact h.monBuf
  · simp only [Sys.setSig, h.fresh, if_true]; exact h.monCount

/-- close() completes, by user call `i` holding the mutex -/
theorem inv_close_call {s : Sys} (h : SysInv s) (i : Nat) (hmu : s.mu = some (.call i)) :
    SysInv (setCall (doClose s .user) i (.done .ok)) := by
  have ho := h.muOpen (by simp [hmu])
  have hm := doClose_mon h .user
  constructor
  · simp; exact h.fresh
  · simp; exact doClose_noPanic h ho _
  · simp
  · simp
  · simp
  · intro j c hc hpc
    simp only [setCall_calls, doClose_calls, Option.map_eq_some_iff] at hc
    obtain ⟨c0, hc0, rfl⟩ := hc
    by_cases hij : i = j
    · simp [hij] at hpc
    · simp only [hij, if_false] at hpc
      have := h.callAt j c0 hc0 hpc
      rw [hmu] at this; injection this with this; injection this with this; exact absurd this hij
  · intro k w hk
    have : s.loopPc k = some (.atSignal w) := (doClose_loopPc_at s h.fresh .user k w).mp hk
    have := h.loopAt k w this
    rw [hmu] at this; cases this
  · simp
  · intro k ic hk _
    exact doClose_all_closed h ho .user k ic hk
  · intro k _; simp [Sys.openAt]
  · exact hm.1
  · exact hm.2

/-- close() completes, by read loop `k` holding the mutex -/
theorem inv_close_loop {s : Sys} (h : SysInv s) (k : Nat) (w : Closer) (hmu : s.mu = some (.loop k)) :
    SysInv (setLoop (doClose s w) k .done) := by
  have ho := h.muOpen (by simp [hmu])
  have hm := doClose_mon h w
  constructor
  · simp; exact h.fresh
  · simp; exact doClose_noPanic h ho _
  · simp
  · simp
  · simp
  · intro j c hc hpc
    simp only [setLoop_calls, doClose_calls] at hc
    have := h.callAt j c hc hpc
    rw [hmu] at this; cases this
  · intro j w' hj
    rw [loopPc_setLoop] at hj
    by_cases hkj : k = j
    · subst hkj; cases hp : (doClose s w).loopPc k <;> simp [hp] at hj
    · simp [hkj] at hj
      have : s.loopPc j = some (.atSignal w') := (doClose_loopPc_at s h.fresh w j w').mp hj
      have := h.loopAt j w' this
      rw [hmu] at this; injection this with this; injection this with this; exact absurd this hkj
  · simp
  · intro j ic hj _
    simp only [setLoop_incs, Option.map_eq_some_iff] at hj
    obtain ⟨i0, hi0, rfl⟩ := hj
    have := doClose_all_closed h ho w j i0 hi0
    split <;> exact this
  · intro j _; simp [Sys.openAt]
  · exact hm.1
  · exact hm.2

theorem inv_setMonitor {s : Sys} (h : SysInv s) (hm : s.mon = none) : SysInv { s with mon := some [] } := by
  constructor
  · exact h.fresh
  · exact h.noPanic
  · exact h.muOpen
  · exact h.muCall
  · exact h.muLoop
  · exact h.callAt
  · exact h.loopAt
  · exact h.openInc
  · exact h.closedInc
  · exact h.loopDone
  · simp
  · have := h.monCount; simp [hm] at this ⊢; exact this

theorem inv_monRecv {s : Sys} (h : SysInv s) (c : Cause) (rest : List Cause) (hm : s.mon = some (c :: rest)) :
    SysInv { s with mon := some rest, monLog := s.monLog ++ [c] } := by
  constructor
  · exact h.fresh
  · exact h.noPanic
  · exact h.muOpen
  · exact h.muCall
  · exact h.muLoop
  · exact h.callAt
  · exact h.loopAt
  · exact h.openInc
  · exact h.closedInc
  · exact h.loopDone
  · have := h.monBuf _ hm; intro buf hb; simp only [Option.some.injEq] at hb; subst hb; simp only [List.length_cons] at this; omega
  · have := h.monCount; simp [hm] at this ⊢; omega

theorem inv_delivered {s : Sys} (h : SysInv s) (k : Nat) :
    SysInv { s with incs := s.incs.modify k fun i => { i with delivered := i.delivered + 1 } } := by
  have hl : ∀ j, ({ s with incs := s.incs.modify k fun i => { i with delivered := i.delivered + 1 } } : Sys).loopPc j = s.loopPc j := by
    intro j; simp only [Sys.loopPc, List.getElem?_modify, Option.map_map]
    cases s.incs[j]? <;> simp; split <;> rfl
  constructor
  · exact h.fresh
  · exact h.noPanic
  · exact h.muOpen
  · exact h.muCall
  · intro j hj; obtain ⟨w, hw⟩ := h.muLoop j hj; exact ⟨w, by rw [hl]; exact hw⟩
  · exact h.callAt
  · intro j w hj; rw [hl] at hj; exact h.loopAt j w hj
  · intro ho
    obtain ⟨i, hi, h1, h2, h3, h4⟩ := h.openInc ho
    refine ⟨if k = s.cur then { i with delivered := i.delivered + 1 } else i, ?_, ?_, ?_, ?_, ?_⟩
    · simp only [Sys.cur, List.length_modify, List.getElem?_modify]; simp only [Sys.cur] at hi; rw [hi]; rfl
    all_goals split <;> assumption
  · intro j i hj hn
    simp only [List.getElem?_modify] at hj
    cases hi0 : s.incs[j]? with
    | none => simp [hi0] at hj
    | some i0 =>
      simp only [hi0] at hj
      change some _ = some i at hj
      injection hj with hj
      subst hj
      have := h.closedInc j i0 hi0 (by simpa [Sys.openAt] using hn)
      split <;> exact this
  · intro j hj; rw [hl] at hj; simpa [Sys.openAt] using h.loopDone j hj
  · exact h.monBuf
  · exact h.monCount

theorem mu_none_of_not_isSome {s : Sys} (h : ¬ s.mu.isSome = true) : s.mu = none := by
  cases hm : s.mu <;> simp [hm] at h ⊢

theorem loopPc_not_at_of_mu_none {s : Sys} (h : SysInv s) (hmu : s.mu = none) (k : Nat) (w : Closer) :
    s.loopPc k ≠ some (.atSignal w) := by
  intro hk; have := h.loopAt k w hk; simp [hmu] at this

theorem inv_step {s s' : Sys} {a : Action} (h : SysInv s) (hg : s.guarded = true) (hs : step s a = some s') : SysInv s' := by
  cases a with
  | invoke kd =>
    simp only [step, Option.some.injEq] at hs; subst hs; exact inv_invoke h kd
  | callStep i openOk =>
    simp only [step] at hs
    split at hs
    · -- Open
      split at hs
      · cases hs
      · rename_i hmu
        have hmu := mu_none_of_not_isSome hmu
        split at hs
        · cases hs; exact inv_setCall_done h hmu i _
        · split at hs
          · cases hs; exact inv_setCall_done h hmu i _
          · rename_i hno _
            cases hs
            have hcl : s.isOpen = false := by simpa using hno
            exact inv_setCall_done (inv_open h hmu hcl) hmu i _
    · split at hs
      · cases hs
      · rename_i hmu
        split at hs
        · -- the underlying transport is never asked: the read loop of the open incarnation has not returned
          rename_i hcond
          exfalso
          simp only [hg, if_true, Bool.and_eq_true, decide_eq_true_eq] at hcond
          obtain ⟨ho, hd⟩ := hcond
          obtain ⟨ic, hic, _⟩ := h.openInc ho
          exact h.loopDone s.cur hd ⟨ho, cur_lt_of_some hic⟩
        · cases hs; exact inv_setCall_done h (mu_none_of_not_isSome hmu) i _
    · rename_i hc
      exfalso
      have h1 := h.callAt i _ hc rfl
      have h2 := h.muCall i h1
      rw [hc] at h2; cases h2
    · rename_i hc
      split at hs
      · cases hs
      · rename_i hmu
        have hmu := mu_none_of_not_isSome hmu
        split at hs
        · cases hs; exact inv_setCall_done h hmu i _
        · rename_i ho
          cases hs
          exact inv_acquire_call h hmu (by simpa using ho) i hc
    · rename_i hc
      split at hs
      · cases hs
        exact inv_close_call h i (h.callAt i _ hc rfl)
      · cases hs
    · cases hs
  | read k ev =>
    simp only [step] at hs
    split at hs
    · rename_i hk
      have hold : ∀ w, s.loopPc k ≠ some (.atSignal w) := by intro w hw; simp [Sys.loopPc, hk] at hw
      cases ev <;> simp only [Option.some.injEq] at hs <;> subst hs
      · exact inv_delivered h k
      · exact inv_setLoop h k _ (by simp) (by simp) hold
      · exact inv_setLoop h k _ (by simp) (by simp) hold
      · exact inv_setLoop h k _ (by simp) (by simp) hold
    · cases hs
  | loopStep k =>
    simp only [step] at hs
    split at hs
    · rename_i ev hk
      have hold : ∀ w, s.loopPc k ≠ some (.atSignal w) := by intro w hw; simp [Sys.loopPc, hk] at hw
      split at hs
      · rename_i hp
        cases hs
        have hno := sigOf_pos_not_open h k hp
        have h1 := inv_setSig h k (s.sigOf k - 1) hno
        apply inv_setLoop_done h1
        · simpa [Sys.openAt, (setSig_other s h.fresh k _)] using hno
        · intro w; rw [setSig_loopPc s h.fresh]; exact hold w
      · cases hs
        exact inv_setLoop h k _ (by simp) (by simp) hold
    · rename_i w hk
      have hold : ∀ w, s.loopPc k ≠ some (.atSignal w) := by intro w hw; simp [Sys.loopPc, hk] at hw
      split at hs
      · cases hs
      · rename_i hmu
        have hmu := mu_none_of_not_isSome hmu
        split at hs
        · rename_i hno
          cases hs
          exact inv_setLoop_done h k (by simp [Sys.openAt]; intro ho; simp [ho] at hno) hold
        · rename_i ho
          cases hs
          exact inv_acquire_loop h hmu (by simpa using ho) k w ⟨_, by simpa [Sys.loopPc] using hk⟩
    · rename_i w hk
      split at hs
      · cases hs
        exact inv_close_loop h k w (h.loopAt k w (by simpa [Sys.loopPc] using hk))
      · cases hs
    · cases hs
  | setMonitor =>
    simp only [step] at hs
    split at hs
    · rename_i hm; cases hs; exact inv_setMonitor h hm
    · cases hs
  | monRecv =>
    simp only [step] at hs
    split at hs
    · rename_i c rest hm; cases hs; exact inv_monRecv h c rest hm
    · cases hs

@[simp] theorem setCall_guarded (s : Sys) (i : Nat) (pc : CPc) : (setCall s i pc).guarded = s.guarded := rfl
@[simp] theorem setLoop_guarded (s : Sys) (k : Nat) (pc : LPc) : (setLoop s k pc).guarded = s.guarded := rfl
@[simp] theorem setSig_guarded (s : Sys) (k n : Nat) : (s.setSig k n).guarded = s.guarded := by
  unfold Sys.setSig; split <;> rfl
@[simp] theorem notifyMon_guarded (s : Sys) (c : Cause) : (notifyMon s c).guarded = s.guarded := by
  unfold notifyMon; cases s.mon <;> simp only []; split <;> rfl
@[simp] theorem doClose_guarded (s : Sys) (w : Closer) : (doClose s w).guarded = s.guarded := by
  unfold doClose; simp

/-- `guarded` (which IsOpen the code has) is a constant of a run -/
theorem step_guarded {s s' : Sys} {a : Action} (hs : step s a = some s') : s'.guarded = s.guarded := by
  cases a with
  | invoke kd => simp only [step, Option.some.injEq] at hs; subst hs; rfl
  | callStep i openOk =>
    simp only [step] at hs
    split at hs <;> (try split at hs) <;> (try split at hs) <;> (try split at hs) <;>
    first | (cases hs; done) | (cases hs; simp; done)
  | read k ev =>
    simp only [step] at hs
    split at hs
    · cases ev <;> simp only [Option.some.injEq] at hs <;> subst hs <;> simp
    · cases hs
  | loopStep k =>
    simp only [step] at hs
    split at hs <;> (try split at hs) <;> (try split at hs) <;>
    first | (cases hs; done) | (cases hs; simp; done)
  | setMonitor => simp only [step] at hs; split at hs <;> cases hs; rfl
  | monRecv => simp only [step] at hs; split at hs <;> cases hs; rfl

theorem inv_run {s s' : Sys} (h : SysInv s) (hg : s.guarded = true) (as : List Action) (hr : run s as = some s') :
    SysInv s' ∧ s'.guarded = true := by
  induction as generalizing s with
  | nil => simp [run] at hr; subst hr; exact ⟨h, hg⟩
  | cons a t ih =>
    simp only [run] at hr
    cases hst : step s a with
    | none => simp [hst] at hr
    | some s1 => simp [hst] at hr; exact ih (inv_step h hg hst) (by rw [step_guarded hst]; exact hg) hr

theorem inv_reachable {s : Sys} (h : Reachable s) : SysInv s := by
  obtain ⟨as, hr⟩ := h; exact (inv_run inv_init rfl as hr).1

theorem guarded_reachable {s : Sys} (h : Reachable s) : s.guarded = true := by
  obtain ⟨as, hr⟩ := h; exact (inv_run inv_init rfl as hr).2
end FV.Adapter
