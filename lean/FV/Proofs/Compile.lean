/-
Helper lemmas for C11 (FV/Props/C11.lean): bind laws of `CRes`, totality of the casing
helpers, the typedef walk, `validate` versus its declarative reading.
-/
import FV.Model.Compile
namespace FV.Compile

@[simp] theorem CRes.bind_ok (a : α) (f : α → CRes β) : (CRes.ok a >>= f) = f a := rfl
@[simp] theorem CRes.bind_err (e : VErr) (f : α → CRes β) : (CRes.err e >>= f) = CRes.err e := rfl
@[simp] theorem CRes.bind_panic (p : CPanic) (f : α → CRes β) : (CRes.panic p >>= f) = CRes.panic p := rfl
@[simp] theorem CRes.pure_eq (a : α) : (pure a : CRes α) = CRes.ok a := rfl

theorem goIndex_zero_cons (c : α) (cs : List α) : goIndex (c :: cs) 0 = .ok c := by
  simp [goIndex]

theorem camelWord_isOk (w : Name) : ∃ r, camelWord w = .ok r := by
  unfold camelWord
  cases w with
  | nil => exact ⟨[], by simp⟩
  | cons c cs =>
    by_cases h : initialisms.contains (upper (c :: cs)) = true
    · exact ⟨upper (c :: cs), by rw [if_neg (by simp), if_pos h]⟩
    · exact ⟨toUpperC c :: cs, by rw [if_neg (by simp), if_neg h, goIndex_zero_cons]; rfl⟩

theorem camelWords_isOk (ws : List Name) : ∃ r, camelWords ws = .ok r := by
  induction ws with
  | nil => exact ⟨[], rfl⟩
  | cons w ws ih =>
    obtain ⟨a, ha⟩ := camelWord_isOk w
    obtain ⟨b, hb⟩ := ih
    exact ⟨a ++ b, by simp [camelWords, ha, hb]⟩

theorem snakeToCamel_isOk (s : Name) : ∃ r, snakeToCamel s = .ok r := by
  unfold snakeToCamel
  by_cases h : s = []
  · exact ⟨[], by simp [h]⟩
  · obtain ⟨r, hr⟩ := camelWords_isOk (splitOn '_' s)
    exact ⟨r, by simp [h, hr]⟩

theorem titleServiceName_isOk (n s : Name) : ∃ r, titleServiceName n s = .ok r := by
  unfold titleServiceName
  by_cases h1 : n = []
  · exact ⟨n, by simp [h1]⟩
  by_cases h2 : n = upper n
  · exact ⟨n, by simp [h1, ← h2]⟩
  obtain ⟨r, hr⟩ := snakeToCamel_isOk (if s ≠ [] then s ++ '_' :: n else n)
  simp only [h1, h2, if_false]
  simp only [hr, CRes.bind_ok]
  split <;> exact ⟨_, rfl⟩

theorem lowerFirst_isOk (s : Name) (h : s ≠ []) : ∃ r, lowerFirst s = .ok r := by
  cases s with
  | nil => exact absurd rfl h
  | cons c cs => exact ⟨toLowerC c :: cs, by simp [lowerFirst, goIndex_zero_cons]⟩

end FV.Compile
