/-
Helper lemmas for C11 (FV/Props/C11.lean): bind laws of `CRes`, totality of the casing
helpers, the typedef walk, `validate` versus its declarative reading.
-/
import FV.Model.Compile
namespace FV.Compile

@[simp] theorem CRes.bind_ok (a : α) (f : α → CRes β) : (CRes.ok a >>= f) = f a := rfl
@[simp] theorem CRes.bind_err (e : VErr) (f : α → CRes β) : (CRes.err e >>= f) = CRes.err e := rfl
@[simp] theorem CRes.bind_panic (p : CPanic) (f : α → CRes β) : (CRes.panic p >>= f) = CRes.panic p := rfl
@[simp] theorem CRes.pure_eq (a : α) : (pure a : CRes α) = CRes.ok a := rfl

theorem goIndex_zero_cons (c : α) (cs : List α) : goIndex (c :: cs) 0 = .ok c := by
  simp [goIndex]

theorem camelWord_isOk (w : Name) : ∃ r, camelWord w = .ok r := by
  unfold camelWord
  cases w with
  | nil => exact ⟨[], by simp⟩
  | cons c cs =>
    by_cases h : initialisms.contains (upper (c :: cs)) = true
    · exact ⟨upper (c :: cs), by rw [if_neg (by simp), if_pos h]⟩
    · exact ⟨toUpperC c :: cs, by rw [if_neg (by simp), if_neg h, goIndex_zero_cons]; rfl⟩

theorem camelWords_isOk (ws : List Name) : ∃ r, camelWords ws = .ok r := by
  induction ws with
  | nil => exact ⟨[], rfl⟩
  | cons w ws ih =>
    obtain ⟨a, ha⟩ := camelWord_isOk w
    obtain ⟨b, hb⟩ := ih
    exact ⟨a ++ b, by simp [camelWords, ha, hb]⟩

theorem snakeToCamel_isOk (s : Name) : ∃ r, snakeToCamel s = .ok r := by
  unfold snakeToCamel
  by_cases h : s = []
  · exact ⟨[], by simp [h]⟩
  · obtain ⟨r, hr⟩ := camelWords_isOk (splitOn '_' s)
    exact ⟨r, by simp [h, hr]⟩

theorem titleServiceName_isOk (n s : Name) : ∃ r, titleServiceName n s = .ok r := by
  unfold titleServiceName
  by_cases h1 : n = []
  · exact ⟨n, by simp [h1]⟩
  by_cases h2 : n = upper n
  · exact ⟨n, by simp [h1, ← h2]⟩
  obtain ⟨r, hr⟩ := snakeToCamel_isOk (if s ≠ [] then s ++ '_' :: n else n)
  simp only [h1, h2, if_false]
  simp only [hr, CRes.bind_ok]
  split <;> exact ⟨_, rfl⟩

theorem lowerFirst_isOk (s : Name) (h : s ≠ []) : ∃ r, lowerFirst s = .ok r := by
  cases s with
  | nil => exact absurd rfl h
  | cons c cs => exact ⟨toLowerC c :: cs, by simp [lowerFirst, goIndex_zero_cons]⟩


/-! ### Typedef resolution -/

theorem firstErr_ok {f : α → CRes Unit} {l : List α} (h : firstErr f l = .ok ()) : ∀ a ∈ l, f a = .ok () := by
  induction l with
  | nil => intro a ha; cases ha
  | cons x xs ih =>
    intro a ha
    unfold firstErr at h
    cases hx : f x with
    | ok u =>
      rw [hx] at h
      cases ha with
      | head => exact hx
      | tail _ hm => exact ih h a hm
    | err e => rw [hx] at h; cases h
    | panic p => rw [hx] at h; cases h

theorem firstErr_of_all {f : α → CRes Unit} {l : List α} (h : ∀ a ∈ l, f a = .ok ()) : firstErr f l = .ok () := by
  induction l with
  | nil => rfl
  | cons x xs ih =>
    unfold firstErr
    rw [h x (List.mem_cons_self)]
    exact ih (fun a ha => h a (List.mem_cons_of_mem _ ha))

theorem guardV_ok {b : Bool} {e : VErr} (h : guardV b e = .ok ()) : b = true := by
  unfold guardV at h
  cases b <;> simp at h ⊢

theorem tdLookup_mem {tds : List Typedef} {n : Name} {t : Ty} (h : tdLookup tds n = some t) :
    ∃ td ∈ tds, td.ty = t := by
  induction tds with
  | nil => cases h
  | cons td tds ih =>
    unfold tdLookup at h
    cases hr : tdLookup tds n with
    | some t' =>
      rw [hr] at h
      cases h
      obtain ⟨td', hm, ht⟩ := ih hr
      exact ⟨td', List.mem_cons_of_mem _ hm, ht⟩
    | none =>
      rw [hr] at h
      by_cases hn : td.name = n
      · simp [hn] at h
        exact ⟨td, List.mem_cons_self, h⟩
      · simp [hn] at h

theorem lookup_mem {l : List (Name × File)} {k : Name} {f : File} (h : l.lookup k = some f) : (k, f) ∈ l := by
  induction l with
  | nil => cases h
  | cons x xs ih =>
    obtain ⟨k', f'⟩ := x
    unfold List.lookup at h
    by_cases hk : k == k'
    · simp [hk] at h
      have : k = k' := by simpa using hk
      subst this; subst h
      exact List.mem_cons_self
    · simp [hk] at h
      exact List.mem_cons_of_mem _ (ih h)

/-- Every type a typedef hop can produce is the right-hand side of a typedef that the cycle
check of `validateTypedefs` starts a walk from. -/
theorem typedefTarget_mem {ctx : Ctx} {t t' : Ty} (h : typedefTarget ctx t = some t') :
    ∃ td ∈ allTypedefs ctx, td.ty = t' := by
  unfold typedefTarget at h
  unfold allTypedefs
  by_cases hi : includeName t.name ≠ []
  · rw [if_pos hi] at h
    cases hl : ctx.incs.lookup (includeName t.name) with
    | none => rw [hl] at h; cases h
    | some f =>
      rw [hl] at h
      obtain ⟨td, hm, ht⟩ := tdLookup_mem h
      refine ⟨td, ?_, ht⟩
      apply List.mem_append_right
      rw [List.mem_flatten]
      exact ⟨f.typedefs, List.mem_map.mpr ⟨(includeName t.name, f), lookup_mem hl, rfl⟩, hm⟩
  · rw [if_neg hi] at h
    obtain ⟨td, hm, ht⟩ := tdLookup_mem h
    exact ⟨td, List.mem_append_left _ hm, ht⟩

theorem underlying_of_walkEnds (ctx : Ctx) : ∀ (n : Nat) (t : Ty), walkEnds ctx n t = true →
    ∀ fuel, n + 1 ≤ fuel → ∃ r, underlying ctx fuel t = .ok r := by
  intro n
  induction n with
  | zero =>
    intro t h fuel hf
    obtain ⟨k, rfl⟩ : ∃ k, fuel = k + 1 := ⟨fuel - 1, by omega⟩
    unfold walkEnds at h
    unfold underlying
    cases ht : typedefTarget ctx t with
    | none => exact ⟨t, rfl⟩
    | some t' => rw [ht] at h; simp at h
  | succ n ih =>
    intro t h fuel hf
    obtain ⟨k, rfl⟩ : ∃ k, fuel = k + 1 := ⟨fuel - 1, by omega⟩
    unfold walkEnds at h
    unfold underlying
    cases ht : typedefTarget ctx t with
    | none => exact ⟨t, rfl⟩
    | some t' =>
      rw [ht] at h
      exact ih t' h k (by omega)

theorem validateTypedefs_walks {ctx : Ctx} (h : validateTypedefs ctx = .ok ()) :
    ∀ td ∈ allTypedefs ctx, walkEnds ctx (typedefLimit ctx) td.ty = true := by
  unfold validateTypedefs at h
  cases h1 : firstErr (fun td => guardV (isValidType ctx td.ty) .typedefType) ctx.self.typedefs with
  | ok u =>
    rw [h1] at h
    simp only [CRes.bind_ok] at h
    intro td hm
    exact guardV_ok (firstErr_ok h td hm)
  | err e => rw [h1] at h; cases h
  | panic p => rw [h1] at h; cases h

/-- After validation, typedef resolution terminates for EVERY type with the stack the limit allows. -/
theorem underlying_ok_of_validated {ctx : Ctx} (h : validateTypedefs ctx = .ok ()) (t : Ty) (fuel : Nat)
    (hf : typedefLimit ctx + 2 ≤ fuel) : ∃ r, underlying ctx fuel t = .ok r := by
  obtain ⟨k, rfl⟩ : ∃ k, fuel = k + 1 := ⟨fuel - 1, by omega⟩
  unfold underlying
  cases ht : typedefTarget ctx t with
  | none => exact ⟨t, rfl⟩
  | some t' =>
    obtain ⟨td, hm, rfl⟩ := typedefTarget_mem ht
    exact underlying_of_walkEnds ctx _ _ (validateTypedefs_walks h td hm) k (by omega)

/-- A set of types closed under the typedef hop in which every member has a hop: resolution
from a member never stops (this is what a typedef cycle is, of any length). -/
theorem walkEnds_false_of_closed (ctx : Ctx) (S : Ty → Prop)
    (hS : ∀ t, S t → ∃ t', typedefTarget ctx t = some t' ∧ S t') :
    ∀ (n : Nat) (t : Ty), S t → walkEnds ctx n t = false := by
  intro n
  induction n with
  | zero =>
    intro t ht
    obtain ⟨t', h1, _⟩ := hS t ht
    unfold walkEnds; rw [h1]
  | succ n ih =>
    intro t ht
    obtain ⟨t', h1, h2⟩ := hS t ht
    unfold walkEnds; rw [h1]
    exact ih t' h2

theorem firstErr_guard_not_panic {g : α → Bool} {e : VErr} (l : List α) :
    ∀ p, firstErr (fun a => guardV (g a) e) l ≠ .panic p := by
  induction l with
  | nil => intro p h; cases h
  | cons x xs ih =>
    intro p
    unfold firstErr
    cases hg : g x <;> simp [guardV]
    exact ih p

theorem validateTypedefs_not_panic (ctx : Ctx) : ∀ p, validateTypedefs ctx ≠ .panic p := by
  intro p
  unfold validateTypedefs
  cases h1 : firstErr (fun td => guardV (isValidType ctx td.ty) .typedefType) ctx.self.typedefs with
  | ok u => simp only [CRes.bind_ok]; exact firstErr_guard_not_panic _ p
  | err e => intro h; cases h
  | panic q => exact absurd h1 (firstErr_guard_not_panic _ q)

theorem validateTypedefs_rejects_closed (ctx : Ctx) (S : Ty → Prop)
    (hS : ∀ t, S t → ∃ t', typedefTarget ctx t = some t' ∧ S t') (t0 : Ty) (h0 : S t0) :
    ∃ e, validateTypedefs ctx = .err e := by
  cases hv : validateTypedefs ctx with
  | err e => exact ⟨e, rfl⟩
  | panic p => exact absurd hv (validateTypedefs_not_panic ctx p)
  | ok u =>
    exfalso
    cases u
    obtain ⟨t1, h1, hs1⟩ := hS t0 h0
    obtain ⟨td, hm, rfl⟩ := typedefTarget_mem h1
    have := validateTypedefs_walks hv td hm
    rw [walkEnds_false_of_closed ctx S hS _ _ hs1] at this
    cases this


/-! ### `validate` as the conjunction of its parts -/

theorem CRes.bind_ok_inv {x : CRes α} {f : α → CRes β} {b : β} (h : (x >>= f) = .ok b) :
    ∃ a, x = .ok a ∧ f a = .ok b := by
  cases x with
  | ok a => exact ⟨a, rfl, h⟩
  | err e => cases h
  | panic p => cases h

/-- The parts of `validate`, read off its `do` chain. -/
structure FileChecks (ctx : Ctx) : Prop where
  names : validateNames ctx.self = .ok ()
  vendor : guardV (!ctx.self.vendorWild) .vendorWildcard = .ok ()
  includes : validateIncludes [] ctx.self.includes = .ok ()
  consts : firstErr (validateConstant ctx) ctx.self.consts = .ok ()
  typedefs : validateTypedefs ctx = .ok ()
  structs : validateKind ctx .struct = .ok ()
  unions : validateKind ctx .union = .ok ()
  exceptions : validateKind ctx .exception = .ok ()
  services : validateServices ctx = .ok ()
  scopes : validateScopes ctx = .ok ()

theorem validateFile_ok_iff (ctx : Ctx) : validateFile ctx = .ok () ↔ FileChecks ctx := by
  constructor
  · intro h
    unfold validateFile at h
    obtain ⟨⟨⟩, h1, h⟩ := CRes.bind_ok_inv h
    obtain ⟨⟨⟩, h2, h⟩ := CRes.bind_ok_inv h
    obtain ⟨⟨⟩, h3, h⟩ := CRes.bind_ok_inv h
    obtain ⟨⟨⟩, h4, h⟩ := CRes.bind_ok_inv h
    obtain ⟨⟨⟩, h5, h⟩ := CRes.bind_ok_inv h
    obtain ⟨⟨⟩, h6, h⟩ := CRes.bind_ok_inv h
    obtain ⟨⟨⟩, h7, h⟩ := CRes.bind_ok_inv h
    obtain ⟨⟨⟩, h8, h⟩ := CRes.bind_ok_inv h
    obtain ⟨⟨⟩, h9, h⟩ := CRes.bind_ok_inv h
    exact ⟨h1, h2, h3, h4, h5, h6, h7, h8, h9, h⟩
  · intro c
    unfold validateFile
    simp only [c.names, c.vendor, c.includes, c.consts, c.typedefs, c.structs, c.unions, c.exceptions, c.services,
      c.scopes, CRes.bind_ok]



/-! ### The Go path after validation -/

theorem goPath_ok_of_validated (ctx : Ctx) (h : validateFile ctx = .ok ()) : goPath ctx = .ok () := by
  unfold goPath
  have h1 : firstErr (fun n => do let _ ← title n; pure ()) ctx.self.declaredNames = .ok () := by
    apply firstErr_of_all
    intro n _
    obtain ⟨r, hr⟩ := titleServiceName_isOk n []
    show (title n >>= fun _ => pure ()) = .ok ()
    unfold title
    rw [hr]; rfl
  have h2 : firstErr (fun t => do let _ ← underlying ctx (typedefLimit ctx + 2) t; pure ()) ctx.self.usedTypes = .ok () := by
    apply firstErr_of_all
    intro t _
    obtain ⟨r, hr⟩ := underlying_ok_of_validated ((validateFile_ok_iff ctx).mp h).typedefs t (typedefLimit ctx + 2) (Nat.le_refl _)
    show (underlying ctx (typedefLimit ctx + 2) t >>= fun _ => pure ()) = .ok ()
    rw [hr]; rfl
  rw [h1]
  exact h2



/-! ### `CleanGenParam` -/

theorem splitOn_ne_nil (sep : Char) (s : Name) : splitOn sep s ≠ [] := by
  induction s with
  | nil => simp [splitOn]
  | cons c cs ih =>
    unfold splitOn
    by_cases h : c = sep
    · simp [h]
    · simp only [h, if_false]
      cases hs : splitOn sep cs with
      | nil => exact absurd hs ih
      | cons w ws => simp

theorem splitOn_length_of_mem (sep : Char) (s : Name) (h : sep ∈ s) : 2 ≤ (splitOn sep s).length := by
  induction s with
  | nil => cases h
  | cons c cs ih =>
    unfold splitOn
    by_cases hc : c = sep
    · simp only [hc, if_true, List.length_cons]
      have := splitOn_ne_nil sep cs
      cases hs : splitOn sep cs with
      | nil => exact absurd hs this
      | cons w ws => simp
    · simp only [hc, if_false]
      have hm : sep ∈ cs := by
        cases h with
        | head => exact absurd rfl hc
        | tail _ hm => exact hm
      have := ih hm
      cases hs : splitOn sep cs with
      | nil => rw [hs] at this; simp at this
      | cons w ws => rw [hs] at this; simpa using this

theorem goIndex_ok_of_lt (l : List α) (i : Nat) (h : i < l.length) : ∃ a, goIndex l (i : Int) = .ok a := by
  refine ⟨l[i], ?_⟩
  unfold goIndex
  simp [h]

theorem cleanOptions_not_panic (lang : Name) (os : List Name) : ∀ acc p, cleanOptions lang os acc ≠ .panic p := by
  induction os with
  | nil => intro acc p h; cases h
  | cons o os ih =>
    intro acc p
    unfold cleanOptions
    have hne := splitOn_ne_nil '=' o
    cases hs : splitOn '=' o with
    | nil => exact absurd hs hne
    | cons k rest =>
      have h0 : goIndex (k :: rest) 0 = .ok k := goIndex_zero_cons k rest
      simp only [h0, CRes.bind_ok]
      by_cases hv : validateOption lang k
      · simp only [hv, Bool.not_true, Bool.false_eq_true, if_false]
        cases rest with
        | nil => simp; exact ih _ p
        | cons v rest' =>
          have h1 : goIndex (k :: v :: rest') 1 = .ok v := by simp [goIndex]
          simp [h1]
          exact ih _ p
      · simp [hv]

theorem cleanGenParam_not_panic (gen : Name) : ∀ p, cleanGenParam gen ≠ .panic p := by
  intro p
  unfold cleanGenParam
  by_cases hc : gen.contains ':' = true
  · simp only [hc, Bool.not_true, Bool.false_eq_true, if_false]
    have hmem : ':' ∈ gen := by simpa using hc
    have hl := splitOn_length_of_mem ':' gen hmem
    cases hs : splitOn ':' gen with
    | nil => rw [hs] at hl; simp at hl
    | cons a rest =>
      cases rest with
      | nil => rw [hs] at hl; simp at hl
      | cons b rest' =>
        have h0 : goIndex (a :: b :: rest') 0 = .ok a := goIndex_zero_cons _ _
        have h1 : goIndex (a :: b :: rest') 1 = .ok b := by simp [goIndex]
        simp only [h0, h1, CRes.bind_ok]
        cases hm : cleanOptions a (if b.contains ',' = true then splitOn ',' b else [b]) [] with
        | ok m => simp
        | err e => simp
        | panic q => exact absurd hm (cleanOptions_not_panic _ _ _ q)
  · have hc' : gen.contains ':' = false := by simpa using hc
    rw [hc']
    intro h; cases h



/-! ### The command line -/

theorem cliLoop_exit_zero_iff (fs : List FileVerdict) (n : Nat) :
    (cliLoop fs n).exit = 0 ↔ ∀ f ∈ fs, f = .valid := by
  induction fs generalizing n with
  | nil => simp [cliLoop]
  | cons f fs ih =>
    cases f with
    | valid => simp [cliLoop, ih]
    | invalid => simp [cliLoop]

theorem cliLoop_all_valid (fs : List FileVerdict) (n : Nat) (h : ∀ f ∈ fs, f = .valid) :
    cliLoop fs n = { exit := 0, compiled := n + fs.length } := by
  induction fs generalizing n with
  | nil => simp [cliLoop]
  | cons f fs ih =>
    have hf : f = .valid := h f List.mem_cons_self
    subst hf
    simp only [cliLoop, List.length_cons]
    rw [ih (n + 1) (fun g hg => h g (List.mem_cons_of_mem _ hg))]
    congr 1
    omega

theorem cliLoop_first_invalid (pre post : List FileVerdict) (n : Nat) (h : ∀ f ∈ pre, f = .valid) :
    cliLoop (pre ++ .invalid :: post) n = { exit := 1, compiled := n + pre.length + 1 } := by
  induction pre generalizing n with
  | nil => simp [cliLoop]
  | cons f fs ih =>
    have hf : f = .valid := h f List.mem_cons_self
    subst hf
    simp only [List.cons_append, cliLoop, List.length_cons]
    rw [ih (n + 1) (fun g hg => h g (List.mem_cons_of_mem _ hg))]
    congr 1
    omega

theorem cliLoop_exit_le_one (fs : List FileVerdict) (n : Nat) : (cliLoop fs n).exit = 0 ∨ (cliLoop fs n).exit = 1 := by
  induction fs generalizing n with
  | nil => simp [cliLoop]
  | cons f fs ih => cases f <;> simp [cliLoop, ih]


end FV.Compile
