/-
Shared pieces of the declaration rules of the regenerated grammar: doc comments, integer
constants, `= value`, the tail `_ annotations? ListSeparator?`, and character facts.
-/
import FV.Proofs.PegTypes
import FV.Proofs.PegComments

namespace FV.PegIdl
open FV.Peg FV.Generated FV.Act FV.Syn

theorem lk_ListSeparator : grammar.lookup "ListSeparator" = some rule_ListSeparator := by rfl
theorem lk_EnumValue : grammar.lookup "EnumValue" = some rule_EnumValue := by rfl
theorem lk_Enum : grammar.lookup "Enum" = some rule_Enum := by rfl
theorem lk_EOS : grammar.lookup "EOS" = some rule_EOS := by rfl
theorem lk_EOF : grammar.lookup "EOF" = some rule_EOF := by rfl

/-! ### sequences in chunks -/

theorem SeqRun.append {g : Grammar} {k : Nat} : ∀ {es1 es2 : List Expr} {inp : List Char} {ts1 : List Tree} {mid : List Char}
    {ts2 : List Tree} {rest : List Char}, SeqRun g k es1 inp ts1 mid → SeqRun g k es2 mid ts2 rest →
    SeqRun g k (es1 ++ es2) inp (ts1 ++ ts2) rest := by
  intro es1
  induction es1 with
  | nil => intro es2 inp ts1 mid ts2 rest h1 h2; obtain ⟨rfl, rfl⟩ := h1; exact h2
  | cons e es ih =>
    intro es2 inp ts1 mid ts2 rest h1 h2
    obtain ⟨t, m, ts', rfl, hp, hr⟩ := h1
    exact SeqRun.cons hp (ih hr h2)

theorem SeqRun.mono {g : Grammar} {k k' : Nat} (hk : k ≤ k') : ∀ {es : List Expr} {inp : List Char} {ts : List Tree} {rest : List Char},
    SeqRun g k es inp ts rest → SeqRun g k' es inp ts rest := by
  intro es
  induction es with
  | nil => intro inp ts rest h; exact h
  | cons e es ih =>
    intro inp ts rest h
    obtain ⟨t, m, ts', rfl, hp, hr⟩ := h
    exact SeqRun.cons (hp.mono hk) (ih hr)

/-! ### characters -/

theorem idPart_tok {c : Char} (h : idPart c = true) : tokC c = true := by
  have hw := idPart_not_ws h
  simp only [tokC, hw, Bool.false_or, Bool.not_eq_true', Bool.or_eq_false_iff, beq_eq_false_iff_ne]
  refine ⟨⟨?_, ?_⟩, ?_⟩ <;> (intro e; subst e; revert h; decide)

theorem digit_idPart {c : Char} (h : digitC c = true) : idPart c = true := by
  simp [idPart, h]

theorem gapc_not_idPart {c : Char} (h : tokC c = false) : idPart c = false := by
  cases hp : idPart c with
  | false => rfl
  | true => rw [idPart_tok hp] at h; cases h

theorem wsOrSlash_tok {c : Char} (h : wsC c = true ∨ c = '/') : tokC c = false := by
  rcases h with h | rfl
  · simp [tokC, h]
  · decide

/-- Not white space and not `/`: where rule `_` stops. -/
def UHead (x : List Char) : Prop := HeadP (fun c => wsC c = false ∧ c ≠ '/') x

theorem TokHead.uhead {x} (h : TokHead x) : UHead x := fun c r e => ⟨tok_not_ws h c r e, tok_ne_slash h c r e⟩

theorem uBody_fails_uhead (x : List Char) (h : UHead x) : FailsOn grammar uBody x 25 := by
  refine (FailsOn.choice (k := 20) (es := [.ref "Whitespace", .ref "MultiLineCommentNoLineTerminator"]) ?_).mono (by simp)
  intro e he
  simp only [List.mem_cons, List.mem_nil_iff, or_false] at he
  rcases he with rfl | rfl
  · cases x with
    | nil => exact ws_fails_nil.mono (by omega)
    | cons c r => exact (ws_fails c r (h c r rfl).1).mono (by omega)
  · exact mlcn_fails_tok x (fun c r e => (h c r e).2)

/-- `u_consumes` with the weaker stop condition (a newline or `#` may follow). -/
theorem u_consumes' (g next : List Char) (hg : IsGap uBody g) (hn : UHead next) :
    ∃ ts, ParsesTo grammar (.ref "_") (g ++ next) (.seq ts) next (2 * g.length + 70) := by
  obtain ⟨ts, hi, hl⟩ := hg next
  have h1 := ParsesTo.star (hi.starRun ((uBody_fails_uhead next hn).mono (by omega)))
  have h2 := ParsesTo.ref lk_U (by rw [rule_U_eq]; exact h1)
  exact ⟨ts, h2.mono (by omega)⟩

/-! ### integer constants -/

def SignOk (sign : List Char) : Prop := sign = [] ∨ sign = ['-'] ∨ sign = ['+']

/-- A written integer: optional sign, digits. -/
structure SInt where
  sign : List Char
  d : Char
  ds : List Char

namespace SInt
def text (i : SInt) : List Char := i.sign ++ i.d :: i.ds
def Ok (i : SInt) : Prop := SignOk i.sign ∧ digitC i.d = true ∧ (∀ x ∈ i.ds, digitC x = true) ∧ (parseInt i.text).isSome
/-- The value `strconv.ParseInt` gives (`Ok` says it fits int64). -/
def value (i : SInt) : Int := (parseInt i.text).getD 0
def tree (i : SInt) : Tree :=
  .act "IntConstant1" i.text (.seq [signTree i.sign, .seq ((i.d :: i.ds).map fun x => Tree.text [x])])
end SInt

theorem intconst_parses (i : SInt) (hok : i.Ok) (x : List Char) (hx : StopsAt digitC x) :
    ParsesTo grammar (.ref "IntConstant") (i.text ++ x) i.tree x (i.ds.length + 10) := by
  intro F hF
  have := intconst_exact i.sign hok.1 i.d i.ds x hok.2.1 hok.2.2.1 hx F hF
  simpa [parse, SInt.text, SInt.tree] using this

theorem SInt.text_head (i : SInt) (hok : i.Ok) : ∃ c r, i.text = c :: r ∧ (digitC c = true ∨ c = '-' ∨ c = '+') := by
  rcases hok.1 with h | h | h
  · exact ⟨i.d, i.ds, by simp [SInt.text, h], Or.inl hok.2.1⟩
  · exact ⟨'-', i.d :: i.ds, by simp [SInt.text, h], Or.inr (Or.inl rfl)⟩
  · exact ⟨'+', i.d :: i.ds, by simp [SInt.text, h], Or.inr (Or.inr rfl)⟩

theorem evInt_tree (i : SInt) : evInt i.tree = i.value := rfl

/-! ### doc comments -/

/-- `DocString` on `/**@` body `*/`. -/
theorem docstring_parses (body next : List Char) (hb : noClose body = true) :
    ParsesTo grammar (.ref "DocString") ('/' :: '*' :: '*' :: '@' :: body ++ ('*' :: '/' :: next))
      (.act "DocString1" ('/' :: '*' :: '*' :: '@' :: body ++ ['*', '/'])
        (.seq [.text ['/', '*', '*', '@'], .seq (body.map fun c => Tree.seq [.nil, .text [c]]), .text ['*', '/']])) next (body.length + 20) := by
  have h1 : ParsesTo grammar (.lit ['/', '*', '*', '@'] false) ('/' :: '*' :: '*' :: '@' :: body ++ ('*' :: '/' :: next))
      (.text ['/', '*', '*', '@']) (body ++ ('*' :: '/' :: next)) (body.length + 10) := (ParsesTo.lit_append ['/', '*', '*', '@'] _).mono (by omega)
  have h2 := (ParsesTo.star (block_scan body next hb)).mono (by simp : _ ≤ body.length + 10)
  have h3 : ParsesTo grammar (.lit ['*', '/'] false) ('*' :: '/' :: next) (.text ['*', '/']) next (body.length + 10) :=
    (ParsesTo.lit_append ['*', '/'] next).mono (by omega)
  have hs := ParsesTo.act (tag := "DocString1") (ParsesTo.seq (SeqRun.cons h1 (SeqRun.cons h2 (SeqRun.cons h3 SeqRun.nil))))
  have hc : consumed ('/' :: '*' :: '*' :: '@' :: body ++ ('*' :: '/' :: next)) next = '/' :: '*' :: '*' :: '@' :: body ++ ['*', '/'] :=
    consumed_of_eq _ _ _ (by simp)
  rw [hc] at hs
  exact (ParsesTo.ref lk_DocString (by rw [rule_DocString]; exact hs)).mono (by simp; omega)

/-- A written doc comment: body and the gap of `__` after it. -/
structure SDoc where
  body : List Char
  gap : List Char

namespace SDoc
def comment (d : SDoc) : List Char := '/' :: '*' :: '*' :: '@' :: d.body ++ ['*', '/']
def text (d : SDoc) : List Char := d.comment ++ d.gap
def Ok (d : SDoc) : Prop := noClose d.body = true ∧ UUGapText d.gap
end SDoc

def docText : Option SDoc → List Char
  | none => []
  | some d => d.text

/-- The `Comment []string` the action computes. -/
def docValue : Option SDoc → Doc
  | none => none
  | some d => some (docLines d.comment)

def DocOk : Option SDoc → Prop
  | none => True
  | some d => d.Ok

/-- `docstr:(DocString __)?` in front of a token `x` (for an absent doc: `x` does not start with `/`). -/
theorem docOpt_parses (d : Option SDoc) (hd : DocOk d) (x : List Char) (hx : TokHead x) :
    ∃ t, ParsesTo grammar (.lab "docstr" (.opt (.seq [.ref "DocString", .ref "__"]))) (docText d ++ x) (.lab "docstr" t) x ((docText d).length * 2 + 90) ∧
      evDoc t = docValue d := by
  cases d with
  | none =>
    have hf := FailsOn.seq (SeqFail.head (es := [.ref "__"]) (docstring_fails_tok x (tok_ne_slash hx)))
    exact ⟨.nil, (ParsesTo.lab (ParsesTo.opt_none hf)).mono (by simp [docText]), rfl⟩
  | some d =>
    obtain ⟨hb, hg⟩ := hd
    obtain ⟨ts, hu⟩ := uu_consumes d.gap x hg.isGap hx
    have h1 := (docstring_parses d.body (d.gap ++ x) hb).mono (by omega : d.body.length + 20 ≤ d.body.length + 2 * d.gap.length + 70)
    have h2 := hu.mono (by omega : 2 * d.gap.length + 70 ≤ d.body.length + 2 * d.gap.length + 70)
    have hs := ParsesTo.lab (n := "docstr") (ParsesTo.opt_some (ParsesTo.seq (SeqRun.cons h1 (SeqRun.cons h2 SeqRun.nil))))
    have hin : docText (some d) ++ x = '/' :: '*' :: '*' :: '@' :: d.body ++ ('*' :: '/' :: (d.gap ++ x)) := by
      simp [docText, SDoc.text, SDoc.comment]
    rw [hin]
    refine ⟨_, hs.mono (by simp [docText, SDoc.text, SDoc.comment]; omega), ?_⟩
    simp [evDoc, unlab, isNil, nth, kids, textOf, docValue, SDoc.comment]

/-! ### `= IntConstant`, list separators, the tail of a declaration item -/

theorem sep_some (c : Char) (hc : c = ',' ∨ c = ';') (x : List Char) :
    ParsesTo grammar (.opt (.ref "ListSeparator")) (c :: x) (.text [c]) x 4 := by
  have : clsMatches [',', ';'] [] false false c = true := by rcases hc with rfl | rfl <;> decide
  exact (ParsesTo.opt_some (ParsesTo.ref lk_ListSeparator (by rw [rule_ListSeparator]; exact ParsesTo.cls this))).mono (by omega)

theorem sep_none (x : List Char) (h : HeadP (fun c => c ≠ ',' ∧ c ≠ ';') x) :
    ParsesTo grammar (.opt (.ref "ListSeparator")) x .nil x 4 := by
  refine (ParsesTo.opt_none (FailsOn.ref lk_ListSeparator ?_)).mono (by omega : 1 + 1 + 1 ≤ 4)
  rw [rule_ListSeparator]
  cases x with
  | nil => exact FailsOn.cls_nil
  | cons c r =>
    have := h c r rfl
    exact FailsOn.cls (by simp [clsMatches, inRanges, this.1, this.2])

def sepText : Option Char → List Char
  | none => []
  | some c => [c]

def SepOkC : Option Char → Prop
  | none => True
  | some c => c = ',' ∨ c = ';'

/-- What must follow an item that ends without a separator: no white space or `/` (they would
belong to the item's last gap), no `(` (annotations), no separator. -/
def ItemEnd (sep : Option Char) (rest : List Char) : Prop :=
  match sep with
  | some _ => True
  | none => HeadP (fun c => (wsC c = false ∧ c ≠ '/') ∧ c ≠ '(' ∧ (c ≠ ',' ∧ c ≠ ';')) rest

/-- The tail `_ annotations:TypeAnnotations? ListSeparator?` of EnumValue / Field / Function / Operation,
without annotations: a gap of `_`, then an optional separator. -/
theorem itemTail_parses (g : List Char) (hg : UGapText g) (sep : Option Char) (hs : SepOkC sep) (rest : List Char) (hr : ItemEnd sep rest) :
    ∃ ts tsep, SeqRun grammar (2 * g.length + 70) [.ref "_", .lab "annotations" (.opt (.ref "TypeAnnotations")), .opt (.ref "ListSeparator")]
      (g ++ (sepText sep ++ rest)) [.seq ts, .lab "annotations" .nil, tsep] rest := by
  cases sep with
  | none =>
    simp only [ItemEnd] at hr
    obtain ⟨ts, hu⟩ := u_consumes' g rest hg.isGap (hr.mono fun c h => h.1)
    have h2 := (ParsesTo.lab (n := "annotations") (noAnns rest (hr.mono fun c h => h.2.1))).mono (by omega : 11 + 1 ≤ 2 * g.length + 70)
    have h3 := (sep_none rest (hr.mono fun c h => h.2.2)).mono (by omega : 4 ≤ 2 * g.length + 70)
    exact ⟨ts, .nil, by simpa [sepText] using SeqRun.cons hu (SeqRun.cons h2 (SeqRun.cons h3 SeqRun.nil))⟩
  | some c =>
    have hc : c = ',' ∨ c = ';' := hs
    have hh : HeadP (fun c => (wsC c = false ∧ c ≠ '/') ∧ c ≠ '(') (c :: rest) := HeadP.cons (by rcases hc with rfl | rfl <;> decide)
    obtain ⟨ts, hu⟩ := u_consumes' g (c :: rest) hg.isGap (hh.mono fun c h => h.1)
    have h2 := (ParsesTo.lab (n := "annotations") (noAnns (c :: rest) (hh.mono fun c h => h.2))).mono (by omega : 11 + 1 ≤ 2 * g.length + 70)
    have h3 := (sep_some c hc rest).mono (by omega : 4 ≤ 2 * g.length + 70)
    exact ⟨ts, .text [c], by simpa [sepText] using SeqRun.cons hu (SeqRun.cons h2 (SeqRun.cons h3 SeqRun.nil))⟩

end FV.PegIdl
