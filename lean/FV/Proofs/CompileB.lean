/-
C11: the duplicate-detecting loops of `validate` accept exactly the duplicate-free lists (FV/Spec/Compile.lean).
-/
import FV.Spec.Compile
import FV.Proofs.Compile
namespace FV.Compile

theorem lowerFirst_cons (c : Char) (cs : Name) : lowerFirst (c :: cs) = .ok (nameKey (c :: cs)) := by
  simp [lowerFirst, goIndex_zero_cons, nameKey]

theorem lowerFirst_nil : lowerFirst [] = .panic .index := rfl

theorem lookup_none_iff (l : List (Name × Name)) (k : Name) : l.lookup k = none ↔ k ∉ l.map Prod.fst := by
  induction l with
  | nil => simp
  | cons x xs ih =>
    obtain ⟨a, b⟩ := x
    by_cases h : k = a
    · subst h; simp [List.lookup]
    · have hb : (k == a) = false := by simpa using h
      simp [List.lookup, hb, ih, h]

/-- The `names := map[string]string` loop accepts exactly the lists of non-empty names that are
pairwise distinct up to the case of the first letter (and whose inner check passes). -/
theorem dupLoop_ok_iff (dupE conflictE : VErr) (nameOf : α → Name) (inner : α → CRes Unit) :
    ∀ (xs : List α) (seen : List (Name × Name)),
    dupLoop dupE conflictE nameOf inner seen xs = .ok () ↔
      (∀ x ∈ xs, nameOf x ≠ []) ∧ (∀ x ∈ xs, nameKey (nameOf x) ∉ seen.map Prod.fst) ∧
      (xs.map (fun x => nameKey (nameOf x))).Nodup ∧ ∀ x ∈ xs, inner x = .ok () := by
  intro xs
  induction xs with
  | nil => intro seen; simp [dupLoop]
  | cons x xs ih =>
    intro seen
    unfold dupLoop
    cases hn : nameOf x with
    | nil =>
      rw [lowerFirst_nil]
      constructor
      · intro h; cases h
      · rintro ⟨h, _⟩; exact absurd hn (h x List.mem_cons_self)
    | cons c cs =>
      rw [lowerFirst_cons]
      simp only []
      cases hl : seen.lookup (nameKey (c :: cs)) with
      | some prev =>
        have hin : nameKey (c :: cs) ∈ seen.map Prod.fst := by
          apply Classical.byContradiction
          intro hc
          rw [(lookup_none_iff seen _).mpr hc] at hl; cases hl
        dsimp only
        constructor
        · intro h
          by_cases he : (c :: cs) = prev
          · rw [if_pos he] at h; cases h
          · rw [if_neg he] at h; cases h
        · rintro ⟨_, h2, _⟩
          have := h2 x List.mem_cons_self
          rw [hn] at this
          exact absurd hin this
      | none =>
        have hnin := (lookup_none_iff seen _).mp hl
        simp only []
        cases hi : inner x with
        | err e =>
          constructor
          · intro h; cases h
          · rintro ⟨_, _, _, h4⟩; rw [h4 x List.mem_cons_self] at hi; cases hi
        | panic p =>
          constructor
          · intro h; cases h
          · rintro ⟨_, _, _, h4⟩; rw [h4 x List.mem_cons_self] at hi; cases hi
        | ok u =>
          simp only []
          rw [ih ((nameKey (c :: cs), c :: cs) :: seen)]
          have hkx : nameKey (nameOf x) = nameKey (c :: cs) := by rw [hn]
          constructor
          · rintro ⟨h1, h2, h3, h4⟩
            refine ⟨?_, ?_, ?_, ?_⟩
            · intro y hy
              cases hy with
              | head => rw [hn]; exact List.cons_ne_nil _ _
              | tail _ hy => exact h1 y hy
            · intro y hy
              cases hy with
              | head => rw [hkx]; exact hnin
              | tail _ hy =>
                intro hm
                exact h2 y hy (List.mem_cons_of_mem _ hm)
            · rw [List.map_cons, List.nodup_cons]
              refine ⟨?_, h3⟩
              intro hm
              obtain ⟨y, hy, he⟩ := List.mem_map.mp hm
              apply h2 y hy
              rw [List.map_cons]
              show nameKey (nameOf y) ∈ nameKey (c :: cs) :: _
              rw [he, hkx]; exact List.mem_cons_self
            · intro y hy
              cases hy with
              | head => cases u; exact hi
              | tail _ hy => exact h4 y hy
          · rintro ⟨h1, h2, h3, h4⟩
            rw [List.map_cons, List.nodup_cons] at h3
            refine ⟨fun y hy => h1 y (List.mem_cons_of_mem _ hy), ?_, h3.2, fun y hy => h4 y (List.mem_cons_of_mem _ hy)⟩
            intro y hy hm
            rw [List.map_cons] at hm
            rcases List.mem_cons.mp hm with he | hm
            · apply h3.1
              rw [hkx]
              exact List.mem_map.mpr ⟨y, hy, he⟩
            · exact h2 y (List.mem_cons_of_mem _ hy) hm

theorem dupIds_ok_iff (e : VErr) : ∀ (is seen : List Int),
    dupIds e seen is = .ok () ↔ (∀ i ∈ is, i ∉ seen) ∧ is.Nodup := by
  intro is
  induction is with
  | nil => intro seen; simp [dupIds]
  | cons i is ih =>
    intro seen
    unfold dupIds
    by_cases h : seen.contains i = true
    · simp only [h, if_true]
      constructor
      · intro hc; cases hc
      · rintro ⟨h1, _⟩; exact absurd (List.contains_iff_mem.mp h) (h1 i List.mem_cons_self)
    · have hni : i ∉ seen := fun hm => h (List.contains_iff_mem.mpr hm)
      have hf : seen.contains i = false := by simpa using h
      simp only [hf, Bool.false_eq_true, if_false]
      rw [ih (i :: seen)]
      simp only [List.mem_cons, not_or, List.nodup_cons]
      constructor
      · rintro ⟨h1, h2⟩
        refine ⟨?_, ?_, h2⟩
        · rintro j (rfl | hj)
          · exact hni
          · exact (h1 j hj).2
        · intro hm; exact (h1 i hm).1 rfl
      · rintro ⟨h1, h2, h3⟩
        refine ⟨fun j hj => ⟨?_, h1 j (Or.inr hj)⟩, h3⟩
        intro he; subst he; exact h2 hj

theorem validateIncludes_ok_iff : ∀ (vs seen : List Name),
    validateIncludes seen vs = .ok () ↔ (∀ v ∈ vs, includeDeclName v ∉ seen) ∧ (vs.map includeDeclName).Nodup := by
  intro vs
  induction vs with
  | nil => intro seen; simp [validateIncludes]
  | cons v vs ih =>
    intro seen
    unfold validateIncludes
    by_cases h : seen.contains (includeDeclName v) = true
    · simp only [h, if_true]
      constructor
      · intro hc; cases hc
      · rintro ⟨h1, _⟩; exact absurd (List.contains_iff_mem.mp h) (h1 v List.mem_cons_self)
    · have hni : includeDeclName v ∉ seen := fun hm => h (List.contains_iff_mem.mpr hm)
      have hf : seen.contains (includeDeclName v) = false := by simpa using h
      simp only [hf, Bool.false_eq_true, if_false]
      rw [ih (includeDeclName v :: seen)]
      simp only [List.mem_cons, not_or, List.map_cons, List.nodup_cons, List.mem_map, not_exists, not_and]
      constructor
      · rintro ⟨h1, h2⟩
        refine ⟨?_, ?_, h2⟩
        · rintro w (rfl | hw)
          · exact hni
          · exact (h1 w hw).2
        · intro w hw he; exact (h1 w hw).1 he
      · rintro ⟨h1, h2, h3⟩
        exact ⟨fun w hw => ⟨fun he => h2 w hw he, h1 w (Or.inr hw)⟩, h3⟩

theorem validateStructLike_ok_iff (ctx : Ctx) (s : StructLike) : ∀ (fls : List Field) (seen : List Int),
    validateStructLike ctx s seen fls = .ok () ↔
      (∀ fl ∈ fls, isValidType ctx fl.ty = true) ∧ (∀ fl ∈ fls, fl.id ∉ seen) ∧ (fls.map (·.id)).Nodup := by
  intro fls
  induction fls with
  | nil => intro seen; simp [validateStructLike]
  | cons fl fls ih =>
    intro seen
    unfold validateStructLike
    by_cases hv : isValidType ctx fl.ty = true
    · by_cases h : seen.contains fl.id = true
      · simp only [hv, Bool.not_true, Bool.false_eq_true, if_false, h, if_true]
        constructor
        · intro hc; cases hc
        · rintro ⟨_, h1, _⟩; exact absurd (List.contains_iff_mem.mp h) (h1 fl List.mem_cons_self)
      · have hni : fl.id ∉ seen := fun hm => h (List.contains_iff_mem.mpr hm)
        have hf : seen.contains fl.id = false := by simpa using h
        simp only [hv, Bool.not_true, Bool.false_eq_true, if_false, hf]
        rw [ih (fl.id :: seen)]
        simp only [List.mem_cons, not_or, List.map_cons, List.nodup_cons, List.mem_map, not_exists, not_and]
        constructor
        · rintro ⟨h0, h1, h2⟩
          refine ⟨?_, ?_, ?_, h2⟩
          · rintro g (rfl | hg)
            · exact hv
            · exact h0 g hg
          · rintro g (rfl | hg)
            · exact hni
            · exact (h1 g hg).2
          · intro g hg he; exact (h1 g hg).1 he
        · rintro ⟨h0, h1, h2, h3⟩
          exact ⟨fun g hg => h0 g (Or.inr hg), fun g hg => ⟨fun he => h2 g hg he, h1 g (Or.inr hg)⟩, h3⟩
    · have hv' : isValidType ctx fl.ty = false := by simpa using hv
      simp only [hv', Bool.not_false, if_true]
      constructor
      · intro hc; cases hc
      · rintro ⟨h0, _⟩; rw [h0 fl List.mem_cons_self] at hv'; cases hv'


end FV.Compile
