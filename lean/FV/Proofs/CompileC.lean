/-
C11: the parts of `validate` (constants, struct-likes, services, scopes, names) are their
declarative readings in FV/Spec/Compile.lean.
-/
import FV.Spec.Compile
import FV.Proofs.Compile
import FV.Proofs.CompileA
import FV.Proofs.CompileB
namespace FV.Compile

theorem firstErr_ok_iff {f : α → CRes Unit} {l : List α} : firstErr f l = .ok () ↔ ∀ a ∈ l, f a = .ok () :=
  ⟨firstErr_ok, firstErr_of_all⟩

theorem guardV_ok_iff {b : Bool} {e : VErr} : guardV b e = .ok () ↔ b = true := by
  cases b <;> simp [guardV]

theorem hasEnumValue_iff (f : File) (e v : Name) : hasEnumValue f.enums e v = true ↔ f.HasEnumValue e v := by
  unfold hasEnumValue File.HasEnumValue
  simp only [List.any_eq_true, Bool.and_eq_true, decide_eq_true_eq, List.contains_iff_mem]

theorem hasConst_iff (f : File) (n : Name) : f.consts.any (·.name = n) = true ↔ f.HasConst n := by
  unfold File.HasConst
  simp only [List.any_eq_true, decide_eq_true_eq]

theorem refCheck_iff (ctx : Ctx) (id : Name) :
    (match splitOn '.' id with
      | [_] => guardV (ctx.self.consts.any (·.name = id)) .constRef
      | [inc, param] =>
        if hasEnumValue ctx.self.enums inc param then .ok ()
        else if inc ≠ [] then
          match ctx.incs.lookup inc with
          | none => .err .constRefInclude
          | some f => guardV (f.consts.any (·.name = param)) .constRefIncluded
        else guardV (ctx.self.consts.any (·.name = param)) .constRefIncluded
      | [inc, en, v] =>
        match ctx.incs.lookup inc with
        | none => .err .constRefInclude
        | some f => guardV (hasEnumValue f.enums en v) .constRefEnum
      | _ => CRes.err .constName) = CRes.ok () ↔ RefResolves ctx id := by
  unfold RefResolves
  rcases hs : splitOn '.' id with _ | ⟨a, _ | ⟨b, _ | ⟨c, _ | ⟨d, rest⟩⟩⟩⟩
  · simp
  · simp only [guardV_ok_iff, hasConst_iff]
  · dsimp only
    by_cases he : hasEnumValue ctx.self.enums a b = true
    · simp only [he, if_true, true_iff]
      exact Or.inl ((hasEnumValue_iff _ _ _).mp he)
    · have hne : ¬ ctx.self.HasEnumValue a b := fun h => he ((hasEnumValue_iff _ _ _).mpr h)
      simp only [he, Bool.false_eq_true, if_false, hne, false_or]
      by_cases ha : a = []
      · simp only [ha, ne_eq, not_true_eq_false, if_false, guardV_ok_iff, hasConst_iff, false_and, true_and, false_or]
      · simp only [ha, ne_eq, not_false_eq_true, if_true, true_and, false_and, or_false]
        cases hl : ctx.incs.lookup a with
        | none => simp
        | some f => simp only [guardV_ok_iff, hasConst_iff, Option.some.injEq, exists_eq_left']
  · dsimp only
    cases hl : ctx.incs.lookup a with
    | none => simp
    | some f => simp only [guardV_ok_iff, hasEnumValue_iff, Option.some.injEq, exists_eq_left']
  · simp

theorem validateConstant_ok_iff (ctx : Ctx) (c : Const) :
    validateConstant ctx c = .ok () ↔ Resolves ctx c.ty ∧ ∀ id, c.ref = some id → RefResolves ctx id := by
  unfold validateConstant
  rw [← isValidType_iff]
  by_cases hv : isValidType ctx c.ty = true
  · simp only [hv, Bool.not_true, Bool.false_eq_true, if_false, true_and]
    cases hr : c.ref with
    | none => simp
    | some id =>
      simp only [Option.some.injEq, forall_eq']
      exact refCheck_iff ctx id
  · have hv' : isValidType ctx c.ty = false := by simpa using hv
    simp [hv']

theorem validateKind_all_iff (ctx : Ctx) :
    (validateKind ctx .struct = .ok () ∧ validateKind ctx .union = .ok () ∧ validateKind ctx .exception = .ok ()) ↔
    ∀ s ∈ ctx.self.structs, (∀ fl ∈ s.fields, Resolves ctx fl.ty) ∧ (s.fields.map (·.id)).Nodup := by
  have key : ∀ s : StructLike, validateStructLike ctx s [] s.fields = .ok () ↔
      (∀ fl ∈ s.fields, Resolves ctx fl.ty) ∧ (s.fields.map (·.id)).Nodup := by
    intro s
    rw [validateStructLike_ok_iff]
    simp only [isValidType_iff, List.not_mem_nil, not_false_eq_true, implies_true, true_and]
  unfold validateKind
  simp only [firstErr_ok_iff, List.mem_filter, decide_eq_true_eq, key]
  constructor
  · rintro ⟨h1, h2, h3⟩ s hs
    cases hk : s.kind with
    | struct => exact h1 s ⟨hs, hk⟩
    | union => exact h2 s ⟨hs, hk⟩
    | exception => exact h3 s ⟨hs, hk⟩
  · intro h
    exact ⟨fun s hs => h s hs.1, fun s hs => h s hs.1, fun s hs => h s hs.1⟩

theorem validateScopes_ok_iff (ctx : Ctx) :
    validateScopes ctx = .ok () ↔ ∀ s ∈ ctx.self.scopes, ∀ o ∈ s.ops, Resolves ctx o.ty := by
  unfold validateScopes
  simp only [firstErr_ok_iff, guardV_ok_iff, isValidType_iff]

theorem CRes.bind_unit_ok_iff (x : CRes Unit) (f : Unit → CRes Unit) :
    (x >>= f) = .ok () ↔ x = .ok () ∧ f () = .ok () := by
  cases x with
  | ok a => cases a; simp
  | err e => simp
  | panic p => simp

theorem methodChecks_iff (ctx : Ctx) (m : Method) :
    ((do
      (match m.ret with
        | some t => guardV (isValidType ctx t) .retType
        | none => .ok ())
      firstErr (fun a => guardV (isValidType ctx a.ty) .argType) m.args
      firstErr (fun a => guardV (isValidType ctx a.ty) .excType) m.excs) : CRes Unit) = .ok () ∧
    ((do
      (if m.oneway then do
          guardV m.excs.isEmpty .onewayThrows
          guardV m.ret.isNone .onewayReturns
        else .ok ())
      dupIds .dupArgId [] (m.args.map (·.id))) : CRes Unit) = .ok () ↔ ValidMethod ctx m := by
  simp only [CRes.bind_unit_ok_iff, firstErr_ok_iff, guardV_ok_iff, isValidType_iff, dupIds_ok_iff,
    List.not_mem_nil, not_false_eq_true, implies_true, true_and]
  constructor
  · rintro ⟨⟨h1, h2, h3⟩, h4, h5⟩
    refine ⟨?_, h2, h3, ?_, h5⟩
    · intro t ht
      rw [ht] at h1
      simpa only [guardV_ok_iff, isValidType_iff] using h1
    · intro ho
      rw [ho] at h4
      simp only [if_true, CRes.bind_unit_ok_iff, guardV_ok_iff] at h4
      exact ⟨List.isEmpty_iff.mp h4.1, Option.isNone_iff_eq_none.mp h4.2⟩
  · intro v
    refine ⟨⟨?_, v.args, v.excs⟩, ?_, v.argIds⟩
    · cases hr : m.ret with
      | none => rfl
      | some t => simp only [guardV_ok_iff, isValidType_iff]; exact v.ret t hr
    · cases ho : m.oneway with
      | false => simp
      | true =>
        obtain ⟨h1, h2⟩ := v.oneway ho
        simp [CRes.bind_unit_ok_iff, guardV_ok_iff, h1, h2]

theorem validateServices_ok_iff (ctx : Ctx) :
    validateServices ctx = .ok () ↔ ∀ s ∈ ctx.self.services, ∀ m ∈ s.methods, ValidMethod ctx m := by
  unfold validateServices
  rw [firstErr_ok_iff]
  constructor
  · intro h s hs m hm
    obtain ⟨h1, h2⟩ := (CRes.bind_unit_ok_iff _ _).mp (h s hs)
    unfold validateServiceTypes at h1
    unfold validateServiceShape at h2
    exact (methodChecks_iff ctx m).mp ⟨firstErr_ok h1 m hm, firstErr_ok h2 m hm⟩
  · intro h s hs
    apply (CRes.bind_unit_ok_iff _ _).mpr
    refine ⟨?_, ?_⟩
    · unfold validateServiceTypes
      exact firstErr_of_all (fun m hm => ((methodChecks_iff ctx m).mpr (h s hs m hm)).1)
    · unfold validateServiceShape
      exact firstErr_of_all (fun m hm => ((methodChecks_iff ctx m).mpr (h s hs m hm)).2)

theorem validateNames_ok_iff (f : File) :
    validateNames f = .ok () ↔
      ((∀ s ∈ f.services, s.name ≠ []) ∧ (f.services.map (nameKey ·.name)).Nodup) ∧
      (∀ s ∈ f.services, (∀ m ∈ s.methods, m.name ≠ []) ∧ (s.methods.map (nameKey ·.name)).Nodup) ∧
      ((∀ s ∈ f.scopes, s.name ≠ []) ∧ (f.scopes.map (nameKey ·.name)).Nodup) ∧
      (∀ s ∈ f.scopes, (∀ o ∈ s.ops, o.name ≠ []) ∧ (s.ops.map (nameKey ·.name)).Nodup) := by
  unfold validateNames
  simp only [CRes.bind_unit_ok_iff, dupLoop_ok_iff, List.map_nil, List.not_mem_nil, not_false_eq_true, implies_true,
    true_and, and_true]
  constructor
  · rintro ⟨⟨h1, h2, h3⟩, h4, h5, h6⟩
    exact ⟨⟨h1, h2⟩, h3, ⟨h4, h5⟩, h6⟩
  · rintro ⟨⟨h1, h2⟩, h3, ⟨h4, h5⟩, h6⟩
    exact ⟨⟨h1, h2, h3⟩, h4, h5, h6⟩


end FV.Compile
