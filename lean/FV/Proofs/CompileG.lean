/-
C11: a constant value that fits its type (FV/Spec/ConstValue.lean) goes through the Go
generator's `generateConstantValue` (FV/Model/ConstValue.lean) without a panic.
-/
import FV.Spec.ConstValue
import FV.Proofs.CompileE
namespace FV.Compile

theorem exists_bound {α : Type} {P : Nat → α → Prop} (l : List α)
    (h : ∀ a ∈ l, ∃ n, ∀ f, n ≤ f → P f a) : ∃ N, ∀ a ∈ l, ∀ f, N ≤ f → P f a := by
  induction l with
  | nil => exact ⟨0, fun a ha => absurd ha List.not_mem_nil⟩
  | cons x xs ih =>
    obtain ⟨n1, h1⟩ := h x List.mem_cons_self
    obtain ⟨n2, h2⟩ := ih (fun a ha => h a (List.mem_cons_of_mem _ ha))
    refine ⟨max n1 n2, fun a ha f hf => ?_⟩
    rcases List.mem_cons.mp ha with rfl | ha
    · exact h1 f (by omega)
    · exact h2 a ha f (by omega)

theorem identContext_ok (ctx : Ctx) (id : Name) (h : IdentNames ctx id) : identContext ctx id = .ok () := by
  unfold IdentNames at h
  unfold identContext
  rcases hs : splitOn '.' id with _ | ⟨a, _ | ⟨b, _ | ⟨c, _ | ⟨d, rest⟩⟩⟩⟩
  · rw [hs] at h; exact False.elim h
  · rw [hs] at h
    dsimp only at h ⊢
    rw [if_pos ((hasConst_iff ctx.self id).mpr h)]
  · rw [hs] at h
    dsimp only at h ⊢
    rcases h with h | ⟨f, hl, hk⟩
    · rw [if_pos ((hasEnumValue_iff ctx.self a b).mpr h)]
    · by_cases he : hasEnumValue ctx.self.enums a b = true
      · rw [if_pos he]
      · rw [if_neg he, hl]
        dsimp only
        rw [if_pos ((hasConst_iff f b).mpr hk)]
  · rw [hs] at h
    dsimp only at h ⊢
    obtain ⟨f, hl, en, hf, hc⟩ := h
    rw [hl]
    dsimp only
    rw [hf]
    dsimp only
    rw [if_pos (List.contains_iff_mem.mpr hc)]
  · rw [hs] at h; exact False.elim h

theorem contains_false_of_not_mem {l : List Name} {n : Name} (h : n ∉ l) : l.contains n = false := by
  cases hc : l.contains n with
  | false => rfl
  | true => exact absurd (List.contains_iff_mem.mp hc) h

/-- A value that fits its type goes through `generateConstantValue` without a panic: every
type assertion finds the dynamic type it asserts, every lookup finds its target. -/
theorem genConst_ok_of_fits (ctx : Ctx) {t : Ty} {v : Val} (h : Fits ctx t v) :
    ∃ n, ∀ fuel, n ≤ fuel → genConst ctx fuel t v = .ok () := by
  induction h with
  | ident hid =>
    refine ⟨1, fun fuel hf => ?_⟩
    obtain ⟨m, rfl⟩ : ∃ m, fuel = m + 1 := ⟨fuel - 1, by omega⟩
    rw [genConst]
    exact identContext_ok ctx _ hid
  | @base t n v hu hb hf =>
    refine ⟨1, fun fuel hfu => ?_⟩
    obtain ⟨m, rfl⟩ : ∃ m, fuel = m + 1 := ⟨fuel - 1, by omega⟩
    unfold Underlies at hu
    cases v with
    | ident _ => exact False.elim hf
    | str s => simp only [genConst, hu, List.contains_iff_mem.mpr hb, if_true]; split <;> rfl
    | bool b =>
      have : n ≠ "string".toList := by rw [hf]; decide
      simp only [genConst, hu, List.contains_iff_mem.mpr hb, if_true, this, if_false]
    | int i =>
      have : n ≠ "string".toList := by
        intro he; rw [he] at hf
        have hd : ¬ ("string".toList ∈ ["byte", "i8", "i16", "i32", "i64", "double"].map String.toList) := by decide
        exact hd hf
      simp only [genConst, hu, List.contains_iff_mem.mpr hb, if_true, this, if_false]
    | dbl =>
      have : n ≠ "string".toList := by rw [hf]; decide
      simp only [genConst, hu, List.contains_iff_mem.mpr hb, if_true, this, if_false]
    | list vs => exact False.elim hf
    | map kvs => exact False.elim hf
  | @list t e vs hu _ ih =>
    obtain ⟨N, hN⟩ := exists_bound (P := fun f v => genConst ctx f e v = .ok ()) vs ih
    refine ⟨N + 1, fun fuel hfu => ?_⟩
    obtain ⟨m, rfl⟩ : ∃ m, fuel = m + 1 := ⟨fuel - 1, by omega⟩
    unfold Underlies at hu
    simp only [genConst, hu]
    exact firstErr_of_all (fun v hv => hN v hv m (by omega))
  | @set t e vs hu _ ih =>
    obtain ⟨N, hN⟩ := exists_bound (P := fun f v => genConst ctx f e v = .ok ()) vs ih
    refine ⟨N + 1, fun fuel hfu => ?_⟩
    obtain ⟨m, rfl⟩ : ∃ m, fuel = m + 1 := ⟨fuel - 1, by omega⟩
    unfold Underlies at hu
    simp only [genConst, hu]
    exact firstErr_of_all (fun v hv => hN v hv m (by omega))
  | @map t k w kvs hu _ _ ihk ihw =>
    obtain ⟨N1, hN1⟩ := exists_bound (P := fun f (kv : Val × Val) => genConst ctx f k kv.1 = .ok ()) kvs ihk
    obtain ⟨N2, hN2⟩ := exists_bound (P := fun f (kv : Val × Val) => genConst ctx f w kv.2 = .ok ()) kvs ihw
    refine ⟨max N1 N2 + 1, fun fuel hfu => ?_⟩
    obtain ⟨m, rfl⟩ : ∃ m, fuel = m + 1 := ⟨fuel - 1, by omega⟩
    unfold Underlies at hu
    simp only [genConst, hu]
    apply firstErr_of_all
    intro kv hkv
    show (genConst ctx m k kv.1 >>= fun _ => genConst ctx m w kv.2) = .ok ()
    rw [hN1 kv hkv m (by omega)]
    exact hN2 kv hkv m (by omega)
  | @enum t n i hu hb hc he =>
    refine ⟨1, fun fuel hfu => ?_⟩
    obtain ⟨m, rfl⟩ : ∃ m, fuel = m + 1 := ⟨fuel - 1, by omega⟩
    unfold Underlies at hu
    simp only [genConst, hu, contains_false_of_not_mem hb, contains_false_of_not_mem hc, Bool.false_eq_true, if_false, he, if_true]
  | @struct t n s kvs hu hb hc he hfs hkeys _ ih =>
    have hb2 : ∀ kv ∈ kvs, ∃ nb, ∀ f, nb ≤ f → ∀ key, (kv.1 = .str key ∨ kv.1 = .ident key) → ∀ fl ∈ s.fields,
        title fl.name = title key → genConst ctx f fl.ty kv.2 = .ok () := by
      intro kv hkv
      obtain ⟨key, hkey⟩ := hkeys kv hkv
      have := exists_bound (P := fun f (fl : Field) => title fl.name = title key → genConst ctx f fl.ty kv.2 = .ok ()) s.fields
        (fun fl hfl => by
          by_cases ht : title fl.name = title key
          · obtain ⟨nb, hnb⟩ := ih kv hkv key hkey fl hfl ht
            exact ⟨nb, fun f hf _ => hnb f hf⟩
          · exact ⟨0, fun f _ h => absurd h ht⟩)
      obtain ⟨nb, hnb⟩ := this
      refine ⟨nb, fun f hf key' hkey' fl hfl ht => ?_⟩
      have hk : key' = key := by
        rcases hkey with h1 | h1 <;> rcases hkey' with h2 | h2 <;> rw [h1] at h2 <;> cases h2 <;> rfl
      subst hk
      exact hnb fl hfl f hf ht
    obtain ⟨N, hN⟩ := exists_bound (P := fun f (kv : Val × Val) => ∀ key, (kv.1 = .str key ∨ kv.1 = .ident key) →
      ∀ fl ∈ s.fields, title fl.name = title key → genConst ctx f fl.ty kv.2 = .ok ()) kvs hb2
    refine ⟨N + 1, fun fuel hfu => ?_⟩
    obtain ⟨m, rfl⟩ : ∃ m, fuel = m + 1 := ⟨fuel - 1, by omega⟩
    unfold Underlies at hu
    simp only [genConst, hu, contains_false_of_not_mem hb, contains_false_of_not_mem hc, Bool.false_eq_true, if_false, he, hfs]
    apply firstErr_of_all
    intro kv hkv
    obtain ⟨key, hkey⟩ := hkeys kv hkv
    have hks : keyToString kv.1 = .ok key := by rcases hkey with h1 | h1 <;> rw [h1] <;> rfl
    obtain ⟨nm, hnm⟩ := titleServiceName_isOk key []
    have hnm' : title key = .ok nm := hnm
    simp only [hks, CRes.bind_ok, hnm']
    apply firstErr_of_all
    intro fl hfl
    obtain ⟨fn, hfn⟩ := titleServiceName_isOk fl.name []
    have hfn' : title fl.name = .ok fn := hfn
    simp only [hfn', CRes.bind_ok]
    by_cases hq : fn = nm
    · rw [if_pos hq]
      exact hN kv hkv m (by omega) key hkey fl hfl (by rw [hfn', hnm', hq])
    · rw [if_neg hq]; rfl


end FV.Compile
