/-
Helper lemmas for Props/C16.lean.
-/
import FV.Model.Middleware
import FV.Spec.Middleware

namespace FV.Mw
variable {α ρ : Type}

theorem compose_append (base : Handler α ρ) (ms ms' : List (Middleware α ρ)) :
    compose base (ms ++ ms') = compose (compose base ms) ms' := by
  simp [compose, List.foldl_append]

theorem compose_cons (base : Handler α ρ) (m : Middleware α ρ) (ms : List (Middleware α ρ)) :
    compose base (m :: ms) = compose (m base) ms := rfl

theorem compose_snoc (base : Handler α ρ) (ms : List (Middleware α ρ)) (m : Middleware α ρ) :
    compose base (ms ++ [m]) = m (compose base ms) := by
  simp [compose, List.foldl_append]

theorem wrapsFrom_append (ws ws' : List (W α ρ)) : ∀ k : Nat,
    wrapsFrom k (ws ++ ws') = wrapsFrom k ws ++ wrapsFrom (k + ws.length) ws' := by
  induction ws with
  | nil => intro k; simp [wrapsFrom]
  | cons w ws ih => intro k; simp [wrapsFrom, ih, Nat.add_assoc, Nat.add_comm 1]

theorem wrapsFrom_length (ws : List (W α ρ)) : ∀ k : Nat, (wrapsFrom k ws).length = ws.length := by
  induction ws with
  | nil => intro k; rfl
  | cons w ws ih => intro k; simp [wrapsFrom, ih]

theorem enters_cons (k : Nat) (w : W α ρ) (ws : List (W α ρ)) (a : α) :
    enters k (w :: ws) a = enters (k + 1) ws a ++ [Ev.enter k (preAll ws a)] := by
  simp [enters, List.range_succ_eq_map, List.map_reverse, Function.comp_def, Nat.add_assoc, Nat.add_comm 1]

theorem exits_cons (k : Nat) (w : W α ρ) (ws : List (W α ρ)) (r : ρ) :
    exits k (w :: ws) r = Ev.exit k r :: exits (k + 1) ws (w.post r) := by
  simp [exits, List.range_succ_eq_map, Function.comp_def, postAll, Nat.add_assoc, Nat.add_comm 1]

/-- The run of wrapping middleware around ANY inner handler. -/
theorem run_wrapsFrom (ws : List (W α ρ)) : ∀ (h : Handler α ρ) (k : Nat) (a : α),
    compose h (wrapsFrom k ws) a =
      (postAll ws (h (preAll ws a)).1,
       enters k ws a ++ (h (preAll ws a)).2 ++ exits k ws (h (preAll ws a)).1) := by
  induction ws with
  | nil => intro h k a; simp [wrapsFrom, compose, preAll, postAll, enters, exits]
  | cons w ws ih =>
    intro h k a
    rw [wrapsFrom, compose_cons, ih, enters_cons, exits_cons]
    simp [wrap, preAll, postAll]

theorem count_enter_enters (i : Nat) (ws : List (W α ρ)) : ∀ (k : Nat) (a : α),
    (enters k ws a).countP (isEnter i) = if k ≤ i ∧ i < k + ws.length then 1 else 0 := by
  induction ws with
  | nil => intro k a; simp [enters]
  | cons w ws ih =>
    intro k a
    rw [enters_cons, List.countP_append, ih]
    simp only [List.countP_cons, List.countP_nil, isEnter, List.length_cons]
    by_cases h : k = i
    · subst h; simp; omega
    · have : (k == i) = false := by simp [h]
      simp only [this]; simp
      split <;> split <;> omega

theorem count_exit_enters (i : Nat) (ws : List (W α ρ)) (k : Nat) (a : α) :
    (enters k ws a).countP (isExit i) = 0 := by
  simp [enters, List.countP_eq_zero, isExit]

theorem count_base_enters (ws : List (W α ρ)) (k : Nat) (a : α) :
    (enters k ws a).countP isBase = 0 := by
  simp [enters, List.countP_eq_zero, isBase]

theorem count_exit_exits (i : Nat) (ws : List (W α ρ)) : ∀ (k : Nat) (r : ρ),
    (exits k ws r).countP (isExit i) = if k ≤ i ∧ i < k + ws.length then 1 else 0 := by
  induction ws with
  | nil => intro k a; simp [exits]
  | cons w ws ih =>
    intro k a
    rw [exits_cons, List.countP_cons, ih]
    simp only [isExit, List.length_cons]
    by_cases h : k = i
    · subst h; simp; omega
    · have : (k == i) = false := by simp [h]
      simp only [this]; simp
      split <;> split <;> omega

theorem count_enter_exits (i : Nat) (ws : List (W α ρ)) (k : Nat) (r : ρ) :
    (exits k ws r).countP (isEnter i) = 0 := by
  simp [exits, List.countP_eq_zero, isEnter]

theorem count_base_exits (ws : List (W α ρ)) (k : Nat) (r : ρ) :
    (exits k ws r).countP isBase = 0 := by
  simp [exits, List.countP_eq_zero, isBase]

theorem enters_tags (k : Nat) (ws : List (W α ρ)) (a : α) :
    (enters k ws a).map Ev.tag = (List.range ws.length).reverse.map (fun i => Tag.enter (k + i)) := by
  simp [enters, Function.comp_def, Ev.tag]

theorem exits_tags (k : Nat) (ws : List (W α ρ)) (r : ρ) :
    (exits k ws r).map Ev.tag = (List.range ws.length).map (fun i => Tag.exit (k + i)) := by
  simp [exits, Function.comp_def, Ev.tag]

/-! ### Method / ProcMap -/

theorem addAll_newMethod (f : α → ρ) (ms : List (Middleware α ρ)) (added : List (Middleware α ρ)) :
    (newMethod f ms).addAll added = newMethod f (ms ++ added) := by
  induction added generalizing ms with
  | nil => simp [Method.addAll]
  | cons m t ih =>
    have : (newMethod f ms).addMiddleware m = newMethod f (ms ++ [m]) := by
      simp [Method.addMiddleware, newMethod, compose_snoc]
    simp only [Method.addAll, List.foldl_cons] at ih ⊢
    rw [this, ih]; simp

theorem find_insert (pm : ProcMap α ρ) (k k' : String) (m : Method α ρ) :
    (pm.insert k m).find k' = if k = k' then some m else pm.find k' := by
  induction pm with
  | nil => simp [ProcMap.insert, ProcMap.find]
  | cons x t ih =>
    obtain ⟨kx, mx⟩ := x
    simp only [ProcMap.insert]
    by_cases h : kx = k
    · subst h; simp only [if_true, ProcMap.find]
      by_cases h2 : kx = k' <;> simp [h2]
    · simp only [if_neg h, ProcMap.find, ih]
      by_cases h2 : kx = k'
      · subst h2; simp [Ne.symm h]
      · simp [h2]

theorem find_addMiddleware (pm : ProcMap α ρ) (mw : Middleware α ρ) (k : String) :
    (pm.addMiddleware mw).find k = (pm.find k).map (fun m => m.addMiddleware mw) := by
  induction pm with
  | nil => simp [ProcMap.addMiddleware, ProcMap.find]
  | cons x t ih =>
    obtain ⟨kx, mx⟩ := x
    simp only [ProcMap.addMiddleware, List.map_cons, ProcMap.find] at ih ⊢
    by_cases h : kx = k
    · simp [h]
    · simp [h, ih]

theorem find_addAll (added : List (Middleware α ρ)) : ∀ (pm : ProcMap α ρ) (k : String),
    (pm.addAll added).find k = (pm.find k).map (fun m => m.addAll added) := by
  induction added with
  | nil => intro pm k; simp [ProcMap.addAll, Method.addAll]
  | cons m t ih =>
    intro pm k
    simp only [ProcMap.addAll, Method.addAll, List.foldl_cons] at ih ⊢
    rw [ih, find_addMiddleware]; simp [Option.map_map, Function.comp_def]

theorem find_register (ctor : List (Middleware α ρ)) (k : String) (ops : List (Op α ρ)) :
    ∀ (pm : ProcMap α ρ) (acc : Option (α → ρ)),
      pm.find k = acc.map (fun f => newMethod f ctor) →
      (ops.foldl (fun pm op => pm.insert op.1 (newMethod op.2 (processorWiring ctor))) pm).find k =
        (ops.foldl (fun acc op => if op.1 = k then some op.2 else acc) acc).map (fun f => newMethod f ctor) := by
  induction ops with
  | nil => intro pm acc h; simpa using h
  | cons op t ih =>
    intro pm acc h
    simp only [List.foldl_cons]
    apply ih
    rw [find_insert]
    by_cases hk : op.1 = k
    · simp [hk, processorWiring]
    · simp [hk, h]

theorem genProcessor_flatten (chain : List (List (Op α ρ))) (ctor : List (Middleware α ρ)) :
    genProcessor chain ctor =
      chain.flatten.foldl (fun (pm : ProcMap α ρ) op => pm.insert op.1 (newMethod op.2 (processorWiring ctor))) [] := by
  simp [genProcessor, List.foldl_flatten]

theorem mem_genClient (chain : List (List (Op α ρ))) (ctor prov : List (Middleware α ρ))
    (km : String × Method α ρ) (h : km ∈ genClient chain ctor prov) :
    ∃ op ∈ chain.flatten, km = (op.1, newMethod op.2 (ctor ++ prov)) := by
  induction chain with
  | nil => simp [genClient] at h
  | cons leaf parents ih =>
    simp only [genClient, List.mem_append, List.mem_map] at h
    rcases h with h | ⟨op, hop, rfl⟩
    · obtain ⟨op, hop, e⟩ := ih h
      exact ⟨op, by simp [hop], e⟩
    · exact ⟨op, by simp [hop], rfl⟩

end FV.Mw
