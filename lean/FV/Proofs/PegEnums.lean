/-
`EnumValue`, the enum body and the `Enum` rule of the regenerated grammar, for every styling.
-/
import FV.Proofs.PegTokens

namespace FV.PegIdl
open FV.Peg FV.Generated FV.Act FV.Syn

/-! ### more token facts -/

theorem identifier_fails (x : List Char) (h : HeadP (fun c => idStart c = false) x) : FailsOn grammar (.ref "Identifier") x 12 := by
  have hf : FailsOn grammar idStartE x 4 := by
    intro F hF
    cases x with
    | nil => exact (idStart_matcher F hF).2
    | cons c r => rw [(idStart_matcher F hF).1 c r, h c r rfl]; simp
  have h1 := FailsOn.act (tag := "Identifier1") (FailsOn.seq (SeqFail.head (es := [.star idPartE]) (FailsOn.plus hf)))
  exact (FailsOn.ref lk_Identifier (by rw [rule_Identifier]; exact h1)).mono (by simp)

/-- After an identifier or number: a gap of `_` (which starts with white space or `/`), then `y`. -/
theorem stops_after_gap {p : Char → Bool} (hp : ∀ c, tokC c = false → p c = false) (g : List Char) (hg : UGapText g) (y : List Char)
    (hy : g = [] → StopsAt p y) : StopsAt p (g ++ y) := by
  cases g with
  | nil => simpa using hy rfl
  | cons a t =>
    intro c r e
    simp only [List.cons_append, List.cons.injEq] at e
    rw [← e.1]
    exact hp a (wsOrSlash_tok (hg.head a t rfl))

theorem gapc_not_digit {c : Char} (h : tokC c = false) : digitC c = false := by
  cases hd : digitC c with
  | false => rfl
  | true => have h2 := digit_idPart hd; rw [gapc_not_idPart h] at h2; cases h2

theorem tokc_uhead {c : Char} (h : tokC c = true) : wsC c = false ∧ c ≠ '/' := by
  simp only [tokC, Bool.not_eq_true', Bool.or_eq_false_iff, beq_eq_false_iff_ne] at h
  exact ⟨h.1.1.1, h.1.2⟩

theorem SInt.uhead (i : SInt) (hok : i.Ok) (y : List Char) : UHead (i.text ++ y) := by
  obtain ⟨c, r, e, hc⟩ := i.text_head hok
  rw [e]
  refine HeadP.cons ?_
  rcases hc with h | rfl | rfl
  · exact tokc_uhead (idPart_tok (digit_idPart h))
  · decide
  · decide

/-- Where rule `__` stops: its repetition body fails. -/
def UUStop (x : List Char) : Prop := FailsOn grammar uuBody x 35

theorem TokHead.uustop {x} (h : TokHead x) : UUStop x := uuBody_fails_tok x h

theorem uu_consumes' (g next : List Char) (hg : IsGap uuBody g) (hn : UUStop next) :
    ∃ ts, ParsesTo grammar (.ref "__") (g ++ next) (.seq ts) next (2 * g.length + 70) := by
  obtain ⟨ts, hi, hl⟩ := hg next
  have h1 := ParsesTo.star (hi.starRun (hn.mono (by omega)))
  have h2 := ParsesTo.ref lk_UU (by rw [rule_UU_eq]; exact h1)
  exact ⟨ts, h2.mono (by omega)⟩

/-! ### EnumValue -/

/-- `= value`: the gap after `=`, the integer, the gap after it. -/
structure SAssign where
  g2 : List Char
  int : SInt
  g3 : List Char

/-- A written enum value. -/
structure SEnumValue where
  doc : Option SDoc
  c : Char
  s : List Char
  g1 : List Char
  value : Option SAssign
  sep : Option Char

namespace SEnumValue

/-- The text, followed by `rest`. -/
def renderK (v : SEnumValue) (rest : List Char) : List Char :=
  match v.value with
  | none => docText v.doc ++ (v.c :: v.s ++ (v.g1 ++ (sepText v.sep ++ rest)))
  | some a => docText v.doc ++ (v.c :: v.s ++ (v.g1 ++ ('=' :: (a.g2 ++ (a.int.text ++ (a.g3 ++ (sepText v.sep ++ rest)))))))

def Ok (v : SEnumValue) : Prop :=
  DocOk v.doc ∧ idStart v.c = true ∧ (∀ x ∈ v.s, idPart x = true) ∧ UGapText v.g1 ∧ SepOkC v.sep ∧
  (match v.value with
   | none => True
   | some a => UGapText a.g2 ∧ a.int.Ok ∧ UGapText a.g3)

/-- What the `EnumValue` action returns. -/
def raw (v : SEnumValue) : RawEV :=
  { doc := docValue v.doc, name := v.c :: v.s, value := v.value.map (fun a => a.int.value), anns := [] }

/-- What may follow: nothing special after a separator; otherwise no separator, `(`, white space or `/`,
no `=` after a value-less name, and no identifier character / digit directly after the name / number. -/
def End (v : SEnumValue) (rest : List Char) : Prop :=
  ItemEnd v.sep rest ∧
  (v.sep = none →
    match v.value with
    | none => HeadP (fun c => c ≠ '=') rest ∧ (v.g1 = [] → StopsAt idPart rest)
    | some a => (a.g3 = [] → StopsAt digitC rest))

def cost (v : SEnumValue) : Nat :=
  2 * (docText v.doc).length + v.s.length + 2 * v.g1.length +
    (match v.value with | none => 0 | some a => 2 * a.g2.length + a.int.ds.length + 2 * a.g3.length) + 100

end SEnumValue

theorem sepText_head (sep : Option Char) (hs : SepOkC sep) (rest : List Char) (P : Char → Prop)
    (hc : P ',' ∧ P ';') (hr : sep = none → HeadP P rest) : HeadP P (sepText sep ++ rest) := by
  cases sep with
  | none => simpa [sepText] using hr rfl
  | some c =>
    have : c = ',' ∨ c = ';' := hs
    rcases this with rfl | rfl
    · exact HeadP.cons hc.1
    · exact HeadP.cons hc.2

/-- `EnumValue` on a written enum value. -/
theorem enumValue_parses (v : SEnumValue) (hok : v.Ok) (rest : List Char) (hend : v.End rest) :
    ∃ t, ParsesTo grammar (.ref "EnumValue") (v.renderK rest) t rest (v.cost + 20) ∧ unlab t = t ∧ evEnumValue t = v.raw := by
  obtain ⟨hdoc, hc, hs, hg1, hsep, hval⟩ := hok
  obtain ⟨hie, hend2⟩ := hend
  have hY_uhead : UHead (sepText v.sep ++ rest) := by
    refine sepText_head v.sep hsep rest _ ⟨by decide, by decide⟩ (fun h => ?_)
    rw [h] at hie; exact hie.mono fun c hc => hc.1
  cases hv : v.value with
  | none =>
    rw [hv] at hval
    have hend3 := fun h => by have := hend2 h; rw [hv] at this; exact this
    -- texts
    have hY_noeq : HeadP (fun c => c ≠ '=') (sepText v.sep ++ rest) :=
      sepText_head v.sep hsep rest _ ⟨by decide, by decide⟩ (fun h => (hend3 h).1)
    have hY_id : v.g1 = [] → StopsAt idPart (sepText v.sep ++ rest) := by
      intro hg
      refine sepText_head v.sep hsep rest (fun c => idPart c = false) ⟨by decide, by decide⟩ (fun h => ?_)
      exact (hend3 h).2 hg
    have hX := stops_after_gap (p := idPart) (fun c => gapc_not_idPart) v.g1 hg1 _ hY_id
    have hXtok : TokHead (v.c :: v.s ++ (v.g1 ++ (sepText v.sep ++ rest))) := HeadP.cons (idPart_tok (idStart_idPart hc))
    obtain ⟨td, hd1, hd2⟩ := docOpt_parses v.doc hdoc _ hXtok
    have hn := ParsesTo.lab (n := "name") (identifier_parses v.c v.s _ hc hs hX)
    obtain ⟨ts1, hu1⟩ := u_consumes' v.g1 _ hg1.isGap hY_uhead
    have hvn : ParsesTo grammar (.lab "value" (.opt (.seq [.lit ['='] false, .ref "_", .ref "IntConstant"]))) (sepText v.sep ++ rest)
        (.lab "value" .nil) (sepText v.sep ++ rest) 8 := by
      have hl : matchLit false ['='] (sepText v.sep ++ rest) = none := lit_fails_head '=' [] _ hY_noeq
      exact (ParsesTo.lab (ParsesTo.opt_none (FailsOn.seq (SeqFail.head (es := [.ref "_", .ref "IntConstant"]) (FailsOn.lit (g := grammar) hl))))).mono (by simp)
    obtain ⟨ts2, tsep, htail⟩ := itemTail_parses [] .nil v.sep hsep rest hie
    have hfront := SeqRun.cons (hd1.mono (by simp [SEnumValue.cost, hv]; omega : _ ≤ v.cost)) (SeqRun.cons (hn.mono (by simp [SEnumValue.cost]; omega : _ ≤ v.cost))
      (SeqRun.cons (hu1.mono (by simp [SEnumValue.cost]; omega : _ ≤ v.cost)) (SeqRun.cons (hvn.mono (by simp [SEnumValue.cost] : _ ≤ v.cost)) SeqRun.nil)))
    have hall := SeqRun.append hfront (SeqRun.mono (by simp [SEnumValue.cost] : 2 * ([] : List Char).length + 70 ≤ v.cost) htail)
    have hp := ParsesTo.ref lk_EnumValue (by
      rw [rule_EnumValue]
      exact ParsesTo.act (tag := "EnumValue1") (ParsesTo.seq (by simpa using hall)))
    refine ⟨_, by simpa [SEnumValue.renderK, hv] using hp.mono (by simp; omega), rfl, ?_⟩
    simp [evEnumValue, FV.Act.get, FV.Act.body, findLab, isNil, evIdent, idTree, textOf, evAnns, hd2, SEnumValue.raw, hv]
  | some a =>
    rw [hv] at hval
    obtain ⟨hg2, hint, hg3⟩ := hval
    have hend3 := fun h => by have := hend2 h; rw [hv] at this; exact this
    have hY_dig : a.g3 = [] → StopsAt digitC (sepText v.sep ++ rest) := by
      intro hg
      refine sepText_head v.sep hsep rest (fun c => digitC c = false) ⟨by decide, by decide⟩ (fun h => ?_)
      exact hend3 h hg
    have hZ := stops_after_gap (p := digitC) (fun c => gapc_not_digit) a.g3 hg3 _ hY_dig
    have hX : StopsAt idPart (v.g1 ++ ('=' :: (a.g2 ++ (a.int.text ++ (a.g3 ++ (sepText v.sep ++ rest)))))) :=
      stops_after_gap (p := idPart) (fun c => gapc_not_idPart) v.g1 hg1 _ (fun _ => HeadP.cons (by decide))
    have hXtok : TokHead (v.c :: v.s ++ (v.g1 ++ ('=' :: (a.g2 ++ (a.int.text ++ (a.g3 ++ (sepText v.sep ++ rest))))))) :=
      HeadP.cons (idPart_tok (idStart_idPart hc))
    obtain ⟨td, hd1, hd2⟩ := docOpt_parses v.doc hdoc _ hXtok
    have hn := ParsesTo.lab (n := "name") (identifier_parses v.c v.s _ hc hs hX)
    obtain ⟨ts1, hu1⟩ := u_consumes' v.g1 ('=' :: (a.g2 ++ (a.int.text ++ (a.g3 ++ (sepText v.sep ++ rest))))) hg1.isGap (HeadP.cons (by decide))
    obtain ⟨ts2, hu2⟩ := u_consumes' a.g2 (a.int.text ++ (a.g3 ++ (sepText v.sep ++ rest))) hg2.isGap (a.int.uhead hint _)
    have hi := intconst_parses a.int hint (a.g3 ++ (sepText v.sep ++ rest)) hZ
    have heq : ParsesTo grammar (.lit ['='] false) ('=' :: (a.g2 ++ (a.int.text ++ (a.g3 ++ (sepText v.sep ++ rest))))) (.text ['=']) _ 1 :=
      ParsesTo.lit_append ['='] _
    have hvs := ParsesTo.lab (n := "value") (ParsesTo.opt_some (ParsesTo.seq (k := 2 * a.g2.length + a.int.ds.length + 70)
      (SeqRun.cons (heq.mono (by omega)) (SeqRun.cons (hu2.mono (by omega)) (SeqRun.cons (hi.mono (by omega)) SeqRun.nil)))))
    obtain ⟨ts3, tsep, htail⟩ := itemTail_parses a.g3 hg3 v.sep hsep rest hie
    have hfront := SeqRun.cons (hd1.mono (by simp [SEnumValue.cost, hv]; omega : _ ≤ v.cost)) (SeqRun.cons (hn.mono (by simp [SEnumValue.cost]; omega : _ ≤ v.cost))
      (SeqRun.cons (hu1.mono (by simp [SEnumValue.cost]; omega : _ ≤ v.cost)) (SeqRun.cons (hvs.mono (by simp [SEnumValue.cost, hv]; omega : _ ≤ v.cost)) SeqRun.nil)))
    have hall := SeqRun.append hfront (SeqRun.mono (by simp [SEnumValue.cost, hv]; omega : 2 * a.g3.length + 70 ≤ v.cost) htail)
    have hp := ParsesTo.ref lk_EnumValue (by
      rw [rule_EnumValue]
      exact ParsesTo.act (tag := "EnumValue1") (ParsesTo.seq (by simpa using hall)))
    refine ⟨_, by simpa [SEnumValue.renderK, hv] using hp.mono (by simp; omega), rfl, ?_⟩
    simp [evEnumValue, FV.Act.get, FV.Act.body, findLab, isNil, evIdent, idTree, textOf, evAnns, hd2, SEnumValue.raw, hv, nth, kids, unlab]
    rfl

/-! ### the enum body `(EnumValue __)*` -/

def evItemE : Expr := .seq [.ref "EnumValue", .ref "__"]

theorem enumValue_fails (x : List Char) (hx : HeadP (fun c => idStart c = false ∧ c ≠ '/') x) : FailsOn grammar (.ref "EnumValue") x 40 := by
  have hd : ParsesTo grammar (.lab "docstr" (.opt (.seq [.ref "DocString", .ref "__"]))) x (.lab "docstr" .nil) x 20 :=
    (ParsesTo.lab (ParsesTo.opt_none (FailsOn.seq (SeqFail.head (es := [.ref "__"]) (docstring_fails_tok x (fun c r e => (hx c r e).2)))))).mono (by simp)
  have hn : FailsOn grammar (.lab "name" (.ref "Identifier")) x 20 :=
    (FailsOn.lab (identifier_fails x (hx.mono fun c h => h.1))).mono (by omega)
  have hs := FailsOn.act (tag := "EnumValue1") (FailsOn.seq (SeqFail.tail hd (SeqFail.head (es := [
    .ref "_", .lab "value" (.opt (.seq [.lit ['='] false, .ref "_", .ref "IntConstant"])), .ref "_",
    .lab "annotations" (.opt (.ref "TypeAnnotations")), .opt (.ref "ListSeparator")]) hn)))
  exact (FailsOn.ref lk_EnumValue (by rw [rule_EnumValue]; exact hs)).mono (by simp)

/-- The text of a list of written enum values, each followed by its gap of `__`, then `tail`. -/
def enumBodyK : List (SEnumValue × List Char) → List Char → List Char
  | [], tail => tail
  | (v, g) :: r, tail => v.renderK (g ++ enumBodyK r tail)

def EnumBodyOk : List (SEnumValue × List Char) → List Char → Prop
  | [], _ => True
  | (v, g) :: r, tail => v.Ok ∧ UUGapText g ∧ v.End (g ++ enumBodyK r tail) ∧ UUStop (enumBodyK r tail) ∧ EnumBodyOk r tail

def enumBodyCost : List (SEnumValue × List Char) → Nat
  | [] => 50
  | (v, g) :: r => v.cost + 2 * g.length + 100 + enumBodyCost r

theorem enumBody_run : ∀ (items : List (SEnumValue × List Char)) (tail : List Char), EnumBodyOk items tail →
    HeadP (fun c => idStart c = false ∧ c ≠ '/') tail →
    ∃ ts, StarRun grammar evItemE (enumBodyCost items) (enumBodyK items tail) ts tail ∧ ts.length = items.length ∧
      ts.map (fun x => evEnumValue (nth x 0)) = items.map (fun p => p.1.raw) := by
  intro items
  induction items with
  | nil =>
    intro tail _ ht
    refine ⟨[], .done ?_, rfl, rfl⟩
    exact (FailsOn.seq (SeqFail.head (es := [.ref "__"]) (enumValue_fails tail ht))).mono (by simp [enumBodyCost])
  | cons p r ih =>
    obtain ⟨v, g⟩ := p
    intro tail hok ht
    obtain ⟨hv, hg, hend, hstop, hr⟩ := hok
    obtain ⟨ts, hrun, hlen, hval⟩ := ih tail hr ht
    obtain ⟨tv, hp, hul, hev⟩ := enumValue_parses v hv (g ++ enumBodyK r tail) hend
    obtain ⟨tsg, hu⟩ := uu_consumes' g (enumBodyK r tail) hg.isGap hstop
    have hitem := ParsesTo.seq (SeqRun.cons (hp.mono (by omega : v.cost + 20 ≤ v.cost + 2 * g.length + 90))
      (SeqRun.cons (hu.mono (by omega : 2 * g.length + 70 ≤ v.cost + 2 * g.length + 90)) SeqRun.nil))
    refine ⟨.seq [tv, .seq tsg] :: ts, ?_, by simp [hlen], ?_⟩
    · exact .step (hitem.mono (by simp [enumBodyCost]; omega)) (hrun.mono (by simp [enumBodyCost]))
    · simp only [List.map_cons, hval, List.cons.injEq, and_true]
      have : nth (.seq [tv, .seq tsg]) 0 = unlab tv := by simp [nth, kids]
      rw [this, hul, hev]

/-! ### the `Enum` rule -/

theorem stops_after_uugap {p : Char → Bool} (hp : ∀ c, tokC c = false → p c = false) (g : List Char) (hg : UUGapText g) (y : List Char)
    (hy : g = [] → StopsAt p y) : StopsAt p (g ++ y) := by
  cases g with
  | nil => simpa using hy rfl
  | cons a t =>
    intro c r e
    simp only [List.cons_append, List.cons.injEq] at e
    rw [← e.1]
    exact hp a (hg.head a t rfl)

theorem eos_semicolon (g rest : List Char) (hg : UUGapText g) :
    ∃ t, ParsesTo grammar (.ref "EOS") (g ++ (';' :: rest)) t rest (2 * g.length + 80) := by
  obtain ⟨ts, hu⟩ := uu_consumes g (';' :: rest) hg.isGap (HeadP.cons (by decide))
  have h2 : ParsesTo grammar (.lit [';'] false) (';' :: rest) (.text [';']) rest (2 * g.length + 70) := (ParsesTo.lit_append [';'] rest).mono (by omega)
  have hs := ParsesTo.seq (SeqRun.cons hu (SeqRun.cons h2 SeqRun.nil))
  have hc := ParsesTo.choice (ChoiceRun.head (es := [.seq [.ref "_", .opt (.ref "SingleLineComment"), .ref "EOL"], .seq [.ref "__", .ref "EOF"]]) hs)
  exact ⟨_, (ParsesTo.ref lk_EOS (by rw [rule_EOS]; exact hc)).mono (by simp; omega)⟩

/-- A written enum: `enum` ga name gb `{` gc values `}` gd ge `;`. -/
structure SEnum where
  ga : List Char
  c : Char
  s : List Char
  gb : List Char
  gc : List Char
  items : List (SEnumValue × List Char)
  gd : List Char
  ge : List Char

namespace SEnum

def closeK (e : SEnum) (rest : List Char) : List Char := '}' :: (e.gd ++ (e.ge ++ (';' :: rest)))

def renderK (e : SEnum) (rest : List Char) : List Char :=
  ['e', 'n', 'u', 'm'] ++ (e.ga ++ (e.c :: e.s ++ (e.gb ++ ('{' :: (e.gc ++ enumBodyK e.items (e.closeK rest))))))

def Ok (e : SEnum) (rest : List Char) : Prop :=
  UGapText e.ga ∧ idStart e.c = true ∧ (∀ x ∈ e.s, idPart x = true) ∧ UUGapText e.gb ∧ UUGapText e.gc ∧
  UUStop (enumBodyK e.items (e.closeK rest)) ∧ EnumBodyOk e.items (e.closeK rest) ∧
  UGapText e.gd ∧ UUGapText e.ge ∧ UHead e.ge

def cost (e : SEnum) : Nat :=
  2 * enumBodyCost e.items + 2 * e.ga.length + e.s.length + 2 * e.gb.length + 2 * e.gc.length + 2 * e.gd.length + 2 * e.ge.length + 100

end SEnum

theorem enumBodyCost_len : ∀ (items : List (SEnumValue × List Char)), items.length ≤ enumBodyCost items := by
  intro items
  induction items with
  | nil => simp [enumBodyCost]
  | cons p r ih => obtain ⟨v, g⟩ := p; simp [enumBodyCost]; omega

/-- `Enum` on a written enum: the action's value has the name and the values numbered by `numberEnum`. -/
theorem enum_parses (e : SEnum) (rest : List Char) (hok : e.Ok rest) :
    ∃ t, ParsesTo grammar (.ref "Enum") (e.renderK rest) t rest (e.cost + 30) ∧
      evEnum t = { doc := none, name := e.c :: e.s, values := numberEnum 0 (e.items.map fun p => p.1.raw), anns := [] } := by
  obtain ⟨hga, hc, hs, hgb, hgc, hstop, hbody, hgd, hge, hgeh⟩ := hok
  have hclose : HeadP (fun c => idStart c = false ∧ c ≠ '/') (e.closeK rest) := HeadP.cons (by decide)
  obtain ⟨ts, hrun, hlen, hvals⟩ := enumBody_run e.items (e.closeK rest) hbody hclose
  -- the pieces
  have h1 : ParsesTo grammar (.lit ['e', 'n', 'u', 'm'] false) (e.renderK rest) (.text ['e', 'n', 'u', 'm']) _ e.cost :=
    (ParsesTo.lit_append ['e', 'n', 'u', 'm'] _).mono (by simp [SEnum.cost])
  obtain ⟨t2, h2⟩ := u_consumes' e.ga (e.c :: e.s ++ (e.gb ++ ('{' :: (e.gc ++ enumBodyK e.items (e.closeK rest))))) hga.isGap
    (HeadP.cons (tokc_uhead (idPart_tok (idStart_idPart hc))))
  have h3 := ParsesTo.lab (n := "name") (identifier_parses e.c e.s (e.gb ++ ('{' :: (e.gc ++ enumBodyK e.items (e.closeK rest)))) hc hs
    (stops_after_uugap (p := idPart) (fun c => gapc_not_idPart) e.gb hgb _ (fun _ => HeadP.cons (by decide))))
  obtain ⟨t4, h4⟩ := uu_consumes e.gb ('{' :: (e.gc ++ enumBodyK e.items (e.closeK rest))) hgb.isGap (HeadP.cons (by decide))
  have h5 : ParsesTo grammar (.lit ['{'] false) ('{' :: (e.gc ++ enumBodyK e.items (e.closeK rest))) (.text ['{']) _ e.cost :=
    (ParsesTo.lit_append ['{'] _).mono (by simp [SEnum.cost])
  obtain ⟨t6, h6⟩ := uu_consumes' e.gc (enumBodyK e.items (e.closeK rest)) hgc.isGap hstop
  have h7 := ParsesTo.lab (n := "values") (ParsesTo.star hrun)
  have h8 : ParsesTo grammar (.lit ['}'] false) (e.closeK rest) (.text ['}']) (e.gd ++ (e.ge ++ (';' :: rest))) e.cost :=
    (ParsesTo.lit_append ['}'] _).mono (by simp [SEnum.cost])
  have hge' : UHead (e.ge ++ (';' :: rest)) := HeadP.append hgeh (HeadP.cons (by decide))
  obtain ⟨t9, h9⟩ := u_consumes' e.gd (e.ge ++ (';' :: rest)) hgd.isGap hge'
  have hnp : NoParen (e.ge ++ (';' :: rest)) := by
    have := HeadP.append (P := fun c => c ≠ '(') (hge.head.mono fun c h e => by subst e; revert h; decide) (HeadP.cons (r := rest) (by decide : ';' ≠ '('))
    exact this
  have h10 := ParsesTo.lab (n := "annotations") (noAnns _ hnp)
  obtain ⟨t11, h11⟩ := eos_semicolon e.ge rest hge
  have hl := enumBodyCost_len e.items
  have hall := SeqRun.cons h1 (SeqRun.cons (h2.mono (by simp [SEnum.cost]; omega : _ ≤ e.cost)) (SeqRun.cons (h3.mono (by simp [SEnum.cost]; omega : _ ≤ e.cost))
    (SeqRun.cons (h4.mono (by simp [SEnum.cost]; omega : _ ≤ e.cost)) (SeqRun.cons h5 (SeqRun.cons (h6.mono (by simp [SEnum.cost]; omega : _ ≤ e.cost))
    (SeqRun.cons (h7.mono (by simp [SEnum.cost, hlen]; omega : _ ≤ e.cost)) (SeqRun.cons h8 (SeqRun.cons (h9.mono (by simp [SEnum.cost]; omega : _ ≤ e.cost))
    (SeqRun.cons (h10.mono (by simp [SEnum.cost] : _ ≤ e.cost)) (SeqRun.cons (h11.mono (by simp [SEnum.cost]; omega : _ ≤ e.cost)) SeqRun.nil))))))))))
  have hp := ParsesTo.ref lk_Enum (by
    rw [rule_Enum]
    exact ParsesTo.act (tag := "Enum1") (ParsesTo.seq hall))
  refine ⟨_, hp.mono (by simp; omega), ?_⟩
  simp [evEnum, FV.Act.get, FV.Act.body, findLab, evIdent, idTree, textOf, evAnns, isNil, kids, hvals]

end FV.PegIdl
