/-
Lemmas about the PEG interpreter `FV.Peg`: one-step unfoldings and fuel monotonicity.
-/
import FV.Model.Peg

namespace FV.Peg

variable (g : Grammar) (f : Nat) (inp : List Char)

theorem pExpr_zero (e : Expr) : pExpr g 0 e inp = .outOfFuel := by rfl
theorem pSeq_zero (es : List Expr) : pSeq g 0 es inp = .outOfFuel := by rfl
theorem pChoice_zero (es : List Expr) : pChoice g 0 es inp = .outOfFuel := by rfl
theorem pStar_zero (e : Expr) : pStar g 0 e inp = .outOfFuel := by rfl

theorem pExpr_any : pExpr g (f+1) .any inp = (match inp with | c :: r => .ok (.text [c]) r | [] => .fail) := by
  rfl
theorem pExpr_lit (s ic) : pExpr g (f+1) (.lit s ic) inp =
    (match matchLit ic s inp with | some r => .ok (.text (consumed inp r)) r | none => .fail) := by
  rfl
theorem pExpr_cls (cs rs inv ic) : pExpr g (f+1) (.cls cs rs inv ic) inp =
    (match inp with | c :: r => if clsMatches cs rs inv ic c then .ok (.text [c]) r else .fail | [] => .fail) := by
  rfl
theorem pExpr_ref (n) : pExpr g (f+1) (.ref n) inp =
    (match g.lookup n with | some e' => pExpr g f e' inp | none => .fail) := by
  rfl
theorem pExpr_lab (n e') : pExpr g (f+1) (.lab n e') inp =
    (match pExpr g f e' inp with | .ok t r => .ok (.lab n t) r | .fail => .fail | .outOfFuel => .outOfFuel) := by
  rfl
theorem pExpr_act (tag e') : pExpr g (f+1) (.act tag e') inp =
    (match pExpr g f e' inp with | .ok t r => .ok (.act tag (consumed inp r) t) r | .fail => .fail | .outOfFuel => .outOfFuel) := by
  rfl
theorem pExpr_opt (e') : pExpr g (f+1) (.opt e') inp =
    (match pExpr g f e' inp with | .ok t r => .ok t r | .fail => .ok .nil inp | .outOfFuel => .outOfFuel) := by
  rfl
theorem pExpr_andP (e') : pExpr g (f+1) (.andP e') inp =
    (match pExpr g f e' inp with | .ok _ _ => .ok .nil inp | .fail => .fail | .outOfFuel => .outOfFuel) := by
  rfl
theorem pExpr_notP (e') : pExpr g (f+1) (.notP e') inp =
    (match pExpr g f e' inp with | .ok _ _ => .fail | .fail => .ok .nil inp | .outOfFuel => .outOfFuel) := by
  rfl
theorem pExpr_seq (es) : pExpr g (f+1) (.seq es) inp =
    (match pSeq g f es inp with | .ok ts r => .ok (.seq ts) r | .fail => .fail | .outOfFuel => .outOfFuel) := by
  rfl
theorem pExpr_choice (es) : pExpr g (f+1) (.choice es) inp = pChoice g f es inp := by
  rfl
theorem pExpr_star (e') : pExpr g (f+1) (.star e') inp =
    (match pStar g f e' inp with | .ok ts r => .ok (.seq ts) r | .fail => .fail | .outOfFuel => .outOfFuel) := by
  rfl
theorem pExpr_plus (e') : pExpr g (f+1) (.plus e') inp =
    (match pExpr g f e' inp with
      | .ok t r => (match pStar g f e' r with
        | .ok ts r' => .ok (.seq (t :: ts)) r'
        | .fail => .fail
        | .outOfFuel => .outOfFuel)
      | .fail => .fail
      | .outOfFuel => .outOfFuel) := by
  rfl
theorem pSeq_nil : pSeq g (f+1) [] inp = .ok [] inp := by rfl
theorem pSeq_cons (e es) : pSeq g (f+1) (e :: es) inp =
    (match pExpr g f e inp with
      | .ok t r => (match pSeq g f es r with
        | .ok ts r' => .ok (t :: ts) r'
        | .fail => .fail
        | .outOfFuel => .outOfFuel)
      | .fail => .fail
      | .outOfFuel => .outOfFuel) := by
  rfl
theorem pChoice_nil : pChoice g (f+1) [] inp = .fail := by rfl
theorem pChoice_cons (e es) : pChoice g (f+1) (e :: es) inp =
    (match pExpr g f e inp with
      | .ok t r => .ok t r
      | .fail => pChoice g f es inp
      | .outOfFuel => .outOfFuel) := by
  rfl
theorem pStar_succ (e) : pStar g (f+1) e inp =
    (match pExpr g f e inp with
      | .ok t r => (match pStar g f e r with
        | .ok ts r' => .ok (t :: ts) r'
        | .fail => .fail
        | .outOfFuel => .outOfFuel)
      | .fail => .ok [] inp
      | .outOfFuel => .outOfFuel) := by
  rfl

/-- One more unit of fuel never changes a result that is not `outOfFuel` (all four functions). -/

theorem mono_step (g : Grammar) : ∀ f : Nat,
    (∀ e inp, pExpr g f e inp ≠ .outOfFuel → pExpr g (f+1) e inp = pExpr g f e inp) ∧
    (∀ es inp, pSeq g f es inp ≠ .outOfFuel → pSeq g (f+1) es inp = pSeq g f es inp) ∧
    (∀ es inp, pChoice g f es inp ≠ .outOfFuel → pChoice g (f+1) es inp = pChoice g f es inp) ∧
    (∀ e inp, pStar g f e inp ≠ .outOfFuel → pStar g (f+1) e inp = pStar g f e inp) := by
  intro f
  induction f with
  | zero =>
    refine ⟨?_, ?_, ?_, ?_⟩ <;> intro a inp h <;> simp [pExpr_zero, pSeq_zero, pChoice_zero, pStar_zero] at h
  | succ f ih =>
    obtain ⟨ihE, ihS, ihC, ihR⟩ := ih
    refine ⟨?_, ?_, ?_, ?_⟩
    · intro e inp h
      cases e with
      | any => rw [pExpr_any, pExpr_any]
      | lit s ic => rw [pExpr_lit, pExpr_lit]
      | cls a b c d => rw [pExpr_cls, pExpr_cls]
      | ref n =>
        rw [pExpr_ref] at h ⊢; rw [pExpr_ref]
        cases hl : List.lookup n g with
        | none => rfl
        | some e' => simp only [hl] at h ⊢; exact ihE e' inp h
      | lab n e' =>
        rw [pExpr_lab] at h ⊢; rw [pExpr_lab]
        cases hr : pExpr g f e' inp with
        | outOfFuel => simp [hr] at h
        | fail => rw [ihE e' inp (by simp [hr]), hr]
        | ok t r => rw [ihE e' inp (by simp [hr]), hr]
      | act n e' =>
        rw [pExpr_act] at h ⊢; rw [pExpr_act]
        cases hr : pExpr g f e' inp with
        | outOfFuel => simp [hr] at h
        | fail => rw [ihE e' inp (by simp [hr]), hr]
        | ok t r => rw [ihE e' inp (by simp [hr]), hr]
      | opt e' =>
        rw [pExpr_opt] at h ⊢; rw [pExpr_opt]
        cases hr : pExpr g f e' inp with
        | outOfFuel => simp [hr] at h
        | fail => rw [ihE e' inp (by simp [hr]), hr]
        | ok t r => rw [ihE e' inp (by simp [hr]), hr]
      | andP e' =>
        rw [pExpr_andP] at h ⊢; rw [pExpr_andP]
        cases hr : pExpr g f e' inp with
        | outOfFuel => simp [hr] at h
        | fail => rw [ihE e' inp (by simp [hr]), hr]
        | ok t r => rw [ihE e' inp (by simp [hr]), hr]
      | notP e' =>
        rw [pExpr_notP] at h ⊢; rw [pExpr_notP]
        cases hr : pExpr g f e' inp with
        | outOfFuel => simp [hr] at h
        | fail => rw [ihE e' inp (by simp [hr]), hr]
        | ok t r => rw [ihE e' inp (by simp [hr]), hr]
      | seq es =>
        rw [pExpr_seq] at h ⊢; rw [pExpr_seq]
        cases hr : pSeq g f es inp with
        | outOfFuel => simp [hr] at h
        | fail => rw [ihS es inp (by simp [hr]), hr]
        | ok t r => rw [ihS es inp (by simp [hr]), hr]
      | choice es =>
        rw [pExpr_choice] at h ⊢; rw [pExpr_choice]
        exact ihC es inp h
      | star e' =>
        rw [pExpr_star] at h ⊢; rw [pExpr_star]
        cases hr : pStar g f e' inp with
        | outOfFuel => simp [hr] at h
        | fail => rw [ihR e' inp (by simp [hr]), hr]
        | ok t r => rw [ihR e' inp (by simp [hr]), hr]
      | plus e' =>
        rw [pExpr_plus] at h ⊢; rw [pExpr_plus]
        cases hr : pExpr g f e' inp with
        | outOfFuel => simp [hr] at h
        | fail => rw [ihE e' inp (by simp [hr]), hr]
        | ok t r =>
          rw [ihE e' inp (by simp [hr]), hr]
          simp only [hr] at h ⊢
          cases hs : pStar g f e' r with
          | outOfFuel => simp [hs] at h
          | fail => rw [ihR e' r (by simp [hs]), hs]
          | ok ts r' => rw [ihR e' r (by simp [hs]), hs]
    · intro es inp h
      cases es with
      | nil => rw [pSeq_nil, pSeq_nil]
      | cons e es =>
        rw [pSeq_cons] at h ⊢; rw [pSeq_cons]
        cases hr : pExpr g f e inp with
        | outOfFuel => simp [hr] at h
        | fail => rw [ihE e inp (by simp [hr]), hr]
        | ok t r =>
          rw [ihE e inp (by simp [hr]), hr]
          simp only [hr] at h ⊢
          cases hs : pSeq g f es r with
          | outOfFuel => simp [hs] at h
          | fail => rw [ihS es r (by simp [hs]), hs]
          | ok ts r' => rw [ihS es r (by simp [hs]), hs]
    · intro es inp h
      cases es with
      | nil => rw [pChoice_nil, pChoice_nil]
      | cons e es =>
        rw [pChoice_cons] at h ⊢; rw [pChoice_cons]
        cases hr : pExpr g f e inp with
        | outOfFuel => simp [hr] at h
        | fail =>
          rw [ihE e inp (by simp [hr]), hr]
          simp only [hr] at h ⊢
          exact ihC es inp h
        | ok t r => rw [ihE e inp (by simp [hr]), hr]
    · intro e inp h
      rw [pStar_succ] at h ⊢; rw [pStar_succ]
      cases hr : pExpr g f e inp with
      | outOfFuel => simp [hr] at h
      | fail => rw [ihE e inp (by simp [hr]), hr]
      | ok t r =>
        rw [ihE e inp (by simp [hr]), hr]
        simp only [hr] at h ⊢
        cases hs : pStar g f e r with
        | outOfFuel => simp [hs] at h
        | fail => rw [ihR e r (by simp [hs]), hs]
        | ok ts r' => rw [ihR e r (by simp [hs]), hs]

theorem pExpr_mono (g : Grammar) (f k : Nat) (e : Expr) (inp : List Char) (h : pExpr g f e inp ≠ .outOfFuel) :
    pExpr g (f + k) e inp = pExpr g f e inp := by
  induction k with
  | zero => rfl
  | succ k ih => rw [← Nat.add_assoc, (mono_step g (f + k)).1 e inp (by rw [ih]; exact h), ih]

theorem pStar_mono (g : Grammar) (f k : Nat) (e : Expr) (inp : List Char) (h : pStar g f e inp ≠ .outOfFuel) :
    pStar g (f + k) e inp = pStar g f e inp := by
  induction k with
  | zero => rfl
  | succ k ih => rw [← Nat.add_assoc, (mono_step g (f + k)).2.2.2 e inp (by rw [ih]; exact h), ih]

theorem pSeq_mono (g : Grammar) (f k : Nat) (es : List Expr) (inp : List Char) (h : pSeq g f es inp ≠ .outOfFuel) :
    pSeq g (f + k) es inp = pSeq g f es inp := by
  induction k with
  | zero => rfl
  | succ k ih => rw [← Nat.add_assoc, (mono_step g (f + k)).2.1 es inp (by rw [ih]; exact h), ih]

theorem pExpr_mono_le (g : Grammar) {f f' : Nat} (hle : f ≤ f') (e : Expr) (inp : List Char)
    (h : pExpr g f e inp ≠ .outOfFuel) : pExpr g f' e inp = pExpr g f e inp := by
  obtain ⟨k, rfl⟩ := Nat.exists_eq_add_of_le hle
  exact pExpr_mono g f k e inp h

/-! ### text consumed -/

theorem consumed_append (s rest : List Char) : consumed (s ++ rest) rest = s := by
  simp [consumed]

theorem consumed_cons (c : Char) (r : List Char) : consumed (c :: r) r = [c] := by
  simpa using consumed_append [c] r

theorem consumed_self (r : List Char) : consumed r r = [] := by
  simpa using consumed_append [] r

/-! ### repetition of a one-character matcher -/

/-- From fuel `k` on, `e` consumes exactly one character satisfying `p` (value: that character's text). -/
def CharMatcher (g : Grammar) (e : Expr) (p : Char → Bool) (k : Nat) : Prop :=
  ∀ F, k ≤ F → (∀ c r, pExpr g F e (c :: r) = if p c then .ok (.text [c]) r else .fail) ∧ pExpr g F e [] = .fail

/-- The next character (if any) does not satisfy `p`. -/
def StopsAt (p : Char → Bool) (rest : List Char) : Prop := ∀ c r, rest = c :: r → p c = false

theorem pStar_chars {g : Grammar} {e : Expr} {p : Char → Bool} {k : Nat} (hm : CharMatcher g e p k) :
    ∀ (cs rest : List Char), (∀ c ∈ cs, p c = true) → StopsAt p rest →
      ∀ F, cs.length + k + 1 ≤ F → pStar g F e (cs ++ rest) = .ok (cs.map fun c => Tree.text [c]) rest := by
  intro cs
  induction cs with
  | nil =>
    intro rest _ hstop F hF
    obtain ⟨F', rfl⟩ : ∃ F', F = F' + 1 := ⟨F - 1, by omega⟩
    rw [pStar_succ]
    have hk : k ≤ F' := by simp at hF; omega
    cases rest with
    | nil => simp [(hm F' hk).2]
    | cons c r => simp [(hm F' hk).1 c r, hstop c r rfl]
  | cons c cs ih =>
    intro rest hall hstop F hF
    obtain ⟨F', rfl⟩ : ∃ F', F = F' + 1 := ⟨F - 1, by omega⟩
    have hk : k ≤ F' := by simp at hF; omega
    rw [List.cons_append, pStar_succ, (hm F' hk).1 c (cs ++ rest)]
    have hc : p c = true := hall c (by simp)
    simp only [hc, if_true]
    rw [ih rest (fun x hx => hall x (by simp [hx])) hstop F' (by simp at hF; omega)]
    simp

theorem pPlus_chars {g : Grammar} {e : Expr} {p : Char → Bool} {k : Nat} (hm : CharMatcher g e p k)
    (c : Char) (cs rest : List Char) (hc : p c = true) (hall : ∀ x ∈ cs, p x = true) (hstop : StopsAt p rest)
    (F : Nat) (hF : cs.length + k + 2 ≤ F) :
    pExpr g F (.plus e) (c :: cs ++ rest) = .ok (.seq ((c :: cs).map fun c => Tree.text [c])) rest := by
  obtain ⟨F', rfl⟩ : ∃ F', F = F' + 1 := ⟨F - 1, by omega⟩
  rw [List.cons_append, pExpr_plus, (hm F' (by omega)).1 c (cs ++ rest)]
  simp only [hc, if_true]
  rw [pStar_chars hm cs rest hall hstop F' (by omega)]
  simp

/-! ### sub-parsers that consume exactly: combinators

`ParsesTo g e inp t rest k`: from fuel `k` on, `e` on `inp` yields the value `t` and leaves `rest`.
`FailsOn g e inp k`: from fuel `k` on, `e` fails on `inp`.  The lemmas below compose such facts
along the expression constructors; fuel bounds add up mechanically. -/

def ParsesTo (g : Grammar) (e : Expr) (inp : List Char) (t : Tree) (rest : List Char) (k : Nat) : Prop :=
  ∀ F, k ≤ F → pExpr g F e inp = .ok t rest

def FailsOn (g : Grammar) (e : Expr) (inp : List Char) (k : Nat) : Prop :=
  ∀ F, k ≤ F → pExpr g F e inp = .fail

theorem ParsesTo.mono {g e inp t rest k k'} (h : ParsesTo g e inp t rest k) (hk : k ≤ k') : ParsesTo g e inp t rest k' :=
  fun F hF => h F (Nat.le_trans hk hF)

theorem FailsOn.mono {g e inp k k'} (h : FailsOn g e inp k) (hk : k ≤ k') : FailsOn g e inp k' :=
  fun F hF => h F (Nat.le_trans hk hF)

section comb
variable {g : Grammar}

theorem ParsesTo.ref {n e inp t rest k} (hl : g.lookup n = some e) (h : ParsesTo g e inp t rest k) :
    ParsesTo g (.ref n) inp t rest (k + 1) := by
  intro F hF
  obtain ⟨F', rfl⟩ : ∃ F', F = F' + 1 := ⟨F - 1, by omega⟩
  rw [pExpr_ref, hl]; exact h F' (by omega)

theorem FailsOn.ref {n e inp k} (hl : g.lookup n = some e) (h : FailsOn g e inp k) : FailsOn g (.ref n) inp (k + 1) := by
  intro F hF
  obtain ⟨F', rfl⟩ : ∃ F', F = F' + 1 := ⟨F - 1, by omega⟩
  rw [pExpr_ref, hl]; exact h F' (by omega)

theorem ParsesTo.lab {n e inp t rest k} (h : ParsesTo g e inp t rest k) : ParsesTo g (.lab n e) inp (.lab n t) rest (k + 1) := by
  intro F hF
  obtain ⟨F', rfl⟩ : ∃ F', F = F' + 1 := ⟨F - 1, by omega⟩
  rw [pExpr_lab, h F' (by omega)]

theorem FailsOn.lab {n e inp k} (h : FailsOn g e inp k) : FailsOn g (.lab n e) inp (k + 1) := by
  intro F hF
  obtain ⟨F', rfl⟩ : ∃ F', F = F' + 1 := ⟨F - 1, by omega⟩
  rw [pExpr_lab, h F' (by omega)]

theorem ParsesTo.act {tag e inp t rest k} (h : ParsesTo g e inp t rest k) :
    ParsesTo g (.act tag e) inp (.act tag (consumed inp rest) t) rest (k + 1) := by
  intro F hF
  obtain ⟨F', rfl⟩ : ∃ F', F = F' + 1 := ⟨F - 1, by omega⟩
  rw [pExpr_act, h F' (by omega)]

theorem FailsOn.act {tag e inp k} (h : FailsOn g e inp k) : FailsOn g (.act tag e) inp (k + 1) := by
  intro F hF
  obtain ⟨F', rfl⟩ : ∃ F', F = F' + 1 := ⟨F - 1, by omega⟩
  rw [pExpr_act, h F' (by omega)]

theorem ParsesTo.opt_some {e inp t rest k} (h : ParsesTo g e inp t rest k) : ParsesTo g (.opt e) inp t rest (k + 1) := by
  intro F hF
  obtain ⟨F', rfl⟩ : ∃ F', F = F' + 1 := ⟨F - 1, by omega⟩
  rw [pExpr_opt, h F' (by omega)]

theorem ParsesTo.opt_none {e inp k} (h : FailsOn g e inp k) : ParsesTo g (.opt e) inp .nil inp (k + 1) := by
  intro F hF
  obtain ⟨F', rfl⟩ : ∃ F', F = F' + 1 := ⟨F - 1, by omega⟩
  rw [pExpr_opt, h F' (by omega)]

theorem ParsesTo.notP {e inp k} (h : FailsOn g e inp k) : ParsesTo g (.notP e) inp .nil inp (k + 1) := by
  intro F hF
  obtain ⟨F', rfl⟩ : ∃ F', F = F' + 1 := ⟨F - 1, by omega⟩
  rw [pExpr_notP, h F' (by omega)]

theorem FailsOn.notP {e inp t rest k} (h : ParsesTo g e inp t rest k) : FailsOn g (.notP e) inp (k + 1) := by
  intro F hF
  obtain ⟨F', rfl⟩ : ∃ F', F = F' + 1 := ⟨F - 1, by omega⟩
  rw [pExpr_notP, h F' (by omega)]

theorem ParsesTo.andP {e inp t rest k} (h : ParsesTo g e inp t rest k) : ParsesTo g (.andP e) inp .nil inp (k + 1) := by
  intro F hF
  obtain ⟨F', rfl⟩ : ∃ F', F = F' + 1 := ⟨F - 1, by omega⟩
  rw [pExpr_andP, h F' (by omega)]

theorem ParsesTo.lit {s ic inp r} (h : matchLit ic s inp = some r) : ParsesTo g (.lit s ic) inp (.text (consumed inp r)) r 1 := by
  intro F hF
  obtain ⟨F', rfl⟩ : ∃ F', F = F' + 1 := ⟨F - 1, by omega⟩
  rw [pExpr_lit, h]

theorem FailsOn.lit {s ic inp} (h : matchLit ic s inp = none) : FailsOn g (.lit s ic) inp 1 := by
  intro F hF
  obtain ⟨F', rfl⟩ : ∃ F', F = F' + 1 := ⟨F - 1, by omega⟩
  rw [pExpr_lit, h]

theorem matchLit_append (s rest : List Char) : matchLit false s (s ++ rest) = some rest := by
  induction s with
  | nil => rfl
  | cons c t ih => simp [matchLit, ih]

/-- A case-sensitive literal at the head of the input. -/
theorem ParsesTo.lit_append (s rest : List Char) : ParsesTo g (.lit s false) (s ++ rest) (.text s) rest 1 := by
  have := ParsesTo.lit (g := g) (matchLit_append s rest)
  rwa [consumed_append] at this

theorem ParsesTo.cls {cs rs inv ic c r} (h : clsMatches cs rs inv ic c = true) :
    ParsesTo g (.cls cs rs inv ic) (c :: r) (.text [c]) r 1 := by
  intro F hF
  obtain ⟨F', rfl⟩ : ∃ F', F = F' + 1 := ⟨F - 1, by omega⟩
  rw [pExpr_cls]; simp [h]

theorem FailsOn.cls {cs rs inv ic c r} (h : clsMatches cs rs inv ic c = false) : FailsOn g (.cls cs rs inv ic) (c :: r) 1 := by
  intro F hF
  obtain ⟨F', rfl⟩ : ∃ F', F = F' + 1 := ⟨F - 1, by omega⟩
  rw [pExpr_cls]; simp [h]

theorem FailsOn.cls_nil {cs rs inv ic} : FailsOn g (.cls cs rs inv ic) [] 1 := by
  intro F hF
  obtain ⟨F', rfl⟩ : ∃ F', F = F' + 1 := ⟨F - 1, by omega⟩
  rw [pExpr_cls]

theorem ParsesTo.any {c r} : ParsesTo g .any (c :: r) (.text [c]) r 1 := by
  intro F hF
  obtain ⟨F', rfl⟩ : ∃ F', F = F' + 1 := ⟨F - 1, by omega⟩
  rw [pExpr_any]

theorem FailsOn.any_nil : FailsOn g .any [] 1 := by
  intro F hF
  obtain ⟨F', rfl⟩ : ∃ F', F = F' + 1 := ⟨F - 1, by omega⟩
  rw [pExpr_any]

/-- The elements of a sequence parse one after the other (common fuel bound `k`). -/
def SeqRun (g : Grammar) (k : Nat) : List Expr → List Char → List Tree → List Char → Prop
  | [], inp, ts, rest => ts = [] ∧ rest = inp
  | e :: es, inp, ts, rest => ∃ t mid ts', ts = t :: ts' ∧ ParsesTo g e inp t mid k ∧ SeqRun g k es mid ts' rest

theorem SeqRun.pSeq {k} : ∀ {es inp ts rest}, SeqRun g k es inp ts rest → ∀ F, es.length + k + 1 ≤ F → pSeq g F es inp = .ok ts rest := by
  intro es
  induction es with
  | nil =>
    intro inp ts rest h F hF
    obtain ⟨F', rfl⟩ : ∃ F', F = F' + 1 := ⟨F - 1, by omega⟩
    obtain ⟨rfl, rfl⟩ := h
    rw [pSeq_nil]
  | cons e es ih =>
    intro inp ts rest h F hF
    obtain ⟨F', rfl⟩ : ∃ F', F = F' + 1 := ⟨F - 1, by omega⟩
    obtain ⟨t, mid, ts', rfl, h1, h2⟩ := h
    simp only [List.length_cons] at hF
    simp only [pSeq_cons, h1 F' (by omega), ih h2 F' (by omega)]

theorem ParsesTo.seq {k es inp ts rest} (h : SeqRun g k es inp ts rest) : ParsesTo g (.seq es) inp (.seq ts) rest (es.length + k + 2) := by
  intro F hF
  obtain ⟨F', rfl⟩ : ∃ F', F = F' + 1 := ⟨F - 1, by omega⟩
  rw [pExpr_seq, h.pSeq F' (by omega)]

/-- A sequence fails: some element fails after the earlier ones parsed. -/
def SeqFail (g : Grammar) (k : Nat) : List Expr → List Char → Prop
  | [], _ => False
  | e :: es, inp => FailsOn g e inp k ∨ ∃ t mid, ParsesTo g e inp t mid k ∧ SeqFail g k es mid

theorem SeqFail.pSeq {k} : ∀ {es inp}, SeqFail g k es inp → ∀ F, es.length + k + 1 ≤ F → pSeq g F es inp = .fail := by
  intro es
  induction es with
  | nil => intro inp h; exact h.elim
  | cons e es ih =>
    intro inp h F hF
    obtain ⟨F', rfl⟩ : ∃ F', F = F' + 1 := ⟨F - 1, by omega⟩
    simp only [List.length_cons] at hF
    rcases h with h | ⟨t, mid, h1, h2⟩
    · rw [pSeq_cons, h F' (by omega)]
    · simp only [pSeq_cons, h1 F' (by omega), ih h2 F' (by omega)]

theorem FailsOn.seq {k es inp} (h : SeqFail g k es inp) : FailsOn g (.seq es) inp (es.length + k + 2) := by
  intro F hF
  obtain ⟨F', rfl⟩ : ∃ F', F = F' + 1 := ⟨F - 1, by omega⟩
  rw [pExpr_seq, h.pSeq F' (by omega)]

/-- Ordered choice: the alternatives before the chosen one fail. -/
def ChoiceRun (g : Grammar) (k : Nat) : List Expr → List Char → Tree → List Char → Prop
  | [], _, _, _ => False
  | e :: es, inp, t, rest => ParsesTo g e inp t rest k ∨ (FailsOn g e inp k ∧ ChoiceRun g k es inp t rest)

theorem ChoiceRun.pChoice {k} : ∀ {es inp t rest}, ChoiceRun g k es inp t rest → ∀ F, es.length + k + 1 ≤ F → pChoice g F es inp = .ok t rest := by
  intro es
  induction es with
  | nil => intro inp t rest h; exact h.elim
  | cons e es ih =>
    intro inp t rest h F hF
    obtain ⟨F', rfl⟩ : ∃ F', F = F' + 1 := ⟨F - 1, by omega⟩
    simp only [List.length_cons] at hF
    rcases h with h | ⟨h1, h2⟩
    · rw [pChoice_cons, h F' (by omega)]
    · simp only [pChoice_cons, h1 F' (by omega)]; exact ih h2 F' (by omega)

theorem ParsesTo.choice {k es inp t rest} (h : ChoiceRun g k es inp t rest) : ParsesTo g (.choice es) inp t rest (es.length + k + 2) := by
  intro F hF
  obtain ⟨F', rfl⟩ : ∃ F', F = F' + 1 := ⟨F - 1, by omega⟩
  rw [pExpr_choice]; exact h.pChoice F' (by omega)

theorem pChoice_allFail {k} : ∀ {es inp}, (∀ e ∈ es, FailsOn g e inp k) → ∀ F, es.length + k + 1 ≤ F → pChoice g F es inp = .fail := by
  intro es
  induction es with
  | nil =>
    intro inp _ F hF
    obtain ⟨F', rfl⟩ : ∃ F', F = F' + 1 := ⟨F - 1, by omega⟩
    rw [pChoice_nil]
  | cons e es ih =>
    intro inp h F hF
    obtain ⟨F', rfl⟩ : ∃ F', F = F' + 1 := ⟨F - 1, by omega⟩
    simp only [List.length_cons] at hF
    simp only [pChoice_cons, h e (by simp) F' (by omega)]
    exact ih (fun x hx => h x (by simp [hx])) F' (by omega)

theorem FailsOn.choice {k es inp} (h : ∀ e ∈ es, FailsOn g e inp k) : FailsOn g (.choice es) inp (es.length + k + 2) := by
  intro F hF
  obtain ⟨F', rfl⟩ : ∃ F', F = F' + 1 := ⟨F - 1, by omega⟩
  rw [pExpr_choice]; exact pChoice_allFail h F' (by omega)

/-- A repetition: the body parses item after item, then fails on what is left. -/
inductive StarRun (g : Grammar) (e : Expr) (k : Nat) : List Char → List Tree → List Char → Prop
  | done {rest} : FailsOn g e rest k → StarRun g e k rest [] rest
  | step {inp t mid ts rest} : ParsesTo g e inp t mid k → StarRun g e k mid ts rest → StarRun g e k inp (t :: ts) rest

theorem StarRun.pStar {e k inp ts rest} (h : StarRun g e k inp ts rest) : ∀ F, ts.length + k + 1 ≤ F → pStar g F e inp = .ok ts rest := by
  induction h with
  | done hf =>
    intro F hF
    obtain ⟨F', rfl⟩ : ∃ F', F = F' + 1 := ⟨F - 1, by omega⟩
    rw [pStar_succ, hf F' (by simp at hF; omega)]
  | step hp _ ih =>
    intro F hF
    obtain ⟨F', rfl⟩ : ∃ F', F = F' + 1 := ⟨F - 1, by omega⟩
    simp only [List.length_cons] at hF
    simp only [pStar_succ, hp F' (by omega), ih F' (by omega)]

theorem ParsesTo.star {e k inp ts rest} (h : StarRun g e k inp ts rest) : ParsesTo g (.star e) inp (.seq ts) rest (ts.length + k + 2) := by
  intro F hF
  obtain ⟨F', rfl⟩ : ∃ F', F = F' + 1 := ⟨F - 1, by omega⟩
  rw [pExpr_star, h.pStar F' (by omega)]

theorem ParsesTo.plus {e k inp t mid ts rest} (h1 : ParsesTo g e inp t mid k) (h : StarRun g e k mid ts rest) :
    ParsesTo g (.plus e) inp (.seq (t :: ts)) rest (ts.length + k + 2) := by
  intro F hF
  obtain ⟨F', rfl⟩ : ∃ F', F = F' + 1 := ⟨F - 1, by omega⟩
  simp only [pExpr_plus, h1 F' (by omega), h.pStar F' (by omega)]

theorem FailsOn.plus {e k inp} (h : FailsOn g e inp k) : FailsOn g (.plus e) inp (k + 1) := by
  intro F hF
  obtain ⟨F', rfl⟩ : ∃ F', F = F' + 1 := ⟨F - 1, by omega⟩
  rw [pExpr_plus, h F' (by omega)]

theorem StarRun.mono {e k k' inp ts rest} (h : StarRun g e k inp ts rest) (hk : k ≤ k') : StarRun g e k' inp ts rest := by
  induction h with
  | done hf => exact .done (hf.mono hk)
  | step hp _ ih => exact .step (hp.mono hk) ih

/-- A repetition of a one-character matcher as a `StarRun`. -/
theorem StarRun.chars {e : Expr} {p : Char → Bool} {k : Nat} (hm : CharMatcher g e p k) :
    ∀ (cs rest : List Char), (∀ c ∈ cs, p c = true) → StopsAt p rest →
      StarRun g e k (cs ++ rest) (cs.map fun c => Tree.text [c]) rest := by
  intro cs
  induction cs with
  | nil =>
    intro rest _ hstop
    refine .done (fun F hF => ?_)
    cases rest with
    | nil => exact (hm F hF).2
    | cons c r => simp only [List.nil_append]; rw [(hm F hF).1 c r, hstop c r rfl]; simp
  | cons c cs ih =>
    intro rest hall hstop
    refine .step (t := .text [c]) (mid := cs ++ rest) (fun F hF => ?_) (ih rest (fun x hx => hall x (by simp [hx])) hstop)
    rw [List.cons_append, (hm F hF).1 c (cs ++ rest), hall c (by simp)]; simp

theorem SeqRun.nil {k inp} : SeqRun g k [] inp [] inp := ⟨rfl, rfl⟩
theorem SeqRun.cons {k e es inp t mid ts rest} (h1 : ParsesTo g e inp t mid k) (h2 : SeqRun g k es mid ts rest) :
    SeqRun g k (e :: es) inp (t :: ts) rest := ⟨t, mid, ts, rfl, h1, h2⟩
theorem SeqFail.head {k e es inp} (h : FailsOn g e inp k) : SeqFail g k (e :: es) inp := Or.inl h
theorem SeqFail.tail {k e es inp t mid} (h1 : ParsesTo g e inp t mid k) (h2 : SeqFail g k es mid) : SeqFail g k (e :: es) inp :=
  Or.inr ⟨t, mid, h1, h2⟩
theorem ChoiceRun.head {k e es inp t rest} (h : ParsesTo g e inp t rest k) : ChoiceRun g k (e :: es) inp t rest := Or.inl h
theorem ChoiceRun.tail {k e es inp t rest} (h1 : FailsOn g e inp k) (h2 : ChoiceRun g k es inp t rest) :
    ChoiceRun g k (e :: es) inp t rest := Or.inr ⟨h1, h2⟩

end comb

end FV.Peg
