/-
Helper lemmas for C07 (pub/sub delivery): the callback on a message the publisher produced, the
worker's log, interleavings, the life-cycle invariant, go-stomp's hand-over.
-/
import FV.Model.PubSub
import FV.Proofs.Bytes
import FV.Proofs.Headers
import FV.Proofs.Thrift
import FV.Props.C04

namespace FV.PubSub
open FV FV.Thrift

/-- Hypotheses on a publisher's header map (a Go map: distinct names), carrying an op id. -/
structure HdrsOK (h : Hdrs) : Prop where
  nodup : h.keys.Nodup
  small : FV.C04.Small h
  opid : (h.get? opIdHeader).isSome = true

theorem callback_ok (c : SubCfg) (wire rest : Bytes) (h : Hdrs) (es r : List Event) (v : Val)
    (hu : unmarshalStream wire = .ok (h, rest)) (ho : (h.get? opIdHeader).isNone = false)
    (hd : decV c.d c.fuel c.ty es = .ok (v, r)) :
    callback c wire (.msg c.op es) = .delivered ⟨h, v⟩ := by
  unfold callback
  rw [hu]
  simp only [ho, hd]
  simp

theorem callback_published (c : SubCfg) (h : Hdrs) (v : Val) (es : List Event)
    (hh : HdrsOK h) (hwt : WT c.d c.fuel c.ty v) (henc : encV c.d c.fuel c.ty v = .ok es) :
    callback c (marshal h) (.msg c.op es) = .delivered ⟨h, v⟩ := by
  have hu : unmarshalStream (marshal h) = .ok (h, []) := by
    have := FV.C04.c04_stream_roundtrip h [] hh.nodup hh.small
    rwa [List.append_nil] at this
  have hd : decV c.d c.fuel c.ty es = .ok (v, []) := by
    have := roundtrip c.d c.fuel c.ty v es [] hwt henc
    rwa [List.append_nil] at this
  have ho : (h.get? opIdHeader).isNone = false := by
    cases hg : h.get? opIdHeader with
    | none => have := hh.opid; rw [hg] at this; cases this
    | some x => rfl
  exact callback_ok c (marshal h) [] h es [] v hu ho hd

theorem handle_published (c : SubCfg) (sz : Nat) (h : Hdrs) (v : Val) (p : Packet)
    (hh : HdrsOK h) (hwt : WT c.d c.fuel c.ty v) (hp : publishPkt c sz h v = .ok p) :
    handle c p = .delivered ⟨h, v⟩ := by
  unfold publishPkt at hp
  cases henc : encV c.d c.fuel c.ty v with
  | ok es =>
    rw [henc] at hp
    cases hp
    unfold handle
    have hl : ¬ (be32 sz ++ marshal h).length < 4 := by
      simp only [List.length_append, be32_length]; omega
    have hd : (be32 sz ++ marshal h).drop 4 = marshal h := by
      rw [List.drop_left' (be32_length _)]
    simp only [hl, if_false, hd]
    exact callback_published c h v es hh hwt henc
  | err e => rw [henc] at hp; cases hp
  | panic q => rw [henc] at hp; cases hp

theorem publishPkt_total (c : SubCfg) (sz : Nat) (h : Hdrs) (v : Val) (hwt : WT c.d c.fuel c.ty v) :
    ∃ p, publishPkt c sz h v = .ok p := by
  obtain ⟨es, he⟩ := enc_total c.d c.fuel c.ty v hwt
  exact ⟨_, by unfold publishPkt; rw [he]⟩


/-! ### the worker -/

theorem deliver_none_of_not_delivered (c : SubCfg) (p : Packet) :
    (∀ dl, handle c p ≠ .delivered dl) → deliver c p = none := by
  intro h
  unfold deliver
  cases hh : handle c p with
  | delivered dl => exact absurd hh (h dl)
  | discarded => rfl
  | failed e => rfl
  | crashed q => rfl

theorem deliver_some (c : SubCfg) (p : Packet) (dl : Delivery) (h : handle c p = .delivered dl) :
    deliver c p = some dl := by
  unfold deliver; rw [h]; rfl

/-- The log grows by exactly the message's delivery, whatever the message, while no panic happens. -/
theorem recv_log (c : SubCfg) (w : WState) (p : Packet) (ha : w.alive = true)
    (hc : (handle c p).isCrash = false) :
    (w.recv c p).alive = true ∧ (w.recv c p).log = w.log ++ (deliver c p).toList := by
  unfold WState.recv deliver
  simp only [ha, Bool.not_true]
  cases hh : handle c p with
  | delivered dl => simp [Outcome.delivery?, ha]
  | discarded => simp [Outcome.delivery?, ha]
  | failed e => simp [Outcome.delivery?, ha]
  | crashed q => rw [hh] at hc; simp [Outcome.isCrash] at hc

theorem filterMap_eq_flatMap_toList {α β : Type} (f : α → Option β) (l : List α) :
    l.filterMap f = l.flatMap (fun x => (f x).toList) := by
  induction l with
  | nil => rfl
  | cons x t ih =>
    rw [List.flatMap_cons, ← ih]
    cases hx : f x with
    | none => simp [hx]
    | some y => simp [hx]

theorem recvAll_log (c : SubCfg) (ps : List Packet) : ∀ (w : WState), w.alive = true →
    (∀ p ∈ ps, (handle c p).isCrash = false) →
    (w.recvAll c ps).alive = true ∧ (w.recvAll c ps).log = w.log ++ ps.filterMap (deliver c) := by
  induction ps with
  | nil => intro w ha _; simp [WState.recvAll, ha]
  | cons p t ih =>
    intro w ha hc
    have h1 := recv_log c w p ha (hc p (List.mem_cons_self))
    have h2 := ih (w.recv c p) h1.1 (fun q hq => hc q (List.mem_cons_of_mem _ hq))
    simp only [WState.recvAll, List.foldl_cons] at h2 ⊢
    refine ⟨h2.1, ?_⟩
    rw [h2.2, h1.2]
    cases hd : deliver c p with
    | none => simp [hd]
    | some dl => simp [hd]

/-- Callback invocations are what the C05 worker model counts. -/
theorem recv_cbs (c : SubCfg) (w : WState) (k : Worker) (p : Packet) (ha : w.alive = true) (hk : k.alive = true)
    (hc : (handle c p).isCrash = false) (he : w.cbs = k.delivered) :
    (w.recv c p).cbs = (k.recv p.data).delivered := by
  unfold WState.recv Worker.recv handle at *
  simp only [ha, hk, Bool.not_true]
  by_cases hl : p.data.length < 4
  · simp [hl, he]
  · simp only [hl, if_false] at hc ⊢
    cases hh : callback c (List.drop 4 p.data) p.tail with
    | delivered dl => simp [he]
    | discarded => simp [he]; unfold callback at hh; split at hh <;> (try cases hh); split at hh <;> (try cases hh); split at hh <;> (try cases hh); split at hh <;> (try cases hh); split at hh <;> cases hh
    | failed e => simp [he]
    | crashed q => rw [hh] at hc; simp [Outcome.isCrash] at hc

end FV.PubSub
