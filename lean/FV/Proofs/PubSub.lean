/-
Helper lemmas for C07 (pub/sub delivery): the callback on a message the publisher produced, the
worker's log, interleavings, the life-cycle invariant, go-stomp's hand-over.
-/
import FV.Model.PubSub
import FV.Proofs.Bytes
import FV.Proofs.Headers
import FV.Proofs.Thrift
import FV.Props.C04

set_option linter.unusedSimpArgs false

namespace FV.PubSub
open FV FV.Thrift

/-- Hypotheses on a publisher's header map (a Go map: distinct names), carrying an op id. -/
structure HdrsOK (h : Hdrs) : Prop where
  nodup : h.keys.Nodup
  small : FV.C04.Small h
  opid : (h.get? opIdHeader).isSome = true

theorem callback_ok (c : SubCfg) (wire rest : Bytes) (h : Hdrs) (es r : List Event) (v : Val)
    (hu : unmarshalStream wire = .ok (h, rest)) (ho : (h.get? opIdHeader).isNone = false)
    (hd : decV c.d c.fuel c.ty es = .ok (v, r)) :
    callback c wire (.msg c.op es) = .delivered ⟨h, v⟩ := by
  unfold callback
  rw [hu]
  simp only [ho, hd]
  simp

theorem callback_published (c : SubCfg) (h : Hdrs) (v : Val) (es : List Event)
    (hh : HdrsOK h) (hwt : WT c.d c.fuel c.ty v) (henc : encV c.d c.fuel c.ty v = .ok es) :
    callback c (marshal h) (.msg c.op es) = .delivered ⟨h, v⟩ := by
  have hu : unmarshalStream (marshal h) = .ok (h, []) := by
    have := FV.C04.c04_stream_roundtrip h [] hh.nodup hh.small
    rwa [List.append_nil] at this
  have hd : decV c.d c.fuel c.ty es = .ok (v, []) := by
    have := roundtrip c.d c.fuel c.ty v es [] hwt henc
    rwa [List.append_nil] at this
  have ho : (h.get? opIdHeader).isNone = false := by
    cases hg : h.get? opIdHeader with
    | none => have := hh.opid; rw [hg] at this; cases this
    | some x => rfl
  exact callback_ok c (marshal h) [] h es [] v hu ho hd

theorem handle_published (c : SubCfg) (sz : Nat) (h : Hdrs) (v : Val) (p : Packet)
    (hh : HdrsOK h) (hwt : WT c.d c.fuel c.ty v) (hp : publishPkt c sz h v = .ok p) :
    handle c p = .delivered ⟨h, v⟩ := by
  unfold publishPkt at hp
  cases henc : encV c.d c.fuel c.ty v with
  | ok es =>
    rw [henc] at hp
    cases hp
    unfold handle
    have hl : ¬ (be32 sz ++ marshal h).length < 4 := by
      simp only [List.length_append, be32_length]; omega
    have hd : (be32 sz ++ marshal h).drop 4 = marshal h := by
      rw [List.drop_left' (be32_length _)]
    simp only [hl, if_false, hd]
    exact callback_published c h v es hh hwt henc
  | err e => rw [henc] at hp; cases hp
  | panic q => rw [henc] at hp; cases hp

theorem publishPkt_total (c : SubCfg) (sz : Nat) (h : Hdrs) (v : Val) (hwt : WT c.d c.fuel c.ty v) :
    ∃ p, publishPkt c sz h v = .ok p := by
  obtain ⟨es, he⟩ := enc_total c.d c.fuel c.ty v hwt
  exact ⟨_, by unfold publishPkt; rw [he]⟩


/-! ### the worker -/

theorem deliver_none_of_not_delivered (c : SubCfg) (p : Packet) :
    (∀ dl, handle c p ≠ .delivered dl) → deliver c p = none := by
  intro h
  unfold deliver
  cases hh : handle c p with
  | delivered dl => exact absurd hh (h dl)
  | discarded => rfl
  | failed e => rfl
  | crashed q => rfl

theorem deliver_some (c : SubCfg) (p : Packet) (dl : Delivery) (h : handle c p = .delivered dl) :
    deliver c p = some dl := by
  unfold deliver; rw [h]; rfl

/-- The log grows by exactly the message's delivery, whatever the message, while no panic happens. -/
theorem recv_log (c : SubCfg) (w : WState) (p : Packet) (ha : w.alive = true)
    (hc : (handle c p).isCrash = false) :
    (w.recv c p).alive = true ∧ (w.recv c p).log = w.log ++ (deliver c p).toList := by
  unfold WState.recv deliver
  simp only [ha, Bool.not_true]
  cases hh : handle c p with
  | delivered dl => simp [Outcome.delivery?, ha]
  | discarded => simp [Outcome.delivery?, ha]
  | failed e => simp [Outcome.delivery?, ha]
  | crashed q => rw [hh] at hc; simp [Outcome.isCrash] at hc

theorem filterMap_eq_flatMap_toList {α β : Type} (f : α → Option β) (l : List α) :
    l.filterMap f = l.flatMap (fun x => (f x).toList) := by
  induction l with
  | nil => rfl
  | cons x t ih =>
    rw [List.flatMap_cons, ← ih]
    cases hx : f x with
    | none => simp [hx]
    | some y => simp [hx]

theorem recvAll_log (c : SubCfg) (ps : List Packet) : ∀ (w : WState), w.alive = true →
    (∀ p ∈ ps, (handle c p).isCrash = false) →
    (w.recvAll c ps).alive = true ∧ (w.recvAll c ps).log = w.log ++ ps.filterMap (deliver c) := by
  induction ps with
  | nil => intro w ha _; simp [WState.recvAll, ha]
  | cons p t ih =>
    intro w ha hc
    have h1 := recv_log c w p ha (hc p (List.mem_cons_self))
    have h2 := ih (w.recv c p) h1.1 (fun q hq => hc q (List.mem_cons_of_mem _ hq))
    simp only [WState.recvAll, List.foldl_cons] at h2 ⊢
    refine ⟨h2.1, ?_⟩
    rw [h2.2, h1.2]
    cases hd : deliver c p with
    | none => simp [hd]
    | some dl => simp [hd]

/-- Callback invocations are what the C05 worker model counts. -/
theorem recv_cbs (c : SubCfg) (w : WState) (k : Worker) (p : Packet) (ha : w.alive = true) (hk : k.alive = true)
    (hc : (handle c p).isCrash = false) (he : w.cbs = k.delivered) :
    (w.recv c p).cbs = (k.recv p.data).delivered := by
  unfold WState.recv Worker.recv handle at *
  simp only [ha, hk, Bool.not_true]
  by_cases hl : p.data.length < 4
  · simp [hl, he]
  · simp only [hl, if_false] at hc ⊢
    cases hh : callback c (List.drop 4 p.data) p.tail with
    | delivered dl => simp [he]
    | discarded => simp [he]; unfold callback at hh; split at hh <;> (try cases hh); split at hh <;> (try cases hh); split at hh <;> (try cases hh); split at hh <;> (try cases hh); split at hh <;> cases hh
    | failed e => simp [he]
    | crashed q => rw [hh] at hc; simp [Outcome.isCrash] at hc

theorem nodup_map_inj {α β : Type} (f : α → β) (hf : ∀ a b, f a = f b → a = b) :
    ∀ l : List α, l.Nodup → (l.map f).Nodup := by
  intro l
  induction l with
  | nil => intro _; exact List.nodup_nil
  | cons x t ih =>
    intro h
    rw [List.nodup_cons] at h
    rw [List.map_cons, List.nodup_cons]
    refine ⟨?_, ih h.2⟩
    intro hm
    obtain ⟨y, hy, hxy⟩ := List.mem_map.mp hm
    rw [hf y x hxy] at hy
    exact h.1 hy

/-! ### interleavings -/

theorem flatten_nil_of_all_nil {α : Type} (ls : List (List α)) (h : ∀ l ∈ ls, l = []) : ls.flatten = [] := by
  induction ls with
  | nil => rfl
  | cons a t ih =>
    rw [List.flatten_cons, h a (List.mem_cons_self), ih (fun l hl => h l (List.mem_cons_of_mem _ hl))]
    rfl

theorem merge_perm {α : Type} (ls : List (List α)) (out : List α) (h : Merge ls out) : out.Perm ls.flatten := by
  induction h with
  | done ls h => rw [flatten_nil_of_all_nil ls h]
  | take pre x t post out _ ih =>
    simp only [List.flatten_append, List.flatten_cons, List.cons_append] at ih ⊢
    exact (List.Perm.cons x ih).trans (List.perm_middle.symm)

theorem flatten_map_filterMap {α β : Type} (f : α → Option β) (ls : List (List α)) :
    (ls.map (List.filterMap f)).flatten = ls.flatten.filterMap f := by
  induction ls with
  | nil => rfl
  | cons a t ih =>
    rw [List.map_cons, List.flatten_cons, List.flatten_cons, List.filterMap_append, ih]

/-! ### the life cycle: what one action does -/

theorem filterMap_singleton_toList {α β : Type} (f : α → Option β) (p : α) : [p].filterMap f = (f p).toList := by
  cases h : f p <;> simp [h]

/-- One enabled action extends the log by `e`, the history by `n`, and what is still owed
(`e ++ queue'`) is a sub-list of what was owed plus what arrived. -/
theorem step_ext (c : SubCfg) (topic : Topic) (s s' : St) (a : Act) (h : step c topic s a = some s') :
    ∃ e n, s'.w.log = s.w.log ++ e ∧ s'.accepted = s.accepted ++ n ∧
      (e ++ s'.queue.filterMap (deliver c)).Sublist (s.queue.filterMap (deliver c) ++ n.filterMap (deliver c)) ∧
      (s.subscribed = false → n = []) ∧ (s.subscribed = false → s'.subscribed = false) := by
  cases a with
  | publish m =>
    simp only [step] at h
    by_cases hc : s.subscribed ∧ m.topic = topic
    · rw [if_pos hc] at h
      cases h
      refine ⟨[], [m.pkt], by simp, rfl, ?_, ?_, ?_⟩
      · simp [List.filterMap_append]
      · intro hs; rw [hs] at hc; simp at hc
      · intro hs; exact hs
    · rw [if_neg hc] at h
      cases h
      exact ⟨[], [], by simp, by simp, by simp, fun _ => rfl, fun hs => hs⟩
  | work =>
    simp only [step] at h
    cases hq : s.queue with
    | nil => rw [hq] at h; cases h
    | cons p q =>
      rw [hq] at h
      cases h
      -- what recv does to the log
      have hlog : ∃ e, (s.w.recv c p).log = s.w.log ++ e ∧ e.Sublist (deliver c p).toList := by
        unfold WState.recv deliver
        by_cases ha : s.w.alive = true
        · simp only [ha, Bool.not_true]
          cases hh : handle c p with
          | delivered dl => exact ⟨[dl], by simp, by simp [Outcome.delivery?]⟩
          | discarded => exact ⟨[], by simp, by simp⟩
          | failed e => exact ⟨[], by simp, by simp⟩
          | crashed q => exact ⟨[], by simp, by simp⟩
        · have : s.w.alive = false := by cases h : s.w.alive <;> simp_all
          simp only [this]
          exact ⟨[], by simp, by simp⟩
      obtain ⟨e, he, hsub⟩ := hlog
      refine ⟨e, [], he, by simp, ?_, fun _ => rfl, fun hs => hs⟩
      simp only [List.filterMap_nil, List.append_nil]
      have : (p :: q).filterMap (deliver c) = (deliver c p).toList ++ q.filterMap (deliver c) := by
        cases hd : deliver c p <;> simp [hd]
      rw [this]
      exact List.Sublist.append hsub (List.Sublist.refl _)
  | unsubscribe =>
    simp only [step] at h
    cases h
    exact ⟨[], [], by simp, by simp, by simp, fun _ => rfl, fun _ => rfl⟩
  | abandon =>
    simp only [step] at h
    by_cases hq : s.quit = true
    · rw [if_pos hq] at h
      cases h
      exact ⟨[], [], by simp, by simp, by simp, fun _ => rfl, fun hs => hs⟩
    · rw [if_neg hq] at h; cases h

/-- Any schedule from any state. -/
theorem run_ext (c : SubCfg) (topic : Topic) (as : List Act) : ∀ (s s' : St), run c topic s as = some s' →
    ∃ e n, s'.w.log = s.w.log ++ e ∧ s'.accepted = s.accepted ++ n ∧
      (e ++ s'.queue.filterMap (deliver c)).Sublist (s.queue.filterMap (deliver c) ++ n.filterMap (deliver c)) ∧
      (s.subscribed = false → n = []) := by
  induction as with
  | nil =>
    intro s s' h
    simp only [run] at h
    cases h
    exact ⟨[], [], by simp, by simp, by simp, fun _ => rfl⟩
  | cons a t ih =>
    intro s s' h
    simp only [run] at h
    cases hs : step c topic s a with
    | none => rw [hs] at h; cases h
    | some s1 =>
      rw [hs] at h
      obtain ⟨e0, n0, hl0, ha0, hsub0, hn0, hu0⟩ := step_ext c topic s s1 a hs
      obtain ⟨e1, n1, hl1, ha1, hsub1, hn1⟩ := ih s1 s' h
      refine ⟨e0 ++ e1, n0 ++ n1, ?_, ?_, ?_, ?_⟩
      · rw [hl1, hl0, List.append_assoc]
      · rw [ha1, ha0, List.append_assoc]
      · rw [List.filterMap_append, List.append_assoc]
        have h1 : (e0 ++ (e1 ++ s'.queue.filterMap (deliver c))).Sublist
            (e0 ++ (s1.queue.filterMap (deliver c) ++ n1.filterMap (deliver c))) :=
          List.Sublist.append (List.Sublist.refl _) hsub1
        have h2 : (e0 ++ (s1.queue.filterMap (deliver c) ++ n1.filterMap (deliver c))).Sublist
            ((s.queue.filterMap (deliver c) ++ n0.filterMap (deliver c)) ++ n1.filterMap (deliver c)) := by
          rw [← List.append_assoc]
          exact List.Sublist.append hsub0 (List.Sublist.refl _)
        rw [← List.append_assoc (s.queue.filterMap (deliver c))]
        exact h1.trans h2
      · intro hf
        rw [hn0 hf, hn1 (hu0 hf)]
        rfl

/-- The history is exactly what the broker handed over for the publishes before the first unsubscribe. -/
theorem run_accepted (c : SubCfg) (topic : Topic) (as : List Act) : ∀ (s s' : St), run c topic s as = some s' →
    s.subscribed = true → s'.accepted = s.accepted ++ brokerDeliver topic (pubsBeforeUnsub as) := by
  induction as with
  | nil => intro s s' h _; simp only [run] at h; cases h; simp [pubsBeforeUnsub, brokerDeliver]
  | cons a t ih =>
    intro s s' h hsub
    simp only [run] at h
    cases hs : step c topic s a with
    | none => rw [hs] at h; cases h
    | some s1 =>
      rw [hs] at h
      cases a with
      | publish m =>
        simp only [step] at hs
        by_cases hc : s.subscribed ∧ m.topic = topic
        · rw [if_pos hc] at hs
          cases hs
          have := ih _ s' h hsub
          rw [this]
          simp [pubsBeforeUnsub, brokerDeliver, hc.2]
        · rw [if_neg hc] at hs
          cases hs
          have := ih _ s' h hsub
          rw [this]
          have hne : ¬ m.topic = topic := fun he => hc ⟨hsub, he⟩
          simp [pubsBeforeUnsub, brokerDeliver, hne]
      | work =>
        simp only [step] at hs
        cases hq : s.queue with
        | nil => rw [hq] at hs; cases hs
        | cons p q =>
          rw [hq] at hs
          cases hs
          have := ih _ s' h hsub
          rw [this]
          simp [pubsBeforeUnsub]
      | unsubscribe =>
        simp only [step] at hs
        cases hs
        obtain ⟨e, n, _, ha, _, hn⟩ := run_ext c topic t _ s' h
        rw [ha, hn rfl]
        simp [pubsBeforeUnsub, brokerDeliver]
      | abandon =>
        simp only [step] at hs
        by_cases hq : s.quit = true
        · rw [if_pos hq] at hs
          cases hs
          have := ih _ s' h hsub
          rw [this]
          simp [pubsBeforeUnsub]
        · rw [if_neg hq] at hs; cases hs

theorem pubsBeforeUnsub_append_unsub (as bs : List Act) :
    pubsBeforeUnsub (as ++ Act.unsubscribe :: bs) = pubsBeforeUnsub as := by
  induction as with
  | nil => rfl
  | cons a t ih => cases a <;> simp [pubsBeforeUnsub, ih]

theorem run_append (c : SubCfg) (topic : Topic) (as bs : List Act) : ∀ (s : St),
    run c topic s (as ++ bs) = (run c topic s as).bind (fun s1 => run c topic s1 bs) := by
  induction as with
  | nil => intro s; rfl
  | cons a t ih =>
    intro s
    simp only [List.cons_append, run]
    cases step c topic s a with
    | none => rfl
    | some s1 => exact ih s1

theorem run_unsubReturned (c : SubCfg) (topic : Topic) (as : List Act) : ∀ (s s' : St),
    run c topic s as = some s' → s.unsubReturned = true → s'.unsubReturned = true := by
  induction as with
  | nil => intro s s' h hu; simp only [run] at h; cases h; exact hu
  | cons a t ih =>
    intro s s' h hu
    simp only [run] at h
    cases hs : step c topic s a with
    | none => rw [hs] at h; cases h
    | some s1 =>
      rw [hs] at h
      apply ih s1 s' h
      cases a with
      | publish m =>
        simp only [step] at hs
        by_cases hc : s.subscribed ∧ m.topic = topic
        · rw [if_pos hc] at hs; cases hs; exact hu
        · rw [if_neg hc] at hs; cases hs; exact hu
      | work =>
        simp only [step] at hs
        cases hq : s.queue with
        | nil => rw [hq] at hs; cases hs
        | cons p q => rw [hq] at hs; cases hs; exact hu
      | unsubscribe => simp only [step] at hs; cases hs; rfl
      | abandon =>
        simp only [step] at hs
        by_cases hq : s.quit = true
        · rw [if_pos hq] at hs; cases hs; exact hu
        · rw [if_neg hq] at hs; cases hs

/-! ### go-stomp hand-over -/

def Stomp.mu (s : Stomp) : Nat := 2 * s.frames.length + s.subC

theorem sstep_mu (s s' : Stomp) (a : SAct) (h : sstep s a = some s') : s'.mu < s.mu := by
  cases a with
  | handOver =>
    simp only [sstep] at h
    cases hf : s.frames with
    | nil => rw [hf] at h; cases h
    | cons b fs =>
      rw [hf] at h
      cases b with
      | false => cases h
      | true =>
        by_cases hc : s.subC < s.cap
        · simp only [hc, if_true] at h; cases h; simp [Stomp.mu, hf] <;> omega
        · simp only [hc, if_false] at h; cases h
  | receipt =>
    simp only [sstep] at h
    cases hf : s.frames with
    | nil => rw [hf] at h; cases h
    | cons b fs =>
      rw [hf] at h
      cases b with
      | true => cases h
      | false => cases h; simp [Stomp.mu, hf] <;> omega
  | drain =>
    simp only [sstep] at h
    by_cases hc : s.loopRunning ∧ 0 < s.subC
    · rw [if_pos hc] at h; cases h; simp [Stomp.mu] <;> omega
    · rw [if_neg hc] at h; cases h

/-- Invariant of the fixed order: the loop runs, and while not closed the RECEIPT is still to come. -/
def Stomp.Good (s : Stomp) : Prop :=
  s.loopRunning = true ∧ 1 ≤ s.cap ∧ s.subC ≤ s.cap ∧ (s.closed = false → false ∈ s.frames)

theorem good_waiting (cap k : Nat) (hc : 1 ≤ cap) : (Stomp.waiting cap k false).Good := by
  refine ⟨rfl, hc, Nat.zero_le _, fun _ => ?_⟩
  simp [Stomp.waiting]

theorem good_step (s s' : Stomp) (a : SAct) (hg : s.Good) (h : sstep s a = some s') : s'.Good := by
  obtain ⟨hl, hc, hle, hr⟩ := hg
  cases a with
  | handOver =>
    simp only [sstep] at h
    cases hf : s.frames with
    | nil => rw [hf] at h; cases h
    | cons b fs =>
      rw [hf] at h
      cases b with
      | false => cases h
      | true =>
        by_cases hlt : s.subC < s.cap
        · simp only [hlt, if_true] at h
          cases h
          refine ⟨hl, hc, by simp; omega, fun hcl => ?_⟩
          have := hr hcl
          rw [hf] at this
          simpa using this
        · simp only [hlt, if_false] at h; cases h
  | receipt =>
    simp only [sstep] at h
    cases hf : s.frames with
    | nil => rw [hf] at h; cases h
    | cons b fs =>
      rw [hf] at h
      cases b with
      | true => cases h
      | false => cases h; exact ⟨hl, hc, hle, fun hcl => by simp at hcl⟩
  | drain =>
    simp only [sstep] at h
    by_cases hd : s.loopRunning ∧ 0 < s.subC
    · rw [if_pos hd] at h; cases h; exact ⟨hl, hc, by simp; omega, hr⟩
    · rw [if_neg hd] at h; cases h

theorem good_progress (s : Stomp) (hg : s.Good) (hcl : s.closed = false) : ∃ a s', sstep s a = some s' := by
  obtain ⟨hl, hc, hle, hr⟩ := hg
  have hm := hr hcl
  cases hf : s.frames with
  | nil => rw [hf] at hm; cases hm
  | cons b fs =>
    cases b with
    | false => exact ⟨.receipt, { s with frames := fs, closed := true }, by simp only [sstep, hf]⟩
    | true =>
      by_cases hlt : s.subC < s.cap
      · exact ⟨.handOver, { s with frames := fs, subC := s.subC + 1 }, by simp only [sstep, hf, hlt, if_true]⟩
      · have hpos : 0 < s.subC := by omega
        exact ⟨.drain, { s with subC := s.subC - 1 }, by simp only [sstep, hl, hpos, and_self, if_true]⟩

def srun : Stomp → List SAct → Option Stomp
  | s, [] => some s
  | s, a :: as => match sstep s a with
    | some s' => srun s' as
    | none => none

theorem good_run (as : List SAct) : ∀ (s s' : Stomp), s.Good → srun s as = some s' → s'.Good := by
  induction as with
  | nil => intro s s' hg h; simp only [srun] at h; cases h; exact hg
  | cons a t ih =>
    intro s s' hg h
    simp only [srun] at h
    cases hs : sstep s a with
    | none => rw [hs] at h; cases h
    | some s1 => rw [hs] at h; exact ih s1 s' (good_step s s1 a hg hs) h

end FV.PubSub
