/-
Soundness of the closure check of FV.Model.Locks: if a table of masks passes `closed`, then for every
call path f →* h (through resolved calls) every mutex acquired by h is in f's mask. Hence `noNested`,
which only looks at masks, really excludes every nested acquisition along every call path — whatever
number of rounds `closure` ran.
-/
import FV.Model.Locks

namespace FV.Locks

/-- `f` reaches `h` through the recorded call relation. -/
inductive Reach (fs : List Fn) : Nat → Nat → Prop
  | refl (f : Nat) : Reach fs f f
  | step {f g h : Nat} (fn : Fn) : fs[f]? = some fn → g ∈ fn.calls → Reach fs g h → Reach fs f h

theorem testBit_of_and_eq {a b : Nat} (h : a &&& b = a) (i : Nat) (ha : a.testBit i = true) :
    b.testBit i = true := by
  have := Nat.testBit_and a b i
  rw [h, ha] at this
  simpa using this.symm

theorem testBit_bit (m : Nat) : (bit m).testBit m = true := by
  simp [bit, Nat.one_shiftLeft]

theorem testBit_foldl (ms : List Nat) : ∀ (init m : Nat), (init.testBit m = true ∨ m ∈ ms) →
    (ms.foldl (fun a m => a ||| bit m) init).testBit m = true := by
  induction ms with
  | nil => intro init m h; rcases h with h | h; exact h; cases h
  | cons x t ih =>
    intro init m h
    simp only [List.foldl_cons]
    apply ih
    rcases h with h | h
    · left; simp [Nat.testBit_or, h]
    · rcases List.mem_cons.mp h with e | h
      · left; subst e; simp [Nat.testBit_or, testBit_bit]
      · right; exact h

theorem testBit_maskOf {ms : List Nat} {m : Nat} (h : m ∈ ms) : (maskOf ms).testBit m = true :=
  testBit_foldl ms 0 m (Or.inr h)

theorem id_of_wellNumbered {fs : List Fn} (hw : wellNumbered fs = true) {i : Nat} {fn : Fn}
    (h : fs[i]? = some fn) : fn.id = i := by
  unfold wellNumbered at hw
  simp only [Bool.and_eq_true, List.all_eq_true] at hw
  have hm : (fn, i) ∈ fs.zipIdx := by
    rw [List.mem_zipIdx_iff_getElem?]
    simpa using h
  have := hw.1 (fn, i) hm
  simpa using this

theorem closed_sound (fs : List Fn) (r : List Nat) (hw : wellNumbered fs = true) (hc : closed fs r = true)
    {f h : Nat} (hr : Reach fs f h) :
    ∀ fnh, fs[h]? = some fnh → ∀ m ∈ fnh.acquires, (r.getD f 0).testBit m = true := by
  unfold closed at hc
  simp only [Bool.and_eq_true, List.all_eq_true, beq_iff_eq] at hc
  induction hr with
  | refl f =>
    intro fnh hf m hm
    have hmem : fnh ∈ fs := List.mem_of_getElem? hf
    have hid := id_of_wellNumbered hw hf
    have := (hc.2 fnh hmem).1
    rw [hid] at this
    exact testBit_of_and_eq this m (testBit_maskOf hm)
  | step fn hf hg _ ih =>
    intro fnh hh m hm
    have hmem : fn ∈ fs := List.mem_of_getElem? hf
    have hid := id_of_wellNumbered hw hf
    have := (hc.2 fn hmem).2 _ hg
    rw [hid] at this
    exact testBit_of_and_eq this m (ih fnh hh m hm)

/-- What `ok` establishes about every call path: a call made by `fn` under mutex `m` (of a relevant tag)
never reaches a function that acquires `m`. -/
theorem ok_no_nested_path (tags mutexTags : List Nat) (fs : List Fn) (hok : ok tags mutexTags fs = true)
    {fn : Fn} (hfn : fn ∈ fs) {m g h : Nat} (hheld : (m, g) ∈ fn.heldCalls)
    (hrel : relevant tags mutexTags m = true) (hr : Reach fs g h) {fnh : Fn} (hh : fs[h]? = some fnh) :
    m ∉ fnh.acquires := by
  unfold ok at hok
  simp only [Bool.and_eq_true] at hok
  obtain ⟨⟨⟨hw, hc⟩, hn⟩, _⟩ := hok
  intro hm
  have hbit := closed_sound fs (closure fs) hw hc hr fnh hh m hm
  unfold noNested at hn
  simp only [List.all_eq_true, Bool.and_eq_true] at hn
  have := (hn fn hfn).1 (m, g) hheld
  simp only [hasBit, hrel, Bool.not_true, Bool.false_or, Bool.not_eq_true'] at this
  rw [hbit] at this
  cases this

/-- What `rootsAvoid` establishes: from a root, NO call path reaches a function that acquires a mutex with
one of the tags. -/
theorem rootsAvoid_sound (tags mutexTags : List Nat) (fs : List Fn) (roots : List Nat)
    (hok : rootsAvoid tags mutexTags fs roots = true) {f h : Nat} (hf : f ∈ roots) (hr : Reach fs f h)
    {fnh : Fn} (hh : fs[h]? = some fnh) {m : Nat} (hm : m ∈ fnh.acquires) (hlt : m < mutexTags.length) :
    tags.contains (mutexTags.getD m 0) = false := by
  unfold rootsAvoid at hok
  simp only [Bool.and_eq_true, List.all_eq_true] at hok
  obtain ⟨⟨hw, hc⟩, hroots⟩ := hok
  have hbit := closed_sound fs (closure fs) hw hc hr fnh hh m hm
  have := hroots f hf m (List.mem_range.mpr hlt)
  simp only [hasBit, hbit, Bool.not_true, Bool.or_false, Bool.not_eq_true'] at this
  exact this

/-! ### Lock order -/

/-- `m'` is acquired under `m` somewhere: lexically, or by a function reachable from a call made under `m`. -/
def Edge (fs : List Fn) (m m' : Nat) : Prop :=
  ∃ fn ∈ fs, (m, m') ∈ fn.heldAcq ∨
    ∃ g h fnh, (m, g) ∈ fn.heldCalls ∧ Reach fs g h ∧ fs[h]? = some fnh ∧ m' ∈ fnh.acquires

/-- A non-empty chain of order edges. -/
inductive Chain (fs : List Fn) : Nat → Nat → Prop
  | one {a b : Nat} : Edge fs a b → Chain fs a b
  | cons {a b c : Nat} : Edge fs a b → Chain fs b c → Chain fs a c

/-- What `acyclic` establishes: no mutex of a relevant tag lies on a cycle of order edges — over EVERY call
path of the recorded call graph. -/
theorem acyclic_sound (tags mutexTags : List Nat) (fs : List Fn) (hac : acyclic tags mutexTags fs = true)
    {m : Nat} (hrel : relevant tags mutexTags m = true) : ¬ Chain fs m m := by
  unfold acyclic at hac
  simp only [Bool.and_eq_true] at hac
  obtain ⟨⟨⟨⟨⟨hw, hc⟩, hin⟩, hcov⟩, htr⟩, hself⟩ := hac
  generalize closure fs = r at hc hcov htr hself
  generalize orderIter (orderSucc mutexTags.length fs r) 6 (orderSucc mutexTags.length fs r) = t at hcov htr hself
  unfold inRange at hin
  unfold orderCovers at hcov
  unfold orderTrans at htr
  simp only [Bool.and_eq_true, Bool.or_eq_true, Bool.not_eq_true', List.all_eq_true, decide_eq_true_eq, beq_iff_eq] at hin hcov htr hself
  -- an edge is covered by t, and its ends are in range
  have hedge : ∀ a b, Edge fs a b → (t.getD a 0).testBit b = true ∧ a < mutexTags.length ∧ b < mutexTags.length := by
    intro a b ⟨fn, hfn, h⟩
    have hcf := hcov fn hfn
    have hif := hin fn hfn
    rcases h with h | ⟨g, h, fnh, hheld, hreach, hh, hacq⟩
    · have h1 := hcf.2 (a, b) h
      have h2 := hif.1.2 (a, b) h
      exact ⟨by simpa [hasBit] using h1, h2.1, h2.2⟩
    · have hsub := hcf.1 (a, g) hheld
      have hbit := closed_sound fs r hw hc hreach fnh hh b hacq
      have h2 := hif.2 (a, g) hheld
      have h3 := (hin fnh (List.mem_of_getElem? hh)).1.1 b hacq
      exact ⟨testBit_of_and_eq hsub b hbit, h2, h3⟩
  -- a chain is covered by t
  have hchain : ∀ a c, Chain fs a c → (t.getD a 0).testBit c = true ∧ a < mutexTags.length := by
    intro a c hch
    induction hch with
    | one e => exact ⟨(hedge _ _ e).1, (hedge _ _ e).2.1⟩
    | cons e _ ih =>
      obtain ⟨hab, ha, hb⟩ := hedge _ _ e
      have := htr _ (List.mem_range.mpr ha) _ (List.mem_range.mpr hb)
      rcases this with h | h
      · simp only [hasBit, hab] at h; cases h
      · exact ⟨testBit_of_and_eq h _ ih.1, ha⟩
  intro hcyc
  obtain ⟨hbit, hlt⟩ := hchain m m hcyc
  have := hself m (List.mem_range.mpr hlt)
  rcases this with h | h
  · rw [hrel] at h; cases h
  · simp only [hasBit, hbit] at h; cases h

end FV.Locks
