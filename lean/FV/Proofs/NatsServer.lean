/- Invariants, progress and termination measure of the NATS server shutdown model (FV.Model.NatsServer). -/
import FV.Model.NatsServer
namespace FV.NS

def wkMsgs : Wk → List Msg | .busy m => [m] | _ => []
def busyList : List Wk → List Msg | [] => [] | w :: ws => wkMsgs w ++ busyList ws
def cbMsgs : Cb → List Msg | .sending m => [m] | _ => []
def rank : ServePc → Nat
  | .running => 0 | .gotQuit => 1 | .unsubbed => 2 | .barrierWait => 3
  | .barrierDone => 4 | .resultSent => 5 | .closedQ => 6 | .returned => 7

def loc (s : Sys) : List Msg :=
  s.inflight ++ s.pending ++ cbMsgs s.cb ++ s.workC ++ busyList s.workers ++ s.replied

theorem count_busy_set (m : Msg) (ws : List Wk) (i : Nat) (u v : Wk) (h : ws[i]? = some u) :
    (busyList (ws.set i v)).count m + (wkMsgs u).count m = (busyList ws).count m + (wkMsgs v).count m := by
  induction ws generalizing i with
  | nil => simp at h
  | cons w ws ih =>
    cases i with
    | zero =>
      simp at h; subst h
      simp [busyList, List.count_append]; omega
    | succ i =>
      simp at h
      have := ih i h
      simp [busyList, List.count_append]; omega

theorem mem_set_exited (ws : List Wk) (i : Nat) (v : Wk) (h : Wk.exited ∈ ws.set i v) : Wk.exited ∈ ws ∨ v = .exited := by
  rcases List.mem_or_eq_of_mem_set h with h | h
  · exact Or.inl h
  · exact Or.inr h.symm

structure SInv (s : Sys) : Prop where
  cnt : ∀ m, (loc s).count m = s.arrived.count m
  nodup : ∀ m, s.arrived.count m ≤ 1
  proc : ∀ m, s.processed.count m = (busyList s.workers).count m + s.replied.count m
  act : s.active = true ↔ rank s.serve < 2
  infl : 2 < rank s.serve → s.inflight = []
  pend : 3 < rank s.serve → s.pending = [] ∧ s.cb = .idle
  clo : s.closed = true ↔ 5 < rank s.serve
  ret : s.serve = .returned → ∀ w ∈ s.workers, w = .exited
  ex : .exited ∈ s.workers → s.closed = true ∧ s.workC = []
  pan : s.panicked = false
  bar : s.barrier = true ↔ s.serve = .barrierWait
  st0 : rank s.serve = 0 → s.stop = .notCalled ∨ s.stop = .atQuit
  st1 : 0 < rank s.serve → rank s.serve < 5 → s.stop = .waitResult
  st2 : 4 < rank s.serve → s.stop = .gotResult ∨ s.stop = .returned


theorem all_exited_get {ws : List Wk} {i : Nat} {u : Wk} (h : ∀ w ∈ ws, w = .exited) (hg : ws[i]? = some u) : u = .exited :=
  h u (List.mem_of_getElem? hg)

syntax "cnt_tac" : tactic
macro_rules
  | `(tactic| cnt_tac) => `(tactic| (simp only [loc, cbMsgs, wkMsgs, busyList, List.count_append, List.count_cons, List.count_nil] at * <;> omega))

theorem sinv_arrive (s s' : Sys) (m : Msg) (hi : SInv s) (hs : step s (.arrive m) = some s') : SInv s' := by
  obtain ⟨cnt, nodup, proc, act, infl, pend, clo, ret, ex, pan, bar, st0, st1, st2⟩ := hi
  simp only [step] at hs
  split at hs
  · rename_i h
    cases hs
    refine ⟨?_, ?_, proc, act, ?_, pend, clo, ret, ex, pan, bar, st0, st1, st2⟩
    · intro x
      have := cnt x
      cnt_tac
    · intro x
      have := nodup x
      have h0 : s.arrived.count m = 0 := List.count_eq_zero.mpr h.2
      by_cases hx : m = x
      · subst hx; simp only [List.count_append, List.count_cons, List.count_nil] at *; simp; omega
      · simp only [List.count_append, List.count_cons, List.count_nil] at *; simp [hx]; omega
    · intro h2
      have := act.mp h.1
      simp at h2 ⊢; omega
  · cases hs

theorem sinv_deliver (s s' : Sys) (hi : SInv s) (hs : step s .deliver = some s') : SInv s' := by
  obtain ⟨cnt, nodup, proc, act, infl, pend, clo, ret, ex, pan, bar, st0, st1, st2⟩ := hi
  simp only [step] at hs
  split at hs
  · rename_i m rest hm
    cases hs
    refine ⟨?_, nodup, proc, act, ?_, ?_, clo, ret, ex, pan, bar, st0, st1, st2⟩
    · intro x
      have := cnt x
      rw [loc, hm] at this
      cnt_tac
    · intro h2; have := infl h2; simp [hm] at this
    · intro h2; dsimp only at h2; have := infl (by omega); simp [hm] at this
  · cases hs

theorem sinv_cbStart (s s' : Sys) (hi : SInv s) (hs : step s .cbStart = some s') : SInv s' := by
  obtain ⟨cnt, nodup, proc, act, infl, pend, clo, ret, ex, pan, bar, st0, st1, st2⟩ := hi
  simp only [step] at hs
  split at hs
  · rename_i m rest hcb hm
    cases hs
    refine ⟨?_, nodup, proc, act, infl, ?_, clo, ret, ex, pan, bar, st0, st1, st2⟩
    · intro x
      have := cnt x
      rw [loc, hm, hcb] at this
      cnt_tac
    · intro h2; dsimp only at h2; have := (pend h2).1; simp [hm] at this
  · cases hs

theorem sinv_handlerEnqueue (s s' : Sys) (hi : SInv s) (hs : step s .handlerEnqueue = some s') : SInv s' := by
  obtain ⟨cnt, nodup, proc, act, infl, pend, clo, ret, ex, pan, bar, st0, st1, st2⟩ := hi
  simp only [step] at hs
  split at hs
  · rename_i m hcb
    have hlow : ¬ 3 < rank s.serve := by
      intro h; have := (pend h).2; simp [hcb] at this
    split at hs
    · rename_i hc
      exact absurd (clo.mp hc) (by omega)
    · split at hs
      · cases hs
        refine ⟨?_, nodup, proc, act, infl, ?_, clo, ret, ?_, pan, bar, st0, st1, st2⟩
        · intro x
          have := cnt x
          rw [loc, hcb] at this
          cnt_tac
        · intro h2; exact absurd h2 hlow
        · intro h2; dsimp only at h2 ⊢
          have := (ex h2).1
          exact absurd (clo.mp this) (by omega)
      · cases hs
  · cases hs

theorem sinv_callbackDone (s s' : Sys) (hi : SInv s) (hs : step s .callbackDone = some s') : SInv s' := by
  obtain ⟨cnt, nodup, proc, act, infl, pend, clo, ret, ex, pan, bar, st0, st1, st2⟩ := hi
  simp only [step] at hs
  split at hs
  · rename_i m hcb
    cases hs
    refine ⟨?_, nodup, proc, act, infl, ?_, clo, ret, ex, pan, bar, st0, st1, st2⟩
    · intro x
      have := cnt x
      rw [loc, hcb] at this
      cnt_tac
    · intro h2; exact ⟨(pend h2).1, rfl⟩
  · cases hs

theorem sinv_workerTake (s s' : Sys) (i : Nat) (hi : SInv s) (hs : step s (.workerTake i) = some s') : SInv s' := by
  obtain ⟨cnt, nodup, proc, act, infl, pend, clo, ret, ex, pan, bar, st0, st1, st2⟩ := hi
  simp only [step] at hs
  split at hs
  · rename_i hw
    have hnr : s.serve ≠ .returned := by
      intro h; have := all_exited_get (ret h) hw; cases this
    split at hs
    · rename_i m rest hq
      cases hs
      have hb := fun x => count_busy_set x s.workers i .idle (.busy m) hw
      refine ⟨?_, nodup, ?_, act, infl, pend, clo, ?_, ?_, pan, bar, st0, st1, st2⟩
      · intro x
        have := cnt x
        have := hb x
        rw [loc, hq] at *
        cnt_tac
      · intro x
        have := proc x
        have := hb x
        cnt_tac
      · intro h; exact absurd h hnr
      · intro h2; dsimp only at h2 ⊢
        rcases mem_set_exited _ _ _ h2 with h3 | h3
        · have := (ex h3).2; simp [hq] at this
        · cases h3
    · rename_i hq
      split at hs
      · rename_i m hcb
        have hlow : ¬ 3 < rank s.serve := by
          intro h; have := (pend h).2; simp [hcb] at this
        split at hs
        · cases hs
        · cases hs
          have hb := fun x => count_busy_set x s.workers i .idle (.busy m) hw
          refine ⟨?_, nodup, ?_, act, infl, ?_, clo, ?_, ?_, pan, bar, st0, st1, st2⟩
          · intro x
            have := cnt x
            have := hb x
            rw [loc, hq, hcb] at *
            cnt_tac
          · intro x
            have := proc x
            have := hb x
            cnt_tac
          · intro h2; exact absurd h2 hlow
          · intro h; exact absurd h hnr
          · intro h2; dsimp only at h2 ⊢
            rcases mem_set_exited _ _ _ h2 with h3 | h3
            · have := (ex h3).1
              exact absurd (clo.mp this) (by omega)
            · cases h3
      · cases hs
  · cases hs

theorem sinv_workerReply (s s' : Sys) (i : Nat) (hi : SInv s) (hs : step s (.workerReply i) = some s') : SInv s' := by
  obtain ⟨cnt, nodup, proc, act, infl, pend, clo, ret, ex, pan, bar, st0, st1, st2⟩ := hi
  simp only [step] at hs
  split at hs
  · rename_i m hw
    have hnr : s.serve ≠ .returned := by
      intro h; have := all_exited_get (ret h) hw; cases this
    cases hs
    have hb := fun x => count_busy_set x s.workers i (.busy m) .idle hw
    refine ⟨?_, nodup, ?_, act, infl, pend, clo, ?_, ?_, pan, bar, st0, st1, st2⟩
    · intro x
      have := cnt x
      have := hb x
      cnt_tac
    · intro x
      have := proc x
      have := hb x
      cnt_tac
    · intro h; exact absurd h hnr
    · intro h2; dsimp only at h2 ⊢
      rcases mem_set_exited _ _ _ h2 with h3 | h3
      · exact ex h3
      · cases h3
  · cases hs

theorem sinv_workerExit (s s' : Sys) (i : Nat) (hi : SInv s) (hs : step s (.workerExit i) = some s') : SInv s' := by
  obtain ⟨cnt, nodup, proc, act, infl, pend, clo, ret, ex, pan, bar, st0, st1, st2⟩ := hi
  simp only [step] at hs
  split at hs
  · rename_i hw
    have hnr : s.serve ≠ .returned := by
      intro h; have := all_exited_get (ret h) hw; cases this
    split at hs
    · rename_i hc
      cases hs
      have hb := fun x => count_busy_set x s.workers i .idle .exited hw
      refine ⟨?_, nodup, ?_, act, infl, pend, clo, ?_, ?_, pan, bar, st0, st1, st2⟩
      · intro x
        have := cnt x
        have := hb x
        cnt_tac
      · intro x
        have := proc x
        have := hb x
        cnt_tac
      · intro h; exact absurd h hnr
      · intro _; exact hc
    · cases hs
  · cases hs

theorem sinv_stopCall (s s' : Sys) (hi : SInv s) (hs : step s .stopCall = some s') : SInv s' := by
  obtain ⟨cnt, nodup, proc, act, infl, pend, clo, ret, ex, pan, bar, st0, st1, st2⟩ := hi
  simp only [step] at hs
  split at hs
  · rename_i h
    cases hs
    refine ⟨cnt, nodup, proc, act, infl, pend, clo, ret, ex, pan, bar, ?_, ?_, ?_⟩
    · intro _; exact Or.inr rfl
    · intro h1 h2; have := st1 h1 h2; simp [h] at this
    · intro h1; have := st2 h1; simp [h] at this
  · cases hs

theorem sinv_serveGotQuit (s s' : Sys) (hi : SInv s) (hs : step s .serveGotQuit = some s') : SInv s' := by
  obtain ⟨cnt, nodup, proc, act, infl, pend, clo, ret, ex, pan, bar, st0, st1, st2⟩ := hi
  simp only [step] at hs
  split at hs
  · rename_i h
    cases hs
    refine ⟨cnt, nodup, proc, ?_, ?_, ?_, ?_, ?_, ?_, pan, ?_, ?_, ?_, ?_⟩ <;> dsimp only <;> simp_all [rank]
  · cases hs

theorem sinv_drainStart (s s' : Sys) (hi : SInv s) (hs : step s .drainStart = some s') : SInv s' := by
  obtain ⟨cnt, nodup, proc, act, infl, pend, clo, ret, ex, pan, bar, st0, st1, st2⟩ := hi
  simp only [step] at hs
  split at hs
  · rename_i h
    cases hs
    refine ⟨cnt, nodup, proc, ?_, ?_, ?_, ?_, ?_, ?_, pan, ?_, ?_, ?_, ?_⟩ <;> dsimp only <;> simp_all [rank]
  · cases hs

theorem sinv_flushBarrier (s s' : Sys) (hi : SInv s) (hs : step s .flushBarrier = some s') : SInv s' := by
  obtain ⟨cnt, nodup, proc, act, infl, pend, clo, ret, ex, pan, bar, st0, st1, st2⟩ := hi
  simp only [step] at hs
  split at hs
  · rename_i h
    cases hs
    refine ⟨cnt, nodup, proc, ?_, ?_, ?_, ?_, ?_, ?_, pan, ?_, ?_, ?_, ?_⟩ <;> dsimp only <;> simp_all [rank]
  · cases hs

theorem sinv_barrierFires (s s' : Sys) (hi : SInv s) (hs : step s .barrierFires = some s') : SInv s' := by
  obtain ⟨cnt, nodup, proc, act, infl, pend, clo, ret, ex, pan, bar, st0, st1, st2⟩ := hi
  simp only [step] at hs
  split at hs
  · rename_i h
    cases hs
    refine ⟨cnt, nodup, proc, ?_, ?_, ?_, ?_, ?_, ?_, pan, ?_, ?_, ?_, ?_⟩ <;> dsimp only <;> simp_all [rank]
  · cases hs

theorem sinv_sendResult (s s' : Sys) (hi : SInv s) (hs : step s .sendResult = some s') : SInv s' := by
  obtain ⟨cnt, nodup, proc, act, infl, pend, clo, ret, ex, pan, bar, st0, st1, st2⟩ := hi
  simp only [step] at hs
  split at hs
  · rename_i h
    cases hs
    refine ⟨cnt, nodup, proc, ?_, ?_, ?_, ?_, ?_, ?_, pan, ?_, ?_, ?_, ?_⟩ <;> dsimp only <;> simp_all [rank]
  · cases hs

theorem sinv_closeWorkC (s s' : Sys) (hi : SInv s) (hs : step s .closeWorkC = some s') : SInv s' := by
  obtain ⟨cnt, nodup, proc, act, infl, pend, clo, ret, ex, pan, bar, st0, st1, st2⟩ := hi
  simp only [step] at hs
  split at hs
  · rename_i h
    cases hs
    refine ⟨cnt, nodup, proc, ?_, ?_, ?_, ?_, ?_, ?_, pan, ?_, ?_, ?_, ?_⟩ <;> dsimp only <;> simp_all [rank]
  · cases hs

theorem sinv_serveReturn (s s' : Sys) (hi : SInv s) (hs : step s .serveReturn = some s') : SInv s' := by
  obtain ⟨cnt, nodup, proc, act, infl, pend, clo, ret, ex, pan, bar, st0, st1, st2⟩ := hi
  simp only [step] at hs
  split at hs
  · rename_i h
    cases hs
    refine ⟨cnt, nodup, proc, ?_, ?_, ?_, ?_, ?_, ?_, pan, ?_, ?_, ?_, ?_⟩ <;> dsimp only <;> simp_all [rank, allExited]
    exact h.2
  · cases hs

theorem sinv_stopReturn (s s' : Sys) (hi : SInv s) (hs : step s .stopReturn = some s') : SInv s' := by
  obtain ⟨cnt, nodup, proc, act, infl, pend, clo, ret, ex, pan, bar, st0, st1, st2⟩ := hi
  simp only [step] at hs
  split at hs
  · rename_i h
    cases hs
    refine ⟨cnt, nodup, proc, act, infl, pend, clo, ret, ex, pan, bar, ?_, ?_, ?_⟩
    · intro h1; have := st0 h1; simp [h] at this
    · intro h1 h2; have := st1 h1 h2; simp [h] at this
    · intro _; exact Or.inr rfl
  · cases hs

theorem sinv_step (s s' : Sys) (a : Action) (hi : SInv s) (hs : step s a = some s') : SInv s' := by
  cases a with
  | arrive m => exact sinv_arrive s s' m hi hs
  | deliver => exact sinv_deliver s s' hi hs
  | cbStart => exact sinv_cbStart s s' hi hs
  | handlerEnqueue => exact sinv_handlerEnqueue s s' hi hs
  | callbackDone => exact sinv_callbackDone s s' hi hs
  | workerTake i => exact sinv_workerTake s s' i hi hs
  | workerReply i => exact sinv_workerReply s s' i hi hs
  | workerExit i => exact sinv_workerExit s s' i hi hs
  | stopCall => exact sinv_stopCall s s' hi hs
  | serveGotQuit => exact sinv_serveGotQuit s s' hi hs
  | drainStart => exact sinv_drainStart s s' hi hs
  | flushBarrier => exact sinv_flushBarrier s s' hi hs
  | barrierFires => exact sinv_barrierFires s s' hi hs
  | sendResult => exact sinv_sendResult s s' hi hs
  | stopReturn => exact sinv_stopReturn s s' hi hs
  | closeWorkC => exact sinv_closeWorkC s s' hi hs
  | serveReturn => exact sinv_serveReturn s s' hi hs

theorem busyList_replicate_idle (w : Nat) : busyList (List.replicate w .idle) = [] := by
  induction w with
  | zero => rfl
  | succ n ih => simp [List.replicate_succ, busyList, wkMsgs, ih]

theorem sinv_init (w q : Nat) : SInv (init w q) := by
  refine ⟨?_, ?_, ?_, ?_, ?_, ?_, ?_, ?_, ?_, rfl, ?_, ?_, ?_, ?_⟩ <;> simp [init, loc, rank, cbMsgs, busyList_replicate_idle]

/-! Reachability, parameters, monotonicity. -/

def Reachable (w q : Nat) (s : Sys) : Prop := ∃ as, run (init w q) as = some s

theorem run_append (s : Sys) (as bs : List Action) :
    run s (as ++ bs) = (run s as).bind (fun s' => run s' bs) := by
  induction as generalizing s with
  | nil => simp [run]
  | cons a as ih =>
    simp only [List.cons_append, run]
    cases step s a with
    | none => simp
    | some s' => simpa using ih s'

theorem reachable_run {w q : Nat} {s s' : Sys} {as : List Action} (hr : Reachable w q s) (h : run s as = some s') :
    Reachable w q s' := by
  obtain ⟨bs, hb⟩ := hr
  exact ⟨bs ++ as, by rw [run_append, hb]; simpa using h⟩

theorem reachable_step {w q : Nat} {s s' : Sys} {a : Action} (hr : Reachable w q s) (h : step s a = some s') :
    Reachable w q s' :=
  reachable_run (as := [a]) hr (by simp [run, h])

theorem run_sinv {s s' : Sys} {as : List Action} (hi : SInv s) (h : run s as = some s') : SInv s' := by
  induction as generalizing s with
  | nil => simp [run] at h; subst h; exact hi
  | cons a as ih =>
    simp only [run] at h
    split at h
    · rename_i s1 h1; exact ih (sinv_step s s1 a hi h1) h
    · cases h

theorem reachable_sinv {w q : Nat} {s : Sys} (hr : Reachable w q s) : SInv s := by
  obtain ⟨as, h⟩ := hr
  exact run_sinv (sinv_init w q) h

theorem step_params {s s' : Sys} {a : Action} (hs : step s a = some s') :
    s'.workers.length = s.workers.length ∧ s'.q = s.q := by
  cases a <;> simp only [step] at hs <;> (repeat' split at hs) <;> cases hs <;> simp

theorem run_params {s s' : Sys} {as : List Action} (h : run s as = some s') :
    s'.workers.length = s.workers.length ∧ s'.q = s.q := by
  induction as generalizing s with
  | nil => simp [run] at h; subst h; exact ⟨rfl, rfl⟩
  | cons a as ih =>
    simp only [run] at h
    split at h
    · rename_i s1 h1
      have h2 := step_params h1
      have h3 := ih h
      exact ⟨h3.1.trans h2.1, h3.2.trans h2.2⟩
    · cases h

theorem reachable_params {w q : Nat} {s : Sys} (hr : Reachable w q s) : s.workers.length = w ∧ s.q = q := by
  obtain ⟨as, h⟩ := hr
  have := run_params h
  simpa [init] using this

def stopRank : StopPc → Nat
  | .notCalled => 0 | .atQuit => 1 | .waitResult => 2 | .gotResult => 3 | .returned => 4

theorem step_mono {s s' : Sys} {a : Action} (hs : step s a = some s') :
    rank s.serve ≤ rank s'.serve ∧ stopRank s.stop ≤ stopRank s'.stop ∧ (∀ m, m ∈ s.arrived → m ∈ s'.arrived) := by
  cases a <;> simp only [step] at hs <;> (repeat' split at hs) <;> cases hs <;> simp_all [rank, stopRank]

theorem run_mono {s s' : Sys} {as : List Action} (h : run s as = some s') :
    rank s.serve ≤ rank s'.serve ∧ stopRank s.stop ≤ stopRank s'.stop ∧ (∀ m, m ∈ s.arrived → m ∈ s'.arrived) := by
  induction as generalizing s with
  | nil => simp [run] at h; subst h; exact ⟨Nat.le_refl _, Nat.le_refl _, fun _ h => h⟩
  | cons a as ih =>
    simp only [run] at h
    split at h
    · rename_i s1 h1
      have h2 := step_mono h1
      have h3 := ih h
      exact ⟨Nat.le_trans h2.1 h3.1, Nat.le_trans h2.2.1 h3.2.1, fun m hm => h3.2.2 m (h2.2.2 m hm)⟩
    · cases h


/-! Progress. -/

theorem not_allExited {ws : List Wk} (h : allExited ws = false) :
    ∃ (i : Nat) (u : Wk), ws[i]? = some u ∧ u ≠ .exited := by
  induction ws with
  | nil => simp [allExited] at h
  | cons w ws ih =>
    by_cases hw : w = .exited
    · subst hw
      have : allExited ws = false := by simpa [allExited] using h
      obtain ⟨i, u, hu, hne⟩ := ih this
      exact ⟨i + 1, u, by simpa using hu, hne⟩
    · exact ⟨0, w, rfl, hw⟩

/-- Some action of the system itself (not the broker accepting a request, not the user calling Stop)
is enabled as long as Stop has been called and Serve or Stop has not returned. -/
theorem progress (s : Sys) (hi : SInv s) (hw : 1 ≤ s.workers.length) (hstop : s.stop ≠ .notCalled)
    (hnot : ¬ (s.serve = .returned ∧ s.stop = .returned)) :
    ∃ a, a.isSystem = true ∧ (step s a).isSome = true := by
  obtain ⟨cnt, nodup, proc, act, infl, pend, clo, ret, ex, pan, bar, st0, st1, st2⟩ := hi
  obtain ⟨w0, hw0⟩ : ∃ w0, s.workers[0]? = some w0 := by
    cases hws : s.workers with
    | nil => simp [hws] at hw
    | cons a t => exact ⟨a, rfl⟩
  cases hsv : s.serve with
  | running =>
    have := st0 (by rw [hsv]; rfl)
    have hq : s.stop = .atQuit := by rcases this with h | h; exact absurd h hstop; exact h
    exact ⟨.serveGotQuit, rfl, by simp [step, hsv, hq]⟩
  | gotQuit => exact ⟨.drainStart, rfl, by simp [step, hsv]⟩
  | unsubbed =>
    cases hin : s.inflight with
    | nil => exact ⟨.flushBarrier, rfl, by simp [step, hsv, hin]⟩
    | cons m rest => exact ⟨.deliver, rfl, by simp [step, hin]⟩
  | barrierWait =>
    have hbar : s.barrier = true := bar.mpr hsv
    have hncl : s.closed = false := by
      cases hc : s.closed with
      | false => rfl
      | true => have := clo.mp hc; rw [hsv] at this; simp [rank] at this
    cases hcb : s.cb with
    | idle =>
      cases hp : s.pending with
      | nil => exact ⟨.barrierFires, rfl, by simp [step, hsv, hbar, hp, hcb]⟩
      | cons m rest => exact ⟨.cbStart, rfl, by simp [step, hcb, hp]⟩
    | sent m => exact ⟨.callbackDone, rfl, by simp [step, hcb]⟩
    | sending m =>
      by_cases hroom : s.workC.length < s.q
      · exact ⟨.handlerEnqueue, rfl, by simp [step, hcb, hncl, hroom]⟩
      · cases w0 with
        | idle =>
          refine ⟨.workerTake 0, rfl, ?_⟩
          cases hq : s.workC with
          | nil => simp [step, hw0, hq, hcb, hncl]
          | cons x rest => simp [step, hw0, hq]
        | busy x => exact ⟨.workerReply 0, rfl, by simp [step, hw0]⟩
        | exited =>
          have := (ex (List.mem_of_getElem? hw0)).1
          rw [hncl] at this; cases this
  | barrierDone =>
    have := st1 (by rw [hsv]; simp [rank]) (by rw [hsv]; simp [rank])
    exact ⟨.sendResult, rfl, by simp [step, hsv, this]⟩
  | resultSent => exact ⟨.closeWorkC, rfl, by simp [step, hsv]⟩
  | closedQ =>
    have hcl : s.closed = true := clo.mpr (by rw [hsv]; simp [rank])
    cases hall : allExited s.workers with
    | true => exact ⟨.serveReturn, rfl, by simp [step, hsv, hall]⟩
    | false =>
      obtain ⟨i, u, hu, hne⟩ := not_allExited hall
      cases u with
      | idle =>
        cases hq : s.workC with
        | nil => exact ⟨.workerExit i, rfl, by simp [step, hu, hcl, hq]⟩
        | cons x rest => exact ⟨.workerTake i, rfl, by simp [step, hu, hq]⟩
      | busy x => exact ⟨.workerReply i, rfl, by simp [step, hu]⟩
      | exited => exact absurd rfl hne
  | returned =>
    have h2 := st2 (by rw [hsv]; simp [rank])
    have hg : s.stop = .gotResult := by
      rcases h2 with h | h
      · exact h
      · exact absurd ⟨hsv, h⟩ hnot
    exact ⟨.stopReturn, rfl, by simp [step, hg]⟩

/-! Termination measure. -/

def wkW : Wk → Nat | .idle => 1 | .busy _ => 2 | .exited => 0
def wsW : List Wk → Nat | [] => 0 | w :: ws => wkW w + wsW ws
def cbW : Cb → Nat | .idle => 0 | .sending _ => 5 | .sent _ => 1
def stopW : StopPc → Nat
  | .notCalled => 4 | .atQuit => 3 | .waitResult => 2 | .gotResult => 1 | .returned => 0

/-- The measure: every request still on its way weighs more the further it is from its reply,
every goroutine weighs the number of steps it has left. -/
def mu (s : Sys) : Nat :=
  7 * s.inflight.length + 6 * s.pending.length + cbW s.cb + 2 * s.workC.length + wsW s.workers
    + (7 - rank s.serve) + stopW s.stop

theorem wsW_set (ws : List Wk) (i : Nat) (u v : Wk) (h : ws[i]? = some u) :
    wsW (ws.set i v) + wkW u = wsW ws + wkW v := by
  induction ws generalizing i with
  | nil => simp at h
  | cons w ws ih =>
    cases i with
    | zero => simp at h; subst h; simp [wsW]; omega
    | succ i => simp at h; have := ih i h; simp [wsW]; omega

theorem mu_decreases {s s' : Sys} {a : Action} (hs : step s a = some s') (ha : ∀ m, a ≠ .arrive m) :
    mu s' < mu s := by
  cases a with
  | arrive m => exact absurd rfl (ha m)
  | deliver =>
    simp only [step] at hs; split at hs
    · rename_i m rest hm; cases hs; simp [mu, hm]; omega
    · cases hs
  | cbStart =>
    simp only [step] at hs; split at hs
    · rename_i m rest hcb hm; cases hs; simp [mu, hm, hcb, cbW]; omega
    · cases hs
  | handlerEnqueue =>
    simp only [step] at hs; split at hs
    · rename_i m hcb
      split at hs
      · cases hs; simp [mu, hcb, cbW]
      · split at hs
        · cases hs; simp [mu, hcb, cbW]; omega
        · cases hs
    · cases hs
  | callbackDone =>
    simp only [step] at hs; split at hs
    · rename_i m hcb; cases hs; simp [mu, hcb, cbW]
    · cases hs
  | workerTake i =>
    simp only [step] at hs; split at hs
    · rename_i hw
      split at hs
      · rename_i m rest hq; cases hs
        have := wsW_set s.workers i .idle (.busy m) hw
        simp [mu, hq, wkW] at this ⊢; omega
      · split at hs
        · rename_i m hcb
          split at hs
          · cases hs
          · cases hs
            have := wsW_set s.workers i .idle (.busy m) hw
            simp [mu, hcb, cbW, wkW] at this ⊢; omega
        · cases hs
    · cases hs
  | workerReply i =>
    simp only [step] at hs; split at hs
    · rename_i m hw; cases hs
      have := wsW_set s.workers i (.busy m) .idle hw
      simp [mu, wkW] at this ⊢; omega
    · cases hs
  | workerExit i =>
    simp only [step] at hs; split at hs
    · rename_i hw
      split at hs
      · cases hs
        have := wsW_set s.workers i .idle .exited hw
        simp [mu, wkW] at this ⊢; omega
      · cases hs
    · cases hs
  | stopCall =>
    simp only [step] at hs; split at hs
    · rename_i h; cases hs; simp [mu, h, stopW]
    · cases hs
  | serveGotQuit =>
    simp only [step] at hs; split at hs
    · rename_i h; cases hs; simp [mu, h.1, h.2, stopW, rank]
    · cases hs
  | drainStart =>
    simp only [step] at hs; split at hs
    · rename_i h; cases hs; simp [mu, h, rank]
    · cases hs
  | flushBarrier =>
    simp only [step] at hs; split at hs
    · rename_i h; cases hs; simp [mu, h.1, rank]
    · cases hs
  | barrierFires =>
    simp only [step] at hs; split at hs
    · rename_i h; cases hs; simp [mu, h.1, rank]
    · cases hs
  | sendResult =>
    simp only [step] at hs; split at hs
    · rename_i h; cases hs; simp [mu, h.1, h.2, stopW, rank]
    · cases hs
  | stopReturn =>
    simp only [step] at hs; split at hs
    · rename_i h; cases hs; simp [mu, h, stopW]
    · cases hs
  | closeWorkC =>
    simp only [step] at hs; split at hs
    · rename_i h; cases hs; simp [mu, h, rank]
    · cases hs
  | serveReturn =>
    simp only [step] at hs; split at hs
    · rename_i h; cases hs; simp [mu, h.1, rank]
    · cases hs


end FV.NS
