/- Invariants, progress and termination measure of the NATS server shutdown model (FV.Model.NatsServer). -/
import FV.Model.NatsServer
set_option linter.unusedSimpArgs false
namespace FV.NS

def wkMsgs : Wk → List Msg
  | .busy m | .locking m | .writing m | .overflow m | .written m | .publishing m => [m]
  | .idle | .exited => []
def cbMsgs : Cb → List Msg | .sending m => [m] | _ => []
/-- Everything a subscription holds: in flight at the broker, pending in nats.go, with its handler. -/
def subAll (sb : Sub) : List Msg := sb.inflight ++ sb.pending ++ cbMsgs sb.cb
def subCb (sb : Sub) : List Msg := cbMsgs sb.cb
/-- Concatenation of what each element holds. -/
def flat {α : Type} (f : α → List Msg) : List α → List Msg | [] => [] | x :: xs => f x ++ flat f xs
def busyList (ws : List Wk) : List Msg := flat wkMsgs ws
/-- The states in which a worker holds the processor's write mutex. -/
def holds : Wk → Bool
  | .writing _ | .overflow _ | .written _ => true
  | _ => false
def rank : ServePc → Nat
  | .running => 0 | .gotQuit => 1 | .unsubbed => 2 | .barrierWait => 3
  | .barrierDone => 4 | .resultSent => 5 | .closedQ => 6 | .returned => 7

/-- Where a request the server took over can be: with a handler, in the queue, with a worker, answered. -/
def held (s : Sys) : List Msg := flat subCb s.subs ++ s.workC ++ busyList s.workers ++ s.replied
/-- Where an accepted request can be. -/
def loc (s : Sys) : List Msg := flat subAll s.subs ++ s.workC ++ busyList s.workers ++ s.replied ++ s.dropped

theorem count_flat_set {α : Type} (f : α → List Msg) (m : Msg) (l : List α) (i : Nat) (u v : α) (h : l[i]? = some u) :
    (flat f (l.set i v)).count m + (f u).count m = (flat f l).count m + (f v).count m := by
  induction l generalizing i with
  | nil => simp at h
  | cons w ws ih =>
    cases i with
    | zero =>
      simp at h; subst h
      simp [flat, List.count_append]; omega
    | succ i =>
      simp at h
      have := ih i h
      simp [flat, List.count_append]; omega

theorem count_busy_set (m : Msg) (ws : List Wk) (i : Nat) (u v : Wk) (h : ws[i]? = some u) :
    (busyList (ws.set i v)).count m + (wkMsgs u).count m = (busyList ws).count m + (wkMsgs v).count m :=
  count_flat_set wkMsgs m ws i u v h

theorem forall_set {α : Type} {P : α → Prop} {l : List α} (i : Nat) (v : α) (h : ∀ x ∈ l, P x) (hv : P v) :
    ∀ x ∈ l.set i v, P x := by
  intro x hx
  rcases List.mem_or_eq_of_mem_set hx with h1 | h1
  · exact h x h1
  · rw [h1]; exact hv

theorem mem_set_exited (ws : List Wk) (i : Nat) (v : Wk) (h : Wk.exited ∈ ws.set i v) : Wk.exited ∈ ws ∨ v = .exited := by
  rcases List.mem_or_eq_of_mem_set h with h | h
  · exact Or.inl h
  · exact Or.inr h.symm

theorem all_exited_get {ws : List Wk} {i : Nat} {u : Wk} (h : ∀ w ∈ ws, w = .exited) (hg : ws[i]? = some u) : u = .exited :=
  h u (List.mem_of_getElem? hg)

theorem get_set {α : Type} (ws : List α) (i j : Nat) (u v : α) (h : ws[i]? = some u) :
    (ws.set i v)[j]? = if i = j then some v else ws[j]? := by
  rw [List.getElem?_set]
  by_cases e : i = j
  · subst e
    have : i < ws.length := by
      cases hl : decide (i < ws.length) with
      | true => exact of_decide_eq_true hl
      | false =>
        have : ¬ i < ws.length := of_decide_eq_false hl
        rw [List.getElem?_eq_none (by omega)] at h; cases h
    simp [this]
  · simp [e]

structure SInv (s : Sys) : Prop where
  gd : s.guarded = true
  lo : s.lastOnly = false
  cnt : ∀ m, (loc s).count m = s.arrived.count m
  hcnt : ∀ m, s.handed.count m = (held s).count m
  nodup : ∀ m, s.arrived.count m ≤ 1
  proc : ∀ m, s.processed.count m = (busyList s.workers).count m + s.replied.count m
  clo : s.closed = true ↔ 5 < rank s.serve
  cidle : s.closed = true → ∀ sb ∈ s.subs, sb.cb = .idle
  act : s.faulty = false → (s.active = true ↔ rank s.serve < 2)
  infl : s.faulty = false → 2 < rank s.serve → ∀ sb ∈ s.subs, sb.inflight = []
  pend : s.faulty = false → 3 < rank s.serve → ∀ sb ∈ s.subs, sb.pending = [] ∧ sb.cb = .idle
  drp : s.faulty = false → s.dropped = []
  ret : s.serve = .returned → ∀ w ∈ s.workers, w = .exited
  ex : .exited ∈ s.workers → s.closed = true ∧ s.workC = []
  pan : s.panicked = false
  bar : s.barrier = true ↔ s.serve = .barrierWait
  st0 : rank s.serve = 0 → s.stop = .notCalled ∨ s.stop = .atQuit
  st1 : 0 < rank s.serve → rank s.serve < 5 → s.stop = .waitResult
  st2 : 4 < rank s.serve → s.stop = .gotResult ∨ s.stop = .returned
  mu1 : ∀ (i : Nat) (w : Wk), s.workers[i]? = some w → holds w = true → s.wmu = some i
  mu2 : ∀ (i : Nat), s.wmu = some i → ∃ w, s.workers[i]? = some w ∧ holds w = true

syntax "cnt_tac" : tactic
macro_rules
  | `(tactic| cnt_tac) => `(tactic| (simp only [loc, held, subAll, subCb, cbMsgs, wkMsgs, busyList, flat, List.count_append, List.count_cons, List.count_nil] at * <;> omega))

theorem sinv_arrive (s s' : Sys) (j : Nat) (m : Msg) (hi : SInv s) (hs : step s (.arrive j m) = some s') : SInv s' := by
  obtain ⟨gd, lo, cnt, hcnt, nodup, proc, clo, cidle, act, infl, pend, drp, ret, ex, pan, bar, st0, st1, st2, mu1, mu2⟩ := hi
  simp only [step] at hs
  split at hs
  · rename_i sb hsb
    have hmem := List.mem_of_getElem? hsb
    split at hs
    · rename_i h
      cases hs
      have hf := fun x => count_flat_set subAll x s.subs j sb { sb with inflight := sb.inflight ++ [m] } hsb
      have hg := fun x => count_flat_set subCb x s.subs j sb { sb with inflight := sb.inflight ++ [m] } hsb
      refine ⟨gd, lo, ?_, ?_, ?_, proc, clo, ?_, act, ?_, ?_, drp, ret, ex, pan, bar, st0, st1, st2, mu1, mu2⟩
      · intro x
        have := cnt x
        have := hf x
        cnt_tac
      · intro x
        have := hcnt x
        have := hg x
        cnt_tac
      · intro x
        have := nodup x
        have h0 : s.arrived.count m = 0 := List.count_eq_zero.mpr h.2
        by_cases hx : m = x
        · subst hx; simp only [List.count_append, List.count_cons, List.count_nil] at *; simp; omega
        · simp only [List.count_append, List.count_cons, List.count_nil] at *; simp [hx]; omega
      · intro hc; exact forall_set j _ (cidle hc) (cidle hc sb hmem)
      · intro hf' h2
        have := (act hf').mp h.1
        simp at h2 ⊢; omega
      · intro hf' h2
        exact forall_set j _ (pend hf' h2) (pend hf' h2 sb hmem)
    · cases hs
  · cases hs

theorem sinv_fault (s s' : Sys) (hi : SInv s) (hs : step s .fault = some s') : SInv s' := by
  obtain ⟨gd, lo, cnt, hcnt, nodup, proc, clo, cidle, act, infl, pend, drp, ret, ex, pan, bar, st0, st1, st2, mu1, mu2⟩ := hi
  simp only [step] at hs
  split at hs
  · cases hs
  · cases hs
    refine ⟨gd, lo, cnt, hcnt, nodup, proc, clo, cidle, ?_, ?_, ?_, ?_, ret, ex, pan, bar, st0, st1, st2, mu1, mu2⟩ <;>
      (intro h; cases h)

theorem sinv_deliver (s s' : Sys) (j : Nat) (hi : SInv s) (hs : step s (.deliver j) = some s') : SInv s' := by
  obtain ⟨gd, lo, cnt, hcnt, nodup, proc, clo, cidle, act, infl, pend, drp, ret, ex, pan, bar, st0, st1, st2, mu1, mu2⟩ := hi
  simp only [step] at hs
  split at hs
  · rename_i sb hsb
    have hmem := List.mem_of_getElem? hsb
    split at hs
    · rename_i m rest hm
      cases hs
      have hf := fun x => count_flat_set subAll x s.subs j sb { sb with inflight := rest, pending := sb.pending ++ [m] } hsb
      have hg := fun x => count_flat_set subCb x s.subs j sb { sb with inflight := rest, pending := sb.pending ++ [m] } hsb
      refine ⟨gd, lo, ?_, ?_, nodup, proc, clo, ?_, act, ?_, ?_, drp, ret, ex, pan, bar, st0, st1, st2, mu1, mu2⟩
      · intro x
        have := cnt x
        have := hf x
        rw [subAll, hm] at this
        cnt_tac
      · intro x
        have := hcnt x
        have := hg x
        cnt_tac
      · intro hc; exact forall_set j _ (cidle hc) (cidle hc sb hmem)
      · intro hf' h2; have := infl hf' h2 sb hmem; simp [hm] at this
      · intro hf' h2; dsimp only at h2; have := infl hf' (by omega) sb hmem; simp [hm] at this
    · cases hs
  · cases hs

theorem sinv_cbStart (s s' : Sys) (j : Nat) (hi : SInv s) (hs : step s (.cbStart j) = some s') : SInv s' := by
  obtain ⟨gd, lo, cnt, hcnt, nodup, proc, clo, cidle, act, infl, pend, drp, ret, ex, pan, bar, st0, st1, st2, mu1, mu2⟩ := hi
  simp only [step] at hs
  split at hs
  · rename_i sb hsb
    have hmem := List.mem_of_getElem? hsb
    split at hs
    · rename_i m rest hcb hm
      split at hs
      · rename_i hc
        cases hs
        have hnf : s.faulty = true := by
          cases hf : s.faulty with
          | true => rfl
          | false =>
            have := (pend hf (by have := clo.mp hc.2; omega) sb hmem).1
            simp [hm] at this
        have hf := fun x => count_flat_set subAll x s.subs j sb { sb with pending := rest } hsb
        have hg := fun x => count_flat_set subCb x s.subs j sb { sb with pending := rest } hsb
        refine ⟨gd, lo, ?_, ?_, nodup, proc, clo, ?_, act, ?_, ?_, ?_, ret, ex, pan, bar, st0, st1, st2, mu1, mu2⟩
        · intro x
          have := cnt x
          have := hf x
          rw [subAll, hm] at this
          cnt_tac
        · intro x
          have := hcnt x
          have := hg x
          cnt_tac
        · intro hc'; exact forall_set j _ (cidle hc') (cidle hc' sb hmem)
        · intro hf'; rw [hnf] at hf'; cases hf'
        · intro hf'; rw [hnf] at hf'; cases hf'
        · intro hf'; rw [hnf] at hf'; cases hf'
      · rename_i hc
        cases hs
        have hncl : s.closed = false := by
          cases hcl : s.closed with
          | false => rfl
          | true => exact absurd ⟨gd, hcl⟩ hc
        have hf := fun x => count_flat_set subAll x s.subs j sb { sb with cb := .sending m, pending := rest } hsb
        have hg := fun x => count_flat_set subCb x s.subs j sb { sb with cb := .sending m, pending := rest } hsb
        refine ⟨gd, lo, ?_, ?_, nodup, proc, clo, ?_, act, ?_, ?_, drp, ret, ex, pan, bar, st0, st1, st2, mu1, mu2⟩
        · intro x
          have := cnt x
          have := hf x
          rw [subAll, hm, hcb] at this
          cnt_tac
        · intro x
          have := hcnt x
          have := hg x
          rw [subCb, hcb] at this
          cnt_tac
        · intro h; rw [hncl] at h; cases h
        · intro hf' h2; exact forall_set j _ (infl hf' h2) (infl hf' h2 sb hmem)
        · intro hf' h2; have := (pend hf' h2 sb hmem).1; simp [hm] at this
    · cases hs
  · cases hs

theorem sinv_handlerEnqueue (s s' : Sys) (j : Nat) (hi : SInv s) (hs : step s (.handlerEnqueue j) = some s') : SInv s' := by
  obtain ⟨gd, lo, cnt, hcnt, nodup, proc, clo, cidle, act, infl, pend, drp, ret, ex, pan, bar, st0, st1, st2, mu1, mu2⟩ := hi
  simp only [step] at hs
  split at hs
  · rename_i sb hsb
    have hmem := List.mem_of_getElem? hsb
    split at hs
    · rename_i m hcb
      have hncl : s.closed = false := by
        cases hcl : s.closed with
        | false => rfl
        | true => have := cidle hcl sb hmem; rw [hcb] at this; cases this
      split at hs
      · rename_i hc; rw [hncl] at hc; cases hc
      · split at hs
        · cases hs
          have hf := fun x => count_flat_set subAll x s.subs j sb { sb with cb := .sent m } hsb
          have hg := fun x => count_flat_set subCb x s.subs j sb { sb with cb := .sent m } hsb
          refine ⟨gd, lo, ?_, ?_, nodup, proc, clo, ?_, act, ?_, ?_, drp, ret, ?_, pan, bar, st0, st1, st2, mu1, mu2⟩
          · intro x
            have := cnt x
            have := hf x
            rw [subAll, hcb] at this
            cnt_tac
          · intro x
            have := hcnt x
            have := hg x
            rw [subCb, hcb] at this
            cnt_tac
          · intro h; rw [hncl] at h; cases h
          · intro hf' h2; exact forall_set j _ (infl hf' h2) (infl hf' h2 sb hmem)
          · intro hf' h2; have := (pend hf' h2 sb hmem).2; rw [hcb] at this; cases this
          · intro h2; dsimp only at h2 ⊢
            have := (ex h2).1
            rw [hncl] at this; cases this
        · cases hs
    · cases hs
  · cases hs

theorem sinv_callbackDone (s s' : Sys) (j : Nat) (hi : SInv s) (hs : step s (.callbackDone j) = some s') : SInv s' := by
  obtain ⟨gd, lo, cnt, hcnt, nodup, proc, clo, cidle, act, infl, pend, drp, ret, ex, pan, bar, st0, st1, st2, mu1, mu2⟩ := hi
  simp only [step] at hs
  split at hs
  · rename_i sb hsb
    have hmem := List.mem_of_getElem? hsb
    split at hs
    · rename_i m hcb
      cases hs
      have hf := fun x => count_flat_set subAll x s.subs j sb { sb with cb := .idle } hsb
      have hg := fun x => count_flat_set subCb x s.subs j sb { sb with cb := .idle } hsb
      refine ⟨gd, lo, ?_, ?_, nodup, proc, clo, ?_, act, ?_, ?_, drp, ret, ex, pan, bar, st0, st1, st2, mu1, mu2⟩
      · intro x
        have := cnt x
        have := hf x
        rw [subAll, hcb] at this
        cnt_tac
      · intro x
        have := hcnt x
        have := hg x
        rw [subCb, hcb] at this
        cnt_tac
      · intro hc; exact forall_set j _ (cidle hc) rfl
      · intro hf' h2; exact forall_set j _ (infl hf' h2) (infl hf' h2 sb hmem)
      · intro hf' h2; exact forall_set j _ (pend hf' h2) ⟨(pend hf' h2 sb hmem).1, rfl⟩
    · cases hs
  · cases hs


theorem mu_set_same (ws : List Wk) (wmu : Option Nat) (i : Nat) (u v : Wk) (hw : ws[i]? = some u) (hh : holds v = holds u)
    (mu1 : ∀ (j : Nat) (w : Wk), ws[j]? = some w → holds w = true → wmu = some j)
    (mu2 : ∀ (j : Nat), wmu = some j → ∃ w, ws[j]? = some w ∧ holds w = true) :
    (∀ (j : Nat) (w : Wk), (ws.set i v)[j]? = some w → holds w = true → wmu = some j) ∧
    (∀ (j : Nat), wmu = some j → ∃ w, (ws.set i v)[j]? = some w ∧ holds w = true) := by
  constructor
  · intro j w hj hhw
    rw [get_set ws i j u v hw] at hj
    by_cases e : i = j
    · subst e; simp at hj; subst hj; exact mu1 i u hw (by rw [← hh]; exact hhw)
    · simp [e] at hj; exact mu1 j w hj hhw
  · intro j hj
    obtain ⟨w0, h0, hh0⟩ := mu2 j hj
    by_cases e : i = j
    · subst e
      rw [hw] at h0; cases h0
      exact ⟨v, by rw [get_set ws i i u v hw]; simp, by rw [hh]; exact hh0⟩
    · exact ⟨w0, by rw [get_set ws i j u v hw]; simp [e]; exact h0, hh0⟩

/-- A worker step that changes neither the request the worker carries nor whether it holds the mutex. -/
theorem sinv_wk_pure (s : Sys) (i : Nat) (u v : Wk) (hi : SInv s) (hw : s.workers[i]? = some u)
    (hm : wkMsgs v = wkMsgs u) (hh : holds v = holds u) (hv : v ≠ .exited) (hu : u ≠ .exited) :
    SInv { s with workers := s.workers.set i v } := by
  obtain ⟨gd, lo, cnt, hcnt, nodup, proc, clo, cidle, act, infl, pend, drp, ret, ex, pan, bar, st0, st1, st2, mu1, mu2⟩ := hi
  have hnr : s.serve ≠ .returned := by
    intro h; exact hu (all_exited_get (ret h) hw)
  have hb := fun x => count_busy_set x s.workers i u v hw
  have hmu := mu_set_same s.workers s.wmu i u v hw hh mu1 mu2
  refine ⟨gd, lo, ?_, ?_, nodup, ?_, clo, cidle, act, infl, pend, drp, ?_, ?_, pan, bar, st0, st1, st2, hmu.1, hmu.2⟩
  · intro x
    have := cnt x
    have := hb x
    rw [hm] at this
    cnt_tac
  · intro x
    have := hcnt x
    have := hb x
    rw [hm] at this
    cnt_tac
  · intro x
    have := proc x
    have := hb x
    rw [hm] at this
    cnt_tac
  · intro h; exact absurd h hnr
  · intro h2; dsimp only at h2 ⊢
    rcases mem_set_exited _ _ _ h2 with h3 | h3
    · exact ex h3
    · exact absurd h3 hv

theorem sinv_workerTake (s s' : Sys) (i : Nat) (hi : SInv s) (hs : step s (.workerTake i) = some s') : SInv s' := by
  obtain ⟨gd, lo, cnt, hcnt, nodup, proc, clo, cidle, act, infl, pend, drp, ret, ex, pan, bar, st0, st1, st2, mu1, mu2⟩ := hi
  simp only [step] at hs
  split at hs
  · rename_i hw
    have hnr : s.serve ≠ .returned := by
      intro h; have := all_exited_get (ret h) hw; cases this
    split at hs
    · rename_i m rest hq
      cases hs
      have hb := fun x => count_busy_set x s.workers i .idle (.busy m) hw
      have hmu := mu_set_same s.workers s.wmu i .idle (.busy m) hw rfl mu1 mu2
      refine ⟨gd, lo, ?_, ?_, nodup, ?_, clo, cidle, act, infl, pend, drp, ?_, ?_, pan, bar, st0, st1, st2, hmu.1, hmu.2⟩
      · intro x
        have := cnt x
        have := hb x
        rw [loc, hq] at *
        cnt_tac
      · intro x
        have := hcnt x
        have := hb x
        rw [held, hq] at *
        cnt_tac
      · intro x
        have := proc x
        have := hb x
        cnt_tac
      · intro h; exact absurd h hnr
      · intro h2; dsimp only at h2 ⊢
        rcases mem_set_exited _ _ _ h2 with h3 | h3
        · have := (ex h3).2; simp [hq] at this
        · cases h3
    · cases hs
  · cases hs

theorem sinv_workerHandoff (s s' : Sys) (i j : Nat) (hi : SInv s) (hs : step s (.workerHandoff i j) = some s') : SInv s' := by
  obtain ⟨gd, lo, cnt, hcnt, nodup, proc, clo, cidle, act, infl, pend, drp, ret, ex, pan, bar, st0, st1, st2, mu1, mu2⟩ := hi
  simp only [step] at hs
  split at hs
  · rename_i sb hw hsb
    have hmem := List.mem_of_getElem? hsb
    have hnr : s.serve ≠ .returned := by
      intro h; have := all_exited_get (ret h) hw; cases this
    split at hs
    · rename_i m hcb
      split at hs
      · cases hs
      · rename_i hc
        cases hs
        have hncl : s.closed = false := by
          cases hcl : s.closed with
          | false => rfl
          | true => exact absurd (Or.inl hcl) hc
        have hq : s.workC = [] := by
          cases hq : s.workC with
          | nil => rfl
          | cons a t => exact absurd (Or.inr (by rw [hq]; simp)) hc
        have hb := fun x => count_busy_set x s.workers i .idle (.busy m) hw
        have hf := fun x => count_flat_set subAll x s.subs j sb { sb with cb := .sent m } hsb
        have hg := fun x => count_flat_set subCb x s.subs j sb { sb with cb := .sent m } hsb
        have hmu := mu_set_same s.workers s.wmu i .idle (.busy m) hw rfl mu1 mu2
        refine ⟨gd, lo, ?_, ?_, nodup, ?_, clo, ?_, act, ?_, ?_, drp, ?_, ?_, pan, bar, st0, st1, st2, hmu.1, hmu.2⟩
        · intro x
          have := cnt x
          have := hb x
          have := hf x
          rw [subAll, hcb] at this
          cnt_tac
        · intro x
          have := hcnt x
          have := hb x
          have := hg x
          rw [subCb, hcb] at this
          cnt_tac
        · intro x
          have := proc x
          have := hb x
          cnt_tac
        · intro h; rw [hncl] at h; cases h
        · intro hf' h2; exact forall_set j _ (infl hf' h2) (infl hf' h2 sb hmem)
        · intro hf' h2; have := (pend hf' h2 sb hmem).2; rw [hcb] at this; cases this
        · intro h; exact absurd h hnr
        · intro h2; dsimp only at h2 ⊢
          rcases mem_set_exited _ _ _ h2 with h3 | h3
          · have := (ex h3).1
            rw [hncl] at this; cases this
          · cases h3
    · cases hs
  · cases hs

theorem sinv_workerHandlerDone (s s' : Sys) (i : Nat) (hi : SInv s) (hs : step s (.workerHandlerDone i) = some s') : SInv s' := by
  simp only [step] at hs
  split at hs
  · rename_i m hw; cases hs
    exact sinv_wk_pure s i (.busy m) (.locking m) hi hw rfl rfl (by intro h; cases h) (by intro h; cases h)
  · cases hs

theorem sinv_workerWriteOk (s s' : Sys) (i : Nat) (hi : SInv s) (hs : step s (.workerWriteOk i) = some s') : SInv s' := by
  simp only [step] at hs
  split at hs
  · rename_i m hw; cases hs
    exact sinv_wk_pure s i (.writing m) (.written m) hi hw rfl rfl (by intro h; cases h) (by intro h; cases h)
  · cases hs

theorem sinv_workerOverflow (s s' : Sys) (i : Nat) (hi : SInv s) (hs : step s (.workerOverflow i) = some s') : SInv s' := by
  simp only [step] at hs
  split at hs
  · rename_i m hw; cases hs
    exact sinv_wk_pure s i (.writing m) (.overflow m) hi hw rfl rfl (by intro h; cases h) (by intro h; cases h)
  · cases hs

theorem sinv_workerErrReply (s s' : Sys) (i : Nat) (hi : SInv s) (hs : step s (.workerErrReply i) = some s') : SInv s' := by
  simp only [step] at hs
  split at hs
  · rename_i m hw
    split at hs
    · cases hs
    · cases hs
      exact sinv_wk_pure s i (.overflow m) (.written m) hi hw rfl rfl (by intro h; cases h) (by intro h; cases h)
  · cases hs

theorem sinv_workerLock (s s' : Sys) (i : Nat) (hi : SInv s) (hs : step s (.workerLock i) = some s') : SInv s' := by
  simp only [step] at hs
  split at hs
  · rename_i m hw
    split at hs
    · rename_i hfree
      cases hs
      -- same as a pure step for everything but the mutex
      have h0 := sinv_wk_pure s i (.locking m) (.locking m) hi hw rfl rfl (by intro h; cases h) (by intro h; cases h)
      obtain ⟨gd, lo, cnt, hcnt, nodup, proc, clo, cidle, act, infl, pend, drp, ret, ex, pan, bar, st0, st1, st2, mu1, mu2⟩ := hi
      have hnr : s.serve ≠ .returned := by
        intro h; have := all_exited_get (ret h) hw; cases this
      have hb := fun x => count_busy_set x s.workers i (.locking m) (.writing m) hw
      refine ⟨gd, lo, ?_, ?_, nodup, ?_, clo, cidle, act, infl, pend, drp, ?_, ?_, pan, bar, st0, st1, st2, ?_, ?_⟩
      · intro x
        have := cnt x
        have := hb x
        cnt_tac
      · intro x
        have := hcnt x
        have := hb x
        cnt_tac
      · intro x
        have := proc x
        have := hb x
        cnt_tac
      · intro h; exact absurd h hnr
      · intro h2; dsimp only at h2 ⊢
        rcases mem_set_exited _ _ _ h2 with h3 | h3
        · exact ex h3
        · cases h3
      · intro j w hj hhw
        dsimp only at hj ⊢
        rw [get_set s.workers i j _ _ hw] at hj
        by_cases e : i = j
        · subst e; rfl
        · simp [e] at hj
          have := mu1 j w hj hhw
          rw [hfree] at this; cases this
      · intro j hj
        dsimp only at hj ⊢
        cases hj
        exact ⟨.writing m, by rw [get_set s.workers i i _ _ hw]; simp, rfl⟩
    · cases hs
  · cases hs

theorem sinv_workerUnlock (s s' : Sys) (i : Nat) (hi : SInv s) (hs : step s (.workerUnlock i) = some s') : SInv s' := by
  simp only [step] at hs
  split at hs
  · rename_i m hw
    cases hs
    obtain ⟨gd, lo, cnt, hcnt, nodup, proc, clo, cidle, act, infl, pend, drp, ret, ex, pan, bar, st0, st1, st2, mu1, mu2⟩ := hi
    have hnr : s.serve ≠ .returned := by
      intro h; have := all_exited_get (ret h) hw; cases this
    have hb := fun x => count_busy_set x s.workers i (.written m) (.publishing m) hw
    have hown := mu1 i (.written m) hw rfl
    refine ⟨gd, lo, ?_, ?_, nodup, ?_, clo, cidle, act, infl, pend, drp, ?_, ?_, pan, bar, st0, st1, st2, ?_, ?_⟩
    · intro x
      have := cnt x
      have := hb x
      cnt_tac
    · intro x
      have := hcnt x
      have := hb x
      cnt_tac
    · intro x
      have := proc x
      have := hb x
      cnt_tac
    · intro h; exact absurd h hnr
    · intro h2; dsimp only at h2 ⊢
      rcases mem_set_exited _ _ _ h2 with h3 | h3
      · exact ex h3
      · cases h3
    · intro j w hj hhw
      dsimp only at hj ⊢
      rw [get_set s.workers i j _ _ hw] at hj
      by_cases e : i = j
      · subst e; simp at hj; subst hj; cases hhw
      · simp [e] at hj
        have := mu1 j w hj hhw
        rw [hown] at this; cases this; exact absurd rfl e
    · intro j hj; cases hj
  · cases hs

theorem sinv_workerReply (s s' : Sys) (i : Nat) (hi : SInv s) (hs : step s (.workerReply i) = some s') : SInv s' := by
  obtain ⟨gd, lo, cnt, hcnt, nodup, proc, clo, cidle, act, infl, pend, drp, ret, ex, pan, bar, st0, st1, st2, mu1, mu2⟩ := hi
  simp only [step] at hs
  split at hs
  · rename_i m hw
    have hnr : s.serve ≠ .returned := by
      intro h; have := all_exited_get (ret h) hw; cases this
    cases hs
    have hb := fun x => count_busy_set x s.workers i (.publishing m) .idle hw
    have hmu := mu_set_same s.workers s.wmu i (.publishing m) .idle hw rfl mu1 mu2
    refine ⟨gd, lo, ?_, ?_, nodup, ?_, clo, cidle, act, infl, pend, drp, ?_, ?_, pan, bar, st0, st1, st2, hmu.1, hmu.2⟩
    · intro x
      have := cnt x
      have := hb x
      cnt_tac
    · intro x
      have := hcnt x
      have := hb x
      cnt_tac
    · intro x
      have := proc x
      have := hb x
      cnt_tac
    · intro h; exact absurd h hnr
    · intro h2; dsimp only at h2 ⊢
      rcases mem_set_exited _ _ _ h2 with h3 | h3
      · exact ex h3
      · cases h3
  · cases hs

theorem sinv_workerExit (s s' : Sys) (i : Nat) (hi : SInv s) (hs : step s (.workerExit i) = some s') : SInv s' := by
  obtain ⟨gd, lo, cnt, hcnt, nodup, proc, clo, cidle, act, infl, pend, drp, ret, ex, pan, bar, st0, st1, st2, mu1, mu2⟩ := hi
  simp only [step] at hs
  split at hs
  · rename_i hw
    have hnr : s.serve ≠ .returned := by
      intro h; have := all_exited_get (ret h) hw; cases this
    split at hs
    · rename_i hc
      cases hs
      have hb := fun x => count_busy_set x s.workers i .idle .exited hw
      have hmu := mu_set_same s.workers s.wmu i .idle .exited hw rfl mu1 mu2
      refine ⟨gd, lo, ?_, ?_, nodup, ?_, clo, cidle, act, infl, pend, drp, ?_, ?_, pan, bar, st0, st1, st2, hmu.1, hmu.2⟩
      · intro x
        have := cnt x
        have := hb x
        cnt_tac
      · intro x
        have := hcnt x
        have := hb x
        cnt_tac
      · intro x
        have := proc x
        have := hb x
        cnt_tac
      · intro h; exact absurd h hnr
      · intro _; exact hc
    · cases hs
  · cases hs




theorem sinv_stopCall (s s' : Sys) (hi : SInv s) (hs : step s .stopCall = some s') : SInv s' := by
  obtain ⟨gd, lo, cnt, hcnt, nodup, proc, clo, cidle, act, infl, pend, drp, ret, ex, pan, bar, st0, st1, st2, mu1, mu2⟩ := hi
  simp only [step] at hs
  split at hs
  · rename_i h
    cases hs
    refine ⟨gd, lo, cnt, hcnt, nodup, proc, clo, cidle, act, infl, pend, drp, ret, ex, pan, bar, ?_, ?_, ?_, mu1, mu2⟩
    · intro _; exact Or.inr rfl
    · intro h1 h2; have := st1 h1 h2; simp [h] at this
    · intro h1; have := st2 h1; simp [h] at this
  · cases hs

theorem sinv_serveGotQuit (s s' : Sys) (hi : SInv s) (hs : step s .serveGotQuit = some s') : SInv s' := by
  obtain ⟨gd, lo, cnt, hcnt, nodup, proc, clo, cidle, act, infl, pend, drp, ret, ex, pan, bar, st0, st1, st2, mu1, mu2⟩ := hi
  simp only [step] at hs
  split at hs
  · rename_i h
    cases hs
    refine ⟨gd, lo, cnt, hcnt, nodup, proc, ?_, ?_, ?_, ?_, ?_, drp, ?_, ?_, pan, ?_, ?_, ?_, ?_, mu1, mu2⟩ <;> dsimp only <;> simp_all [rank, drained, Sub.quiet, List.all_eq_true]
  · cases hs

theorem sinv_drainStart (s s' : Sys) (hi : SInv s) (hs : step s .drainStart = some s') : SInv s' := by
  obtain ⟨gd, lo, cnt, hcnt, nodup, proc, clo, cidle, act, infl, pend, drp, ret, ex, pan, bar, st0, st1, st2, mu1, mu2⟩ := hi
  simp only [step] at hs
  split at hs
  · rename_i h
    cases hs
    refine ⟨gd, lo, cnt, hcnt, nodup, proc, ?_, ?_, ?_, ?_, ?_, drp, ?_, ?_, pan, ?_, ?_, ?_, ?_, mu1, mu2⟩ <;> dsimp only <;> simp_all [rank, drained, Sub.quiet, List.all_eq_true]
  · cases hs

theorem sinv_drainStartIgnored (s s' : Sys) (hi : SInv s) (hs : step s .drainStartIgnored = some s') : SInv s' := by
  obtain ⟨gd, lo, cnt, hcnt, nodup, proc, clo, cidle, act, infl, pend, drp, ret, ex, pan, bar, st0, st1, st2, mu1, mu2⟩ := hi
  simp only [step] at hs
  split at hs
  · rename_i h
    cases hs
    refine ⟨gd, lo, cnt, hcnt, nodup, proc, ?_, ?_, ?_, ?_, ?_, drp, ?_, ?_, pan, ?_, ?_, ?_, ?_, mu1, mu2⟩ <;> dsimp only <;> simp_all [rank, drained, Sub.quiet, List.all_eq_true]
  · cases hs

theorem sinv_flushBarrier (s s' : Sys) (hi : SInv s) (hs : step s .flushBarrier = some s') : SInv s' := by
  obtain ⟨gd, lo, cnt, hcnt, nodup, proc, clo, cidle, act, infl, pend, drp, ret, ex, pan, bar, st0, st1, st2, mu1, mu2⟩ := hi
  simp only [step] at hs
  split at hs
  · rename_i h
    cases hs
    refine ⟨gd, lo, cnt, hcnt, nodup, proc, ?_, ?_, ?_, ?_, ?_, drp, ?_, ?_, pan, ?_, ?_, ?_, ?_, mu1, mu2⟩ <;> dsimp only <;> simp_all [rank, drained, Sub.quiet, List.all_eq_true]
  · cases hs

theorem sinv_barrierFires (s s' : Sys) (hi : SInv s) (hs : step s .barrierFires = some s') : SInv s' := by
  obtain ⟨gd, lo, cnt, hcnt, nodup, proc, clo, cidle, act, infl, pend, drp, ret, ex, pan, bar, st0, st1, st2, mu1, mu2⟩ := hi
  simp only [step] at hs
  split at hs
  · rename_i h
    cases hs
    refine ⟨gd, lo, cnt, hcnt, nodup, proc, ?_, ?_, ?_, ?_, ?_, drp, ?_, ?_, pan, ?_, ?_, ?_, ?_, mu1, mu2⟩ <;> dsimp only <;> simp_all [rank, drained, Sub.quiet, List.all_eq_true]
  · cases hs

theorem sinv_drainFail (s s' : Sys) (hi : SInv s) (hs : step s .drainFail = some s') : SInv s' := by
  obtain ⟨gd, lo, cnt, hcnt, nodup, proc, clo, cidle, act, infl, pend, drp, ret, ex, pan, bar, st0, st1, st2, mu1, mu2⟩ := hi
  simp only [step] at hs
  split at hs
  · rename_i h
    cases hs
    obtain ⟨hf, h2⟩ := h
    rcases h2 with h2 | h2 | h2 <;>
      (refine ⟨gd, lo, cnt, hcnt, nodup, proc, ?_, ?_, ?_, ?_, ?_, drp, ?_, ?_, pan, ?_, ?_, ?_, ?_, mu1, mu2⟩ <;> dsimp only <;> simp_all [rank, drained, Sub.quiet, List.all_eq_true])
  · cases hs

theorem sinv_sendResult (s s' : Sys) (hi : SInv s) (hs : step s .sendResult = some s') : SInv s' := by
  obtain ⟨gd, lo, cnt, hcnt, nodup, proc, clo, cidle, act, infl, pend, drp, ret, ex, pan, bar, st0, st1, st2, mu1, mu2⟩ := hi
  simp only [step] at hs
  split at hs
  · rename_i h
    cases hs
    refine ⟨gd, lo, cnt, hcnt, nodup, proc, ?_, ?_, ?_, ?_, ?_, drp, ?_, ?_, pan, ?_, ?_, ?_, ?_, mu1, mu2⟩ <;> dsimp only <;> simp_all [rank, drained, Sub.quiet, List.all_eq_true]
  · cases hs

theorem sinv_stopReturn (s s' : Sys) (hi : SInv s) (hs : step s .stopReturn = some s') : SInv s' := by
  obtain ⟨gd, lo, cnt, hcnt, nodup, proc, clo, cidle, act, infl, pend, drp, ret, ex, pan, bar, st0, st1, st2, mu1, mu2⟩ := hi
  simp only [step] at hs
  split at hs
  · rename_i h
    cases hs
    refine ⟨gd, lo, cnt, hcnt, nodup, proc, clo, cidle, act, infl, pend, drp, ret, ex, pan, bar, ?_, ?_, ?_, mu1, mu2⟩
    · intro h1; have := st0 h1; simp [h] at this
    · intro h1 h2; have := st1 h1 h2; simp [h] at this
    · intro _; exact Or.inr rfl
  · cases hs

theorem sinv_closeWorkC (s s' : Sys) (hi : SInv s) (hs : step s .closeWorkC = some s') : SInv s' := by
  obtain ⟨gd, lo, cnt, hcnt, nodup, proc, clo, cidle, act, infl, pend, drp, ret, ex, pan, bar, st0, st1, st2, mu1, mu2⟩ := hi
  simp only [step] at hs
  split at hs
  · rename_i h
    cases hs
    refine ⟨gd, lo, cnt, hcnt, nodup, proc, ?_, ?_, ?_, ?_, ?_, drp, ?_, ?_, pan, ?_, ?_, ?_, ?_, mu1, mu2⟩ <;> dsimp only <;> simp_all [rank, drained, Sub.quiet, List.all_eq_true]
  · cases hs

theorem sinv_serveReturn (s s' : Sys) (hi : SInv s) (hs : step s .serveReturn = some s') : SInv s' := by
  obtain ⟨gd, lo, cnt, hcnt, nodup, proc, clo, cidle, act, infl, pend, drp, ret, ex, pan, bar, st0, st1, st2, mu1, mu2⟩ := hi
  simp only [step] at hs
  split at hs
  · rename_i h
    cases hs
    refine ⟨gd, lo, cnt, hcnt, nodup, proc, ?_, ?_, ?_, ?_, ?_, drp, ?_, ?_, pan, ?_, ?_, ?_, ?_, mu1, mu2⟩ <;> dsimp only <;> simp_all [rank, drained, Sub.quiet, List.all_eq_true, allExited]
    exact h.2
  · cases hs

theorem sinv_step (s s' : Sys) (a : Action) (hi : SInv s) (hs : step s a = some s') : SInv s' := by
  cases a with
  | arrive j m => exact sinv_arrive s s' j m hi hs
  | fault => exact sinv_fault s s' hi hs
  | deliver j => exact sinv_deliver s s' j hi hs
  | cbStart j => exact sinv_cbStart s s' j hi hs
  | handlerEnqueue j => exact sinv_handlerEnqueue s s' j hi hs
  | callbackDone j => exact sinv_callbackDone s s' j hi hs
  | workerTake i => exact sinv_workerTake s s' i hi hs
  | workerHandoff i j => exact sinv_workerHandoff s s' i j hi hs
  | workerHandlerDone i => exact sinv_workerHandlerDone s s' i hi hs
  | workerLock i => exact sinv_workerLock s s' i hi hs
  | workerWriteOk i => exact sinv_workerWriteOk s s' i hi hs
  | workerOverflow i => exact sinv_workerOverflow s s' i hi hs
  | workerErrReply i => exact sinv_workerErrReply s s' i hi hs
  | workerUnlock i => exact sinv_workerUnlock s s' i hi hs
  | workerReply i => exact sinv_workerReply s s' i hi hs
  | workerExit i => exact sinv_workerExit s s' i hi hs
  | stopCall => exact sinv_stopCall s s' hi hs
  | serveGotQuit => exact sinv_serveGotQuit s s' hi hs
  | drainStart => exact sinv_drainStart s s' hi hs
  | drainStartIgnored => exact sinv_drainStartIgnored s s' hi hs
  | flushBarrier => exact sinv_flushBarrier s s' hi hs
  | barrierFires => exact sinv_barrierFires s s' hi hs
  | drainFail => exact sinv_drainFail s s' hi hs
  | sendResult => exact sinv_sendResult s s' hi hs
  | stopReturn => exact sinv_stopReturn s s' hi hs
  | closeWorkC => exact sinv_closeWorkC s s' hi hs
  | serveReturn => exact sinv_serveReturn s s' hi hs

theorem flat_replicate_nil {α : Type} (f : α → List Msg) (x : α) (hx : f x = []) (n : Nat) : flat f (List.replicate n x) = [] := by
  induction n with
  | zero => rfl
  | succ n ih => simp [List.replicate_succ, flat, hx, ih]

theorem sinv_init (re : Bool) (w q k : Nat) : SInv (initP true re false w q k) := by
  have h1 : flat subAll (List.replicate k (⟨[], [], .idle⟩ : Sub)) = [] := flat_replicate_nil _ _ rfl k
  have h2 : flat subCb (List.replicate k (⟨[], [], .idle⟩ : Sub)) = [] := flat_replicate_nil _ _ rfl k
  have h3 : busyList (List.replicate w Wk.idle) = [] := flat_replicate_nil _ _ rfl w
  refine ⟨rfl, rfl, ?_, ?_, ?_, ?_, ?_, ?_, ?_, ?_, ?_, ?_, ?_, ?_, rfl, ?_, ?_, ?_, ?_, ?_, ?_⟩ <;>
    simp [initP, loc, held, rank, h1, h2, h3]
  intro i w0 h
  have : w0 ∈ List.replicate w Wk.idle := List.mem_of_getElem? h
  rw [(List.mem_replicate.mp this).2]; rfl



/-! Reachability, parameters, monotonicity. -/

def ReachableP (g re lo : Bool) (w q k : Nat) (s : Sys) : Prop := ∃ as, run (initP g re lo w q k) as = some s
/-- Reachable in the model of the code as it is (guarded close, no re-locking, the drain waits for every
subscription): w workers, queue length q, k subjects. -/
def Reachable (w q k : Nat) (s : Sys) : Prop := ReachableP true false false w q k s

theorem run_append (s : Sys) (as bs : List Action) :
    run s (as ++ bs) = (run s as).bind (fun s' => run s' bs) := by
  induction as generalizing s with
  | nil => simp [run]
  | cons a as ih =>
    simp only [List.cons_append, run]
    cases step s a with
    | none => simp
    | some s' => simpa using ih s'

theorem reachable_run {g re lo : Bool} {w q k : Nat} {s s' : Sys} {as : List Action} (hr : ReachableP g re lo w q k s) (h : run s as = some s') :
    ReachableP g re lo w q k s' := by
  obtain ⟨bs, hb⟩ := hr
  exact ⟨bs ++ as, by rw [run_append, hb]; simpa using h⟩

theorem reachable_step {g re lo : Bool} {w q k : Nat} {s s' : Sys} {a : Action} (hr : ReachableP g re lo w q k s) (h : step s a = some s') :
    ReachableP g re lo w q k s' :=
  reachable_run (as := [a]) hr (by simp [run, h])

theorem run_sinv {s s' : Sys} {as : List Action} (hi : SInv s) (h : run s as = some s') : SInv s' := by
  induction as generalizing s with
  | nil => simp [run] at h; subst h; exact hi
  | cons a as ih =>
    simp only [run] at h
    split at h
    · rename_i s1 h1; exact ih (sinv_step s s1 a hi h1) h
    · cases h

theorem reachable_sinv {re : Bool} {w q k : Nat} {s : Sys} (hr : ReachableP true re false w q k s) : SInv s := by
  obtain ⟨as, h⟩ := hr
  exact run_sinv (sinv_init re w q k) h

theorem step_params {s s' : Sys} {a : Action} (hs : step s a = some s') :
    s'.workers.length = s.workers.length ∧ s'.q = s.q ∧ s'.guarded = s.guarded ∧ s'.reentrant = s.reentrant ∧ s'.subs.length = s.subs.length := by
  cases a <;> simp only [step] at hs <;> (repeat' split at hs) <;> cases hs <;> simp

theorem run_params {s s' : Sys} {as : List Action} (h : run s as = some s') :
    s'.workers.length = s.workers.length ∧ s'.q = s.q ∧ s'.guarded = s.guarded ∧ s'.reentrant = s.reentrant ∧ s'.subs.length = s.subs.length := by
  induction as generalizing s with
  | nil => simp [run] at h; subst h; exact ⟨rfl, rfl, rfl, rfl, rfl⟩
  | cons a as ih =>
    simp only [run] at h
    split at h
    · rename_i s1 h1
      have h2 := step_params h1
      have h3 := ih h
      exact ⟨h3.1.trans h2.1, h3.2.1.trans h2.2.1, h3.2.2.1.trans h2.2.2.1, h3.2.2.2.1.trans h2.2.2.2.1, h3.2.2.2.2.trans h2.2.2.2.2⟩
    · cases h

theorem reachable_params {g re lo : Bool} {w q k : Nat} {s : Sys} (hr : ReachableP g re lo w q k s) :
    s.workers.length = w ∧ s.q = q ∧ s.guarded = g ∧ s.reentrant = re ∧ s.subs.length = k := by
  obtain ⟨as, h⟩ := hr
  have := run_params h
  simpa [initP] using this

def stopRank : StopPc → Nat
  | .notCalled => 0 | .atQuit => 1 | .waitResult => 2 | .gotResult => 3 | .returned => 4

theorem step_mono {s s' : Sys} {a : Action} (hs : step s a = some s') :
    rank s.serve ≤ rank s'.serve ∧ stopRank s.stop ≤ stopRank s'.stop ∧ (∀ m, m ∈ s.arrived → m ∈ s'.arrived) ∧
    (∀ m, m ∈ s.handed → m ∈ s'.handed) ∧ (s.active = false → s'.active = false) := by
  cases a <;> simp only [step] at hs <;> (repeat' split at hs) <;> cases hs <;>
    first
    | (simp_all [rank, stopRank]; done)
    | (rename_i h; obtain ⟨_, h2⟩ := h; rcases h2 with h2 | h2 | h2 <;> simp_all [rank, stopRank])

theorem run_mono {s s' : Sys} {as : List Action} (h : run s as = some s') :
    rank s.serve ≤ rank s'.serve ∧ stopRank s.stop ≤ stopRank s'.stop ∧ (∀ m, m ∈ s.arrived → m ∈ s'.arrived) ∧
    (∀ m, m ∈ s.handed → m ∈ s'.handed) ∧ (s.active = false → s'.active = false) := by
  induction as generalizing s with
  | nil => simp [run] at h; subst h; exact ⟨Nat.le_refl _, Nat.le_refl _, fun _ h => h, fun _ h => h, fun h => h⟩
  | cons a as ih =>
    simp only [run] at h
    split at h
    · rename_i s1 h1
      have h2 := step_mono h1
      have h3 := ih h
      exact ⟨Nat.le_trans h2.1 h3.1, Nat.le_trans h2.2.1 h3.2.1, fun m hm => h3.2.2.1 m (h2.2.2.1 m hm),
        fun m hm => h3.2.2.2.1 m (h2.2.2.2.1 m hm), fun ha => h3.2.2.2.2 (h2.2.2.2.2 ha)⟩
    · cases h



/-! Progress. -/

theorem not_all_get {α : Type} {P : α → Bool} {l : List α} (h : l.all P = false) :
    ∃ (i : Nat) (x : α), l[i]? = some x ∧ P x = false := by
  induction l with
  | nil => simp at h
  | cons a t ih =>
    cases hp : P a with
    | false => exact ⟨0, a, rfl, hp⟩
    | true =>
      have : t.all P = false := by simpa [List.all_cons, hp] using h
      obtain ⟨i, x, hx, hpx⟩ := ih this
      exact ⟨i + 1, x, by simpa using hx, hpx⟩

theorem not_allExited {ws : List Wk} (h : allExited ws = false) :
    ∃ (i : Nat) (u : Wk), ws[i]? = some u ∧ u ≠ .exited := by
  obtain ⟨i, u, hu, hp⟩ := not_all_get (P := (· == Wk.exited)) h
  exact ⟨i, u, hu, by intro he; subst he; simp at hp⟩

/-- A worker that carries a request can move, or the holder of the write mutex it waits for can:
the mutex is released on every path (without the re-locking mutation). -/
theorem worker_progress (s : Sys) (hi : SInv s) (hre : s.reentrant = false) (i : Nat) (u : Wk)
    (hu : s.workers[i]? = some u) (h1 : u ≠ .idle) (h2 : u ≠ .exited) :
    ∃ a, a.isWorker = true ∧ a.isSystem = true ∧ (step s a).isSome = true := by
  have holder : ∀ (j : Nat) (w : Wk), s.workers[j]? = some w → holds w = true →
      ∃ a, a.isWorker = true ∧ a.isSystem = true ∧ (step s a).isSome = true := by
    intro j w hw hh
    cases w with
    | writing m => exact ⟨.workerWriteOk j, rfl, rfl, by simp [step, hw]⟩
    | overflow m => exact ⟨.workerErrReply j, rfl, rfl, by simp [step, hw, hre]⟩
    | written m => exact ⟨.workerUnlock j, rfl, rfl, by simp [step, hw]⟩
    | _ => cases hh
  cases u with
  | idle => exact absurd rfl h1
  | exited => exact absurd rfl h2
  | busy m => exact ⟨.workerHandlerDone i, rfl, rfl, by simp [step, hu]⟩
  | locking m =>
    cases hm : s.wmu with
    | none => exact ⟨.workerLock i, rfl, rfl, by simp [step, hu, hm]⟩
    | some j =>
      obtain ⟨w, hw, hh⟩ := hi.mu2 j hm
      exact holder j w hw hh
  | writing m => exact holder i _ hu rfl
  | overflow m => exact holder i _ hu rfl
  | written m => exact holder i _ hu rfl
  | publishing m => exact ⟨.workerReply i, rfl, rfl, by simp [step, hu]⟩

/-- A handler blocked on the full queue is unblocked by the system itself (w ≥ 1, queue still open). -/
theorem unblock_handler (s : Sys) (hi : SInv s) (hre : s.reentrant = false) (hw : 1 ≤ s.workers.length)
    (j : Nat) (sb : Sub) (hsb : s.subs[j]? = some sb) (m : Msg) (hcb : sb.cb = .sending m) (hncl : s.closed = false) :
    ∃ a, a.isSystem = true ∧ (step s a).isSome = true := by
  obtain ⟨w0, hw0⟩ : ∃ w0, s.workers[0]? = some w0 := by
    cases hws : s.workers with
    | nil => simp [hws] at hw
    | cons a t => exact ⟨a, rfl⟩
  by_cases hroom : s.workC.length < s.q
  · exact ⟨.handlerEnqueue j, rfl, by simp [step, hsb, hcb, hncl, hroom]⟩
  · by_cases hidle : w0 = .idle
    · subst hidle
      cases hq : s.workC with
      | nil => exact ⟨.workerHandoff 0 j, rfl, by simp [step, hw0, hsb, hq, hcb, hncl]⟩
      | cons x rest => exact ⟨.workerTake 0, rfl, by simp [step, hw0, hq]⟩
    · by_cases hex : w0 = .exited
      · subst hex
        have := (hi.ex (List.mem_of_getElem? hw0)).1
        rw [hncl] at this; cases this
      · obtain ⟨a, _, ha, hen⟩ := worker_progress s hi hre 0 w0 hw0 hidle hex
        exact ⟨a, ha, hen⟩

/-- Some action of the system itself (not the broker accepting a request, not a fault, not the user
calling Stop) is enabled as long as Stop has been called and Serve or Stop has not returned. -/
theorem progress (s : Sys) (hi : SInv s) (hre : s.reentrant = false) (hw : 1 ≤ s.workers.length) (hstop : s.stop ≠ .notCalled)
    (hnot : ¬ (s.serve = .returned ∧ s.stop = .returned)) :
    ∃ a, a.isSystem = true ∧ (step s a).isSome = true := by
  have hclo := hi.clo
  cases hsv : s.serve with
  | running =>
    have := hi.st0 (by rw [hsv]; rfl)
    have hq : s.stop = .atQuit := by rcases this with h | h; exact absurd h hstop; exact h
    exact ⟨.serveGotQuit, rfl, by simp [step, hsv, hq]⟩
  | gotQuit => exact ⟨.drainStart, rfl, by simp [step, hsv]⟩
  | unsubbed =>
    cases hall : s.subs.all (fun sb => sb.inflight.isEmpty) with
    | true => exact ⟨.flushBarrier, rfl, by simp [step, hsv, hall]⟩
    | false =>
      obtain ⟨j, sb, hsb, hp⟩ := not_all_get hall
      cases hin : sb.inflight with
      | nil => simp [hin] at hp
      | cons m rest => exact ⟨.deliver j, rfl, by simp [step, hsb, hin]⟩
  | barrierWait =>
    have hbar : s.barrier = true := hi.bar.mpr hsv
    have hncl : s.closed = false := by
      cases hc : s.closed with
      | false => rfl
      | true => have := hclo.mp hc; rw [hsv] at this; simp [rank] at this
    cases hall : s.subs.all Sub.quiet with
    | true => exact ⟨.barrierFires, rfl, by simp [step, hsv, hbar, drained, hi.lo, hall]⟩
    | false =>
      obtain ⟨j, sb, hsb, hp⟩ := not_all_get hall
      cases hcb : sb.cb with
      | idle =>
        cases hpd : sb.pending with
        | nil => simp [Sub.quiet, hcb, hpd] at hp
        | cons m rest => exact ⟨.cbStart j, rfl, by simp [step, hsb, hcb, hpd, hncl]⟩
      | sent m => exact ⟨.callbackDone j, rfl, by simp [step, hsb, hcb]⟩
      | sending m => exact unblock_handler s hi hre hw j sb hsb m hcb hncl
  | barrierDone =>
    have := hi.st1 (by rw [hsv]; simp [rank]) (by rw [hsv]; simp [rank])
    exact ⟨.sendResult, rfl, by simp [step, hsv, this]⟩
  | resultSent =>
    have hncl : s.closed = false := by
      cases hc : s.closed with
      | false => rfl
      | true => have := hclo.mp hc; rw [hsv] at this; simp [rank] at this
    cases hall : s.subs.all (fun sb => sb.cb == .idle) with
    | true => exact ⟨.closeWorkC, rfl, by simp [step, hsv, hall]⟩
    | false =>
      obtain ⟨j, sb, hsb, hp⟩ := not_all_get hall
      cases hcb : sb.cb with
      | idle => simp [hcb] at hp
      | sent m => exact ⟨.callbackDone j, rfl, by simp [step, hsb, hcb]⟩
      | sending m => exact unblock_handler s hi hre hw j sb hsb m hcb hncl
  | closedQ =>
    have hcl : s.closed = true := hclo.mpr (by rw [hsv]; simp [rank])
    cases hall : allExited s.workers with
    | true => exact ⟨.serveReturn, rfl, by simp [step, hsv, hall]⟩
    | false =>
      obtain ⟨i, u, hu, hne⟩ := not_allExited hall
      by_cases hidle : u = .idle
      · subst hidle
        cases hq : s.workC with
        | nil => exact ⟨.workerExit i, rfl, by simp [step, hu, hcl, hq]⟩
        | cons x rest => exact ⟨.workerTake i, rfl, by simp [step, hu, hq]⟩
      · obtain ⟨a, _, ha, hen⟩ := worker_progress s hi hre i u hu hidle hne
        exact ⟨a, ha, hen⟩
  | returned =>
    have h2 := hi.st2 (by rw [hsv]; simp [rank])
    have hg : s.stop = .gotResult := by
      rcases h2 with h | h
      · exact h
      · exact absurd ⟨hsv, h⟩ hnot
    exact ⟨.stopReturn, rfl, by simp [step, hg]⟩

/-! Termination measure. -/

def wkW : Wk → Nat
  | .idle => 1 | .busy _ => 7 | .locking _ => 6 | .writing _ => 5 | .overflow _ => 4
  | .written _ => 3 | .publishing _ => 2 | .exited => 0
def cbW : Cb → Nat | .idle => 0 | .sending _ => 9 | .sent _ => 1
def subW (sb : Sub) : Nat := 11 * sb.inflight.length + 10 * sb.pending.length + cbW sb.cb
def sumW {α : Type} (f : α → Nat) : List α → Nat | [] => 0 | x :: xs => f x + sumW f xs
def wsW (ws : List Wk) : Nat := sumW wkW ws
def stopW : StopPc → Nat
  | .notCalled => 4 | .atQuit => 3 | .waitResult => 2 | .gotResult => 1 | .returned => 0

/-- The measure: every request still on its way weighs more the further it is from its reply,
every goroutine weighs the number of steps it has left; the one possible fault weighs 1. -/
def mu (s : Sys) : Nat :=
  sumW subW s.subs + 7 * s.workC.length + wsW s.workers
    + (7 - rank s.serve) + stopW s.stop + (if s.faulty then 0 else 1)

theorem sumW_set {α : Type} (f : α → Nat) (ws : List α) (i : Nat) (u v : α) (h : ws[i]? = some u) :
    sumW f (ws.set i v) + f u = sumW f ws + f v := by
  induction ws generalizing i with
  | nil => simp at h
  | cons w ws ih =>
    cases i with
    | zero => simp at h; subst h; simp [sumW]; omega
    | succ i => simp at h; have := ih i h; simp [sumW]; omega

theorem wsW_set (ws : List Wk) (i : Nat) (u v : Wk) (h : ws[i]? = some u) :
    wsW (ws.set i v) + wkW u = wsW ws + wkW v := sumW_set wkW ws i u v h


theorem mu_decreases {s s' : Sys} {a : Action} (hs : step s a = some s') (ha : ∀ j m, a ≠ .arrive j m) :
    mu s' < mu s := by
  cases a with
  | arrive j m => exact absurd rfl (ha j m)
  | fault =>
    simp only [step] at hs; split at hs
    · cases hs
    · rename_i h; cases hs; simp [mu, h]
  | deliver j =>
    simp only [step] at hs; split at hs
    · rename_i sb hsb
      split at hs
      · rename_i m rest hm; cases hs
        have := sumW_set subW s.subs j sb { sb with inflight := rest, pending := sb.pending ++ [m] } hsb
        simp [mu, subW, hm] at this ⊢; omega
      · cases hs
    · cases hs
  | cbStart j =>
    simp only [step] at hs; split at hs
    · rename_i sb hsb
      split at hs
      · rename_i m rest hcb hm
        split at hs
        · cases hs
          have := sumW_set subW s.subs j sb { sb with pending := rest } hsb
          simp [mu, subW, hm, hcb, cbW] at this ⊢; omega
        · cases hs
          have := sumW_set subW s.subs j sb { sb with cb := .sending m, pending := rest } hsb
          simp [mu, subW, hm, hcb, cbW] at this ⊢; omega
      · cases hs
    · cases hs
  | handlerEnqueue j =>
    simp only [step] at hs; split at hs
    · rename_i sb hsb
      split at hs
      · rename_i m hcb
        split at hs
        · cases hs
          have := sumW_set subW s.subs j sb { sb with cb := .idle } hsb
          simp [mu, subW, hcb, cbW] at this ⊢; omega
        · split at hs
          · cases hs
            have := sumW_set subW s.subs j sb { sb with cb := .sent m } hsb
            simp [mu, subW, hcb, cbW] at this ⊢; omega
          · cases hs
      · cases hs
    · cases hs
  | callbackDone j =>
    simp only [step] at hs; split at hs
    · rename_i sb hsb
      split at hs
      · rename_i m hcb; cases hs
        have := sumW_set subW s.subs j sb { sb with cb := .idle } hsb
        simp [mu, subW, hcb, cbW] at this ⊢; omega
      · cases hs
    · cases hs
  | workerTake i =>
    simp only [step] at hs; split at hs
    · rename_i hw
      split at hs
      · rename_i m rest hq; cases hs
        have := wsW_set s.workers i .idle (.busy m) hw
        simp [mu, hq, wkW] at this ⊢; omega
      · cases hs
    · cases hs
  | workerHandoff i j =>
    simp only [step] at hs; split at hs
    · rename_i sb hw hsb
      split at hs
      · rename_i m hcb
        split at hs
        · cases hs
        · cases hs
          have := wsW_set s.workers i .idle (.busy m) hw
          have := sumW_set subW s.subs j sb { sb with cb := .sent m } hsb
          simp [mu, subW, hcb, cbW, wkW] at *; omega
      · cases hs
    · cases hs
  | workerHandlerDone i =>
    simp only [step] at hs; split at hs
    · rename_i m hw; cases hs
      have := wsW_set s.workers i (.busy m) (.locking m) hw
      simp [mu, wkW] at this ⊢; omega
    · cases hs
  | workerLock i =>
    simp only [step] at hs; split at hs
    · rename_i m hw
      split at hs
      · cases hs
        have := wsW_set s.workers i (.locking m) (.writing m) hw
        simp [mu, wkW] at this ⊢; omega
      · cases hs
    · cases hs
  | workerWriteOk i =>
    simp only [step] at hs; split at hs
    · rename_i m hw; cases hs
      have := wsW_set s.workers i (.writing m) (.written m) hw
      simp [mu, wkW] at this ⊢; omega
    · cases hs
  | workerOverflow i =>
    simp only [step] at hs; split at hs
    · rename_i m hw; cases hs
      have := wsW_set s.workers i (.writing m) (.overflow m) hw
      simp [mu, wkW] at this ⊢; omega
    · cases hs
  | workerErrReply i =>
    simp only [step] at hs; split at hs
    · rename_i m hw
      split at hs
      · cases hs
      · cases hs
        have := wsW_set s.workers i (.overflow m) (.written m) hw
        simp [mu, wkW] at this ⊢; omega
    · cases hs
  | workerUnlock i =>
    simp only [step] at hs; split at hs
    · rename_i m hw; cases hs
      have := wsW_set s.workers i (.written m) (.publishing m) hw
      simp [mu, wkW] at this ⊢; omega
    · cases hs
  | workerReply i =>
    simp only [step] at hs; split at hs
    · rename_i m hw; cases hs
      have := wsW_set s.workers i (.publishing m) .idle hw
      simp [mu, wkW] at this ⊢; omega
    · cases hs
  | workerExit i =>
    simp only [step] at hs; split at hs
    · rename_i hw
      split at hs
      · cases hs
        have := wsW_set s.workers i .idle .exited hw
        simp [mu, wkW] at this ⊢; omega
      · cases hs
    · cases hs
  | stopCall =>
    simp only [step] at hs; split at hs
    · rename_i h; cases hs; simp [mu, h, stopW]
    · cases hs
  | serveGotQuit =>
    simp only [step] at hs; split at hs
    · rename_i h; cases hs; simp [mu, h.1, h.2, stopW, rank]
    · cases hs
  | drainStart =>
    simp only [step] at hs; split at hs
    · rename_i h; cases hs; simp [mu, h, rank]
    · cases hs
  | drainStartIgnored =>
    simp only [step] at hs; split at hs
    · rename_i h; cases hs; simp [mu, h.2, rank]
    · cases hs
  | flushBarrier =>
    simp only [step] at hs; split at hs
    · rename_i h; cases hs; simp [mu, h.1, rank]
    · cases hs
  | barrierFires =>
    simp only [step] at hs; split at hs
    · rename_i h; cases hs; simp [mu, h.1, rank]
    · cases hs
  | drainFail =>
    simp only [step] at hs; split at hs
    · rename_i h; cases hs
      rcases h.2 with h2 | h2 | h2 <;> simp [mu, h2, rank]
    · cases hs
  | sendResult =>
    simp only [step] at hs; split at hs
    · rename_i h; cases hs; simp [mu, h.1, h.2, stopW, rank]
    · cases hs
  | stopReturn =>
    simp only [step] at hs; split at hs
    · rename_i h; cases hs; simp [mu, h, stopW]
    · cases hs
  | closeWorkC =>
    simp only [step] at hs; split at hs
    · rename_i h; cases hs; simp [mu, h.1, rank]
    · cases hs
  | serveReturn =>
    simp only [step] at hs; split at hs
    · rename_i h; cases hs; simp [mu, h.1, rank]
    · cases hs




/-! Helpers for the property theorems. -/

/-- Helper: nothing is held by subscriptions whose callback goroutines are all idle. -/
theorem flat_subCb_idle (l : List Sub) (h : ∀ sb ∈ l, sb.cb = .idle) : flat subCb l = [] := by
  induction l with
  | nil => rfl
  | cons a t ih =>
    have ha := h a List.mem_cons_self
    simp [flat, subCb, ha, cbMsgs, ih (fun x hx => h x (List.mem_cons_of_mem _ hx))]

theorem flat_subAll_empty (l : List Sub) (h : ∀ sb ∈ l, sb.inflight = [] ∧ sb.pending = [] ∧ sb.cb = .idle) :
    flat subAll l = [] := by
  induction l with
  | nil => rfl
  | cons a t ih =>
    obtain ⟨h1, h2, h3⟩ := h a List.mem_cons_self
    simp [flat, subAll, h1, h2, h3, cbMsgs, ih (fun x hx => h x (List.mem_cons_of_mem _ hx))]

theorem busy_all_exited (ws : List Wk) (h : ∀ x ∈ ws, x = .exited) : busyList ws = [] := by
  induction ws with
  | nil => rfl
  | cons a t ih =>
    have ha := h a List.mem_cons_self
    subst ha
    simp [busyList, flat, wkMsgs]
    exact ih (fun x hx => h x (List.mem_cons_of_mem _ hx))


end FV.NS
