/-
Helper lemmas for C14's server part: the framed reader does not depend on the chunking of the
stream; a connection's state depends only on its own requests and on how often it was scheduled.
-/
import FV.Model.Server
import FV.Proofs.Bytes

namespace FV.Chunked
open FV

theorem rd32_append (a b : Bytes) (h : 4 ≤ a.length) : rd32 (a ++ b) = rd32 a := by
  match a, h with
  | x :: y :: z :: w :: t, _ => simp [rd32]

theorem deframe_append (maxLen : Nat) (a b : Bytes) :
    deframe maxLen (a ++ b) =
      ((deframe maxLen a).1 ++ (feed maxLen (deframe maxLen a).2 b).1, (feed maxLen (deframe maxLen a).2 b).2) := by
  fun_induction deframe maxLen a with
  | case1 a h => simp [feed]
  | case2 a h size hs =>
    have h4 : 4 ≤ a.length := by omega
    rw [deframe]
    have : ¬ (a ++ b).length < 4 := by simp; omega
    simp only [this, dite_false, rd32_append a b h4]
    simp [size] at hs
    simp [hs, feed]
  | case3 a h size hs h2 => simp [feed]
  | case4 a h size hs h2 r ih =>
    have h4 : 4 ≤ a.length := by omega
    rw [deframe]
    have h1 : ¬ (a ++ b).length < 4 := by simp; omega
    have h3 : ¬ (a ++ b).length < 4 + rd32 a := by simp; simp [size] at h2; omega
    have hs' : ¬ rd32 a > maxLen := by simpa [size] using hs
    simp only [h1, dite_false, rd32_append a b h4, hs', if_false, h3]
    have hd : (a ++ b).drop (4 + rd32 a) = a.drop (4 + rd32 a) ++ b := by
      rw [List.drop_append_of_le_length]; simp [size] at h2; omega
    have ht : ((a ++ b).drop 4).take (rd32 a) = (a.drop 4).take (rd32 a) := by
      rw [List.drop_append_of_le_length h4, List.take_append_of_le_length]
      simp [size] at h2; simp; omega
    rw [hd, ht, ih]
    simp [r, size]

theorem feedAll_bad (maxLen : Nat) (chunks : List Bytes) : feedAll maxLen .bad chunks = ([], .bad) := by
  induction chunks with
  | nil => rfl
  | cons c cs ih => simp [feedAll, feed, ih]

/-- What `deframe` leaves over holds no complete frame. -/
theorem deframe_tail_irreducible (maxLen : Nat) (a q : Bytes) (h : (deframe maxLen a).2 = .pending q) :
    deframe maxLen q = ([], .pending q) := by
  fun_induction deframe maxLen a with
  | case1 a h1 => simp at h; subst h; rw [deframe]; simp [h1]
  | case2 a h1 size hs => simp at h
  | case3 a h1 size hs h2 =>
    simp at h; subst h; rw [deframe]
    simp only [h1, dite_false]
    have hs' : ¬ rd32 a > maxLen := by simpa [size] using hs
    have h2' : a.length < 4 + rd32 a := by simpa [size] using h2
    simp [hs', h2']
  | case4 a h1 size hs h2 r ih => exact ih h

theorem feedAll_eq (maxLen : Nat) (p : Bytes) (chunks : List Bytes) (hp : deframe maxLen p = ([], .pending p)) :
    feedAll maxLen (.pending p) chunks = deframe maxLen (p ++ chunks.flatten) := by
  induction chunks generalizing p with
  | nil => simp [feedAll, hp]
  | cons c cs ih =>
    simp only [feedAll, feed, List.flatten_cons]
    rw [← List.append_assoc, deframe_append maxLen (p ++ c) cs.flatten]
    cases ht : (deframe maxLen (p ++ c)).2 with
    | bad => simp [feedAll_bad, feed]
    | pending q => simp [ih q (deframe_tail_irreducible maxLen _ q ht), feed]

theorem deframe_nil (maxLen : Nat) : deframe maxLen [] = ([], .pending []) := by rw [deframe]; simp

/-- Chunking independence. -/
theorem frames_chunking_independent (maxLen : Nat) (chunks : List Bytes) :
    feedAll maxLen (.pending []) chunks = deframe maxLen chunks.flatten := by
  simpa using feedAll_eq maxLen [] chunks (deframe_nil maxLen)

theorem deframe_enframe (maxLen : Nat) (fs : List Bytes) (rest : Bytes)
    (hl : ∀ f ∈ fs, f.length ≤ maxLen ∧ f.length < 4294967296) :
    deframe maxLen (enframe fs ++ rest) = (fs ++ (deframe maxLen rest).1, (deframe maxLen rest).2) := by
  induction fs with
  | nil => simp [enframe]
  | cons f t ih =>
    have hf := hl f (by simp)
    have ht := ih (fun x hx => hl x (by simp [hx]))
    have he : enframe (f :: t) ++ rest = be32 f.length ++ (f ++ (enframe t ++ rest)) := by
      simp [enframe]
    rw [he, deframe]
    have h1 : ¬ (be32 f.length ++ (f ++ (enframe t ++ rest))).length < 4 := by simp [be32_length]
    simp only [h1, dite_false, rd32_be32 _ _ hf.2]
    have h2 : ¬ f.length > maxLen := by omega
    have h3 : ¬ (be32 f.length ++ (f ++ (enframe t ++ rest))).length < 4 + f.length := by
      simp [be32_length]
    simp only [h2, if_false, h3, dite_false]
    have hd : (be32 f.length ++ (f ++ (enframe t ++ rest))).drop (4 + f.length) = enframe t ++ rest := by
      rw [← List.append_assoc]
      exact List.drop_left' (by simp [be32_length])
    have hk : ((be32 f.length ++ (f ++ (enframe t ++ rest))).drop 4).take f.length = f := by
      rw [List.drop_left' (be32_length _)]
      exact List.take_left' rfl
    rw [hd, hk, ht]
    simp
end FV.Chunked

namespace FV.Proc

theorem srvRun_conn (pm : ProcMap) (s : List ConnSt) (sched : List Nat) (i : Nat) :
    (srvRun pm s sched)[i]? = (s[i]?).map (iter (connStep pm) (sched.count i)) := by
  induction sched generalizing s with
  | nil => simp [srvRun, iter]
  | cons j t ih =>
    simp only [srvRun, List.foldl_cons] at *
    rw [ih (srvStep pm s j)]
    simp only [srvStep, List.getElem?_modify, List.count_cons]
    by_cases hji : j = i
    · subst hji; cases s[j]? <;> simp [iter]
    · have : (j == i) = false := by simpa using hji
      cases s[i]? <;> simp [this, hji]

theorem iter_done (pm : ProcMap) (c : ConnSt) (n : Nat) (h : c.alive = false ∨ c.todo = []) :
    iter (connStep pm) n c = c := by
  induction n with
  | zero => rfl
  | succ n ih =>
    simp only [iter]
    have : connStep pm c = c := by
      unfold connStep
      rcases h with h | h
      · cases c.todo <;> simp [h]
      · simp [h]
    rw [this, ih]

theorem iter_conn (pm : ProcMap) (rs : List (Request × HOutcome)) (acc : List (List ReplyMsg × Res Unit)) (n : Nat)
    (hn : rs.length ≤ n) :
    (iter (connStep pm) n ⟨rs, acc, true⟩).out = acc ++ processConn pm rs := by
  induction rs generalizing acc n with
  | nil => rw [iter_done pm _ n (Or.inr rfl)]; simp [processConn]
  | cons r t ih =>
    cases n with
    | zero => simp at hn
    | succ n =>
      simp only [iter, connStep, processConn]
      by_cases hk : ((process pm r.1 r.2).2.isOk && positionKept pm r.1) = true
      · simp only [hk, if_true]
        simp [ih (acc ++ [process pm r.1 r.2]) n (by simpa using hn)]
      · have hk' : ((process pm r.1 r.2).2.isOk && positionKept pm r.1) = false := by simpa using hk
        simp only [hk']
        rw [iter_done pm _ n (Or.inl rfl)]
        simp
theorem modRun_conn {α : Type} (f : α → α) (s : List α) (sched : List Nat) (i : Nat) :
    (sched.foldl (fun s j => s.modify j f) s)[i]? = (s[i]?).map (iter f (sched.count i)) := by
  induction sched generalizing s with
  | nil => simp [iter]
  | cons j t ih =>
    simp only [List.foldl_cons]
    rw [ih (s.modify j f)]
    simp only [List.getElem?_modify, List.count_cons]
    by_cases hji : j = i
    · subst hji; cases s[j]? <;> simp [iter]
    · have : (j == i) = false := by simpa using hji
      cases s[i]? <;> simp [this, hji]

theorem hdrs_get_set (st : Hdrs) (k v : Bytes) : (st.set k v).get? k = some v := by
  induction st with
  | nil => simp [Hdrs.set, Hdrs.get?]
  | cons p t ih =>
    obtain ⟨k', v'⟩ := p
    by_cases h : k' = k <;> simp [Hdrs.set, Hdrs.get?, h, ih]

theorem iter_ephStep_nil (c : EphConn) (n : Nat) (h : c.todo = []) : iter ephStep n c = c := by
  induction n with
  | zero => rfl
  | succ n ih =>
    have : ephStep c = c := by unfold ephStep; simp [h]
    simp [iter, this, ih]

theorem iter_eph (c : List EphScript) (acc : List EphObs) (st : Hdrs) (n : Nat) (hn : c.length ≤ n) :
    (iter ephStep n ⟨c, acc, st⟩).seen = acc ++ (ephProtocol st c).1 := by
  induction c generalizing acc st n with
  | nil => rw [iter_ephStep_nil _ n rfl]; simp [ephProtocol]
  | cons s t ih =>
    cases n with
    | zero => simp at hn
    | succ n =>
      simp only [iter, ephStep, ephProtocol]
      rw [ih _ _ n (by simpa using hn)]
      simp
end FV.Proc
