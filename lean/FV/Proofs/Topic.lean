/-
Lemmas for C08 (Props/C08.lean): the compiler's regular-expression view of a prefix string
agrees with the token view (scan / replace), and the target languages' formatting
constructs read a pasted prefix made of plain tokens as text and variables.
-/
import FV.Model.Topic

namespace FV.Topic


/-! scan / replace over token texts -/

theorem okWord_ne (c : Char) (h : okWordChar c = true) : c ≠ '{' ∧ c ≠ '}' ∧ c ≠ '.' := by
  simp [okWordChar] at h
  refine ⟨?_, ?_, ?_⟩ <;> intro e <;> simp [e] at h

theorem brace_not_word : isWordChar '{' = false ∧ isWordChar '}' = false ∧ isWordChar '.' = false := by
  decide

/-- text without '{' is skipped by the scanner in the idle state -/
theorem scan_skip (s r : Str) (h : ∀ c ∈ s, c ≠ '{') : scanAux none (s ++ r) = scanAux none r := by
  induction s with
  | nil => rfl
  | cons c s ih =>
    have hc : c ≠ '{' := h c (by simp)
    simp only [List.cons_append, scanAux, if_neg hc]
    exact ih (fun d hd => h d (by simp [hd]))

theorem repl_skip (repl s r : Str) (h : ∀ c ∈ s, c ≠ '{') :
    replAux repl none (s ++ r) = s ++ replAux repl none r := by
  induction s with
  | nil => rfl
  | cons c s ih =>
    have hc : c ≠ '{' := h c (by simp)
    simp only [List.cons_append, replAux, if_neg hc]
    rw [ih (fun d hd => h d (by simp [hd]))]

/-- inside a candidate, word characters accumulate; the closing brace completes the match -/
theorem scan_word_close (s r acc : Str) (h : s.all isWordChar = true) :
    scanAux (some acc) (s ++ '}' :: r) = (acc ++ s) :: scanAux none r := by
  induction s generalizing acc with
  | nil => simp [scanAux, brace_not_word]
  | cons c s ih =>
    simp only [List.all_cons, Bool.and_eq_true] at h
    simp only [List.cons_append, scanAux, h.1, if_true]
    rw [ih _ h.2]; simp

theorem repl_word_close (repl s r acc : Str) (h : s.all isWordChar = true) :
    replAux repl (some acc) (s ++ '}' :: r) = repl ++ replAux repl none r := by
  induction s generalizing acc with
  | nil => simp [replAux, brace_not_word]
  | cons c s ih =>
    simp only [List.all_cons, Bool.and_eq_true] at h
    simp only [List.cons_append, replAux, h.1, if_true]
    rw [ih _ h.2]

/-- a braced non-word token: the candidate is abandoned at the first non-word character -/
theorem scan_nonword_close (s r acc : Str) (hok : s.all okWordChar = true) (h : s.all isWordChar = false) :
    scanAux (some acc) (s ++ '}' :: r) = scanAux none r := by
  induction s generalizing acc with
  | nil => simp at h
  | cons c s ih =>
    simp only [List.all_cons, Bool.and_eq_true] at hok
    have hne := okWord_ne c hok.1
    by_cases hw : isWordChar c = true
    · simp only [List.cons_append, scanAux, hw, if_true]
      apply ih _ hok.2
      simpa [List.all_cons, hw] using h
    · simp only [List.cons_append, scanAux, hw, if_neg hne.2.1, if_neg hne.1]
      have : ∀ d ∈ s ++ ['}'], d ≠ '{' := by
        intro d hd
        rcases List.mem_append.1 hd with hd | hd
        · exact (okWord_ne d (List.all_eq_true.1 hok.2 d hd)).1
        · simp at hd; rw [hd]; decide
      have := scan_skip (s ++ ['}']) r this
      simpa using this

theorem repl_nonword_close (repl s r acc : Str) (hok : s.all okWordChar = true) (h : s.all isWordChar = false) :
    replAux repl (some acc) (s ++ '}' :: r) = '{' :: (acc ++ (s ++ '}' :: replAux repl none r)) := by
  induction s generalizing acc with
  | nil => simp at h
  | cons c s ih =>
    simp only [List.all_cons, Bool.and_eq_true] at hok
    have hne := okWord_ne c hok.1
    by_cases hw : isWordChar c = true
    · simp only [List.cons_append, replAux, hw, if_true]
      rw [ih _ hok.2 (by simpa [List.all_cons, hw] using h)]
      simp
    · simp only [List.cons_append, replAux, hw, if_neg hne.2.1, if_neg hne.1]
      have : ∀ d ∈ s ++ ['}'], d ≠ '{' := by
        intro d hd
        rcases List.mem_append.1 hd with hd | hd
        · exact (okWord_ne d (List.all_eq_true.1 hok.2 d hd)).1
        · simp at hd; rw [hd]; decide
      have := repl_skip repl (s ++ ['}']) r this
      simp at this
      simp [this]




/-! token level -/
def Tok.piece (repl : Str) (t : Tok) : Str := if t.isVar then repl else t.text
def renderTail (repl : Str) : List Tok → Str
  | [] => []
  | t :: ts => '.' :: (t.piece repl ++ renderTail repl ts)
def render (repl : Str) : List Tok → Str
  | [] => []
  | t :: ts => t.piece repl ++ renderTail repl ts
def varNames (ts : List Tok) : List Str := ts.filterMap Tok.varName

theorem tok_scan (t : Tok) (r : Str) (h : t.wf = true) :
    scanAux none (t.text ++ r) = t.varName.toList ++ scanAux none r := by
  simp only [Tok.wf, Bool.and_eq_true] at h
  cases t with
  | word s =>
    simp only [Tok.text, Tok.varName, Option.toList, List.nil_append]
    exact scan_skip s r (fun c hc => (okWord_ne c (List.all_eq_true.1 h.2 c hc)).1)
  | braced s =>
    simp only [Tok.text, Tok.varName, List.cons_append, List.append_assoc, scanAux, if_true]
    by_cases hw : s.all isWordChar = true
    · simp only [hw, if_true, Option.toList]
      have := scan_word_close s r [] hw
      simpa using this
    · have hw' : s.all isWordChar = false := by simpa using hw
      rw [if_neg hw]
      have := scan_nonword_close s r [] h.2 hw'
      simpa [Option.toList] using this

theorem tok_repl (repl : Str) (t : Tok) (r : Str) (h : t.wf = true) :
    replAux repl none (t.text ++ r) = t.piece repl ++ replAux repl none r := by
  simp only [Tok.wf, Bool.and_eq_true] at h
  cases t with
  | word s =>
    simp only [Tok.text, Tok.piece, Tok.isVar]
    exact repl_skip repl s r (fun c hc => (okWord_ne c (List.all_eq_true.1 h.2 c hc)).1)
  | braced s =>
    simp only [Tok.text, Tok.piece, Tok.isVar, List.cons_append, List.append_assoc, replAux, if_true]
    by_cases hw : s.all isWordChar = true
    · simp only [hw, if_true]
      have := repl_word_close repl s r [] hw
      simpa using this
    · have hw' : s.all isWordChar = false := by simpa using hw
      simp only [hw']
      have := repl_nonword_close repl s r [] h.2 hw'
      simpa using this

theorem tail_scan (ts : List Tok) (r : Str) (h : ∀ t ∈ ts, t.wf = true) :
    scanAux none (tailString ts ++ r) = varNames ts ++ scanAux none r := by
  induction ts with
  | nil => rfl
  | cons t ts ih =>
    have hd : ('.' : Char) ≠ '{' := by decide
    simp only [tailString, List.cons_append, List.append_assoc, scanAux, if_neg hd]
    rw [tok_scan t _ (h t (by simp)), ih (fun u hu => h u (by simp [hu]))]
    cases hv : t.varName <;> simp [varNames, hv]

theorem tail_repl (repl : Str) (ts : List Tok) (r : Str) (h : ∀ t ∈ ts, t.wf = true) :
    replAux repl none (tailString ts ++ r) = renderTail repl ts ++ replAux repl none r := by
  induction ts with
  | nil => rfl
  | cons t ts ih =>
    have hd : ('.' : Char) ≠ '{' := by decide
    simp only [tailString, renderTail, List.cons_append, List.append_assoc, replAux, if_neg hd]
    rw [tok_repl repl t _ (h t (by simp)), ih (fun u hu => h u (by simp [hu]))]

theorem scanVars_prefixString (ts : List Tok) (h : ∀ t ∈ ts, t.wf = true) :
    scanVars (prefixString ts) = varNames ts := by
  cases ts with
  | nil => rfl
  | cons t ts =>
    have h1 := tok_scan t (tailString ts ++ []) (h t (by simp))
    have h2 := tail_scan ts [] (fun u hu => h u (by simp [hu]))
    simp only [List.append_nil] at h1 h2
    simp only [scanVars, prefixString, h1, h2]
    cases hv : t.varName <;> simp [varNames, hv, scanAux]

theorem templateStr_prefixString (repl : Str) (ts : List Tok) (h : ∀ t ∈ ts, t.wf = true) :
    templateStr repl (prefixString ts) = render repl ts := by
  cases ts with
  | nil => rfl
  | cons t ts =>
    have h1 := tok_repl repl t (tailString ts ++ []) (h t (by simp))
    have h2 := tail_repl repl ts [] (fun u hu => h u (by simp [hu]))
    simp only [List.append_nil] at h1 h2
    simp [templateStr, prefixString, render, h1, h2, replAux]




/-! eval -/
theorem eval_lit (e : Env) (s : Str) (t : Template) : eval e (.lit s :: t) = (eval e t).map (s ++ ·) := by
  simp only [eval, evalSeg]; cases eval e t <;> rfl
theorem eval_var (e : Env) (i : Nat) (t : Template) :
    eval e (.var i :: t) = (eval e t).map (e.vals.getD i [] ++ ·) := by
  simp only [eval, evalSeg]; cases eval e t <;> rfl

def endIdx : List Tok → Nat → Nat
  | [], i => i
  | t :: ts, i => endIdx ts (nextIdx t i)

/-- What a set `P` of characters must avoid so that text made of them is read as text by … -/
structure PctOk (hz : Char → Bool) (P : Char → Bool) : Prop where   -- Sprintf / String.format
  ne : ∀ c, P c = true → c ≠ '%' ∧ hz c = false
  dot : P '.' = true
structure BrOk (hz : Char → Bool) (P : Char → Bool) : Prop where    -- str.format
  ne : ∀ c, P c = true → c ≠ '{' ∧ c ≠ '}' ∧ hz c = false
  dot : P '.' = true
structure DolOk (P : Char → Bool) : Prop where                      -- Dart interpolation
  ne : ∀ c, P c = true → c ≠ '$' ∧ hzSQ c = false
  dot : P '.' = true
structure LitOk (hz : Char → Bool) (P : Char → Bool) : Prop where   -- a plain string literal
  ne : ∀ c, P c = true → hz c = false
  dot : P '.' = true

theorem plain_ne (c : Char) (h : plainChar c = true) :
    c ≠ '%' ∧ c ≠ '{' ∧ c ≠ '}' ∧ c ≠ '$' ∧ hzSQ c = false ∧ hzDQ c = false := by
  simp [plainChar] at h
  refine ⟨?_, ?_, ?_, ?_, ?_, ?_⟩
  · intro e; simp [e] at h
  · intro e; simp [e] at h
  · intro e; simp [e] at h
  · intro e; simp [e] at h
  · simp [hzSQ]; exact ⟨h.1.1.1.1.2, h.1.1.1.2⟩
  · simp [hzDQ]; exact ⟨h.1.1.1.1.1.2, h.1.1.1.2⟩

theorem pct_cons_plain (hz : Char → Bool) (c : Char) (t : Str) (i : Nat) (hc : c ≠ '%') (hzc : hz c = false) :
    pct hz (c :: t) i = .lit [c] :: pct hz t i := by
  cases t <;> simp [pct, hc, hzc]
theorem pct_var (hz : Char → Bool) (t : Str) (i : Nat) :
    pct hz ('%' :: 's' :: t) i = .var i :: pct hz t (i + 1) := by
  simp [pct]
theorem br_cons_plain (hz : Char → Bool) (c : Char) (t : Str) (i : Nat) (hc : c ≠ '{') (hc' : c ≠ '}') (hzc : hz c = false) :
    br hz (c :: t) i = .lit [c] :: br hz t i := by
  cases t <;> simp [br, hc, hc', hzc]
theorem br_var (hz : Char → Bool) (t : Str) (i : Nat) :
    br hz ('{' :: '}' :: t) i = .var i :: br hz t (i + 1) := by
  simp [br]

theorem pct_plain (hz : Char → Bool) (P : Char → Bool) (hh : PctOk hz P) (e : Env) (s r : Str) (i : Nat)
    (h : s.all P = true) :
    eval e (pct hz (s ++ r) i) = (eval e (pct hz r i)).map (s ++ ·) := by
  induction s with
  | nil => simp
  | cons c s ih =>
    simp only [List.all_cons, Bool.and_eq_true] at h
    have hc := hh.ne c h.1
    rw [List.cons_append, pct_cons_plain hz c _ i hc.1 hc.2, eval_lit]
    rw [ih h.2]
    cases eval e (pct hz r i) <;> simp

theorem br_plain (hz : Char → Bool) (P : Char → Bool) (hh : BrOk hz P) (e : Env) (s r : Str) (i : Nat)
    (h : s.all P = true) :
    eval e (br hz (s ++ r) i) = (eval e (br hz r i)).map (s ++ ·) := by
  induction s with
  | nil => simp
  | cons c s ih =>
    simp only [List.all_cons, Bool.and_eq_true] at h
    have hc := hh.ne c h.1
    rw [List.cons_append, br_cons_plain hz c _ i hc.1 hc.2.1 hc.2.2, eval_lit]
    rw [ih h.2]
    cases eval e (br hz r i) <;> simp

theorem dot_plain : plainChar '.' = true := by decide

theorem pct_tok (hz : Char → Bool) (P : Char → Bool) (hh : PctOk hz P) (e : Env) (t : Tok) (r : Str) (i : Nat)
    (h : (t.isVar || t.text.all P) = true) :
    eval e (pct hz (t.piece ['%', 's'] ++ r) i) =
      (eval e (pct hz r (nextIdx t i))).map (substTok e.vals t i ++ ·) := by
  by_cases hv : t.isVar = true
  · simp [Tok.piece, hv, pct_var, nextIdx, substTok, eval_var]
  · have hv' : t.isVar = false := by simpa using hv
    simp only [hv', Bool.false_or] at h
    simp only [Tok.piece, hv', nextIdx, substTok, Bool.false_eq_true, if_false]
    exact pct_plain hz P hh e _ r i h

theorem br_tok (hz : Char → Bool) (P : Char → Bool) (hh : BrOk hz P) (e : Env) (t : Tok) (r : Str) (i : Nat)
    (h : (t.isVar || t.text.all P) = true) :
    eval e (br hz (t.piece ['{', '}'] ++ r) i) =
      (eval e (br hz r (nextIdx t i))).map (substTok e.vals t i ++ ·) := by
  by_cases hv : t.isVar = true
  · simp [Tok.piece, hv, br_var, nextIdx, substTok, eval_var]
  · have hv' : t.isVar = false := by simpa using hv
    simp only [hv', Bool.false_or] at h
    simp only [Tok.piece, hv', nextIdx, substTok, Bool.false_eq_true, if_false]
    exact br_plain hz P hh e _ r i h

theorem pct_tail (hz : Char → Bool) (P : Char → Bool) (hh : PctOk hz P) (e : Env) (ts : List Tok) (r : Str) (i : Nat)
    (h : tokensOk P ts = true) :
    eval e (pct hz (renderTail ['%', 's'] ts ++ r) i) =
      (eval e (pct hz r (endIdx ts i))).map (substTail e.vals ts i ++ ·) := by
  induction ts generalizing i with
  | nil => simp [renderTail, substTail, endIdx]
  | cons t ts ih =>
    simp only [tokensOk, List.all_cons, Bool.and_eq_true] at h
    have hd := pct_plain hz P hh e ['.'] (t.piece ['%', 's'] ++ (renderTail ['%', 's'] ts ++ r)) i (by simp [hh.dot])
    simp only [renderTail, substTail, endIdx, List.cons_append, List.append_assoc]
    simp only [List.cons_append, List.nil_append] at hd
    rw [hd, pct_tok hz P hh e t _ _ h.1, ih _ (by simpa [tokensOk] using h.2)]
    cases eval e (pct hz r (endIdx ts (nextIdx t i))) <;> simp

theorem br_tail (hz : Char → Bool) (P : Char → Bool) (hh : BrOk hz P) (e : Env) (ts : List Tok) (r : Str) (i : Nat)
    (h : tokensOk P ts = true) :
    eval e (br hz (renderTail ['{', '}'] ts ++ r) i) =
      (eval e (br hz r (endIdx ts i))).map (substTail e.vals ts i ++ ·) := by
  induction ts generalizing i with
  | nil => simp [renderTail, substTail, endIdx]
  | cons t ts ih =>
    simp only [tokensOk, List.all_cons, Bool.and_eq_true] at h
    have hd := br_plain hz P hh e ['.'] (t.piece ['{', '}'] ++ (renderTail ['{', '}'] ts ++ r)) i (by simp [hh.dot])
    simp only [renderTail, substTail, endIdx, List.cons_append, List.append_assoc]
    simp only [List.cons_append, List.nil_append] at hd
    rw [hd, br_tok hz P hh e t _ _ h.1, ih _ (by simpa [tokensOk] using h.2)]
    cases eval e (br hz r (endIdx ts (nextIdx t i))) <;> simp

/-- Go / Java / generation-time Sprintf over the whole prefix template followed by the delimiter. -/
theorem pct_prefix (hz : Char → Bool) (P : Char → Bool) (hh : PctOk hz P) (e : Env) (ts : List Tok) (delim : Str)
    (h : tokensOk P ts = true) (hd : delim.all P = true) (hne : ts ≠ []) :
    eval e (pct hz (render ['%', 's'] ts ++ delim) 0) = some (substPrefix e.vals ts ++ delim) := by
  cases ts with
  | nil => exact absurd rfl hne
  | cons t ts =>
    simp only [tokensOk, List.all_cons, Bool.and_eq_true] at h
    simp only [render, substPrefix, List.append_assoc]
    rw [pct_tok hz P hh e t _ _ h.1, pct_tail hz P hh e ts delim _ (by simpa [tokensOk] using h.2)]
    have := pct_plain hz P hh e delim [] (endIdx ts (nextIdx t 0)) hd
    simp only [List.append_nil] at this
    rw [this]; simp [pct, eval]

theorem br_prefix (hz : Char → Bool) (P : Char → Bool) (hh : BrOk hz P) (e : Env) (ts : List Tok) (delim : Str)
    (h : tokensOk P ts = true) (hd : delim.all P = true) (hne : ts ≠ []) :
    eval e (br hz (render ['{', '}'] ts ++ delim) 0) = some (substPrefix e.vals ts ++ delim) := by
  cases ts with
  | nil => exact absurd rfl hne
  | cons t ts =>
    simp only [tokensOk, List.all_cons, Bool.and_eq_true] at h
    simp only [render, substPrefix, List.append_assoc]
    rw [br_tok hz P hh e t _ _ h.1, br_tail hz P hh e ts delim _ (by simpa [tokensOk] using h.2)]
    have := br_plain hz P hh e delim [] (endIdx ts (nextIdx t 0)) hd
    simp only [List.append_nil] at this
    rw [this]; simp [br, eval]

theorem litq_plain (hz : Char → Bool) (P : Char → Bool) (hh : LitOk hz P) (e : Env) (s : Str)
    (h : s.all P = true) : eval e (litq hz s) = some s := by
  induction s with
  | nil => rfl
  | cons c s ih =>
    simp only [List.all_cons, Bool.and_eq_true] at h
    simp only [litq, List.map_cons, hh.ne c h.1, Bool.false_eq_true, if_false, eval_lit]
    have := ih h.2
    simp only [litq] at this
    rw [this]; rfl

/-! Dart -/
def refs (names : List Str) : List Str := names.map (fun v => '$' :: v)

theorem idxOf_of_drop (names : List Str) (i : Nat) (n : Str) (rest : List Str)
    (hnd : names.Nodup) (h : names.drop i = n :: rest) : names.idxOf n = i := by
  induction names generalizing i with
  | nil => simp at h
  | cons a as ih =>
    cases i with
    | zero =>
      simp only [List.drop_zero, List.cons.injEq] at h
      rw [h.1]; exact List.idxOf_cons_self
    | succ k =>
      simp only [List.drop_succ_cons] at h
      have hmem : n ∈ as := by
        have : n ∈ as.drop k := by rw [h]; simp
        exact List.mem_of_mem_drop this
      rw [List.nodup_cons] at hnd
      have hne : a ≠ n := fun e => hnd.1 (e ▸ hmem)
      rw [List.idxOf_cons]
      have : (a == n) = false := by simpa using hne
      rw [this, ih k hnd.2 h]; rfl

theorem resolve_of_drop (names : List Str) (i : Nat) (n : Str) (rest : List Str)
    (hnd : names.Nodup) (h : names.drop i = n :: rest) (hne : n ≠ []) : resolve names n = .var i := by
  have hmem : n ∈ names := List.mem_of_mem_drop (by rw [h]; simp)
  simp [resolve, hmem, hne, idxOf_of_drop names i n rest hnd h]

theorem refs_getD (names : List Str) (i : Nat) (n : Str) (rest : List Str) (h : names.drop i = n :: rest) :
    (refs names).getD i [] = '$' :: n := by
  have : names[i]? = some n := by
    have := congrArg List.head? h
    simpa [List.head?_drop] using this
  simp [refs, List.getD, this]

theorem dol_none_plain (names : List Str) (c : Char) (t : Str) (hc : c ≠ '$') (hz : hzSQ c = false) :
    dolAux names none (c :: t) = .lit [c] :: dolAux names none t := by
  simp [dolAux, hc, hz]

theorem dol_plain (names : List Str) (P : Char → Bool) (hh : DolOk P) (e : Env) (s r : Str)
    (h : s.all P = true) :
    eval e (dolAux names none (s ++ r)) = (eval e (dolAux names none r)).map (s ++ ·) := by
  induction s with
  | nil => simp
  | cons c s ih =>
    simp only [List.all_cons, Bool.and_eq_true] at h
    have hc := hh.ne c h.1
    rw [List.cons_append, dol_none_plain names c _ hc.1 hc.2, eval_lit, ih h.2]
    cases eval e (dolAux names none r) <;> simp

theorem dol_name_end (names : List Str) (n acc : Str) (h : n.all isWordChar = true) :
    dolAux names (some acc) n = [resolve names (acc ++ n)] := by
  induction n generalizing acc with
  | nil => simp [dolAux]
  | cons c n ih =>
    simp only [List.all_cons, Bool.and_eq_true] at h
    simp only [dolAux, h.1, if_true]
    rw [ih _ h.2]; simp

theorem dol_name_then (names : List Str) (n acc : Str) (c : Char) (r : Str) (h : n.all isWordChar = true)
    (hw : isWordChar c = false) (hc : c ≠ '$') (hz : hzSQ c = false) :
    dolAux names (some acc) (n ++ c :: r) = resolve names (acc ++ n) :: .lit [c] :: dolAux names none r := by
  induction n generalizing acc with
  | nil => simp [dolAux, hw, hc, hz]
  | cons d n ih =>
    simp only [List.all_cons, Bool.and_eq_true] at h
    simp only [List.cons_append, dolAux, h.1, if_true]
    rw [ih _ h.2]; simp

/-- what may follow a `$name`: nothing, or a character that ends the identifier and is plain text -/
def OkFollow (F : Str) : Prop := ∀ c F', F = c :: F' → isWordChar c = false ∧ c ≠ '$' ∧ hzSQ c = false

theorem dol_tok (names : List Str) (P : Char → Bool) (hh : DolOk P) (e : Env) (t : Tok) (F : Str) (i : Nat)
    (h : (t.isVar || t.text.all P) = true)
    (hn : ∀ n, t.varName = some n → (refs names).getD i [] = '$' :: n ∧ resolve names n = .var i)
    (hF : t.isVar = true → OkFollow F) :
    eval e (dolAux names none (substTok (refs names) t i ++ F)) =
      (eval e (dolAux names none F)).map (substTok e.vals t i ++ ·) := by
  by_cases hv : t.isVar = true
  · cases t with
    | word s => simp [Tok.isVar] at hv
    | braced n =>
      simp only [Tok.isVar] at hv
      have := hn n (by simp [Tok.varName, hv])
      simp only [substTok, Tok.isVar, hv, if_true, this.1, List.cons_append]
      have hd : dolAux names none ('$' :: (n ++ F)) = dolAux names (some []) (n ++ F) := by simp [dolAux]
      rw [hd]
      cases F with
      | nil =>
        rw [List.append_nil, dol_name_end names n [] hv]
        simp [this.2, dolAux, eval, evalSeg]
      | cons c F' =>
        have hf := hF (by simp [Tok.isVar, hv]) c F' rfl
        rw [dol_name_then names n [] c F' hv hf.1 hf.2.1 hf.2.2, dol_none_plain names c F' hf.2.1 hf.2.2]
        simp only [List.nil_append, this.2, eval_var]
  · have hv' : t.isVar = false := by simpa using hv
    simp only [hv', Bool.false_or] at h
    simp only [substTok, hv', Bool.false_eq_true, if_false]
    exact dol_plain names P hh e _ F h

theorem dot_follow (F : Str) : OkFollow ('.' :: F) := by
  intro c F' h
  simp only [List.cons.injEq] at h
  rw [← h.1]; decide

theorem dol_tail (names : List Str) (P : Char → Bool) (hh : DolOk P) (e : Env) (ts : List Tok) (r : Str) (i : Nat)
    (h : tokensOk P ts = true) (hnd : names.Nodup) (hdrop : names.drop i = varNames ts)
    (hne : ∀ n ∈ names, n ≠ [])
    (hr : lastIsVar ts = true → OkFollow r) :
    eval e (dolAux names none (substTail (refs names) ts i ++ r)) =
      (eval e (dolAux names none r)).map (substTail e.vals ts i ++ ·) := by
  induction ts generalizing i with
  | nil => simp [substTail]
  | cons t ts ih =>
    simp only [tokensOk, List.all_cons, Bool.and_eq_true] at h
    have hdot := dol_plain names P hh e ['.'] (substTok (refs names) t i ++ (substTail (refs names) ts (nextIdx t i) ++ r)) (by simp [hh.dot])
    simp only [List.cons_append, List.nil_append] at hdot
    simp only [substTail, List.cons_append, List.append_assoc]
    have hnext : names.drop (nextIdx t i) = varNames ts := by
      cases hv : t.varName with
      | none =>
        have : t.isVar = false := by cases t <;> simp_all [Tok.varName, Tok.isVar]
        simp [varNames, hv] at hdrop
        simpa [nextIdx, this, varNames] using hdrop
      | some n =>
        have : t.isVar = true := by
          cases t with
          | word s => simp [Tok.varName] at hv
          | braced s => by_cases hs : s.all isWordChar = true <;> simp_all [Tok.varName, Tok.isVar]
        simp [varNames, hv] at hdrop
        have h2 := congrArg List.tail hdrop
        simp only [List.tail_drop, List.tail_cons] at h2
        simpa [nextIdx, this, varNames] using h2
    have hn : ∀ n, t.varName = some n → (refs names).getD i [] = '$' :: n ∧ resolve names n = .var i := by
      intro n hv
      have hd : names.drop i = n :: varNames ts := by
        simpa [varNames, List.filterMap_cons, hv] using hdrop
      have hmem : n ∈ names := List.mem_of_mem_drop (by rw [hd]; simp)
      exact ⟨refs_getD names i n _ hd, resolve_of_drop names i n _ hnd hd (hne n hmem)⟩
    have hF : t.isVar = true → OkFollow (substTail (refs names) ts (nextIdx t i) ++ r) := by
      intro hv
      cases ts with
      | nil => simpa [substTail] using hr (by simp [lastIsVar, hv])
      | cons u us => simp only [substTail, List.cons_append]; exact dot_follow _
    have hr' : lastIsVar ts = true → OkFollow r := by
      intro hl
      cases ts with
      | nil => simp [lastIsVar] at hl
      | cons u us => exact hr (by simpa [lastIsVar] using hl)
    rw [hdot, dol_tok names P hh e t _ i h.1 hn hF, ih _ (by simpa [tokensOk] using h.2) hnext hr']
    cases eval e (dolAux names none r) <;> simp


/-! ## Assembly: the generated prefix expression evaluates to the substituted prefix -/


theorem eval_append (e : Env) (a b : Template) (x : Str) (h : eval e a = some x) :
    eval e (a ++ b) = (eval e b).map (x ++ ·) := by
  induction a generalizing x with
  | nil =>
    simp only [eval, Option.some.injEq] at h; subst h
    cases hb : eval e b <;> simp [hb]
  | cons s a ih =>
    simp only [eval] at h
    cases hs : evalSeg e s with
    | none => simp [hs] at h
    | some y =>
      cases ha : eval e a with
      | none => simp [hs, ha] at h
      | some z =>
        simp only [hs, ha, Option.some.injEq] at h
        subst h
        simp only [List.cons_append, eval, hs, ih z ha]
        cases eval e b <;> simp

theorem varName_none_iff (t : Tok) : t.varName = none ↔ t.isVar = false := by
  cases t with
  | word s => simp [Tok.varName, Tok.isVar]
  | braced s => by_cases h : s.all isWordChar = true <;> simp [Tok.varName, Tok.isVar, h]

theorem novars_all (ts : List Tok) (h : varNames ts = []) : ∀ t ∈ ts, t.isVar = false := by
  intro t ht
  rw [← varName_none_iff]
  cases hv : t.varName with
  | none => rfl
  | some n =>
    have : n ∈ varNames ts := by
      simp only [varNames, List.mem_filterMap]; exact ⟨t, ht, hv⟩
    rw [h] at this; simp at this

theorem novars_tail (repl : Str) (vals : List Str) (ts : List Tok) (i : Nat) (h : ∀ t ∈ ts, t.isVar = false) :
    renderTail repl ts = tailString ts ∧ substTail vals ts i = tailString ts := by
  induction ts generalizing i with
  | nil => exact ⟨rfl, rfl⟩
  | cons t ts ih =>
    have ht := h t (by simp)
    have := ih (nextIdx t i) (fun u hu => h u (by simp [hu]))
    simp [renderTail, substTail, tailString, Tok.piece, substTok, ht, this.1, this.2]

theorem novars_prefix (repl : Str) (vals : List Str) (ts : List Tok) (h : ∀ t ∈ ts, t.isVar = false) :
    render repl ts = prefixString ts ∧ substPrefix vals ts = prefixString ts := by
  cases ts with
  | nil => exact ⟨rfl, rfl⟩
  | cons t ts =>
    have ht := h t (by simp)
    have := novars_tail repl vals ts (nextIdx t 0) (fun u hu => h u (by simp [hu]))
    simp [render, substPrefix, prefixString, Tok.piece, substTok, ht, this.1, this.2]

theorem all_tail (P : Char → Bool) (hdot : P '.' = true) (ts : List Tok) (h : tokensOk P ts = true)
    (hv : ∀ t ∈ ts, t.isVar = false) : (tailString ts).all P = true := by
  induction ts with
  | nil => rfl
  | cons t ts ih =>
    simp only [tokensOk, List.all_cons, Bool.and_eq_true] at h
    have ht := hv t (by simp)
    have h1 : t.text.all P = true := by simpa [ht] using h.1
    have h2 := ih (by simpa [tokensOk] using h.2) (fun u hu => hv u (by simp [hu]))
    simp only [tailString, List.all_cons, List.all_append, hdot, h1, h2, Bool.and_self]

theorem all_prefix (P : Char → Bool) (hdot : P '.' = true) (ts : List Tok) (h : tokensOk P ts = true)
    (hv : ∀ t ∈ ts, t.isVar = false) : (prefixString ts).all P = true := by
  cases ts with
  | nil => rfl
  | cons t ts =>
    simp only [tokensOk, List.all_cons, Bool.and_eq_true] at h
    have ht := hv t (by simp)
    have h1 : t.text.all P = true := by simpa [ht] using h.1
    have h2 := all_tail P hdot ts (by simpa [tokensOk] using h.2) (fun u hu => hv u (by simp [hu]))
    simp only [prefixString, List.all_append, h1, h2, Bool.and_self]

theorem all_mono (P Q : Char → Bool) (hPQ : ∀ c, P c = true → Q c = true) (s : Str) (h : s.all P = true) :
    s.all Q = true := by
  rw [List.all_eq_true] at h ⊢
  exact fun c hc => hPQ c (h c hc)

theorem tokensOk_mono (P Q : Char → Bool) (hPQ : ∀ c, P c = true → Q c = true) (ts : List Tok)
    (h : tokensOk P ts = true) : tokensOk Q ts = true := by
  simp only [tokensOk, List.all_eq_true, Bool.or_eq_true] at h ⊢
  intro t ht
  rcases h t ht with hv | hp
  · exact Or.inl hv
  · exact Or.inr (fun c hc => hPQ c (hp c hc))

/-! The exact class: which characters each language reads as text -/

theorem plain_safe (l : Lang) (hv : Bool) (c : Char) (h : plainChar c = true) : safeChar l hv c = true := by
  have := plain_ne c h
  have h5 := this.2.2.2.2.1
  have h6 := this.2.2.2.2.2
  simp only [hzSQ, hzDQ, Bool.or_eq_false_iff, beq_eq_false_iff_ne] at h5 h6
  cases l <;> cases hv <;> simp [safeChar, hazard, this.1, this.2.1, this.2.2.1, this.2.2.2.1, h5.1, h5.2, h6.1]

theorem safe_dot (l : Lang) (hv : Bool) : safeChar l hv '.' = true := plain_safe l hv '.' dot_plain

theorem litOk_dq (l : Lang) (hl : l = .go ∨ l = .java) : LitOk hzDQ (safeChar l false) := by
  refine ⟨?_, safe_dot l false⟩
  intro c h
  rcases hl with rfl | rfl <;> simpa [safeChar, hazard, hzDQ] using h

theorem pctOk_dq (l : Lang) (hl : l = .go ∨ l = .java) : PctOk hzDQ (safeChar l true) := by
  refine ⟨?_, safe_dot l true⟩
  intro c h
  rcases hl with rfl | rfl <;>
  · simp only [safeChar, hazard, Bool.true_and, Bool.not_eq_true', Bool.or_eq_false_iff, beq_eq_false_iff_ne] at h
    exact ⟨h.2, by simp [hzDQ, h.1.1, h.1.2]⟩

theorem litOk_sq (l : Lang) (hl : l.isPython = true) : LitOk hzSQ (safeChar l false) := by
  refine ⟨?_, safe_dot l false⟩
  intro c h
  cases l <;> simp [Lang.isPython] at hl <;> simpa [safeChar, hazard, hzSQ] using h

theorem brOk_sq (l : Lang) (hl : l.isPython = true) : BrOk hzSQ (safeChar l true) := by
  refine ⟨?_, safe_dot l true⟩
  intro c h
  cases l <;> simp [Lang.isPython] at hl <;>
  · simp only [safeChar, hazard, Bool.true_and, Bool.not_eq_true', Bool.or_eq_false_iff, beq_eq_false_iff_ne] at h
    exact ⟨h.2.1, h.2.2, by simp [hzSQ, h.1.1, h.1.2]⟩

theorem dolOk_dart (hv : Bool) : DolOk (safeChar .dart hv) := by
  refine ⟨?_, safe_dot .dart hv⟩
  intro c h
  cases hv
  · simp only [safeChar, hazard, Bool.false_and, Bool.or_false, Bool.not_eq_true', Bool.or_eq_false_iff, beq_eq_false_iff_ne] at h
    exact ⟨h.2, by simp [hzSQ, h.1.1, h.1.2]⟩
  · simp only [safeChar, hazard, Bool.true_and, Bool.not_eq_true', Bool.or_eq_false_iff, beq_eq_false_iff_ne] at h
    exact ⟨h.1.2, by simp [hzSQ, h.1.1.1, h.1.1.2]⟩

theorem pctOk_dart : PctOk hzNone (safeChar .dart true) := by
  refine ⟨?_, safe_dot .dart true⟩
  intro c h
  simp only [safeChar, hazard, Bool.true_and, Bool.not_eq_true', Bool.or_eq_false_iff, beq_eq_false_iff_ne] at h
  exact ⟨h.2, rfl⟩

theorem prefixString_ne_nil (t : Tok) (ts : List Tok) (h : t.wf = true) : prefixString (t :: ts) ≠ [] := by
  simp only [Tok.wf, Bool.and_eq_true] at h
  cases t with
  | word s =>
    cases s with
    | nil => simp [Tok.inner] at h
    | cons c s => simp [prefixString, Tok.text]
  | braced s => simp [prefixString, Tok.text]

/-- The hypotheses under which language `l` reads the pasted prefix as text and variables:
grammar-conformant tokens, static tokens outside the EXACT class of the finding
prefix-token-format-chars for `l` (`safeTokens`), a plain delimiter. -/
structure SafeScope (l : Lang) (sc : Scope) (delim : Str) : Prop where
  wf : ∀ t ∈ sc.pfx, t.wf = true
  safe : safeTokens l sc = true
  pdelim : plainStr delim = true

/-- The stronger, language-independent hypothesis: no format / quoting character at all. -/
structure PlainScope (sc : Scope) (delim : Str) : Prop where
  wf : ∀ t ∈ sc.pfx, t.wf = true
  plain : plainTokens sc.pfx = true
  pdelim : plainStr delim = true

theorem PlainScope.safe' {sc : Scope} {delim : Str} (h : PlainScope sc delim) (l : Lang) : SafeScope l sc delim :=
  ⟨h.wf, tokensOk_mono plainChar _ (plain_safe l _) sc.pfx h.plain, h.pdelim⟩

theorem vars_eq (sc : Scope) (h : ∀ t ∈ sc.pfx, t.wf = true) : sc.vars = varNames sc.pfx :=
  scanVars_prefixString sc.pfx h

def prefixVal (sc : Scope) (vals : List Str) (delim : Str) : Str :=
  if sc.pfx = [] then [] else substPrefix vals sc.pfx ++ delim

theorem delim_all (l : Lang) (hv : Bool) (delim : Str) (h : plainStr delim = true) :
    delim.all (safeChar l hv) = true :=
  all_mono plainChar _ (plain_safe l hv) delim h

theorem prefixPct_eval (l : Lang) (hl : l = .go ∨ l = .java) (e : Env) (sc : Scope) (delim : Str)
    (h : SafeScope l sc delim) :
    eval e (prefixPct sc.pfxStr delim sc.vars) = some (prefixVal sc e.vals delim) := by
  have hsafe := h.safe
  unfold safeTokens at hsafe
  rw [vars_eq sc h.wf] at hsafe ⊢
  unfold prefixPct prefixVal Scope.pfxStr
  cases hp : sc.pfx with
  | nil => simp [varNames, prefixString, eval]
  | cons t ts =>
    have hwf : ∀ u ∈ t :: ts, u.wf = true := hp ▸ h.wf
    rw [hp] at hsafe
    have hne := prefixString_ne_nil t ts (hwf t (by simp))
    by_cases hv : varNames (t :: ts) = []
    · have hall := novars_all _ hv
      have hs := (novars_prefix [] e.vals _ hall).2
      simp only [hv, List.isEmpty_nil, Bool.not_true] at hsafe
      have hps := all_prefix _ (safe_dot l false) _ hsafe hall
      rw [if_pos hv, if_neg hne, if_neg (by simp), hs]
      apply litq_plain hzDQ _ (litOk_dq l hl)
      simp only [List.all_append, hps, delim_all l false delim h.pdelim, Bool.and_self]
    · have hemp : (varNames (t :: ts)).isEmpty = false := by
        cases hvn : varNames (t :: ts) with
        | nil => exact absurd hvn hv
        | cons _ _ => rfl
      simp only [hemp, Bool.not_false] at hsafe
      rw [if_neg hv, if_neg (by simp), templateStr_prefixString _ _ hwf]
      exact pct_prefix hzDQ _ (pctOk_dq l hl) e _ delim hsafe (delim_all l true delim h.pdelim) (by simp)

theorem prefixPy_eval (l : Lang) (hl : l.isPython = true) (e : Env) (sc : Scope) (delim : Str)
    (h : SafeScope l sc delim) :
    eval e (prefixPy sc.pfxStr delim sc.vars) = some (prefixVal sc e.vals delim) := by
  have hsafe := h.safe
  unfold safeTokens at hsafe
  rw [vars_eq sc h.wf] at hsafe ⊢
  unfold prefixPy prefixVal Scope.pfxStr
  cases hp : sc.pfx with
  | nil => simp [varNames, prefixString, eval]
  | cons t ts =>
    have hwf : ∀ u ∈ t :: ts, u.wf = true := hp ▸ h.wf
    rw [hp] at hsafe
    have hne := prefixString_ne_nil t ts (hwf t (by simp))
    by_cases hv : varNames (t :: ts) = []
    · have hall := novars_all _ hv
      have hs := (novars_prefix [] e.vals _ hall).2
      simp only [hv, List.isEmpty_nil, Bool.not_true] at hsafe
      have hps := all_prefix _ (safe_dot l false) _ hsafe hall
      rw [if_pos hv, if_neg hne, if_neg (by simp), hs]
      apply litq_plain hzSQ _ (litOk_sq l hl)
      simp only [List.all_append, hps, delim_all l false delim h.pdelim, Bool.and_self]
    · have hemp : (varNames (t :: ts)).isEmpty = false := by
        cases hvn : varNames (t :: ts) with
        | nil => exact absurd hvn hv
        | cons _ _ => rfl
      simp only [hemp, Bool.not_false] at hsafe
      rw [if_neg hv, if_neg (by simp), templateStr_prefixString _ _ hwf]
      exact br_prefix hzSQ _ (brOk_sq l hl) e _ delim hsafe (delim_all l true delim h.pdelim) (by simp)

theorem okFollow_delim (delim : Str) (hd : plainStr delim = true) (hs : identStart delim = false) :
    OkFollow delim := by
  intro c F' hF
  subst hF
  simp only [plainStr, List.all_cons, Bool.and_eq_true] at hd
  have := plain_ne c hd.1
  exact ⟨by simpa [identStart] using hs, this.2.2.2.1, this.2.2.2.2.1⟩

theorem identOk_ne_nil (n : Str) (h : identOk n = true) : n ≠ [] := by
  intro e; subst e; simp [identOk] at h

theorem prefixDart_eval (e : Env) (sc : Scope) (delim : Str) (h : SafeScope .dart sc delim)
    (hnd : sc.vars.Nodup) (hid : sc.vars.all identOk = true) (hsafe : dartSafe sc.pfx delim = true) :
    eval e (prefixDart sc.pfxStr delim sc.vars) = some (prefixVal sc e.vals delim) := by
  have hst := h.safe
  unfold safeTokens at hst
  rw [vars_eq sc h.wf] at hnd hid hst ⊢
  unfold prefixDart dartSrc prefixVal Scope.pfxStr
  cases hp : sc.pfx with
  | nil => simp [prefixString, dolAux, eval]
  | cons t ts =>
    have hwf : ∀ u ∈ t :: ts, u.wf = true := hp ▸ h.wf
    have hne := prefixString_ne_nil t ts (hwf t (by simp))
    rw [hp] at hnd hid hsafe hst
    by_cases hv : varNames (t :: ts) = []
    · have hall := novars_all _ hv
      have hs := (novars_prefix [] e.vals _ hall).2
      have hr := (novars_prefix ['%', 's'] e.vals _ hall).1
      simp only [hv, List.isEmpty_nil, Bool.not_true] at hst
      have hps := all_prefix _ (safe_dot .dart false) _ hst hall
      rw [if_neg hne, if_pos hv, if_neg (by simp), hs, templateStr_prefixString _ _ hwf, hr]
      simp only
      have := dol_plain (varNames (t :: ts)) _ (dolOk_dart false) e (prefixString (t :: ts) ++ delim) [] (by
        simp only [List.all_append, hps, delim_all .dart false delim h.pdelim, Bool.and_self])
      simp only [List.append_nil] at this
      rw [this]; simp [dolAux, eval]
    · have hemp : (varNames (t :: ts)).isEmpty = false := by
        cases hvn : varNames (t :: ts) with
        | nil => exact absurd hvn hv
        | cons _ _ => rfl
      simp only [hemp, Bool.not_false] at hst
      rw [if_neg hne, if_neg hv, if_neg (by simp), templateStr_prefixString _ _ hwf]
      have h1 := pct_prefix hzNone _ pctOk_dart ⟨(varNames (t :: ts)).map (fun v => '$' :: v), [], [], []⟩ (t :: ts) delim hst (delim_all .dart true delim h.pdelim) (by simp)
      rw [h1]
      simp only
      -- the Dart source text is the prefix with `$name` for every variable, then the delimiter
      have hne' : ∀ n ∈ varNames (t :: ts), n ≠ [] := fun n hn => identOk_ne_nil n (List.all_eq_true.1 hid n hn)
      have hfollow : lastIsVar (t :: ts) = true → OkFollow delim := by
        intro hl
        apply okFollow_delim delim h.pdelim
        simpa [dartSafe, hl] using hsafe
      have hdelim := dol_plain (varNames (t :: ts)) _ (dolOk_dart true) e delim [] (delim_all .dart true delim h.pdelim)
      simp only [List.append_nil] at hdelim
      simp only [tokensOk, List.all_cons, Bool.and_eq_true] at hst
      simp only [substPrefix, List.append_assoc]
      change eval e (dolAux (varNames (t :: ts)) none (substTok (refs (varNames (t :: ts))) t 0 ++ (substTail (refs (varNames (t :: ts))) ts (nextIdx t 0) ++ delim))) = _
      have hnext : (varNames (t :: ts)).drop (nextIdx t 0) = varNames ts := by
        cases hvn : t.varName with
        | none =>
          have : t.isVar = false := (varName_none_iff t).1 hvn
          simp [varNames, hvn, nextIdx, this]
        | some n =>
          have : t.isVar = true := by
            cases ht : t.isVar with
            | true => rfl
            | false => rw [(varName_none_iff t).2 ht] at hvn; cases hvn
          simp [varNames, hvn, nextIdx, this]
      have hn : ∀ n, t.varName = some n → (refs (varNames (t :: ts))).getD 0 [] = '$' :: n ∧ resolve (varNames (t :: ts)) n = .var 0 := by
        intro n hvn
        have hd0 : (varNames (t :: ts)).drop 0 = n :: varNames ts := by simp [varNames, hvn]
        have hmem : n ∈ varNames (t :: ts) := List.mem_of_mem_drop (by rw [hd0]; simp)
        exact ⟨refs_getD _ 0 n _ hd0, resolve_of_drop _ 0 n _ hnd hd0 (hne' n hmem)⟩
      have hF : t.isVar = true → OkFollow (substTail (refs (varNames (t :: ts))) ts (nextIdx t 0) ++ delim) := by
        intro hvt
        cases ts with
        | nil => simpa [substTail] using hfollow (by simp [lastIsVar, hvt])
        | cons u us => simp only [substTail, List.cons_append]; exact dot_follow _
      have hr' : lastIsVar ts = true → OkFollow delim := by
        intro hl
        cases ts with
        | nil => simp [lastIsVar] at hl
        | cons u us => exact hfollow (by simpa [lastIsVar] using hl)
      rw [dol_tok _ _ (dolOk_dart true) e t _ 0 hst.1 hn hF,
        dol_tail _ _ (dolOk_dart true) e ts delim _ (by simpa [tokensOk] using hst.2) hnd hnext hne' hr', hdelim]
      simp [dolAux, eval]

/-! ## Binding of arguments to parameters, forwarding -/


theorem lookupVal_cons_self (v a : Str) (env : List (Str × Str)) : lookupVal ((v, a) :: env) v = a := by
  simp [lookupVal, List.lookup]

theorem lookupVal_cons_ne (v a n : Str) (env : List (Str × Str)) (h : n ≠ v) :
    lookupVal ((v, a) :: env) n = lookupVal env n := by
  have : (n == v) = false := by simpa using h
  simp [lookupVal, List.lookup, this]

/-- Binding the i-th value to the i-th (distinct) name and reading the names back in order
returns the values: a call is the identity on the argument list. -/
theorem map_lookup_zip (vars vals : List Str) (hnd : vars.Nodup) (hl : vals.length = vars.length) :
    vars.map (lookupVal (vars.zip vals)) = vals := by
  induction vars generalizing vals with
  | nil => cases vals with
    | nil => rfl
    | cons a as => simp at hl
  | cons v vs ih =>
    cases vals with
    | nil => simp at hl
    | cons a as =>
      rw [List.nodup_cons] at hnd
      simp only [List.length_cons, Nat.add_right_cancel_iff] at hl
      simp only [List.zip_cons_cons, List.map_cons, lookupVal_cons_self]
      congr 1
      have : vs.map (lookupVal ((v, a) :: vs.zip as)) = vs.map (lookupVal (vs.zip as)) := by
        apply List.map_congr_left
        intro n hn
        exact lookupVal_cons_ne v a n _ (fun e => hnd.1 (e ▸ hn))
      rw [this, ih as hnd.2 hl]

theorem runChain_identity (l : Lang) (e : Entry) (vars args : List Str) (hnd : vars.Nodup)
    (hl : args.length = vars.length) : runChain (chain l e vars) args = args := by
  cases l <;> cases e <;> simp [chain, runChain, map_lookup_zip vars args hnd hl]

theorem reachVals_identity (l : Lang) (e : Entry) (vars args : List Str) (hnd : vars.Nodup)
    (hl : args.length = vars.length) : reachVals l e vars args = args := by
  unfold reachVals
  rw [runChain_identity l e vars args hnd hl, map_lookup_zip vars args hnd hl]

/-- reading a value back through the binding: position of the name -/
theorem lookup_zip_getElem (vars vals : List Str) (hnd : vars.Nodup) (hl : vals.length = vars.length)
    (i : Nat) (hi : i < vars.length) :
    lookupVal (vars.zip vals) vars[i] = vals[i]'(hl ▸ hi) := by
  have h := map_lookup_zip vars vals hnd hl
  have := congrArg (fun l => l[i]?) h
  simp only [List.getElem?_map, List.getElem?_eq_getElem hi, Option.map_some] at this
  rw [List.getElem?_eq_getElem (hl ▸ hi)] at this
  exact Option.some.inj this

/-- Why the harness uses pairwise different values: if a forwarding call passes the names in ANY
other order / with a name repeated or replaced (a list `fwd` of declared names, of the right
length, different from the declaration order), the callee receives a different value list. -/
theorem forwarding_detected (vars vals fwd : List Str) (hnd : vars.Nodup) (hv : vals.Nodup)
    (hl : vals.length = vars.length) (hf : fwd.length = vars.length) (hmem : ∀ n ∈ fwd, n ∈ vars)
    (heq : fwd.map (lookupVal (vars.zip vals)) = vals) : fwd = vars := by
  apply List.ext_getElem hf
  intro i h1 h2
  have hi : i < vals.length := hl ▸ h2
  -- fwd[i] is some vars[j]
  obtain ⟨j, hj, hji⟩ := List.getElem_of_mem (hmem fwd[i] (List.getElem_mem h1))
  have e1 : (fwd.map (lookupVal (vars.zip vals)))[i]'(by simpa using h1) = vals[i] := by
    simp only [heq]
  simp only [List.getElem_map] at e1
  rw [← hji, lookup_zip_getElem vars vals hnd hl j hj] at e1
  have : j = i := (List.getElem_inj hv).1 e1
  subst this
  exact hji.symm


end FV.Topic
