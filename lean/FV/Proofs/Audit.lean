/-
Lemmas for C18 (`FV/Props/C18.lean`): Go map idioms (`findLast?`, `dedupLast`), typedef
expansion (`resolve?` is monotone in its fuel, `underlying` reaches a head-normal type),
`checkType` logs a mismatch iff the expansions differ, every checker of the audit model
against the corresponding part of the documented catalogue, one-hole type contexts, and the
relation of compatible edits.
-/
import FV.Model.Audit
import FV.Spec.Breaking
namespace FV.AuditProofs
open FV.Idl FV.Audit FV.Breaking

/-! ### findLast?, dedupLast -/

theorem findLast?_eq_none {p : α → Bool} {l : List α} :
    findLast? p l = none ↔ ∀ a ∈ l, p a = false := by
  induction l with
  | nil => simp [findLast?]
  | cons a l ih =>
    simp only [findLast?, List.mem_cons, forall_eq_or_imp]
    cases h : findLast? p l with
    | some b =>
      simp only [reduceCtorEq, false_iff]
      intro ⟨_, h2⟩
      rw [ih.mpr h2] at h; cases h
    | none =>
      have := ih.mp h
      cases hp : p a
      · simpa using this
      · simp

theorem findLast?_some {p : α → Bool} {l : List α} {b : α} :
    findLast? p l = some b → b ∈ l ∧ p b = true := by
  induction l with
  | nil => simp [findLast?]
  | cons a l ih =>
    simp only [findLast?]
    cases h : findLast? p l with
    | some c =>
      intro hc; cases hc
      exact ⟨List.mem_cons_of_mem _ (ih h).1, (ih h).2⟩
    | none =>
      cases hp : p a
      · simp
      · intro hc; simp at hc; subst hc; exact ⟨List.mem_cons_self, hp⟩

/-- With at most one match in the list, the lookup finds exactly that match. -/
theorem findLast?_iff {p : α → Bool} {l : List α} {b : α}
    (huniq : ∀ x ∈ l, ∀ y ∈ l, p x = true → p y = true → x = y) :
    findLast? p l = some b ↔ b ∈ l ∧ p b = true := by
  constructor
  · exact findLast?_some
  · intro ⟨hb, hp⟩
    cases h : findLast? p l with
    | none => rw [findLast?_eq_none.mp h b hb] at hp; cases hp
    | some c =>
      have := findLast?_some h
      rw [huniq c this.1 b hb this.2 hp]

theorem uniq_of_nodup_map {key : α → κ} {l : List α} (h : (l.map key).Nodup) :
    ∀ x ∈ l, ∀ y ∈ l, key x = key y → x = y := by
  induction l with
  | nil => simp
  | cons a l ih =>
    rw [List.map_cons, List.nodup_cons] at h
    intro x hx y hy hk
    rcases List.mem_cons.mp hx with hxa | hx'
    · rcases List.mem_cons.mp hy with hya | hy'
      · rw [hxa, hya]
      · subst hxa; exact (h.1 (List.mem_map.mpr ⟨y, hy', hk.symm⟩)).elim
    · rcases List.mem_cons.mp hy with hya | hy'
      · subst hya; exact (h.1 (List.mem_map.mpr ⟨x, hx', hk⟩)).elim
      · exact ih h.2 x hx' y hy' hk

theorem dedupLast_of_nodup [DecidableEq κ] {key : α → κ} {l : List α} (h : (l.map key).Nodup) :
    dedupLast key l = l := by
  induction l with
  | nil => rfl
  | cons a l ih =>
    rw [List.map_cons, List.nodup_cons] at h
    have : l.any (fun b => key b = key a) = false := by
      rw [List.any_eq_false]
      intro b hb hk
      exact h.1 (List.mem_map.mpr ⟨b, hb, by simpa using hk⟩)
    simp [dedupLast, this, ih h.2]

/-! ### forOld -/

theorem any_forOld {olds : List α} {news : List β} {same : α → β → Bool}
    {both : α → β → List Finding} {missing : α → List Finding}
    (huniq : ∀ o ∈ olds, ∀ x ∈ news, ∀ y ∈ news, same o x = true → same o y = true → x = y) :
    (forOld olds news same both missing).any Finding.isError = true ↔
      (∃ o ∈ olds, ∃ n ∈ news, same o n = true ∧ (both o n).any Finding.isError = true)
      ∨ (∃ o ∈ olds, (∀ n ∈ news, same o n = false) ∧ (missing o).any Finding.isError = true) := by
  unfold forOld
  rw [List.any_flatMap, List.any_eq_true]
  constructor
  · rintro ⟨o, ho, h⟩
    cases hf : findLast? (same o) news with
    | some n =>
      rw [hf] at h
      have := findLast?_some hf
      exact Or.inl ⟨o, ho, n, this.1, this.2, h⟩
    | none =>
      rw [hf] at h
      exact Or.inr ⟨o, ho, findLast?_eq_none.mp hf, h⟩
  · rintro (⟨o, ho, n, hn, hs, h⟩ | ⟨o, ho, hnone, h⟩)
    · refine ⟨o, ho, ?_⟩
      rw [(findLast?_iff (huniq o ho)).mpr ⟨hn, hs⟩]; exact h
    · refine ⟨o, ho, ?_⟩
      rw [findLast?_eq_none.mpr hnone]; exact h

/-! ### resolve?, underlying, tyMismatches -/

theorem resolve?_succ {tds : TEnv} : ∀ {f : Nat} {t r : Ty},
    resolve? tds f t = some r → resolve? tds (f + 1) t = some r := by
  intro f
  induction f with
  | zero => intro t r h; simp [resolve?] at h
  | succ f ih =>
    intro t r h
    cases t with
    | base n => simpa [resolve?] using h
    | named n =>
      simp only [resolve?] at h ⊢
      cases hl : tds.loc n with
      | none => simpa [hl] using h
      | some body => rw [hl] at h; simp only at h ⊢; exact ih h
    | qual i n =>
      simp only [resolve?] at h ⊢
      cases hl : tds.inInc i n with
      | none => simpa [hl] using h
      | some body => rw [hl] at h; simp only at h ⊢; exact ih h
    | list e =>
      simp only [resolve?, Option.map_eq_some_iff] at h ⊢
      obtain ⟨x, hx, rfl⟩ := h
      exact ⟨x, ih hx, rfl⟩
    | set e =>
      simp only [resolve?, Option.map_eq_some_iff] at h ⊢
      obtain ⟨x, hx, rfl⟩ := h
      exact ⟨x, ih hx, rfl⟩
    | map k v =>
      simp only [resolve?] at h ⊢
      cases hk : resolve? tds f k with
      | none => simp [hk] at h
      | some k' =>
        cases hv : resolve? tds f v with
        | none => simp [hk, hv] at h
        | some v' =>
          simp only [hk, hv] at h
          simp [ih hk, ih hv, h]

theorem resolve?_mono {tds : TEnv} {f g : Nat} {t r : Ty} (hfg : f ≤ g)
    (h : resolve? tds f t = some r) : resolve? tds g t = some r := by
  induction hfg with
  | refl => exact h
  | step _ ih => exact resolve?_succ ih

/-- The result does not depend on the fuel, once it is enough. -/
theorem resolve?_fuel_indep {tds : TEnv} {f g : Nat} {t r r' : Ty}
    (h : resolve? tds f t = some r) (h' : resolve? tds g t = some r') : r = r' := by
  rcases Nat.le_total f g with hfg | hgf
  · have := resolve?_mono hfg h; rw [this] at h'; exact Option.some.inj h'
  · have := resolve?_mono hgf h'; rw [this] at h; exact (Option.some.inj h).symm

/-- Not a typedef name, neither of the file itself nor (for `inc.n`) of the included file. -/
abbrev HeadNormal (tds : TEnv) (h : Ty) : Prop :=
  (∀ n, h = .named n → tds.loc n = none) ∧ (∀ i n, h = .qual i n → tds.inInc i n = none)

/-- `UnderlyingType` reaches a type that is not a typedef name and expands to the same type. -/
theorem underlying_spec {tds : TEnv} : ∀ {f : Nat} {t r : Ty},
    resolve? tds f t = some r →
      resolve? tds f (underlying tds f t) = some r ∧ HeadNormal tds (underlying tds f t) := by
  intro f
  induction f with
  | zero => intro t r h; simp [resolve?] at h
  | succ f ih =>
    intro t r h
    cases t with
    | named n =>
      cases hl : tds.loc n with
      | none =>
        simp only [underlying, hl]
        exact ⟨h, ⟨(by intro m hm; cases hm; exact hl), (by intro i m hm; cases hm)⟩⟩
      | some body =>
        simp only [resolve?, hl] at h
        simp only [underlying, hl]
        exact ⟨resolve?_succ (ih h).1, (ih h).2⟩
    | qual i n =>
      cases hl : tds.inInc i n with
      | none =>
        simp only [underlying, hl]
        exact ⟨h, ⟨(by intro m hm; cases hm), (by intro j m hm; cases hm; exact hl)⟩⟩
      | some body =>
        simp only [resolve?, hl] at h
        simp only [underlying, hl]
        exact ⟨resolve?_succ (ih h).1, (ih h).2⟩
    | base n => exact ⟨h, ⟨(by intro m hm; cases hm), (by intro i m hm; cases hm)⟩⟩
    | list e => exact ⟨h, ⟨(by intro m hm; cases hm), (by intro i m hm; cases hm)⟩⟩
    | set e => exact ⟨h, ⟨(by intro m hm; cases hm), (by intro i m hm; cases hm)⟩⟩
    | map k v => exact ⟨h, ⟨(by intro m hm; cases hm), (by intro i m hm; cases hm)⟩⟩


/-- Shape of the expansion `r` of a head-normal type. -/
def HeadShape (tds : TEnv) (f : Nat) (r : Ty) : Ty → Prop
  | .base n => r = .base n
  | .named n => r = .named n
  | .qual i n => r = .qual i n
  | .list e => ∃ e', resolve? tds f e = some e' ∧ r = .list e'
  | .set e => ∃ e', resolve? tds f e = some e' ∧ r = .set e'
  | .map k v => ∃ k' v', resolve? tds f k = some k' ∧ resolve? tds f v = some v' ∧ r = .map k' v'

theorem resolve?_head {tds : TEnv} {f : Nat} {h r : Ty}
    (hr : resolve? tds (f + 1) h = some r) (hn : HeadNormal tds h) :
    HeadShape tds f r h := by
  cases h with
  | base n => simpa [HeadShape, resolve?, eq_comm] using hr
  | named n => simpa [HeadShape, resolve?, hn.1 n rfl, eq_comm] using hr
  | qual i n => simpa [HeadShape, resolve?, hn.2 i n rfl, eq_comm] using hr
  | list e =>
    simp only [resolve?, Option.map_eq_some_iff] at hr
    obtain ⟨x, hx, rfl⟩ := hr; exact ⟨x, hx, rfl⟩
  | set e =>
    simp only [resolve?, Option.map_eq_some_iff] at hr
    obtain ⟨x, hx, rfl⟩ := hr; exact ⟨x, hx, rfl⟩
  | map k v =>
    simp only [resolve?] at hr
    cases hk : resolve? tds f k with
    | none => simp [hk] at hr
    | some k' =>
      cases hv : resolve? tds f v with
      | none => simp [hk, hv] at hr
      | some v' => simp only [hk, hv] at hr; exact ⟨k', v', hk, hv, (Option.some.inj hr).symm⟩

/-- `checkType` on two types that expand: it logs a mismatch iff the expansions differ. -/
theorem tyMismatches_pos {otds ntds : TEnv} : ∀ {f : Nat} {a b ra rb : Ty},
    resolve? otds f a = some ra → resolve? ntds f b = some rb →
      (0 < tyMismatches otds ntds f a b ↔ ra ≠ rb) := by
  intro f
  induction f with
  | zero => intro a b ra rb h; simp [resolve?] at h
  | succ f ih =>
    intro a b ra rb ha hb
    have sa := underlying_spec ha
    have sb := underlying_spec hb
    have qa := resolve?_head sa.1 sa.2
    have qb := resolve?_head sb.1 sb.2
    rw [tyMismatches]
    generalize underlying otds (f + 1) a = x at qa
    generalize underlying ntds (f + 1) b = y at qb
    cases x <;> cases y <;> simp only [HeadShape] at qa qb ⊢
    case map.map =>
      obtain ⟨k1, v1, hk1, hv1, rfl⟩ := qa; obtain ⟨k2, v2, hk2, hv2, rfl⟩ := qb
      have i1 := ih hk1 hk2; have i2 := ih hv1 hv2
      rw [Nat.add_pos_iff_pos_or_pos, i1, i2]
      simp only [ne_eq, Ty.map.injEq]
      by_cases h1 : k1 = k2 <;> by_cases h2 : v1 = v2 <;> simp [h1, h2]
    case base.base n m => subst qa; subst qb; by_cases h : n = m <;> simp [h]
    case named.named n m => subst qa; subst qb; by_cases h : n = m <;> simp [h]
    case qual.qual i n j m =>
      subst qa; subst qb; by_cases h1 : i = j <;> by_cases h2 : n = m <;> simp [h1, h2]
    all_goals first
      | (obtain ⟨e1, h1, rfl⟩ := qa; obtain ⟨e2, h2, rfl⟩ := qb; rw [ih h1 h2]; simp)
      | (subst qa; subst qb; simp; try omega)
      | (subst qa; obtain ⟨e2, h2, rfl⟩ := qb; simp)
      | (subst qb; obtain ⟨e1, h1, rfl⟩ := qa; simp)
      | (subst qa; obtain ⟨k2, v2, hk2, hv2, rfl⟩ := qb; simp)
      | (subst qb; obtain ⟨k2, v2, hk2, hv2, rfl⟩ := qa; simp)
      | (obtain ⟨e1, h1, rfl⟩ := qa; obtain ⟨k2, v2, hk2, hv2, rfl⟩ := qb; simp)
      | (obtain ⟨e1, h1, rfl⟩ := qb; obtain ⟨k2, v2, hk2, hv2, rfl⟩ := qa; simp)


/-- The written type expands within the program's fuel (part of `WF` for every type of `p`). -/
def Resolves (p : Prog) (t : Ty) : Prop := (resolve? p.env p.fuel t).isSome = true

theorem any_replicate_error {n : Nat} {k : Kind} :
    (List.replicate n (Finding.error k)).any Finding.isError = true ↔ 0 < n := by
  cases n <;> simp [List.replicate, Finding.isError]

theorem any_replicate_warning {n : Nat} {k : Kind} :
    (List.replicate n (Finding.warning k)).any Finding.isError = false := by
  induction n <;> simp_all [List.replicate, Finding.isError]

theorem checkType_warn (c : Ctx) (a b : Option Ty) :
    (checkType c true a b).any Finding.isError = false := by
  simp only [checkType, if_true]; exact any_replicate_warning

theorem checkType_some {old new : Prog} {a b : Ty} (ha : Resolves old a) (hb : Resolves new b) :
    (checkType (Ctx.of old new) false (some a) (some b)).any Finding.isError = true ↔
      TypeChanged old new a b := by
  unfold Resolves at ha hb
  obtain ⟨ra, hra⟩ := Option.isSome_iff_exists.mp ha
  obtain ⟨rb, hrb⟩ := Option.isSome_iff_exists.mp hb
  have h1 := resolve?_mono (Nat.le_add_right old.fuel new.fuel) hra
  have h2 := resolve?_mono (Nat.le_add_left new.fuel old.fuel) hrb
  simp only [checkType, Ctx.of, tyMismatchesO, Bool.false_eq_true, if_false, any_replicate_error,
    tyMismatches_pos h1 h2, TypeChanged, hra, hrb, ne_eq, Option.some.injEq]

theorem checkType_opt {old new : Prog} {a b : Option Ty}
    (ha : ∀ t, a = some t → Resolves old t) (hb : ∀ t, b = some t → Resolves new t) :
    (checkType (Ctx.of old new) false a b).any Finding.isError = true ↔ RetChanged old new a b := by
  cases a <;> cases b
  · simp [checkType, tyMismatchesO, RetChanged]
  · simp [checkType, tyMismatchesO, RetChanged, Finding.isError]
  · simp [checkType, tyMismatchesO, RetChanged, Finding.isError]
  · simpa [RetChanged] using checkType_some (ha _ rfl) (hb _ rfl)


theorem any_if_error {c : Prop} [Decidable c] {k : Kind} :
    (if c then [Finding.error k] else []).any Finding.isError = true ↔ c := by
  split <;> simp_all [Finding.isError]

theorem any_if_warning {c : Prop} [Decidable c] {k : Kind} :
    (if c then [Finding.warning k] else []).any Finding.isError = false := by
  split <;> simp [Finding.isError]

theorem checkFields_iff {old new : Prog} {ofs nfs : List Field}
    (ho : fieldsWF ofs) (hn : fieldsWF nfs)
    (ro : ∀ f ∈ ofs, Resolves old f.ty) (rn : ∀ g ∈ nfs, Resolves new g.ty) :
    (checkFields (Ctx.of old new) ofs nfs).any Finding.isError = true ↔
      FieldsBreaking old new ofs nfs := by
  unfold fieldsWF at ho hn
  have huniq : ∀ o ∈ ofs, ∀ x ∈ nfs, ∀ y ∈ nfs,
      (x.id == o.id) = true → (y.id == o.id) = true → x = y := by
    intro o _ x hx y hy h1 h2
    exact uniq_of_nodup_map hn x hx y hy (by rw [beq_iff_eq.mp h1, beq_iff_eq.mp h2])
  simp only [checkFields, dedupLast_of_nodup ho, dedupLast_of_nodup hn]
  rw [List.any_append, Bool.or_eq_true, any_forOld huniq, List.any_flatMap, List.any_eq_true]
  unfold FieldsBreaking
  rw [or_assoc]
  refine or_congr ?_ (or_congr ?_ ?_)
  · refine exists_congr fun f => and_congr_right fun hf => exists_congr fun g =>
      and_congr_right fun hg => and_congr beq_iff_eq ?_
    simp only [List.any_append, Bool.or_eq_true, checkType_some (ro f hf) (rn g hg), any_if_error,
      any_if_warning, Bool.false_eq_true, or_false]
    refine or_congr Iff.rfl ?_
    simp only [isReq, bne_iff_ne, ne_eq]
    rw [Bool.eq_iff_iff]
    simp only [beq_iff_eq]
  · refine exists_congr fun f => and_congr_right fun _ => ?_
    rw [and_comm]
    refine and_congr ?_ ?_
    · rw [any_if_error]; simp
    · simp
  · refine exists_congr fun g => and_congr_right fun _ => ?_
    split
    · rename_i h
      simp only [List.any_nil, Bool.false_eq_true, false_iff, not_and]
      intro _ hall
      obtain ⟨a, ha, hid⟩ := List.any_eq_true.mp h
      exact hall a ha (beq_iff_eq.mp hid)
    · rename_i h
      simp only [List.any_append, Bool.or_eq_true, any_if_warning, Bool.false_eq_true, false_or,
        any_if_error]
      simp only [Bool.not_eq_true, List.any_eq_false] at h
      simp only [beq_iff_eq]
      exact ⟨fun hr => ⟨hr, fun f hf => by simpa using h f hf⟩, And.left⟩


/-- `forOld` against a catalogue statement: keys `P`, what a missing item means `M`, what a
matched pair means `B`. -/
theorem any_forOld_spec {olds : List α} {news : List β} {same : α → β → Bool}
    {both : α → β → List Finding} {missing : α → List Finding}
    {P : α → β → Prop} {M : α → Prop} {B : α → β → Prop}
    (huniq : ∀ o ∈ olds, ∀ x ∈ news, ∀ y ∈ news, P o x → P o y → x = y)
    (hsame : ∀ o n, same o n = true ↔ P o n)
    (hmiss : ∀ o ∈ olds, ((missing o).any Finding.isError = true ↔ M o))
    (hboth : ∀ o ∈ olds, ∀ n ∈ news, P o n → ((both o n).any Finding.isError = true ↔ B o n)) :
    (forOld olds news same both missing).any Finding.isError = true ↔
      ∃ o ∈ olds, ((∀ n ∈ news, ¬ P o n) ∧ M o) ∨ ∃ n ∈ news, P o n ∧ B o n := by
  rw [any_forOld (fun o ho x hx y hy h1 h2 => huniq o ho x hx y hy ((hsame o x).mp h1) ((hsame o y).mp h2))]
  constructor
  · rintro (⟨o, ho, n, hn, hs, hb⟩ | ⟨o, ho, hnone, hm⟩)
    · exact ⟨o, ho, Or.inr ⟨n, hn, (hsame o n).mp hs, (hboth o ho n hn ((hsame o n).mp hs)).mp hb⟩⟩
    · refine ⟨o, ho, Or.inl ⟨fun n hn hp => ?_, (hmiss o ho).mp hm⟩⟩
      have := hnone n hn; rw [(hsame o n).mpr hp] at this; cases this
  · rintro ⟨o, ho, (⟨hnone, hm⟩ | ⟨n, hn, hp, hb⟩)⟩
    · refine Or.inr ⟨o, ho, fun n hn => ?_, (hmiss o ho).mpr hm⟩
      cases h : same o n
      · rfl
      · exact absurd ((hsame o n).mp h) (hnone n hn)
    · exact Or.inl ⟨o, ho, n, hn, (hsame o n).mpr hp, (hboth o ho n hn hp).mpr hb⟩

theorem normPrefix_eq_iff : ∀ {p q : List PTok}, normPrefix p = normPrefix q ↔ prefixAgree p q
  | [], [] => by simp [normPrefix, prefixAgree]
  | [], _ :: _ => by simp [normPrefix, prefixAgree]
  | _ :: _, [] => by simp [normPrefix, prefixAgree]
  | a :: p, b :: q => by
    have ih := @normPrefix_eq_iff p q
    simp only [normPrefix, List.map_cons, List.cons.injEq, prefixAgree] at ih ⊢
    rw [ih]
    cases a <;> cases b <;> simp [normTok, tokAgree]

/-! ### membership of types in `allTys` -/

theorem mem_allTys_field {p : Prog} {s : StructLike} {f : Field} (hs : s ∈ p.structs)
    (hf : f ∈ s.fields) : f.ty ∈ p.allTys := by
  simp only [Prog.allTys, List.mem_append, List.mem_flatMap, List.mem_map]
  exact Or.inl (Or.inl (Or.inr ⟨s, hs, f, hf, rfl⟩))

theorem mem_allTys_method {p : Prog} {s : Service} {m : Method} {t : Ty} (hs : s ∈ p.services)
    (hm : m ∈ s.methods) (ht : t ∈ m.tys) : t ∈ p.allTys := by
  simp only [Prog.allTys, List.mem_append, List.mem_flatMap]
  exact Or.inl (Or.inr ⟨s, hs, m, hm, ht⟩)

theorem mem_allTys_op {p : Prog} {s : Scope} {o : Operation} (hs : s ∈ p.scopes)
    (ho : o ∈ s.ops) : o.ty ∈ p.allTys := by
  simp only [Prog.allTys, List.mem_append, List.mem_flatMap, List.mem_map]
  exact Or.inr ⟨s, hs, o, ho, rfl⟩

/-! ### the checkers -/

theorem checkScopes_iff {old new : Prog}
    (hs : (new.scopes.map (·.name)).Nodup) (hops : ∀ s ∈ new.scopes, (s.ops.map (·.name)).Nodup)
    (ro : ∀ t ∈ old.allTys, Resolves old t) (rn : ∀ t ∈ new.allTys, Resolves new t) :
    (checkScopes (Ctx.of old new) old.scopes new.scopes).any Finding.isError = true ↔
      ScopesBreaking old new := by
  unfold checkScopes ScopesBreaking
  rw [any_forOld_spec (P := fun s s' => s'.name = s.name) (M := fun _ => True)
    (B := fun s s' => ¬ prefixAgree s.pfx s'.pfx ∨ ∃ o ∈ s.ops,
        (∀ o' ∈ s'.ops, o'.name ≠ o.name) ∨ ∃ o' ∈ s'.ops, o'.name = o.name ∧ TypeChanged old new o.ty o'.ty)]
  · simp only [and_true, ne_eq]
  · intro o _ x hx y hy h1 h2
    exact uniq_of_nodup_map hs x hx y hy (h1.trans h2.symm)
  · intro o n; exact beq_iff_eq
  · intro o _; simp [Finding.isError]
  · intro s hs0 s' hs' _
    rw [List.any_append, Bool.or_eq_true, any_if_error]
    refine or_congr ?_ ?_
    · rw [bne_iff_ne, ne_eq, normPrefix_eq_iff]
    · rw [any_forOld_spec (P := fun o o' => o'.name = o.name) (M := fun _ => True)
        (B := fun o o' => TypeChanged old new o.ty o'.ty)]
      · simp only [and_true, ne_eq]
      · intro o _ x hx y hy h1 h2
        exact uniq_of_nodup_map (hops s' hs') x hx y hy (h1.trans h2.symm)
      · intro o n; exact beq_iff_eq
      · intro o _; simp [Finding.isError]
      · intro o ho o' ho' _
        exact checkType_some (ro _ (mem_allTys_op hs0 ho)) (rn _ (mem_allTys_op hs' ho'))

theorem checkEnums_iff {old new : Prog}
    (hn : (new.enums.map (·.name)).Nodup) (hv : ∀ e ∈ new.enums, (e.values.map (·.num)).Nodup) :
    (checkEnums old.enums new.enums).any Finding.isError = true ↔ EnumsBreaking old new := by
  unfold checkEnums EnumsBreaking
  rw [any_forOld_spec (P := fun e e' => e'.name = e.name) (M := fun _ => False)
    (B := fun e e' => ∃ v ∈ e.values, ∀ v' ∈ e'.values, v'.num ≠ v.num)]
  · simp only [and_false, false_or]
  · intro o _ x hx y hy h1 h2
    exact uniq_of_nodup_map hn x hx y hy (h1.trans h2.symm)
  · intro o n; exact beq_iff_eq
  · intro o _; simp [Finding.isError]
  · intro e _ e' he' _
    rw [any_forOld_spec (P := fun v v' => v'.num = v.num) (M := fun _ => True) (B := fun _ _ => False)]
    · simp only [and_true, and_false, exists_false, or_false, ne_eq]
    · intro o _ x hx y hy h1 h2
      exact uniq_of_nodup_map (hv e' he') x hx y hy (h1.trans h2.symm)
    · intro o n; exact beq_iff_eq
    · intro o _; simp [Finding.isError]
    · intro v _ v' _ _; simp only [iff_false, Bool.not_eq_true]; exact any_if_warning

theorem checkNamespaces_ok (old new : List Namespace) :
    (checkNamespaces old new).any Finding.isError = false := by
  unfold checkNamespaces forOld
  rw [List.any_flatMap, List.any_eq_false]
  intro o _
  split
  · simp [Finding.isError]
  · simp [Finding.isError]

theorem checkConstants_ok (c : Ctx) (old new : List Const) :
    (checkConstants c old new).any Finding.isError = false := by
  unfold checkConstants forOld
  rw [List.any_flatMap, List.any_eq_false]
  intro o _
  split
  · simp [Finding.isError, checkType_warn]
  · simp [Finding.isError]

theorem mem_ofKind {k : StructKind} {l : List StructLike} {s : StructLike} :
    s ∈ ofKind k l ↔ s ∈ l ∧ s.kind = k := by
  simp [ofKind]

theorem checkStructLike_iff {old new : Prog} (k : StructKind)
    (hn : (new.structs.map (fun s => (s.kind, s.name))).Nodup)
    (ho : ∀ s ∈ old.structs, fieldsWF s.fields) (hn' : ∀ s ∈ new.structs, fieldsWF s.fields)
    (ro : ∀ t ∈ old.allTys, Resolves old t) (rn : ∀ t ∈ new.allTys, Resolves new t) :
    (checkStructLike (Ctx.of old new) (ofKind k old.structs) (ofKind k new.structs)).any Finding.isError = true ↔
      ∃ s ∈ old.structs, s.kind = k ∧
        ((∀ s' ∈ new.structs, ¬ (s'.kind = s.kind ∧ s'.name = s.name))
          ∨ ∃ s' ∈ new.structs, s'.kind = s.kind ∧ s'.name = s.name ∧
              FieldsBreaking old new s.fields s'.fields) := by
  unfold checkStructLike
  rw [any_forOld_spec (P := fun s s' => s'.name = s.name) (M := fun _ => True)
    (B := fun s s' => FieldsBreaking old new s.fields s'.fields)]
  · simp only [and_true, mem_ofKind]
    constructor
    · rintro ⟨s, ⟨hs, hk⟩, h⟩
      refine ⟨s, hs, hk, ?_⟩
      rcases h with h | ⟨s', ⟨hs', hk'⟩, hname, hb⟩
      · exact Or.inl fun s' hs' ⟨h1, h2⟩ => h s' ⟨hs', h1.trans hk⟩ h2
      · exact Or.inr ⟨s', hs', hk'.trans hk.symm, hname, hb⟩
    · rintro ⟨s, hs, hk, h⟩
      refine ⟨s, ⟨hs, hk⟩, ?_⟩
      rcases h with h | ⟨s', hs', hk', hname, hb⟩
      · exact Or.inl fun s' ⟨hs', hk'⟩ hname => h s' hs' ⟨hk'.trans hk.symm, hname⟩
      · exact Or.inr ⟨s', ⟨hs', hk'.trans hk⟩, hname, hb⟩
  · intro o ho0 x hx y hy h1 h2
    rw [mem_ofKind] at hx hy
    exact uniq_of_nodup_map hn x hx.1 y hy.1 (by simp only [hx.2, hy.2, h1, h2])
  · intro o n; exact beq_iff_eq
  · intro o _; simp [Finding.isError]
  · intro s hs s' hs' _
    rw [mem_ofKind] at hs hs'
    exact checkFields_iff (ho s hs.1) (hn' s' hs'.1)
      (fun f hf => ro _ (mem_allTys_field hs.1 hf)) (fun f hf => rn _ (mem_allTys_field hs'.1 hf))

theorem structs_iff {old new : Prog}
    (hn : (new.structs.map (fun s => (s.kind, s.name))).Nodup)
    (ho : ∀ s ∈ old.structs, fieldsWF s.fields) (hn' : ∀ s ∈ new.structs, fieldsWF s.fields)
    (ro : ∀ t ∈ old.allTys, Resolves old t) (rn : ∀ t ∈ new.allTys, Resolves new t) :
    ((checkStructLike (Ctx.of old new) (ofKind .struct old.structs) (ofKind .struct new.structs)).any Finding.isError = true
      ∨ (checkStructLike (Ctx.of old new) (ofKind .exception old.structs) (ofKind .exception new.structs)).any Finding.isError = true
      ∨ (checkStructLike (Ctx.of old new) (ofKind .union old.structs) (ofKind .union new.structs)).any Finding.isError = true)
      ↔ StructsBreaking old new := by
  rw [checkStructLike_iff .struct hn ho hn' ro rn, checkStructLike_iff .exception hn ho hn' ro rn,
    checkStructLike_iff .union hn ho hn' ro rn]
  unfold StructsBreaking
  constructor
  · rintro (⟨s, hs, _, h⟩ | ⟨s, hs, _, h⟩ | ⟨s, hs, _, h⟩) <;> exact ⟨s, hs, h⟩
  · rintro ⟨s, hs, h⟩
    cases hk : s.kind
    · exact Or.inl ⟨s, hs, hk, h⟩
    · exact Or.inr (Or.inr ⟨s, hs, hk, h⟩)
    · exact Or.inr (Or.inl ⟨s, hs, hk, h⟩)

theorem checkMethod_iff {old new : Prog} {m m' : Method}
    (ha : fieldsWF m.args) (ha' : fieldsWF m'.args) (he : fieldsWF m.excs) (he' : fieldsWF m'.excs)
    (ro : ∀ t ∈ m.tys, Resolves old t) (rn : ∀ t ∈ m'.tys, Resolves new t) :
    (checkMethod (Ctx.of old new) m m').any Finding.isError = true ↔ MethodBreaking old new m m' := by
  unfold checkMethod MethodBreaking
  simp only [List.any_append, Bool.or_eq_true, or_assoc, any_if_error]
  have mem_ret : ∀ (m : Method) t, m.ret = some t → t ∈ m.tys := by
    intro m t h; simp [Method.tys, h]
  have mem_arg : ∀ (m : Method) f, f ∈ m.args → f.ty ∈ m.tys := by
    intro m f h; simp only [Method.tys, List.mem_append, List.mem_map]; exact Or.inl (Or.inr ⟨f, h, rfl⟩)
  have mem_exc : ∀ (m : Method) f, f ∈ m.excs → f.ty ∈ m.tys := by
    intro m f h; simp only [Method.tys, List.mem_append, List.mem_map]; exact Or.inr ⟨f, h, rfl⟩
  rw [checkType_opt (fun t h => ro t (mem_ret m t h)) (fun t h => rn t (mem_ret m' t h)),
    checkFields_iff ha ha' (fun f hf => ro _ (mem_arg m f hf)) (fun f hf => rn _ (mem_arg m' f hf)),
    checkFields_iff he he' (fun f hf => ro _ (mem_exc m f hf)) (fun f hf => rn _ (mem_exc m' f hf))]
  refine or_congr (by simp) (or_congr Iff.rfl (or_congr Iff.rfl (or_congr Iff.rfl (or_congr ?_ ?_))))
  · simp [List.isEmpty_iff]
  · simp [List.isEmpty_iff]

theorem checkServices_iff {old new : Prog}
    (hs : (new.services.map (·.name)).Nodup)
    (hm : ∀ s ∈ new.services, (s.methods.map (·.name)).Nodup)
    (ho : ∀ s ∈ old.services, ∀ m ∈ s.methods, fieldsWF m.args ∧ fieldsWF m.excs)
    (hn : ∀ s ∈ new.services, ∀ m ∈ s.methods, fieldsWF m.args ∧ fieldsWF m.excs)
    (ro : ∀ t ∈ old.allTys, Resolves old t) (rn : ∀ t ∈ new.allTys, Resolves new t) :
    (checkServices (Ctx.of old new) old.services new.services).any Finding.isError = true ↔
      ServicesBreaking old new := by
  unfold checkServices ServicesBreaking
  rw [any_forOld_spec (P := fun s s' => s'.name = s.name) (M := fun _ => True)
    (B := fun s s' => (s.ext ≠ none ∧ s'.ext ≠ s.ext) ∨ ∃ m ∈ s.methods,
        (∀ m' ∈ s'.methods, m'.name ≠ m.name) ∨ ∃ m' ∈ s'.methods, m'.name = m.name ∧ MethodBreaking old new m m')]
  · simp only [and_true, ne_eq]
  · intro o _ x hx y hy h1 h2
    exact uniq_of_nodup_map hs x hx y hy (h1.trans h2.symm)
  · intro o n; exact beq_iff_eq
  · intro o _; simp [Finding.isError]
  · intro s hs0 s' hs' _
    rw [List.any_append, Bool.or_eq_true, any_if_error]
    refine or_congr ?_ ?_
    · simp only [Option.isSome_iff_ne_none, bne_iff_ne, ne_eq]
      exact and_congr Iff.rfl ⟨fun h e => h e.symm, fun h e => h e.symm⟩
    · rw [any_forOld_spec (P := fun m m' => m'.name = m.name) (M := fun _ => True)
        (B := fun m m' => MethodBreaking old new m m')]
      · simp only [and_true, ne_eq]
      · intro o _ x hx y hy h1 h2
        exact uniq_of_nodup_map (hm s' hs') x hx y hy (h1.trans h2.symm)
      · intro o n; exact beq_iff_eq
      · intro o _; simp [Finding.isError]
      · intro m hm0 m' hm' _
        exact checkMethod_iff (ho s hs0 m hm0).1 (hn s' hs' m' hm').1 (ho s hs0 m hm0).2 (hn s' hs' m' hm').2
          (fun t ht => ro t (mem_allTys_method hs0 hm0 ht)) (fun t ht => rn t (mem_allTys_method hs' hm' ht))


theorem wf_resolves {p : Prog} (h : WF p) : ∀ t ∈ p.allTys, Resolves p t := by
  obtain ⟨_, _, _, _, _, _, _, _, _, _, _, hr, _⟩ := h
  exact hr

/-- The audit model fails exactly on the documented breaking changes. -/
theorem audit_iff {old new : Prog} (ho : WF old) (hn : WF new) :
    (audit old new).any Finding.isError = true ↔ Breaking old new := by
  have ro := wf_resolves ho
  have rn := wf_resolves hn
  obtain ⟨_, _, _, _, ofs, _, osv, _, _, _, _, _, _⟩ := ho
  obtain ⟨_, nen, nev, nst, nfs, nsv, nsv', nsc, nops, _, _, _, _⟩ := hn
  unfold audit auditWith Breaking
  simp only [List.any_append, Bool.or_eq_true, checkNamespaces_ok, checkConstants_ok,
    Bool.false_eq_true, or_false]
  rw [checkScopes_iff nsc nops ro rn, checkEnums_iff nen nev,
    checkServices_iff nsv (fun s hs => (nsv' s hs).1) (fun s hs => (osv s hs).2)
      (fun s hs => (nsv' s hs).2) ro rn]
  rw [← structs_iff nst ofs nfs ro rn]
  simp only [or_assoc]


/-! ### any depth -/

/-- `t` expands to `r` (with some fuel). -/
def ResTo (tds : TEnv) (t r : Ty) : Prop := ∃ f, resolve? tds f t = some r

theorem ResTo.unique {tds : TEnv} {t r r' : Ty} (h : ResTo tds t r) (h' : ResTo tds t r') : r = r' := by
  obtain ⟨f, hf⟩ := h; obtain ⟨g, hg⟩ := h'; exact resolve?_fuel_indep hf hg

theorem resTo_list {tds : TEnv} {e r : Ty} (h : ResTo tds (.list e) r) :
    ∃ x, ResTo tds e x ∧ r = .list x := by
  obtain ⟨f, hf⟩ := h
  cases f with
  | zero => simp [resolve?] at hf
  | succ f =>
    simp only [resolve?, Option.map_eq_some_iff] at hf
    obtain ⟨x, hx, rfl⟩ := hf; exact ⟨x, ⟨f, hx⟩, rfl⟩

theorem resTo_set {tds : TEnv} {e r : Ty} (h : ResTo tds (.set e) r) :
    ∃ x, ResTo tds e x ∧ r = .set x := by
  obtain ⟨f, hf⟩ := h
  cases f with
  | zero => simp [resolve?] at hf
  | succ f =>
    simp only [resolve?, Option.map_eq_some_iff] at hf
    obtain ⟨x, hx, rfl⟩ := hf; exact ⟨x, ⟨f, hx⟩, rfl⟩

theorem resTo_map {tds : TEnv} {k v r : Ty} (h : ResTo tds (.map k v) r) :
    ∃ x y, ResTo tds k x ∧ ResTo tds v y ∧ r = .map x y := by
  obtain ⟨f, hf⟩ := h
  cases f with
  | zero => simp [resolve?] at hf
  | succ f =>
    simp only [resolve?] at hf
    cases hk : resolve? tds f k with
    | none => simp [hk] at hf
    | some k' =>
      cases hv : resolve? tds f v with
      | none => simp [hk, hv] at hf
      | some v' =>
        simp only [hk, hv] at hf
        exact ⟨k', v', ⟨f, hk⟩, ⟨f, hv⟩, (Option.some.inj hf).symm⟩

/-- A difference in the hole is a difference of the whole types. -/
theorem plug_differs {otds ntds : TEnv} {a b : Ty}
    (hab : ∀ x y, ResTo otds a x → ResTo ntds b y → x ≠ y) :
    ∀ (c : TyCtx) {ra rb : Ty}, ResTo otds (c.plug a) ra → ResTo ntds (c.plug b) rb → ra ≠ rb := by
  intro c
  induction c with
  | hole => intro ra rb h1 h2; exact hab _ _ h1 h2
  | list c ih =>
    intro ra rb h1 h2
    obtain ⟨x, hx, rfl⟩ := resTo_list h1
    obtain ⟨y, hy, rfl⟩ := resTo_list h2
    intro h; exact ih hx hy (Ty.list.inj h)
  | set c ih =>
    intro ra rb h1 h2
    obtain ⟨x, hx, rfl⟩ := resTo_set h1
    obtain ⟨y, hy, rfl⟩ := resTo_set h2
    intro h; exact ih hx hy (Ty.set.inj h)
  | mapKey c v ih =>
    intro ra rb h1 h2
    obtain ⟨x, _, hx, _, rfl⟩ := resTo_map h1
    obtain ⟨y, _, hy, _, rfl⟩ := resTo_map h2
    intro h; exact ih hx hy (Ty.map.inj h).1
  | mapVal k c ih =>
    intro ra rb h1 h2
    obtain ⟨_, x, _, hx, rfl⟩ := resTo_map h1
    obtain ⟨_, y, _, hy, rfl⟩ := resTo_map h2
    intro h; exact ih hx hy (Ty.map.inj h).2

theorem typeChanged_plug {old new : Prog} {a b : Ty} (c : TyCtx)
    (hra : Resolves old (c.plug a)) (hrb : Resolves new (c.plug b))
    (hab : ∃ x y, ResTo old.env a x ∧ ResTo new.env b y ∧ x ≠ y) :
    TypeChanged old new (c.plug a) (c.plug b) := by
  obtain ⟨x, y, hx, hy, hne⟩ := hab
  obtain ⟨ra, hra'⟩ := Option.isSome_iff_exists.mp hra
  obtain ⟨rb, hrb'⟩ := Option.isSome_iff_exists.mp hrb
  unfold TypeChanged
  rw [hra', hrb']
  intro h
  refine plug_differs (fun x' y' hx' hy' => ?_) c ⟨_, hra'⟩ ⟨_, hrb'⟩ (Option.some.inj h)
  rw [hx'.unique hx, hy'.unique hy]; exact hne

/-! ### compatible edits -/

theorem typeChanged_same {p p' : Prog} {t : Ty} (htd : p'.env = p.env)
    (h : Resolves p t) (h' : Resolves p' t) : ¬ TypeChanged p p' t t := by
  obtain ⟨r, hr⟩ := Option.isSome_iff_exists.mp h
  obtain ⟨r', hr'⟩ := Option.isSome_iff_exists.mp h'
  unfold TypeChanged
  rw [htd] at hr'
  rw [htd, hr, hr', resolve?_fuel_indep hr hr']
  simp

theorem fieldsCompat_not_breaking {p p' : Prog} (htd : p'.env = p.env) {ofs nfs : List Field}
    (hn : fieldsWF nfs) (hc : FieldsCompat ofs nfs)
    (ro : ∀ f ∈ ofs, Resolves p f.ty) (rn : ∀ g ∈ nfs, Resolves p' g.ty) :
    ¬ FieldsBreaking p p' ofs nfs := by
  rintro (⟨f, hf, g, hg, hid, hbad⟩ | ⟨f, hf, _, hall⟩ | ⟨g, hg, hreq, hall⟩)
  · obtain ⟨g', hg', hid', hty, hreq⟩ := hc.1 f hf
    have : g = g' := uniq_of_nodup_map hn g hg g' hg' (hid.trans hid'.symm)
    subst this
    rcases hbad with h | h
    · rw [hty] at h
      exact typeChanged_same htd (ro f hf) (hty ▸ rn g hg) h
    · exact h hreq.symm
  · obtain ⟨g', hg', hid', _⟩ := hc.1 f hf; exact hall g' hg' hid'
  · obtain ⟨f, hf, hid⟩ := hc.2 g hg hreq; exact hall f hf hid

theorem fieldsCompat_nonempty {ofs nfs : List Field} (hc : FieldsCompat ofs nfs) (h : ofs ≠ []) : nfs ≠ [] := by
  cases ofs with
  | nil => exact absurd rfl h
  | cons f _ =>
    obtain ⟨g, hg, _⟩ := hc.1 f List.mem_cons_self
    intro hnil; rw [hnil] at hg; cases hg

theorem methodCompat_not_breaking {p p' : Prog} (htd : p'.env = p.env) {m m' : Method}
    (ha' : fieldsWF m'.args) (he' : fieldsWF m'.excs) (hc : MethodCompat m m')
    (ro : ∀ t ∈ m.tys, Resolves p t) (rn : ∀ t ∈ m'.tys, Resolves p' t) :
    ¬ MethodBreaking p p' m m' := by
  obtain ⟨how, hret, hargs, hexcs, hvoid⟩ := hc
  have mem_ret : ∀ (m : Method) t, m.ret = some t → t ∈ m.tys := by
    intro m t h; simp [Method.tys, h]
  have mem_arg : ∀ (m : Method) f, f ∈ m.args → f.ty ∈ m.tys := by
    intro m f h; simp only [Method.tys, List.mem_append, List.mem_map]; exact Or.inl (Or.inr ⟨f, h, rfl⟩)
  have mem_exc : ∀ (m : Method) f, f ∈ m.excs → f.ty ∈ m.tys := by
    intro m f h; simp only [Method.tys, List.mem_append, List.mem_map]; exact Or.inr ⟨f, h, rfl⟩
  rintro (h | h | h | h | ⟨h1, h2, h3⟩ | ⟨_, h2, h3⟩)
  · exact h how.symm
  · rw [hret] at h
    cases hr : m.ret with
    | none => rw [hr] at h; exact h
    | some t =>
      rw [hr] at h
      exact typeChanged_same htd (ro t (mem_ret m t hr)) (rn t (mem_ret m' t (hret ▸ hr))) h
  · exact fieldsCompat_not_breaking htd ha' hargs (fun f hf => ro _ (mem_arg m f hf))
      (fun f hf => rn _ (mem_arg m' f hf)) h
  · exact fieldsCompat_not_breaking htd he' hexcs (fun f hf => ro _ (mem_exc m f hf))
      (fun f hf => rn _ (mem_exc m' f hf)) h
  · exact h3 (hvoid h1 h2)
  · exact fieldsCompat_nonempty hexcs h3 h2

theorem prefixAgree_refl : ∀ p : List PTok, prefixAgree p p
  | [] => trivial
  | a :: p => ⟨by cases a <;> simp [tokAgree], prefixAgree_refl p⟩

theorem compatible_not_breaking {p p' : Prog} (hw : WF p) (hw' : WF p') (hc : Compatible p p') :
    ¬ Breaking p p' := by
  have ro := wf_resolves hw
  have rn := wf_resolves hw'
  obtain ⟨_, nen, nev, nst, nfs, nsv, nsv', nsc, nops, _, _, _, _⟩ := hw'
  obtain ⟨htd0, hinc0, cscopes, cenums, cstructs, cservices⟩ := hc
  have htd : p'.env = p.env := by simp [Prog.env, htd0, hinc0]
  rintro (h | h | h | h)
  · obtain ⟨s, hs, h⟩ := h
    obtain ⟨s1, hs1, hn1, hp1, hops1⟩ := cscopes s hs
    rcases h with h | ⟨s', hs', hn', h⟩
    · exact h s1 hs1 hn1
    · have : s' = s1 := uniq_of_nodup_map nsc s' hs' s1 hs1 (hn'.trans hn1.symm)
      subst this
      rcases h with h | ⟨o, ho, h⟩
      · exact h hp1
      · obtain ⟨o1, ho1, hon1, hty1⟩ := hops1 o ho
        rcases h with h | ⟨o', ho', hon', h⟩
        · exact h o1 ho1 hon1
        · have : o' = o1 := uniq_of_nodup_map (nops s' hs') o' ho' o1 ho1 (hon'.trans hon1.symm)
          subst this
          rw [hty1] at h
          exact typeChanged_same htd (ro _ (mem_allTys_op hs ho)) (hty1 ▸ rn _ (mem_allTys_op hs' ho')) h
  · obtain ⟨e, he, e', he', hn', v, hv, h⟩ := h
    obtain ⟨v', hv', hnum⟩ := cenums e he e' he' hn' v hv
    exact h v' hv' hnum
  · obtain ⟨s, hs, h⟩ := h
    obtain ⟨s1, hs1, hk1, hn1, hf1⟩ := cstructs s hs
    rcases h with h | ⟨s', hs', hk', hn', h⟩
    · exact h s1 hs1 ⟨hk1, hn1⟩
    · have : s' = s1 := uniq_of_nodup_map nst s' hs' s1 hs1 (by simp only [hk', hn', hk1, hn1])
      subst this
      exact fieldsCompat_not_breaking htd (nfs s' hs') hf1 (fun f hf => ro _ (mem_allTys_field hs hf))
        (fun f hf => rn _ (mem_allTys_field hs' hf)) h
  · obtain ⟨s, hs, h⟩ := h
    obtain ⟨s1, hs1, hn1, hext1, hm1⟩ := cservices s hs
    rcases h with h | ⟨s', hs', hn', h⟩
    · exact h s1 hs1 hn1
    · have : s' = s1 := uniq_of_nodup_map nsv s' hs' s1 hs1 (hn'.trans hn1.symm)
      subst this
      rcases h with ⟨hne, hch⟩ | ⟨m, hm, h⟩
      · rcases hext1 with h0 | h0
        · exact hne h0
        · exact hch h0
      · obtain ⟨m1, hm1', hmn1, hmc⟩ := hm1 m hm
        rcases h with h | ⟨m', hm', hmn', h⟩
        · exact h m1 hm1' hmn1
        · have : m' = m1 := uniq_of_nodup_map (nsv' s' hs').1 m' hm' m1 hm1' (hmn'.trans hmn1.symm)
          subst this
          exact methodCompat_not_breaking htd ((nsv' s' hs').2 m' hm').1 ((nsv' s' hs').2 m' hm').2 hmc
            (fun t ht => ro t (mem_allTys_method hs hm ht)) (fun t ht => rn t (mem_allTys_method hs' hm' ht)) h

theorem fieldsCompat_refl (fs : List Field) : FieldsCompat fs fs :=
  ⟨fun f hf => ⟨f, hf, rfl, rfl, Iff.rfl⟩, fun g hg _ => ⟨g, hg, rfl⟩⟩

theorem fieldsCompat_map {fs : List Field} (h : Field → Field)
    (hpres : ∀ f, (h f).id = f.id ∧ (h f).ty = f.ty ∧ (h f).mod = f.mod) :
    FieldsCompat fs (fs.map h) := by
  refine ⟨fun f hf => ⟨h f, List.mem_map_of_mem hf, (hpres f).1, (hpres f).2.1, by rw [(hpres f).2.2]⟩, ?_⟩
  intro g hg _
  obtain ⟨f, hf, rfl⟩ := List.mem_map.mp hg
  exact ⟨f, hf, ((hpres f).1).symm⟩

theorem compatible_refl {p : Prog} (hw : WF p) : Compatible p p := by
  obtain ⟨_, hen, _⟩ := hw
  refine ⟨rfl, rfl, fun s hs => ⟨s, hs, rfl, prefixAgree_refl _, fun o ho => ⟨o, ho, rfl, rfl⟩⟩, ?_,
    fun s hs => ⟨s, hs, rfl, rfl, fieldsCompat_refl _⟩,
    fun s hs => ⟨s, hs, rfl, Or.inr rfl, fun m hm => ⟨m, hm, rfl, rfl, rfl, fieldsCompat_refl _, fieldsCompat_refl _, fun _ h => h⟩⟩⟩
  intro e he e' he' hn v hv
  have : e' = e := uniq_of_nodup_map hen e' he' e he hn
  subst this; exact ⟨v, hv, rfl⟩


/-- A type without names expands to itself whatever the typedefs are. -/
theorem resolve?_nameFree {e e' : TEnv} : ∀ {f : Nat} {t : Ty}, t.nameFree = true →
    resolve? e f t = resolve? e' f t := by
  intro f
  induction f with
  | zero => intro t _; rfl
  | succ f ih =>
    intro t h
    cases t with
    | base n => rfl
    | named n => simp [Ty.nameFree] at h
    | qual i n => simp [Ty.nameFree] at h
    | list x => simp only [resolve?]; rw [ih (by simpa [Ty.nameFree] using h)]
    | set x => simp only [resolve?]; rw [ih (by simpa [Ty.nameFree] using h)]
    | map k v =>
      simp only [Ty.nameFree, Bool.and_eq_true] at h
      simp only [resolve?]; rw [ih h.1, ih h.2]


end FV.AuditProofs
