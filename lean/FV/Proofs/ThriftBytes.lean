/- End-to-end byte-level round trips of the emitted Write/Read through the modelled binary and compact
protocols: composition of FV.Thrift.roundtrip (event level) with the protocol lemmas. -/
import FV.Proofs.Thrift
import FV.Proofs.ThriftForget
import FV.Proofs.BinaryProtocol
import FV.Proofs.CompactProtocol
namespace FV.Thrift

theorem forget_binErase (e : Event) : forget (binErase e) = forget e := by
  cases e <;> rfl

theorem forget_cmpErase (e : Event) : forget (cmpErase e) = forget e := by
  cases e
  case mb kt vt n => cases n <;> rfl
  all_goals rfl

/-- Two streams that differ only in what `forget` erases are read to the same value. -/
theorem decV_of_forget_eq (d : Defs) (n : Nat) (t : Ty) (v : Val) (es es' : List Event)
    (hrt : decV d n t es = .ok (v, [])) (h : es'.map forget = es.map forget) :
    decV d n t es' = .ok (v, []) := by
  have h1 := decV_forget d n t es
  rw [hrt] at h1
  have h2 := decV_forget d n t es'
  rw [h, h1] at h2
  cases hd : decV d n t es' with
  | ok p =>
    obtain ⟨v', r'⟩ := p
    rw [hd] at h2
    simp only [mapR, Res.ok.injEq, Prod.mk.injEq, List.map_nil] at h2
    obtain ⟨rfl, hr⟩ := h2
    cases r' with
    | nil => rfl
    | cons a b => simp at hr
  | err e => rw [hd] at h2; cases h2
  | panic p => rw [hd] at h2; cases h2

theorem cmpEnc_total : ∀ (es : List Event) (w : CW), cmpBalanced w.stack.length es = true →
    ∃ bs w', cmpEnc w es = .ok (bs, w') := by
  intro es
  induction es with
  | nil => intro w _; exact ⟨[], w, rfl⟩
  | cons e es ih =>
    intro w hb
    have step : ∀ (b : Bytes) (w1 : CW), cmpWrite w e = .ok (b, w1) → cmpBalanced w1.stack.length es = true →
        ∃ bs w', cmpEnc w (e :: es) = .ok (bs, w') := by
      intro b w1 hw hb1
      obtain ⟨bs, w', h⟩ := ih w1 hb1
      exact ⟨b ++ bs, w', by simp only [cmpEnc, hw, h]⟩
    cases e
    case sb nm => exact step _ _ rfl (by simpa [cmpBalanced] using hb)
    case se =>
      cases hs : w.stack with
      | nil => rw [hs] at hb; simp [cmpBalanced] at hb
      | cons l s =>
        rw [hs] at hb
        exact step [] { w with stack := s, last := l } (by simp only [cmpWrite, hs]) (by simpa [cmpBalanced] using hb)
    case fb nm tt id =>
      by_cases h2 : tt = 2
      · exact step _ _ (by simp only [cmpWrite, if_pos h2]; rfl) (by simpa [cmpBalanced] using hb)
      · exact step _ _ (by simp only [cmpWrite, if_neg h2]; rfl) (by simpa [cmpBalanced] using hb)
    case mb kt vt k =>
      by_cases h0 : k = 0
      · exact step _ _ (by simp only [cmpWrite, if_pos h0]; rfl) (by simpa [cmpBalanced] using hb)
      · exact step _ _ (by simp only [cmpWrite, if_neg h0]; rfl) (by simpa [cmpBalanced] using hb)
    case bool b =>
      cases hp : w.pend with
      | none => exact step _ _ (by simp only [cmpWrite, hp]; rfl) (by simpa [cmpBalanced] using hb)
      | some id => exact step _ _ (by simp only [cmpWrite, hp]; rfl) (by simpa [cmpBalanced] using hb)
    all_goals exact step _ _ rfl (by simpa [cmpBalanced] using hb)


/-- BINARY protocol, end to end: the bytes of what the emitted `Write` wrote, read with the calls
the emitted `Read` makes, give back the written events (names excepted) and exactly the bytes that
followed; and the emitted `Read` turns those events into the value that was written. -/
theorem binary_roundtrip (d : Defs) (n : Nat) (t : Ty) (v : Val) (es : List Event) (rest : Bytes)
    (hwt : WT d n t v) (henc : encV d n t v = .ok es) (hfit : ∀ e ∈ es, BinFits e) :
    binReads (es.map callOf) (binEnc es ++ rest) = .ok (es.map binErase, rest) ∧
      decV d n t (es.map binErase) = .ok (v, []) := by
  refine ⟨binReads_binEnc es rest hfit, ?_⟩
  have hrt := roundtrip d n t v es [] hwt henc
  rw [List.append_nil] at hrt
  refine decV_of_forget_eq d n t v es _ hrt ?_
  rw [List.map_map]
  exact List.map_congr_left (fun e _ => forget_binErase e)

/-- COMPACT protocol, end to end (cf. `binary_roundtrip`): the stateful writer succeeds, and reading
its bytes with the calls the emitted `Read` makes, from the initial reader state, gives back the
written events (minus names and the types of empty maps), which the emitted `Read` turns into the
value that was written. -/
theorem compact_roundtrip (d : Defs) (n : Nat) (t : Ty) (v : Val) (es : List Event)
    (hwt : WT d n t v) (henc : encV d n t v = .ok es) (hok : CmpOK es) (hbal : cmpBalanced 0 es = true) :
    ∃ bs w', cmpEnc CW.init es = .ok (bs, w') ∧
      ∀ rest : Bytes, ∃ r', cmpReads CR.init (es.map callOf) (bs ++ rest) = .ok (es.map cmpErase, rest, r') ∧
        decV d n t (es.map cmpErase) = .ok (v, []) := by
  obtain ⟨bs, w', hb⟩ := cmpEnc_total es CW.init hbal
  refine ⟨bs, w', hb, ?_⟩
  intro rest
  obtain ⟨r', hr, _⟩ := cmpReads_cmpEnc es CW.init w' CR.init bs rest CRel_init hok hb
  refine ⟨r', hr, ?_⟩
  have hrt := roundtrip d n t v es [] hwt henc
  rw [List.append_nil] at hrt
  refine decV_of_forget_eq d n t v es _ hrt ?_
  rw [List.map_map]
  exact List.map_congr_left (fun e _ => forget_cmpErase e)

end FV.Thrift
