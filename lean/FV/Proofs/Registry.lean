/- Invariants of the correlation model (FV.Model.Registry). -/
import FV.Model.Registry

namespace FV.Reg

theorem get_upd (cs : List Caller) (i j : Nat) (f : Caller → Caller) :
    (updCaller cs i f)[j]? = if i = j then (cs[j]?).map f else cs[j]? := by
  unfold updCaller
  rw [List.getElem?_modify]
  by_cases h : i = j <;> simp [h]

theorem get_upd_same (cs : List Caller) (i : Nat) (f : Caller → Caller) (c' : Caller)
    (h : (updCaller cs i f)[i]? = some c') : ∃ c, cs[i]? = some c ∧ c' = f c := by
  rw [get_upd] at h
  simp only [if_true] at h
  cases hc : cs[i]? with
  | none => simp [hc] at h
  | some c => simp [hc] at h; exact ⟨c, rfl, h.symm⟩

theorem get_upd_other (cs : List Caller) (i j : Nat) (f : Caller → Caller) (hne : i ≠ j) :
    (updCaller cs i f)[j]? = cs[j]? := by
  rw [get_upd]; simp [hne]

theorem lookup_some {r : List (OpId × Nat)} {o : OpId} {ch : Nat} (h : lookup r o = some ch) :
    (o, ch) ∈ r := by
  unfold lookup at h
  split at h
  · rename_i e he
    cases h
    have h1 := List.find?_some he
    have hm := List.mem_of_find?_eq_some he
    simp only [decide_eq_true_eq] at h1
    obtain ⟨a, b⟩ := e
    simp only at h1
    subst h1; exact hm
  · cases h

theorem lookup_none {r : List (OpId × Nat)} {o : OpId} (h : lookup r o = none) :
    ∀ ch, (o, ch) ∉ r := by
  unfold lookup at h
  split at h
  · cases h
  · rename_i hf
    intro ch hm
    have := List.find?_eq_none.mp hf (o, ch) hm
    simp at this

/-- A caller is "active" while its registration may exist. -/
def Active (pc : Pc) : Prop := pc = .waiting ∨ ∃ o, pc = .leaving o

/-- Per-caller part of the correlation invariant: every frame the caller holds or has
taken carries the caller's own op id. -/
structure CallerOK (c : Caller) : Prop where
  buf : ∀ f ∈ c.buf, f.opid = c.opid
  got : ∀ f, (c.pc = .leaving (.ok f) ∨ c.pc = .done (.ok f)) → f.opid = c.opid

/-- The correlation invariant. -/
structure RInv (s : Sys) : Prop where
  callers : ∀ (i : Nat) (c : Caller), s.callers[i]? = some c → CallerOK c
  reg : ∀ (o : OpId) (i : Nat), (o, i) ∈ s.registry →
          ∃ c, s.callers[i]? = some c ∧ c.opid = o ∧ Active c.pc
  rdr : ∀ (ch : Nat) (f : Frame), s.reader = .lookedUp ch f → ∃ c, s.callers[ch]? = some c ∧ c.opid = f.opid

theorem rinv_init (cap : Nat) (b : Bool) (os : List OpId) : RInv (init cap b os) := by
  constructor
  · intro i c h
    simp [init] at h
    obtain ⟨o, _, rfl⟩ := h
    constructor <;> simp
  · intro o i h; simp [init] at h
  · intro ch f h; simp [init] at h

/-- Updating caller `i` by `g` keeps all callers OK if `g` keeps caller `i` OK. -/
theorem callers_upd (cs : List Caller) (i : Nat) (g : Caller → Caller)
    (h : ∀ (j : Nat) (c : Caller), cs[j]? = some c → CallerOK c)
    (hg : ∀ c, cs[i]? = some c → CallerOK (g c)) :
    ∀ (j : Nat) (c' : Caller), (updCaller cs i g)[j]? = some c' → CallerOK c' := by
  intro j c' hj
  by_cases e : i = j
  · subst e
    obtain ⟨c, hc, rfl⟩ := get_upd_same cs i g c' hj
    exact hg c hc
  · rw [get_upd_other cs i j g e] at hj
    exact h j c' hj

/-- Updating caller `i` by an op-id preserving `g` keeps a registry/reader reference valid,
as long as the reference to `i` itself (if any) stays justified. -/
theorem ref_upd (cs : List Caller) (i : Nat) (g : Caller → Caller) (P : Pc → Prop)
    (hop : ∀ c, (g c).opid = c.opid) (hP : ∀ c, cs[i]? = some c → P c.pc → P (g c).pc)
    (j : Nat) (o : OpId) (h : ∃ c, cs[j]? = some c ∧ c.opid = o ∧ P c.pc) :
    ∃ c, (updCaller cs i g)[j]? = some c ∧ c.opid = o ∧ P c.pc := by
  obtain ⟨c, hc, ho, hp⟩ := h
  by_cases e : i = j
  · subst e
    refine ⟨g c, ?_, ?_, hP c hc hp⟩
    · rw [get_upd]; simp [hc]
    · rw [hop]; exact ho
  · exact ⟨c, by rw [get_upd_other cs i j g e]; exact hc, ho, hp⟩

theorem rdr_upd (cs : List Caller) (i : Nat) (g : Caller → Caller)
    (hop : ∀ c, (g c).opid = c.opid) (j : Nat) (o : OpId) (h : ∃ c, cs[j]? = some c ∧ c.opid = o) :
    ∃ c, (updCaller cs i g)[j]? = some c ∧ c.opid = o := by
  obtain ⟨c, hc, ho⟩ := h
  obtain ⟨c', h1, h2, _⟩ := ref_upd cs i g (fun _ => True) hop (fun _ _ _ => trivial) j o ⟨c, hc, ho, trivial⟩
  exact ⟨c', h1, h2⟩

@[simp] theorem setPc_opid (c : Caller) (p : Pc) : (c.setPc p).opid = c.opid := rfl
@[simp] theorem setPc_buf (c : Caller) (p : Pc) : (c.setPc p).buf = c.buf := rfl
@[simp] theorem setPc_pc (c : Caller) (p : Pc) : (c.setPc p).pc = p := rfl
@[simp] theorem push_opid (c : Caller) (f : Frame) : (c.push f).opid = c.opid := rfl
@[simp] theorem push_pc (c : Caller) (f : Frame) : (c.push f).pc = c.pc := rfl
@[simp] theorem push_buf (c : Caller) (f : Frame) : (c.push f).buf = c.buf ++ [f] := rfl
@[simp] theorem take_opid (c : Caller) (p : Pc) (r : List Frame) : (c.take p r).opid = c.opid := rfl
@[simp] theorem take_pc (c : Caller) (p : Pc) (r : List Frame) : (c.take p r).pc = p := rfl
@[simp] theorem take_buf (c : Caller) (p : Pc) (r : List Frame) : (c.take p r).buf = r := rfl

/-- Changing only the pc of caller `i` (registry and reader untouched) preserves the
invariant when the new pc is justified. -/
theorem rinv_setPc (s : Sys) (i : Nat) (c : Caller) (p : Pc) (hi : RInv s) (hc : s.callers[i]? = some c)
    (hgot : ∀ f, (p = .leaving (.ok f) ∨ p = .done (.ok f)) → f.opid = c.opid)
    (hact : Active c.pc → Active p) :
    RInv { s with callers := updCaller s.callers i (fun c => c.setPc p) } := by
  refine ⟨callers_upd _ i (fun c => c.setPc p) hi.callers ?_, ?_, ?_⟩
  · intro c0 h0
    rw [hc] at h0; cases h0
    exact ⟨(hi.callers i c hc).buf, by intro f hf; exact hgot f (by simpa using hf)⟩
  · intro o j hm
    exact ref_upd _ i (fun c => c.setPc p) Active (fun _ => rfl)
      (by intro c0 h0 hp; rw [hc] at h0; cases h0; simpa using hact hp) j o (hi.reg o j hm)
  · intro ch f hr
    exact rdr_upd _ i (fun c => c.setPc p) (fun _ => rfl) ch f.opid (hi.rdr ch f hr)

theorem rinv_step (s s' : Sys) (a : Action) (hi : RInv s) (hs : step s a = some s') : RInv s' := by
  cases a with
  | register i =>
    simp only [step] at hs
    split at hs
    · rename_i c hc
      split at hs
      · cases hs
      · rename_i hnew
        have hpc : c.pc = .new := by simpa using hnew
        split at hs
        · cases hs
          exact rinv_setPc s i c _ hi hc (by intro f hf; simp at hf)
            (by intro hp; rw [hpc] at hp; rcases hp with hp | ⟨_, hp⟩ <;> cases hp)
        · cases hs
          have h1 := rinv_setPc s i c .waiting hi hc (by intro f hf; simp at hf) (fun _ => Or.inl rfl)
          refine ⟨h1.callers, ?_, h1.rdr⟩
          intro o j hm
          simp only [List.mem_append, List.mem_singleton, Prod.mk.injEq] at hm
          rcases hm with hm | ⟨rfl, rfl⟩
          · exact h1.reg o j hm
          · exact ⟨c.setPc .waiting, by simp only [get_upd, if_true, hc, Option.map_some], rfl, Or.inl rfl⟩
    · cases hs
  | recv i =>
    simp only [step] at hs
    split at hs
    · rename_i c hc
      split at hs
      · cases hs
      · split at hs
        · cases hs
        · rename_i f rest hbuf
          cases hs
          have hck := hi.callers i c hc
          refine ⟨callers_upd _ i (fun c => c.take (.leaving (.ok f)) rest) hi.callers ?_, ?_, ?_⟩
          · intro c0 h0
            rw [hc] at h0; cases h0
            refine ⟨?_, ?_⟩
            · intro g hg; exact hck.buf g (by rw [hbuf]; exact List.mem_cons_of_mem _ hg)
            · intro g hg
              simp at hg
              subst hg
              exact hck.buf f (by rw [hbuf]; exact List.mem_cons_self)
          · intro o j hm
            exact ref_upd _ i (fun c => c.take (.leaving (.ok f)) rest) Active (fun _ => rfl)
              (by intro _ _ _; exact Or.inr ⟨_, rfl⟩) j o (hi.reg o j hm)
          · intro ch f' hr
            exact rdr_upd _ i (fun c => c.take (.leaving (.ok f)) rest) (fun _ => rfl) ch f'.opid (hi.rdr ch f' hr)
    · cases hs
  | timeout i =>
    simp only [step] at hs
    split at hs
    · rename_i c hc
      split at hs
      · cases hs
      · cases hs
        exact rinv_setPc s i c _ hi hc (by intro f hf; simp at hf) (fun _ => Or.inr ⟨_, rfl⟩)
    · cases hs
  | sendError i =>
    simp only [step] at hs
    split at hs
    · rename_i c hc
      split at hs
      · cases hs
      · cases hs
        exact rinv_setPc s i c _ hi hc (by intro f hf; simp at hf) (fun _ => Or.inr ⟨_, rfl⟩)
    · cases hs
  | unregister i =>
    simp only [step] at hs
    split at hs
    · rename_i c hc
      split at hs
      · rename_i o hpc
        cases hs
        have hck := hi.callers i c hc
        refine ⟨callers_upd _ i (fun c => c.setPc (.done o)) hi.callers ?_, ?_, ?_⟩
        · intro c0 h0
          rw [hc] at h0; cases h0
          exact ⟨hck.buf, by
            intro f hf
            simp at hf
            exact hck.got f (Or.inl (by rw [hpc, hf]))⟩
        · intro o' j hm
          simp only [List.mem_filter, decide_eq_true_eq] at hm
          obtain ⟨c1, h1, h2, h3⟩ := hi.reg o' j hm.1
          have hne : i ≠ j := by
            intro e; subst e
            rw [hc] at h1; cases h1
            exact hm.2 h2.symm
          exact ⟨c1, by rw [get_upd_other _ i j _ hne]; exact h1, h2, h3⟩
        · intro ch f hr
          exact rdr_upd _ i (fun c => c.setPc (.done o)) (fun _ => rfl) ch f.opid (hi.rdr ch f hr)
      · cases hs
    · cases hs
  | readerLookup f =>
    simp only [step] at hs
    split at hs
    · split at hs
      · rename_i ch hl
        cases hs
        refine ⟨hi.callers, hi.reg, ?_⟩
        intro ch' f' hr
        simp at hr
        obtain ⟨rfl, rfl⟩ := hr
        obtain ⟨c, h1, h2, _⟩ := hi.reg f.opid ch (lookup_some hl)
        exact ⟨c, h1, h2⟩
      · cases hs; exact hi
    · cases hs
  | readerSend =>
    simp only [step] at hs
    split at hs
    · rename_i ch f hrd
      split at hs
      · rename_i c hc
        split at hs
        · cases hs
          obtain ⟨c1, h1, h2⟩ := hi.rdr ch f hrd
          rw [hc] at h1; cases h1
          refine ⟨callers_upd _ ch (fun c => c.push f) hi.callers ?_, ?_, ?_⟩
          · intro c0 h0
            rw [hc] at h0; cases h0
            have hck := hi.callers ch c hc
            refine ⟨?_, hck.got⟩
            intro g hg
            simp at hg
            rcases hg with hg | rfl
            · exact hck.buf g hg
            · exact h2.symm
          · intro o j hm
            exact ref_upd _ ch (fun c => c.push f) Active (fun _ => rfl) (fun _ _ hp => hp) j o (hi.reg o j hm)
          · intro ch' f' hr; simp at hr
        · split at hs
          · cases hs
          · cases hs
            exact ⟨hi.callers, hi.reg, by intro ch' f' hr; simp at hr⟩
      · cases hs
    · cases hs

/-! ### Reachability -/

theorem rinv_run (as : List Action) : ∀ (s s' : Sys), RInv s → run s as = some s' → RInv s' := by
  induction as with
  | nil => intro s s' hi h; simp [run] at h; subst h; exact hi
  | cons a t ih =>
    intro s s' hi h
    simp only [run] at h
    split at h
    · rename_i s1 h1; exact ih s1 s' (rinv_step s s1 a hi h1) h
    · cases h

/-- Op ids of the callers never change. -/
theorem modify_opid (cs : List Caller) (i : Nat) (g : Caller → Caller) (hg : ∀ c, (g c).opid = c.opid) :
    (updCaller cs i g).map (·.opid) = cs.map (·.opid) := by
  unfold updCaller
  induction cs generalizing i with
  | nil => simp
  | cons c t ih =>
    cases i with
    | zero => simp [List.modify_cons, hg]
    | succ n => simp [ih n]

theorem step_opids (s s' : Sys) (a : Action) (hs : step s a = some s') :
    s'.callers.map (·.opid) = s.callers.map (·.opid) ∧ s'.cap = s.cap ∧ s'.sendBlocking = s.sendBlocking := by
  cases a <;> simp only [step] at hs <;> repeat' (split at hs)
  all_goals (first | (cases hs; done) | (cases hs; exact ⟨modify_opid _ _ _ (fun _ => rfl), rfl, rfl⟩) | (cases hs; exact ⟨rfl, rfl, rfl⟩))

theorem run_opids (as : List Action) : ∀ (s s' : Sys), run s as = some s' →
    s'.callers.map (·.opid) = s.callers.map (·.opid) ∧ s'.cap = s.cap ∧ s'.sendBlocking = s.sendBlocking := by
  induction as with
  | nil => intro s s' h; simp [run] at h; subst h; exact ⟨rfl, rfl, rfl⟩
  | cons a t ih =>
    intro s s' h
    simp only [run] at h
    split at h
    · rename_i s1 h1
      have := step_opids s s1 a h1
      have h2 := ih s1 s' h
      exact ⟨h2.1.trans this.1, h2.2.1.trans this.2.1, h2.2.2.trans this.2.2⟩
    · cases h

/-- With pairwise distinct op ids, a caller is determined by its op id. -/
theorem opid_inj (cs : List Caller) (hnd : (cs.map (·.opid)).Nodup) (i j : Nat) (ci cj : Caller)
    (hi : cs[i]? = some ci) (hj : cs[j]? = some cj) (e : ci.opid = cj.opid) : i = j := by
  have h1 : (cs.map (·.opid))[i]? = some ci.opid := by simp [hi]
  have h2 : (cs.map (·.opid))[j]? = some ci.opid := by simp [hj, e]
  obtain ⟨hil, e1⟩ := List.getElem?_eq_some_iff.mp h1
  obtain ⟨hjl, e2⟩ := List.getElem?_eq_some_iff.mp h2
  exact (List.getElem_inj hnd).mp (by rw [e1, e2])

/-- Every active caller is registered under its own op id (needs distinct op ids: `Unregister`
deletes by op id). -/
def JInv (s : Sys) : Prop :=
  ∀ (i : Nat) (c : Caller), s.callers[i]? = some c → Active c.pc → (c.opid, i) ∈ s.registry

theorem jinv_init (cap : Nat) (b : Bool) (os : List OpId) : JInv (init cap b os) := by
  intro i c h ha
  simp [init] at h
  obtain ⟨o, _, rfl⟩ := h
  rcases ha with ha | ⟨_, ha⟩ <;> cases ha

theorem jinv_upd_pc (s : Sys) (i : Nat) (c : Caller) (g : Caller → Caller) (reg' : List (OpId × Nat))
    (hj : JInv s) (hc : s.callers[i]? = some c) (hop : ∀ c, (g c).opid = c.opid)
    (hself : Active (g c).pc → (c.opid, i) ∈ reg')
    (hother : ∀ (j : Nat) (cj : Caller), j ≠ i → s.callers[j]? = some cj → (cj.opid, j) ∈ s.registry → (cj.opid, j) ∈ reg') :
    JInv { s with callers := updCaller s.callers i g, registry := reg' } := by
  intro j c' h ha
  by_cases e : i = j
  · subst e
    obtain ⟨c0, h0, rfl⟩ := get_upd_same _ i g c' h
    rw [hc] at h0; cases h0
    rw [hop]; exact hself ha
  · simp only [get_upd_other _ i j g e] at h
    exact hother j c' (fun h' => e h'.symm) h (hj j c' h ha)

theorem jinv_step (s s' : Sys) (a : Action) (hnd : (s.callers.map (·.opid)).Nodup)
    (hj : JInv s) (hs : step s a = some s') : JInv s' := by
  cases a with
  | register i =>
    simp only [step] at hs
    split at hs
    · rename_i c hc
      split at hs
      · cases hs
      · split at hs
        · cases hs
          have := jinv_upd_pc s i c (fun c => c.setPc (.done .regErr)) s.registry hj hc (fun _ => rfl)
            (by intro ha; rcases ha with ha | ⟨_, ha⟩ <;> cases ha) (fun _ _ _ _ h => h)
          exact this
        · cases hs
          exact jinv_upd_pc s i c (fun c => c.setPc .waiting) _ hj hc (fun _ => rfl)
            (by intro _; simp) (fun _ _ _ _ h => by simp [h])
    · cases hs
  | recv i =>
    simp only [step] at hs
    split at hs
    · rename_i c hc
      split at hs
      · cases hs
      · rename_i hw
        split at hs
        · cases hs
        · rename_i f rest _
          cases hs
          have := jinv_upd_pc s i c (fun c => c.take (.leaving (.ok f)) rest) s.registry hj hc (fun _ => rfl)
            (fun _ => hj i c hc (Or.inl (by simpa using hw))) (fun _ _ _ _ h => h)
          exact this
    · cases hs
  | timeout i =>
    simp only [step] at hs
    split at hs
    · rename_i c hc
      split at hs
      · cases hs
      · rename_i hw
        cases hs
        have := jinv_upd_pc s i c (fun c => c.setPc (.leaving .timedOut)) s.registry hj hc (fun _ => rfl)
          (fun _ => hj i c hc (Or.inl (by simpa using hw))) (fun _ _ _ _ h => h)
        exact this
    · cases hs
  | sendError i =>
    simp only [step] at hs
    split at hs
    · rename_i c hc
      split at hs
      · cases hs
      · rename_i hw
        cases hs
        have := jinv_upd_pc s i c (fun c => c.setPc (.leaving .sendErr)) s.registry hj hc (fun _ => rfl)
          (fun _ => hj i c hc (Or.inl (by simpa using hw))) (fun _ _ _ _ h => h)
        exact this
    · cases hs
  | unregister i =>
    simp only [step] at hs
    split at hs
    · rename_i c hc
      split at hs
      · rename_i o hpc
        cases hs
        exact jinv_upd_pc s i c (fun c => c.setPc (.done o)) _ hj hc (fun _ => rfl)
          (by intro ha; rcases ha with ha | ⟨_, ha⟩ <;> cases ha)
          (by
            intro j cj hne hcj hm
            simp only [List.mem_filter, decide_eq_true_eq]
            refine ⟨hm, ?_⟩
            intro e
            exact hne (opid_inj s.callers hnd j i cj c hcj hc e))
      · cases hs
    · cases hs
  | readerLookup f =>
    simp only [step] at hs
    split at hs
    · split at hs <;> (cases hs; exact hj)
    · cases hs
  | readerSend =>
    simp only [step] at hs
    split at hs
    · rename_i ch f _
      split at hs
      · rename_i c hc
        split at hs
        · cases hs
          have := jinv_upd_pc s ch c (fun c => c.push f) s.registry hj hc (fun _ => rfl)
            (fun ha => hj ch c hc ha) (fun _ _ _ _ h => h)
          exact this
        · split at hs
          · cases hs
          · cases hs; exact hj
      · cases hs
    · cases hs

/-- A state reachable from the initial state of a system with callers `os`. -/
def Reachable (cap : Nat) (b : Bool) (os : List OpId) (s : Sys) : Prop :=
  ∃ as, run (init cap b os) as = some s

theorem reachable_rinv {cap b os s} (h : Reachable cap b os s) : RInv s := by
  obtain ⟨as, h⟩ := h
  exact rinv_run as _ _ (rinv_init cap b os) h

theorem reachable_params {cap b os s} (h : Reachable cap b os s) :
    s.callers.map (·.opid) = os ∧ s.cap = cap ∧ s.sendBlocking = b := by
  obtain ⟨as, h⟩ := h
  have := run_opids as _ _ h
  simpa [init, Function.comp_def] using this

theorem jinv_run (as : List Action) : ∀ (s s' : Sys), (s.callers.map (·.opid)).Nodup → JInv s →
    run s as = some s' → JInv s' := by
  induction as with
  | nil => intro s s' _ hj h; simp [run] at h; subst h; exact hj
  | cons a t ih =>
    intro s s' hnd hj h
    simp only [run] at h
    split at h
    · rename_i s1 h1
      exact ih s1 s' (by rw [(step_opids s s1 a h1).1]; exact hnd) (jinv_step s s1 a hnd hj h1) h
    · cases h

theorem reachable_jinv {cap b os s} (hnd : os.Nodup) (h : Reachable cap b os s) : JInv s := by
  obtain ⟨as, h⟩ := h
  exact jinv_run as _ _ (by simpa [init, Function.comp_def] using hnd) (jinv_init cap b os) h

end FV.Reg
