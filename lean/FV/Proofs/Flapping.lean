/-
Invariants of the runner-as-channel-consumer model under a flapping peer (C15).
-/
import FV.Model.Flapping
namespace FV.Flapping
open FV.Monitor

/-- holds in every run -/
structure FInv (s : Sys) : Prop where
  account : s.failures = s.reports + s.chan + s.dropped
  cap : s.chan ≤ 1
  openEmpty : s.isOpen = true → s.byMonitor = true → s.chan = 0
  aliveOpen : s.isOpen = true → s.byMonitor = true → s.alive = true

theorem finv_init (sc : List Outcome) : FInv (init sc) := by
  constructor <;> simp [init]

theorem finv_step (p : Policy) {s : Sys} (h : FInv s) (a : Act) : FInv (step p s a) := by
  obtain ⟨h1, h2, h3, h4⟩ := h
  cases a with
  | fail =>
    simp only [step]
    split
    · simp only [post]
      split
      · constructor <;> simp_all <;> omega
      · constructor <;> simp_all <;> omega
    · exact ⟨h1, h2, h3, h4⟩
  | appOpen =>
    simp only [step]
    split
    · exact ⟨h1, h2, h3, h4⟩
    · constructor <;> simp_all
  | handle =>
    simp only [step]
    split
    · exact ⟨h1, h2, h3, h4⟩
    · rename_i hc
      simp only [Bool.or_eq_true, Bool.not_eq_true', decide_eq_true_eq, not_or] at hc
      obtain ⟨ha, hc⟩ := hc
      have hc1 : s.chan = 1 := by omega
      split
      · rename_i ho
        have hb : s.byMonitor = false := by
          cases hb : s.byMonitor with
          | false => rfl
          | true => have := h3 ho hb; omega
        constructor <;> simp_all <;> omega
      · split
        · constructor <;> simp_all <;> omega
        · split
          · constructor <;> simp_all <;> omega
          · constructor <;> simp_all <;> omega
          · simp only [post]
            split
            · constructor <;> simp_all <;> omega
            · constructor <;> simp_all <;> omega

theorem finv_run (p : Policy) {s : Sys} (h : FInv s) (as : List Act) : FInv (run p s as) := by
  induction as generalizing s with
  | nil => exact h
  | cons a t ih => exact ih (finv_step p h a)

/-- holds in runs in which only the monitor reopens the transport -/
structure MInv (s : Sys) : Prop where
  noDrop : s.dropped = 0
  openEmpty : s.isOpen = true → s.chan = 0
  deadClosed : s.alive = false → s.isOpen = false ∧ s.chan = 0

theorem minv_init (sc : List Outcome) : MInv (init sc) := by
  constructor <;> simp [init]

theorem minv_step (p : Policy) {s : Sys} (hf : FInv s) (h : MInv s) (a : Act) (ha : a ≠ .appOpen) : MInv (step p s a) := by
  obtain ⟨m1, m2, m3⟩ := h
  have hcap := hf.cap
  cases a with
  | appOpen => exact absurd rfl ha
  | fail =>
    simp only [step]
    split
    · rename_i ho
      have := m2 ho
      simp only [post]
      split
      · constructor <;> simp_all
      · simp_all
    · exact ⟨m1, m2, m3⟩
  | handle =>
    simp only [step]
    split
    · exact ⟨m1, m2, m3⟩
    · rename_i hc
      simp only [Bool.or_eq_true, Bool.not_eq_true', decide_eq_true_eq, not_or] at hc
      obtain ⟨hal, hc⟩ := hc
      have hc1 : s.chan = 1 := by omega
      have hcl : s.isOpen = false := by
        cases ho : s.isOpen with
        | false => rfl
        | true => have := m2 ho; omega
      simp only [hcl, Bool.false_eq_true, if_false]
      split
      · constructor <;> simp_all
      · split
        · constructor <;> simp_all
        · constructor <;> simp_all
        · simp only [post]
          split
          · constructor <;> simp_all
          · simp_all

theorem minv_run (p : Policy) {s : Sys} (hf : FInv s) (h : MInv s) (as : List Act) (hn : ∀ a ∈ as, a ≠ .appOpen) :
    MInv (run p s as) := by
  induction as generalizing s with
  | nil => exact h
  | cons a t ih =>
    exact ih (finv_step p hf a) (minv_step p hf h a (hn a (by simp))) (fun b hb => hn b (by simp [hb]))
end FV.Flapping
