/-
Lemmas about the HTTP client response path of FV.Model.Receivers4 (C05 (e)).
-/
import FV.Model.Receivers4
import FV.Proofs.Receivers3

namespace FV.Recv4
open FV

theorem httpRequest_no_panic (status : Nat) (body : B64) : ∀ p, httpRequest status body ≠ .panic p := by
  intro p
  unfold httpRequest
  split
  · intro h; cases h
  · split
    · intro h; cases h
    · split
      · intro h; cases h
      · rename_i b
        split
        · intro h; cases h
        · split
          · split <;> (intro h; cases h)
          · have : sliceFrom b 4 = .ok (b.drop 4) := by
              unfold sliceFrom
              rw [if_pos (by omega)]
              rfl
            rw [this]
            intro h; cases h

/-- `Request` hands back reply bytes exactly for a 2xx (below 300, not 413) response whose body is base64 of
more than 4 bytes; the bytes are what follows the first four, whatever those four say. -/
theorem httpRequest_transport (status : Nat) (body : B64) (r : Bytes) :
    httpRequest status body = .transport r ↔
      status ≠ 413 ∧ status < 300 ∧ ∃ b, body = .decoded b ∧ 4 < b.length ∧ r = b.drop 4 := by
  unfold httpRequest
  constructor
  · intro h
    split at h
    · cases h
    · split at h
      · cases h
      · split at h
        · cases h
        · rename_i b
          split at h
          · cases h
          · split at h
            · split at h <;> cases h
            · have hs : sliceFrom b 4 = .ok (b.drop 4) := by
                unfold sliceFrom
                rw [if_pos (by omega)]
                rfl
              rw [hs] at h
              cases h
              exact ⟨by assumption, by omega, b, rfl, by omega, rfl⟩
  · rintro ⟨h1, h2, b, hb, hl, hr⟩
    subst hb hr
    rw [if_neg h1, if_neg (by omega)]
    dsimp only
    rw [if_neg (by omega), if_neg (by omega)]
    have hs : sliceFrom b 4 = .ok (b.drop 4) := by
      unfold sliceFrom
      rw [if_pos (by omega)]
      rfl
    rw [hs]

/-- `Request` answers `(nil, nil)` exactly for a 2xx response that decodes to four zero bytes. -/
theorem httpRequest_nil (status : Nat) (body : B64) :
    httpRequest status body = .nilTransport ↔
      status ≠ 413 ∧ status < 300 ∧ ∃ b, body = .decoded b ∧ b.length = 4 ∧ rd32 b = 0 := by
  unfold httpRequest
  constructor
  · intro h
    split at h
    · cases h
    · split at h
      · cases h
      · split at h
        · cases h
        · rename_i b
          split at h
          · cases h
          · split at h
            · split at h
              · cases h
              · rename_i hz
                exact ⟨by assumption, by omega, b, rfl, by assumption, by
                  cases Nat.decEq (rd32 b) 0 with
                  | isTrue h0 => exact h0
                  | isFalse h0 => exact absurd h0 hz⟩
            · split at h <;> cases h
  · rintro ⟨h1, h2, b, hb, hl, hz⟩
    subst hb
    rw [if_neg h1, if_neg (by omega)]
    dsimp only
    rw [if_neg (by omega), if_pos hl, if_neg (by simp [hz])]

/-- With the nil test in `Call`, every status and every body gives an error of the transport or a stage of
`processReply`: never a panic. -/
theorem httpCall_total (method : Bytes) (status : Nat) (body : B64) :
    (∃ e, httpCall true method status body = .req e) ∨ (∃ o, httpCall true method status body = .reply o) := by
  unfold httpCall
  split
  · exact Or.inl ⟨_, rfl⟩
  · rename_i p hp; exact absurd hp (httpRequest_no_panic _ _ p)
  · exact Or.inl ⟨_, rfl⟩
  · rename_i r _
    obtain ⟨o, ho⟩ := Recv3.processReply_total method r
    rw [ho]
    exact Or.inr ⟨o, rfl⟩

theorem httpOneway_total (status : Nat) (body : B64) : ∃ r, httpOneway status body = .ok r := by
  unfold httpOneway
  split
  · exact ⟨_, rfl⟩
  · rename_i p hp; exact absurd hp (httpRequest_no_panic _ _ p)
  · exact ⟨_, rfl⟩
  · exact ⟨_, rfl⟩

theorem httpCall_no_panic (method : Bytes) (status : Nat) (body : B64) : ∀ p, httpCall true method status body ≠ .panic p := by
  intro p h
  rcases httpCall_total method status body with ⟨e, he⟩ | ⟨o, ho⟩
  · rw [he] at h; cases h
  · rw [ho] at h; cases h

theorem httpReceived_total (dec : Bytes → B64) (method : Bytes) (status : Nat) (got : Option Bytes) :
    (∃ e, httpReceived dec true method status got = .req e) ∨ (∃ o, httpReceived dec true method status got = .reply o) := by
  unfold httpReceived
  split
  · exact Or.inl ⟨_, rfl⟩
  · cases got with
    | none => exact Or.inl ⟨_, rfl⟩
    | some b => exact httpCall_total method status (dec b)

end FV.Recv4
