/-
C11: specification = validator (`Valid ctx ↔ validateFile ctx = ok`), and `validate` never
panics on files whose declarations have names: an invalid file gets an ERROR.
-/
import FV.Spec.Compile
import FV.Proofs.Compile
import FV.Proofs.CompileA
import FV.Proofs.CompileB
import FV.Proofs.CompileC
import FV.Proofs.CompileD
namespace FV.Compile

/-- The specification and the validator agree: `validate` returns nil exactly on the valid files. -/
theorem valid_iff_validateFile (ctx : Ctx) : Valid ctx ↔ validateFile ctx = .ok () := by
  rw [validateFile_ok_iff]
  constructor
  · intro v
    have hk := (validateKind_all_iff ctx).mpr v.structs
    exact {
      names := (validateNames_ok_iff ctx.self).mpr ⟨v.serviceNames, v.methodNames, v.scopeNames, v.opNames⟩
      vendor := guardV_ok_iff.mpr (by rw [v.vendor]; rfl)
      includes := (validateIncludes_ok_iff _ _).mpr ⟨fun _ _ => List.not_mem_nil, v.includes⟩
      consts := firstErr_ok_iff.mpr (fun c hc => (validateConstant_ok_iff ctx c).mpr (v.consts c hc))
      typedefs := (validateTypedefs_ok_iff ctx).mpr ⟨v.typedefs, v.acyclic⟩
      structs := hk.1
      unions := hk.2.1
      exceptions := hk.2.2
      services := (validateServices_ok_iff ctx).mpr v.methods
      scopes := (validateScopes_ok_iff ctx).mpr v.ops }
  · intro c
    obtain ⟨n1, n2, n3, n4⟩ := (validateNames_ok_iff ctx.self).mp c.names
    have ht := (validateTypedefs_ok_iff ctx).mp c.typedefs
    exact {
      serviceNames := n1, methodNames := n2, scopeNames := n3, opNames := n4
      vendor := by
        have := guardV_ok_iff.mp c.vendor
        cases h : ctx.self.vendorWild with
        | false => rfl
        | true => rw [h] at this; cases this
      includes := ((validateIncludes_ok_iff _ _).mp c.includes).2
      consts := fun k hk => (validateConstant_ok_iff ctx k).mp (firstErr_ok c.consts k hk)
      typedefs := ht.1
      acyclic := ht.2
      structs := (validateKind_all_iff ctx).mp ⟨c.structs, c.unions, c.exceptions⟩
      methods := (validateServices_ok_iff ctx).mp c.services
      ops := (validateScopes_ok_iff ctx).mp c.scopes }

instance (ctx : Ctx) : Decidable (Valid ctx) := decidable_of_iff _ (valid_iff_validateFile ctx).symm

/-! ### `validate` never panics on files whose declarations have names -/

def NoPanic (r : CRes α) : Prop := ∀ p, r ≠ .panic p

theorem NoPanic.ok (a : α) : NoPanic (CRes.ok a) := fun _ h => by cases h
theorem NoPanic.err (e : VErr) : NoPanic (CRes.err e : CRes α) := fun _ h => by cases h
theorem NoPanic.guardV (b : Bool) (e : VErr) : NoPanic (guardV b e) := by
  cases b <;> intro p h <;> cases h
theorem NoPanic.bind {x : CRes α} {f : α → CRes β} (hx : NoPanic x) (hf : ∀ a, NoPanic (f a)) : NoPanic (x >>= f) := by
  cases x with
  | ok a => exact hf a
  | err e => exact NoPanic.err e
  | panic p => exact absurd rfl (hx p)
theorem NoPanic.firstErr {f : α → CRes Unit} {l : List α} (h : ∀ a ∈ l, NoPanic (f a)) : NoPanic (firstErr f l) := by
  induction l with
  | nil => exact NoPanic.ok ()
  | cons x xs ih =>
    unfold FV.Compile.firstErr
    cases hx : f x with
    | ok u => exact ih (fun a ha => h a (List.mem_cons_of_mem _ ha))
    | err e => exact NoPanic.err e
    | panic p => exact absurd hx (h x List.mem_cons_self p)

theorem NoPanic.dupLoop (dupE conflictE : VErr) (nameOf : α → Name) (inner : α → CRes Unit) :
    ∀ (xs : List α) (seen : List (Name × Name)), (∀ x ∈ xs, nameOf x ≠ []) → (∀ x ∈ xs, NoPanic (inner x)) →
      NoPanic (dupLoop dupE conflictE nameOf inner seen xs) := by
  intro xs
  induction xs with
  | nil => intro _ _ _; exact NoPanic.ok ()
  | cons x xs ih =>
    intro seen hne hin
    unfold FV.Compile.dupLoop
    cases hn : nameOf x with
    | nil => exact absurd hn (hne x List.mem_cons_self)
    | cons c cs =>
      rw [lowerFirst_cons]
      dsimp only
      cases hl : seen.lookup (nameKey (c :: cs)) with
      | some prev => dsimp only; split <;> exact NoPanic.err _
      | none =>
        dsimp only
        cases hi : inner x with
        | ok u => exact ih _ (fun y hy => hne y (List.mem_cons_of_mem _ hy)) (fun y hy => hin y (List.mem_cons_of_mem _ hy))
        | err e => exact NoPanic.err e
        | panic p => exact absurd hi (hin x List.mem_cons_self p)

theorem NoPanic.dupIds (e : VErr) : ∀ (is seen : List Int), NoPanic (dupIds e seen is) := by
  intro is
  induction is with
  | nil => intro _; exact NoPanic.ok ()
  | cons i is ih => intro seen; unfold FV.Compile.dupIds; split; exact NoPanic.err e; exact ih _

theorem NoPanic.validateIncludes : ∀ (vs seen : List Name), NoPanic (validateIncludes seen vs) := by
  intro vs
  induction vs with
  | nil => intro _; exact NoPanic.ok ()
  | cons v vs ih => intro seen; unfold FV.Compile.validateIncludes; split; exact NoPanic.err _; exact ih _

theorem NoPanic.validateStructLike (ctx : Ctx) (s : StructLike) : ∀ (fls : List Field) (seen : List Int),
    NoPanic (validateStructLike ctx s seen fls) := by
  intro fls
  induction fls with
  | nil => intro _; exact NoPanic.ok ()
  | cons fl fls ih =>
    intro seen
    unfold FV.Compile.validateStructLike
    split
    · exact NoPanic.err _
    · split
      · exact NoPanic.err _
      · exact ih _

theorem NoPanic.validateConstant (ctx : Ctx) (c : Const) : NoPanic (validateConstant ctx c) := by
  unfold FV.Compile.validateConstant
  repeat' split
  all_goals first | exact NoPanic.err _ | exact NoPanic.ok _ | exact NoPanic.guardV _ _

/-- Every service, method, scope and operation has a name (the grammar's `Identifier` is not empty). -/
def NamesNonEmpty (f : File) : Prop :=
  (∀ s ∈ f.services, s.name ≠ [] ∧ ∀ m ∈ s.methods, m.name ≠ []) ∧
  (∀ s ∈ f.scopes, s.name ≠ [] ∧ ∀ o ∈ s.ops, o.name ≠ [])

theorem NoPanic.validateFile (ctx : Ctx) (hn : NamesNonEmpty ctx.self) : NoPanic (validateFile ctx) := by
  unfold FV.Compile.validateFile
  refine NoPanic.bind ?_ fun _ => NoPanic.bind (NoPanic.guardV _ _) fun _ => NoPanic.bind (NoPanic.validateIncludes _ _) fun _ =>
    NoPanic.bind (NoPanic.firstErr fun c _ => NoPanic.validateConstant ctx c) fun _ =>
    NoPanic.bind (validateTypedefs_not_panic ctx) fun _ => NoPanic.bind ?_ fun _ => NoPanic.bind ?_ fun _ =>
    NoPanic.bind ?_ fun _ => NoPanic.bind ?_ fun _ => ?_
  · unfold validateNames
    refine NoPanic.bind ?_ fun _ => ?_
    · exact NoPanic.dupLoop _ _ _ _ _ _ (fun s hs => (hn.1 s hs).1)
        (fun s hs => NoPanic.dupLoop _ _ _ _ _ _ (fun m hm => (hn.1 s hs).2 m hm) (fun _ _ => NoPanic.ok ()))
    · exact NoPanic.dupLoop _ _ _ _ _ _ (fun s hs => (hn.2 s hs).1)
        (fun s hs => NoPanic.dupLoop _ _ _ _ _ _ (fun o ho => (hn.2 s hs).2 o ho) (fun _ _ => NoPanic.ok ()))
  · exact NoPanic.firstErr fun s _ => NoPanic.validateStructLike ctx s _ _
  · exact NoPanic.firstErr fun s _ => NoPanic.validateStructLike ctx s _ _
  · exact NoPanic.firstErr fun s _ => NoPanic.validateStructLike ctx s _ _
  · unfold validateServices
    refine NoPanic.firstErr fun s _ => NoPanic.bind ?_ fun _ => ?_
    · unfold validateServiceTypes
      refine NoPanic.firstErr fun m _ => NoPanic.bind ?_ fun _ => NoPanic.bind (NoPanic.firstErr fun _ _ => NoPanic.guardV _ _) fun _ =>
        NoPanic.firstErr fun _ _ => NoPanic.guardV _ _
      split
      · exact NoPanic.guardV _ _
      · exact NoPanic.ok _
    · unfold validateServiceShape
      refine NoPanic.firstErr fun m _ => NoPanic.bind ?_ fun _ => NoPanic.dupIds _ _ _
      split
      · exact NoPanic.bind (NoPanic.guardV _ _) fun _ => NoPanic.guardV _ _
      · exact NoPanic.ok _
  · unfold validateScopes
    exact NoPanic.firstErr fun s _ => NoPanic.firstErr fun _ _ => NoPanic.guardV _ _

/-- Invalid ⇒ diagnosed: a file that is not `Valid` (and whose declarations have names) makes
`validate` return an ERROR — not nil, not a panic. -/
theorem validateFile_err_of_not_valid (ctx : Ctx) (hn : NamesNonEmpty ctx.self) (h : ¬ Valid ctx) :
    ∃ e, validateFile ctx = .err e := by
  cases hv : validateFile ctx with
  | ok u => cases u; exact absurd ((valid_iff_validateFile ctx).mpr hv) h
  | err e => exact ⟨e, rfl⟩
  | panic p => exact absurd hv (NoPanic.validateFile ctx hn p)


end FV.Compile
