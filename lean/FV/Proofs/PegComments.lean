/-
Comments of the regenerated grammar are gaps: `/* … */` (an item of `__`, and of `_` when it has
no newline), `// …\n` and `# …\n` (items of `__`).  With `IsWs.gap_*` and `IsGap.newline_uu`
(PegGaps) these are all the items of the three gap rules; `IsGap.append` concatenates them.
-/
import FV.Proofs.PegGaps

namespace FV.PegIdl
open FV.Peg FV.Generated FV.Act

/-- `*/` does not occur in the text. -/
def noClose : List Char → Bool
  | [] => true
  | [_] => true
  | a :: b :: r => !(a == '*' && b == '/') && noClose (b :: r)

theorem noClose_tail {c : Char} {r : List Char} (h : noClose (c :: r) = true) : noClose r = true := by
  cases r with
  | nil => rfl
  | cons b r' => simp only [noClose, Bool.and_eq_true] at h; exact h.2

theorem noClose_suffix : ∀ (pre l : List Char), noClose (pre ++ l) = true → noClose l = true := by
  intro pre
  induction pre with
  | nil => intro l h; simpa using h
  | cons a p ih => intro l h; exact ih l (noClose_tail (by simpa using h))

/-- Inside a comment body without `*/`, the closer does not match before the end. -/
theorem noClose_match (c : Char) (suf next : List Char) (h : noClose (c :: suf) = true) :
    matchLit false ['*', '/'] (c :: suf ++ ('*' :: '/' :: next)) = none := by
  by_cases hc : c = '*'
  · subst hc
    cases suf with
    | nil => simp [matchLit]
    | cons b r =>
      have hb : b ≠ '/' := by intro e; subst e; simp [noClose] at h
      simp [matchLit, hb]
  · simp [matchLit, hc]

def scanBody (stopE : Expr) : Expr := .seq [.notP stopE, .ref "SourceChar"]

/-- `( !stop SourceChar )*` runs over `body` and stops at `tail`. -/
theorem scan_run (stopE : Expr) (k : Nat) (tail : List Char) (t0 : Tree) (r0 : List Char) (hstop : ParsesTo grammar stopE tail t0 r0 k) :
    ∀ (body : List Char), (∀ pre c suf, body = pre ++ c :: suf → FailsOn grammar stopE (c :: suf ++ tail) k) →
      StarRun grammar (scanBody stopE) (k + 6) (body ++ tail) (body.map fun c => Tree.seq [.nil, .text [c]]) tail := by
  intro body
  induction body with
  | nil =>
    intro _
    refine .done ?_
    have := FailsOn.seq (SeqFail.head (es := [.ref "SourceChar"]) (FailsOn.notP hstop))
    exact this.mono (by simp; omega)
  | cons c b ih =>
    intro hgo
    have h1 : ParsesTo grammar (.notP stopE) (c :: b ++ tail) .nil (c :: b ++ tail) (k + 2) :=
      (ParsesTo.notP (hgo [] c b rfl)).mono (by omega)
    have h2 : ParsesTo grammar (.ref "SourceChar") (c :: (b ++ tail)) (.text [c]) (b ++ tail) (k + 2) :=
      (ParsesTo.ref lk_SourceChar (by rw [rule_SourceChar]; exact ParsesTo.any)).mono (by omega)
    have hs := ParsesTo.seq (SeqRun.cons h1 (SeqRun.cons h2 SeqRun.nil))
    refine .step (hs.mono (by simp; omega)) (ih (fun pre c' suf e => ?_))
    exact hgo (c :: pre) c' suf (by simp [e])

/-- A block comment `/*` body `*/` whose body has no `*/` and does not make it a doc comment (`/**@`). -/
def BlockBody (body : List Char) : Prop :=
  noClose body = true ∧ matchLit false ['*', '@'] body = none

theorem notDoc_of_block (body next : List Char) (h : matchLit false ['*', '@'] body = none) :
    matchLit false ['/', '*', '*', '@'] ('/' :: '*' :: body ++ ('*' :: '/' :: next)) = none := by
  cases body with
  | nil => simp [matchLit]
  | cons a r =>
    by_cases ha : a = '*'
    · subst ha
      cases r with
      | nil => simp [matchLit]
      | cons b r' =>
        have : b ≠ '@' := by intro e; subst e; simp [matchLit] at h
        simp [matchLit, this]
    · simp [matchLit, ha]

theorem docstring_fails_lit (x : List Char) (h : matchLit false ['/', '*', '*', '@'] x = none) : FailsOn grammar (.ref "DocString") x 10 := by
  have h1 := FailsOn.act (tag := "DocString1") (FailsOn.seq (SeqFail.head (es := [
    .star (.seq [.notP (.lit ['*', '/'] false), .ref "SourceChar"]), .lit ['*', '/'] false]) (FailsOn.lit (g := grammar) h)))
  exact (FailsOn.ref lk_DocString (by rw [rule_DocString]; exact h1)).mono (by simp)

theorem block_scan (body next : List Char) (hb : noClose body = true) :
    StarRun grammar (scanBody (.lit ['*', '/'] false)) 7 (body ++ ('*' :: '/' :: next))
      (body.map fun c => Tree.seq [.nil, .text [c]]) ('*' :: '/' :: next) :=
  scan_run (.lit ['*', '/'] false) 1 ('*' :: '/' :: next) _ _ (ParsesTo.lit_append ['*', '/'] next) body (by
    intro pre c suf e
    subst e
    exact FailsOn.lit (noClose_match c suf next (noClose_suffix pre _ hb)))

/-- `MultiLineComment` on a block comment. -/
theorem mlc_parses (body next : List Char) (hb : BlockBody body) :
    ∃ t, ParsesTo grammar (.ref "MultiLineComment") ('/' :: '*' :: body ++ ('*' :: '/' :: next)) t next (body.length + 30) := by
  have h0 : ParsesTo grammar (.notP (.ref "DocString")) ('/' :: '*' :: body ++ ('*' :: '/' :: next)) .nil _ (body.length + 20) :=
    (ParsesTo.notP (docstring_fails_lit _ (notDoc_of_block body next hb.2))).mono (by omega)
  have h1 : ParsesTo grammar (.lit ['/', '*'] false) ('/' :: '*' :: body ++ ('*' :: '/' :: next)) (.text ['/', '*']) (body ++ ('*' :: '/' :: next))
      (body.length + 20) := (ParsesTo.lit_append ['/', '*'] _).mono (by omega)
  have h2 := (ParsesTo.star (block_scan body next hb.1)).mono (by simp : _ ≤ body.length + 20)
  have h3 : ParsesTo grammar (.lit ['*', '/'] false) ('*' :: '/' :: next) (.text ['*', '/']) next (body.length + 20) :=
    (ParsesTo.lit_append ['*', '/'] next).mono (by omega)
  have hs := ParsesTo.seq (SeqRun.cons h0 (SeqRun.cons h1 (SeqRun.cons h2 (SeqRun.cons h3 SeqRun.nil))))
  exact ⟨_, (ParsesTo.ref lk_MLC (by rw [rule_MultiLineComment]; exact hs)).mono (by simp; omega)⟩

/-- A block comment is a gap of `__`. -/
theorem IsGap.block_uu (body : List Char) (hb : BlockBody body) : IsGap uuBody ('/' :: '*' :: body ++ ['*', '/']) := by
  intro next
  obtain ⟨t, ht⟩ := mlc_parses body next hb
  have hin : ('/' :: '*' :: body ++ ['*', '/']) ++ next = '/' :: '*' :: body ++ ('*' :: '/' :: next) := by simp
  rw [hin]
  have hc : ParsesTo grammar (.ref "Comment") ('/' :: '*' :: body ++ ('*' :: '/' :: next)) t next (body.length + 40) :=
    (ParsesTo.ref lk_Comment (by rw [rule_Comment]; exact ParsesTo.choice (ChoiceRun.head (es := [.ref "SingleLineComment"]) ht))).mono (by simp; omega)
  have hw : FailsOn grammar (.ref "Whitespace") ('/' :: '*' :: body ++ ('*' :: '/' :: next)) (body.length + 40) :=
    (ws_fails _ _ (by decide)).mono (by omega)
  have he : FailsOn grammar (.ref "EOL") ('/' :: '*' :: body ++ ('*' :: '/' :: next)) (body.length + 40) :=
    (FailsOn.ref lk_EOL (by rw [rule_EOL]; exact FailsOn.lit (by simp [matchLit]))).mono (by omega)
  refine ⟨[t], .cons ((ParsesTo.choice (ChoiceRun.tail hw (ChoiceRun.tail he (ChoiceRun.head (es := []) hc)))).mono (by simp; omega)) .nil, by simp⟩

/-! ### `/* … */` without a newline as an item of `_` -/

def stopU : Expr := .choice [.lit ['*', '/'] false, .ref "EOL"]

theorem mlcn_parses (body next : List Char) (hb : BlockBody body) (hnl : ∀ c ∈ body, c ≠ '\n') :
    ∃ t, ParsesTo grammar (.ref "MultiLineCommentNoLineTerminator") ('/' :: '*' :: body ++ ('*' :: '/' :: next)) t next (body.length + 35) := by
  have hstop : ParsesTo grammar stopU ('*' :: '/' :: next) (.text ['*', '/']) next 6 :=
    (ParsesTo.choice (ChoiceRun.head (es := [.ref "EOL"]) (ParsesTo.lit_append ['*', '/'] next))).mono (by simp)
  have hrun := scan_run stopU 6 ('*' :: '/' :: next) _ _ hstop body (by
    intro pre c suf e
    subst e
    refine (FailsOn.choice (k := 2) (es := [.lit ['*', '/'] false, .ref "EOL"]) ?_).mono (by simp)
    intro x hx
    simp only [List.mem_cons, List.mem_nil_iff, or_false] at hx
    rcases hx with rfl | rfl
    · exact (FailsOn.lit (noClose_match c suf next (noClose_suffix pre _ hb.1))).mono (by omega)
    · have hc : c ≠ '\n' := hnl c (by simp)
      exact FailsOn.ref lk_EOL (by rw [rule_EOL]; exact FailsOn.lit (by simp [matchLit, hc])))
  have h0 : ParsesTo grammar (.notP (.ref "DocString")) ('/' :: '*' :: body ++ ('*' :: '/' :: next)) .nil _ (body.length + 25) :=
    (ParsesTo.notP (docstring_fails_lit _ (notDoc_of_block body next hb.2))).mono (by omega)
  have h1 : ParsesTo grammar (.lit ['/', '*'] false) ('/' :: '*' :: body ++ ('*' :: '/' :: next)) (.text ['/', '*']) (body ++ ('*' :: '/' :: next))
      (body.length + 25) := (ParsesTo.lit_append ['/', '*'] _).mono (by omega)
  have h2 := (ParsesTo.star hrun).mono (by simp : _ ≤ body.length + 25)
  have h3 : ParsesTo grammar (.lit ['*', '/'] false) ('*' :: '/' :: next) (.text ['*', '/']) next (body.length + 25) :=
    (ParsesTo.lit_append ['*', '/'] next).mono (by omega)
  have hs := ParsesTo.seq (SeqRun.cons h0 (SeqRun.cons h1 (SeqRun.cons h2 (SeqRun.cons h3 SeqRun.nil))))
  exact ⟨_, (ParsesTo.ref lk_MLCN (by rw [rule_MultiLineCommentNoLineTerminator]; exact hs)).mono (by simp; omega)⟩

/-- A one-line block comment is a gap of `_`. -/
theorem IsGap.block_u (body : List Char) (hb : BlockBody body) (hnl : ∀ c ∈ body, c ≠ '\n') :
    IsGap uBody ('/' :: '*' :: body ++ ['*', '/']) := by
  intro next
  obtain ⟨t, ht⟩ := mlcn_parses body next hb hnl
  have hin : ('/' :: '*' :: body ++ ['*', '/']) ++ next = '/' :: '*' :: body ++ ('*' :: '/' :: next) := by simp
  rw [hin]
  have hw : FailsOn grammar (.ref "Whitespace") ('/' :: '*' :: body ++ ('*' :: '/' :: next)) (body.length + 35) :=
    (ws_fails _ _ (by decide)).mono (by omega)
  refine ⟨[t], .cons ((ParsesTo.choice (ChoiceRun.tail hw (ChoiceRun.head (es := []) ht))).mono (by simp; omega)) .nil, by simp⟩

/-! ### `// …` and `# …` up to and including the newline as items of `__` -/

theorem line_scan (body next : List Char) (hnl : ∀ c ∈ body, c ≠ '\n') :
    StarRun grammar (scanBody (.ref "EOL")) 8 (body ++ ('\n' :: next)) (body.map fun c => Tree.seq [.nil, .text [c]]) ('\n' :: next) :=
  scan_run (.ref "EOL") 2 ('\n' :: next) _ _ (ParsesTo.ref lk_EOL (by rw [rule_EOL]; exact ParsesTo.lit_append ['\n'] next)) body (by
    intro pre c suf e
    subst e
    have hc : c ≠ '\n' := hnl c (by simp)
    exact FailsOn.ref lk_EOL (by rw [rule_EOL]; exact FailsOn.lit (by simp [matchLit, hc])))

/-- The opener of a line comment: `//` or `#`. -/
def LineOpener (o : List Char) : Prop := o = ['/', '/'] ∨ o = ['#']

theorem slc_parses (o body next : List Char) (ho : LineOpener o) (hnl : ∀ c ∈ body, c ≠ '\n') :
    ∃ t, ParsesTo grammar (.ref "SingleLineComment") (o ++ (body ++ ('\n' :: next))) t ('\n' :: next) (body.length + 25) := by
  have h2 := (ParsesTo.star (line_scan body next hnl)).mono (by simp : _ ≤ body.length + 15)
  rcases ho with rfl | rfl
  · have h1 : ParsesTo grammar (.lit ['/', '/'] false) (['/', '/'] ++ (body ++ ('\n' :: next))) (.text ['/', '/']) _ (body.length + 15) :=
      (ParsesTo.lit_append ['/', '/'] _).mono (by omega)
    have hs := ParsesTo.seq (SeqRun.cons h1 (SeqRun.cons h2 SeqRun.nil))
    have hc := ParsesTo.choice (ChoiceRun.head (es := [.seq [.lit ['#'] false, .star (.seq [.notP (.ref "EOL"), .ref "SourceChar"])]]) hs)
    exact ⟨_, (ParsesTo.ref lk_SLC (by rw [rule_SingleLineComment]; exact hc)).mono (by simp; omega)⟩
  · have h1 : ParsesTo grammar (.lit ['#'] false) (['#'] ++ (body ++ ('\n' :: next))) (.text ['#']) _ (body.length + 15) :=
      (ParsesTo.lit_append ['#'] _).mono (by omega)
    have hs := ParsesTo.seq (SeqRun.cons h1 (SeqRun.cons h2 SeqRun.nil))
    have hf := (FailsOn.seq (k := 1) (SeqFail.head (es := [.star (.seq [.notP (.ref "EOL"), .ref "SourceChar"])])
      (FailsOn.lit (g := grammar) (s := ['/', '/']) (ic := false) (inp := ['#'] ++ (body ++ ('\n' :: next))) (by simp [matchLit])))).mono
        (by simp; omega : _ ≤ 2 + (body.length + 15) + 2)
    have hc := ParsesTo.choice (ChoiceRun.tail hf (ChoiceRun.head (es := []) (by simpa using hs)))
    exact ⟨_, (ParsesTo.ref lk_SLC (by rw [rule_SingleLineComment]; exact hc)).mono (by simp; omega)⟩

/-- A line comment with its newline is a gap of `__`. -/
theorem IsGap.line_uu (o body : List Char) (ho : LineOpener o) (hnl : ∀ c ∈ body, c ≠ '\n') :
    IsGap uuBody (o ++ (body ++ ['\n'])) := by
  intro next
  obtain ⟨t, ht⟩ := slc_parses o body next ho hnl
  have hin : (o ++ (body ++ ['\n'])) ++ next = o ++ (body ++ ('\n' :: next)) := by simp
  rw [hin]
  have hhead : ∃ c r, o ++ (body ++ ('\n' :: next)) = c :: r ∧ (c = '/' ∨ c = '#') ∧ matchLit false ['/', '*'] (c :: r) = none := by
    rcases ho with rfl | rfl
    · exact ⟨'/', _, rfl, Or.inl rfl, by simp [matchLit]⟩
    · exact ⟨'#', _, rfl, Or.inr rfl, by simp [matchLit]⟩
  obtain ⟨c, r, hcr, hc, hml⟩ := hhead
  rw [hcr] at ht ⊢
  have hw : FailsOn grammar (.ref "Whitespace") (c :: r) (body.length + 40) :=
    (ws_fails c r (by rcases hc with rfl | rfl <;> decide)).mono (by omega)
  have he : FailsOn grammar (.ref "EOL") (c :: r) (body.length + 40) :=
    (FailsOn.ref lk_EOL (by rw [rule_EOL]; exact FailsOn.lit (by rcases hc with rfl | rfl <;> simp [matchLit]))).mono (by omega)
  have hd : matchLit false ['/', '*', '*', '@'] (c :: r) = none := by
    rcases hc with rfl | rfl
    · cases r with
      | nil => simp [matchLit]
      | cons b r' =>
        have : b ≠ '*' := by intro e; subst e; simp [matchLit] at hml
        simp [matchLit, this]
    · simp [matchLit]
  have hm : FailsOn grammar (.ref "MultiLineComment") (c :: r) (body.length + 25) := by
    have h0 : ParsesTo grammar (.notP (.ref "DocString")) (c :: r) .nil (c :: r) 11 := ParsesTo.notP (docstring_fails_lit _ hd)
    have h2 := FailsOn.seq (SeqFail.tail h0 (SeqFail.head (es := [
      .star (.seq [.notP (.lit ['*', '/'] false), .ref "SourceChar"]), .lit ['*', '/'] false])
      ((FailsOn.lit (g := grammar) hml).mono (by omega : 1 ≤ 11))))
    exact (FailsOn.ref lk_MLC (by rw [rule_MultiLineComment]; exact h2)).mono (by simp)
  have hc' : ParsesTo grammar (.ref "Comment") (c :: r) t ('\n' :: next) (body.length + 40) :=
    (ParsesTo.ref lk_Comment (by rw [rule_Comment]; exact ParsesTo.choice (ChoiceRun.tail hm (ChoiceRun.head (es := []) ht)))).mono (by simp; omega)
  have h1 := (ParsesTo.choice (ChoiceRun.tail hw (ChoiceRun.tail he (ChoiceRun.head (es := []) hc')))).mono
    (by simp; omega : _ ≤ (o ++ (body ++ ['\n'])).length + 60)
  obtain ⟨ts, hi, hl⟩ := IsGap.newline_uu next
  have hol : 1 ≤ o.length := by rcases ho with rfl | rfl <;> simp
  refine ⟨t :: ts, .cons h1 (hi.mono (by simp; omega)), by simp at hl ⊢; omega⟩

/-! ### gap texts -/

/-- Texts made of the items of `_`: white space characters and one-line block comments
`/*` body `*/` (body without `*/`, without newline, not starting with `*@`). -/
inductive UGapText : List Char → Prop
  | nil : UGapText []
  | ws (c : Char) (h : wsC c = true) : UGapText [c]
  | block (body : List Char) (hb : BlockBody body) (hnl : ∀ c ∈ body, c ≠ '\n') : UGapText ('/' :: '*' :: body ++ ['*', '/'])
  | append {a b : List Char} : UGapText a → UGapText b → UGapText (a ++ b)

/-- Texts made of the items of `__`: white space, newlines, block comments (also multi-line),
`//` and `#` comments up to and including their newline. -/
inductive UUGapText : List Char → Prop
  | nil : UUGapText []
  | ws (c : Char) (h : wsC c = true) : UUGapText [c]
  | newline : UUGapText ['\n']
  | block (body : List Char) (hb : BlockBody body) : UUGapText ('/' :: '*' :: body ++ ['*', '/'])
  | line (o body : List Char) (ho : LineOpener o) (hnl : ∀ c ∈ body, c ≠ '\n') : UUGapText (o ++ (body ++ ['\n']))
  | append {a b : List Char} : UUGapText a → UUGapText b → UUGapText (a ++ b)

theorem UGapText.isGap {g} (h : UGapText g) : IsGap uBody g := by
  induction h with
  | nil => exact IsGap.nil _
  | ws c h => exact IsGap.wsChar_u c h
  | block body hb hnl => exact IsGap.block_u body hb hnl
  | append _ _ ih1 ih2 => exact ih1.append ih2

theorem UUGapText.isGap {g} (h : UUGapText g) : IsGap uuBody g := by
  induction h with
  | nil => exact IsGap.nil _
  | ws c h => exact IsGap.wsChar_uu c h
  | newline => exact IsGap.newline_uu
  | block body hb => exact IsGap.block_uu body hb
  | line o body ho hnl => exact IsGap.line_uu o body ho hnl
  | append _ _ ih1 ih2 => exact ih1.append ih2

/-- Every `_` text is a `__` text. -/
theorem UGapText.toUU {g} (h : UGapText g) : UUGapText g := by
  induction h with
  | nil => exact .nil
  | ws c h => exact .ws c h
  | block body hb _ => exact .block body hb
  | append _ _ ih1 ih2 => exact .append ih1 ih2

/-- The first character of a text. -/
def HeadP (P : Char → Prop) (x : List Char) : Prop := ∀ c r, x = c :: r → P c

theorem HeadP.nil {P} : HeadP P [] := fun _ _ h => by cases h
theorem HeadP.cons {P} {c : Char} {r : List Char} (h : P c) : HeadP P (c :: r) := fun c' r' e => by
  injection e with e1 _; rw [← e1]; exact h
theorem HeadP.mono {P Q : Char → Prop} {x} (h : HeadP P x) (hpq : ∀ c, P c → Q c) : HeadP Q x := fun c r e => hpq c (h c r e)
theorem HeadP.append {P} {a b : List Char} (ha : HeadP P a) (hb : HeadP P b) : HeadP P (a ++ b) := by
  cases a with
  | nil => simpa using hb
  | cons c r =>
    intro c' r' e
    simp only [List.cons_append, List.cons.injEq] at e
    exact ha c' r (by rw [e.1])
theorem HeadP.and {P Q : Char → Prop} {x} (h1 : HeadP P x) (h2 : HeadP Q x) : HeadP (fun c => P c ∧ Q c) x :=
  fun c r e => ⟨h1 c r e, h2 c r e⟩

/-- A gap text starts with a character that starts a gap item (not a token character). -/
theorem UUGapText.head {g} (h : UUGapText g) : HeadP (fun c => tokC c = false) g := by
  induction h with
  | nil => exact HeadP.nil
  | ws c h => exact HeadP.cons (by simp [tokC, h])
  | newline => exact HeadP.cons (by decide)
  | block body hb => exact HeadP.cons (by decide)
  | line o body ho hnl => rcases ho with rfl | rfl <;> exact HeadP.cons (by decide)
  | append _ _ ih1 ih2 => exact ih1.append ih2

/-- A `_` text starts with white space or `/`. -/
theorem UGapText.head {g} (h : UGapText g) : HeadP (fun c => wsC c = true ∨ c = '/') g := by
  induction h with
  | nil => exact HeadP.nil
  | ws c h => exact HeadP.cons (Or.inl h)
  | block body hb _ => exact HeadP.cons (Or.inr rfl)
  | append _ _ ih1 ih2 => exact ih1.append ih2

end FV.PegIdl
