/- Lemmas about big-endian fields, int32 conversion and Go slice expressions. -/
import FV.Basic

namespace FV

theorem be32_length (n : Nat) : (be32 n).length = 4 := rfl

theorem rd32_be32 (n : Nat) (r : Bytes) (h : n < 4294967296) : rd32 (be32 n ++ r) = n := by
  simp only [be32, rd32, List.cons_append, List.nil_append, UInt8.toNat_ofNat']
  omega

theorem rd32_lt (b : Bytes) : rd32 b < 4294967296 := by
  unfold rd32
  split
  · rename_i a b c d _
    have := a.toNat_lt; have := b.toNat_lt; have := c.toNat_lt; have := d.toNat_lt
    omega
  · omega

theorem toI32_small (n : Nat) (h : n < 2147483648) : toI32 n = n := by
  unfold toI32
  have : n % 4294967296 = n := Nat.mod_eq_of_lt (by omega)
  rw [this]; simp [h]

theorem toI32_range (n : Nat) : -2147483648 ≤ toI32 n ∧ toI32 n < 2147483648 := by
  unfold toI32
  have := Nat.mod_lt n (show 0 < 4294967296 by omega)
  split <;> omega

theorem toI32_nonneg_eq (n : Nat) (hn : n < 4294967296) (h : 0 ≤ toI32 n) : toI32 n = n := by
  unfold toI32 at *
  have : n % 4294967296 = n := Nat.mod_eq_of_lt hn
  rw [this] at h ⊢
  split at h <;> simp_all <;> omega

theorem slice_ok (b : Bytes) (i j : Int) (h0 : 0 ≤ i) (h1 : i ≤ j) (h2 : j ≤ b.length) :
    slice b i j = .ok ((b.drop i.toNat).take (j - i).toNat) := by
  unfold slice; simp [h0, h1, h2]

theorem slice_not_panic (b : Bytes) (i j : Int) (h0 : 0 ≤ i) (h1 : i ≤ j) (h2 : j ≤ b.length) :
    ∃ s, slice b i j = .ok s ∧ (s.length : Int) = j - i := by
  refine ⟨_, slice_ok b i j h0 h1 h2, ?_⟩
  simp only [List.length_take, List.length_drop]
  omega

/-- Slicing the middle part out of a concatenation. -/
theorem slice_append (a m c : Bytes) :
    slice (a ++ m ++ c) a.length (a.length + m.length) = .ok m := by
  rw [slice_ok _ _ _ (by omega) (by omega) (by simp; omega)]
  congr 1
  have h1 : ((a.length : Int)).toNat = a.length := by simp
  have h2 : ((a.length : Int) + m.length - a.length).toNat = m.length := by omega
  rw [h1, h2, List.append_assoc, List.drop_left, List.take_left]

theorem sliceFrom_ok (b : Bytes) (i : Int) (h0 : 0 ≤ i) (h1 : i ≤ b.length) :
    sliceFrom b i = .ok (b.drop i.toNat) := by
  unfold sliceFrom; simp [h0, h1]

end FV
