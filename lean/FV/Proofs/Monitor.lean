/-
Helper lemmas about the monitor runner (C15): counting attempts and sleeps.
-/
import FV.Model.Monitor
namespace FV.Monitor

theorem attempts_append (a b : List MEv) : attempts (a ++ b) = attempts a + attempts b := by
  simp [attempts, List.filter_append]

theorem sleeps_append (a b : List MEv) : sleeps (a ++ b) = sleeps a ++ sleeps b := by
  induction a with
  | nil => rfl
  | cons x t ih => cases x <;> simp [sleeps, ih]

theorem onReopenFailed_wait_le (m : Base) (n : Nat) (w : Int) :
    (m.onReopenFailed n w).1 = true → (m.onReopenFailed n w).2 ≤ m.maxWait := by
  unfold Base.onReopenFailed
  split
  · simp
  · intro _; simp only; split <;> omega

theorem attemptReopen_attempts (m : Base) (outs : List Bool) (w : Int) (prev : Nat) (h : prev < m.maxReopenAttempts) :
    attempts (attemptReopen m.policy outs w prev) ≤ m.maxReopenAttempts - prev := by
  induction outs generalizing w prev with
  | nil => simp [attemptReopen, attempts]
  | cons o rest ih =>
    cases o
    · rw [attemptReopen, attempts_append]
      by_cases hc : prev + 1 ≥ m.maxReopenAttempts
      · have : (m.policy.onReopenFailed (prev + 1) w).1 = false := by
          simp [Base.policy, Base.onReopenFailed, hc]
        simp only [this]
        simp [attempts]; omega
      · have h1 : (m.policy.onReopenFailed (prev + 1) w).1 = true := by
          simp [Base.policy, Base.onReopenFailed, hc]
        simp only [h1, if_true]
        have := ih (m.policy.onReopenFailed (prev + 1) w).2 (prev + 1) (by omega)
        simp [attempts] at this ⊢; omega
    · simp [attemptReopen, attempts]; omega

theorem attemptReopen_sleeps (m : Base) (outs : List Bool) (w : Int) (prev : Nat) (hw : w ≤ m.maxWait) :
    ∀ x ∈ sleeps (attemptReopen m.policy outs w prev), x ≤ m.maxWait := by
  induction outs generalizing w prev with
  | nil => simp [attemptReopen, sleeps]; exact hw
  | cons o rest ih =>
    cases o
    · rw [attemptReopen, sleeps_append]
      intro x hx
      rw [List.mem_append] at hx
      rcases hx with hx | hx
      · simp [sleeps] at hx; omega
      · split at hx
        · rename_i hc
          exact ih _ _ (onReopenFailed_wait_le m _ _ hc) x hx
        · simp [sleeps] at hx
    · simp [attemptReopen, sleeps]; exact hw
end FV.Monitor
