/-
Helper lemmas about the monitor runner (C15): counting attempts and sleeps.
-/
import FV.Model.Monitor
namespace FV.Monitor

theorem attempts_append (a b : List MEv) : attempts (a ++ b) = attempts a + attempts b := by
  simp [attempts, List.filter_append]

theorem sleeps_append (a b : List MEv) : sleeps (a ++ b) = sleeps a ++ sleeps b := by
  induction a with
  | nil => rfl
  | cons x t ih => cases x <;> simp [sleeps, ih]

theorem onReopenFailed_wait_le (m : Base) (n : Nat) (w : Int) :
    (m.onReopenFailed n w).1 = true → (m.onReopenFailed n w).2 ≤ m.maxWait := by
  unfold Base.onReopenFailed
  split
  · simp
  · intro _; simp only; split <;> omega

theorem attemptReopen_attempts (m : Base) (outs : List Bool) (w : Int) (prev : Nat) (h : prev < m.maxReopenAttempts) :
    attempts (attemptReopen m.policy outs w prev) ≤ m.maxReopenAttempts - prev := by
  induction outs generalizing w prev with
  | nil => simp [attemptReopen, attempts]
  | cons o rest ih =>
    cases o
    · rw [attemptReopen, attempts_append]
      by_cases hc : prev + 1 ≥ m.maxReopenAttempts
      · have : (m.policy.onReopenFailed (prev + 1) w).1 = false := by
          simp [Base.policy, Base.onReopenFailed, hc]
        simp only [this]
        simp [attempts]; omega
      · have h1 : (m.policy.onReopenFailed (prev + 1) w).1 = true := by
          simp [Base.policy, Base.onReopenFailed, hc]
        simp only [h1, if_true]
        have := ih (m.policy.onReopenFailed (prev + 1) w).2 (prev + 1) (by omega)
        simp [attempts] at this ⊢; omega
    · simp [attemptReopen, attempts]; omega

theorem attemptReopen_sleeps (m : Base) (outs : List Bool) (w : Int) (prev : Nat) (hw : w ≤ m.maxWait) :
    ∀ x ∈ sleeps (attemptReopen m.policy outs w prev), x ≤ m.maxWait := by
  induction outs generalizing w prev with
  | nil => simp [attemptReopen, sleeps]; exact hw
  | cons o rest ih =>
    cases o
    · rw [attemptReopen, sleeps_append]
      intro x hx
      rw [List.mem_append] at hx
      rcases hx with hx | hx
      · simp [sleeps] at hx; omega
      · split at hx
        · rename_i hc
          exact ih _ _ (onReopenFailed_wait_le m _ _ hc) x hx
        · simp [sleeps] at hx
    · simp [attemptReopen, sleeps]; exact hw


theorem attemptReopen_until_success (m : Base) (k : Nat) (rest : List Bool) (w : Int) (prev : Nat)
    (h : prev + k < m.maxReopenAttempts) :
    let t := attemptReopen m.policy (outageOuts k rest) w prev
    t.count .reopenSucceeded = 1 ∧ .terminated ∉ t ∧ .pending ∉ t ∧ attempts t = k + 1 := by
  induction k generalizing w prev with
  | zero => simp [outageOuts, attemptReopen, attempts]
  | succ k ih =>
    have hc : ¬ (prev + 1 ≥ m.maxReopenAttempts) := by omega
    have h1 : (m.policy.onReopenFailed (prev + 1) w).1 = true := by
      simp [Base.policy, Base.onReopenFailed, hc]
    have e : outageOuts (k + 1) rest = false :: outageOuts k rest := by
      simp [outageOuts, List.replicate_succ]
    simp only [e, attemptReopen, h1, if_true]
    obtain ⟨a, b, c, d⟩ := ih (m.policy.onReopenFailed (prev + 1) w).2 (prev + 1) (by omega)
    refine ⟨?_, ?_, ?_, ?_⟩
    · rw [List.count_append]; simp [a]
    · simp [b]
    · simp [c]
    · rw [attempts_append, d]; simp [attempts]; omega

theorem handleClose_reopens (m : Base) (k : Nat) (rest : List Bool) (h : k < m.maxReopenAttempts) :
    let t := handleClose m.policy false (outageOuts k rest)
    t.count .reopenSucceeded = 1 ∧ endsRunner t = false ∧ attempts t = k + 1 := by
  have hp : m.policy.onClosedUncleanly = (decide (m.maxReopenAttempts > 0), m.initialWait) := rfl
  have hpos : m.maxReopenAttempts > 0 := by omega
  obtain ⟨a, b, c, d⟩ := attemptReopen_until_success m k rest m.initialWait 0 (by omega)
  simp only [handleClose, Bool.false_eq_true, if_false, hp, hpos, decide_true, if_true]
  refine ⟨?_, ?_, ?_⟩
  · simp [List.count_cons, a]
  · simp [endsRunner, b, c]
  · simp only [attempts, List.filter_cons] at d ⊢; simpa using d

/-- the budget is per outage: any sequence of outages, each with fewer failing attempts than
MaxReopenAttempts, ends reopened every time and the runner never returns -/
theorem runner_budget_per_outage (m : Base) (ks : List Nat) (h : ∀ k ∈ ks, k < m.maxReopenAttempts) :
    let t := runner m.policy (ks.map fun k => (false, outageOuts k []))
    t.count .reopenSucceeded = ks.length ∧ .terminated ∉ t := by
  induction ks with
  | nil => simp [runner]
  | cons k ks ih =>
    obtain ⟨a, b, _⟩ := handleClose_reopens m k [] (h k (by simp))
    obtain ⟨c, d⟩ := ih (fun x hx => h x (by simp [hx]))
    simp only [List.map_cons, runner, b]
    refine ⟨?_, ?_⟩
    · rw [List.count_append, a]; simp at c ⊢; omega
    · have : MEv.terminated ∉ handleClose m.policy false (outageOuts k []) := by
        intro hm; simp [endsRunner, hm] at b
      simp at d ⊢; exact ⟨this, d⟩

/-- in the product of monitor instances, what transport `i`'s runner does is a function of monitor `i` alone -/
theorem multi_independent (ms : List Inst) (as : List MAct) (i : Nat) (m : Inst) (hm : ms[i]? = some m) :
    (multiRun ms as).filterMap (fun e => if e.1 = i then some e.2 else none) = singleRun m as i := by
  induction as generalizing ms m with
  | nil => simp [multiRun, singleRun]
  | cons a as ih =>
    cases a with
    | outage t k =>
      simp only [multiRun, multiStep, singleRun]
      cases ht : ms[t]? with
      | none =>
        have hti : t ≠ i := by intro h; subst h; simp [hm] at ht
        simp only [hti, if_false]
        exact ih ms m hm
      | some mt =>
        simp only [List.filterMap_cons]
        by_cases hti : t = i
        · subst hti
          rw [hm] at ht; cases ht
          simp only [if_true]
          congr 1
          apply ih
          have := (List.getElem?_eq_some_iff.mp hm).1
          simp [List.getElem?_set, this]
        · simp only [hti, if_false]
          apply ih
          rw [List.getElem?_set]; simp [hti, hm]
    | setPolicy t b =>
      simp only [multiRun, multiStep, singleRun]
      cases ht : ms[t]? with
      | none =>
        have hti : t ≠ i := by intro h; subst h; simp [hm] at ht
        simp only [hti, if_false]
        exact ih ms m hm
      | some mt =>
        by_cases hti : t = i
        · subst hti
          rw [hm] at ht; cases ht
          simp only [if_true]
          apply ih
          have := (List.getElem?_eq_some_iff.mp hm).1
          simp [List.getElem?_set, this]
        · simp only [hti, if_false]
          apply ih
          rw [List.getElem?_set]; simp [hti, hm]
end FV.Monitor
