/-
C11: `isValidType` is the declarative `Resolves` (FV/Spec/Compile.lean).
-/
import FV.Spec.Compile
import FV.Proofs.Compile
namespace FV.Compile

theorem declares_iff (f : File) (n : Name) : f.declares n = true ↔ f.Declares n := by
  unfold File.declares File.Declares
  simp only [Bool.or_eq_true, List.any_eq_true, decide_eq_true_eq, or_assoc]

theorem contains_dot_false {n : Name} (h : '.' ∉ n) : n.contains '.' = false := by
  cases hc : n.contains '.' with
  | false => rfl
  | true => exact absurd (List.contains_iff_mem.mp hc) h

theorem includeName_nodot {n : Name} (h : '.' ∉ n) : includeName n = [] ∧ paramName n = n := by
  unfold includeName paramName
  rw [contains_dot_false h]
  exact ⟨rfl, rfl⟩

theorem takeWhile_nodot (inc rest : Name) (h : '.' ∉ inc) :
    (inc ++ '.' :: rest).takeWhile (· ≠ '.') = inc ∧ (inc ++ '.' :: rest).dropWhile (· ≠ '.') = '.' :: rest := by
  induction inc with
  | nil => simp
  | cons c cs ih =>
    have hc : c ≠ '.' := fun e => h (e ▸ List.mem_cons_self)
    have hcs : '.' ∉ cs := fun m => h (List.mem_cons_of_mem _ m)
    obtain ⟨h1, h2⟩ := ih hcs
    simp only [List.cons_append, List.takeWhile_cons, List.dropWhile_cons, decide_eq_true hc, if_true, h1, h2]
    trivial

theorem includeName_qualified (inc param : Name) (h : '.' ∉ inc) :
    includeName (inc ++ '.' :: param) = inc ∧ paramName (inc ++ '.' :: param) = param := by
  unfold includeName paramName
  have hc : (inc ++ '.' :: param).contains '.' = true := List.contains_iff_mem.mpr (by simp)
  obtain ⟨h1, h2⟩ := takeWhile_nodot inc param h
  rw [hc, h1, h2]
  exact ⟨rfl, rfl⟩

theorem split_at_dot {n : Name} (h : '.' ∈ n) : ∃ inc param, n = inc ++ '.' :: param ∧ '.' ∉ inc := by
  induction n with
  | nil => cases h
  | cons c cs ih =>
    by_cases hc : c = '.'
    · exact ⟨[], cs, by simp [hc], by simp⟩
    · have hm : '.' ∈ cs := by
        cases h with
        | head => exact absurd rfl hc
        | tail _ hm => exact hm
      obtain ⟨inc, param, he, hn⟩ := ih hm
      refine ⟨c :: inc, param, by simp [he], ?_⟩
      intro hmem
      cases hmem with
      | head => exact hc rfl
      | tail _ hm' => exact hn hm'

theorem nameResolves_iff (ctx : Ctx) (n : Name) :
    (if includeName n ≠ [] then
      match ctx.incs.lookup (includeName n) with
      | none => false
      | some f => f.declares (paramName n)
    else ctx.self.declares (paramName n)) = true ↔ NameResolves ctx n := by
  unfold NameResolves
  by_cases hd : '.' ∈ n
  · obtain ⟨inc, param, rfl, hni⟩ := split_at_dot hd
    obtain ⟨h1, h2⟩ := includeName_qualified inc param hni
    rw [h1, h2]
    by_cases hi : inc = []
    · subst hi
      simp only [ne_eq, not_true_eq_false, if_false, declares_iff]
      constructor
      · intro h; exact Or.inr (Or.inr ⟨param, by simp, h⟩)
      · rintro (⟨hnd, _⟩ | ⟨inc', p', f, he, hn', hne, _, _⟩ | ⟨p', he, h⟩)
        · exact absurd (by simp) hnd
        · exfalso
          cases inc' with
          | nil => exact hne rfl
          | cons c cs =>
            simp at he
            exact hn' (he.1 ▸ List.mem_cons_self)
        · simp at he; subst he; exact h
    · simp only [ne_eq, hi, not_false_eq_true, if_true]
      constructor
      · intro h
        cases hl : ctx.incs.lookup inc with
        | none => rw [hl] at h; cases h
        | some f =>
          rw [hl] at h
          exact Or.inr (Or.inl ⟨inc, param, f, rfl, hni, hi, hl, (declares_iff f param).mp h⟩)
      · rintro (⟨hnd, _⟩ | ⟨inc', p', f, he, hn', hne, hl, hdec⟩ | ⟨p', he, h⟩)
        · exact absurd (by simp) hnd
        · have e1 := includeName_qualified inc' p' hn'
          rw [← he, h1, h2] at e1
          obtain ⟨e1, e2⟩ := e1
          subst e1; subst e2
          rw [hl]; exact (declares_iff f _).mpr hdec
        · exfalso
          cases inc with
          | nil => exact hi rfl
          | cons c cs =>
            simp at he
            exact hni (he.1 ▸ List.mem_cons_self)
  · obtain ⟨h1, h2⟩ := includeName_nodot hd
    rw [h1, h2]
    simp only [ne_eq, not_true_eq_false, if_false, declares_iff]
    constructor
    · intro h; exact Or.inl ⟨hd, h⟩
    · rintro (⟨_, h⟩ | ⟨inc', p', f, he, _⟩ | ⟨p', he, _⟩)
      · exact h
      · exact absurd (he ▸ by simp) hd
      · exact absurd (he ▸ by simp) hd

theorem isValidType_iff (ctx : Ctx) (t : Ty) : isValidType ctx t = true ↔ Resolves ctx t := by
  induction t with
  | list e ih => unfold isValidType Resolves; exact ih
  | set e ih => unfold isValidType Resolves; exact ih
  | map k v ihk ihv => unfold isValidType Resolves; rw [Bool.and_eq_true, ihk, ihv]
  | named n =>
    unfold isValidType Resolves
    by_cases hb : n ∈ baseTypes
    · simp [hb]
    · have hb' : baseTypes.contains n = false := by
        cases hc : baseTypes.contains n with
        | false => rfl
        | true => exact absurd (List.contains_iff_mem.mp hc) hb
      by_cases hcn : n ∈ containerNames
      · simp [hb, hcn]
      · have hc' : containerNames.contains n = false := by
          cases hc : containerNames.contains n with
          | false => rfl
          | true => exact absurd (List.contains_iff_mem.mp hc) hcn
        simp only [hb', hc', Bool.false_eq_true, if_false, hb, hcn, not_false_eq_true, true_and, false_or]
        exact nameResolves_iff ctx n


end FV.Compile
