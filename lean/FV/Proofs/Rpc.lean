/-
Helper lemmas about `FV.Rpc.callQ` (the call path with queue wait and FContext timeout), used by Props/C03.
-/
import FV.Model.Rpc
import FV.Proofs.Thrift

namespace FV.Rpc
open FV FV.Thrift

theorem callQ_calls (d : Defs) (n : Nat) (key : String) (oneway : Bool) (args : Val)
    (h : Val → HOutcome) (wait timeout : Nat) :
    (callQ d n key oneway args h wait timeout).calls = (call d n key oneway args h).calls ∧
    (callQ d n key oneway args h wait timeout).args = (call d n key oneway args h).args := by
  unfold callQ
  split <;> simp

theorem call_le (d : Defs) (n : Nat) (key : String) (oneway : Bool) (args : Val)
    (h : Val → HOutcome) : (call d n key oneway args h).calls ≤ 1 := by
  unfold call
  cases he : encV d n (Ty.struct (key ++ "_args")) args with
  | err e => simp only [he]; decide
  | panic p => simp only [he]; decide
  | ok es =>
    simp only [he]
    cases hd : decV d n (Ty.struct (key ++ "_args")) es with
    | err e => simp only [hd]; decide
    | panic p => simp only [hd]; decide
    | ok p =>
      obtain ⟨seen, r⟩ := p
      simp only [hd]
      cases oneway with
      | true => simp
      | false =>
        simp only [Bool.false_eq_true, if_false]
        cases h seen with
        | value v => cases v <;> simp
        | declared i e => simp
        | appException ty => simp
        | otherError => simp

theorem callQ_res_in (d : Defs) (n : Nat) (key : String) (args : Val)
    (h : Val → HOutcome) (wait timeout : Nat) (hw : wait < timeout) :
    callQ d n key false args h wait timeout = call d n key false args h := by
  unfold callQ
  simp [hw]

theorem callQ_res_out (d : Defs) (n : Nat) (key : String) (args : Val)
    (h : Val → HOutcome) (wait timeout : Nat) (hw : timeout ≤ wait) (hs : sent d n key args = true) :
    (callQ d n key false args h wait timeout).result = .timedOut := by
  unfold callQ
  have : ¬ wait < timeout := by omega
  simp [this, hs]

theorem callQ_ow (d : Defs) (n : Nat) (key : String) (args : Val)
    (h : Val → HOutcome) (wait timeout : Nat) :
    callQ d n key true args h wait timeout = call d n key true args h := by
  unfold callQ
  simp
end FV.Rpc
