/-
The cut-anywhere lemma for the framed read path (C15).
-/
import FV.Model.Framed
import FV.Proofs.Bytes
namespace FV.Framed
open FV

theorem encode_cons_length (f : Bytes) (t : List Bytes) : (encode (f :: t)).length = 4 + f.length + (encode t).length := by
  simp [encode, be32_length]; omega

theorem deframe_cut (fs : List Bytes) (hfs : ∀ f ∈ fs, f.length ≤ maxLength) (k : Nat) (hk : k ≤ (encode fs).length) :
    (deframe ((encode fs).take k)).1 = fs.take (wholeBefore fs k) ∧ (deframe ((encode fs).take k)).2 ≠ .badSize := by
  induction fs generalizing k with
  | nil => simp [encode] at hk ⊢; rw [deframe]; simp [wholeBefore]
  | cons f t ih =>
    have hf := hfs f (by simp)
    have hfl : f.length < 4294967296 := by unfold maxLength at hf; omega
    rw [deframe]
    by_cases h0 : k = 0
    · subst h0; simp [wholeBefore]
    · have hlen : ((encode (f :: t)).take k).length = k := by simp; omega
      simp only [hlen, h0, if_false]
      by_cases h4 : k < 4
      · simp [h4, wholeBefore]; omega
      · simp only [h4, if_false]
        have hrd : rd32 ((encode (f :: t)).take k) = f.length := by
          have : (encode (f :: t)).take k = be32 f.length ++ ((f ++ encode t).take (k - 4)) := by
            simp only [encode, List.append_assoc]
            rw [List.take_append]; simp [be32_length]
            have : List.take k (be32 f.length) = be32 f.length := by
              apply List.take_of_length_le; simp [be32_length]; omega
            rw [this]
          rw [this, rd32_be32 _ _ hfl]
        rw [hrd]
        have hnb : ¬ f.length > maxLength := by omega
        simp only [hnb, if_false]
        have hdrop : ((encode (f :: t)).take k).drop 4 = (f ++ encode t).take (k - 4) := by
          simp only [encode, List.append_assoc]
          rw [List.drop_take]
          have : List.drop 4 (be32 f.length ++ (f ++ encode t)) = f ++ encode t := by
            rw [List.drop_append]; simp [be32_length]
          rw [this]
        rw [hdrop]
        have hl2 : ((f ++ encode t).take (k - 4)).length = k - 4 := by
          rw [encode_cons_length] at hk; simp; omega
        by_cases hb : k - 4 < f.length
        · simp only [hl2, hb, if_true]
          simp [wholeBefore]; omega
        · simp only [hl2, hb, if_false]
          have hw : wholeBefore (f :: t) k = 1 + wholeBefore t (k - (4 + f.length)) := by
            simp [wholeBefore]; omega
          rw [hw]
          have e1 : ((f ++ encode t).take (k - 4)).take f.length = f := by
            rw [List.take_take]; 
            have : min f.length (k - 4) = f.length := by omega
            rw [this, List.take_append_of_le_length (by omega)]; simp
          have e2 : ((f ++ encode t).take (k - 4)).drop f.length = (encode t).take (k - (4 + f.length)) := by
            rw [List.drop_take, List.drop_append]; simp
            congr 1; omega
          simp only [e1, e2]
          have := ih (fun g hg => hfs g (by simp [hg])) (k - (4 + f.length)) (by rw [encode_cons_length] at hk; omega)
          rw [this.1]
          exact ⟨by rw [Nat.add_comm 1, List.take_succ_cons], this.2⟩

theorem wholeBefore_le (fs : List Bytes) (k : Nat) : wholeBefore fs k ≤ fs.length := by
  induction fs generalizing k with
  | nil => simp [wholeBefore]
  | cons f t ih => simp only [wholeBefore]; split <;> simp; have := ih (k - (4 + f.length)); omega

theorem deliver_all_ok (l : List Bytes) (h : ∀ f ∈ l, (registryExecuteEmpty f).isOk = true) : deliver l = (l.length, true) := by
  induction l with
  | nil => rfl
  | cons f t ih =>
    have := ih (fun g hg => h g (by simp [hg]))
    simp [deliver, h f (by simp), this]
end FV.Framed
