/- Lemmas about the model of the emitted Read/Write code (FV.Model.Thrift). -/
import FV.Model.Thrift

namespace FV.Thrift

-- Boolean equality of values is equality.
mutual
theorem Val.beq_iff : ∀ (v w : Val), Val.beq v w = true ↔ v = w
  | .bool a, w => by cases w <;> simp [Val.beq]
  | .int a, w => by cases w <;> simp [Val.beq]
  | .dbl a, w => by cases w <;> simp [Val.beq]
  | .bytes a, w => by cases w <;> simp [Val.beq]
  | .list a, w => by
    cases w <;> simp only [Val.beq, Val.list.injEq, reduceCtorEq, Bool.false_eq_true]
    exact Val.beqList_iff a _
  | .map a, w => by
    cases w <;> simp only [Val.beq, Val.map.injEq, reduceCtorEq, Bool.false_eq_true]
    exact Val.beqPairs_iff a _
  | .struct a, w => by
    cases w <;> simp only [Val.beq, Val.struct.injEq, reduceCtorEq, Bool.false_eq_true]
    exact Val.beqFields_iff a _
theorem Val.beqList_iff : ∀ (a b : List Val), Val.beqList a b = true ↔ a = b
  | [], b => by cases b <;> simp [Val.beqList]
  | x :: xs, b => by
    cases b with
    | nil => simp [Val.beqList]
    | cons y ys => simp only [Val.beqList, Bool.and_eq_true, List.cons.injEq, Val.beq_iff x y, Val.beqList_iff xs ys]
theorem Val.beqPairs_iff : ∀ (a b : List (Val × Val)), Val.beqPairs a b = true ↔ a = b
  | [], b => by cases b <;> simp [Val.beqPairs]
  | (k1, v1) :: xs, b => by
    cases b with
    | nil => simp [Val.beqPairs]
    | cons y ys =>
      obtain ⟨k2, v2⟩ := y
      simp only [Val.beqPairs, Bool.and_eq_true, List.cons.injEq, Prod.mk.injEq, Val.beq_iff k1 k2, Val.beq_iff v1 v2, Val.beqPairs_iff xs ys, and_assoc]
theorem Val.beqFields_iff : ∀ (a b : List (Int × Val)), Val.beqFields a b = true ↔ a = b
  | [], b => by cases b <;> simp [Val.beqFields]
  | (i1, v1) :: xs, b => by
    cases b with
    | nil => simp [Val.beqFields]
    | cons y ys =>
      obtain ⟨i2, v2⟩ := y
      simp only [Val.beqFields, Bool.and_eq_true, List.cons.injEq, Prod.mk.injEq, Val.beq_iff v1 v2, Val.beqFields_iff xs ys, and_assoc, beq_iff_eq]
end

instance : DecidableEq Val := fun a b =>
  if h : Val.beq a b = true then isTrue ((Val.beq_iff a b).mp h) else isFalse (fun e => h ((Val.beq_iff a b).mpr e))


/-- Pointwise relation between two lists. -/
inductive All2 {α β : Type} (R : α → β → Prop) : List α → List β → Prop where
  | nil : All2 R [] []
  | cons {a b as bs} : R a b → All2 R as bs → All2 R (a :: as) (b :: bs)

/-- `concatRes` of a mapped list succeeds iff every element does; the result is the concatenation. -/
theorem concatRes_map_ok {α : Type} (g : α → Res (List Event)) :
    ∀ (l : List α) (es : List Event), concatRes (l.map g) = .ok es →
      ∃ cs : List (List Event), All2 (fun x c => g x = .ok c) l cs ∧ es = cs.flatten := by
  intro l
  induction l with
  | nil => intro es h; simp [concatRes] at h; exact ⟨[], .nil, by simp [h]⟩
  | cons x t ih =>
    intro es h
    simp only [List.map_cons, concatRes] at h
    split at h
    · rename_i c hc
      split at h
      · rename_i es' hes'
        cases h
        obtain ⟨cs, hf, rfl⟩ := ih es' hes'
        exact ⟨c :: cs, .cons hc hf, by simp⟩
      · cases h
      · cases h
    · cases h
    · cases h

/-- Well-typed values in canonical form, within depth `n`. -/
def WT (d : Defs) : Nat → Ty → Val → Prop
  | 0, _, _ => False
  | n + 1, t, v =>
    match resolve d t, v with
    | .bool, .bool _ => True
    | .byte, .int _ => True
    | .i16, .int _ => True
    | .i32, .int _ => True
    | .i64, .int _ => True
    | .enum _, .int _ => True
    | .double, .dbl _ => True
    | .string, .bytes _ => True
    | .binary, .bytes _ => True
    | .list a, .list vs => ∀ x ∈ vs, WT d n a x
    | .set a, .list vs => ∀ x ∈ vs, WT d n a x
    | .map kt vt, .map kvs => ∀ kv ∈ kvs, WT d n kt kv.1 ∧ WT d n vt kv.2
    | .struct nm, .struct fs =>
      ∃ sd, lookupStruct d nm = some sd ∧ (sd.fields.map (·.id)).Nodup ∧
        fs = normFields sd fs ∧
        (sd.kind = .union → (sd.fields.filter fun f => (lookupVal fs f.id).isSome).length = 1) ∧
        (∀ f ∈ sd.fields, f.req ≠ .optional → sd.kind ≠ .union → (lookupVal fs f.id).isSome) ∧
        (∀ f ∈ sd.fields, ∀ x, lookupVal fs f.id = some x → WT d n f.ty x) ∧
        -- a listed field is SET: a non-pointer optional field differs from its default
        (∀ f ∈ sd.fields, ∀ x, lookupVal fs f.id = some x → isSetVal sd f x = true) ∧
        -- the declared defaults are themselves well-typed values of the field types
        (∀ f ∈ sd.fields, ∀ dv, f.dflt = some dv → WT d n f.ty dv)
    | _, _ => False

theorem concatRes_pair (a b : Res (List Event)) (c : List Event) (h : concatRes [a, b] = .ok c) :
    ∃ ca cb, a = .ok ca ∧ b = .ok cb ∧ c = ca ++ cb := by
  cases a <;> cases b <;> simp [concatRes] at h
  rename_i ca cb
  exact ⟨ca, cb, rfl, rfl, h.symm⟩


/-- Reading `k` encoded elements. -/
theorem decN_enc (P : Val → Prop) (enc : Val → Res (List Event)) (dec : List Event → Res (Val × List Event))
    (ih : ∀ x c rest, P x → enc x = .ok c → dec (c ++ rest) = .ok (x, rest)) :
    ∀ (vs : List Val) (cs : List (List Event)) (rest : List Event) (acc : List Val),
      All2 (fun x c => enc x = .ok c) vs cs → (∀ x ∈ vs, P x) →
      decN dec vs.length (cs.flatten ++ rest) acc = .ok (acc.reverse ++ vs, rest) := by
  intro vs cs rest acc hf
  induction hf generalizing acc with
  | nil => intro _; simp [decN]
  | @cons x c xs cs' hx _ ih2 =>
    intro hwt
    simp only [List.length_cons, List.flatten_cons, List.append_assoc]
    rw [decN, ih x c _ (hwt x (by simp)) hx]
    simp only
    rw [ih2 (x :: acc) (fun y hy => hwt y (by simp [hy]))]
    simp

theorem decKV_enc (Pk Pv : Val → Prop) (enck encv : Val → Res (List Event))
    (deck decv : List Event → Res (Val × List Event))
    (ihk : ∀ x c rest, Pk x → enck x = .ok c → deck (c ++ rest) = .ok (x, rest))
    (ihv : ∀ x c rest, Pv x → encv x = .ok c → decv (c ++ rest) = .ok (x, rest)) :
    ∀ (kvs : List (Val × Val)) (cs : List (List Event)) (rest : List Event) (acc : List (Val × Val)),
      All2 (fun (kv : Val × Val) c => concatRes [enck kv.1, encv kv.2] = .ok c) kvs cs →
      (∀ kv ∈ kvs, Pk kv.1 ∧ Pv kv.2) →
      decKV deck decv kvs.length (cs.flatten ++ rest) acc = .ok (acc.reverse ++ kvs, rest) := by
  intro kvs cs rest acc hf
  induction hf generalizing acc with
  | nil => intro _; simp [decKV]
  | @cons kv c xs cs' hx _ ih2 =>
    intro hwt
    obtain ⟨k, v⟩ := kv
    have hw := hwt (k, v) (by simp)
    obtain ⟨ck, cv, hck, hcv, rfl⟩ := concatRes_pair _ _ _ hx
    simp only [List.length_cons, List.flatten_cons, List.append_assoc]
    rw [decKV, ihk k ck _ hw.1 hck]
    simp only
    rw [ihv v cv _ hw.2 hcv]
    simp only
    rw [ih2 ((k, v) :: acc) (fun y hy => hwt y (by simp [hy]))]
    simp

/-! ### struct fields -/

theorem setField_fresh (acc : List (Int × Val)) (id : Int) (v : Val) (h : id ∉ acc.map (·.1)) :
    setField acc id v = acc ++ [(id, v)] := by
  induction acc with
  | nil => rfl
  | cons a t ih =>
    obtain ⟨i, w⟩ := a
    simp only [List.map_cons, List.mem_cons, not_or] at h
    have hne : ¬ (i = id) := fun e => h.1 e.symm
    simp only [setField, hne, if_false, List.cons_append]
    rw [ih h.2]

/-- With distinct ids, looking a declared field up by its id finds that field. -/
theorem find_field (fields : List Field) (hnd : (fields.map (·.id)).Nodup) (f : Field) (hf : f ∈ fields) :
    fields.find? (·.id = f.id) = some f := by
  induction fields with
  | nil => cases hf
  | cons g t ih =>
    simp only [List.map_cons, List.nodup_cons] at hnd
    rcases List.mem_cons.mp hf with rfl | hm
    · simp
    · have hne : g.id ≠ f.id := by
        intro e
        exact hnd.1 (by rw [e]; exact List.mem_map_of_mem (f := (·.id)) hm)
      simp only [List.find?_cons, hne, decide_false]
      exact ih hnd.2 hm

/-- The entries (in declaration order) of the fields of `fl` that are set in `fs`. -/
def entries (fs : List (Int × Val)) (fl : List Field) : List (Int × Val) :=
  fl.filterMap fun f => (lookupVal fs f.id).map fun v => (f.id, v)

theorem entries_ids (fs : List (Int × Val)) (fl : List Field) :
    ∀ i ∈ (entries fs fl).map (·.1), i ∈ fl.map (·.id) := by
  intro i hi
  simp only [entries, List.mem_map, List.mem_filterMap] at hi ⊢
  obtain ⟨⟨i', v⟩, ⟨f, hf, hv⟩, rfl⟩ := hi
  cases hl : lookupVal fs f.id with
  | none => simp [hl] at hv
  | some x => simp [hl] at hv; exact ⟨f, hf, hv.1⟩

/-- The emitted field loop reads back the chunks the emitted field writers produced. -/
theorem decFields_enc (d : Defs) (enc : Ty → Val → Res (List Event))
    (dec : Ty → List Event → Res (Val × List Event)) (skp : Nat → List Event → Res (List Event))
    (sd sdr : StructDef) (fs : List (Int × Val)) (hnd : (sdr.fields.map (·.id)).Nodup)
    (ih : ∀ f ∈ sd.fields, ∀ x c rest, lookupVal fs f.id = some x → enc f.ty x = .ok c →
            dec f.ty (c ++ rest) = .ok (x, rest))
    (habs : ∀ f ∈ sd.fields, lookupVal fs f.id = none → f.req = .optional ∨ sd.kind = .union)
    (hset : ∀ f ∈ sd.fields, ∀ x, lookupVal fs f.id = some x → isSetVal sd f x = true) :
    ∀ (fl : List Field) (cs : List (List Event)) (rest : List Event) (acc : List (Int × Val)) (fuel : Nat),
      All2 (fun f c => fieldEvents d enc sd fs f = .ok c) fl cs →
      (∀ f ∈ fl, f ∈ sd.fields) → (∀ f ∈ fl, f ∈ sdr.fields) → (fl.map (·.id)).Nodup →
      (∀ i ∈ acc.map (·.1), i ∉ fl.map (·.id)) →
      (entries fs fl).length + 1 ≤ fuel →
      decFields dec skp sdr fuel (cs.flatten ++ .fs :: rest) acc = .ok (acc ++ entries fs fl, rest) := by
  intro fl cs rest acc fuel hf
  induction hf generalizing acc fuel with
  | nil =>
    intro _ _ _ _ hfuel
    cases fuel with
    | zero => simp [entries] at hfuel
    | succ k => simp [decFields, entries]
  | @cons f c fl' cs' hx _ ih2 =>
    intro hsub hsubr hnd2 hdis hfuel
    have hfm : f ∈ sd.fields := hsub f (by simp)
    have hfr : f ∈ sdr.fields := hsubr f (by simp)
    simp only [List.map_cons, List.nodup_cons] at hnd2
    cases hl : lookupVal fs f.id with
    | none =>
      -- absent: nothing was written for it
      have hc : c = [] := by
        simp only [fieldEvents, hl] at hx
        rw [if_pos (habs f hfm hl)] at hx
        cases hx; rfl
      subst hc
      have he : entries fs (f :: fl') = entries fs fl' := by simp [entries, hl]
      rw [he] at hfuel ⊢
      simp only [List.flatten_cons, List.nil_append]
      exact ih2 acc fuel (fun g hg => hsub g (by simp [hg])) (fun g hg => hsubr g (by simp [hg])) hnd2.2
        (fun i hi hmem => hdis i hi (by simp [hmem])) hfuel
    | some x =>
      have he : entries fs (f :: fl') = (f.id, x) :: entries fs fl' := by simp [entries, hl]
      rw [he] at hfuel ⊢
      simp only [fieldEvents, hl] at hx
      rw [if_pos (hset f hfm x hl)] at hx
      split at hx
      · rename_i body hbody
        cases hx
        cases fuel with
        | zero => simp at hfuel
        | succ k =>
          simp only [List.flatten_cons, List.cons_append, List.append_assoc, List.nil_append, List.singleton_append]
          rw [decFields, find_field sdr.fields hnd f hfr]
          simp only
          rw [ih f hfm x body _ hl hbody]
          simp only
          have hfresh : f.id ∉ acc.map (·.1) := fun hm => hdis f.id hm (by simp)
          rw [setField_fresh acc f.id x hfresh]
          rw [ih2 (acc ++ [(f.id, x)]) k (fun g hg => hsub g (by simp [hg])) (fun g hg => hsubr g (by simp [hg])) hnd2.2 ?_ (by simp at hfuel; omega)]
          · simp
          · intro i hi hmem
            simp only [List.map_append, List.map_cons, List.map_nil, List.mem_append, List.mem_singleton] at hi
            rcases hi with hi | rfl
            · exact hdis i hi (by simp [hmem])
            · exact hnd2.1 hmem
      · cases hx
      · cases hx

theorem lookup_entries (fs : List (Int × Val)) :
    ∀ (fl : List Field), (fl.map (·.id)).Nodup → ∀ f ∈ fl,
      lookupVal (entries fs fl) f.id = lookupVal fs f.id := by
  intro fl
  induction fl with
  | nil => intro _ f hf; cases hf
  | cons g t ih =>
    intro hnd f hf
    simp only [List.map_cons, List.nodup_cons] at hnd
    rcases List.mem_cons.mp hf with rfl | hm
    · cases hl : lookupVal fs f.id with
      | some x =>
        have : entries fs (f :: t) = (f.id, x) :: entries fs t := by simp [entries, hl]
        rw [this]; simp [lookupVal]
      | none =>
        have : entries fs (f :: t) = entries fs t := by simp [entries, hl]
        rw [this]
        -- f.id does not occur among the ids of t's entries
        cases hl2 : lookupVal (entries fs t) f.id with
        | none => rfl
        | some y =>
          exfalso
          simp only [lookupVal, Option.map_eq_some_iff] at hl2
          obtain ⟨⟨i, w⟩, hfind, _⟩ := hl2
          have hmem := List.mem_of_find?_eq_some hfind
          have hi := List.find?_some hfind
          simp only [decide_eq_true_eq] at hi
          have := entries_ids fs t i (List.mem_map_of_mem (f := (·.1)) hmem)
          exact hnd.1 (by rw [← hi]; exact this)
    · have hne : g.id ≠ f.id := by
        intro e
        exact hnd.1 (by rw [e]; exact List.mem_map_of_mem (f := (·.id)) hm)
      cases hl : lookupVal fs g.id with
      | none =>
        have : entries fs (g :: t) = entries fs t := by simp [entries, hl]
        rw [this]; exact ih hnd.2 f hm
      | some x =>
        have : entries fs (g :: t) = (g.id, x) :: entries fs t := by simp [entries, hl]
        rw [this]
        have : lookupVal ((g.id, x) :: entries fs t) f.id = lookupVal (entries fs t) f.id := by
          simp [lookupVal, hne]
        rw [this]; exact ih hnd.2 f hm

theorem filterMap_congr' {α β : Type} (f g : α → Option β) :
    ∀ (l : List α), (∀ x ∈ l, f x = g x) → l.filterMap f = l.filterMap g := by
  intro l
  induction l with
  | nil => intro _; rfl
  | cons a t ih =>
    intro h
    rw [List.filterMap_cons, List.filterMap_cons, h a (by simp), ih (fun x hx => h x (by simp [hx]))]

/-- On a value whose listed fields are set and whose unlisted fields are optional, the reader's
normalisation is the identity on what is listed. -/
theorem normFields_eq_entries (sd : StructDef) (fs : List (Int × Val))
    (habs : ∀ f ∈ sd.fields, lookupVal fs f.id = none → f.req = .optional ∨ sd.kind = .union)
    (hset : ∀ f ∈ sd.fields, ∀ x, lookupVal fs f.id = some x → isSetVal sd f x = true) :
    normFields sd fs = entries fs sd.fields := by
  unfold normFields entries
  apply filterMap_congr'
  intro f hf
  unfold readState
  cases hl : lookupVal fs f.id with
  | none => simp only [if_pos (habs f hf hl), Option.map_none]
  | some x => simp only [if_pos (hset f hf x hl), Option.map_some]

/-- Under the same conditions `IsSet<F>()` is "listed". -/
theorem isSetIn_eq_isSome (sd : StructDef) (fs : List (Int × Val))
    (hset : ∀ f ∈ sd.fields, ∀ x, lookupVal fs f.id = some x → isSetVal sd f x = true) :
    (sd.fields.filter (isSetIn sd fs)) = (sd.fields.filter fun f => (lookupVal fs f.id).isSome) := by
  apply List.filter_congr
  intro f hf
  unfold isSetIn
  cases hl : lookupVal fs f.id with
  | none => rfl
  | some x => simp only [hset f hf x hl, Option.isSome_some]

/-- What the `habs` side conditions need: a well-formed value lists its non-optional fields. -/
theorem optional_of_absent (sd : StructDef) (fs : List (Int × Val))
    (hreq : ∀ f ∈ sd.fields, f.req ≠ .optional → sd.kind ≠ .union → (lookupVal fs f.id).isSome) :
    ∀ f ∈ sd.fields, lookupVal fs f.id = none → f.req = .optional ∨ sd.kind = .union := by
  intro f hf hl
  cases hr : f.req with
  | optional => exact Or.inl rfl
  | required | default =>
    right
    cases hk : sd.kind with
    | union => rfl
    | struct | exception =>
      have := hreq f hf (by rw [hr]; intro h; cases h) (by rw [hk]; intro h; cases h)
      rw [hl] at this; cases this


/-- Looking a declared field up in a per-field `filterMap` (ids distinct) finds that field's entry. -/
theorem lookup_filterMap_fields (h : Field → Option Val) :
    ∀ (fl : List Field), (fl.map (·.id)).Nodup → ∀ f ∈ fl,
      lookupVal (fl.filterMap fun g => (h g).map fun v => (g.id, v)) f.id = h f := by
  intro fl
  induction fl with
  | nil => intro _ f hf; cases hf
  | cons g t ih =>
    intro hnd f hf
    simp only [List.map_cons, List.nodup_cons] at hnd
    have hids : ∀ i ∈ (t.filterMap fun g => (h g).map fun v => (g.id, v)).map (·.1), i ∈ t.map (·.id) := by
      intro i hi
      simp only [List.mem_map, List.mem_filterMap] at hi ⊢
      obtain ⟨⟨i', v⟩, ⟨f', hf', hv⟩, rfl⟩ := hi
      cases hh : h f' with
      | none => simp [hh] at hv
      | some x => simp [hh] at hv; exact ⟨f', hf', hv.1⟩
    rcases List.mem_cons.mp hf with rfl | hm
    · cases hl : h f with
      | some x => simp [List.filterMap_cons, hl, lookupVal]
      | none =>
        simp only [List.filterMap_cons, hl, Option.map_none]
        cases hl2 : lookupVal (t.filterMap fun g => (h g).map fun v => (g.id, v)) f.id with
        | none => rfl
        | some y =>
          exfalso
          simp only [lookupVal, Option.map_eq_some_iff] at hl2
          obtain ⟨⟨i, w⟩, hfind, _⟩ := hl2
          have hmem := List.mem_of_find?_eq_some hfind
          have hi := List.find?_some hfind
          simp only [decide_eq_true_eq] at hi
          have := hids i (List.mem_map_of_mem (f := (·.1)) hmem)
          exact hnd.1 (by rw [← hi]; exact this)
    · have hne : g.id ≠ f.id := by
        intro e
        exact hnd.1 (by rw [e]; exact List.mem_map_of_mem (f := (·.id)) hm)
      cases hl : h g with
      | none =>
        simp only [List.filterMap_cons, hl, Option.map_none]
        exact ih hnd.2 f hm
      | some x =>
        simp only [List.filterMap_cons, hl, Option.map_some]
        have : lookupVal ((g.id, x) :: t.filterMap fun g => (h g).map fun v => (g.id, v)) f.id
            = lookupVal (t.filterMap fun g => (h g).map fun v => (g.id, v)) f.id := by
          simp [lookupVal, hne]
        rw [this]; exact ih hnd.2 f hm

theorem lookup_normFields (sd : StructDef) (acc : List (Int × Val)) (hnd : (sd.fields.map (·.id)).Nodup)
    (f : Field) (hf : f ∈ sd.fields) : lookupVal (normFields sd acc) f.id = readState sd acc f :=
  lookup_filterMap_fields (readState sd acc) sd.fields hnd f hf

theorem entries_length_le (d : Defs) (enc : Ty → Val → Res (List Event)) (sd : StructDef) (fs : List (Int × Val))
    (hset : ∀ f ∈ sd.fields, ∀ x, lookupVal fs f.id = some x → isSetVal sd f x = true) :
    ∀ (fl : List Field) (cs : List (List Event)), All2 (fun f c => fieldEvents d enc sd fs f = .ok c) fl cs →
      (∀ f ∈ fl, f ∈ sd.fields) → (entries fs fl).length ≤ cs.flatten.length := by
  intro fl cs h
  induction h with
  | nil => intro _; simp [entries]
  | @cons f c fl' cs' hx _ ih =>
    intro hsub
    have ih := ih (fun g hg => hsub g (by simp [hg]))
    cases hl : lookupVal fs f.id with
    | none =>
      have : entries fs (f :: fl') = entries fs fl' := by simp [entries, hl]
      rw [this]; simp only [List.flatten_cons, List.length_append]; omega
    | some x =>
      have : entries fs (f :: fl') = (f.id, x) :: entries fs fl' := by simp [entries, hl]
      rw [this]
      simp only [fieldEvents, hl] at hx
      rw [if_pos (hset f (hsub f (by simp)) x hl)] at hx
      split at hx
      · cases hx
        simp only [List.flatten_cons, List.length_append, List.length_cons, List.length_nil]; omega
      · cases hx
      · cases hx

theorem filter_present_entries (sd : StructDef) (fs : List (Int × Val)) (hnd : (sd.fields.map (·.id)).Nodup) :
    (sd.fields.filter fun f => (lookupVal (entries fs sd.fields) f.id).isSome) =
    (sd.fields.filter fun f => (lookupVal fs f.id).isSome) := by
  apply List.filter_congr
  intro f hf
  rw [lookup_entries fs sd.fields hnd f hf]

/-- Reading what the emitted writer wrote reproduces the value and consumes exactly its events:
for every definitions table, every depth budget, every declared type and every well-typed value. -/
theorem roundtrip (d : Defs) : ∀ (n : Nat) (t : Ty) (v : Val) (es rest : List Event),
    WT d n t v → encV d n t v = .ok es → decV d n t (es ++ rest) = .ok (v, rest) := by
  intro n
  induction n with
  | zero => intro t v es rest h; simp [WT] at h
  | succ n ih =>
    intro t v es rest hwt henc
    unfold WT at hwt
    unfold encV at henc
    unfold decV
    split at hwt
    all_goals (rename_i hres; simp only [hres] at henc ⊢)
    -- scalars
    all_goals (try (cases henc; rfl))
    · -- list
      rename_i a vs
      split at henc
      · rename_i body hbody
        cases henc
        obtain ⟨cs, hall, rfl⟩ := concatRes_map_ok _ _ _ hbody
        simp only [List.cons_append, List.nil_append, List.append_assoc]
        rw [decN_enc (WT d n a) (encV d n a) (decV d n a) (fun x c r hx hc => ih a x c r hx hc) vs cs _ [] hall hwt]
        simp
      · cases henc
      · cases henc
    · -- set
      rename_i a vs
      split at henc
      · rename_i body hbody
        cases henc
        obtain ⟨cs, hall, rfl⟩ := concatRes_map_ok _ _ _ hbody
        simp only [List.cons_append, List.nil_append, List.append_assoc]
        rw [decN_enc (WT d n a) (encV d n a) (decV d n a) (fun x c r hx hc => ih a x c r hx hc) vs cs _ [] hall hwt]
        simp
      · cases henc
      · cases henc
    · -- map
      rename_i kt vt kvs
      split at henc
      · rename_i body hbody
        cases henc
        obtain ⟨cs, hall, rfl⟩ := concatRes_map_ok _ _ _ hbody
        simp only [List.cons_append, List.nil_append, List.append_assoc]
        rw [decKV_enc (WT d n kt) (WT d n vt) (encV d n kt) (encV d n vt) (decV d n kt) (decV d n vt)
          (fun x c r hx hc => ih kt x c r hx hc) (fun x c r hx hc => ih vt x c r hx hc) kvs cs _ [] hall hwt]
        simp
      · cases henc
      · cases henc
    · -- struct
      rename_i nm fs
      obtain ⟨sd, hsd, hnd, hcanon, hun, hreq, hfields, hset, hdflt⟩ := hwt
      have habs := optional_of_absent sd fs hreq
      simp only [hsd] at henc
      split at henc
      · cases henc
      · rename_i hnotbad
        split at henc
        · rename_i body hbody
          cases henc
          obtain ⟨cs, hall, rfl⟩ := concatRes_map_ok _ _ _ hbody
          simp only [List.cons_append, List.nil_append, List.append_assoc, hsd]
          have hdf := decFields_enc d (encV d n) (decV d n) (skip (n + 1)) sd sd fs hnd
            (fun f hf x c r hl hc => ih f.ty x c r (hfields f hf x hl) hc) habs hset
            sd.fields cs (.se :: rest) [] (cs.flatten ++ .fs :: .se :: rest).length hall
            (fun f hf => hf) (fun f hf => hf) hnd (by intro i hi; cases hi) (by
              have := entries_length_le d (encV d n) sd fs hset sd.fields cs hall (fun f hf => hf)
              simp only [List.length_append, List.length_cons]; omega)
          rw [hdf]
          simp only [List.nil_append]
          -- what was read is the value itself
          have e2 : entries fs sd.fields = fs := by
            rw [← normFields_eq_entries sd fs habs hset]; exact hcanon.symm
          rw [e2]
          have hany : (sd.fields.any fun f => decide (f.req = Req.required ∧ sd.kind ≠ Kind.union ∧
              (lookupVal fs f.id).isNone = true)) = false := by
            rw [List.any_eq_false]
            intro f hf
            simp only [decide_eq_true_eq, not_and]
            intro hr hk
            have := hreq f hf (by rw [hr]; intro h; cases h) hk
            cases hl : lookupVal fs f.id with
            | none => rw [hl] at this; cases this
            | some x => simp
          rw [hany]
          simp only [Bool.false_eq_true, if_false]
          rw [if_neg hnotbad, ← hcanon]
        · cases henc
        · cases henc
    · exact absurd hwt (by simp)

theorem concatRes_map_total {α : Type} (g : α → Res (List Event)) :
    ∀ (l : List α), (∀ x ∈ l, ∃ c, g x = .ok c) → ∃ es, concatRes (l.map g) = .ok es := by
  intro l
  induction l with
  | nil => intro _; exact ⟨[], rfl⟩
  | cons x t ih =>
    intro h
    obtain ⟨c, hc⟩ := h x (by simp)
    obtain ⟨es, hes⟩ := ih (fun y hy => h y (by simp [hy]))
    exact ⟨c ++ es, by simp [concatRes, hc, hes]⟩

/-- The emitted writer succeeds on every well-typed value. -/
theorem enc_total (d : Defs) : ∀ (n : Nat) (t : Ty) (v : Val), WT d n t v → ∃ es, encV d n t v = .ok es := by
  intro n
  induction n with
  | zero => intro t v h; simp [WT] at h
  | succ n ih =>
    intro t v hwt
    unfold WT at hwt
    unfold encV
    split at hwt
    all_goals (rename_i hres; simp only [hres])
    all_goals (try (exact ⟨_, rfl⟩))
    · rename_i a vs
      obtain ⟨es, hes⟩ := concatRes_map_total (encV d n a) vs (fun x hx => ih a x (hwt x hx))
      exact ⟨_, by rw [hes]⟩
    · rename_i a vs
      obtain ⟨es, hes⟩ := concatRes_map_total (encV d n a) vs (fun x hx => ih a x (hwt x hx))
      exact ⟨_, by rw [hes]⟩
    · rename_i kt vt kvs
      obtain ⟨es, hes⟩ := concatRes_map_total (fun kv : Val × Val => concatRes [encV d n kt kv.1, encV d n vt kv.2]) kvs
        (fun kv hkv => by
          obtain ⟨ck, hck⟩ := ih kt kv.1 (hwt kv hkv).1
          obtain ⟨cv, hcv⟩ := ih vt kv.2 (hwt kv hkv).2
          exact ⟨ck ++ (cv ++ []), by simp [concatRes, hck, hcv]⟩)
      exact ⟨_, by rw [hes]⟩
    · rename_i nm fs
      obtain ⟨sd, hsd, hnd, hcanon, hun, hreq, hfields, hset, hdflt⟩ := hwt
      simp only [hsd]
      have hnb : ¬ (sd.kind = .union ∧ (sd.fields.filter (isSetIn sd fs)).length ≠ 1) := by
        intro ⟨hk, hne⟩; rw [isSetIn_eq_isSome sd fs hset] at hne; exact hne (hun hk)
      rw [if_neg hnb]
      obtain ⟨es, hes⟩ := concatRes_map_total (fieldEvents d (encV d n) sd fs) sd.fields (by
        intro f hf
        unfold fieldEvents
        cases hl : lookupVal fs f.id with
        | some x =>
          obtain ⟨c, hc⟩ := ih f.ty x (hfields f hf x hl)
          exact ⟨[.fb f.name (wireOf d f.ty) f.id] ++ c ++ [.fe], by simp only [hc, if_pos (hset f hf x hl)]⟩
        | none =>
          exact ⟨[], by simp only [if_pos (optional_of_absent sd fs hreq f hf hl)]⟩)
      exact ⟨_, by rw [hes]⟩
    · exact absurd hwt (by simp)

/-- One unknown field at any point of the emitted field loop: it is skipped and the state of the loop
(the fields read so far) is unchanged. -/
theorem decFields_skip_unknown (dec : Ty → List Event → Res (Val × List Event))
    (skp : Nat → List Event → Res (List Event)) (sd : StructDef) (fuel : Nat)
    (nm : String) (tt : Nat) (uid : Int) (body rest : List Event) (acc : List (Int × Val))
    (hunk : sd.fields.find? (·.id = uid) = none)
    (hskip : skp tt (body ++ .fe :: rest) = .ok (.fe :: rest)) :
    decFields dec skp sd (fuel + 1) (.fb nm tt uid :: (body ++ .fe :: rest)) acc = decFields dec skp sd fuel rest acc := by
  rw [decFields]
  simp only [hunk, hskip]

theorem skipN_enc (P : Val → Prop) (enc : Val → Res (List Event)) (sk : Nat → List Event → Res (List Event)) (tt : Nat)
    (ih : ∀ x c rest, P x → enc x = .ok c → sk tt (c ++ rest) = .ok rest) :
    ∀ (vs : List Val) (cs : List (List Event)) (rest : List Event),
      All2 (fun x c => enc x = .ok c) vs cs → (∀ x ∈ vs, P x) →
      skipN sk vs.length tt (cs.flatten ++ rest) = .ok rest := by
  intro vs cs rest hf
  induction hf with
  | nil => intro _; simp [skipN]
  | @cons x c xs cs' hx _ ih2 =>
    intro hwt
    simp only [List.length_cons, List.flatten_cons, List.append_assoc]
    rw [skipN, ih x c _ (hwt x (by simp)) hx]
    exact ih2 (fun y hy => hwt y (by simp [hy]))

theorem skipKV_enc (Pk Pv : Val → Prop) (enck encv : Val → Res (List Event))
    (sk : Nat → List Event → Res (List Event)) (kt vt : Nat)
    (ihk : ∀ x c rest, Pk x → enck x = .ok c → sk kt (c ++ rest) = .ok rest)
    (ihv : ∀ x c rest, Pv x → encv x = .ok c → sk vt (c ++ rest) = .ok rest) :
    ∀ (kvs : List (Val × Val)) (cs : List (List Event)) (rest : List Event),
      All2 (fun (kv : Val × Val) c => concatRes [enck kv.1, encv kv.2] = .ok c) kvs cs →
      (∀ kv ∈ kvs, Pk kv.1 ∧ Pv kv.2) →
      skipKV sk kt vt kvs.length (cs.flatten ++ rest) = .ok rest := by
  intro kvs cs rest hf
  induction hf with
  | nil => intro _; simp [skipKV]
  | @cons kv c xs cs' hx _ ih2 =>
    intro hwt
    obtain ⟨k, v⟩ := kv
    have hw := hwt (k, v) (by simp)
    obtain ⟨ck, cv, hck, hcv, rfl⟩ := concatRes_pair _ _ _ hx
    simp only [List.length_cons, List.flatten_cons, List.append_assoc]
    rw [skipKV, ihk k ck _ hw.1 hck]
    simp only
    rw [ihv v cv _ hw.2 hcv]
    exact ih2 (fun y hy => hwt y (by simp [hy]))

/-- Skipping the chunks the emitted field writers produced, up to FieldStop / StructEnd. -/
theorem skipFields_enc (d : Defs) (enc : Ty → Val → Res (List Event)) (sk : Nat → List Event → Res (List Event))
    (sd : StructDef) (fs : List (Int × Val))
    (ih : ∀ f ∈ sd.fields, ∀ x c rest, lookupVal fs f.id = some x → enc f.ty x = .ok c →
            sk (wireOf d f.ty) (c ++ rest) = .ok rest)
    (habs : ∀ f ∈ sd.fields, lookupVal fs f.id = none → f.req = .optional ∨ sd.kind = .union)
    (hset : ∀ f ∈ sd.fields, ∀ x, lookupVal fs f.id = some x → isSetVal sd f x = true) :
    ∀ (fl : List Field) (cs : List (List Event)) (rest : List Event) (fuel : Nat),
      All2 (fun f c => fieldEvents d enc sd fs f = .ok c) fl cs →
      (∀ f ∈ fl, f ∈ sd.fields) → (entries fs fl).length + 1 ≤ fuel →
      skipFields sk fuel (cs.flatten ++ .fs :: .se :: rest) = .ok rest := by
  intro fl cs rest fuel hf
  induction hf generalizing fuel with
  | nil =>
    intro _ hfuel
    cases fuel with
    | zero => simp [entries] at hfuel
    | succ k => simp [skipFields]
  | @cons f c fl' cs' hx _ ih2 =>
    intro hsub hfuel
    have hfm : f ∈ sd.fields := hsub f (by simp)
    cases hl : lookupVal fs f.id with
    | none =>
      have hc : c = [] := by
        simp only [fieldEvents, hl] at hx
        rw [if_pos (habs f hfm hl)] at hx
        cases hx; rfl
      subst hc
      have he : entries fs (f :: fl') = entries fs fl' := by simp [entries, hl]
      rw [he] at hfuel
      simp only [List.flatten_cons, List.nil_append]
      exact ih2 fuel (fun g hg => hsub g (by simp [hg])) hfuel
    | some x =>
      have he : entries fs (f :: fl') = (f.id, x) :: entries fs fl' := by simp [entries, hl]
      rw [he] at hfuel
      simp only [fieldEvents, hl] at hx
      rw [if_pos (hset f hfm x hl)] at hx
      split at hx
      · rename_i body hbody
        cases hx
        cases fuel with
        | zero => simp at hfuel
        | succ k =>
          simp only [List.flatten_cons, List.cons_append, List.append_assoc, List.nil_append]
          rw [skipFields, ih f hfm x body _ hl hbody]
          simp only
          exact ih2 k (fun g hg => hsub g (by simp [hg])) (by simp at hfuel; omega)
      · cases hx
      · cases hx

theorem wireOf_of_resolve (d : Defs) (t : Ty) : wireOf d t = (match resolve d t with
  | .bool => 2 | .byte => 3 | .double => 4 | .i16 => 6 | .i32 => 8 | .i64 => 10
  | .string => 11 | .binary => 11 | .enum _ => 8 | .struct _ => 12
  | .map _ _ => 13 | .set _ => 14 | .list _ => 15
  | .typedef _ => 0) := rfl

/-- `Skip` consumes exactly the encoding of a well-typed value (of any type): this is why a field the
reader does not know can be skipped whatever it contains. -/
theorem skip_enc (d : Defs) : ∀ (n : Nat) (t : Ty) (v : Val) (es rest : List Event),
    WT d n t v → encV d n t v = .ok es → skip n (wireOf d t) (es ++ rest) = .ok rest := by
  intro n
  induction n with
  | zero => intro t v es rest h; simp [WT] at h
  | succ n ih =>
    intro t v es rest hwt henc
    unfold WT at hwt
    unfold encV at henc
    rw [wireOf_of_resolve]
    split at hwt
    all_goals (rename_i hres; simp only [hres] at henc ⊢)
    all_goals (try (cases henc; simp [skip]; done))
    · rename_i a vs
      split at henc
      · rename_i body hbody
        cases henc
        obtain ⟨cs, hall, rfl⟩ := concatRes_map_ok _ _ _ hbody
        simp only [List.cons_append, List.nil_append, List.append_assoc, skip]
        rw [skipN_enc (WT d n a) (encV d n a) (skip n) (wireOf d a) (fun x c r hx hc => ih a x c r hx hc) vs cs _ hall hwt]
      · cases henc
      · cases henc
    · rename_i a vs
      split at henc
      · rename_i body hbody
        cases henc
        obtain ⟨cs, hall, rfl⟩ := concatRes_map_ok _ _ _ hbody
        simp only [List.cons_append, List.nil_append, List.append_assoc, skip]
        rw [skipN_enc (WT d n a) (encV d n a) (skip n) (wireOf d a) (fun x c r hx hc => ih a x c r hx hc) vs cs _ hall hwt]
      · cases henc
      · cases henc
    · rename_i kt vt kvs
      split at henc
      · rename_i body hbody
        cases henc
        obtain ⟨cs, hall, rfl⟩ := concatRes_map_ok _ _ _ hbody
        simp only [List.cons_append, List.nil_append, List.append_assoc, skip]
        rw [skipKV_enc (WT d n kt) (WT d n vt) (encV d n kt) (encV d n vt) (skip n) (wireOf d kt) (wireOf d vt)
          (fun x c r hx hc => ih kt x c r hx hc) (fun x c r hx hc => ih vt x c r hx hc) kvs cs _ hall hwt]
      · cases henc
      · cases henc
    · rename_i nm fs
      obtain ⟨sd, hsd, hnd, hcanon, hun, hreq, hfields, hset, hdflt⟩ := hwt
      simp only [hsd] at henc
      split at henc
      · cases henc
      · split at henc
        · rename_i body hbody
          cases henc
          obtain ⟨cs, hall, rfl⟩ := concatRes_map_ok _ _ _ hbody
          simp only [List.cons_append, List.nil_append, List.append_assoc, skip]
          exact skipFields_enc d (encV d n) (skip n) sd fs
            (fun f hf x c r hl hc => ih f.ty x c r (hfields f hf x hl) hc)
            (optional_of_absent sd fs hreq) hset
            sd.fields cs rest _ hall (fun f hf => hf) (by
              have := entries_length_le d (encV d n) sd fs hset sd.fields cs hall (fun f hf => hf)
              simp only [List.length_append, List.length_cons]; omega)
        · cases henc
        · cases henc
    · exact absurd hwt (by simp)

theorem isSetVal_kind (sd sd' : StructDef) (hk : sd'.kind = sd.kind) (f : Field) (v : Val) :
    isSetVal sd' f v = isSetVal sd f v := by
  unfold isSetVal cmpDflt; rw [hk]

/-- SCHEMA EVOLUTION / defaults reproduced. A value written by the emitted `Write` of a struct
definition `sdw` and read by the emitted `Read` of a definition `sdr` that declares the same fields
and MORE (none of the extra ones required): the read succeeds, consumes exactly the encoding, the
common fields keep their values, and every extra field `g` — which the stream omits — is in its
constructor state: a non-optional `g` holds its default `g.dflt`, an optional one is unset, and in
both cases the getter `Get<G>()` returns the declared default. -/
theorem default_reproduced (d : Defs) (n : Nat) (tw tr : Ty) (nw nr : String) (sdw sdr : StructDef)
    (fs : List (Int × Val)) (es rest : List Event)
    (hrw : resolve d tw = .struct nw) (hsw : lookupStruct d nw = some sdw)
    (hrr : resolve d tr = .struct nr) (hsr : lookupStruct d nr = some sdr)
    (hkind : sdr.kind = sdw.kind) (hnu : sdw.kind ≠ .union)
    (hsub : ∀ f ∈ sdw.fields, f ∈ sdr.fields)
    (hndr : (sdr.fields.map (·.id)).Nodup)
    (hreqr : ∀ f ∈ sdr.fields, f.req = .required → f ∈ sdw.fields)
    (hwt : WT d (n + 1) tw (.struct fs)) (henc : encV d (n + 1) tw (.struct fs) = .ok es) :
    decV d (n + 1) tr (es ++ rest) = .ok (.struct (normFields sdr fs), rest) ∧
    (∀ f ∈ sdw.fields, lookupVal (normFields sdr fs) f.id = lookupVal fs f.id) ∧
    (∀ g ∈ sdr.fields, g.id ∉ sdw.fields.map (·.id) →
       lookupVal (normFields sdr fs) g.id = (if g.req = .optional then none else g.dflt) ∧
       getField (normFields sdr fs) g = g.dflt) := by
  unfold WT at hwt
  simp only [hrw] at hwt
  obtain ⟨sd, hsd, hnd, hcanon, hun, hreq, hfields, hset, hdflt⟩ := hwt
  rw [hsw] at hsd; cases hsd
  have habs := optional_of_absent sdw fs hreq
  have e2 : entries fs sdw.fields = fs := by
    rw [← normFields_eq_entries sdw fs habs hset]; exact hcanon.symm
  -- fields the writer does not know are not listed
  have hnot : ∀ g : Field, g.id ∉ sdw.fields.map (·.id) → lookupVal fs g.id = none := by
    intro g hg
    cases hl : lookupVal fs g.id with
    | none => rfl
    | some y =>
      exfalso
      rw [← e2] at hl
      simp only [lookupVal, Option.map_eq_some_iff] at hl
      obtain ⟨⟨i, w⟩, hfind, _⟩ := hl
      have hmem := List.mem_of_find?_eq_some hfind
      have hi := List.find?_some hfind
      simp only [decide_eq_true_eq] at hi
      have := entries_ids fs sdw.fields i (List.mem_map_of_mem (f := (·.1)) hmem)
      exact hg (by rw [← hi]; exact this)
  have hnur : sdr.kind ≠ .union := by rw [hkind]; exact hnu
  refine ⟨?_, ?_, ?_⟩
  · unfold encV at henc
    simp only [hrw, hsw] at henc
    split at henc
    · cases henc
    · split at henc
      · rename_i body hbody
        cases henc
        obtain ⟨cs, hall, rfl⟩ := concatRes_map_ok _ _ _ hbody
        unfold decV
        simp only [hrr, List.cons_append, List.nil_append, List.append_assoc, hsr]
        have hdf := decFields_enc d (encV d n) (decV d n) (skip (n + 1)) sdw sdr fs hndr
          (fun f hf x c r hl hc => roundtrip d n f.ty x c r (hfields f hf x hl) hc) habs hset
          sdw.fields cs (.se :: rest) [] (cs.flatten ++ .fs :: .se :: rest).length hall
          (fun f hf => hf) hsub hnd (by intro i hi; cases hi) (by
            have := entries_length_le d (encV d n) sdw fs hset sdw.fields cs hall (fun f hf => hf)
            simp only [List.length_append, List.length_cons]; omega)
        rw [hdf]
        simp only [List.nil_append]
        rw [e2]
        have hany : (sdr.fields.any fun f => decide (f.req = Req.required ∧ sdr.kind ≠ Kind.union ∧
            (lookupVal fs f.id).isNone = true)) = false := by
          rw [List.any_eq_false]
          intro f hf
          simp only [decide_eq_true_eq, not_and]
          intro hr hk
          have hfw := hreqr f hf hr
          have := hreq f hfw (by rw [hr]; intro h; cases h) hnu
          cases hl : lookupVal fs f.id with
          | none => rw [hl] at this; cases this
          | some x => simp
        rw [hany]
        simp only [Bool.false_eq_true, if_false]
        rw [if_neg (fun h => hnur h.1)]
      · cases henc
      · cases henc
  · intro f hf
    rw [lookup_normFields sdr fs hndr f (hsub f hf)]
    unfold readState
    cases hl : lookupVal fs f.id with
    | none =>
      have := habs f hf hl
      rw [← hkind] at this
      simp only [if_pos this]
    | some x =>
      simp only [isSetVal_kind sdw sdr hkind f x, hset f hf x hl, if_true]
  · intro g hg hid
    have hl := hnot g hid
    have h1 : lookupVal (normFields sdr fs) g.id = (if g.req = .optional then none else g.dflt) := by
      rw [lookup_normFields sdr fs hndr g hg]
      unfold readState
      simp only [hl, hnur, or_false]
    refine ⟨h1, ?_⟩
    unfold getField
    rw [h1]
    by_cases ho : g.req = .optional
    · simp only [if_pos ho]
    · simp only [if_neg ho]
      cases g.dflt <;> rfl
theorem All2.imp {α β : Type} {R S : α → β → Prop} (h : ∀ a b, R a b → S a b) :
    ∀ {l : List α} {l' : List β}, All2 R l l' → All2 S l l' := by
  intro l l' hl
  induction hl with
  | nil => exact .nil
  | cons hr _ ih => exact .cons (h _ _ hr) ih

/-- What the emitted `Write` of a struct-like emits: StructBegin(name), one chunk per declared field in
declaration order (each the result of that field's `writeFieldN`), FieldStop, StructEnd. -/
theorem encV_struct_chunks (d : Defs) (n : Nat) (t : Ty) (nm : String) (sd : StructDef)
    (fs : List (Int × Val)) (es : List Event)
    (hres : resolve d t = .struct nm) (hsd : lookupStruct d nm = some sd)
    (henc : encV d (n + 1) t (.struct fs) = .ok es) :
    ∃ cs : List (List Event), es = [.sb sd.name] ++ cs.flatten ++ [.fs, .se] ∧
      All2 (fun f c => fieldEvents d (encV d n) sd fs f = .ok c) sd.fields cs := by
  unfold encV at henc
  simp only [hres, hsd] at henc
  split at henc
  · cases henc
  · split at henc
    · rename_i body hbody
      cases henc
      obtain ⟨cs, hall, rfl⟩ := concatRes_map_ok _ _ _ hbody
      exact ⟨cs, rfl, hall⟩
    · cases henc
    · cases henc

/-- A field that is not optional (and not a union's) has no default `IsSet` compares with. -/
theorem isSetVal_of_not_optional (sd : StructDef) (f : Field) (v : Val)
    (h : ¬ (f.req = .optional ∨ sd.kind = .union)) : isSetVal sd f v = true := by
  unfold isSetVal cmpDflt
  rw [if_neg h]

/-- `IsSet<F>()` of a non-pointer optional field with default `dv`: Go's `!=` says the value differs. -/
theorem isSetVal_default (sd : StructDef) (f : Field) (v dv : Val)
    (hopt : f.req = .optional ∨ sd.kind = .union) (hd : f.dflt = some dv) (hs : dv.scalar = true) :
    isSetVal sd f v = true ↔ goEq v dv = false := by
  unfold isSetVal cmpDflt
  rw [if_pos hopt, hd]
  simp only [hs, if_true]
  cases goEq v dv <;> simp

/-- Off the doubles, Go's `==` is equality of values. -/
theorem goEq_iff_of_not_dbl (v dv : Val) (h : ∀ b, dv ≠ .dbl b) : goEq v dv = true ↔ v = dv := by
  unfold goEq
  split
  · rename_i a b; exact absurd rfl (h b)
  · exact Val.beq_iff v dv

/-- On doubles it is `dblEq`: equal bits that are not a NaN, or two zeros. -/
theorem goEq_dbl (a b : Nat) : goEq (.dbl a) (.dbl b) = dblEq a b := rfl

theorem dblEq_iff (a b : Nat) :
    dblEq a b = true ↔ dblIsNaN a = false ∧ dblIsNaN b = false ∧ ((dblIsZero a = true ∧ dblIsZero b = true) ∨ a = b) := by
  unfold dblEq
  cases dblIsNaN a <;> cases dblIsNaN b <;> cases dblIsZero a <;> cases dblIsZero b <;> simp

/-- A NaN equals nothing — so a non-pointer optional double field holding a NaN is always SET. -/
theorem dblEq_nan_left (a b : Nat) (h : dblIsNaN a = true) : dblEq a b = false := by
  unfold dblEq; rw [h]; rfl

theorem dblEq_nan_right (a b : Nat) (h : dblIsNaN b = true) : dblEq a b = false := by
  unfold dblEq; rw [h]; cases dblIsNaN a <;> rfl

/-- +0.0 and -0.0 are equal (in both orders): -0.0 against a 0.0 default is unset. -/
theorem dblEq_zeros : dblEq 0 9223372036854775808 = true ∧ dblEq 9223372036854775808 0 = true := by
  constructor <;> decide

/-- Equal doubles that are not NaN are `dblEq`; different non-zero bit patterns are not. -/
theorem dblEq_refl (a : Nat) (h : dblIsNaN a = false) : dblEq a a = true := by
  unfold dblEq; rw [h]; simp

theorem dblEq_ne (a b : Nat) (hne : a ≠ b) (hz : dblIsZero a = false ∨ dblIsZero b = false) : dblEq a b = false := by
  unfold dblEq
  rcases hz with hz | hz <;> rw [hz] <;> simp [hne]

/-! ### ill-formed values: unions whose set-field count is not one, at any depth -/


/-- `v` (of declared type `t`, within depth `n`) CONTAINS A BAD UNION: at some position reachable through
the elements of lists / sets / maps and through struct fields that the emitted Write writes (listed and
`IsSet`), a union whose number of set fields is not one. -/
def HasBadUnion (d : Defs) : Nat → Ty → Val → Prop
  | 0, _, _ => False
  | n + 1, t, v =>
    match resolve d t, v with
    | .list a, .list vs => ∃ x ∈ vs, HasBadUnion d n a x
    | .set a, .list vs => ∃ x ∈ vs, HasBadUnion d n a x
    | .map kt vt, .map kvs => ∃ kv ∈ kvs, HasBadUnion d n kt kv.1 ∨ HasBadUnion d n vt kv.2
    | .struct nm, .struct fs =>
      ∃ sd, lookupStruct d nm = some sd ∧
        ((sd.kind = .union ∧ (sd.fields.filter (isSetIn sd fs)).length ≠ 1) ∨
         ∃ f ∈ sd.fields, ∃ x, lookupVal fs f.id = some x ∧ isSetVal sd f x = true ∧ HasBadUnion d n f.ty x)
    | _, _ => False

theorem All2.of_mem {α β : Type} {R : α → β → Prop} : ∀ {l : List α} {l' : List β}, All2 R l l' →
    ∀ x ∈ l, ∃ c, R x c := by
  intro l l' h
  induction h with
  | nil => intro x hx; cases hx
  | cons hr _ ih =>
    intro x hx
    rcases List.mem_cons.mp hx with rfl | hm
    · exact ⟨_, hr⟩
    · exact ih x hm

/-- The emitted `Write` NEVER succeeds on a value that contains a bad union, at any depth — whatever
else the value looks like. -/
theorem enc_bad_union_not_ok (d : Defs) : ∀ (n : Nat) (t : Ty) (v : Val) (es : List Event),
    HasBadUnion d n t v → encV d n t v ≠ .ok es := by
  intro n
  induction n with
  | zero => intro t v es h; simp [HasBadUnion] at h
  | succ n ih =>
    intro t v es hb henc
    unfold HasBadUnion at hb
    unfold encV at henc
    split at hb
    all_goals (try (rename_i hres; simp only [hres] at henc))
    · -- list
      rename_i a vs
      obtain ⟨x, hx, hbx⟩ := hb
      split at henc
      · rename_i body hbody
        obtain ⟨cs, hall, _⟩ := concatRes_map_ok _ _ _ hbody
        obtain ⟨c, hc⟩ := All2.of_mem hall x hx
        exact ih a x c hbx hc
      · cases henc
      · cases henc
    · rename_i a vs
      obtain ⟨x, hx, hbx⟩ := hb
      split at henc
      · rename_i body hbody
        obtain ⟨cs, hall, _⟩ := concatRes_map_ok _ _ _ hbody
        obtain ⟨c, hc⟩ := All2.of_mem hall x hx
        exact ih a x c hbx hc
      · cases henc
      · cases henc
    · rename_i kt vt kvs
      obtain ⟨kv, hkv, hbkv⟩ := hb
      split at henc
      · rename_i body hbody
        obtain ⟨cs, hall, _⟩ := concatRes_map_ok _ _ _ hbody
        obtain ⟨c, hc⟩ := All2.of_mem hall kv hkv
        obtain ⟨ca, cb, hca, hcb, _⟩ := concatRes_pair _ _ _ hc
        rcases hbkv with h | h
        · exact ih kt kv.1 ca h hca
        · exact ih vt kv.2 cb h hcb
      · cases henc
      · cases henc
    · rename_i nm fs
      obtain ⟨sd, hsd, hbad⟩ := hb
      simp only [hsd] at henc
      split at henc
      · cases henc
      · rename_i hnotbad
        rcases hbad with hu | ⟨f, hf, x, hl, hs, hbx⟩
        · exact hnotbad hu
        · split at henc
          · rename_i body hbody
            obtain ⟨cs, hall, _⟩ := concatRes_map_ok _ _ _ hbody
            obtain ⟨c, hc⟩ := All2.of_mem hall f hf
            simp only [fieldEvents, hl, if_pos hs] at hc
            split at hc
            · rename_i fes hfes
              exact ih f.ty x fes hbx hfes
            · cases hc
            · cases hc
          · cases henc
          · cases henc
    · exact hb


/-- Well-typed APART FROM the union counts (and canonical form): what the harness can build in the emitted
Go types when it sets none or several fields of a union. -/
def WTU (d : Defs) : Nat → Ty → Val → Prop
  | 0, _, _ => False
  | n + 1, t, v =>
    match resolve d t, v with
    | .bool, .bool _ => True
    | .byte, .int _ => True
    | .i16, .int _ => True
    | .i32, .int _ => True
    | .i64, .int _ => True
    | .enum _, .int _ => True
    | .double, .dbl _ => True
    | .string, .bytes _ => True
    | .binary, .bytes _ => True
    | .list a, .list vs => ∀ x ∈ vs, WTU d n a x
    | .set a, .list vs => ∀ x ∈ vs, WTU d n a x
    | .map kt vt, .map kvs => ∀ kv ∈ kvs, WTU d n kt kv.1 ∧ WTU d n vt kv.2
    | .struct nm, .struct fs =>
      ∃ sd, lookupStruct d nm = some sd ∧
        (∀ f ∈ sd.fields, f.req ≠ .optional → sd.kind ≠ .union → (lookupVal fs f.id).isSome) ∧
        (∀ f ∈ sd.fields, ∀ x, lookupVal fs f.id = some x → WTU d n f.ty x)
    | _, _ => False

theorem WT.toWTU (d : Defs) : ∀ (n : Nat) (t : Ty) (v : Val), WT d n t v → WTU d n t v := by
  intro n
  induction n with
  | zero => intro t v h; simp [WT] at h
  | succ n ih =>
    intro t v h
    unfold WT at h
    unfold WTU
    split at h
    all_goals (try (rename_i hres; simp only [hres]))
    · exact fun x hx => ih _ x (h x hx)
    · exact fun x hx => ih _ x (h x hx)
    · exact fun kv hkv => ⟨ih _ _ (h kv hkv).1, ih _ _ (h kv hkv).2⟩
    · obtain ⟨sd, hsd, _, _, _, hreq, hfields, _, _⟩ := h
      exact ⟨sd, hsd, hreq, fun f hf x hl => ih _ x (hfields f hf x hl)⟩
    · exact absurd h (by simp)

def OkOrInvalid (r : Res (List Event)) : Prop := (∃ es, r = .ok es) ∨ r = .err .invalidData

theorem concatRes_map_okOrInvalid {α : Type} (g : α → Res (List Event)) :
    ∀ (l : List α), (∀ x ∈ l, OkOrInvalid (g x)) → OkOrInvalid (concatRes (l.map g)) := by
  intro l
  induction l with
  | nil => intro _; exact Or.inl ⟨[], rfl⟩
  | cons x t ih =>
    intro h
    rcases h x (by simp) with ⟨c, hc⟩ | he
    · rcases ih (fun y hy => h y (by simp [hy])) with ⟨es, hes⟩ | he2
      · exact Or.inl ⟨c ++ es, by simp [concatRes, hc, hes]⟩
      · exact Or.inr (by simp [concatRes, hc, he2])
    · exact Or.inr (by simp [concatRes, he])

/-- On a value that is well-typed apart from its union counts the emitted `Write` either succeeds or
returns INVALID_DATA: it never panics, and no other error arises. -/
theorem enc_okOrInvalid (d : Defs) : ∀ (n : Nat) (t : Ty) (v : Val), WTU d n t v → OkOrInvalid (encV d n t v) := by
  intro n
  induction n with
  | zero => intro t v h; simp [WTU] at h
  | succ n ih =>
    intro t v hwt
    unfold WTU at hwt
    unfold encV
    split at hwt
    all_goals (try (rename_i hres; simp only [hres]))
    all_goals (try (exact Or.inl ⟨_, rfl⟩))
    · rename_i a vs
      rcases concatRes_map_okOrInvalid (encV d n a) vs (fun x hx => ih a x (hwt x hx)) with ⟨es, hes⟩ | he
      · exact Or.inl ⟨_, by rw [hes]⟩
      · exact Or.inr (by rw [he])
    · rename_i a vs
      rcases concatRes_map_okOrInvalid (encV d n a) vs (fun x hx => ih a x (hwt x hx)) with ⟨es, hes⟩ | he
      · exact Or.inl ⟨_, by rw [hes]⟩
      · exact Or.inr (by rw [he])
    · rename_i kt vt kvs
      rcases concatRes_map_okOrInvalid (fun kv : Val × Val => concatRes [encV d n kt kv.1, encV d n vt kv.2]) kvs
        (fun kv hkv => by
          have := concatRes_map_okOrInvalid (fun r : Res (List Event) => r) [encV d n kt kv.1, encV d n vt kv.2]
            (by intro r hr
                simp only [List.mem_cons, List.mem_nil_iff, or_false] at hr
                rcases hr with rfl | rfl
                · exact ih kt kv.1 (hwt kv hkv).1
                · exact ih vt kv.2 (hwt kv hkv).2)
          simpa using this) with ⟨es, hes⟩ | he
      · exact Or.inl ⟨_, by rw [hes]⟩
      · exact Or.inr (by rw [he])
    · rename_i nm fs
      obtain ⟨sd, hsd, hreq, hfields⟩ := hwt
      simp only [hsd]
      split
      · exact Or.inr rfl
      · rcases concatRes_map_okOrInvalid (fieldEvents d (encV d n) sd fs) sd.fields (by
          intro f hf
          unfold fieldEvents
          cases hl : lookupVal fs f.id with
          | some x =>
            simp only
            split
            · rcases ih f.ty x (hfields f hf x hl) with ⟨c, hc⟩ | he
              · exact Or.inl ⟨_, by rw [hc]⟩
              · exact Or.inr (by rw [he])
            · exact Or.inl ⟨[], rfl⟩
          | none =>
            exact Or.inl ⟨[], by simp only [if_pos (optional_of_absent sd fs hreq f hf hl)]⟩) with ⟨es, hes⟩ | he
        · exact Or.inl ⟨_, by rw [hes]⟩
        · exact Or.inr (by rw [he])
    · exact absurd hwt (by simp)

end FV.Thrift
