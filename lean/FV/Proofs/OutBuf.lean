/-
Helper lemmas for C12 (`FV/Props/C12.lean`): what a run of write operations does to the
bounded output buffer, and the projection of the buffer to sizes.
-/
import FV.Model.OutBuf

namespace FV
open OutBuf

theorem opsSize_eq (ops : List Op) : opsSize ops = (opsPayload ops).length := by
  induction ops with
  | nil => rfl
  | cons o t ih => simp [opsSize, opsPayload, Op.size, ih]

theorem opsSize_append (a b : List Op) : opsSize (a ++ b) = opsSize a + opsSize b := by
  induction a with
  | nil => simp [opsSize]
  | cons o t ih => simp [opsSize, ih]; omega

theorem OutBuf.put_eq (b : OutBuf) (p : Bytes) :
    ((b.put p).1, failed (b.put p).2) =
      if 0 < b.limit ∧ b.limit < p.length + b.len then (b.reset, true)
      else ({ b with data := b.data ++ p }, false) := by
  unfold put tooLarge
  by_cases hc : 0 < b.limit ∧ b.limit < p.length + b.len
  · simp [hc, failed]
  · simp [hc, failed]

theorem OutBuf.apply_write (b : OutBuf) (o : Op) (h : o.isWrite = true) :
    b.apply o = if 0 < b.limit ∧ b.limit < o.size + b.len then (b.reset, true)
                else ({ b with data := b.data ++ o.payload }, false) := by
  cases o with
  | reset => simp [Op.isWrite] at h
  | write p => exact put_eq b p
  | writeByte c => exact put_eq b [c]
  | writeString s => exact put_eq b s

theorem OutBuf.apply_reset (b : OutBuf) : b.apply .reset = (b.reset, false) := rfl

theorem OutBuf.runStop_ok (ops : List Op) : ∀ (b : OutBuf), (∀ o ∈ ops, o.isWrite = true) →
    ¬ (0 < b.limit ∧ b.limit < opsSize ops + b.len) →
    b.runStop ops = ({ b with data := b.data ++ opsPayload ops }, false) := by
  induction ops with
  | nil => intro b _ _; simp [runStop, opsPayload]
  | cons o t ih =>
    intro b hw hfit
    have ho : o.isWrite = true := hw o (by simp)
    have h1 : ¬ (0 < b.limit ∧ b.limit < o.size + b.len) := by
      simp only [opsSize] at hfit; omega
    simp only [runStop, apply_write b o ho, if_neg h1]
    have := ih { b with data := b.data ++ o.payload } (fun x hx => hw x (by simp [hx]))
      (by simp only [opsSize] at hfit; simp only [len, List.length_append, Op.size] at *; omega)
    simp [this, opsPayload]

theorem OutBuf.runStop_err (ops : List Op) : ∀ (b : OutBuf), (∀ o ∈ ops, o.isWrite = true) → ops ≠ [] →
    (0 < b.limit ∧ b.limit < opsSize ops + b.len) →
    b.runStop ops = (b.reset, true) := by
  induction ops with
  | nil => intro b _ h; exact absurd rfl h
  | cons o t ih =>
    intro b hw _ hover
    have ho : o.isWrite = true := hw o (by simp)
    simp only [runStop, apply_write b o ho]
    by_cases h1 : 0 < b.limit ∧ b.limit < o.size + b.len
    · simp [h1]
    · simp only [if_neg h1]
      by_cases ht : t = []
      · subst ht; simp only [opsSize] at hover; omega
      · have := ih { b with data := b.data ++ o.payload } (fun x hx => hw x (by simp [hx])) ht
          (by simp only [opsSize] at hover; simp only [len, List.length_append, Op.size] at *; omega)
        simp [this, reset]

/-! ### Invariant: the placeholder is always there -/

theorem OutBuf.apply_len_ge (b : OutBuf) (o : Op) (h : 4 ≤ b.len) : 4 ≤ (b.apply o).1.len := by
  cases ho : o.isWrite
  · cases o <;> simp [Op.isWrite] at ho
    simp [apply, reset, len, framePlaceholder]
  · rw [apply_write b o ho]
    split
    · simp [reset, len, framePlaceholder]
    · simp only [len, List.length_append] at *; omega

theorem OutBuf.runAll_len_ge (ops : List Op) : ∀ (b : OutBuf), 4 ≤ b.len → 4 ≤ (b.runAll ops).1.len := by
  induction ops with
  | nil => intro b h; simpa [runAll]
  | cons o t ih => intro b h; simp only [runAll]; exact ih _ (apply_len_ge b o h)

theorem OutBuf.bytes_length (b : OutBuf) (h : 4 ≤ b.len) : b.bytes.length = b.len := by
  simp only [bytes, be32, len, List.length_append, List.length_drop, List.length_cons, List.length_nil] at *
  omega

theorem OutBuf.new_len (limit : Nat) : (OutBuf.new limit).len = 4 := rfl

/-- Every operation keeps the buffer within `max limit 4` when a limit is set. -/
theorem OutBuf.apply_bounded (b : OutBuf) (o : Op) (_hl : 0 < b.limit) (h : b.len ≤ max b.limit 4) :
    (b.apply o).1.len ≤ max (b.apply o).1.limit 4 ∧ (b.apply o).1.limit = b.limit := by
  cases ho : o.isWrite
  · cases o <;> simp [Op.isWrite] at ho
    simp [apply, reset, len, framePlaceholder]; omega
  · rw [apply_write b o ho]
    split
    · simp [reset, len, framePlaceholder]; omega
    · rename_i hc
      simp only [len, List.length_append, Op.size] at *
      refine ⟨?_, trivial⟩
      omega

theorem OutBuf.runAll_bounded (ops : List Op) : ∀ (b : OutBuf), 0 < b.limit → b.len ≤ max b.limit 4 →
    (b.runAll ops).1.len ≤ max b.limit 4 := by
  induction ops with
  | nil => intro b _ h; simpa [runAll]
  | cons o t ih =>
    intro b hl h
    simp only [runAll]
    have := apply_bounded b o hl h
    have h2 := ih (b.apply o).1 (by omega) this.1
    rw [this.2] at h2
    exact h2

/-! ### Sizes only -/

theorem LBuf.apply_write (b : LBuf) (o : Op) (h : o.isWrite = true) :
    b.apply o = if 0 < b.limit ∧ b.limit < o.size + b.len then (b.reset, true)
                else ({ b with len := b.len + o.size }, false) := by
  simp [LBuf.apply, h]

theorem OutBuf.apply_abs (b : OutBuf) (o : Op) : ((b.apply o).1.abs, (b.apply o).2) = b.abs.apply o := by
  cases ho : o.isWrite
  · cases o <;> simp [Op.isWrite] at ho
    simp [apply, LBuf.apply, Op.isWrite, abs, reset, LBuf.reset, len, framePlaceholder]
  · rw [apply_write b o ho, LBuf.apply_write b.abs o ho]
    by_cases hc : 0 < b.limit ∧ b.limit < o.size + b.len
    · have hc' : 0 < b.abs.limit ∧ b.abs.limit < o.size + b.abs.len := hc
      rw [if_pos hc, if_pos hc']; rfl
    · have hc' : ¬ (0 < b.abs.limit ∧ b.abs.limit < o.size + b.abs.len) := hc
      rw [if_neg hc, if_neg hc']
      simp [abs, len, Op.size]

theorem OutBuf.runStop_abs (ops : List Op) : ∀ (b : OutBuf),
    ((b.runStop ops).1.abs, (b.runStop ops).2) = b.abs.runStop ops := by
  induction ops with
  | nil => intro b; rfl
  | cons o t ih =>
    intro b
    have h := apply_abs b o
    simp only [runStop, LBuf.runStop]
    rw [← h]
    simp only
    split
    · rfl
    · exact ih _

theorem OutBuf.runAll_abs (ops : List Op) : ∀ (b : OutBuf),
    ((b.runAll ops).1.abs, (b.runAll ops).2) = b.abs.runAll ops := by
  induction ops with
  | nil => intro b; rfl
  | cons o t ih =>
    intro b
    have h := apply_abs b o
    have h2 := ih (b.apply o).1
    simp only [runAll, LBuf.runAll]
    rw [← h]
    simp only
    rw [← h2]

theorem LBuf.runStop_ok (ops : List Op) : ∀ (b : LBuf), (∀ o ∈ ops, o.isWrite = true) →
    ¬ (0 < b.limit ∧ b.limit < opsSize ops + b.len) →
    b.runStop ops = ({ b with len := b.len + opsSize ops }, false) := by
  induction ops with
  | nil => intro b _ _; simp [LBuf.runStop, opsSize]
  | cons o t ih =>
    intro b hw hfit
    have ho : o.isWrite = true := hw o (by simp)
    have h1 : ¬ (0 < b.limit ∧ b.limit < o.size + b.len) := by
      simp only [opsSize] at hfit; omega
    simp only [LBuf.runStop, LBuf.apply_write b o ho, if_neg h1]
    have := ih { b with len := b.len + o.size } (fun x hx => hw x (by simp [hx]))
      (by simp only [opsSize] at hfit; simp only; omega)
    simp [this, opsSize]; omega

theorem LBuf.runStop_err (ops : List Op) : ∀ (b : LBuf), (∀ o ∈ ops, o.isWrite = true) → ops ≠ [] →
    (0 < b.limit ∧ b.limit < opsSize ops + b.len) →
    b.runStop ops = (b.reset, true) := by
  induction ops with
  | nil => intro b _ h; exact absurd rfl h
  | cons o t ih =>
    intro b hw _ hover
    have ho : o.isWrite = true := hw o (by simp)
    simp only [LBuf.runStop, LBuf.apply_write b o ho]
    by_cases h1 : 0 < b.limit ∧ b.limit < o.size + b.len
    · simp [h1]
    · simp only [if_neg h1]
      by_cases ht : t = []
      · subst ht; simp only [opsSize] at hover; omega
      · have := ih { b with len := b.len + o.size } (fun x hx => hw x (by simp [hx])) ht
          (by simp only [opsSize] at hover; simp only; omega)
        simp [this, LBuf.reset]

/-! ### Sequencing -/

theorem OutBuf.apply_limit (b : OutBuf) (o : Op) : (b.apply o).1.limit = b.limit := by
  cases ho : o.isWrite
  · cases o <;> simp [Op.isWrite] at ho
    rfl
  · rw [apply_write b o ho]; split <;> rfl

theorem OutBuf.runStop_limit (ops : List Op) : ∀ b : OutBuf, (b.runStop ops).1.limit = b.limit := by
  induction ops with
  | nil => intro b; rfl
  | cons o t ih =>
    intro b
    simp only [runStop]
    split
    · exact apply_limit b o
    · rw [ih, apply_limit]

theorem OutBuf.runStop_append (pre rest : List Op) : ∀ b : OutBuf, (b.runStop pre).2 = false →
    b.runStop (pre ++ rest) = (b.runStop pre).1.runStop rest := by
  induction pre with
  | nil => intro b _; rfl
  | cons o t ih =>
    intro b h
    simp only [runStop, List.cons_append] at h ⊢
    by_cases hf : (b.apply o).2 = true
    · simp [hf] at h
    · simp only [hf] at h ⊢
      exact ih _ (by simpa using h)

/-! ### `prepareMessage` evaluated -/

theorem prepare_of_over (limit : Nat) (ops : List Op) (hw : ∀ o ∈ ops, o.isWrite = true) (hne : ops ≠ [])
    (h : 0 < limit ∧ limit < 4 + opsSize ops) : prepare limit ops = .err .tooLarge := by
  have := OutBuf.runStop_err ops (OutBuf.new limit) hw hne
    (by show 0 < limit ∧ limit < opsSize ops + 4; omega)
  simp only [prepare, this, if_true]

theorem prepare_of_fits (limit : Nat) (ops : List Op) (hw : ∀ o ∈ ops, o.isWrite = true)
    (h : ¬ (0 < limit ∧ limit < 4 + opsSize ops)) :
    prepare limit ops = .ok (be32 (opsSize ops) ++ opsPayload ops) := by
  have := OutBuf.runStop_ok ops (OutBuf.new limit) hw
    (by show ¬ (0 < limit ∧ limit < opsSize ops + 4); omega)
  simp only [prepare, this]
  simp [bytes, len, OutBuf.new, framePlaceholder, opsSize_eq]

theorem prepareLen_of_over (limit : Nat) (ops : List Op) (hw : ∀ o ∈ ops, o.isWrite = true) (hne : ops ≠ [])
    (h : 0 < limit ∧ limit < 4 + opsSize ops) : prepareLen limit ops = .err .tooLarge := by
  have := LBuf.runStop_err ops (LBuf.new limit) hw hne
    (by show 0 < limit ∧ limit < opsSize ops + 4; omega)
  simp only [prepareLen, this, if_true]

theorem prepareLen_of_fits (limit : Nat) (ops : List Op) (hw : ∀ o ∈ ops, o.isWrite = true)
    (h : ¬ (0 < limit ∧ limit < 4 + opsSize ops)) :
    prepareLen limit ops = .ok (4 + opsSize ops) := by
  have := LBuf.runStop_ok ops (LBuf.new limit) hw
    (by show ¬ (0 < limit ∧ limit < opsSize ops + 4); omega)
  simp only [prepareLen, this]
  simp [LBuf.new]

/-- A server reply on a fresh buffer of limit `r`. -/
theorem LBuf.reply_over (r : Nat) (rep : List Op) (hw : ∀ o ∈ rep, o.isWrite = true) (hne : rep ≠ [])
    (h : 0 < r ∧ r < 4 + opsSize rep) : (LBuf.new r).runStop rep = (LBuf.new r, true) :=
  LBuf.runStop_err rep (LBuf.new r) hw hne (by show 0 < r ∧ r < opsSize rep + 4; omega)

theorem LBuf.reply_fits (r : Nat) (rep : List Op) (hw : ∀ o ∈ rep, o.isWrite = true)
    (h : ¬ (0 < r ∧ r < 4 + opsSize rep)) : (LBuf.new r).runStop rep = (⟨r, 4 + opsSize rep⟩, false) :=
  LBuf.runStop_ok rep (LBuf.new r) hw (by show ¬ (0 < r ∧ r < opsSize rep + 4); omega)

/-! ### The payload-limit header: format (client) and parse (handler) -/

theorem digitVal_digitChar (d : Nat) (h : d < 10) : digitVal (digitChar d) = some d := by
  have : d = 0 ∨ d = 1 ∨ d = 2 ∨ d = 3 ∨ d = 4 ∨ d = 5 ∨ d = 6 ∨ d = 7 ∨ d = 8 ∨ d = 9 := by omega
  rcases this with rfl | rfl | rfl | rfl | rfl | rfl | rfl | rfl | rfl | rfl <;> decide

theorem digitChar_not_sign (d : Nat) (h : d < 10) : digitChar d ≠ '-' ∧ digitChar d ≠ '+' := by
  have : d = 0 ∨ d = 1 ∨ d = 2 ∨ d = 3 ∨ d = 4 ∨ d = 5 ∨ d = 6 ∨ d = 7 ∨ d = 8 ∨ d = 9 := by omega
  rcases this with rfl | rfl | rfl | rfl | rfl | rfl | rfl | rfl | rfl | rfl <;> decide

def valueOf (a : Nat) (l : List Nat) : Nat := l.foldl (fun a d => a * 10 + d) a

theorem digitsAux_lt (fuel : Nat) : ∀ (n : Nat) (acc : List Nat), (∀ d ∈ acc, d < 10) →
    ∀ d ∈ digitsAux fuel n acc, d < 10 := by
  induction fuel with
  | zero => intro n acc h; simpa [digitsAux] using h
  | succ f ih =>
    intro n acc h
    simp only [digitsAux]
    split
    · intro d hd
      simp at hd
      rcases hd with rfl | hd
      · assumption
      · exact h d hd
    · apply ih
      intro d hd
      simp at hd
      rcases hd with rfl | hd
      · omega
      · exact h d hd

theorem digitsAux_value (fuel : Nat) : ∀ (n : Nat) (acc : List Nat), n < fuel →
    valueOf 0 (digitsAux fuel n acc) = valueOf n acc := by
  induction fuel with
  | zero => intro n acc h; omega
  | succ f ih =>
    intro n acc h
    simp only [digitsAux]
    split
    · simp [valueOf]
    · rw [ih (n / 10) _ (by omega)]
      simp only [valueOf, List.foldl_cons]
      congr 1
      omega

theorem digitsAux_ne_nil (fuel : Nat) : ∀ (n : Nat) (acc : List Nat), 0 < fuel → digitsAux fuel n acc ≠ [] := by
  induction fuel with
  | zero => intro n acc h; omega
  | succ f ih =>
    intro n acc _
    simp only [digitsAux]
    split
    · simp
    · cases f with
      | zero => simp [digitsAux]
      | succ g => exact ih _ _ (by omega)

theorem parse_step (l : List Nat) : ∀ a : Nat, (∀ d ∈ l, d < 10) →
    (l.map digitChar).foldl digitStep (some a) = some (valueOf a l) := by
  induction l with
  | nil => intro a _; rfl
  | cons d t ih =>
    intro a h
    simp only [List.map_cons, List.foldl_cons, digitStep, digitVal_digitChar d (h d (by simp))]
    rw [ih _ (fun x hx => h x (by simp [hx]))]
    rfl

/-- The handler reads back exactly the limit the client formatted. -/
theorem parseDigits_formatUint (n : Nat) : parseDigits (formatUint n) = some n := by
  have hlt := digitsAux_lt (n + 1) n [] (by simp)
  have hval := digitsAux_value (n + 1) n [] (by omega)
  have hne := digitsAux_ne_nil (n + 1) n [] (by omega)
  unfold formatUint digits
  cases hd : digitsAux (n + 1) n [] with
  | nil => exact absurd hd hne
  | cons d t =>
    rw [hd] at hlt hval
    have := parse_step (d :: t) 0 hlt
    simp only [List.map_cons] at this ⊢
    simp only [parseDigits]
    rw [this, hval]
    rfl

theorem parseInt64_formatUint (n : Nat) : parseInt64 (formatUint n) = inInt64 false n := by
  have hlt := digitsAux_lt (n + 1) n [] (by simp)
  have hne := digitsAux_ne_nil (n + 1) n [] (by omega)
  have hp := parseDigits_formatUint n
  unfold formatUint digits at hp ⊢
  cases hd : digitsAux (n + 1) n [] with
  | nil => exact absurd hd hne
  | cons d t =>
    rw [hd] at hlt hp
    have hs := digitChar_not_sign d (hlt d (by simp))
    simp only [List.map_cons] at hp ⊢
    simp only [parseInt64, if_neg hs.1, if_neg hs.2, hp, Option.bind]

/-- For a limit the handler's `int64` can hold, the status depends on sizes alone. -/
theorem handlerStatus_limit (r n : Nat) (hr : r ≤ int64Max) :
    handlerStatus (limitHeader r) n = if 0 < r ∧ r < n then 413 else 200 := by
  unfold limitHeader
  by_cases h0 : 0 < r
  · have hne : formatUint r ≠ [] := by
      intro h
      have := parseDigits_formatUint r
      rw [h] at this
      simp [parseDigits] at this
    simp only [h0, if_true, handlerStatus, if_neg hne, parseInt64_formatUint, inInt64, hr, true_and]
    simp only [Bool.false_eq_true, if_false]
    by_cases hn : r < n
    · have : (0 : Int) < (r : Int) ∧ (r : Int) < (n : Int) := by omega
      have h2 : 0 < r ∧ r < n := ⟨h0, hn⟩
      rw [if_pos this, if_pos hn]
    · have : ¬ ((0 : Int) < (r : Int) ∧ (r : Int) < (n : Int)) := by omega
      have h2 : ¬ (0 < r ∧ r < n) := by omega
      rw [if_neg this, if_neg hn]
  · have : r = 0 := by omega
    subst this
    simp [handlerStatus]

/-- A limit above `MaxInt64` (the client's `uint` can hold it, the handler's `int64` cannot): 400. -/
theorem handlerStatus_above_int64 (r n : Nat) (hr : int64Max < r) : handlerStatus (limitHeader r) n = 400 := by
  have h0 : 0 < r := by unfold int64Max at hr; omega
  have hne : formatUint r ≠ [] := by
    intro h
    have := parseDigits_formatUint r
    rw [h] at this
    simp [parseDigits] at this
  have : ¬ r ≤ int64Max := by omega
  simp [limitHeader, h0, handlerStatus, hne, parseInt64_formatUint, inInt64, this]

end FV
