/- Lemmas about the byte-level model of the compact protocol (FV.Model.CompactProtocol): every read call
returns what the mirrored write call was given; the writer's and the reader's field-id state stay in step. -/
import FV.Model.CompactProtocol
import FV.Proofs.BinaryProtocol
import FV.Proofs.CompactVarint
namespace FV.Thrift

theorem readVarint64_uvarint (n : Nat) (rest : Bytes) (h : n < 18446744073709551616) :
    readVarint64 (uvarint n ++ rest) = .ok (n, rest) := by
  simp only [readVarint64, uvarintDec_uvarint, Nat.pow_zero, Nat.mul_one, Nat.zero_add]
  rw [Nat.mod_eq_of_lt h]

theorem readVarint32_uvarint (n : Nat) (rest : Bytes) (h : n < 4294967296) :
    readVarint32 (uvarint n ++ rest) = .ok (n, rest) := by
  simp only [readVarint32, readVarint64_uvarint n rest (by omega)]
  rw [Nat.mod_eq_of_lt h]

theorem cmpReadI32_zigzag (z : Int) (rest : Bytes) (h : -2147483648 ≤ z ∧ z < 2147483648) :
    cmpReadI32 (uvarint (zigzag z) ++ rest) = .ok (z, rest) := by
  simp only [cmpReadI32, readVarint32_uvarint _ rest (zigzag_lt32 z h), zigzag_unzigzag]

theorem cmpReadSize_uvarint (n : Nat) (rest : Bytes) (h : n ≤ maxMessageSize) :
    cmpReadSize (uvarint (n % 4294967296) ++ rest) = .ok (n, rest) := by
  have hm : maxMessageSize = 104857600 := rfl
  have hn : n % 4294967296 = n := Nat.mod_eq_of_lt (by omega)
  rw [hn]
  simp only [cmpReadSize, readVarint32_uvarint n rest (by omega)]
  have e : toI32 n = (n : Int) := by simp only [toI32]; omega
  rw [e]
  simp only [checkSize]
  rw [if_neg (by omega), if_neg (by omega)]
  simp

def InR16 (z : Int) : Prop := -32768 ≤ z ∧ z < 32768

theorem wrap16_id (z : Int) (h : InR16 z) : wrap16 z = z := by
  simp only [InR16] at h
  simp only [wrap16, toS16, toU16]; omega

/-- Decoding a field header: the short form (delta in the high nibble) and the long form
(zigzag varint id) both give back the type of the nibble and the id. -/
theorem cmpRead_fieldHdr (r : CR) (nib tt : Nat) (id : Int) (rest : Bytes)
    (hl : InR16 r.last) (hid : InR16 id) (hn0 : nib ≠ 0) (hn : nib < 16) (htt : ttypeOf nib = some tt) :
    cmpRead r .fieldBegin (cmpFieldHdr r.last nib id ++ rest) =
      .ok (.fb "" tt id, rest, ⟨r.stack, id, if nib = 1 ∨ nib = 2 then some (nib = 1) else r.bool⟩) := by
  simp only [InR16] at hl hid
  simp only [cmpFieldHdr]
  split
  · rename_i hs
    have hb : (UInt8.ofNat ((id - r.last).toNat * 16 + nib)).toNat = (id - r.last).toNat * 16 + nib :=
      u8_small _ (by omega)
    simp only [List.cons_append, List.nil_append, cmpRead, hb]
    have h1 : ((id - r.last).toNat * 16 + nib) % 16 = nib := by omega
    have h2 : ((id - r.last).toNat * 16 + nib) / 16 = (id - r.last).toNat := by omega
    rw [h1, h2, if_neg hn0, if_neg (by omega)]
    simp only [htt]
    have : wrap16 (wrap16 r.last + ((id - r.last).toNat : Nat)) = id := by
      rw [wrap16_id r.last hl, wrap16_id _ (by simp only [InR16]; omega)]; omega
    rw [this]
  · rename_i hs
    have hb : (UInt8.ofNat nib).toNat = nib := u8_small _ (by omega)
    simp only [List.cons_append, cmpRead, hb]
    have h1 : nib % 16 = nib := by omega
    have h2 : nib / 16 = 0 := by omega
    rw [h1, h2, if_neg hn0, if_pos rfl, cmpReadI32_zigzag id rest (by omega)]
    simp only [htt, wrap16_id id hid]


theorem ctype_lt (tt : Nat) : ctype tt < 16 := by
  unfold ctype; split <;> omega

theorem uvarint_zero : uvarint 0 = [0] := by
  rw [uvarint]; simp

/-- Writer and reader states agree between calls (no bool field header pending). -/
structure CRel (w : CW) (r : CR) : Prop where
  stack : r.stack = w.stack
  last : r.last = w.last
  pend : w.pend = none
  bool : r.bool = none
  lastR : InR16 w.last
  stackR : ∀ x ∈ w.stack, InR16 x

theorem cmpReadColl_hdr (mk : Nat → Nat → Event) (r : CR) (tt n : Nat) (rest : Bytes)
    (ht : cmpTT tt) (hn : n ≤ maxMessageSize) :
    cmpReadColl mk r (cmpCollHdr tt n ++ rest) = .ok (mk tt n, rest, r) := by
  have hc := ctype_lt tt
  simp only [cmpTT] at ht
  simp only [cmpCollHdr]
  split
  · rename_i hs
    have hb : (UInt8.ofNat (n * 16 + ctype tt)).toNat = n * 16 + ctype tt := u8_small _ (by omega)
    simp only [List.cons_append, List.nil_append, cmpReadColl, hb]
    have h1 : (n * 16 + ctype tt) % 16 = ctype tt := by omega
    have h2 : (n * 16 + ctype tt) / 16 = n := by omega
    rw [h1, h2, if_neg (by omega)]
    simp only [ht]
  · rename_i hs
    have hb : (UInt8.ofNat (240 + ctype tt)).toNat = 240 + ctype tt := u8_small _ (by omega)
    simp only [List.cons_append, cmpReadColl, hb]
    have h1 : (240 + ctype tt) % 16 = ctype tt := by omega
    have h2 : (240 + ctype tt) / 16 = 15 := by omega
    rw [h1, h2, if_pos rfl, cmpReadSize_uvarint n rest hn]
    simp only [ht]

theorem cmpReadStr_enc (flag : Bool) (r : CR) (b rest : Bytes) (h : b.length ≤ maxMessageSize) :
    cmpReadStr flag r (uvarint (b.length % 4294967296) ++ b ++ rest) = .ok (.str flag b, rest, r) := by
  simp only [cmpReadStr, List.append_assoc, cmpReadSize_uvarint b.length _ h, readN_append b.length b rest rfl]

/-- One write call (other than the header of a bool field) and the read call that mirrors it. -/
theorem cmp_step (w w' : CW) (r : CR) (e : Event) (bs rest : Bytes) (hrel : CRel w r)
    (hfit : CmpFits e) (hnb : ∀ nm id, e ≠ .fb nm 2 id) (hw : cmpWrite w e = .ok (bs, w')) :
    ∃ r', cmpRead r (callOf e) (bs ++ rest) = .ok (cmpErase e, rest, r') ∧ CRel w' r' := by
  obtain ⟨hst, hla, hpe, hbo, hlr, hsr⟩ := hrel
  cases e with
  | sb nm =>
    simp only [cmpWrite] at hw; cases hw
    refine ⟨_, rfl, ⟨?_, rfl, hpe, hbo, ?_, ?_⟩⟩
    · simp [hst, hla]
    · simp [InR16]
    · intro x hx
      simp only [List.mem_cons] at hx
      rcases hx with rfl | hx
      · exact hlr
      · exact hsr x hx
  | se =>
    simp only [cmpWrite] at hw
    split at hw
    · cases hw
    · rename_i l s hs
      cases hw
      simp only [callOf, cmpRead, hst, hs, List.nil_append, cmpErase]
      refine ⟨_, rfl, ⟨rfl, rfl, hpe, hbo, ?_, ?_⟩⟩
      · exact hsr l (by simp [hs])
      · intro x hx; exact hsr x (by simp [hs, hx])
  | fe => simp only [cmpWrite] at hw; cases hw; exact ⟨r, rfl, ⟨hst, hla, hpe, hbo, hlr, hsr⟩⟩
  | me => simp only [cmpWrite] at hw; cases hw; exact ⟨r, rfl, ⟨hst, hla, hpe, hbo, hlr, hsr⟩⟩
  | le => simp only [cmpWrite] at hw; cases hw; exact ⟨r, rfl, ⟨hst, hla, hpe, hbo, hlr, hsr⟩⟩
  | te => simp only [cmpWrite] at hw; cases hw; exact ⟨r, rfl, ⟨hst, hla, hpe, hbo, hlr, hsr⟩⟩
  | fs =>
    simp only [cmpWrite] at hw; cases hw
    exact ⟨r, by simp [callOf, cmpRead, cmpErase], ⟨hst, hla, hpe, hbo, hlr, hsr⟩⟩
  | fb nm tt id =>
    obtain ⟨h1, h2, h3, h4⟩ := hfit
    have hne : tt ≠ 2 := fun h => hnb nm id (by rw [h])
    simp only [cmpWrite, if_neg hne] at hw; cases hw
    have hrd := cmpRead_fieldHdr r (ctype tt) tt id rest (by rw [hla]; exact hlr) ⟨h3, h4⟩ h2 (ctype_lt tt) h1
    have hnbool : ¬ (ctype tt = 1 ∨ ctype tt = 2) := by
      intro h
      simp only [cmpTT] at h1
      rcases h with h | h <;> (rw [h] at h1; simp [ttypeOf] at h1; exact hne h1.symm)
    rw [if_neg hnbool, hla] at hrd
    exact ⟨_, hrd, ⟨hst, rfl, hpe, hbo, ⟨h3, h4⟩, hsr⟩⟩
  | mb kt vt n =>
    obtain ⟨h1, h2, h3⟩ := hfit
    have hck := ctype_lt kt
    have hcv := ctype_lt vt
    simp only [cmpTT] at h1 h2
    simp only [cmpWrite] at hw
    split at hw
    · rename_i hn; subst hn; cases hw
      refine ⟨r, ?_, ⟨hst, hla, hpe, hbo, hlr, hsr⟩⟩
      have := cmpReadSize_uvarint 0 rest (by simp [maxMessageSize])
      simp only [Nat.zero_mod, uvarint_zero] at this
      simp only [callOf, cmpRead, this, if_pos, cmpErase]
    · rename_i hn; cases hw
      refine ⟨r, ?_, ⟨hst, hla, hpe, hbo, hlr, hsr⟩⟩
      have hb : (UInt8.ofNat (ctype kt * 16 + ctype vt)).toNat = ctype kt * 16 + ctype vt := u8_small _ (by omega)
      have e1 : (ctype kt * 16 + ctype vt) / 16 = ctype kt := by omega
      have e2 : (ctype kt * 16 + ctype vt) % 16 = ctype vt := by omega
      simp only [callOf, cmpRead, List.append_assoc, cmpReadSize_uvarint n _ h3, if_neg hn, List.cons_append,
        List.nil_append, hb, e1, e2, h1, h2, Option.getD_some]
      cases n with
      | zero => exact absurd rfl hn
      | succ k => rfl
  | lb tt n =>
    simp only [cmpWrite] at hw; cases hw
    exact ⟨r, cmpReadColl_hdr _ r tt n rest hfit.1 hfit.2, ⟨hst, hla, hpe, hbo, hlr, hsr⟩⟩
  | tb tt n =>
    simp only [cmpWrite] at hw; cases hw
    exact ⟨r, cmpReadColl_hdr _ r tt n rest hfit.1 hfit.2, ⟨hst, hla, hpe, hbo, hlr, hsr⟩⟩
  | bool b =>
    simp only [cmpWrite, hpe] at hw; cases hw
    refine ⟨r, ?_, ⟨hst, hla, hpe, hbo, hlr, hsr⟩⟩
    cases b <;> simp [callOf, cmpRead, hbo, cmpErase]
  | byte n =>
    simp only [cmpWrite] at hw; cases hw
    refine ⟨r, ?_, ⟨hst, hla, hpe, hbo, hlr, hsr⟩⟩
    simp only [callOf, cmpRead, List.cons_append, List.nil_append, cmpErase]
    rw [u8_small _ (by simp only [toU8]; omega), toS8_toU8 n hfit]
  | i16 n =>
    simp only [cmpWrite] at hw; cases hw
    refine ⟨r, ?_, ⟨hst, hla, hpe, hbo, hlr, hsr⟩⟩
    simp only [CmpFits] at hfit
    simp only [callOf, cmpRead, cmpReadI32_zigzag n rest (by omega), wrap16_id n hfit, cmpErase]
  | i32 n =>
    simp only [cmpWrite] at hw; cases hw
    refine ⟨r, ?_, ⟨hst, hla, hpe, hbo, hlr, hsr⟩⟩
    simp only [callOf, cmpRead, cmpReadI32_zigzag n rest hfit, cmpErase]
  | i64 n =>
    simp only [cmpWrite] at hw; cases hw
    refine ⟨r, ?_, ⟨hst, hla, hpe, hbo, hlr, hsr⟩⟩
    simp only [callOf, cmpRead, readVarint64_uvarint _ rest (zigzag_lt64 n hfit), zigzag_unzigzag, cmpErase]
  | dbl bits =>
    simp only [cmpWrite] at hw; cases hw
    refine ⟨r, ?_, ⟨hst, hla, hpe, hbo, hlr, hsr⟩⟩
    have p8 : (256 : Nat) ^ 8 = 18446744073709551616 := by decide
    simp only [callOf, cmpRead, readN_append 8 _ rest (leBytes_length 8 bits), leNat_leBytes, cmpErase]
    rw [p8, Nat.mod_eq_of_lt hfit]
  | str flag b =>
    simp only [cmpWrite] at hw; cases hw
    refine ⟨r, ?_, ⟨hst, hla, hpe, hbo, hlr, hsr⟩⟩
    cases flag <;> simp only [callOf, cmpRead, cmpErase] <;> exact cmpReadStr_enc _ r b rest hfit


/-- The header of a bool field and its value: nothing is written at `WriteFieldBegin`, the header
carrying the value is written at `WriteBool`; `ReadFieldBegin` decodes it and keeps the value for
the `ReadBool` that follows. -/
theorem cmp_step_boolfield (w : CW) (r : CR) (id : Int) (b : Bool) (rest : Bytes) (hrel : CRel w r)
    (hid : InR16 id) :
    ∃ r1 r2, cmpRead r .fieldBegin (cmpFieldHdr w.last (if b then 1 else 2) id ++ rest) = .ok (.fb "" 2 id, rest, r1) ∧
      cmpRead r1 .bool rest = .ok (.bool b, rest, r2) ∧ CRel { w with last := id, pend := none } r2 := by
  obtain ⟨hst, hla, hpe, hbo, hlr, hsr⟩ := hrel
  have hrd := cmpRead_fieldHdr r (if b then 1 else 2) 2 id rest (by rw [hla]; exact hlr) hid
    (by cases b <;> simp) (by cases b <;> simp) (by cases b <;> simp [ttypeOf])
  rw [hla] at hrd
  refine ⟨_, ⟨r.stack, id, none⟩, hrd, ?_, ⟨hst, rfl, rfl, rfl, hid, hsr⟩⟩
  cases b <;> simp [cmpRead]

theorem cmpEnc_cons (w : CW) (e : Event) (es : List Event) (bs : Bytes) (w'' : CW)
    (h : cmpEnc w (e :: es) = .ok (bs, w'')) :
    ∃ b w' bs', cmpWrite w e = .ok (b, w') ∧ cmpEnc w' es = .ok (bs', w'') ∧ bs = b ++ bs' := by
  simp only [cmpEnc] at h
  split at h
  · rename_i b w' hb
    split at h
    · rename_i bs' w2 hbs
      cases h
      exact ⟨b, w', bs', hb, hbs, rfl⟩
    · cases h
    · cases h
  · cases h
  · cases h

/-- Reading with the calls that mirror the writer's calls returns the written events (minus what the
protocol does not carry) and leaves exactly what followed the encoding; the protocol states agree
again afterwards. -/
theorem cmpReads_cmpEnc : ∀ (es : List Event) (w w' : CW) (r : CR) (bs rest : Bytes),
    CRel w r → CmpOK es → cmpEnc w es = .ok (bs, w') →
    ∃ r', cmpReads r (es.map callOf) (bs ++ rest) = .ok (es.map cmpErase, rest, r') ∧ CRel w' r' := by
  intro es
  induction es using cmpOKb.induct with
  | case1 =>
    intro w w' r bs rest hrel _ henc
    simp only [cmpEnc] at henc; cases henc
    exact ⟨r, rfl, hrel⟩
  | case2 nm id b es ih =>
    intro w w' r bs rest hrel hok henc
    simp only [CmpOK, cmpOKb, Bool.and_eq_true, decide_eq_true_eq] at hok
    obtain ⟨b1, w1, bs1, hw1, henc1, rfl⟩ := cmpEnc_cons _ _ _ _ _ henc
    obtain ⟨b2, w2, bs2, hw2, henc2, rfl⟩ := cmpEnc_cons _ _ _ _ _ henc1
    simp only [cmpWrite, if_pos] at hw1; cases hw1
    simp only [cmpWrite] at hw2; cases hw2
    obtain ⟨r1, r2, hr1, hr2, hrel2⟩ := cmp_step_boolfield w r id b (bs2 ++ rest) hrel hok.1
    obtain ⟨r', hr', hrel'⟩ := ih _ w' r2 bs2 rest hrel2 hok.2 henc2
    refine ⟨r', ?_, hrel'⟩
    simp only [List.map_cons, callOf, cmpReads, List.nil_append, List.append_assoc, hr1, hr2, hr', cmpErase]
  | case3 nm id tail hnot =>
    intro w w' r bs rest _ hok _
    exfalso
    simp only [CmpOK] at hok
    cases tail with
    | nil => simp [cmpOKb] at hok
    | cons e t =>
      cases e <;> simp [cmpOKb] at hok
      exact hnot _ _ rfl
  | case4 e es h1 h2 ih =>
    intro w w' r bs rest hrel hok henc
    have hok' : CmpFits e ∧ CmpOK es := by
      simp only [CmpOK] at hok ⊢
      rw [cmpOKb] at hok
      · simpa using hok
      · intro nm id b es' he _; exact h2 nm id he
      · intro nm id he; exact h2 nm id he
    obtain ⟨b1, w1, bs1, hw1, henc1, rfl⟩ := cmpEnc_cons _ _ _ _ _ henc
    obtain ⟨r1, hr1, hrel1⟩ := cmp_step w w1 r e b1 (bs1 ++ rest) hrel hok'.1 (fun nm id he => h2 nm id he) hw1
    obtain ⟨r', hr', hrel'⟩ := ih w1 w' r1 bs1 rest hrel1 hok'.2 henc1
    refine ⟨r', ?_, hrel'⟩
    simp only [List.map_cons, cmpReads, List.append_assoc, hr1, hr']

theorem CRel_init : CRel CW.init CR.init :=
  ⟨rfl, rfl, rfl, rfl, by simp [InR16, CW.init], by intro x hx; simp [CW.init] at hx⟩

end FV.Thrift
