/-
The `Literal` rule of the regenerated grammar (both quote styles).
-/
import FV.Proofs.PegFields

namespace FV.PegIdl
open FV.Peg FV.Generated FV.Act FV.Syn

/-- The body of a written literal with quote `q` is scanned by `(\q / [^q])*` up to its end and not
beyond: no bare `q` inside, and it does not end in a backslash that would pair with the closing quote. -/
def litBodyOk (q : Char) : List Char → Bool
  | [] => true
  | [c] => c != q && c != '\\'
  | c :: c2 :: r2 =>
    if c = '\\' then (if c2 = q then litBodyOk q r2 else litBodyOk q (c2 :: r2))
    else (c != q && litBodyOk q (c2 :: r2))

def litItemE (q : Char) : Expr := .choice [.lit ['\\', q] false, .cls [q] [] true false]

theorem litItem_single (q c : Char) (x : List Char) (hcq : c ≠ q) (hpair : c = '\\' → HeadP (fun d => d ≠ q) x) :
    ParsesTo grammar (litItemE q) (c :: x) (.text [c]) x 5 := by
  have hf : FailsOn grammar (.lit ['\\', q] false) (c :: x) 1 := by
    refine FailsOn.lit ?_
    by_cases hc : c = '\\'
    · subst hc
      cases x with
      | nil => simp [matchLit]
      | cons d r => have := hpair rfl d r rfl; simp [matchLit, this]
    · simp [matchLit, hc]
  have hcl : ParsesTo grammar (.cls [q] [] true false) (c :: x) (.text [c]) x 1 := ParsesTo.cls (by simp [clsMatches, inRanges, hcq])
  exact ParsesTo.choice (ChoiceRun.tail hf (ChoiceRun.head (es := []) hcl))

theorem litItem_pair (q : Char) (x : List Char) : ParsesTo grammar (litItemE q) ('\\' :: q :: x) (.text ['\\', q]) x 5 :=
  ParsesTo.choice (ChoiceRun.head (by simpa using ParsesTo.lit_append (g := grammar) ['\\', q] x))

theorem litItem_stop (q : Char) (hq : q ≠ '\\') (next : List Char) : FailsOn grammar (litItemE q) (q :: next) 5 := by
  refine (FailsOn.choice (k := 1) (es := [.lit ['\\', q] false, .cls [q] [] true false]) ?_).mono (by simp)
  intro e he
  simp only [List.mem_cons, List.mem_nil_iff, or_false] at he
  rcases he with rfl | rfl
  · exact FailsOn.lit (by simp [matchLit, hq])
  · exact FailsOn.cls (by simp [clsMatches, inRanges])

theorem litBody_run (q : Char) (hq : q ≠ '\\') (next : List Char) : ∀ (n : Nat) (body : List Char), body.length ≤ n → litBodyOk q body = true →
    ∃ ts, StarRun grammar (litItemE q) 5 (body ++ q :: next) ts (q :: next) ∧ ts.length ≤ body.length := by
  intro n
  induction n with
  | zero =>
    intro body hl _
    have : body = [] := by cases body <;> simp_all
    subst this
    exact ⟨[], .done (litItem_stop q hq next), by simp⟩
  | succ n ih =>
    intro body hl hok
    match body, hl, hok with
    | [], _, _ => exact ⟨[], .done (litItem_stop q hq next), by simp⟩
    | [c], _, hok =>
      simp only [litBodyOk, Bool.and_eq_true, bne_iff_ne, ne_eq] at hok
      have hp := litItem_single q c (q :: next) hok.1 (fun h => absurd h hok.2)
      exact ⟨[.text [c]], .step hp (.done (litItem_stop q hq next)), by simp⟩
    | c :: c2 :: r2, hl, hok =>
      simp only [litBodyOk] at hok
      by_cases hc : c = '\\'
      · subst hc
        simp only [if_true] at hok
        by_cases h2 : c2 = q
        · subst h2
          simp only [if_true] at hok
          obtain ⟨ts, hr, hlen⟩ := ih r2 (by simp at hl; omega) hok
          exact ⟨_ :: ts, .step (litItem_pair c2 (r2 ++ c2 :: next)) hr, by simp; omega⟩
        · simp only [h2, if_false] at hok
          obtain ⟨ts, hr, hlen⟩ := ih (c2 :: r2) (by simp at hl ⊢; omega) hok
          have hp := litItem_single q '\\' (c2 :: r2 ++ q :: next) (Ne.symm hq) (fun _ => HeadP.cons h2)
          exact ⟨_ :: ts, .step hp hr, by simp at hlen ⊢; omega⟩
      · simp only [hc, if_false, Bool.and_eq_true, bne_iff_ne, ne_eq] at hok
        obtain ⟨ts, hr, hlen⟩ := ih (c2 :: r2) (by simp at hl ⊢; omega) hok.2
        have hp := litItem_single q c (c2 :: r2 ++ q :: next) hok.1 (fun h => absurd h hc)
        exact ⟨_ :: ts, .step hp hr, by simp at hlen ⊢; omega⟩

/-- The two quote characters. -/
def IsQuote (q : Char) : Prop := q = '"' ∨ q = '\''

/-- `Literal` consumes exactly `q` body `q`. -/
theorem literal_parses (q : Char) (hq : IsQuote q) (body next : List Char) (hok : litBodyOk q body = true) :
    ParsesTo grammar (.ref "Literal") (q :: body ++ q :: next) (.act "Literal1" (q :: body ++ [q])
      (.seq [.text [q], .seq (Classical.choose (litBody_run q (by rcases hq with rfl | rfl <;> decide) next body.length body (Nat.le_refl _) hok)), .text [q]]))
      next (2 * body.length + 20) := by
  have hqb : q ≠ '\\' := by rcases hq with rfl | rfl <;> decide
  have hsp := Classical.choose_spec (litBody_run q hqb next body.length body (Nat.le_refl _) hok)
  have h1 : ParsesTo grammar (.lit [q] false) (q :: body ++ q :: next) (.text [q]) (body ++ q :: next) (body.length + 8) :=
    (ParsesTo.lit_append [q] _).mono (by omega)
  have h2 := (ParsesTo.star hsp.1).mono (by have := hsp.2; omega : _ ≤ body.length + 8)
  have h3 : ParsesTo grammar (.lit [q] false) (q :: next) (.text [q]) next (body.length + 8) := (ParsesTo.lit_append [q] next).mono (by omega)
  have hs := ParsesTo.seq (SeqRun.cons h1 (SeqRun.cons h2 (SeqRun.cons h3 SeqRun.nil)))
  have hcons : consumed (q :: body ++ q :: next) next = q :: body ++ [q] := consumed_of_eq _ _ _ (by simp)
  rcases hq with rfl | rfl
  · have hc := ParsesTo.act (tag := "Literal1") (ParsesTo.choice (ChoiceRun.head (es := [.seq [.lit ['\''] false,
      .star (.choice [.lit ['\\', '\''] false, .cls ['\''] [] true false]), .lit ['\''] false]]) hs))
    rw [hcons] at hc
    exact (ParsesTo.ref lk_Literal (by rw [rule_Literal]; exact hc)).mono (by simp; omega)
  · have hf : FailsOn grammar (.seq [.lit ['"'] false, .star (.choice [.lit ['\\', '"'] false, .cls ['"'] [] true false]), .lit ['"'] false])
        ('\'' :: body ++ '\'' :: next) (3 + (body.length + 8) + 2) :=
      (FailsOn.seq (k := 1) (SeqFail.head (FailsOn.lit (by simp [matchLit])))).mono (by simp; omega)
    have hc := ParsesTo.act (tag := "Literal1") (ParsesTo.choice (ChoiceRun.tail hf (ChoiceRun.head (es := []) hs)))
    rw [hcons] at hc
    exact (ParsesTo.ref lk_Literal (by rw [rule_Literal]; exact hc)).mono (by simp; omega)

/-- Existential form: the rule consumes exactly the written literal; the action sees its text. -/
theorem literal_exact (q : Char) (hq : IsQuote q) (body next : List Char) (hok : litBodyOk q body = true) :
    ∃ t, ParsesTo grammar (.ref "Literal") (q :: body ++ q :: next) t next (2 * body.length + 20) ∧
      tagOf t = "Literal1" ∧ textOf t = q :: body ++ [q] :=
  ⟨_, literal_parses q hq body next hok, rfl, rfl⟩

/-! ### double-quoted rendering of a value -/

/-- How a character of the value is written between double quotes. -/
def escDQ (c : Char) : List Char :=
  if c = '"' then ['\\', '"'] else if c = '\\' then ['\\', '\\'] else if c = '\n' then ['\\', 'n']
  else if c = '\t' then ['\\', 't'] else if c = '\r' then ['\\', 'r'] else [c]

def renderDQ : List Char → List Char
  | [] => []
  | c :: r => escDQ c ++ renderDQ r

/-- `strconv.Unquote` gives the value back. -/
theorem unquote_renderDQ : ∀ (v acc : List Char), unquoteBody (renderDQ v) acc = .ok (acc.reverse ++ v) := by
  intro v
  induction v with
  | nil => intro acc; simp [renderDQ, unquoteBody]
  | cons c r ih =>
    intro acc
    by_cases h1 : c = '"'
    · subst h1; simp [renderDQ, escDQ, unquoteBody, ih]
    · by_cases h2 : c = '\\'
      · subst h2; simp [renderDQ, escDQ, unquoteBody, ih]
      · by_cases h3 : c = '\n'
        · subst h3; simp [renderDQ, escDQ, unquoteBody, ih]
        · by_cases h4 : c = '\t'
          · subst h4; simp [renderDQ, escDQ, unquoteBody, ih]
          · by_cases h5 : c = '\r'
            · subst h5; simp [renderDQ, escDQ, unquoteBody, ih]
            · simp [renderDQ, escDQ, h1, h2, h3, h4, h5, unquoteBody, ih]

theorem literalValue_renderDQ (v : List Char) : literalValue ('"' :: renderDQ v ++ ['"']) = .ok v := by
  simp [literalValue, unquote_renderDQ]

/-- The value ends in a backslash (the class of the recorded finding literal-trailing-backslash). -/
def endsBS : List Char → Bool
  | [] => false
  | [c] => c == '\\'
  | _ :: c2 :: r2 => endsBS (c2 :: r2)

theorem lbo_cons_ne (q c : Char) (R : List Char) (h1 : c ≠ '\\') (h2 : c ≠ q) : litBodyOk q (c :: R) = litBodyOk q R := by
  cases R with
  | nil => simp [litBodyOk, h1, h2]
  | cons c2 r2 => simp [litBodyOk, h1, h2]

theorem lbo_pair (q : Char) (R : List Char) : litBodyOk q ('\\' :: q :: R) = litBodyOk q R := by
  simp [litBodyOk]

theorem lbo_bs (q c2 : Char) (R : List Char) (h : c2 ≠ q) : litBodyOk q ('\\' :: c2 :: R) = litBodyOk q (c2 :: R) := by
  simp [litBodyOk, h]

theorem renderDQ_ok : ∀ (v : List Char), endsBS v = false →
    litBodyOk '"' (renderDQ v) = true ∧ (v ≠ [] → litBodyOk '"' ('\\' :: renderDQ v) = true) := by
  intro v
  induction v with
  | nil => intro _; exact ⟨rfl, fun h => absurd rfl h⟩
  | cons c r ih =>
    intro hv
    have hr : r ≠ [] → endsBS r = false := by
      intro hne
      cases r with
      | nil => exact absurd rfl hne
      | cons c2 r2 => simpa [endsBS] using hv
    have hA : r = [] ∨ (r ≠ [] ∧ endsBS r = false) := by
      cases r with
      | nil => exact Or.inl rfl
      | cons c2 r2 => exact Or.inr ⟨by simp, hr (by simp)⟩
    have ihA : litBodyOk '"' (renderDQ r) = true := by
      rcases hA with rfl | ⟨_, h⟩
      · rfl
      · exact (ih h).1
    by_cases h1 : c = '"'
    · subst h1
      have e : renderDQ ('"' :: r) = '\\' :: '"' :: renderDQ r := by simp [renderDQ, escDQ]
      rw [e]
      exact ⟨by rw [lbo_pair]; exact ihA, fun _ => by rw [lbo_bs _ _ _ (by decide), lbo_pair]; exact ihA⟩
    · by_cases h2 : c = '\\'
      · subst h2
        have hne : r ≠ [] := by intro e; subst e; simp [endsBS] at hv
        have ihB := (ih (hr hne)).2 hne
        have e : renderDQ ('\\' :: r) = '\\' :: '\\' :: renderDQ r := by simp [renderDQ, escDQ]
        rw [e]
        exact ⟨by rw [lbo_bs _ _ _ (by decide)]; exact ihB, fun _ => by rw [lbo_bs _ _ _ (by decide), lbo_bs _ _ _ (by decide)]; exact ihB⟩
      · by_cases h3 : c = '\n'
        · subst h3
          have e : renderDQ ('\n' :: r) = '\\' :: 'n' :: renderDQ r := by simp [renderDQ, escDQ]
          rw [e]
          exact ⟨by rw [lbo_bs _ _ _ (by decide), lbo_cons_ne _ _ _ (by decide) (by decide)]; exact ihA,
            fun _ => by rw [lbo_bs _ _ _ (by decide), lbo_bs _ _ _ (by decide), lbo_cons_ne _ _ _ (by decide) (by decide)]; exact ihA⟩
        · by_cases h4 : c = '\t'
          · subst h4
            have e : renderDQ ('\t' :: r) = '\\' :: 't' :: renderDQ r := by simp [renderDQ, escDQ]
            rw [e]
            exact ⟨by rw [lbo_bs _ _ _ (by decide), lbo_cons_ne _ _ _ (by decide) (by decide)]; exact ihA,
              fun _ => by rw [lbo_bs _ _ _ (by decide), lbo_bs _ _ _ (by decide), lbo_cons_ne _ _ _ (by decide) (by decide)]; exact ihA⟩
          · by_cases h5 : c = '\r'
            · subst h5
              have e : renderDQ ('\r' :: r) = '\\' :: 'r' :: renderDQ r := by simp [renderDQ, escDQ]
              rw [e]
              exact ⟨by rw [lbo_bs _ _ _ (by decide), lbo_cons_ne _ _ _ (by decide) (by decide)]; exact ihA,
                fun _ => by rw [lbo_bs _ _ _ (by decide), lbo_bs _ _ _ (by decide), lbo_cons_ne _ _ _ (by decide) (by decide)]; exact ihA⟩
            · have e : renderDQ (c :: r) = c :: renderDQ r := by simp [renderDQ, escDQ, h1, h2, h3, h4, h5]
              rw [e]
              exact ⟨by rw [lbo_cons_ne _ _ _ h2 h1]; exact ihA, fun _ => by rw [lbo_bs _ _ _ h1, lbo_cons_ne _ _ _ h2 h1]; exact ihA⟩

end FV.PegIdl
