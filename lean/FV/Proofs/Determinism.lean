/-
Helper lemmas for C19 (order- and location-insensitivity of the modelled patterns).
Core Lean only.
-/
import FV.Model.Determinism
namespace FV.Determinism

-- ---------------------------------------------------------------- sorting
theorem insertBy_perm (le : α → α → Bool) (a : α) (l : List α) : (insertBy le a l).Perm (a :: l) := by
  induction l with
  | nil => exact List.Perm.refl _
  | cons b t ih =>
    simp only [insertBy]
    split
    · exact List.Perm.refl _
    · exact (List.Perm.cons b ih).trans (List.Perm.swap a b t)

theorem sortBy_perm (le : α → α → Bool) (l : List α) : (sortBy le l).Perm l := by
  induction l with
  | nil => exact List.Perm.refl _
  | cons a t ih =>
    show (insertBy le a (sortBy le t)).Perm (a :: t)
    exact (insertBy_perm le a _).trans (List.Perm.cons a ih)

theorem insertBy_sorted (le : α → α → Bool)
    (total : ∀ a b, le a b = true ∨ le b a = true) (trans : ∀ a b c, le a b = true → le b c = true → le a c = true)
    (a : α) (l : List α) (h : l.Pairwise (fun x y => le x y = true)) :
    (insertBy le a l).Pairwise (fun x y => le x y = true) := by
  induction l with
  | nil => simp [insertBy]
  | cons b t ih =>
    simp only [insertBy]
    have hb := List.pairwise_cons.mp h
    split
    · rename_i hab
      refine List.pairwise_cons.mpr ⟨?_, h⟩
      intro c hc
      rcases List.mem_cons.mp hc with rfl | hc
      · exact hab
      · exact trans _ _ _ hab (hb.1 c hc)
    · rename_i hab
      have hba : le b a = true := by
        rcases total a b with h | h
        · exact absurd h hab
        · exact h
      refine List.pairwise_cons.mpr ⟨?_, ih hb.2⟩
      intro c hc
      have := (insertBy_perm le a t).subset hc
      rcases List.mem_cons.mp this with rfl | hc
      · exact hba
      · exact hb.1 c hc

theorem sortBy_sorted (le : α → α → Bool)
    (total : ∀ a b, le a b = true ∨ le b a = true) (trans : ∀ a b c, le a b = true → le b c = true → le a c = true)
    (l : List α) : (sortBy le l).Pairwise (fun x y => le x y = true) := by
  induction l with
  | nil => exact List.Pairwise.nil
  | cons a t ih => exact insertBy_sorted le total trans a _ ih

theorem sortBy_isSortOf (le : α → α → Bool)
    (total : ∀ a b, le a b = true ∨ le b a = true) (trans : ∀ a b c, le a b = true → le b c = true → le a c = true) (l : List α) : IsSortOf le l (sortBy le l) :=
  ⟨sortBy_perm le l, sortBy_sorted le total trans l⟩

/-- a key function that is injective on a list whose keys have no duplicates -/
theorem eq_of_key_eq {key : α → κ} : ∀ {l : List α}, (l.map key).Nodup → ∀ {a b}, a ∈ l → b ∈ l → key a = key b → a = b
  | [], _, _, _, ha, _, _ => by cases ha
  | x :: t, hnd, a, b, ha, hb, hk => by
    simp only [List.map_cons, List.nodup_cons, List.mem_map, not_exists, not_and] at hnd
    rcases List.mem_cons.mp ha with rfl | ha' <;> rcases List.mem_cons.mp hb with rfl | hb'
    · rfl
    · exact absurd hk.symm (hnd.1 b hb')
    · exact absurd hk (hnd.1 a ha')
    · exact eq_of_key_eq hnd.2 ha' hb' hk

/-- two sorted permutations of a list with pairwise distinct keys are equal -/
theorem sorted_perm_unique (key : α → κ) (le : κ → κ → Bool)
    (antisymm : ∀ a b, le a b = true → le b a = true → a = b)
    (l s₁ s₂ : List α) (hnd : (l.map key).Nodup)
    (h₁ : IsSortOf (fun a b => le (key a) (key b)) l s₁) (h₂ : IsSortOf (fun a b => le (key a) (key b)) l s₂) : s₁ = s₂ := by
  refine List.Perm.eq_of_pairwise (le := fun a b => le (key a) (key b) = true) ?_ h₁.2 h₂.2 (h₁.1.trans h₂.1.symm)
  intro a b ha hb hab hba
  exact eq_of_key_eq hnd (h₁.1.subset ha) (h₂.1.subset hb) (antisymm _ _ hab hba)

-- ---------------------------------------------------------------- maps
theorem alookup_some_of_mem [DecidableEq κ] {k : κ} {v : β} :
    ∀ {m : AMap κ β}, (m.map Prod.fst).Nodup → (k, v) ∈ m → alookup k m = some v
  | [], _, h => by cases h
  | (k', v') :: t, hnd, h => by
    simp only [List.map_cons, List.nodup_cons, List.mem_map, not_exists, not_and] at hnd
    simp only [alookup]
    rcases List.mem_cons.mp h with heq | ht
    · cases heq; simp
    · have hne : k' ≠ k := by
        intro e; subst e
        exact hnd.1 (k', v) ht rfl
      simp only [hne, if_false]
      exact alookup_some_of_mem hnd.2 ht

theorem mem_of_alookup_some [DecidableEq κ] {k : κ} {v : β} :
    ∀ {m : AMap κ β}, alookup k m = some v → (k, v) ∈ m
  | [], h => by simp [alookup] at h
  | (k', v') :: t, h => by
    simp only [alookup] at h
    split at h
    · rename_i e; cases h; subst e; exact List.mem_cons_self
    · exact List.mem_cons_of_mem _ (mem_of_alookup_some h)

/-- looking a key up does not depend on the order of the map's entries -/
theorem alookup_perm [DecidableEq κ] (k : κ) {m m' : AMap κ β} (hnd : (m.map Prod.fst).Nodup) (hp : m'.Perm m) :
    alookup k m' = alookup k m := by
  have hnd' : (m'.map Prod.fst).Nodup := (hp.map Prod.fst).nodup_iff.mpr hnd
  cases h : alookup k m with
  | some v =>
    exact alookup_some_of_mem hnd' (hp.symm.subset (mem_of_alookup_some h))
  | none =>
    cases h' : alookup k m' with
    | none => rfl
    | some v =>
      have := alookup_some_of_mem hnd (hp.subset (mem_of_alookup_some h'))
      rw [h] at this; cases this

theorem insert_comm [DecidableEq κ] (m : FMap κ β) (x y : κ × β) (h : x.1 = y.1 → x.2 = y.2) :
    (m.insert x).insert y = (m.insert y).insert x := by
  funext z
  simp only [FMap.insert]
  by_cases hy : z = y.1
  · by_cases hx : z = x.1
    · have e : x.2 = y.2 := h (hx.symm.trans hy)
      simp [hx, e]
    · simp [hy]
      intro e; exact absurd (hy.trans e) hx
  · by_cases hx : z = x.1
    · simp [hx]
      intro e; exact absurd (hx.trans e) hy
    · simp [hx, hy]

/-- inserting the entries of a map in any order gives the same map, extensionally -/
theorem insertAll_perm [DecidableEq κ] (dst : FMap κ β) {l₁ l₂ : List (κ × β)} (hp : l₁.Perm l₂)
    (hfun : ∀ x ∈ l₁, ∀ y ∈ l₁, x.1 = y.1 → x.2 = y.2) : insertAll dst l₁ = insertAll dst l₂ := by
  unfold insertAll
  exact hp.foldl_eq' (fun x hx y hy z => insert_comm z x y (hfun x hx y hy)) dst

theorem functional_of_nodup {l : List (κ × β)} (hnd : (l.map Prod.fst).Nodup) :
    ∀ x ∈ l, ∀ y ∈ l, x.1 = y.1 → x.2 = y.2 := by
  intro x hx y hy hk
  have : ∀ {l : List (κ × β)}, (l.map Prod.fst).Nodup → ∀ {a b}, a ∈ l → b ∈ l → a.1 = b.1 → a = b := by
    intro l
    induction l with
    | nil => intro _ a b ha; cases ha
    | cons c t ih =>
      intro hnd a b ha hb hk
      simp only [List.map_cons, List.nodup_cons, List.mem_map, not_exists, not_and] at hnd
      rcases List.mem_cons.mp ha with rfl | ha' <;> rcases List.mem_cons.mp hb with rfl | hb'
      · rfl
      · exact absurd hk.symm (hnd.1 b hb')
      · exact absurd hk (hnd.1 a ha')
      · exact ih hnd.2 ha' hb' hk
  rw [this hnd hx hy hk]

-- ---------------------------------------------------------------- traversal and locations

theorem genRec_congr (p p' : Prog) (uv : Bool)
    (h1 : ∀ n, orderedIncludes (p'.incs n) = orderedIncludes (p.incs n))
    (h2 : ∀ n k, alookup k (p'.parsed n) = alookup k (p.parsed n)) :
    ∀ fuel n acc, genRec p' uv fuel n acc = genRec p uv fuel n acc := by
  intro fuel
  induction fuel with
  | zero => intro n acc; rfl
  | succ f ih =>
    intro n acc
    simp only [genRec, h1, h2, ih]

theorem absPath_append (cwd : Path) (b : Bool) (p q : Path) : absPath cwd b (p ++ q) = absPath cwd b p ++ q := by
  unfold absPath; split <;> simp [List.append_assoc]

theorem relTo_append (b r : Path) : relTo b (b ++ r) = some r := by
  unfold relTo
  have : b.isPrefixOf (b ++ r) = true := by
    rw [List.isPrefixOf_iff_prefix]; exact List.prefix_append b r
  simp [this]

theorem emittedAbs_eq (i : Invocation) (us : List GenUnit) :
    emittedAbs i us = (emittedRel us).map (fun r => i.outRoot ++ r) := by
  unfold emittedAbs emittedRel Invocation.outRoot outputDir
  induction us with
  | nil => rfl
  | cons u t ih =>
    simp only [List.flatMap_cons, List.map_append, ih, List.map_map]
    congr 1
    apply List.map_congr_left
    intro f _
    simp [absPath_append, List.append_assoc]

-- ---------------------------------------------------------------- the string order

theorem strLe_total (a b : String) : strLe a b = true ∨ strLe b a = true := by
  unfold strLe
  rcases String.le_total a b with h | h
  · exact Or.inl (decide_eq_true h)
  · exact Or.inr (decide_eq_true h)

theorem strLe_trans (a b c : String) (h₁ : strLe a b = true) (h₂ : strLe b c = true) : strLe a c = true := by
  unfold strLe at *
  exact decide_eq_true (String.le_trans (of_decide_eq_true h₁) (of_decide_eq_true h₂))

theorem strLe_antisymm (a b : String) (h₁ : strLe a b = true) (h₂ : strLe b a = true) : a = b := by
  unfold strLe at *
  exact String.le_antisymm (of_decide_eq_true h₁) (of_decide_eq_true h₂)

end FV.Determinism
