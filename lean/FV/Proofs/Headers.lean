/- Lemmas about the header codec model (FV.Model.Headers). -/
import FV.Model.Headers
import FV.Model.Registry0
import FV.Model.Receivers
import FV.Spec.V0Layout
import FV.Proofs.Bytes

namespace FV

/-! ### No panic -/

theorem slice_panic_elim {b : Bytes} {i j : Int} {p : Panic} (h : slice b i j = .panic p) :
    ¬(0 ≤ i ∧ i ≤ j ∧ j ≤ b.length) := by
  unfold slice at h; split at h
  · cases h
  · assumption

theorem readPairs_no_panic (buf : Bytes) (i e : Int) (acc : Hdrs)
    (h0 : 0 ≤ i) (he : e ≤ buf.length) : ∀ p, readPairs buf i e acc ≠ .panic p := by
  fun_induction readPairs buf i e acc
  all_goals (intro p hp)
  all_goals (try (cases hp; done))
  all_goals (try (exact slice_panic_elim ‹slice _ _ _ = Res.panic _› (by omega)))
  · rename_i ih; exact ih (by omega) p hp

theorem unmarshalHeadersFromFrame_ok_bounds {f : Bytes} {h : Hdrs} (hok : unmarshalHeadersFromFrame f = .ok h) :
    4 ≤ f.length ∧ 0 ≤ toI32 (rd32 f) ∧ toI32 (rd32 f) ≤ (f.length : Int) - 4 := by
  unfold unmarshalHeadersFromFrame at hok
  split at hok
  · cases hok
  · simp only at hok
    split at hok
    · cases hok
    · omega

theorem unmarshalHeadersFromFrame_no_panic (f : Bytes) : ∀ p, unmarshalHeadersFromFrame f ≠ .panic p := by
  intro p
  unfold unmarshalHeadersFromFrame
  split
  · intro h; cases h
  · simp only
    split
    · intro h; cases h
    · exact readPairs_no_panic _ _ _ _ (by omega) (by omega) p

theorem headersFromFrame_no_panic (f : Bytes) : ∀ p, headersFromFrame f ≠ .panic p := by
  intro p
  unfold headersFromFrame
  split
  · intro h; cases h
  · split
    · exact unmarshalHeadersFromFrame_no_panic _ p
    · intro h; cases h

theorem unmarshalStream_no_panic (bs : Bytes) : ∀ p, unmarshalStream bs ≠ .panic p := by
  intro p
  unfold unmarshalStream
  split
  · intro h; cases h
  · split
    · intro h; cases h
    · split
      · intro h; cases h
      · simp only
        split
        · intro h; cases h
        · split
          · intro h; cases h
          · rename_i r1 _ _ hneg hlen
            have hnp := readPairs_no_panic ((List.drop 4 r1).take (toI32 (rd32 r1)).toNat) 0 (toI32 (rd32 r1)) []
              (by omega) (by simp only [List.length_take]; omega) 
            split
            · intro h; cases h
            · intro h; cases h
            · rename_i q hq; exact absurd hq (hnp q)

theorem addHeadersToFrame_no_panic (f : Bytes) (adds : Hdrs) : ∀ p, addHeadersToFrame f adds ≠ .panic p := by
  intro p
  unfold addHeadersToFrame
  split
  · rename_i a b c d ver body
    split
    · split
      · intro h; cases h
      · rename_i q hq; exact absurd hq (unmarshalHeadersFromFrame_no_panic _ q)
      · rename_i existing hex
        have hb := unmarshalHeadersFromFrame_ok_bounds hex
        simp only
        rw [sliceFrom_ok _ _ (by omega) (by simp only [List.length_cons]; omega)]
        intro h; cases h
    · intro h; cases h
  · intro h; cases h

theorem frameOpId_no_panic (f : Bytes) : ∀ p, frameOpId f ≠ .panic p := by
  intro p
  unfold frameOpId
  split
  · split <;> (intro h; cases h)
  · intro h; cases h
  · rename_i q hq; exact absurd hq (headersFromFrame_no_panic _ q)

theorem registryExecuteEmpty_no_panic (f : Bytes) : ∀ p, registryExecuteEmpty f ≠ .panic p := by
  intro p
  unfold registryExecuteEmpty
  split
  · intro h; cases h
  · intro h; cases h
  · rename_i q hq; exact absurd hq (frameOpId_no_panic _ q)

theorem executeFrameEmpty_no_panic (f : Bytes) : ∀ p, executeFrameEmpty f ≠ .panic p := by
  intro p
  unfold executeFrameEmpty
  split
  · intro h; cases h
  · exact registryExecuteEmpty_no_panic _ p

theorem readRequestHeaderClass_no_panic (f : Bytes) : ∀ p, readRequestHeaderClass f ≠ .panic p := by
  intro p
  unfold readRequestHeaderClass
  split
  · split <;> (intro h; cases h)
  · intro h; cases h
  · rename_i q hq; exact absurd hq (unmarshalStream_no_panic _ q)

theorem natsServerProcessFrame_no_panic (f : Bytes) : ∀ p, natsServerProcessFrame f ≠ .panic p := by
  intro p
  unfold natsServerProcessFrame
  split
  · intro h; cases h
  · exact readRequestHeaderClass_no_panic _ p

/-! ### Round trip -/

theorem slice_at (b a m c : Bytes) (i j : Int) (hb : b = a ++ (m ++ c)) (hi : i = a.length)
    (hj : j = i + m.length) : slice b i j = .ok m := by
  subst hb hi hj
  have := slice_append a m c
  rwa [List.append_assoc] at this

theorem marshalPairs_length (hs : Hdrs) : (marshalPairs hs).length = calcSize hs := by
  induction hs with
  | nil => rfl
  | cons kv t ih => obtain ⟨k, v⟩ := kv; simp [marshalPairs, calcSize, ih, be32_length]; omega

theorem rd32_be32' (n : Nat) (h : n < 4294967296) : rd32 (be32 n) = n := by
  have := rd32_be32 n [] h; simpa using this

theorem readPairs_marshal (hs : Hdrs) : ∀ (pre post : Bytes) (acc : Hdrs),
    pre.length + (marshalPairs hs).length < 2147483648 →
    readPairs (pre ++ (marshalPairs hs ++ post)) pre.length (pre.length + (marshalPairs hs).length) acc
      = .ok (acc.setAll hs) := by
  induction hs with
  | nil =>
    intro pre post acc _
    rw [readPairs]; simp [marshalPairs, Hdrs.setAll]
  | cons kv t ih =>
    obtain ⟨k, v⟩ := kv
    intro pre post acc hlen
    have hl : (marshalPairs ((k, v) :: t)).length = 8 + k.length + v.length + (marshalPairs t).length := by
      simp [marshalPairs, be32_length]; omega
    rw [hl] at hlen
    generalize hbuf : pre ++ (marshalPairs ((k, v) :: t) ++ post) = buf
    have hb : buf = pre ++ (be32 k.length ++ (k ++ (be32 v.length ++ (v ++ (marshalPairs t ++ post))))) := by
      rw [← hbuf]; simp [marshalPairs]
    have s1 : slice buf pre.length (pre.length + 4) = .ok (be32 k.length) :=
      slice_at buf pre (be32 k.length) (k ++ (be32 v.length ++ (v ++ (marshalPairs t ++ post)))) _ _ hb rfl (by simp [be32_length])
    have hk : toI32 (rd32 (be32 k.length)) = k.length := by
      rw [rd32_be32' _ (by omega), toI32_small _ (by omega)]
    have hv : toI32 (rd32 (be32 v.length)) = v.length := by
      rw [rd32_be32' _ (by omega), toI32_small _ (by omega)]
    have s2 : slice buf (pre.length + 4) (pre.length + 4 + k.length) = .ok k :=
      slice_at buf (pre ++ be32 k.length) k (be32 v.length ++ (v ++ (marshalPairs t ++ post))) _ _ (by rw [hb]; simp) (by simp [be32_length]) rfl
    have s3 : slice buf (pre.length + 4 + k.length) (pre.length + 4 + k.length + 4) = .ok (be32 v.length) :=
      slice_at buf (pre ++ be32 k.length ++ k) (be32 v.length) (v ++ (marshalPairs t ++ post)) _ _ (by rw [hb]; simp) (by simp [be32_length]; omega) (by simp [be32_length])
    have s4 : slice buf (pre.length + 4 + k.length + 4) (pre.length + 4 + k.length + 4 + v.length) = .ok v :=
      slice_at buf (pre ++ be32 k.length ++ k ++ be32 v.length) v (marshalPairs t ++ post) _ _ (by rw [hb]; simp) (by simp [be32_length]; omega) rfl
    rw [readPairs]
    rw [hl]
    have c1 : (pre.length : Int) < pre.length + ((8 + k.length + v.length + (marshalPairs t).length : Nat) : Int) := by omega
    rw [dif_pos c1, dif_neg (by omega)]
    simp only [s1, hk]
    rw [dif_neg (by omega)]
    simp only [s2]
    rw [dif_neg (by omega)]
    simp only [s3, hv]
    rw [dif_neg (by omega)]
    simp only [s4]
    have := ih (pre ++ be32 k.length ++ k ++ be32 v.length ++ v) post (acc.set k v) (by simp [be32_length]; omega)
    have hb2 : pre ++ be32 k.length ++ k ++ be32 v.length ++ v ++ (marshalPairs t ++ post) = buf := by
      rw [hb]; simp
    rw [hb2] at this
    show _ = Res.ok ((acc.set k v).setAll t)
    rw [← this]
    congr 1 <;> (simp [be32_length]; omega)

/-- Adding a fresh key appends. -/
theorem Hdrs.set_fresh (acc : Hdrs) (k v : Bytes) (h : k ∉ acc.keys) : acc.set k v = acc ++ [(k, v)] := by
  induction acc with
  | nil => rfl
  | cons a t ih =>
    obtain ⟨k', v'⟩ := a
    simp only [Hdrs.keys, List.map_cons, List.mem_cons, not_or] at h
    have hne : ¬ (k' = k) := fun e => h.1 e.symm
    simp only [Hdrs.set, hne, if_false, List.cons_append]
    rw [ih (by simpa [Hdrs.keys] using h.2)]

theorem Hdrs.setAll_fresh (hs : Hdrs) : ∀ acc : Hdrs, (acc ++ hs).keys.Nodup → acc.setAll hs = acc ++ hs := by
  induction hs with
  | nil => intro acc _; simp [Hdrs.setAll]
  | cons kv t ih =>
    obtain ⟨k, v⟩ := kv
    intro acc hnd
    have hk : k ∉ acc.keys := by
      simp only [Hdrs.keys, List.map_append, List.map_cons] at hnd
      have := List.nodup_append.mp hnd
      intro hmem
      exact this.2.2 k hmem k (by simp) rfl
    show (acc.set k v).setAll t = _
    rw [Hdrs.set_fresh acc k v hk, ih (acc ++ [(k, v)]) (by simpa using hnd)]
    simp

theorem Hdrs.setAll_nil (hs : Hdrs) (h : hs.keys.Nodup) : Hdrs.setAll [] hs = hs := by
  have := Hdrs.setAll_fresh hs [] (by simpa using h)
  simpa using this

theorem marshal_length (hs : Hdrs) : (marshal hs).length = 5 + calcSize hs := by
  simp [marshal, be32_length, marshalPairs_length]; omega

/-! ### Unfolding lemmas for well-formed input (targeted rewrites; no numeral-heavy simp) -/

theorem unmarshalStream_v0 (r1 : Bytes) (n : Nat) (h4 : 4 ≤ r1.length) (hsz : toI32 (rd32 r1) = (n:Int))
    (hlen : n ≤ (r1.drop 4).length) :
    unmarshalStream (0 :: r1) = (match readPairs ((r1.drop 4).take n) 0 n [] with
      | .ok h => .ok (h, (r1.drop 4).drop n) | .err e => .err e | .panic p => .panic p) := by
  unfold unmarshalStream
  simp only [ne_eq, not_true_eq_false, if_false]
  rw [if_neg (by omega)]
  simp only [hsz]
  rw [if_neg (by omega), if_neg (by omega)]
  simp only [Int.toNat_natCast]
  rfl

theorem unmarshalHeadersFromFrame_eq (f : Bytes) (n : Nat) (h4 : 4 ≤ f.length) (hsz : toI32 (rd32 f) = (n:Int))
    (hlen : n + 4 ≤ f.length) : unmarshalHeadersFromFrame f = readPairs f 4 (n + 4) [] := by
  unfold unmarshalHeadersFromFrame
  rw [if_neg (by omega)]
  simp only [hsz]
  rw [if_neg (by omega)]

theorem headersFromFrame_v0 (r : Bytes) : headersFromFrame (0 :: r) = unmarshalHeadersFromFrame r := by
  simp only [headersFromFrame, if_true]

theorem readPairs_marshal_nil (hs : Hdrs) (hnd : hs.keys.Nodup) (h : calcSize hs < 2147483648) :
    readPairs (marshalPairs hs) 0 (calcSize hs) [] = .ok hs := by
  have hrp := readPairs_marshal hs [] [] [] (by simp only [List.length_nil, marshalPairs_length]; omega)
  rw [Hdrs.setAll_nil hs hnd] at hrp
  simpa [marshalPairs_length] using hrp

/-- The frame reader on `be32 c ++ pairs ++ p`. -/
theorem unmarshalHeadersFromFrame_marshal (hs : Hdrs) (p : Bytes) (hnd : hs.keys.Nodup)
    (h : 5 + calcSize hs < 2147483648) :
    unmarshalHeadersFromFrame (be32 (calcSize hs) ++ (marshalPairs hs ++ p)) = .ok hs := by
  have hsz : toI32 (rd32 (be32 (calcSize hs) ++ (marshalPairs hs ++ p))) = calcSize hs := by
    rw [rd32_be32 _ _ (by omega), toI32_small _ (by omega)]
  rw [unmarshalHeadersFromFrame_eq _ (calcSize hs)
    (by simp only [List.length_append, be32_length]; omega) hsz
    (by simp only [List.length_append, be32_length, marshalPairs_length]; omega)]
  have hrp := readPairs_marshal hs (be32 (calcSize hs)) p []
    (by simp only [be32_length, marshalPairs_length]; omega)
  rw [Hdrs.setAll_nil hs hnd] at hrp
  simp only [be32_length, marshalPairs_length] at hrp
  rw [← hrp]; congr 1; omega

theorem addHeadersToFrame_v0 (a b c d : UInt8) (body : Bytes) (adds existing : Hdrs) (n : Nat)
    (hex : unmarshalHeadersFromFrame body = .ok existing) (hsz : toI32 (rd32 body) = n)
    (hlen : n + 4 ≤ body.length) :
    addHeadersToFrame (a :: b :: c :: d :: 0 :: body) adds =
      .ok (be32 ((marshal (existing.setAll adds)).length + (body.drop (n + 4)).length)
        ++ marshal (existing.setAll adds) ++ body.drop (n + 4)) := by
  unfold addHeadersToFrame
  simp only [if_true, hex, hsz]
  rw [sliceFrom_ok _ _ (by omega) (by simp only [List.length_cons]; omega)]
  have : ((9 : Int) + (n : Int)).toNat = (n + 4) + 5 := by omega
  simp only [this, List.drop_succ_cons]

/-! ### Lookup -/

theorem Hdrs.get?_set_same (h : Hdrs) (k v : Bytes) : (h.set k v).get? k = some v := by
  induction h with
  | nil => simp [Hdrs.set, Hdrs.get?]
  | cons a t ih =>
    obtain ⟨k', v'⟩ := a
    by_cases e : k' = k
    · simp [Hdrs.set, Hdrs.get?, e]
    · simp [Hdrs.set, Hdrs.get?, e, ih]

theorem Hdrs.get?_set_other (h : Hdrs) (k v k2 : Bytes) (hne : k ≠ k2) : (h.set k v).get? k2 = h.get? k2 := by
  induction h with
  | nil => simp [Hdrs.set, Hdrs.get?, hne]
  | cons a t ih =>
    obtain ⟨k', v'⟩ := a
    by_cases e : k' = k
    · subst e; simp [Hdrs.set, Hdrs.get?, hne]
    · by_cases e2 : k' = k2
      · subst e2; simp [Hdrs.set, Hdrs.get?, e]
      · simp [Hdrs.set, Hdrs.get?, e, e2, ih]

theorem Hdrs.get?_eq_some_iff (h : Hdrs) (hnd : h.keys.Nodup) (k v : Bytes) :
    h.get? k = some v ↔ (k, v) ∈ h := by
  induction h with
  | nil => simp [Hdrs.get?]
  | cons a t ih =>
    obtain ⟨k', v'⟩ := a
    simp only [Hdrs.keys, List.map_cons, List.nodup_cons] at hnd
    by_cases e : k' = k
    · subst e
      simp only [Hdrs.get?, if_true, Option.some.injEq, List.mem_cons, Prod.mk.injEq, true_and]
      constructor
      · intro hv; exact Or.inl hv.symm
      · rintro (hv | hm)
        · exact hv.symm
        · exact absurd (List.mem_map_of_mem (f := Prod.fst) hm) hnd.1
    · simp only [Hdrs.get?, e, if_false, List.mem_cons, Prod.mk.injEq]
      rw [ih hnd.2]
      constructor
      · intro hm; exact Or.inr hm
      · rintro (⟨hk, _⟩ | hm)
        · exact absurd hk.symm e
        · exact hm

/-- Two iteration orders of the same map (permutations with distinct names) look up equally. -/
theorem Hdrs.get?_perm (h h' : Hdrs) (hp : h.Perm h') (hnd : h.keys.Nodup) (k : Bytes) :
    h.get? k = h'.get? k := by
  have hnd' : h'.keys.Nodup := (hp.map Prod.fst).nodup_iff.mp hnd
  cases hv : h.get? k with
  | some v =>
    have := (Hdrs.get?_eq_some_iff h hnd k v).mp hv
    exact ((Hdrs.get?_eq_some_iff h' hnd' k v).mpr (hp.mem_iff.mp this)).symm
  | none =>
    cases hv' : h'.get? k with
    | none => rfl
    | some v =>
      have := (Hdrs.get?_eq_some_iff h' hnd' k v).mp hv'
      have := (Hdrs.get?_eq_some_iff h hnd k v).mpr (hp.mem_iff.mpr this)
      rw [hv] at this; cases this

end FV
