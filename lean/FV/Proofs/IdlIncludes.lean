/-
Include resolution is by path, and a cache keyed injectively (by the path) is transparent.
-/
import FV.Model.IdlIncludes

namespace FV.Inc

variable {α : Type}

theorem deep_succ (n : Nat) (fs : FS α) (p : Path) : deep (n + 1) fs p =
    (match fs.lookup p with
     | none => none
     | some nd => (subsWith (deep n fs) (dirOf p) nd.includes).map (Deep.node p nd.payload)) := rfl

/-- What `deep` returns for a path is the file AT that path, and per include edge the meaning of the resolved path. -/
theorem deep_node (n : Nat) (fs : FS α) (p : Path) (d : Deep α) (h : deep n fs p = some d) :
    ∃ m nd subs, n = m + 1 ∧ fs.lookup p = some nd ∧ subsWith (deep m fs) (dirOf p) nd.includes = some subs ∧
      d = .node p nd.payload subs := by
  cases n with
  | zero => simp [deep] at h
  | succ m =>
    simp only [deep] at h
    cases hl : fs.lookup p with
    | none => simp [hl] at h
    | some nd =>
      simp only [hl] at h
      cases hs : subsWith (deep m fs) (dirOf p) nd.includes with
      | none => simp [hs] at h
      | some subs =>
        simp only [hs, Option.map_some, Option.some.injEq] at h
        exact ⟨m, nd, subs, rfl, rfl, hs, h.symm⟩

theorem subsWith_mono {f g : Path → Option (Deep α)} (hfg : ∀ q d, f q = some d → g q = some d) (dir : Path) :
    ∀ (incs : List (String × Path)) (ds : List (String × Deep α)), subsWith f dir incs = some ds → subsWith g dir incs = some ds := by
  intro incs
  induction incs with
  | nil => intro ds h; simpa [subsWith] using h
  | cons e r ih =>
    obtain ⟨nm, inc⟩ := e
    intro ds h
    simp only [subsWith] at h ⊢
    cases h1 : f (joinPath dir inc) with
    | none => simp [h1] at h
    | some d =>
      cases h2 : subsWith f dir r with
      | none => simp [h1, h2] at h
      | some ds' =>
        simp only [h1, h2, Option.some.injEq] at h
        simp [hfg _ _ h1, ih ds' h2, h]

/-- More fuel does not change a meaning. -/
theorem deep_mono (fs : FS α) : ∀ (n : Nat) (p : Path) (d : Deep α), deep n fs p = some d → deep (n + 1) fs p = some d := by
  intro n
  induction n with
  | zero => intro p d h; simp [deep] at h
  | succ m ih =>
    intro p d h
    obtain ⟨m', nd, subs, hm, hl, hs, rfl⟩ := deep_node _ fs p d h
    have : m' = m := by omega
    subst this
    rw [deep_succ, hl]
    simp only []
    rw [subsWith_mono (ih) (dirOf p) nd.includes subs hs]
    rfl

theorem deep_mono_le (fs : FS α) {n m : Nat} (h : n ≤ m) (p : Path) (d : Deep α) (hd : deep n fs p = some d) : deep m fs p = some d := by
  obtain ⟨k, rfl⟩ := Nat.exists_eq_add_of_le h
  induction k with
  | zero => exact hd
  | succ k ih => exact deep_mono fs _ p d (ih (Nat.le_add_right _ _))

/-- Every cache entry is the meaning of a path with that key. -/
def CacheOk {κ : Type} [BEq κ] (key : Path → κ) (fs : FS α) (c : Cache κ α) : Prop :=
  ∀ k d, c.lookup k = some d → ∃ p m, key p = k ∧ deep m fs p = some d

theorem subsC_ok {κ : Type} [BEq κ] (key : Path → κ) (fs : FS α) (f : Cache κ α → Path → Option (Cache κ α × Deep α))
    (hf : ∀ c p c' d, CacheOk key fs c → f c p = some (c', d) → CacheOk key fs c' ∧ ∃ m, deep m fs p = some d) (dir : Path) :
    ∀ (incs : List (String × Path)) (c c' : Cache κ α) (ds : List (String × Deep α)), CacheOk key fs c →
      subsC f dir c incs = some (c', ds) → CacheOk key fs c' ∧ ∃ m, subsWith (deep m fs) dir incs = some ds := by
  intro incs
  induction incs with
  | nil =>
    intro c c' ds hc h
    simp only [subsC, Option.some.injEq, Prod.mk.injEq] at h
    obtain ⟨rfl, rfl⟩ := h
    exact ⟨hc, 0, rfl⟩
  | cons e r ih =>
    obtain ⟨nm, inc⟩ := e
    intro c c' ds hc h
    simp only [subsC] at h
    cases h1 : f c (joinPath dir inc) with
    | none => simp [h1] at h
    | some r1 =>
      obtain ⟨c1, d⟩ := r1
      simp only [h1] at h
      cases h2 : subsC f dir c1 r with
      | none => simp [h2] at h
      | some r2 =>
        obtain ⟨c2, ds'⟩ := r2
        simp only [h2, Option.some.injEq, Prod.mk.injEq] at h
        obtain ⟨rfl, rfl⟩ := h
        obtain ⟨hc1, m1, hd⟩ := hf c _ c1 d hc h1
        obtain ⟨hc2, m2, hds⟩ := ih c1 c2 ds' hc1 h2
        refine ⟨hc2, max m1 m2, ?_⟩
        simp only [subsWith]
        rw [deep_mono_le fs (Nat.le_max_left m1 m2) _ d hd,
          subsWith_mono (fun q d' h' => deep_mono_le fs (Nat.le_max_right m1 m2) q d' h') dir r ds' hds]

/-- A cache whose key is injective on paths is transparent: whatever it already holds (whatever was
visited before, in whatever order), `deepC` returns the meaning of the path, and keeps the cache sound. -/
theorem deepC_transparent {κ : Type} [BEq κ] [LawfulBEq κ] (key : Path → κ) (hinj : ∀ p q, key p = key q → p = q) (fs : FS α) :
    ∀ (n : Nat) (c : Cache κ α) (p : Path) (c' : Cache κ α) (d : Deep α), CacheOk key fs c → deepC key n fs c p = some (c', d) →
      CacheOk key fs c' ∧ ∃ m, deep m fs p = some d := by
  intro n
  induction n with
  | zero => intro c p c' d _ h; simp [deepC] at h
  | succ n ih =>
    intro c p c' d hc h
    simp only [deepC] at h
    cases hl : c.lookup (key p) with
    | some d0 =>
      simp only [hl, Option.some.injEq, Prod.mk.injEq] at h
      obtain ⟨rfl, rfl⟩ := h
      obtain ⟨p', m, hk, hd⟩ := hc _ _ hl
      rw [hinj _ _ hk] at hd
      exact ⟨hc, m, hd⟩
    | none =>
      simp only [hl] at h
      cases hf : fs.lookup p with
      | none => simp [hf] at h
      | some nd =>
        simp only [hf] at h
        cases hs : subsC (deepC key n fs) (dirOf p) c nd.includes with
        | none => simp [hs] at h
        | some r =>
          obtain ⟨c1, ds⟩ := r
          simp only [hs, Option.some.injEq, Prod.mk.injEq] at h
          obtain ⟨rfl, rfl⟩ := h
          obtain ⟨hc1, m, hds⟩ := subsC_ok key fs (deepC key n fs) ih (dirOf p) nd.includes c c1 ds hc hs
          have hd : deep (m + 1) fs p = some (.node p nd.payload ds) := by rw [deep_succ, hf]; simp only [hds]; rfl
          refine ⟨?_, m + 1, hd⟩
          intro k d' hk
          simp only [List.lookup] at hk
          by_cases hkk : k == key p
          · simp only [hkk] at hk
            injection hk with hk
            exact ⟨p, m + 1, (eq_of_beq hkk).symm, hk ▸ hd⟩
          · simp only [hkk] at hk
            exact hc1 k d' hk

end FV.Inc
