/- The Go bit operations of the compact protocol's zigzag and varint code, on BitVec 32 / Nat bit operators,
agree with the arithmetic definitions used by the model (FV.Model.CompactProtocol: zigzag, uvarint). -/
import FV.Model.CompactProtocol
namespace FV.Thrift

theorem varint_bitops (n : Nat) :
    n &&& 127 = n % 128 ∧ (n &&& 127) ||| 128 = n % 128 + 128 ∧ n >>> 7 = n / 128 := by
  have h1 : n &&& 127 = n % 128 := Nat.and_two_pow_sub_one_eq_mod n 7
  refine ⟨h1, ?_, ?_⟩
  · rw [h1]
    have := Nat.two_pow_add_eq_or_of_lt (i := 7) (b := n % 128) (by omega)
    simp only [Nat.reducePow] at this
    have h2 := this 1
    rw [Nat.mul_one] at h2
    rw [Nat.or_comm, ← h2]; omega
  · exact Nat.shiftRight_eq_div_pow n 7

/-- `(n << 1) ^ (n >> 31)` on int32 -/
def zigzag32bv (x : BitVec 32) : BitVec 32 := (x <<< 1) ^^^ (x.sshiftRight 31)

theorem zigzag32bv_eq (z : Int) (h : -2147483648 ≤ z ∧ z < 2147483648) :
    (zigzag32bv (BitVec.ofInt 32 z)).toNat = zigzag z := by
  unfold zigzag32bv zigzag
  by_cases hz : 0 ≤ z
  · rw [if_pos hz]
    have hx : (BitVec.ofInt 32 z).toNat = z.toNat := by
      rw [BitVec.toNat_ofInt]; omega
    have hmsb : (BitVec.ofInt 32 z).msb = false := by
      rw [BitVec.msb_eq_decide]; simp; omega
    rw [BitVec.sshiftRight_eq_of_msb_false hmsb]
    rw [BitVec.toNat_xor, BitVec.toNat_shiftLeft, BitVec.toNat_ushiftRight, hx]
    have : z.toNat >>> 31 = 0 := by rw [Nat.shiftRight_eq_div_pow]; omega
    rw [this, Nat.xor_zero, Nat.shiftLeft_eq]
    omega
  · rw [if_neg hz]
    have hx : (BitVec.ofInt 32 z).toNat = (z + 4294967296).toNat := by
      rw [BitVec.toNat_ofInt]; omega
    have hmsb : (BitVec.ofInt 32 z).msb = true := by
      rw [BitVec.msb_eq_decide]; simp; omega
    rw [BitVec.sshiftRight_eq_of_msb_true hmsb]
    have hnot : (~~~(BitVec.ofInt 32 z)).toNat = 4294967295 - (z + 4294967296).toNat := by
      rw [BitVec.toNat_not, hx]
    have hzero : (~~~(BitVec.ofInt 32 z)) >>> 31 = 0#32 := by
      apply BitVec.eq_of_toNat_eq
      rw [BitVec.toNat_ushiftRight, hnot, Nat.shiftRight_eq_div_pow]; simp; omega
    rw [hzero]
    have hones : ~~~(0#32) = BitVec.allOnes 32 := by decide
    rw [hones, BitVec.xor_allOnes, BitVec.toNat_not, BitVec.toNat_shiftLeft, hx, Nat.shiftLeft_eq]
    omega
end FV.Thrift
