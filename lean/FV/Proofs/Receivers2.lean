/-
Lemmas about the connection receivers of FV.Model.Receivers2 (C05): the framed transport's reads never
panic and consume what they return; the adapter read loop and FSimpleServer.accept never panic and never
run out of fuel (they terminate on every byte stream).
-/
import FV.Model.Receivers2
import FV.Proofs.Headers

namespace FV.Recv2
open FV

theorem makeBytes_nat (n : Nat) : makeBytes (n : Int) = .ok n := by
  unfold makeBytes
  rw [if_neg (by omega)]
  simp

theorem header_size_len {t t1 : FT} (h : t.header = .size t1) : t1.s.length + 4 ≤ t.s.length ∧ t1.rem ≤ maxFrame := by
  unfold FT.header at h
  split at h
  · cases h
  · split at h
    · cases h
    · cases h; simp; omega

theorem header_bad_len {t t2 : FT} (h : t.header = .bad t2) : t2.s.length + 4 ≤ t.s.length := by
  unfold FT.header at h
  split at h
  · cases h
  · split at h
    · cases h; simp; omega
    · cases h

theorem ensure_size_len {t t1 : FT} (h : t.ensure = .size t1) : t1.s.length ≤ t.s.length := by
  unfold FT.ensure at h
  split at h
  · have := header_size_len h; omega
  · cases h; omega

/-- `io.ReadFull` over the framed transport: never a panic. -/
theorem readFull_no_panic (t : FT) (n : Nat) : ∀ p, t.readFull n ≠ .panic p := by
  intro p
  unfold FT.readFull
  split
  · intro h; cases h
  · split
    · intro h; cases h
    · intro h; cases h
    · rename_i t1 _
      split
      · rw [makeBytes_nat]
        dsimp only
        split
        · split
          · intro h; cases h
          · intro h; cases h
          · split <;> (intro h; cases h)
        · split <;> (intro h; cases h)
      · split <;> (intro h; cases h)

/-- What a successful `io.ReadFull` returns: exactly `n` bytes, taken off the stream. -/
theorem readFull_ok {t t' : FT} {n : Nat} {b : Bytes} (h : t.readFull n = .ok (b, t')) :
    b.length = n ∧ t'.s.length + n ≤ t.s.length := by
  unfold FT.readFull at h
  split at h
  · cases h; simp; omega
  · split at h
    · cases h
    · cases h
    · rename_i t1 he
      have hl := ensure_size_len he
      split at h
      · rw [makeBytes_nat] at h
        dsimp only at h
        split at h
        · split at h
          · cases h
          · cases h
          · rename_i t2 hb
            have := header_bad_len hb
            split at h
            · cases h
            · cases h; simp; omega
        · split at h <;> cases h
      · split at h
        · cases h
        · cases h; simp; omega

theorem readFrame_no_panic (t : FT) : ∀ p, readFrame t ≠ .panic p := by
  intro p
  unfold readFrame
  split
  · intro h; cases h
  · intro h; cases h
  · rw [makeBytes_nat]
    exact readFull_no_panic _ _ p

/-- A frame handed to the registry cost the stream at least its 4-byte prefix — when the read loop starts
at a frame boundary (`rem = 0`), which is where every `readFrame` leaves it. -/
theorem readFrame_ok {t t' : FT} {f : Bytes} (h0 : t.rem = 0) (h : readFrame t = .ok (f, t')) :
    t'.s.length + 4 ≤ t.s.length ∧ t'.rem = 0 ∧ f.length ≤ maxFrame := by
  unfold readFrame at h
  split at h
  · cases h
  · cases h
  · rename_i t1 he
    rw [makeBytes_nat] at h
    dsimp only at h
    unfold FT.ensure at he
    rw [if_pos h0] at he
    have hh := header_size_len he
    -- readFull of exactly what is left of the frame
    unfold FT.readFull at h
    split at h
    · rename_i hz; cases h; refine ⟨by omega, hz, by simp⟩
    · have he2 : t1.ensure = .size t1 := by
        unfold FT.ensure; rw [if_neg (by assumption)]
      rw [he2] at h
      dsimp only at h
      rw [if_neg (by omega)] at h
      split at h
      · cases h
      · cases h
        refine ⟨by simp; omega, by simp, by simp; omega⟩

theorem adapterLoop_no_panic : ∀ (fuel : Nat) (t : FT) (d : Nat), t.rem = 0 → t.s.length < fuel →
    ∀ p, adapterLoop fuel t d ≠ .panic p := by
  intro fuel
  induction fuel with
  | zero => intro t d _ h; omega
  | succ k ih =>
    intro t d h0 hf p
    unfold adapterLoop
    split
    · rename_i q hq; exact absurd hq (readFrame_no_panic t q)
    · intro h; cases h
    · intro h; cases h
    · rename_i frame t' hr
      have := readFrame_ok h0 hr
      split
      · exact ih t' (d + 1) this.2.1 (by omega) p
      · intro h; cases h
      · rename_i q hq; exact absurd hq (registryExecuteEmpty_no_panic frame q)

theorem adapterRecv_no_panic (s : Bytes) : ∀ p, adapterRecv s ≠ .panic p :=
  adapterLoop_no_panic _ _ _ rfl (by simp)

theorem readHeaderF_no_panic (t : FT) : ∀ p, readHeaderF t ≠ .panic p := by
  intro p
  unfold readHeaderF
  split
  · rename_i q hq; exact absurd hq (readFull_no_panic _ _ q)
  · intro h; cases h
  · intro h; cases h
  · split
    · intro h; cases h
    · split
      · rename_i q hq; exact absurd hq (readFull_no_panic _ _ q)
      · intro h; cases h
      · intro h; cases h
      · rename_i sb t2 _
        dsimp only
        split
        · intro h; cases h
        · rename_i hneg
          have hm : makeBytes (toI32 (rd32 sb)) = .ok (toI32 (rd32 sb)).toNat := by
            unfold makeBytes; rw [if_neg hneg]
          rw [hm]
          dsimp only
          split
          · rename_i q hq; exact absurd hq (readFull_no_panic _ _ q)
          · intro h; cases h
          · intro h; cases h
          · rename_i body t3 hb
            have hl := (readFull_ok hb).1
            split
            · intro h; cases h
            · intro h; cases h
            · rename_i q hq
              exact absurd hq (readPairs_no_panic body 0 _ [] (by omega) (by omega) q)

theorem readHeaderF_ok {t t' : FT} {h : Hdrs} (hr : readHeaderF t = .ok (h, t')) : t'.s.length + 5 ≤ t.s.length := by
  unfold readHeaderF at hr
  split at hr
  · cases hr
  · cases hr
  · cases hr
  · rename_i vb t1 h1
    have l1 := (readFull_ok h1).2
    split at hr
    · cases hr
    · split at hr
      · cases hr
      · cases hr
      · cases hr
      · rename_i sb t2 h2
        have l2 := (readFull_ok h2).2
        dsimp only at hr
        split at hr
        · cases hr
        · split at hr
          · cases hr
          · cases hr
          · split at hr
            · cases hr
            · cases hr
            · cases hr
            · rename_i body t3 h3
              have l3 := (readFull_ok h3).2
              split at hr
              · cases hr; omega
              · cases hr
              · cases hr

theorem drainProcess_no_panic (t : FT) : ∀ p, drainProcess t ≠ .panic p := by
  intro p
  unfold drainProcess
  split
  · rename_i q hq; exact absurd hq (readHeaderF_no_panic t q)
  · intro h; cases h
  · split
    · split <;> (intro h; cases h)
    · intro h; cases h

theorem drainProcess_ok {t t' : FT} (h : drainProcess t = .ok t') : t'.s.length + 5 ≤ t.s.length ∧ t'.rem = 0 := by
  unfold drainProcess at h
  split at h
  · cases h
  · cases h
  · rename_i hd t1 hr
    have := readHeaderF_ok hr
    split at h
    · split at h
      · cases h
      · cases h; simp; omega
    · cases h

theorem acceptLoop_no_panic : ∀ (fuel : Nat) (t : FT) (n : Nat), t.s.length < fuel →
    ∀ p, acceptLoop fuel t n ≠ .panic p := by
  intro fuel
  induction fuel with
  | zero => intro t n h; omega
  | succ k ih =>
    intro t n hf p
    unfold acceptLoop
    split
    · rename_i q hq; exact absurd hq (drainProcess_no_panic t q)
    · rename_i t' hd
      have := drainProcess_ok hd
      exact ih t' (n + 1) (by omega) p
    · intro h; cases h
    · intro h; cases h

theorem accept_no_panic (s : Bytes) : ∀ p, accept s ≠ .panic p :=
  acceptLoop_no_panic _ _ _ (by simp)

end FV.Recv2
