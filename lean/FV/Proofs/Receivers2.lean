/-
Lemmas about the connection receivers of FV.Model.Receivers2 (C05): the framed transport's reads never
panic and consume what they return; the adapter read loop and FSimpleServer.accept never panic and never
run out of fuel (they terminate on every byte stream).
-/
import FV.Model.Receivers2
import FV.Proofs.Headers

namespace FV.Recv2
open FV

theorem makeBytes_nat (n : Nat) : makeBytes (n : Int) = .ok n := by
  unfold makeBytes
  rw [if_neg (by omega)]
  simp

theorem header_size_len {t t1 : FT} (h : t.header = .size t1) : t1.s.length + 4 ≤ t.s.length ∧ t1.rem ≤ maxFrame := by
  unfold FT.header at h
  split at h
  · cases h
  · split at h
    · cases h
    · cases h; simp; omega

theorem header_bad_len {t t2 : FT} (h : t.header = .bad t2) : t2.s.length + 4 ≤ t.s.length := by
  unfold FT.header at h
  split at h
  · cases h
  · split at h
    · cases h; simp; omega
    · cases h

theorem ensure_size_len {t t1 : FT} (h : t.ensure = .size t1) : t1.s.length ≤ t.s.length := by
  unfold FT.ensure at h
  split at h
  · have := header_size_len h; omega
  · cases h; omega

/-- `io.ReadFull` over the framed transport: never a panic. -/
theorem readFull_no_panic (t : FT) (n : Nat) : ∀ p, t.readFull n ≠ .panic p := by
  intro p
  unfold FT.readFull
  split
  · intro h; cases h
  · split
    · intro h; cases h
    · intro h; cases h
    · rename_i t1 _
      split
      · rw [makeBytes_nat]
        dsimp only
        split
        · split
          · intro h; cases h
          · intro h; cases h
          · split <;> (intro h; cases h)
        · split <;> (intro h; cases h)
      · split <;> (intro h; cases h)

/-- What a successful `io.ReadFull` returns: exactly `n` bytes, taken off the stream. -/
theorem readFull_ok {t t' : FT} {n : Nat} {b : Bytes} (h : t.readFull n = .ok (b, t')) :
    b.length = n ∧ t'.s.length + n ≤ t.s.length := by
  unfold FT.readFull at h
  split at h
  · cases h; simp; omega
  · split at h
    · cases h
    · cases h
    · rename_i t1 he
      have hl := ensure_size_len he
      split at h
      · rw [makeBytes_nat] at h
        dsimp only at h
        split at h
        · split at h
          · cases h
          · cases h
          · rename_i t2 hb
            have := header_bad_len hb
            split at h
            · cases h
            · cases h; simp; omega
        · split at h <;> cases h
      · split at h
        · cases h
        · cases h; simp; omega

theorem readFrame_no_panic (t : FT) : ∀ p, readFrame t ≠ .panic p := by
  intro p
  unfold readFrame
  split
  · intro h; cases h
  · intro h; cases h
  · rw [makeBytes_nat]
    exact readFull_no_panic _ _ p

/-- A frame handed to the registry cost the stream at least its 4-byte prefix — when the read loop starts
at a frame boundary (`rem = 0`), which is where every `readFrame` leaves it. -/
theorem readFrame_ok {t t' : FT} {f : Bytes} (h0 : t.rem = 0) (h : readFrame t = .ok (f, t')) :
    t'.s.length + 4 ≤ t.s.length ∧ t'.rem = 0 ∧ f.length ≤ maxFrame := by
  unfold readFrame at h
  split at h
  · cases h
  · cases h
  · rename_i t1 he
    rw [makeBytes_nat] at h
    dsimp only at h
    unfold FT.ensure at he
    rw [if_pos h0] at he
    have hh := header_size_len he
    -- readFull of exactly what is left of the frame
    unfold FT.readFull at h
    split at h
    · rename_i hz; cases h; refine ⟨by omega, hz, by simp⟩
    · have he2 : t1.ensure = .size t1 := by
        unfold FT.ensure; rw [if_neg (by assumption)]
      rw [he2] at h
      dsimp only at h
      rw [if_neg (by omega)] at h
      split at h
      · cases h
      · cases h
        refine ⟨by simp; omega, by simp, by simp; omega⟩

theorem adapterLoop_no_panic : ∀ (fuel : Nat) (t : FT) (d : Nat), t.rem = 0 → t.s.length < fuel →
    ∀ p, adapterLoop fuel t d ≠ .panic p := by
  intro fuel
  induction fuel with
  | zero => intro t d _ h; omega
  | succ k ih =>
    intro t d h0 hf p
    unfold adapterLoop
    split
    · rename_i q hq; exact absurd hq (readFrame_no_panic t q)
    · intro h; cases h
    · intro h; cases h
    · rename_i frame t' hr
      have := readFrame_ok h0 hr
      split
      · exact ih t' (d + 1) this.2.1 (by omega) p
      · intro h; cases h
      · rename_i q hq; exact absurd hq (registryExecuteEmpty_no_panic frame q)

theorem adapterRecv_no_panic (s : Bytes) : ∀ p, adapterRecv s ≠ .panic p :=
  adapterLoop_no_panic _ _ _ rfl (by simp)

theorem readHeaderF_no_panic (t : FT) : ∀ p, readHeaderF t ≠ .panic p := by
  intro p
  unfold readHeaderF
  split
  · rename_i q hq; exact absurd hq (readFull_no_panic _ _ q)
  · intro h; cases h
  · intro h; cases h
  · split
    · intro h; cases h
    · split
      · rename_i q hq; exact absurd hq (readFull_no_panic _ _ q)
      · intro h; cases h
      · intro h; cases h
      · rename_i sb t2 _
        dsimp only
        split
        · intro h; cases h
        · rename_i hneg
          have hm : makeBytes (toI32 (rd32 sb)) = .ok (toI32 (rd32 sb)).toNat := by
            unfold makeBytes; rw [if_neg hneg]
          rw [hm]
          dsimp only
          split
          · rename_i q hq; exact absurd hq (readFull_no_panic _ _ q)
          · intro h; cases h
          · intro h; cases h
          · rename_i body t3 hb
            have hl := (readFull_ok hb).1
            split
            · intro h; cases h
            · intro h; cases h
            · rename_i q hq
              exact absurd hq (readPairs_no_panic body 0 _ [] (by omega) (by omega) q)

theorem readHeaderF_ok {t t' : FT} {h : Hdrs} (hr : readHeaderF t = .ok (h, t')) : t'.s.length + 5 ≤ t.s.length := by
  unfold readHeaderF at hr
  split at hr
  · cases hr
  · cases hr
  · cases hr
  · rename_i vb t1 h1
    have l1 := (readFull_ok h1).2
    split at hr
    · cases hr
    · split at hr
      · cases hr
      · cases hr
      · cases hr
      · rename_i sb t2 h2
        have l2 := (readFull_ok h2).2
        dsimp only at hr
        split at hr
        · cases hr
        · split at hr
          · cases hr
          · cases hr
          · split at hr
            · cases hr
            · cases hr
            · cases hr
            · rename_i body t3 h3
              have l3 := (readFull_ok h3).2
              split at hr
              · cases hr; omega
              · cases hr
              · cases hr

theorem drainProcess_no_panic (t : FT) : ∀ p, drainProcess t ≠ .panic p := by
  intro p
  unfold drainProcess
  split
  · rename_i q hq; exact absurd hq (readHeaderF_no_panic t q)
  · intro h; cases h
  · split
    · split <;> (intro h; cases h)
    · intro h; cases h

theorem drainProcess_ok {t t' : FT} (h : drainProcess t = .ok t') : t'.s.length + 5 ≤ t.s.length ∧ t'.rem = 0 := by
  unfold drainProcess at h
  split at h
  · cases h
  · cases h
  · rename_i hd t1 hr
    have := readHeaderF_ok hr
    split at h
    · split at h
      · cases h
      · cases h; simp; omega
    · cases h

theorem acceptLoop_no_panic : ∀ (fuel : Nat) (t : FT) (n : Nat), t.s.length < fuel →
    ∀ p, acceptLoop fuel t n ≠ .panic p := by
  intro fuel
  induction fuel with
  | zero => intro t n h; omega
  | succ k ih =>
    intro t n hf p
    unfold acceptLoop
    split
    · rename_i q hq; exact absurd hq (drainProcess_no_panic t q)
    · rename_i t' hd
      have := drainProcess_ok hd
      exact ih t' (n + 1) (by omega) p
    · intro h; cases h
    · intro h; cases h

theorem accept_no_panic (s : Bytes) : ∀ p, accept s ≠ .panic p :=
  acceptLoop_no_panic _ _ _ (by simp)

/-! ### Outcomes; several connections -/

theorem adapterLoop_not_err : ∀ (fuel : Nat) (t : FT) (d : Nat) (e : Err), adapterLoop fuel t d ≠ .err e := by
  intro fuel
  induction fuel with
  | zero => intro t d e h; unfold adapterLoop at h; cases h
  | succ k ih =>
    intro t d e
    unfold adapterLoop
    split
    · intro h; cases h
    · intro h; cases h
    · intro h; cases h
    · split
      · exact ih _ _ e
      · intro h; cases h
      · intro h; cases h

theorem acceptLoop_not_err : ∀ (fuel : Nat) (t : FT) (n : Nat) (e : Err), acceptLoop fuel t n ≠ .err e := by
  intro fuel
  induction fuel with
  | zero => intro t d e h; unfold acceptLoop at h; cases h
  | succ k ih =>
    intro t d e
    unfold acceptLoop
    split
    · intro h; cases h
    · exact ih _ _ e
    · intro h; cases h
    · intro h; cases h

/-- The adapter read loop always ends in a close of its own connection. -/
theorem adapterRecv_closes (s : Bytes) : ∃ e, adapterRecv s = .ok e := by
  cases h : adapterRecv s with
  | ok e => exact ⟨e, rfl⟩
  | err e => exact absurd h (adapterLoop_not_err _ _ _ e)
  | panic p => exact absurd h (adapterRecv_no_panic s p)

theorem accept_returns (s : Bytes) : ∃ e, accept s = .ok e := by
  cases h : accept s with
  | ok e => exact ⟨e, rfl⟩
  | err e => exact absurd h (acceptLoop_not_err _ _ _ e)
  | panic p => exact absurd h (accept_no_panic s p)

theorem adapterCause_ok (s : Bytes) : ∃ c, adapterCause s = .ok c := by
  obtain ⟨e, he⟩ := adapterRecv_closes s
  exact ⟨e.cause, by unfold adapterCause; rw [he]⟩

theorem acceptCause_ok (s : Bytes) : ∃ c, acceptCause s = .ok c := by
  obtain ⟨e, he⟩ := accept_returns s
  exact ⟨e.ret, by unfold acceptCause; rw [he]⟩

/-- One connection's bytes: the process does not crash, every other connection is untouched, and the
connection itself is closed exactly once, with the receiver's cause appended — or, when it was closed
already, nothing happens at all. -/
theorem recvOn_spec (recv : Bytes → Res (Option Err)) (hr : ∀ s, ∃ c, recv s = .ok c)
    (i : Nat) (s : Bytes) (y : Sys) (hy : y.crashed = false) :
    (recvOn recv i s y).crashed = false ∧
    (recvOn recv i s y).conns.length = y.conns.length ∧
    (∀ j, j ≠ i → (recvOn recv i s y).conns[j]? = y.conns[j]?) ∧
    (∀ c, y.conns[i]? = some c →
      (c.isOpen = false → (recvOn recv i s y).conns[i]? = some c) ∧
      (c.isOpen = true → ∃ cause, recv s = .ok cause ∧
        (recvOn recv i s y).conns[i]? = some ⟨false, c.causes ++ [cause]⟩)) := by
  obtain ⟨cause, hc⟩ := hr s
  unfold recvOn
  rw [if_neg (by simp [hy])]
  cases hi : y.conns[i]? with
  | none =>
    refine ⟨hy, rfl, fun _ _ => rfl, ?_⟩
    intro c h; cases h
  | some c =>
    dsimp only
    cases ho : c.isOpen with
    | false =>
      have hcl : (!false) = true := rfl
      rw [if_pos hcl]
      refine ⟨hy, rfl, fun _ _ => rfl, ?_⟩
      intro c' h
      cases h
      exact ⟨fun _ => hi, fun h => (by rw [ho] at h; cases h)⟩
    | true =>
      have hcl : (!true) = false := rfl
      simp only [hcl, Bool.false_eq_true, if_false, hc]
      refine ⟨hy, (by simp), ?_, ?_⟩
      · intro j hj
        simp only [List.getElem?_set]
        rw [if_neg (by omega)]
      · intro c' h
        cases h
        refine ⟨fun h => (by rw [ho] at h; cases h), fun _ => ⟨cause, rfl, ?_⟩⟩
        have hlt : i < y.conns.length := by
          rcases Nat.lt_or_ge i y.conns.length with h | h
          · exact h
          · rw [List.getElem?_eq_none h] at hi; cases hi
        simp [hlt]

/-- Any number of deliveries to any connections, starting from `n` fresh connections: the process never
crashes and no connection has published more than one cause. -/
def deliverAll (recv : Bytes → Res (Option Err)) : Sys → List (Nat × Bytes) → Sys
  | y, [] => y
  | y, (i, s) :: t => deliverAll recv (recvOn recv i s y) t

def SysInv (y : Sys) : Prop :=
  y.crashed = false ∧ ∀ c ∈ y.conns, (c.isOpen = true → c.causes = []) ∧ (c.isOpen = false → c.causes.length = 1)

theorem recvOn_inv (recv : Bytes → Res (Option Err)) (hr : ∀ s, ∃ c, recv s = .ok c)
    (i : Nat) (s : Bytes) (y : Sys) (hy : SysInv y) : SysInv (recvOn recv i s y) := by
  obtain ⟨h1, h2, h3, h4⟩ := recvOn_spec recv hr i s y hy.1
  refine ⟨h1, ?_⟩
  intro c hc
  obtain ⟨j, hj, hjc⟩ := List.mem_iff_getElem.mp hc
  have hj' : (recvOn recv i s y).conns[j]? = some c := by rw [List.getElem?_eq_getElem hj, hjc]
  by_cases hji : j = i
  · subst hji
    have hlt : j < y.conns.length := by omega
    have hold : y.conns[j]? = some y.conns[j] := List.getElem?_eq_getElem hlt
    have hmem : y.conns[j] ∈ y.conns := List.getElem_mem hlt
    obtain ⟨ha, hb⟩ := h4 _ hold
    cases ho : (y.conns[j]).isOpen with
    | false =>
      have := ha ho
      rw [this] at hj'
      cases hj'
      exact hy.2 _ hmem
    | true =>
      obtain ⟨cause, _, hnew⟩ := hb ho
      rw [hnew] at hj'
      cases hj'
      have := (hy.2 _ hmem).1 ho
      exact ⟨fun h => (by cases h), fun _ => (by simp [this])⟩
  · rw [h3 j hji] at hj'
    exact hy.2 c (List.mem_of_getElem? hj')

theorem deliverAll_inv (recv : Bytes → Res (Option Err)) (hr : ∀ s, ∃ c, recv s = .ok c) :
    ∀ (ds : List (Nat × Bytes)) (y : Sys), SysInv y → SysInv (deliverAll recv y ds) := by
  intro ds
  induction ds with
  | nil => intro y h; exact h
  | cons d t ih =>
    intro y h
    obtain ⟨i, s⟩ := d
    exact ih _ (recvOn_inv recv hr i s y h)

/-! ### STOMP message loop -/

theorem stomp_recv_total (cb : Bytes → Bool) (w : Stomp) (m : Bytes) :
    ∃ w', Stomp.recv cb w m = .ok w' ∧ w'.alive = w.alive ∧ w.delivered ≤ w'.delivered := by
  unfold Stomp.recv
  split
  · exact ⟨w, rfl, rfl, Nat.le_refl _⟩
  · split
    · exact ⟨w, rfl, rfl, Nat.le_refl _⟩
    · rename_i h4
      have : sliceFrom m 4 = .ok (m.drop 4) := by
        unfold sliceFrom
        rw [if_pos (by omega)]
        rfl
      rw [this]
      dsimp only
      split
      · exact ⟨_, rfl, rfl, by simp⟩
      · exact ⟨_, rfl, rfl, by simp⟩

theorem stomp_recvAll_total (cb : Bytes → Bool) : ∀ (ms : List Bytes) (w : Stomp),
    ∃ w', Stomp.recvAll cb w ms = .ok w' ∧ w'.alive = w.alive := by
  intro ms
  induction ms with
  | nil => intro w; exact ⟨w, rfl, rfl⟩
  | cons m t ih =>
    intro w
    obtain ⟨w1, h1, ha, _⟩ := stomp_recv_total cb w m
    obtain ⟨w2, h2, hb⟩ := ih w1
    refine ⟨w2, ?_, by rw [hb, ha]⟩
    simp only [Stomp.recvAll, h1, h2]

theorem stomp_recv_wellformed (cb : Bytes → Bool) (w : Stomp) (m : Bytes) (ha : w.alive = true)
    (h4 : 4 ≤ m.length) (hcb : cb (m.drop 4) = true) :
    Stomp.recv cb w m = .ok { w with delivered := w.delivered + 1, acked := w.acked + 1 } := by
  unfold Stomp.recv
  rw [ha]
  have hcl : (!true) = false := rfl
  rw [hcl]
  rw [if_neg (by simp), if_neg (by omega)]
  have : sliceFrom m 4 = .ok (m.drop 4) := by
    unfold sliceFrom
    rw [if_pos (by omega)]
    rfl
  rw [this]
  dsimp only
  rw [if_pos hcb]

end FV.Recv2
