/- The hypotheses of the byte-level round trips (BinFits / CmpOK / cmpBalanced on the write calls) follow
from a value-level predicate: every call sequence the emitted Write produces for a well-typed value whose
integers, sizes and field ids fit is one the binary and the compact protocol round-trip. -/
import FV.Proofs.Thrift
import FV.Proofs.ThriftBytes
namespace FV.Thrift

/-- Value-level counterpart of `BinFits`/`CmpOK`: integers within their declared widths, IEEE bits
within 64 bits, string lengths and container sizes within `MaxMessageSize`, declared field ids
within int16 — what the emitted Go types can hold and the default configuration accepts. -/
def Fits (d : Defs) : Nat → Ty → Val → Prop
  | 0, _, _ => False
  | n + 1, t, v =>
    match resolve d t, v with
    | .bool, .bool _ => True
    | .byte, .int k => -128 ≤ k ∧ k < 128
    | .i16, .int k => -32768 ≤ k ∧ k < 32768
    | .i32, .int k => -2147483648 ≤ k ∧ k < 2147483648
    | .i64, .int k => -9223372036854775808 ≤ k ∧ k < 9223372036854775808
    | .enum _, .int k => -2147483648 ≤ k ∧ k < 2147483648
    | .double, .dbl b => b < 18446744073709551616
    | .string, .bytes b => b.length ≤ maxMessageSize
    | .binary, .bytes b => b.length ≤ maxMessageSize
    | .list a, .list vs => vs.length ≤ maxMessageSize ∧ ∀ x ∈ vs, Fits d n a x
    | .set a, .list vs => vs.length ≤ maxMessageSize ∧ ∀ x ∈ vs, Fits d n a x
    | .map kt vt, .map kvs => kvs.length ≤ maxMessageSize ∧ ∀ kv ∈ kvs, Fits d n kt kv.1 ∧ Fits d n vt kv.2
    | .struct nm, .struct fs =>
      ∃ sd, lookupStruct d nm = some sd ∧ (∀ f ∈ sd.fields, -32768 ≤ f.id ∧ f.id < 32768) ∧
        (∀ f ∈ sd.fields, ∀ x, lookupVal fs f.id = some x → Fits d n f.ty x)
    | _, _ => False

/-- A call sequence that can stand anywhere in a stream the byte protocols round-trip. -/
structure Chunk (es : List Event) : Prop where
  bin : ∀ e ∈ es, BinFits e
  ok : ∀ tail, cmpOKb (es ++ tail) = cmpOKb tail
  bal : ∀ k tail, cmpBalanced k (es ++ tail) = cmpBalanced k tail

theorem Chunk.nil : Chunk [] := ⟨(by intro e h; cases h), fun _ => rfl, fun _ _ => rfl⟩

theorem Chunk.append {a b : List Event} (ha : Chunk a) (hb : Chunk b) : Chunk (a ++ b) := by
  refine ⟨?_, ?_, ?_⟩
  · intro e h
    rcases List.mem_append.mp h with h | h
    · exact ha.bin e h
    · exact hb.bin e h
  · intro tail; rw [List.append_assoc, ha.ok, hb.ok]
  · intro k tail; rw [List.append_assoc, ha.bal, hb.bal]

theorem Chunk.flatten {α : Type} (g : α → Res (List Event)) (P : α → Prop)
    (h : ∀ x c, P x → g x = .ok c → Chunk c) :
    ∀ (l : List α) (cs : List (List Event)), All2 (fun x c => g x = .ok c) l cs → (∀ x ∈ l, P x) → Chunk cs.flatten := by
  intro l cs hall
  induction hall with
  | nil => intro _; exact Chunk.nil
  | @cons x c xs cs' hx _ ih =>
    intro hp
    simp only [List.flatten_cons]
    exact Chunk.append (h x c (hp x (by simp)) hx) (ih (fun y hy => hp y (by simp [hy])))

theorem Chunk.single (e : Event) (hb : BinFits e) (hc : CmpFits e)
    (h1 : ∀ nm tt id, e ≠ .fb nm tt id) (h2 : ∀ nm, e ≠ .sb nm) (h3 : e ≠ .se) : Chunk [e] := by
  refine ⟨by intro x hx; simp only [List.mem_singleton] at hx; subst hx; exact hb, ?_, ?_⟩
  · intro tail
    cases e
    case fb nm tt id => exact absurd rfl (h1 nm tt id)
    all_goals simp [cmpOKb, hc]
  · intro k tail
    cases e
    case sb nm => exact absurd rfl (h2 nm)
    case se => exact absurd rfl h3
    all_goals (cases k <;> simp [cmpBalanced])


theorem cmpOKb_cons_other (e : Event) (es : List Event) (h : ∀ nm id, e ≠ .fb nm 2 id) :
    cmpOKb (e :: es) = (decide (CmpFits e) && cmpOKb es) := by
  rw [cmpOKb]
  · intro nm id b es' he _; exact h nm id he
  · intro nm id he; exact h nm id he

theorem wireOf_cmpTT (d : Defs) (t : Ty) : cmpTT (wireOf d t) := by
  cases h : resolve d t <;> simp [wireOf, h, cmpTT, ctype, ttypeOf]

theorem wireOf_lt (d : Defs) (t : Ty) : wireOf d t < 256 := by
  cases h : resolve d t <;> simp [wireOf, h]

theorem ctype_wireOf_ne (d : Defs) (t : Ty) (h0 : wireOf d t ≠ 0) : ctype (wireOf d t) ≠ 0 := by
  cases h : resolve d t <;> simp [wireOf, h, ctype] at h0 ⊢

/-- `[FieldBegin] ++ body ++ [FieldEnd]` of a field whose body is a chunk (a bool, if the wire type is BOOL). -/
theorem Chunk.field (nm : String) (tt : Nat) (id : Int) (body : List Event) (hid : -32768 ≤ id ∧ id < 32768)
    (htt : cmpTT tt) (hlt : tt < 256) (h0 : tt ≠ 0) (hc0 : ctype tt ≠ 0) (hbody : Chunk body)
    (hbool : tt = 2 → ∃ b, body = [.bool b]) : Chunk ([.fb nm tt id] ++ body ++ [.fe]) := by
  have hfe : Chunk [.fe] := Chunk.single .fe trivial trivial (by intro _ _ _ h; cases h) (by intro _ h; cases h) (by intro h; cases h)
  refine ⟨?_, ?_, ?_⟩
  · intro e he
    simp only [List.cons_append, List.nil_append, List.mem_cons, List.mem_append, List.not_mem_nil, or_false] at he
    rcases he with rfl | he | rfl
    · exact ⟨by omega, hlt, hid.1, hid.2⟩
    · exact hbody.bin e he
    · trivial
  · intro tail
    by_cases h2 : tt = 2
    · obtain ⟨b, rfl⟩ := hbool h2
      subst h2
      simp only [List.cons_append, List.nil_append, cmpOKb, hid, decide_true, Bool.true_and, and_self]
      exact hfe.ok tail
    · simp only [List.cons_append, List.nil_append, List.append_assoc]
      rw [cmpOKb_cons_other _ _ (by intro nm' id' h; cases h; exact h2 rfl)]
      have : CmpFits (.fb nm tt id) := ⟨htt, hc0, hid.1, hid.2⟩
      simp only [this, decide_true, Bool.true_and]
      rw [hbody.ok]
      exact hfe.ok tail
  · intro k tail
    simp only [List.cons_append, List.nil_append, List.append_assoc]
    have : ∀ l, cmpBalanced k (.fb nm tt id :: l) = cmpBalanced k l := by
      intro l; cases k <;> simp [cmpBalanced]
    rw [this, hbody.bal]
    exact hfe.bal k tail

theorem Chunk.struct (nm : String) (body : List Event) (hbody : Chunk body) :
    Chunk ([.sb nm] ++ body ++ [.fs, .se]) := by
  have hfs : Chunk [.fs] := Chunk.single .fs trivial trivial (by intro _ _ _ h; cases h) (by intro _ h; cases h) (by intro h; cases h)
  refine ⟨?_, ?_, ?_⟩
  · intro e he
    simp only [List.cons_append, List.nil_append, List.mem_cons, List.mem_append, List.not_mem_nil, or_false] at he
    rcases he with rfl | he | rfl | rfl
    · trivial
    · exact hbody.bin e he
    · trivial
    · trivial
  · intro tail
    simp only [List.cons_append, List.nil_append, List.append_assoc]
    rw [cmpOKb_cons_other _ _ (by intro nm' id' h; cases h)]
    have h1 : CmpFits (.sb nm) := trivial
    simp only [h1, decide_true, Bool.true_and]
    rw [hbody.ok]
    have := hfs.ok (.se :: tail)
    simp only [List.cons_append, List.nil_append] at this
    rw [this, cmpOKb_cons_other _ _ (by intro nm' id' h; cases h)]
    have h2 : CmpFits .se := trivial
    simp only [h2, decide_true, Bool.true_and]
  · intro k tail
    simp only [List.cons_append, List.nil_append, List.append_assoc]
    have e1 : ∀ l, cmpBalanced k (.sb nm :: l) = cmpBalanced (k + 1) l := by
      intro l; rw [cmpBalanced]
    have e2 : ∀ l, cmpBalanced (k + 1) (.se :: l) = cmpBalanced k l := by
      intro l; rw [cmpBalanced]
    rw [e1, hbody.bal]
    have := hfs.bal (k + 1) (.se :: tail)
    simp only [List.cons_append, List.nil_append] at this
    rw [this, e2]


theorem Chunk.lb (tt n : Nat) (ht : cmpTT tt) (hlt : tt < 256) (hn : n ≤ maxMessageSize) : Chunk [.lb tt n] :=
  Chunk.single (.lb tt n) ⟨hlt, hn⟩ ⟨ht, hn⟩ (by intro _ _ _ h; cases h) (by intro _ h; cases h) (by intro h; cases h)
theorem Chunk.tb (tt n : Nat) (ht : cmpTT tt) (hlt : tt < 256) (hn : n ≤ maxMessageSize) : Chunk [.tb tt n] :=
  Chunk.single (.tb tt n) ⟨hlt, hn⟩ ⟨ht, hn⟩ (by intro _ _ _ h; cases h) (by intro _ h; cases h) (by intro h; cases h)
theorem Chunk.mb (kt vt n : Nat) (hk : cmpTT kt) (hkl : kt < 256) (hv : cmpTT vt) (hvl : vt < 256) (hn : n ≤ maxMessageSize) :
    Chunk [.mb kt vt n] :=
  Chunk.single (.mb kt vt n) ⟨hkl, hvl, hn⟩ ⟨hk, hv, hn⟩ (by intro _ _ _ h; cases h) (by intro _ h; cases h) (by intro h; cases h)
theorem Chunk.le : Chunk [.le] :=
  Chunk.single .le trivial trivial (by intro _ _ _ h; cases h) (by intro _ h; cases h) (by intro h; cases h)
theorem Chunk.te : Chunk [.te] :=
  Chunk.single .te trivial trivial (by intro _ _ _ h; cases h) (by intro _ h; cases h) (by intro h; cases h)
theorem Chunk.me : Chunk [.me] :=
  Chunk.single .me trivial trivial (by intro _ _ _ h; cases h) (by intro _ h; cases h) (by intro h; cases h)
theorem Chunk.bool (b : Bool) : Chunk [.bool b] :=
  Chunk.single (.bool b) trivial trivial (by intro _ _ _ h; cases h) (by intro _ h; cases h) (by intro h; cases h)
theorem Chunk.byte (k : Int) (h : -128 ≤ k ∧ k < 128) : Chunk [.byte k] :=
  Chunk.single (.byte k) h h (by intro _ _ _ h; cases h) (by intro _ h; cases h) (by intro h; cases h)
theorem Chunk.i16 (k : Int) (h : -32768 ≤ k ∧ k < 32768) : Chunk [.i16 k] :=
  Chunk.single (.i16 k) h h (by intro _ _ _ h; cases h) (by intro _ h; cases h) (by intro h; cases h)
theorem Chunk.i32 (k : Int) (h : -2147483648 ≤ k ∧ k < 2147483648) : Chunk [.i32 k] :=
  Chunk.single (.i32 k) h h (by intro _ _ _ h; cases h) (by intro _ h; cases h) (by intro h; cases h)
theorem Chunk.i64 (k : Int) (h : -9223372036854775808 ≤ k ∧ k < 9223372036854775808) : Chunk [.i64 k] :=
  Chunk.single (.i64 k) h h (by intro _ _ _ h; cases h) (by intro _ h; cases h) (by intro h; cases h)
theorem Chunk.dbl (b : Nat) (h : b < 18446744073709551616) : Chunk [.dbl b] :=
  Chunk.single (.dbl b) h h (by intro _ _ _ h; cases h) (by intro _ h; cases h) (by intro h; cases h)
theorem Chunk.str (fl : Bool) (b : Bytes) (h : b.length ≤ maxMessageSize) : Chunk [.str fl b] :=
  Chunk.single (.str fl b) h h (by intro _ _ _ h; cases h) (by intro _ h; cases h) (by intro h; cases h)

/-- begin ++ body ++ end of a container. -/
theorem Chunk.wrap (b e : Event) (body : List Event) (hb : Chunk [b]) (he : Chunk [e]) (hbody : Chunk body) :
    Chunk ([b] ++ body ++ [e]) := Chunk.append (Chunk.append hb hbody) he

theorem zeroEvents_chunk (d : Defs) (t : Ty) (zs : List Event) (h : zeroEvents d t = some zs) :
    Chunk zs ∧ (wireOf d t = 2 → ∃ b, zs = [.bool b]) ∧ wireOf d t ≠ 0 := by
  have hm : (0 : Nat) ≤ maxMessageSize := Nat.zero_le _
  unfold zeroEvents at h
  cases hres : resolve d t <;> simp only [hres] at h <;> try cases h
  case bool => exact ⟨Chunk.bool _, fun _ => ⟨false, rfl⟩, by simp [wireOf, hres]⟩
  case byte => exact ⟨Chunk.byte 0 (by omega), by simp [wireOf, hres], by simp [wireOf, hres]⟩
  case i16 => exact ⟨Chunk.i16 0 (by omega), by simp [wireOf, hres], by simp [wireOf, hres]⟩
  case i32 => exact ⟨Chunk.i32 0 (by omega), by simp [wireOf, hres], by simp [wireOf, hres]⟩
  case i64 => exact ⟨Chunk.i64 0 (by omega), by simp [wireOf, hres], by simp [wireOf, hres]⟩
  case enum nm => exact ⟨Chunk.i32 0 (by omega), by simp [wireOf, hres], by simp [wireOf, hres]⟩
  case double => exact ⟨Chunk.dbl 0 (by omega), by simp [wireOf, hres], by simp [wireOf, hres]⟩
  case string => exact ⟨Chunk.str _ [] hm, by simp [wireOf, hres], by simp [wireOf, hres]⟩
  case binary => exact ⟨Chunk.str _ [] hm, by simp [wireOf, hres], by simp [wireOf, hres]⟩
  case list a =>
    exact ⟨Chunk.append (Chunk.lb _ 0 (wireOf_cmpTT d a) (wireOf_lt d a) hm) Chunk.le, by simp [wireOf, hres], by simp [wireOf, hres]⟩
  case set a =>
    exact ⟨Chunk.append (Chunk.tb _ 0 (wireOf_cmpTT d a) (wireOf_lt d a) hm) Chunk.te, by simp [wireOf, hres], by simp [wireOf, hres]⟩
  case map k v =>
    exact ⟨Chunk.append (Chunk.mb _ _ 0 (wireOf_cmpTT d k) (wireOf_lt d k) (wireOf_cmpTT d v) (wireOf_lt d v) hm) Chunk.me,
      by simp [wireOf, hres], by simp [wireOf, hres]⟩


/-- A well-typed value is never written under wire type 0, and under wire type BOOL only as one bool. -/
theorem enc_shape (d : Defs) (n : Nat) (t : Ty) (v : Val) (es : List Event)
    (hwt : WT d n t v) (henc : encV d n t v = .ok es) :
    wireOf d t ≠ 0 ∧ (wireOf d t = 2 → ∃ b, es = [.bool b]) := by
  cases n with
  | zero => simp [WT] at hwt
  | succ n =>
    unfold WT at hwt
    unfold encV at henc
    split at hwt
    all_goals (rename_i hres; simp only [hres] at henc)
    case h_1 => cases henc; exact ⟨by simp [wireOf, hres], fun _ => ⟨_, rfl⟩⟩
    case h_14 => exact absurd hwt (by simp)
    all_goals exact ⟨by simp [wireOf, hres], by simp [wireOf, hres]⟩

/-- Every call sequence the emitted `Write` produces for a well-typed value that fits is one the
byte protocols round-trip. -/
theorem encV_chunk (d : Defs) : ∀ (n : Nat) (t : Ty) (v : Val) (es : List Event),
    WT d n t v → Fits d n t v → encV d n t v = .ok es → Chunk es := by
  intro n
  induction n with
  | zero => intro t v es h; simp [WT] at h
  | succ n ih =>
    intro t v es hwt hfit henc
    unfold WT at hwt
    unfold Fits at hfit
    unfold encV at henc
    split at hwt
    all_goals (rename_i hres; simp only [hres] at henc hfit)
    case h_1 => cases henc; exact Chunk.bool _
    case h_2 => cases henc; exact Chunk.byte _ hfit
    case h_3 => cases henc; exact Chunk.i16 _ hfit
    case h_4 => cases henc; exact Chunk.i32 _ hfit
    case h_5 => cases henc; exact Chunk.i64 _ hfit
    case h_6 => cases henc; exact Chunk.i32 _ hfit
    case h_7 => cases henc; exact Chunk.dbl _ hfit
    case h_8 => cases henc; exact Chunk.str _ _ hfit
    case h_9 => cases henc; exact Chunk.str _ _ hfit
    case h_10 a vs =>
      split at henc
      · rename_i body hbody
        cases henc
        obtain ⟨cs, hall, rfl⟩ := concatRes_map_ok _ _ _ hbody
        refine Chunk.wrap _ _ _ (Chunk.lb _ _ (wireOf_cmpTT d a) (wireOf_lt d a) hfit.1) Chunk.le ?_
        exact Chunk.flatten (encV d n a) (fun x => WT d n a x ∧ Fits d n a x)
          (fun x c hp hc => ih a x c hp.1 hp.2 hc) vs cs hall (fun x hx => ⟨hwt x hx, hfit.2 x hx⟩)
      · cases henc
      · cases henc
    case h_11 a vs =>
      split at henc
      · rename_i body hbody
        cases henc
        obtain ⟨cs, hall, rfl⟩ := concatRes_map_ok _ _ _ hbody
        refine Chunk.wrap _ _ _ (Chunk.tb _ _ (wireOf_cmpTT d a) (wireOf_lt d a) hfit.1) Chunk.te ?_
        exact Chunk.flatten (encV d n a) (fun x => WT d n a x ∧ Fits d n a x)
          (fun x c hp hc => ih a x c hp.1 hp.2 hc) vs cs hall (fun x hx => ⟨hwt x hx, hfit.2 x hx⟩)
      · cases henc
      · cases henc
    case h_12 kt vt kvs =>
      split at henc
      · rename_i body hbody
        cases henc
        obtain ⟨cs, hall, rfl⟩ := concatRes_map_ok _ _ _ hbody
        refine Chunk.wrap _ _ _ (Chunk.mb _ _ _ (wireOf_cmpTT d kt) (wireOf_lt d kt) (wireOf_cmpTT d vt) (wireOf_lt d vt) hfit.1) Chunk.me ?_
        refine Chunk.flatten (fun kv : Val × Val => concatRes [encV d n kt kv.1, encV d n vt kv.2])
          (fun kv => (WT d n kt kv.1 ∧ WT d n vt kv.2) ∧ (Fits d n kt kv.1 ∧ Fits d n vt kv.2)) ?_ kvs cs hall
          (fun kv hkv => ⟨hwt kv hkv, hfit.2 kv hkv⟩)
        intro kv c hp hc
        obtain ⟨ca, cb, hca, hcb, rfl⟩ := concatRes_pair _ _ _ hc
        exact Chunk.append (ih kt kv.1 ca hp.1.1 hp.2.1 hca) (ih vt kv.2 cb hp.1.2 hp.2.2 hcb)
      · cases henc
      · cases henc
    case h_13 nm fs =>
      obtain ⟨sd, hsd, hnd, hcanon, hun, hreq, hfields, hset, hdflt⟩ := hwt
      obtain ⟨sd', hsd', hids, hff⟩ := hfit
      rw [hsd] at hsd'; cases hsd'
      simp only [hsd] at henc
      split at henc
      · cases henc
      · split at henc
        · rename_i body hbody
          cases henc
          obtain ⟨cs, hall, rfl⟩ := concatRes_map_ok _ _ _ hbody
          refine Chunk.struct _ _ ?_
          refine Chunk.flatten (fieldEvents d (encV d n) sd fs) (fun f => f ∈ sd.fields) ?_ sd.fields cs hall (fun f hf => hf)
          intro f c hf hc
          unfold fieldEvents at hc
          cases hl : lookupVal fs f.id with
          | some fv =>
            simp only [hl] at hc
            rw [if_pos (hset f hf fv hl)] at hc
            split at hc
            · rename_i fes hfes
              cases hc
              have hsh := enc_shape d n f.ty fv fes (hfields f hf fv hl) hfes
              exact Chunk.field _ _ _ _ (hids f hf) (wireOf_cmpTT d f.ty) (wireOf_lt d f.ty) hsh.1
                (ctype_wireOf_ne d f.ty hsh.1) (ih f.ty fv fes (hfields f hf fv hl) (hff f hf fv hl) hfes) hsh.2
            · cases hc
            · cases hc
          | none =>
            -- a well-formed value lists its non-optional fields: only an unset optional field is left
            simp only [hl] at hc
            rw [if_pos (optional_of_absent sd fs hreq f hf hl)] at hc
            cases hc; exact Chunk.nil
        · cases henc
        · cases henc

theorem Chunk.hyps {es : List Event} (h : Chunk es) :
    (∀ e ∈ es, BinFits e) ∧ CmpOK es ∧ cmpBalanced 0 es = true := by
  refine ⟨h.bin, ?_, ?_⟩
  · have := h.ok []
    rw [List.append_nil] at this
    simp only [CmpOK, this, cmpOKb]
  · have := h.bal 0 []
    rw [List.append_nil] at this
    rw [this, cmpBalanced]

end FV.Thrift
