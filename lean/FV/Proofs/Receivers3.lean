/-
Lemmas about the generic client path of FV.Model.Receivers3 (C05 (d)): the binary protocol's message envelope
reader and `processReply` never panic; what a reply can and cannot do to the caller's context.
-/
import FV.Model.Receivers3
import FV.Proofs.Headers

namespace FV.Recv3
open FV

theorem binReadString_no_panic (b : Bytes) : ∀ p, binReadString b ≠ .panic p := by
  intro p
  unfold binReadString
  split
  · intro h; cases h
  · rename_i size r _
    split
    · intro h; cases h
    · split
      · intro h; cases h
      · split
        · intro h; cases h
        · split
          · have : bufSlice size = .ok size.toNat := by
              unfold bufSlice; rw [if_pos (by omega)]
            rw [this]
            dsimp only
            split <;> (intro h; cases h)
          · split <;> (intro h; cases h)

theorem binMessageBegin_no_panic (b : Bytes) : ∀ p, binMessageBegin b ≠ .panic p := by
  intro p
  unfold binMessageBegin
  split
  · intro h; cases h
  · rename_i size r _
    split
    · split
      · intro h; cases h
      · split
        · rename_i q hq; exact absurd hq (binReadString_no_panic r q)
        · intro h; cases h
        · split <;> (intro h; cases h)
    · split
      · intro h; cases h
      · dsimp only
        split
        · intro h; cases h
        · split <;> (intro h; cases h)

/-- `processReply` never panics, and it never fails as a function either: every reply is a stage. -/
theorem processReply_total (method reply : Bytes) : ∃ o, processReply method reply = .ok o := by
  unfold processReply
  split
  · rename_i q hq; exact absurd hq (unmarshalStream_no_panic reply q)
  · exact ⟨_, rfl⟩
  · dsimp only
    split
    · rename_i q hq; exact absurd hq (binMessageBegin_no_panic _ q)
    · exact ⟨_, rfl⟩
    · split
      · exact ⟨_, rfl⟩
      · split
        · exact ⟨_, rfl⟩
        · split <;> exact ⟨_, rfl⟩

theorem dropOpId_no_opid (h : Hdrs) : ∀ kv ∈ dropOpId h, kv.1 ≠ opIdHeader := by
  intro kv hk
  unfold dropOpId at hk
  have := (List.mem_filter.mp hk).2
  simpa using this

/-- The headers a reply adds to the caller's context never include `_opid`. -/
theorem processReply_keeps_opid (method reply : Bytes) (o : ReplyOutcome) (h : processReply method reply = .ok o) :
    ∀ kv ∈ o.added, kv.1 ≠ opIdHeader := by
  unfold processReply at h
  split at h
  · cases h
  · cases h; intro kv hk; cases hk
  · dsimp only at h
    split at h
    · cases h
    · cases h; exact dropOpId_no_opid _
    · split at h
      · cases h; exact dropOpId_no_opid _
      · split at h
        · cases h; exact dropOpId_no_opid _
        · split at h <;> (cases h; exact dropOpId_no_opid _)

/-- The result is accepted (`reply` stage) only for a REPLY envelope carrying the method's own name. -/
theorem processReply_reply_stage (method reply : Bytes) (o : ReplyOutcome) (h : processReply method reply = .ok o)
    (hs : o.stage = .reply) :
    ∃ hd rest name r2, unmarshalStream reply = .ok (hd, rest) ∧ binMessageBegin rest = .ok (name, 2, r2) ∧ name = method := by
  unfold processReply at h
  split at h
  · cases h
  · cases h; cases hs
  · rename_i hd rest hu
    dsimp only at h
    split at h
    · cases h
    · cases h; cases hs
    · rename_i name ty r2 hm
      split at h
      · cases h; cases hs
      · rename_i hname
        split at h
        · cases h; cases hs
        · split at h
          · cases h; cases hs
          · rename_i h3 h2
            have : ty = 2 := by
              cases Nat.decEq ty 2 with
              | isTrue h => exact h
              | isFalse h => exact absurd h h2
            subst this
            refine ⟨hd, rest, name, r2, hu, hm, ?_⟩
            cases hd2 : decide (name = method) with
            | true => exact of_decide_eq_true hd2
            | false => exact absurd (of_decide_eq_false hd2) hname

end FV.Recv3
