/-
Invariant of the NATS client transport life-cycle model (C15).
-/
import FV.Model.NatsClient
namespace FV.NatsClient

/-- Invariant: no channel misuse so far; every incarnation but the open one has exactly one value
and a closed channel; the open one has none. -/
structure NInv (s : Sys) : Prop where
  noPanic : s.panicked = false
  subInc : s.sub = true → s.incs ≠ []
  each : ∀ (k : Nat) (i : Inc), s.incs[k]? = some i →
    if s.sub = true ∧ k + 1 = s.incs.length then i.sent = 0 ∧ i.chanClosed = false
    else i.sent = 1 ∧ i.chanClosed = true

theorem ninv_init : NInv init := by
  constructor <;> simp [init]

theorem ninv_env {s : Sys} (h : NInv s) (c : Conn) (b : Bool) : NInv { s with conn := c, broker := b } :=
  ⟨h.noPanic, h.subInc, h.each⟩

theorem ninv_step {s : Sys} (h : NInv s) (a : Act) : NInv (step s a).1 := by
  cases a with
  | isOpen => exact h
  | request => exact h
  | connClose => exact ninv_env h _ _
  | brokerDown => exact ninv_env h _ _
  | brokerUp => exact ninv_env h _ _
  | «open» =>
    simp only [step]
    split
    · exact h
    · split
      · exact h
      · rename_i _ hs
        have hs : s.sub = false := by simpa using hs
        refine ⟨h.noPanic, by simp, ?_⟩
        intro k i hk
        simp only [List.length_append, List.length_cons, List.length_nil] at *
        by_cases hlt : k < s.incs.length
        · rw [List.getElem?_append_left hlt] at hk
          have := h.each k i hk
          simp [hs] at this
          have hne : ¬ (k = s.incs.length) := by omega
          simp [hne]; exact this
        · have hk' := hk
          rw [List.getElem?_append_right (by omega)] at hk
          have hlen := (List.getElem?_eq_some_iff.mp hk').1
          simp at hlen
          have : k - s.incs.length = 0 := by omega
          simp [this] at hk; subst hk
          have : k + 1 = s.incs.length + (0 + 1) := by omega
          simp [this]
  | close =>
    simp only [step]
    split
    · exact h
    · rename_i hs
      have hs : s.sub = true := by simpa using hs
      split
      · exact h
      · -- Unsubscribe succeeded: publish on the open incarnation's channel
        have hne := h.subInc hs
        obtain ⟨l, x, hl⟩ : ∃ l x, s.incs = l ++ [x] := ⟨s.incs.dropLast, s.incs.getLast hne, (List.dropLast_concat_getLast hne).symm⟩
        have hx := h.each l.length x (by rw [hl]; simp)
        simp [hs, hl] at hx
        have hlast : s.incs.getLast? = some x := by rw [hl]; simp
        simp only [baseClose, hlast, hx.2, hx.1]
        refine ⟨h.noPanic, by simp, ?_⟩
        intro k i hk
        have hdl : s.incs.dropLast = l := by rw [hl]; simp
        rw [hdl] at hk
        simp only [Bool.false_eq_true, if_false] at hk
        simp only [Bool.false_eq_true, false_and, if_false]
        by_cases hlt : k < l.length
        · rw [List.getElem?_append_left hlt] at hk
          have := h.each k i (by rw [hl, List.getElem?_append_left hlt]; exact hk)
          have hne2 : ¬ (k + 1 = s.incs.length) := by rw [hl]; simp; omega
          simp [hne2] at this; exact this
        · have hk' := hk
          rw [List.getElem?_append_right (by omega)] at hk
          have hlen := (List.getElem?_eq_some_iff.mp hk').1
          simp at hlen
          have : k - l.length = 0 := by omega
          simp [this] at hk; subst hk; simp

theorem ninv_run {s : Sys} (h : NInv s) (as : List Act) : NInv (run s as) := by
  induction as generalizing s with
  | nil => exact h
  | cons a t ih => exact ih (ninv_step h a)

theorem ninv_reachable {s : Sys} (h : Reachable s) : NInv s := by
  obtain ⟨as, rfl⟩ := h; exact ninv_run ninv_init as
end FV.NatsClient
