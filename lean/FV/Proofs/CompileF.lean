/-
C11: `parseFrugal`'s include traversal — missing / circular / badly named includes are errors; a
valid program (FV/Spec/Compile.lean `ValidProg`) is accepted by the whole front end.
-/
import FV.Proofs.CompileE
namespace FV.Compile

theorem load_missing (p : Prog) (n : Nat) (vis : List Name) (v : Name) (h : findFile p v = none) :
    load p (n + 1) vis v = .err .missingInclude := by
  rw [load, h]

theorem loadIncludes_missing (p : Prog) (n : Nat) (vis : List Name) (v : Name) (vs : List Name)
    (hs : (hasSuffix v thriftExt || hasSuffix v frugalExt) = true) (h : findFile p v = none) :
    loadIncludes p (n + 1) vis (v :: vs) = .err .missingInclude := by
  rw [loadIncludes, hs, load_missing p n vis v h]
  rfl

theorem load_circular (p : Prog) (n : Nat) (vis : List Name) (v : Name) (f : File) (h : findFile p v = some f)
    (hc : vis.contains f.name = true) : load p (n + 1) vis v = .err .circularInclude := by
  rw [load, h]
  dsimp only
  rw [if_pos hc]

theorem loadIncludes_badName (p : Prog) (n : Nat) (vis : List Name) (v : Name) (vs : List Name)
    (hs : (hasSuffix v thriftExt || hasSuffix v frugalExt) = false) :
    loadIncludes p n vis (v :: vs) = .err .badIncludeName := by
  rw [loadIncludes, hs]
  rfl

theorem name_inj {p : Prog} (hd : (p.map (·.name)).Nodup) {f g : File} (hf : f ∈ p) (hg : g ∈ p)
    (he : f.name = g.name) : f = g := by
  induction p with
  | nil => cases hf
  | cons x xs ih =>
    rw [List.map_cons, List.nodup_cons] at hd
    rcases List.mem_cons.mp hf with rfl | hf' <;> rcases List.mem_cons.mp hg with rfl | hg'
    · rfl
    · exact absurd (List.mem_map.mpr ⟨g, hg', he.symm⟩) hd.1
    · exact absurd (List.mem_map.mpr ⟨f, hf', he⟩) hd.1
    · exact ih hd.2 hf' hg'

theorem findFile_eq {p : Prog} (hd : (p.map (·.name)).Nodup) {g : File} (hg : g ∈ p) :
    findFile p (g.name ++ frugalExt) = some g := by
  unfold findFile
  cases h : p.find? (fun f => f.name ++ frugalExt = g.name ++ frugalExt ∨ f.name ++ thriftExt = g.name ++ frugalExt) with
  | none =>
    have := List.find?_eq_none.mp h g hg
    simp at this
  | some f =>
    have hm := List.mem_of_find?_eq_some h
    have hp := List.find?_some h
    simp only [decide_eq_true_eq] at hp
    have hn : f.name = g.name := by
      rcases hp with hp | hp
      · exact List.append_cancel_right hp
      · have := (List.append_inj' hp (by decide)).2
        exact absurd this (by decide)
    rw [name_inj hd hm hg hn]

theorem hasSuffix_frugal (n : Name) : (hasSuffix (n ++ frugalExt) thriftExt || hasSuffix (n ++ frugalExt) frugalExt) = true := by
  have : hasSuffix (n ++ frugalExt) frugalExt = true := by
    unfold hasSuffix
    rw [List.reverse_append, List.isPrefixOf_iff_prefix]
    exact List.prefix_append _ _
  rw [this, Bool.or_true]

theorem includeKey_frugal (n : Name) : ∃ k, includeKey (n ++ frugalExt) = .ok k := by
  unfold includeKey goSliceTo
  have hl : (n ++ frugalExt).length = n.length + 7 := by rw [List.length_append]; rfl
  refine ⟨(n ++ frugalExt).take n.length, ?_⟩
  rw [hl]
  have h1 : (0 : Int) ≤ ((n.length + 7 : Nat) : Int) - 7 ∧ ((n.length + 7 : Nat) : Int) - 7 ≤ ((n.length + 7 : Nat) : Int) := by omega
  rw [if_pos h1]
  congr 2
  omega

theorem includesLater_suffix : ∀ (a b : Prog), IncludesLater (a ++ b) → IncludesLater b := by
  intro a
  induction a with
  | nil => intro b h; exact h
  | cons x xs ih => intro b h; exact ih b h.2

/-- Loading a file of a valid program succeeds with fuel for the files listed after it. -/
theorem load_ok (p : Prog) (hd : (p.map (·.name)).Nodup) (hv : ∀ f ∈ p, Valid (ctxOf p f)) :
    ∀ (k : Nat) (pre : Prog) (f : File) (rest : Prog), rest.length ≤ k → p = pre ++ f :: rest →
      IncludesLater (f :: rest) → ∀ fuel, k + 1 ≤ fuel → ∀ vis : List Name, (∀ n ∈ vis, n ∈ pre.map (·.name)) →
      load p fuel vis (f.name ++ frugalExt) = .ok () := by
  intro k
  induction k with
  | zero =>
    intro pre f rest hk hp hinc fuel hfuel vis hvis
    obtain ⟨fuel', rfl⟩ : ∃ m, fuel = m + 1 := ⟨fuel - 1, by omega⟩
    have hfp : f ∈ p := by rw [hp]; simp
    have hrest : rest = [] := List.eq_nil_of_length_eq_zero (by omega)
    rw [load, findFile_eq hd hfp]
    dsimp only
    have hnv : vis.contains f.name = false := by
      cases hc : vis.contains f.name with
      | false => rfl
      | true =>
        exfalso
        have h1 := hvis _ (List.contains_iff_mem.mp hc)
        rw [hp, List.map_append, List.map_cons] at hd
        exact (List.nodup_append.mp hd).2.2 _ h1 _ List.mem_cons_self rfl
    rw [hnv]
    simp only [Bool.false_eq_true, if_false]
    have hinc0 : f.includes = [] := by
      cases hi : f.includes with
      | nil => rfl
      | cons v vs =>
        obtain ⟨g, hg, _⟩ := hinc.1 v (by rw [hi]; exact List.mem_cons_self)
        rw [hrest] at hg; cases hg
    rw [hinc0, loadIncludes]
    exact (valid_iff_validateFile _).mp (hv f hfp)
  | succ k ih =>
    intro pre f rest hk hp hinc fuel hfuel vis hvis
    obtain ⟨fuel', rfl⟩ : ∃ m, fuel = m + 1 := ⟨fuel - 1, by omega⟩
    have hfp : f ∈ p := by rw [hp]; simp
    rw [load, findFile_eq hd hfp]
    dsimp only
    have hnv : vis.contains f.name = false := by
      cases hc : vis.contains f.name with
      | false => rfl
      | true =>
        exfalso
        have h1 := hvis _ (List.contains_iff_mem.mp hc)
        rw [hp, List.map_append, List.map_cons] at hd
        exact (List.nodup_append.mp hd).2.2 _ h1 _ List.mem_cons_self rfl
    rw [hnv]
    simp only [Bool.false_eq_true, if_false]
    have hincs : ∀ vs : List Name, (∀ v ∈ vs, ∃ g ∈ rest, v = g.name ++ frugalExt) →
        loadIncludes p fuel' (vis ++ [f.name]) vs = .ok () := by
      intro vs
      induction vs with
      | nil => intro _; rw [loadIncludes]
      | cons v vs ihv =>
        intro hvs
        obtain ⟨g, hg, rfl⟩ := hvs v List.mem_cons_self
        obtain ⟨r1, r2, hr⟩ := List.append_of_mem hg
        have hload : load p fuel' (vis ++ [f.name]) (g.name ++ frugalExt) = .ok () := by
          apply ih (pre ++ f :: r1) g r2
          · rw [hr] at hk; simp at hk; omega
          · rw [hp, hr]; simp
          · apply includesLater_suffix (f :: r1)
            rw [hr] at hinc
            simpa using hinc
          · omega
          · intro n hn
            rcases List.mem_append.mp hn with hn | hn
            · rw [List.map_append]; exact List.mem_append_left _ (hvis n hn)
            · have : n = f.name := by simpa using hn
              subst this
              simp
        obtain ⟨key, hkey⟩ := includeKey_frugal g.name
        rw [loadIncludes, hasSuffix_frugal, hload]
        simp only [Bool.not_true, Bool.false_eq_true, if_false, hkey]
        exact ihv (fun w hw => hvs w (List.mem_cons_of_mem _ hw))
    rw [hincs f.includes hinc.1]
    exact (valid_iff_validateFile _).mp (hv f hfp)

/-- valid ⇒ ok for the whole front end: the main file and, first, everything it includes. -/
theorem front_ok_of_validProg (p : Prog) (vp : ValidProg p) : front p = .ok () := by
  cases p with
  | nil => exact absurd rfl vp.nonempty
  | cons f rest =>
    show load (f :: rest) ((f :: rest).length + 1) [] (f.name ++ frugalExt) = .ok ()
    exact load_ok (f :: rest) vp.distinct vp.files rest.length [] f rest (Nat.le_refl _) rfl vp.includes _
      (by simp) [] (fun n hn => by cases hn)

/-- … and conversely what the front end accepts has a valid main file (the file the name of the
first entry resolves to). -/
theorem front_ok_main_valid (f : File) (rest : Prog) (h : front (f :: rest) = .ok ()) :
    ∃ g, findFile (f :: rest) (f.name ++ frugalExt) = some g ∧ Valid (ctxOf (f :: rest) g) := by
  have h' : load (f :: rest) ((f :: rest).length + 1) [] (f.name ++ frugalExt) = .ok () := h
  rw [load] at h'
  cases hf : findFile (f :: rest) (f.name ++ frugalExt) with
  | none => rw [hf] at h'; cases h'
  | some g =>
    rw [hf] at h'
    dsimp only at h'
    refine ⟨g, rfl, (valid_iff_validateFile _).mpr ?_⟩
    split at h'
    · cases h'
    · split at h'
      · assumption
      · cases h'
      · cases h'


end FV.Compile
