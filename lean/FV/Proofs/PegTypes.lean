/-
`FieldType` of the regenerated grammar: base types, named types and arbitrarily nested
containers with white space inside the brackets, by induction over the (styled) type.
-/
import FV.Proofs.PegGaps

namespace FV.PegIdl
open FV.Peg FV.Generated FV.Act FV.Syn

/-- What may follow a type name: no identifier character, no `<` (would extend `map`/`set`/`list`
to a container opener), no `(` (would start annotations). -/
def SepOk (x : List Char) : Prop := ∀ c r, x = c :: r → idPart c = false ∧ c ≠ '<' ∧ c ≠ '('

theorem SepOk.stops {x} (h : SepOk x) : StopsAt idPart x := fun c r hx => (h c r hx).1

/-- A keyword that is not a prefix of the name is not a prefix of the name followed by a separator. -/
theorem matchLit_no_straddle : ∀ (kw n x : List Char), (∀ c ∈ kw, idPart c = true ∨ c = '<') → SepOk x →
    matchLit false kw n = none → matchLit false kw (n ++ x) = none := by
  intro kw
  induction kw with
  | nil => intro n x _ _ h; cases n <;> simp [matchLit] at h
  | cons w ws ih =>
    intro n x hkw hx h
    cases n with
    | nil =>
      cases x with
      | nil => rfl
      | cons c r =>
        have hc := hx c r rfl
        have hw := hkw w (by simp)
        have : c ≠ w := by
          intro e; subst e
          rcases hw with hw | hw
          · rw [hc.1] at hw; cases hw
          · exact hc.2.1 hw
        simp [matchLit, this]
    | cons a n' =>
      by_cases e : a = w
      · subst e
        simp only [matchLit, Bool.false_eq_true, if_false, if_true, List.cons_append] at h ⊢
        exact ih n' x (fun c hc => hkw c (by simp [hc])) hx h
      · simp [matchLit, e]

theorem typeKeywords_chars : ∀ kw ∈ typeKeywords, ∀ c ∈ kw, idPart c = true ∨ c = '<' := by decide

/-- No type keyword is a prefix of the name. -/
def NoKw (n : List Char) : Prop := ∀ kw ∈ typeKeywords, matchLit false kw n = none

theorem NoKw.sep {n x} (h : NoKw n) (hx : SepOk x) : NoTypeKeywordPrefix (n ++ x) :=
  fun kw hkw => matchLit_no_straddle kw n x (typeKeywords_chars kw hkw) hx (h kw hkw)

/-- Identifier shape: a start character followed by part characters. -/
def IdShape (n : List Char) : Prop := ∃ c t, n = c :: t ∧ idStart c = true ∧ ∀ x ∈ t, idPart x = true

theorem idPart_not_ws {c : Char} (h : idPart c = true) : wsC c = false := by
  by_cases h1 : c = ' '
  · subst h1; revert h; decide
  · by_cases h2 : c = '\t'
    · subst h2; revert h; decide
    · by_cases h3 : c = '\r'
      · subst h3; revert h; decide
      · simp [wsC, clsMatches, inRanges, h1, h2, h3]

theorem typeAnns_fails (x : List Char) (h : ∀ c r, x = c :: r → c ≠ '(') : FailsOn grammar (.ref "TypeAnnotations") x 10 := by
  have hl : matchLit false ['('] x = none := by
    cases x with
    | nil => rfl
    | cons c r => simp [matchLit, h c r rfl]
  have h1 := FailsOn.act (tag := "TypeAnnotations1") (FailsOn.seq (SeqFail.head (es := [
    .ref "__", .lab "annotations" (.star (.ref "TypeAnnotation")), .lit [')'] false]) (FailsOn.lit (g := grammar) hl)))
  exact (FailsOn.ref lk_TypeAnnotations (by rw [rule_TypeAnnotations]; exact h1)).mono (by simp)

/-- The text does not start with `(` (no annotations follow). -/
def NoParen (x : List Char) : Prop := ∀ c r, x = c :: r → c ≠ '('

theorem SepOk.noParen {x} (h : SepOk x) : NoParen x := fun c r hx => (h c r hx).2.2

theorem noAnns (x : List Char) (h : NoParen x) : ParsesTo grammar (.opt (.ref "TypeAnnotations")) x .nil x 11 :=
  ParsesTo.opt_none (typeAnns_fails x h)

theorem baseTypeName_parses (kw : List Char) (hkw : kw ∈ baseNames) (x : List Char) :
    ParsesTo grammar (.ref "BaseTypeName") (kw ++ x) (.act "BaseTypeName1" kw (.text kw)) x 14 := by
  intro F hF
  obtain ⟨F', rfl⟩ : ∃ F', F = F' + 14 := ⟨F - 14, by omega⟩
  simp only [baseNames, List.mem_cons, List.mem_nil_iff, or_false] at hkw
  rcases hkw with rfl | rfl | rfl | rfl | rfl | rfl | rfl | rfl <;>
  · simp [pExpr_ref, lk_BaseTypeName, rule_BaseTypeName, pExpr_act, pExpr_choice, pChoice_cons, pExpr_lit, matchLit]
    exact consumed_of_eq _ _ _ rfl

/-- `BaseType` on a base type name followed by a gap of `_` and a separator. -/
theorem baseType_parses (kw : List Char) (hkw : kw ∈ baseNames) (g rest : List Char) (hg : IsGap uBody g)
    (hr : NoParen rest) (ht : TokHead rest) :
    ∃ ts, ParsesTo grammar (.ref "BaseType") (kw ++ (g ++ rest))
      (.act "BaseType1" (consumed (kw ++ (g ++ rest)) rest)
        (.seq [.lab "name" (.act "BaseTypeName1" kw (.text kw)), .seq ts, .lab "annotations" .nil])) rest (2 * g.length + 90) := by
  obtain ⟨ts, hu⟩ := u_consumes g rest hg ht
  refine ⟨ts, ?_⟩
  have h1 : ParsesTo grammar (.lab "name" (.ref "BaseTypeName")) (kw ++ (g ++ rest)) _ (g ++ rest) (2 * g.length + 80) :=
    (ParsesTo.lab (baseTypeName_parses kw hkw (g ++ rest))).mono (by omega)
  have h2 : ParsesTo grammar (.ref "_") (g ++ rest) (.seq ts) rest (2 * g.length + 80) := hu.mono (by omega)
  have h3 : ParsesTo grammar (.lab "annotations" (.opt (.ref "TypeAnnotations"))) rest (.lab "annotations" .nil) rest (2 * g.length + 80) :=
    (ParsesTo.lab (noAnns rest hr)).mono (by omega)
  have hs := ParsesTo.act (tag := "BaseType1") (ParsesTo.seq (SeqRun.cons h1 (SeqRun.cons h2 (SeqRun.cons h3 SeqRun.nil))))
  exact (ParsesTo.ref lk_BaseType (by rw [rule_BaseType]; exact hs)).mono (by simp; omega)

/-- `FieldType` on a base type name: the gap and nothing else is consumed after the name. -/
theorem fieldType_base_parses (kw : List Char) (hkw : kw ∈ baseNames) (g rest : List Char) (hg : IsGap uBody g)
    (hr : NoParen rest) (ht : TokHead rest) :
    ∃ t, ParsesTo grammar (.ref "FieldType") (kw ++ (g ++ rest)) t rest (2 * g.length + 100) ∧
      textOf t = consumed (kw ++ (g ++ rest)) rest ∧ ∀ k, evTy (k + 1) t = some (.base kw []) := by
  obtain ⟨ts, hb⟩ := baseType_parses kw hkw g rest hg hr ht
  have hc := ParsesTo.act (tag := "FieldType1") (ParsesTo.lab (n := "typ") (ParsesTo.choice
    (ChoiceRun.head (es := [.ref "ContainerType", .ref "Identifier"]) hb)))
  refine ⟨_, (ParsesTo.ref lk_FieldType (by rw [rule_FieldType]; exact hc)).mono (by simp; omega), rfl, ?_⟩
  intro k
  simp [evTy, FV.Act.get, FV.Act.body, tagOf, textOf, evAnns, isNil, findLab]

/-! ### failing alternatives -/

theorem baseType_fails (x : List Char) (h : ∀ kw ∈ baseNames, matchLit false kw x = none) : FailsOn grammar (.ref "BaseType") x 22 := by
  have hc : FailsOn grammar (.ref "BaseTypeName") x 13 := by
    refine (FailsOn.ref lk_BaseTypeName ?_).mono (by omega : 12 + 1 ≤ 13)
    rw [rule_BaseTypeName]
    refine (FailsOn.act (FailsOn.choice (k := 1) ?_)).mono (by simp)
    intro e he
    simp only [List.mem_cons, List.mem_nil_iff, or_false] at he
    rcases he with rfl | rfl | rfl | rfl | rfl | rfl | rfl | rfl <;> exact FailsOn.lit (h _ (by simp [baseNames]))
  have hs := FailsOn.act (tag := "BaseType1") (FailsOn.seq (SeqFail.head (es := [.ref "_", .lab "annotations" (.opt (.ref "TypeAnnotations"))])
    (FailsOn.lab (n := "name") hc)))
  exact (FailsOn.ref lk_BaseType (by rw [rule_BaseType]; exact hs)).mono (by simp)

def kwCpp : List Char := ['c','p','p','_','t','y','p','e']
def kwMap : List Char := ['m','a','p','<']
def kwSet : List Char := ['s','e','t','<']
def kwList : List Char := ['l','i','s','t','<']

theorem cppOpt_none (x : List Char) (h : matchLit false kwCpp x = none) : ParsesTo grammar (.opt (.ref "CppType")) x .nil x 8 := by
  have h1 := FailsOn.act (tag := "CppType1") (FailsOn.seq (SeqFail.head (es := [.lab "cppType" (.ref "Literal")]) (FailsOn.lit (g := grammar) h)))
  exact (ParsesTo.opt_none (FailsOn.ref lk_CppType (by rw [rule_CppType]; exact h1))).mono (by simp)

theorem mapType_fails (x : List Char) (h1 : matchLit false kwCpp x = none) (h2 : matchLit false kwMap x = none) :
    FailsOn grammar (.ref "MapType") x 24 := by
  have hs := FailsOn.act (tag := "MapType1") (FailsOn.seq (SeqFail.tail (cppOpt_none x h1) (SeqFail.head (es := [
    .ref "WS", .lab "key" (.ref "FieldType"), .ref "WS", .lit [','] false, .ref "WS", .lab "value" (.ref "FieldType"), .ref "WS",
    .lit ['>'] false, .ref "_", .lab "annotations" (.opt (.ref "TypeAnnotations"))]) ((FailsOn.lit (g := grammar) h2).mono (by omega : 1 ≤ 8)))))
  exact (FailsOn.ref lk_MapType (by rw [rule_MapType]; exact hs)).mono (by simp)

theorem setType_fails (x : List Char) (h1 : matchLit false kwCpp x = none) (h2 : matchLit false kwSet x = none) :
    FailsOn grammar (.ref "SetType") x 20 := by
  have hs := FailsOn.act (tag := "SetType1") (FailsOn.seq (SeqFail.tail (cppOpt_none x h1) (SeqFail.head (es := [
    .ref "WS", .lab "typ" (.ref "FieldType"), .ref "WS",
    .lit ['>'] false, .ref "_", .lab "annotations" (.opt (.ref "TypeAnnotations"))]) ((FailsOn.lit (g := grammar) h2).mono (by omega : 1 ≤ 8)))))
  exact (FailsOn.ref lk_SetType (by rw [rule_SetType]; exact hs)).mono (by simp)

theorem listType_fails (x : List Char) (h2 : matchLit false kwList x = none) : FailsOn grammar (.ref "ListType") x 12 := by
  have hs := FailsOn.act (tag := "ListType1") (FailsOn.seq (SeqFail.head (es := [
    .ref "WS", .lab "typ" (.ref "FieldType"), .ref "WS",
    .lit ['>'] false, .ref "_", .lab "annotations" (.opt (.ref "TypeAnnotations"))]) (FailsOn.lit (g := grammar) h2)))
  exact (FailsOn.ref lk_ListType (by rw [rule_ListType]; exact hs)).mono (by simp)

theorem containerType_fails (x : List Char) (h1 : matchLit false kwCpp x = none) (h2 : matchLit false kwMap x = none)
    (h3 : matchLit false kwSet x = none) (h4 : matchLit false kwList x = none) : FailsOn grammar (.ref "ContainerType") x 32 := by
  have hc : FailsOn grammar (.choice [.ref "MapType", .ref "SetType", .ref "ListType"]) x 29 := by
    refine (FailsOn.choice (k := 24) ?_).mono (by simp)
    intro e he
    simp only [List.mem_cons, List.mem_nil_iff, or_false] at he
    rcases he with rfl | rfl | rfl
    · exact mapType_fails x h1 h2
    · exact (setType_fails x h1 h3).mono (by omega)
    · exact (listType_fails x h4).mono (by omega)
  have hs := FailsOn.act (tag := "ContainerType1") (FailsOn.lab (n := "typ") hc)
  exact (FailsOn.ref lk_ContainerType (by rw [rule_ContainerType]; exact hs)).mono (by omega)

/-- `FieldType` on a named type: exactly the name is consumed (the gap stays). -/
theorem fieldType_named_parses (c : Char) (s x : List Char) (hc : idStart c = true) (hs : ∀ y ∈ s, idPart y = true)
    (hno : NoKw (c :: s)) (hx : SepOk x) :
    ∃ t, ParsesTo grammar (.ref "FieldType") (c :: s ++ x) t x (s.length + 60) ∧ textOf t = consumed (c :: s ++ x) x ∧
      ∀ k, evTy (k + 1) t = some (.named (c :: s)) := by
  have hk := hno.sep hx
  have hb : ∀ kw ∈ baseNames, matchLit false kw (c :: s ++ x) = none := fun kw h => hk kw (by simp [typeKeywords, h])
  have h1 := (baseType_fails _ hb).mono (by omega : 22 ≤ s.length + 40)
  have h2 := (containerType_fails (c :: s ++ x) (hk _ (by simp [typeKeywords, kwCpp])) (hk _ (by simp [typeKeywords, kwMap]))
    (hk _ (by simp [typeKeywords, kwSet])) (hk _ (by simp [typeKeywords, kwList]))).mono (by omega : 32 ≤ s.length + 40)
  have h3 := (identifier_parses c s x hc hs hx.stops).mono (by omega : s.length + 12 ≤ s.length + 40)
  have hcr := ParsesTo.act (tag := "FieldType1") (ParsesTo.lab (n := "typ") (ParsesTo.choice
    (ChoiceRun.tail h1 (ChoiceRun.tail h2 (ChoiceRun.head (es := []) h3)))))
  refine ⟨_, (ParsesTo.ref lk_FieldType (by rw [rule_FieldType]; exact hcr)).mono (by simp; omega), rfl, ?_⟩
  intro k
  simp [evTy, FV.Act.get, FV.Act.body, tagOf, idTree, evIdent, textOf]

/-! ### styled types: a type together with the white space written inside its brackets -/

inductive STy where
  | base (n : List Char)
  | named (n : List Char)
  | list (w1 : List Char) (e : STy) (w2 : List Char)
  | set (w1 : List Char) (e : STy) (w2 : List Char)
  | map (w1 : List Char) (k : STy) (w2 w3 : List Char) (v : STy) (w4 : List Char)

namespace STy

/-- The type denoted (no annotations). -/
def erase : STy → Ty
  | base n => .base n []
  | named n => .named n
  | list _ e _ => .list e.erase []
  | set _ e _ => .set e.erase []
  | map _ k _ _ v _ => .map k.erase v.erase []

/-- The text: `list<` w1 e w2 `>`, `set<` w1 e w2 `>`, `map<` w1 k w2 `,` w3 v w4 `>`. -/
def render : STy → List Char
  | base n => n
  | named n => n
  | list w1 e w2 => kwList ++ (w1 ++ (e.render ++ (w2 ++ ['>'])))
  | set w1 e w2 => kwSet ++ (w1 ++ (e.render ++ (w2 ++ ['>'])))
  | map w1 k w2 w3 v w4 => kwMap ++ (w1 ++ (k.render ++ (w2 ++ (',' :: (w3 ++ (v.render ++ (w4 ++ ['>'])))))))

/-- Well-formed: base names are the grammar's, named types are identifiers without a type keyword
as a prefix, the `w`s are white space. -/
def Ok : STy → Prop
  | base n => n ∈ baseNames
  | named n => IdShape n ∧ NoKw n
  | list w1 e w2 => IsWs w1 ∧ e.Ok ∧ IsWs w2
  | set w1 e w2 => IsWs w1 ∧ e.Ok ∧ IsWs w2
  | map w1 k w2 w3 v w4 => IsWs w1 ∧ k.Ok ∧ IsWs w2 ∧ IsWs w3 ∧ v.Ok ∧ IsWs w4

def depth : STy → Nat
  | base _ => 0
  | named _ => 0
  | list _ e _ => e.depth + 1
  | set _ e _ => e.depth + 1
  | map _ k _ _ v _ => k.depth + v.depth + 1

/-- Fuel needed beyond the constant: grows with nesting and with the length of names and gaps. -/
def cost : STy → Nat
  | base _ => 0
  | named n => n.length
  | list w1 e w2 => e.cost + 2 * w1.length + 2 * w2.length + 30
  | set w1 e w2 => e.cost + 2 * w1.length + 2 * w2.length + 30
  | map w1 k w2 w3 v w4 => k.cost + v.cost + 2 * w1.length + 2 * w2.length + 2 * w3.length + 2 * w4.length + 40

theorem render_head : ∀ (s : STy), s.Ok → ∃ c r, s.render = c :: r ∧ idPart c = true := by
  intro s
  cases s with
  | base n =>
    intro h
    simp only [Ok, baseNames, List.mem_cons, List.mem_nil_iff, or_false] at h
    rcases h with rfl | rfl | rfl | rfl | rfl | rfl | rfl | rfl <;> exact ⟨_, _, rfl, by decide⟩
  | named n =>
    intro h
    obtain ⟨⟨c, t, rfl, hc, _⟩, _⟩ := h
    exact ⟨c, t, rfl, idStart_idPart hc⟩
  | list w1 e w2 => intro _; exact ⟨'l', _, rfl, by decide⟩
  | set w1 e w2 => intro _; exact ⟨'s', _, rfl, by decide⟩
  | map w1 k w2 w3 v w4 => intro _; exact ⟨'m', _, rfl, by decide⟩

end STy

/-- The statement proved by induction: `FieldType` on the rendered type followed by a gap `g` of `_`
and a separator: the type's value is `erase`, and the gap is either still there (named type) or consumed. -/
def TyParses (s : STy) : Prop :=
  ∀ (g rest : List Char), IsGap uBody g → SepOk (g ++ rest) → NoParen rest → TokHead rest →
    ∃ t mid, ParsesTo grammar (.ref "FieldType") (s.render ++ (g ++ rest)) t mid (s.cost + 2 * g.length + 110) ∧
      (mid = g ++ rest ∨ mid = rest) ∧ textOf t = consumed (s.render ++ (g ++ rest)) mid ∧
      ∀ k, s.depth ≤ k → evTy (k + 1) t = some s.erase

/-- A closing `>` or a `,`. -/
def Closer (tail : List Char) : Prop := ∃ c r, tail = c :: r ∧ (c = '>' ∨ c = ',')

theorem Closer.sep {tail} (h : Closer tail) : SepOk tail := by
  obtain ⟨c, r, rfl, hc⟩ := h
  intro c' r' e
  injection e with e1 e2
  subst e1
  rcases hc with rfl | rfl <;> decide

theorem Closer.tok {tail} (h : Closer tail) : TokHead tail := by
  obtain ⟨c, r, rfl, hc⟩ := h
  intro c' r' e
  injection e with e1 e2
  subst e1
  rcases hc with rfl | rfl <;> decide

theorem Closer.noWs {tail} (h : Closer tail) : StopsAt wsC tail := by
  obtain ⟨c, r, rfl, hc⟩ := h
  intro c' r' e
  injection e with e1 e2
  subst e1
  rcases hc with rfl | rfl <;> decide

theorem IsWs.sepOk_append {w tail} (hw : IsWs w) (ht : SepOk tail) : SepOk (w ++ tail) := by
  cases w with
  | nil => simpa using ht
  | cons a t =>
    intro c r e
    simp only [List.cons_append, List.cons.injEq] at e
    obtain ⟨rfl, _⟩ := e
    have ha : wsC a = true := hw a (by simp)
    refine ⟨?_, ?_, ?_⟩
    · cases h : idPart a with
      | false => rfl
      | true => rw [idPart_not_ws h] at ha; cases ha
    · intro e; subst e; revert ha; decide
    · intro e; subst e; revert ha; decide

/-- An element inside brackets: `WS` element `WS`, up to the closer. -/
theorem bracket_elem (e : STy) (hok : e.Ok) (ih : TyParses e) (w1 w2 tail : List Char) (hw1 : IsWs w1) (hw2 : IsWs w2) (hc : Closer tail) :
    ∃ t1 te mid t2,
      ParsesTo grammar (.ref "WS") (w1 ++ (e.render ++ (w2 ++ tail))) (.seq t1) (e.render ++ (w2 ++ tail)) (2 * w1.length + 70) ∧
      ParsesTo grammar (.ref "FieldType") (e.render ++ (w2 ++ tail)) te mid (e.cost + 2 * w2.length + 110) ∧
      ParsesTo grammar (.ref "WS") mid (.seq t2) tail (2 * w2.length + 70) ∧
      ∀ k, e.depth ≤ k → evTy (k + 1) te = some e.erase := by
  obtain ⟨c, r, hr, hcp⟩ := e.render_head hok
  have hstop : StopsAt wsC (e.render ++ (w2 ++ tail)) := by
    intro c' r' h
    rw [hr] at h
    simp only [List.cons_append, List.cons.injEq] at h
    rw [← h.1]; exact idPart_not_ws hcp
  obtain ⟨t1, h1⟩ := ws_consumes w1 _ hw1 hstop
  obtain ⟨te, mid, h2, hmid, _, hev⟩ := ih w2 tail hw2.gap_u (hw2.sepOk_append hc.sep) hc.sep.noParen hc.tok
  rcases hmid with rfl | rfl
  · obtain ⟨t2, h3⟩ := ws_consumes w2 tail hw2 hc.noWs
    exact ⟨t1, te, _, t2, h1, h2, h3, hev⟩
  · obtain ⟨t2, h3⟩ := ws_consumes [] mid (fun _ h => by simp at h) hc.noWs
    exact ⟨t1, te, _, t2, h1, h2, by simpa using h3.mono (by simp), hev⟩

theorem base_fails_on_container (kw x : List Char) (hkw : kw = kwList ∨ kw = kwSet ∨ kw = kwMap) :
    (∀ b ∈ baseNames, matchLit false b (kw ++ x) = none) ∧ matchLit false kwCpp (kw ++ x) = none := by
  rcases hkw with rfl | rfl | rfl <;>
  · refine ⟨?_, by simp [kwCpp, kwList, kwSet, kwMap, matchLit]⟩
    intro b hb
    simp only [baseNames, List.mem_cons, List.mem_nil_iff, or_false] at hb
    rcases hb with rfl | rfl | rfl | rfl | rfl | rfl | rfl | rfl <;> simp [kwList, kwSet, kwMap, matchLit]

theorem list_case (w1 : List Char) (e : STy) (w2 : List Char) (hok : (STy.list w1 e w2).Ok) (ih : TyParses e) :
    TyParses (.list w1 e w2) := by
  obtain ⟨hw1, hoke, hw2⟩ := hok
  intro g rest hg _ hr ht
  obtain ⟨t1, te, mid, t2, h1, h2, h3, hev⟩ := bracket_elem e hoke ih w1 w2 ('>' :: (g ++ rest)) hw1 hw2 ⟨'>', _, rfl, Or.inl rfl⟩
  obtain ⟨ts, hu⟩ := u_consumes g rest hg ht
  have hin : (STy.list w1 e w2).render ++ (g ++ rest) = kwList ++ (w1 ++ (e.render ++ (w2 ++ '>' :: (g ++ rest)))) := by
    simp [STy.render, List.append_assoc]
  obtain ⟨hbf, hcf⟩ := base_fails_on_container kwList (w1 ++ (e.render ++ (w2 ++ '>' :: (g ++ rest)))) (Or.inl rfl)
  rw [hin]
  -- the seven elements of ListType at a common fuel bound
  have s1 : ParsesTo grammar (.lit kwList false) (kwList ++ (w1 ++ (e.render ++ (w2 ++ '>' :: (g ++ rest))))) (.text kwList) _
      (e.cost + 2 * w1.length + 2 * w2.length + 2 * g.length + 111) := (ParsesTo.lit_append kwList _).mono (by omega)
  have s2 := h1.mono (by omega : 2 * w1.length + 70 ≤ e.cost + 2 * w1.length + 2 * w2.length + 2 * g.length + 111)
  have s3 := (ParsesTo.lab (n := "typ") h2).mono (by omega : e.cost + 2 * w2.length + 110 + 1 ≤ e.cost + 2 * w1.length + 2 * w2.length + 2 * g.length + 111)
  have s4 := h3.mono (by omega : 2 * w2.length + 70 ≤ e.cost + 2 * w1.length + 2 * w2.length + 2 * g.length + 111)
  have s5 : ParsesTo grammar (.lit ['>'] false) ('>' :: (g ++ rest)) (.text ['>']) (g ++ rest)
      (e.cost + 2 * w1.length + 2 * w2.length + 2 * g.length + 111) := (ParsesTo.lit_append ['>'] (g ++ rest)).mono (by omega)
  have s6 := hu.mono (by omega : 2 * g.length + 70 ≤ e.cost + 2 * w1.length + 2 * w2.length + 2 * g.length + 111)
  have s7 := (ParsesTo.lab (n := "annotations") (noAnns rest hr)).mono (by omega : 11 + 1 ≤ e.cost + 2 * w1.length + 2 * w2.length + 2 * g.length + 111)
  have hl := ParsesTo.ref lk_ListType (by
    rw [rule_ListType]
    exact ParsesTo.act (tag := "ListType1") (ParsesTo.seq (SeqRun.cons s1 (SeqRun.cons s2 (SeqRun.cons s3 (SeqRun.cons s4
      (SeqRun.cons s5 (SeqRun.cons s6 (SeqRun.cons s7 SeqRun.nil)))))))))
  have hm := (mapType_fails _ hcf (by simp [kwMap, kwList, matchLit])).mono
    (by omega : 24 ≤ 7 + (e.cost + 2 * w1.length + 2 * w2.length + 2 * g.length + 111) + 2 + 1 + 1)
  have hs := (setType_fails _ hcf (by simp [kwSet, kwList, matchLit])).mono
    (by omega : 20 ≤ 7 + (e.cost + 2 * w1.length + 2 * w2.length + 2 * g.length + 111) + 2 + 1 + 1)
  have hc := ParsesTo.ref lk_ContainerType (by
    rw [rule_ContainerType]
    exact ParsesTo.act (tag := "ContainerType1") (ParsesTo.lab (n := "typ") (ParsesTo.choice
      (ChoiceRun.tail hm (ChoiceRun.tail hs (ChoiceRun.head (es := []) (by simpa using hl)))))))
  have hb := (baseType_fails _ hbf).mono
    (by omega : 22 ≤ 3 + (7 + (e.cost + 2 * w1.length + 2 * w2.length + 2 * g.length + 111) + 2 + 1 + 1) + 2 + 1 + 1 + 1)
  have hf := ParsesTo.ref lk_FieldType (by
    rw [rule_FieldType]
    exact ParsesTo.act (tag := "FieldType1") (ParsesTo.lab (n := "typ") (ParsesTo.choice
      (ChoiceRun.tail hb (ChoiceRun.head (es := [.ref "Identifier"]) (by simpa using hc))))))
  refine ⟨_, rest, hf.mono (by simp [STy.cost]; omega), Or.inr rfl, rfl, ?_⟩
  intro k hk
  obtain ⟨k', rfl⟩ : ∃ k', k = k' + 1 := ⟨k - 1, by simp [STy.depth] at hk; omega⟩
  have := hev k' (by simp [STy.depth] at hk; omega)
  rw [evTy]
  simp [FV.Act.get, FV.Act.body, tagOf, findLab, evAnns, isNil, STy.erase, this]

theorem set_case (w1 : List Char) (e : STy) (w2 : List Char) (hok : (STy.set w1 e w2).Ok) (ih : TyParses e) :
    TyParses (.set w1 e w2) := by
  obtain ⟨hw1, hoke, hw2⟩ := hok
  intro g rest hg _ hr ht
  obtain ⟨t1, te, mid, t2, h1, h2, h3, hev⟩ := bracket_elem e hoke ih w1 w2 ('>' :: (g ++ rest)) hw1 hw2 ⟨'>', _, rfl, Or.inl rfl⟩
  obtain ⟨ts, hu⟩ := u_consumes g rest hg ht
  have hin : (STy.set w1 e w2).render ++ (g ++ rest) = kwSet ++ (w1 ++ (e.render ++ (w2 ++ '>' :: (g ++ rest)))) := by
    simp [STy.render, List.append_assoc]
  obtain ⟨hbf, hcf⟩ := base_fails_on_container kwSet (w1 ++ (e.render ++ (w2 ++ '>' :: (g ++ rest)))) (Or.inr (Or.inl rfl))
  rw [hin]
  have s0 := (cppOpt_none _ hcf).mono (by omega : 8 ≤ e.cost + 2 * w1.length + 2 * w2.length + 2 * g.length + 111)
  have s1 : ParsesTo grammar (.lit kwSet false) (kwSet ++ (w1 ++ (e.render ++ (w2 ++ '>' :: (g ++ rest))))) (.text kwSet) _
      (e.cost + 2 * w1.length + 2 * w2.length + 2 * g.length + 111) := (ParsesTo.lit_append kwSet _).mono (by omega)
  have s2 := h1.mono (by omega : 2 * w1.length + 70 ≤ e.cost + 2 * w1.length + 2 * w2.length + 2 * g.length + 111)
  have s3 := (ParsesTo.lab (n := "typ") h2).mono (by omega : e.cost + 2 * w2.length + 110 + 1 ≤ e.cost + 2 * w1.length + 2 * w2.length + 2 * g.length + 111)
  have s4 := h3.mono (by omega : 2 * w2.length + 70 ≤ e.cost + 2 * w1.length + 2 * w2.length + 2 * g.length + 111)
  have s5 : ParsesTo grammar (.lit ['>'] false) ('>' :: (g ++ rest)) (.text ['>']) (g ++ rest)
      (e.cost + 2 * w1.length + 2 * w2.length + 2 * g.length + 111) := (ParsesTo.lit_append ['>'] (g ++ rest)).mono (by omega)
  have s6 := hu.mono (by omega : 2 * g.length + 70 ≤ e.cost + 2 * w1.length + 2 * w2.length + 2 * g.length + 111)
  have s7 := (ParsesTo.lab (n := "annotations") (noAnns rest hr)).mono (by omega : 11 + 1 ≤ e.cost + 2 * w1.length + 2 * w2.length + 2 * g.length + 111)
  have hl := ParsesTo.ref lk_SetType (by
    rw [rule_SetType]
    exact ParsesTo.act (tag := "SetType1") (ParsesTo.seq (SeqRun.cons s0 (SeqRun.cons s1 (SeqRun.cons s2 (SeqRun.cons s3 (SeqRun.cons s4
      (SeqRun.cons s5 (SeqRun.cons s6 (SeqRun.cons s7 SeqRun.nil))))))))))
  have hm := (mapType_fails _ hcf (by simp [kwMap, kwSet, matchLit])).mono
    (by omega : 24 ≤ 8 + (e.cost + 2 * w1.length + 2 * w2.length + 2 * g.length + 111) + 2 + 1 + 1)
  have hc := ParsesTo.ref lk_ContainerType (by
    rw [rule_ContainerType]
    exact ParsesTo.act (tag := "ContainerType1") (ParsesTo.lab (n := "typ") (ParsesTo.choice
      (ChoiceRun.tail hm (ChoiceRun.head (es := [.ref "ListType"]) (by simpa using hl))))))
  have hb := (baseType_fails _ hbf).mono
    (by omega : 22 ≤ 3 + (8 + (e.cost + 2 * w1.length + 2 * w2.length + 2 * g.length + 111) + 2 + 1 + 1) + 2 + 1 + 1 + 1)
  have hf := ParsesTo.ref lk_FieldType (by
    rw [rule_FieldType]
    exact ParsesTo.act (tag := "FieldType1") (ParsesTo.lab (n := "typ") (ParsesTo.choice
      (ChoiceRun.tail hb (ChoiceRun.head (es := [.ref "Identifier"]) (by simpa using hc))))))
  refine ⟨_, rest, hf.mono (by simp [STy.cost]; omega), Or.inr rfl, rfl, ?_⟩
  intro k hk
  obtain ⟨k', rfl⟩ : ∃ k', k = k' + 1 := ⟨k - 1, by simp [STy.depth] at hk; omega⟩
  have := hev k' (by simp [STy.depth] at hk; omega)
  rw [evTy]
  simp [FV.Act.get, FV.Act.body, tagOf, findLab, evAnns, isNil, STy.erase, this]

theorem map_case (w1 : List Char) (k : STy) (w2 w3 : List Char) (v : STy) (w4 : List Char)
    (hok : (STy.map w1 k w2 w3 v w4).Ok) (ihk : TyParses k) (ihv : TyParses v) : TyParses (.map w1 k w2 w3 v w4) := by
  obtain ⟨hw1, hokk, hw2, hw3, hokv, hw4⟩ := hok
  intro g rest hg _ hr ht
  obtain ⟨a1, tv, midv, a2, v1, v2, v3, hevv⟩ := bracket_elem v hokv ihv w3 w4 ('>' :: (g ++ rest)) hw3 hw4 ⟨'>', _, rfl, Or.inl rfl⟩
  obtain ⟨b1, tk, midk, b2, k1, k2, k3, hevk⟩ := bracket_elem k hokk ihk w1 w2
    (',' :: (w3 ++ (v.render ++ (w4 ++ '>' :: (g ++ rest))))) hw1 hw2 ⟨',', _, rfl, Or.inr rfl⟩
  obtain ⟨ts, hu⟩ := u_consumes g rest hg ht
  have hin : (STy.map w1 k w2 w3 v w4).render ++ (g ++ rest) =
      kwMap ++ (w1 ++ (k.render ++ (w2 ++ ',' :: (w3 ++ (v.render ++ (w4 ++ '>' :: (g ++ rest))))))) := by
    simp [STy.render, List.append_assoc]
  obtain ⟨hbf, hcf⟩ := base_fails_on_container kwMap (w1 ++ (k.render ++ (w2 ++ ',' :: (w3 ++ (v.render ++ (w4 ++ '>' :: (g ++ rest)))))))
    (Or.inr (Or.inr rfl))
  rw [hin]
  have s0 := (cppOpt_none _ hcf).mono
    (by omega : 8 ≤ k.cost + v.cost + 2 * w1.length + 2 * w2.length + 2 * w3.length + 2 * w4.length + 2 * g.length + 111)
  have s1 : ParsesTo grammar (.lit kwMap false) (kwMap ++ (w1 ++ (k.render ++ (w2 ++ ',' :: (w3 ++ (v.render ++ (w4 ++ '>' :: (g ++ rest))))))))
      (.text kwMap) _ (k.cost + v.cost + 2 * w1.length + 2 * w2.length + 2 * w3.length + 2 * w4.length + 2 * g.length + 111) :=
    (ParsesTo.lit_append kwMap _).mono (by omega)
  have s2 := k1.mono (by omega : 2 * w1.length + 70 ≤ k.cost + v.cost + 2 * w1.length + 2 * w2.length + 2 * w3.length + 2 * w4.length + 2 * g.length + 111)
  have s3 := (ParsesTo.lab (n := "key") k2).mono
    (by omega : k.cost + 2 * w2.length + 110 + 1 ≤ k.cost + v.cost + 2 * w1.length + 2 * w2.length + 2 * w3.length + 2 * w4.length + 2 * g.length + 111)
  have s4 := k3.mono (by omega : 2 * w2.length + 70 ≤ k.cost + v.cost + 2 * w1.length + 2 * w2.length + 2 * w3.length + 2 * w4.length + 2 * g.length + 111)
  have s5 : ParsesTo grammar (.lit [','] false) (',' :: (w3 ++ (v.render ++ (w4 ++ '>' :: (g ++ rest))))) (.text [',']) _
      (k.cost + v.cost + 2 * w1.length + 2 * w2.length + 2 * w3.length + 2 * w4.length + 2 * g.length + 111) :=
    (ParsesTo.lit_append [','] _).mono (by omega)
  have s6 := v1.mono (by omega : 2 * w3.length + 70 ≤ k.cost + v.cost + 2 * w1.length + 2 * w2.length + 2 * w3.length + 2 * w4.length + 2 * g.length + 111)
  have s7 := (ParsesTo.lab (n := "value") v2).mono
    (by omega : v.cost + 2 * w4.length + 110 + 1 ≤ k.cost + v.cost + 2 * w1.length + 2 * w2.length + 2 * w3.length + 2 * w4.length + 2 * g.length + 111)
  have s8 := v3.mono (by omega : 2 * w4.length + 70 ≤ k.cost + v.cost + 2 * w1.length + 2 * w2.length + 2 * w3.length + 2 * w4.length + 2 * g.length + 111)
  have s9 : ParsesTo grammar (.lit ['>'] false) ('>' :: (g ++ rest)) (.text ['>']) (g ++ rest)
      (k.cost + v.cost + 2 * w1.length + 2 * w2.length + 2 * w3.length + 2 * w4.length + 2 * g.length + 111) :=
    (ParsesTo.lit_append ['>'] (g ++ rest)).mono (by omega)
  have s10 := hu.mono (by omega : 2 * g.length + 70 ≤ k.cost + v.cost + 2 * w1.length + 2 * w2.length + 2 * w3.length + 2 * w4.length + 2 * g.length + 111)
  have s11 := (ParsesTo.lab (n := "annotations") (noAnns rest hr)).mono
    (by omega : 11 + 1 ≤ k.cost + v.cost + 2 * w1.length + 2 * w2.length + 2 * w3.length + 2 * w4.length + 2 * g.length + 111)
  have hl := ParsesTo.ref lk_MapType (by
    rw [rule_MapType]
    exact ParsesTo.act (tag := "MapType1") (ParsesTo.seq (SeqRun.cons s0 (SeqRun.cons s1 (SeqRun.cons s2 (SeqRun.cons s3 (SeqRun.cons s4
      (SeqRun.cons s5 (SeqRun.cons s6 (SeqRun.cons s7 (SeqRun.cons s8 (SeqRun.cons s9 (SeqRun.cons s10 (SeqRun.cons s11 SeqRun.nil))))))))))))))
  have hc := ParsesTo.ref lk_ContainerType (by
    rw [rule_ContainerType]
    exact ParsesTo.act (tag := "ContainerType1") (ParsesTo.lab (n := "typ") (ParsesTo.choice
      (ChoiceRun.head (es := [.ref "SetType", .ref "ListType"]) (by simpa using hl)))))
  have hb := (baseType_fails _ hbf).mono
    (by omega : 22 ≤ 3 + (12 + (k.cost + v.cost + 2 * w1.length + 2 * w2.length + 2 * w3.length + 2 * w4.length + 2 * g.length + 111) + 2 + 1 + 1) + 2 + 1 + 1 + 1)
  have hf := ParsesTo.ref lk_FieldType (by
    rw [rule_FieldType]
    exact ParsesTo.act (tag := "FieldType1") (ParsesTo.lab (n := "typ") (ParsesTo.choice
      (ChoiceRun.tail hb (ChoiceRun.head (es := [.ref "Identifier"]) (by simpa using hc))))))
  refine ⟨_, rest, hf.mono (by simp [STy.cost]; omega), Or.inr rfl, rfl, ?_⟩
  intro kk hk
  obtain ⟨k', rfl⟩ : ∃ k', kk = k' + 1 := ⟨kk - 1, by simp [STy.depth] at hk; omega⟩
  have e1 := hevk k' (by simp [STy.depth] at hk; omega)
  have e2 := hevv k' (by simp [STy.depth] at hk; omega)
  rw [evTy]
  simp [FV.Act.get, FV.Act.body, tagOf, findLab, evAnns, isNil, STy.erase, e1, e2]

/-- Base case, named case. -/
theorem base_case (n : List Char) (hok : (STy.base n).Ok) : TyParses (.base n) := by
  intro g rest hg _ hr ht
  obtain ⟨t, h1, h3, h2⟩ := fieldType_base_parses n hok g rest hg hr ht
  exact ⟨t, rest, h1.mono (by simp [STy.cost]), Or.inr rfl, h3, fun k _ => h2 k⟩

theorem named_case (n : List Char) (hok : (STy.named n).Ok) : TyParses (.named n) := by
  obtain ⟨⟨c, s, rfl, hc, hs⟩, hno⟩ := hok
  intro g rest _ hsg _ _
  obtain ⟨t, h1, h3, h2⟩ := fieldType_named_parses c s (g ++ rest) hc hs hno hsg
  exact ⟨t, g ++ rest, h1.mono (by simp [STy.cost]; omega), Or.inl rfl, h3, fun k _ => h2 k⟩

/-- `FieldType` on every well-formed styled type (arbitrary nesting), by induction over the type. -/
theorem fieldType_styled : ∀ (s : STy), s.Ok → TyParses s := by
  intro s
  induction s with
  | base n => exact base_case n
  | named n => exact named_case n
  | list w1 e w2 ih => intro h; exact list_case w1 e w2 h (ih h.2.1)
  | set w1 e w2 ih => intro h; exact set_case w1 e w2 h (ih h.2.1)
  | map w1 k w2 w3 v w4 ihk ihv => intro h; exact map_case w1 k w2 w3 v w4 h (ihk h.2.1) (ihv h.2.2.2.2.1)

theorem STy.depth_le_render : ∀ (s : STy), s.depth ≤ s.render.length := by
  intro s
  induction s with
  | base n => simp [STy.depth]
  | named n => simp [STy.depth]
  | list w1 e w2 ih => simp [STy.depth, STy.render, kwList]; omega
  | set w1 e w2 ih => simp [STy.depth, STy.render, kwSet]; omega
  | map w1 k w2 w3 v w4 ihk ihv => simp [STy.depth, STy.render, kwMap]; omega

/-- The canonical styling (no white space) of a type; annotations are dropped. -/
def STy.canon : Ty → STy
  | .base n _ => .base n
  | .named n => .named n
  | .list e _ => .list [] (STy.canon e) []
  | .set e _ => .set [] (STy.canon e) []
  | .map k v _ => .map [] (STy.canon k) [] [] (STy.canon v) []

/-- No annotations anywhere in the type. -/
def NoAnns : Ty → Prop
  | .base _ a => a = []
  | .named _ => True
  | .list e a => a = [] ∧ NoAnns e
  | .set e a => a = [] ∧ NoAnns e
  | .map k v a => a = [] ∧ NoAnns k ∧ NoAnns v

theorem STy.erase_canon : ∀ (ty : Ty), NoAnns ty → (STy.canon ty).erase = ty := by
  intro ty
  induction ty with
  | base n a => intro h; simp only [NoAnns] at h; subst h; rfl
  | named n => intro _; rfl
  | list e a ih => intro h; obtain ⟨rfl, h2⟩ := h; simp [STy.canon, STy.erase, ih h2]
  | set e a ih => intro h; obtain ⟨rfl, h2⟩ := h; simp [STy.canon, STy.erase, ih h2]
  | map k v a ihk ihv => intro h; obtain ⟨rfl, h2, h3⟩ := h; simp [STy.canon, STy.erase, ihk h2, ihv h3]

/-- The evaluation fuel the actions use (`tyFuel`) is enough for the tree `TyParses` gives. -/
theorem tyEval_of_parses (s : STy) (g rest : List Char) (t : Tree) (mid : List Char) (hmid : mid = g ++ rest ∨ mid = rest)
    (htx : textOf t = consumed (s.render ++ (g ++ rest)) mid) (hev : ∀ k, s.depth ≤ k → evTy (k + 1) t = some s.erase) :
    evTy (tyFuel t) t = some s.erase := by
  have hlen : s.depth ≤ (textOf t).length + 1 := by
    rw [htx]
    rcases hmid with rfl | rfl
    · rw [consumed_append]; exact Nat.le_succ_of_le s.depth_le_render
    · rw [← List.append_assoc, consumed_append, List.length_append]
      exact Nat.le_trans s.depth_le_render (by omega)
  simpa [tyFuel] using hev _ hlen

end FV.PegIdl
