/-
C11: typedef acyclicity — the bounded walk of `validateTypedefs` accepts exactly the files in
which every typedef resolution comes to an end (pigeonhole over the visible typedefs).
-/
import FV.Spec.Compile
import FV.Proofs.Compile
import FV.Proofs.CompileA
import FV.Proofs.CompileB
import FV.Proofs.CompileC
namespace FV.Compile

theorem stopsAfter_of_walkEnds (ctx : Ctx) : ∀ (n : Nat) (t : Ty), walkEnds ctx n t = true → ∃ d, StopsAfter ctx t d := by
  intro n
  induction n with
  | zero =>
    intro t h
    unfold walkEnds at h
    cases ht : typedefTarget ctx t with
    | none => exact ⟨0, .stop ht⟩
    | some t' => rw [ht] at h; cases h
  | succ n ih =>
    intro t h
    unfold walkEnds at h
    cases ht : typedefTarget ctx t with
    | none => exact ⟨0, .stop ht⟩
    | some t' =>
      rw [ht] at h
      obtain ⟨d, hd⟩ := ih t' h
      exact ⟨d + 1, .hop ht hd⟩

theorem walkEnds_of_stopsAfter (ctx : Ctx) {t : Ty} {d : Nat} (h : StopsAfter ctx t d) :
    ∀ n, d ≤ n → walkEnds ctx n t = true := by
  induction h with
  | stop ht => intro n _; unfold walkEnds; rw [ht]
  | hop ht _ ih =>
    intro n hn
    obtain ⟨k, rfl⟩ : ∃ k, n = k + 1 := ⟨n - 1, by omega⟩
    unfold walkEnds; rw [ht]
    exact ih k (by omega)

theorem stopsAfter_unique (ctx : Ctx) {t : Ty} {a : Nat} (ha : StopsAfter ctx t a) :
    ∀ {b}, StopsAfter ctx t b → a = b := by
  induction ha with
  | stop ht =>
    intro b hb
    cases hb with
    | stop _ => rfl
    | hop ht' _ => rw [ht] at ht'; cases ht'
  | hop ht _ ih =>
    intro b hb
    cases hb with
    | stop ht' => rw [ht] at ht'; cases ht'
    | hop ht' hb' =>
      rw [ht] at ht'
      cases ht'
      rw [ih hb']

/-- The targets visited by a resolution that stops after `d` hops: `d` of them, each the
right-hand side of a visible typedef, with strictly decreasing remaining distance. -/
theorem trail (ctx : Ctx) {t : Ty} {d : Nat} (h : StopsAfter ctx t d) :
    ∃ l : List Ty, l.length = d ∧
      (∀ u ∈ l, u ∈ (allTypedefs ctx).map (·.ty) ∧ ∃ k, k < d ∧ StopsAfter ctx u k) ∧
      l.Pairwise (fun a b => ∃ ka kb, StopsAfter ctx a ka ∧ StopsAfter ctx b kb ∧ kb < ka) := by
  induction h with
  | stop _ => exact ⟨[], rfl, fun u hu => absurd hu (List.not_mem_nil), List.Pairwise.nil⟩
  | @hop t t' d ht hd ih =>
    obtain ⟨l, hl, hmem, hpw⟩ := ih
    refine ⟨t' :: l, by simp [hl], ?_, ?_⟩
    · intro u hu
      rcases List.mem_cons.mp hu with rfl | hu
      · obtain ⟨td, hm, he⟩ := typedefTarget_mem ht
        exact ⟨List.mem_map.mpr ⟨td, hm, he⟩, d, Nat.lt_succ_self d, hd⟩
      · obtain ⟨h1, k, hk, hs⟩ := hmem u hu
        exact ⟨h1, k, by omega, hs⟩
    · rw [List.pairwise_cons]
      refine ⟨?_, hpw⟩
      intro u hu
      obtain ⟨_, k, hk, hs⟩ := hmem u hu
      exact ⟨d, k, hd, hs, hk⟩

/-- Pigeonhole: a resolution that stops does so within as many hops as there are typedefs. -/
theorem stopsAfter_le_limit (ctx : Ctx) {t : Ty} {d : Nat} (h : StopsAfter ctx t d) : d ≤ typedefLimit ctx := by
  obtain ⟨l, hl, hmem, hpw⟩ := trail ctx h
  have hnd : l.Nodup := by
    rw [List.nodup_iff_pairwise_ne]
    refine hpw.imp ?_
    rintro a b ⟨ka, kb, ha, hb, hlt⟩ rfl
    have := stopsAfter_unique ctx ha hb
    omega
  have hsub : l ⊆ (allTypedefs ctx).map (·.ty) := fun u hu => (hmem u hu).1
  have := hnd.length_le_of_subset hsub
  rw [hl, List.length_map] at this
  exact this

theorem walkEnds_limit_iff (ctx : Ctx) (t : Ty) :
    walkEnds ctx (typedefLimit ctx) t = true ↔ ∃ d, StopsAfter ctx t d :=
  ⟨stopsAfter_of_walkEnds ctx _ t, fun ⟨_, hd⟩ => walkEnds_of_stopsAfter ctx hd _ (stopsAfter_le_limit ctx hd)⟩

theorem validateTypedefs_ok_iff (ctx : Ctx) :
    validateTypedefs ctx = .ok () ↔ (∀ td ∈ ctx.self.typedefs, Resolves ctx td.ty) ∧ TypedefsAcyclic ctx := by
  unfold validateTypedefs TypedefsAcyclic
  simp only [CRes.bind_unit_ok_iff, firstErr_ok_iff, guardV_ok_iff, isValidType_iff, walkEnds_limit_iff]


end FV.Compile
