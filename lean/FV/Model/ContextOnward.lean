/-
C09, handler scripts: what a handler does with the context it is given, in which ORDER.

  HAct            one action of a handler on its inbound context: AddResponseHeader, AddRequestHeader,
                  or an onward two-way call — with the inbound context itself or with a Clone of it —
                  whose downstream handler runs its own script (so depth is unbounded)
  Ctx.cloneWith   FContextImpl.Clone: both maps copied, a new _opid
  runActs         the handler body; an onward call goes THROUGH THE WIRE: WriteRequestHeader →
                  ReadRequestHeader (fresh op id) → downstream script → WriteResponseHeader →
                  ReadResponseHeader into the calling context (FStandardClient.Call touches the
                  context in no other way). One op id counter for the whole chain (one process).
                  Returns the context, the counter and the request maps every downstream handler saw
                  (depth-first order).
  callScript      a caller's whole call whose (first-hop) handler runs a script
-/
import FV.Model.Context

namespace FV

inductive HAct where
  | setResp (k v : Bytes)
  | setReq (k v : Bytes)
  | call (clone : Bool) (sub : List HAct)

/-- `Clone()`: copies of both header maps, `requestHeaders[_opid] = getNextOpID()`. -/
def Ctx.cloneWith (c : Ctx) (fresh : Nat) : Ctx := { c with req := c.req.set opIdHeader (natDigits fresh) }

/-- The handler body, generic in the two wire steps (`req cc ctr` = WriteRequestHeader(cc) then
ReadRequestHeader with the counter at `ctr`; `rep cc s` = WriteResponseHeader(s) then
ReadResponseHeader(cc)): the recursion never looks inside them. -/
def runActsW (req : Ctx → Nat → Res (Ctx × Bytes)) (rep : Ctx → Ctx → Res (Ctx × Bytes)) :
    List HAct → Ctx → Nat → Res (Ctx × Nat × List Hdrs)
  | [], c, ctr => .ok (c, ctr, [])
  | .setResp k v :: t, c, ctr => runActsW req rep t (c.addResponseHeader k v) ctr
  | .setReq k v :: t, c, ctr => runActsW req rep t (c.addRequestHeader k v) ctr
  | .call clone sub :: t, c, ctr =>
    let cc := if clone then c.cloneWith (ctr + 1) else c
    let ctr1 := if clone then ctr + 1 else ctr
    match req cc ctr1 with
    | .err e => .err e
    | .panic p => .panic p
    | .ok (s, _) =>
      match runActsW req rep sub s (ctr1 + 1) with
      | .err e => .err e
      | .panic p => .panic p
      | .ok (s', ctr2, tr1) =>
        match rep cc s' with
        | .err e => .err e
        | .panic p => .panic p
        | .ok (cc', _) =>
          match runActsW req rep t (if clone then c else cc') ctr2 with
          | .err e => .err e
          | .panic p => .panic p
          | .ok (c', ctr3, tr2) => .ok (c', ctr3, s.req :: tr1 ++ tr2)
termination_by acts => sizeOf acts

/-- `WriteRequestHeader(cc)` on one side, `ReadRequestHeader` on the other. -/
def wireRequest (cc : Ctx) (ctr : Nat) : Res (Ctx × Bytes) := readRequestHeader (marshal cc.req) ctr

/-- `WriteResponseHeader(s)` on the server, `ReadResponseHeader(cc)` on the calling side. -/
def wireReply (cc s : Ctx) : Res (Ctx × Bytes) := readResponseHeader cc (marshal s.resp)

def runActs : List HAct → Ctx → Nat → Res (Ctx × Nat × List Hdrs) := runActsW wireRequest wireReply

/-- A caller's call (context as in `clientCtx`) to a handler that runs `script`: the caller's
context afterwards and the request maps seen by every handler of the chain. -/
def callScript (cid : Bytes) (opid : Nat) (U : Hdrs) (ns : Int) (ctr : Nat) (script : List HAct) : Res (Ctx × List Hdrs) :=
  match runActs [.call false script] (clientCtx cid opid U ns []) ctr with
  | .ok (c, _, tr) => .ok (c, tr)
  | .err e => .err e
  | .panic p => .panic p

end FV
