/-
Model of a call through the emitted client and the emitted server (C03), as the composition of

  client   FClient.Call / Oneway: request = FContext headers + message envelope + emitted `<m>_args.Write`
  wire     any FTransport: the request frame reaches the server, the reply frame the client (C01)
  server   FBaseProcessor.Process → emitted method processor: `<m>_args.Read`, handler,
           outcome mapping, emitted `<m>_result.Write` (C14)
  client   emitted result mapping: `<m>_result.Read`; Success set → value; exception field set → that
           exception; EXCEPTION message → TApplicationException

The argument and result structs are ordinary struct-likes of the definitions table (`<key>_args` with
default-requiredness fields, `<key>_result` with optional fields: id 0 = success, the others the declared
exceptions), read and written by the SAME emitted code as every other struct (`FV.Thrift.encV/decV`).
-/
import FV.Basic
import FV.Model.Thrift

namespace FV.Rpc
open FV FV.Thrift

/-- What the registered handler does with the arguments. -/
inductive HOutcome where
  | value (v : Option Val)             -- returns normally (`none` for a void / oneway method)
  | declared (id : Int) (e : Val)      -- raises the declared exception with this field id in `throws`
  | appException (ty : Nat)            -- raises a TApplicationException of this type
  | otherError                         -- any other error
  deriving Repr

/-- What the caller observes. -/
inductive Observed where
  | ok (v : Val)
  | okNil                              -- `(nil, nil)`: a struct-returning handler returned the nil pointer
  | void
  | exc (id : Int) (e : Val)
  | app (ty : Nat)                     -- TApplicationException of this type
  | failed (e : Err)
  | crashed
  | timedOut                           -- TTransportException TIMED_OUT: the caller stopped waiting (`callQ`)
  deriving Repr

structure CallObs where
  calls : Nat                          -- number of handler invocations
  args : Option Val                    -- the arguments the handler saw
  result : Observed
  deriving Repr

def internalError : Nat := 6           -- thrift.INTERNAL_ERROR
def missingResult : Nat := 5           -- thrift.MISSING_RESULT
def protocolError : Nat := 7           -- thrift.PROTOCOL_ERROR

/-- One call of method `key` (`<file>/<Service>_<method>`), with handler behaviour `h`. -/
def call (d : Defs) (n : Nat) (key : String) (oneway : Bool) (args : Val) (h : Val → HOutcome) : CallObs :=
  let argsTy := Ty.struct (key ++ "_args")
  let resTy := Ty.struct (key ++ "_result")
  match encV d n argsTy args with
  | .err e => ⟨0, none, .failed e⟩
  | .panic _ => ⟨0, none, .crashed⟩
  | .ok es =>
    -- server: read the arguments
    match decV d n argsTy es with
    | .panic _ => ⟨0, none, .crashed⟩
    | .err _ => ⟨0, none, if oneway then .void else .app protocolError⟩
    | .ok (seen, _) =>
      let outcome := h seen
      if oneway then ⟨1, some seen, .void⟩ else
      let reply (rv : Val) : Observed :=
        match encV d n resTy rv with
        | .err _ => .app internalError
        | .panic _ => .crashed
        | .ok res =>
          -- client: read the result struct and map it
          match decV d n resTy res with
          | .ok (.struct fs, _) =>
            match lookupVal fs 0 with
            | some v => .ok v
            | none => match fs with
              | (i, e) :: _ => .exc i e
              | [] => match lookupStruct d (key ++ "_result") with
                | some sd =>
                  if sd.fields.any (·.id = 0) then
                    -- nothing set in the result struct: for a struct-typed `success` the emitted Go client
                    -- returns `result.Success` = nil with a nil error (a handler answering `(nil, nil)`)
                    match (sd.fields.find? (·.id = 0)).map (fun f => resolve d f.ty) with
                    | some (.struct _) => .okNil
                    | _ => .app missingResult
                  else .void
                | none => .crashed
          | .ok _ => .crashed
          | .err e => .failed e
          | .panic _ => .crashed
      match outcome with
      | .value none => ⟨1, some seen, reply (.struct [])⟩
      | .value (some v) => ⟨1, some seen, reply (.struct [(0, v)])⟩
      | .declared i e => ⟨1, some seen, reply (.struct [(i, e)])⟩
      | .appException ty => ⟨1, some seen, .app ty⟩
      | .otherError => ⟨1, some seen, .app internalError⟩

/-! ### The time dimension: how long the request waits at the server, against the caller's FContext timeout

`wait` (ms) is the time between the send and the moment the reply could be back: the transport buffer /
FNatsServer work queue / the connection's earlier requests on FSimpleServer, plus the handler itself.
`timeout` (ms) is the `_timeout` header the caller's FContext put on the request.

  server   every request that was RECEIVED is worked on, however long it waited (`fNatsServer.worker` takes
           every frame off `workC` and calls `processFrame`; `FSimpleServer.accept` and the HTTP handler have no
           queue of their own): `wait` and `timeout` do not appear on the server side at all;
  oneway   `FClient.Oneway` returns when the frame is sent — the timeout only bounds the send;
  two-way  the transport's `Request` selects on the reply and `ctx.Done()`: after `timeout` the caller observes
           TIMED_OUT and the late reply is dropped by the registry (C01) — the handler has run, or will. -/

/-- The client could build the request frame (otherwise nothing is sent and `call` reports the failure). -/
def sent (d : Defs) (n : Nat) (key : String) (args : Val) : Bool :=
  match encV d n (Ty.struct (key ++ "_args")) args with
  | .ok _ => true
  | _ => false

/-- One call whose request waits `wait` ms at the server, issued with an FContext timeout of `timeout` ms. -/
def callQ (d : Defs) (n : Nat) (key : String) (oneway : Bool) (args : Val) (h : Val → HOutcome)
    (wait timeout : Nat) : CallObs :=
  let o := call d n key oneway args h
  if oneway || decide (wait < timeout) || !sent d n key args then o
  else { o with result := .timedOut }

/-! ### Dispatch through `extends`

The emitted child processor embeds the parent's `FBaseProcessor`: one map from method name to
processor function; the child's constructor first builds the parent's processor (which registers the
parent's functions) and then adds its own (`AddToProcessorMap`, later assignment wins). -/

structure Service where
  key : String
  parent : Option String
  methods : List String
  deriving Repr

/-- The processor map of service `k`: (method name, key of the method's args/result structs), parent
entries first. -/
def procMap (svcs : List Service) : Nat → String → List (String × String)
  | 0, _ => []
  | fuel + 1, k =>
    match svcs.find? (·.key = k) with
    | none => []
    | some s =>
      (match s.parent with
        | some p => procMap svcs fuel p
        | none => []) ++ s.methods.map fun m => (m, s.key ++ "_" ++ m)

/-- Map lookup after the assignments were made in list order: the last entry for the name wins. -/
def dispatch (pm : List (String × String)) (m : String) : Option String :=
  (pm.reverse.find? (·.1 = m)).map (·.2)

end FV.Rpc
