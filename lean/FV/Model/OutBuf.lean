/-
C12 — the bounded output buffer and the size checks around it.

  OutBuf                       frugal.TMemoryOutputBuffer (bounded_memory_buffer.go): `limit`
                               and the buffered bytes (always starting with the 4-byte frame
                               size placeholder)
  OutBuf.write/.writeByte/.writeString/.reset/.bytes
                               the three write paths a Thrift protocol uses on a
                               TRichTransport, Reset, Bytes
  Op, runAll, runStop, prepare an encoder is the list of transport operations it performs;
                               `prepare` = FStandardClient.prepareMessage (stops at the first
                               error, returns Bytes())
  Transport, request           Request/Oneway/Publish of the transports: the second size
                               check behind the buffer (nats_transport.go checkMessageSize,
                               nats_scope_transport.go, http_transport.go, stomp_transport.go)
  sendReply                    FBaseProcessorFunction.SendReply / trapError / sendError
  processReply                 FStandardClient.processReply's classification
  callLoop / callHttp          one Call end to end (NATS-shaped server / HTTP handler)

Core Lean only.
-/
import FV.Basic

namespace FV

/-- `TMemoryOutputBuffer`. `data` includes the 4 placeholder bytes of the frame size. -/
structure OutBuf where
  limit : Nat
  data : Bytes
  deriving Repr, DecidableEq

namespace OutBuf

def framePlaceholder : Bytes := [0, 0, 0, 0]

/-- `NewTMemoryOutputBuffer(limit)`: the placeholder is written without a size check. -/
def new (limit : Nat) : OutBuf := ⟨limit, framePlaceholder⟩

/-- `Len()`. -/
def len (b : OutBuf) : Nat := b.data.length

/-- `Reset()`: empty the buffer and put the placeholder back (no size check). -/
def reset (b : OutBuf) : OutBuf := { b with data := framePlaceholder }

/-- The check shared by `Write`, `WriteByte` and `WriteString`:
`f.limit > 0 && uint(n+f.Len()) > f.limit`. -/
def tooLarge (b : OutBuf) (n : Nat) : Bool := decide (0 < b.limit ∧ b.limit < n + b.len)

/-- Common body of the three write paths: over the limit ⇒ `Reset()` and the
REQUEST_TOO_LARGE transport exception; otherwise append. Go returns `(n, err)`. -/
def put (b : OutBuf) (p : Bytes) : OutBuf × Res Nat :=
  if b.tooLarge p.length then (b.reset, .err .tooLarge)
  else ({ b with data := b.data ++ p }, .ok p.length)

/-- `Write(buf []byte)`. -/
def write (b : OutBuf) (p : Bytes) : OutBuf × Res Nat := b.put p
/-- `WriteByte(c)`. -/
def writeByte (b : OutBuf) (c : UInt8) : OutBuf × Res Nat := b.put [c]
/-- `WriteString(s)`. -/
def writeString (b : OutBuf) (s : Bytes) : OutBuf × Res Nat := b.put s

/-- `Bytes()`: the buffered bytes with the frame size stored big-endian in the first four. -/
def bytes (b : OutBuf) : Bytes := be32 (b.len - 4) ++ b.data.drop 4

/-- `HasWriteData()`. -/
def hasWriteData (b : OutBuf) : Bool := decide (4 < b.len)

end OutBuf

/-- One operation of an encoder on its transport. -/
inductive Op where
  | write (p : Bytes)
  | writeByte (c : UInt8)
  | writeString (s : Bytes)
  | reset
  deriving Repr, DecidableEq

namespace Op
/-- The bytes an operation appends. -/
def payload : Op → Bytes
  | write p => p
  | writeByte c => [c]
  | writeString s => s
  | reset => []
def size (o : Op) : Nat := o.payload.length
def isWrite : Op → Bool
  | reset => false
  | _ => true
end Op

/-- Total number of payload bytes of an op list. -/
def opsSize : List Op → Nat
  | [] => 0
  | o :: t => o.size + opsSize t

/-- Concatenated payload of an op list. -/
def opsPayload : List Op → Bytes
  | [] => []
  | o :: t => o.payload ++ opsPayload t

namespace OutBuf

/-- One operation; `true` = it returned the too-large error. -/
def apply (b : OutBuf) : Op → OutBuf × Bool
  | .reset => (b.reset, false)
  | .write p => let r := b.write p; (r.1, r.2 matches .err _)
  | .writeByte c => let r := b.writeByte c; (r.1, r.2 matches .err _)
  | .writeString s => let r := b.writeString s; (r.1, r.2 matches .err _)

/-- Every operation is executed, errors are collected (a caller that ignores errors,
e.g. `sendError`). -/
def runAll (b : OutBuf) : List Op → OutBuf × List Bool
  | [] => (b, [])
  | o :: t =>
    let r := b.apply o
    let rest := runAll r.1 t
    (rest.1, r.2 :: rest.2)

/-- Operations up to and including the first failing one (an encoder returns at the
first error). `true` = stopped on an error. -/
def runStop (b : OutBuf) : List Op → OutBuf × Bool
  | [] => (b, false)
  | o :: t =>
    let r := b.apply o
    if r.2 then (r.1, true) else runStop r.1 t

end OutBuf

/-- `FStandardClient.prepareMessage` for a message whose encoding performs `ops`
(header, message begin, arguments, flush): fresh buffer with the transport's limit,
first error is returned, otherwise `buffer.Bytes()`. -/
def prepare (limit : Nat) (ops : List Op) : Res Bytes :=
  let r := (OutBuf.new limit).runStop ops
  if r.2 then .err .tooLarge else .ok r.1.bytes

/-! ### The transports' own size checks -/

/-- What a caller of the client API can observe about one request. -/
inductive CallErr where
  | requestTooLarge     -- TTransportException type 100
  | responseTooLarge    -- TTransportException type 101
  | timedOut            -- TTransportException TIMED_OUT: no reply arrived
  | application (ty : Nat)
  | other
  deriving Repr, DecidableEq

def natsMaxMessageSize : Nat := 1024 * 1024

/-- A request/publish transport as far as sizes are concerned: the limit the client
gives its output buffer (`GetRequestSizeLimit` / `GetPublishSizeLimit`) and the
transport's own check on the framed message (`true` = rejected, REQUEST_TOO_LARGE). -/
structure Transport where
  bufLimit : Nat
  rejects : Nat → Bool

/-- `fNatsTransport`: `GetRequestSizeLimit() = natsMaxMessageSize`, `checkMessageSize`. -/
def natsTransport : Transport := ⟨natsMaxMessageSize, fun n => decide (natsMaxMessageSize < n)⟩
/-- `fNatsPublisherTransport.Publish`. -/
def natsPublisher : Transport := ⟨natsMaxMessageSize, fun n => decide (natsMaxMessageSize < n)⟩
/-- `fHTTPTransport.Request` with `WithRequestSizeLimit(q)` (0 = unbounded). -/
def httpTransport (q : Nat) : Transport := ⟨q, fun n => decide (0 < q ∧ q < n)⟩
/-- `fStompPublisherTransport.Publish` with `maxPublishSize = q` (0 = unbounded). -/
def stompPublisher (q : Nat) : Transport := ⟨q, fun n => decide (0 < q ∧ q < n)⟩

/-- Outcome of the request side: the bytes handed to the wire, or the error returned
to the caller with nothing transmitted. -/
inductive Sent where
  | wire (data : Bytes)
  | rejected (e : CallErr)
  deriving Repr, DecidableEq

/-- `Call`/`Oneway`/`Publish` up to the hand-over to the wire: `prepareMessage`, then
the transport's own check. -/
def request (t : Transport) (ops : List Op) : Sent :=
  match prepare t.bufLimit ops with
  | .ok data => if t.rejects data.length then .rejected .requestTooLarge else .wire data
  | .err _ => .rejected .requestTooLarge
  | .panic _ => .rejected .other

/-! ### Server side: SendReply / trapError / sendError -/

/-- What the bytes in the server's output buffer are. -/
inductive ReplyKind where
  | result                 -- a complete REPLY message
  | exception (ty : Nat)   -- a complete EXCEPTION message carrying TApplicationException `ty`
  | garbage                -- remains of a message whose writes partly failed
  deriving Repr, DecidableEq

def appResponseTooLarge : Nat := 100

/-- `SendReply(fctx, oprot, method, result)` on output buffer `b`: `rep` are the
operations of the reply (response header, message begin, result struct, flush), `errp`
those of the RESPONSE_TOO_LARGE error reply. The first failing write makes the encoder
return the too-large error (the buffer has reset itself); `trapError` then runs
`sendError`, which ignores the errors of its own writes. -/
def sendReply (b : OutBuf) (rep errp : List Op) : OutBuf × ReplyKind :=
  let r := b.runStop rep
  if r.2 then
    let e := r.1.runAll errp
    (e.1, if e.2.any id then .garbage else .exception appResponseTooLarge)
  else (r.1, .result)

/-- `processReply`: a REPLY is read into the result; an EXCEPTION of application type
100 becomes transport exception 101, any other application exception is returned as is. -/
def processReply : ReplyKind → Option CallErr
  | .result => none
  | .exception ty => if ty = appResponseTooLarge then some .responseTooLarge else some (.application ty)
  | .garbage => some .other

/-- Result of one `Call`: was the request transmitted, and what the caller gets
(`none` = the result). -/
structure CallOut where
  sent : Bool
  res : Option CallErr
  deriving Repr, DecidableEq

/-- One `Call` against a NATS-shaped server (`fNatsServer.processFrame`): request limit
`q` (buffer and transport check), server output buffer `NewTMemoryOutputBuffer(r)`;
no write data ⇒ nothing is published ⇒ the caller times out. -/
def callLoop (q r : Nat) (req rep errp : List Op) : CallOut :=
  match request ⟨q, fun n => decide (0 < q ∧ q < n)⟩ req with
  | .rejected e => ⟨false, some e⟩
  | .wire _ =>
    let s := sendReply (OutBuf.new r) rep errp
    if s.1.hasWriteData then ⟨true, processReply s.2⟩ else ⟨true, some .timedOut⟩

/-- One `Call` over HTTP: `fHTTPTransport` with request limit `q` and response limit
`r` (sent as `x-frugal-payload-limit`); the handler buffers the reply unbounded and
answers 413 when the unframed reply is larger than `r`; the client maps 413 to 101. -/
def callHttp (q r : Nat) (req rep : List Op) : CallOut :=
  match request (httpTransport q) req with
  | .rejected e => ⟨false, some e⟩
  | .wire _ =>
    if 0 < r ∧ r < opsSize rep then ⟨true, some .responseTooLarge⟩ else ⟨true, none⟩

end FV
