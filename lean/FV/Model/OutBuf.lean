/-
C12 — the bounded output buffer and the size checks around it.

  OutBuf                       frugal.TMemoryOutputBuffer (bounded_memory_buffer.go): `limit`
                               and the buffered bytes (always starting with the 4-byte frame
                               size placeholder)
  OutBuf.write/.writeByte/.writeString/.reset/.bytes
                               the three write paths a Thrift protocol uses on a
                               TRichTransport, Reset, Bytes
  Op, runAll, runStop, prepare an encoder is the list of transport operations it performs;
                               `prepare` = FStandardClient.prepareMessage (stops at the first
                               error, returns Bytes())
  Transport, request           Request/Oneway/Publish of the transports: the second size
                               check behind the buffer (nats_transport.go checkMessageSize,
                               nats_scope_transport.go, http_transport.go, stomp_transport.go)
  sendReply                    FBaseProcessorFunction.SendReply / trapError / sendError
  processReply                 FStandardClient.processReply's classification
  callLoop / callHttp          one Call end to end (NATS-shaped server / HTTP handler)

Core Lean only.
-/
import FV.Basic

namespace FV

/-- `TMemoryOutputBuffer`. `data` includes the 4 placeholder bytes of the frame size. -/
structure OutBuf where
  limit : Nat
  data : Bytes
  deriving Repr, DecidableEq

namespace OutBuf

def framePlaceholder : Bytes := [0, 0, 0, 0]

/-- `NewTMemoryOutputBuffer(limit)`: the placeholder is written without a size check. -/
def new (limit : Nat) : OutBuf := ⟨limit, framePlaceholder⟩

/-- `Len()`. -/
def len (b : OutBuf) : Nat := b.data.length

/-- `Reset()`: empty the buffer and put the placeholder back (no size check). -/
def reset (b : OutBuf) : OutBuf := { b with data := framePlaceholder }

/-- The check shared by `Write`, `WriteByte` and `WriteString`:
`f.limit > 0 && uint(n+f.Len()) > f.limit`. -/
def tooLarge (b : OutBuf) (n : Nat) : Bool := decide (0 < b.limit ∧ b.limit < n + b.len)

/-- Common body of the three write paths: over the limit ⇒ `Reset()` and the
REQUEST_TOO_LARGE transport exception; otherwise append. Go returns `(n, err)`. -/
def put (b : OutBuf) (p : Bytes) : OutBuf × Res Nat :=
  if b.tooLarge p.length then (b.reset, .err .tooLarge)
  else ({ b with data := b.data ++ p }, .ok p.length)

/-- `Write(buf []byte)`. -/
def write (b : OutBuf) (p : Bytes) : OutBuf × Res Nat := b.put p
/-- `WriteByte(c)`. -/
def writeByte (b : OutBuf) (c : UInt8) : OutBuf × Res Nat := b.put [c]
/-- `WriteString(s)`. -/
def writeString (b : OutBuf) (s : Bytes) : OutBuf × Res Nat := b.put s

/-- `Bytes()`: the buffered bytes with the frame size stored big-endian in the first four. -/
def bytes (b : OutBuf) : Bytes := be32 (b.len - 4) ++ b.data.drop 4

/-- `HasWriteData()`. -/
def hasWriteData (b : OutBuf) : Bool := decide (4 < b.len)

end OutBuf

/-- One operation of an encoder on its transport. -/
inductive Op where
  | write (p : Bytes)
  | writeByte (c : UInt8)
  | writeString (s : Bytes)
  | reset
  deriving Repr, DecidableEq

namespace Op
/-- The bytes an operation appends. -/
def payload : Op → Bytes
  | write p => p
  | writeByte c => [c]
  | writeString s => s
  | reset => []
def size (o : Op) : Nat := o.payload.length
def isWrite : Op → Bool
  | reset => false
  | _ => true
end Op

/-- Total number of payload bytes of an op list. -/
def opsSize : List Op → Nat
  | [] => 0
  | o :: t => o.size + opsSize t

/-- Concatenated payload of an op list. -/
def opsPayload : List Op → Bytes
  | [] => []
  | o :: t => o.payload ++ opsPayload t

namespace OutBuf

/-- Did a Go `(n, err)` result carry an error? -/
def failed : Res Nat → Bool
  | .ok _ => false
  | _ => true

/-- One operation; `true` = it returned the too-large error. -/
def apply (b : OutBuf) : Op → OutBuf × Bool
  | .reset => (b.reset, false)
  | .write p => ((b.write p).1, failed (b.write p).2)
  | .writeByte c => ((b.writeByte c).1, failed (b.writeByte c).2)
  | .writeString s => ((b.writeString s).1, failed (b.writeString s).2)

/-- Every operation is executed, errors are collected (a caller that ignores errors,
e.g. `sendError`). -/
def runAll (b : OutBuf) : List Op → OutBuf × List Bool
  | [] => (b, [])
  | o :: t =>
    let r := b.apply o
    let rest := runAll r.1 t
    (rest.1, r.2 :: rest.2)

/-- Operations up to and including the first failing one (an encoder returns at the
first error). `true` = stopped on an error. -/
def runStop (b : OutBuf) : List Op → OutBuf × Bool
  | [] => (b, false)
  | o :: t =>
    let r := b.apply o
    if r.2 then (r.1, true) else runStop r.1 t

end OutBuf

/-- `FStandardClient.prepareMessage` for a message whose encoding performs `ops`
(header, message begin, arguments, flush): fresh buffer with the transport's limit,
first error is returned, otherwise `buffer.Bytes()`. -/
def prepare (limit : Nat) (ops : List Op) : Res Bytes :=
  let r := (OutBuf.new limit).runStop ops
  if r.2 then .err .tooLarge else .ok r.1.bytes

/-! ### The transports' own size checks -/

/-- What a caller of the client API can observe about one request. -/
inductive CallErr where
  | requestTooLarge     -- TTransportException type 100
  | responseTooLarge    -- TTransportException type 101
  | timedOut            -- TTransportException TIMED_OUT: no reply arrived
  | application (ty : Nat)
  | other
  deriving Repr, DecidableEq

def natsMaxMessageSize : Nat := 1024 * 1024

/-- A request/publish transport as far as sizes are concerned: the limit the client
gives its output buffer (`GetRequestSizeLimit` / `GetPublishSizeLimit`) and the
transport's own check on the framed message (`true` = rejected, REQUEST_TOO_LARGE). -/
structure Transport where
  bufLimit : Nat
  rejects : Nat → Bool

/-- `fNatsTransport`: `GetRequestSizeLimit() = natsMaxMessageSize`, `checkMessageSize`. -/
def natsTransport : Transport := ⟨natsMaxMessageSize, fun n => decide (natsMaxMessageSize < n)⟩
/-- `fNatsPublisherTransport.Publish`. -/
def natsPublisher : Transport := ⟨natsMaxMessageSize, fun n => decide (natsMaxMessageSize < n)⟩
/-- A transport whose own check compares in `uint`: `limit > 0 && uint(len(data)) > limit`
(the harness's in-process stand-ins; 0 = unbounded). -/
def limitTransport (q : Nat) : Transport := ⟨q, fun n => decide (0 < q ∧ q < n)⟩

def int64Max : Nat := 9223372036854775807

/-- `fHTTPTransport.Request` with `WithRequestSizeLimit(q)` (`q : uint`, 0 = unbounded): the
check is `h.requestSizeLimit > 0 && len(data) > int(h.requestSizeLimit)` — the limit is
converted to `int`, so a limit above `MaxInt64` turns negative and every message is
rejected. -/
def httpTransport (q : Nat) : Transport :=
  ⟨q, fun n => decide (0 < q ∧ (int64Max < q ∨ q < n))⟩
/-- `fStompPublisherTransport.Publish` with `maxPublishSize = q` (0 = unbounded). -/
def stompPublisher (q : Nat) : Transport := ⟨q, fun n => decide (0 < q ∧ q < n)⟩

/-- Outcome of the request side: the bytes handed to the wire, or the error returned
to the caller with nothing transmitted. -/
inductive Sent where
  | wire (data : Bytes)
  | rejected (e : CallErr)
  deriving Repr, DecidableEq

/-- `Call`/`Oneway`/`Publish` up to the hand-over to the wire: `prepareMessage`, then
the transport's own check. -/
def request (t : Transport) (ops : List Op) : Sent :=
  match prepare t.bufLimit ops with
  | .ok data => if t.rejects data.length then .rejected .requestTooLarge else .wire data
  | .err _ => .rejected .requestTooLarge
  | .panic _ => .rejected .other

/-! ### Sizes only

Whether a write is rejected depends on sizes alone. `LBuf` is the buffer reduced to
`{limit, len}` (proved to be the exact projection of `OutBuf` in `FV.C12`); the
server side and whole calls are modelled on it. -/

structure LBuf where
  limit : Nat
  len : Nat
  deriving Repr, DecidableEq

namespace LBuf

def new (limit : Nat) : LBuf := ⟨limit, 4⟩
def reset (b : LBuf) : LBuf := { b with len := 4 }
def hasWriteData (b : LBuf) : Bool := decide (4 < b.len)

/-- One operation; `true` = it returned the too-large error (and the buffer reset itself). -/
def apply (b : LBuf) (o : Op) : LBuf × Bool :=
  if o.isWrite then
    if 0 < b.limit ∧ b.limit < o.size + b.len then (b.reset, true)
    else ({ b with len := b.len + o.size }, false)
  else (b.reset, false)

def runAll (b : LBuf) : List Op → LBuf × List Bool
  | [] => (b, [])
  | o :: t =>
    let r := b.apply o
    let rest := runAll r.1 t
    (rest.1, r.2 :: rest.2)

def runStop (b : LBuf) : List Op → LBuf × Bool
  | [] => (b, false)
  | o :: t =>
    let r := b.apply o
    if r.2 then (r.1, true) else runStop r.1 t

end LBuf

/-- Projection of the buffer to sizes. -/
def OutBuf.abs (b : OutBuf) : LBuf := ⟨b.limit, b.len⟩

/-- `prepareMessage`, sizes only: the length of the framed message, or too large. -/
def prepareLen (limit : Nat) (ops : List Op) : Res Nat :=
  let r := (LBuf.new limit).runStop ops
  if r.2 then .err .tooLarge else .ok r.1.len

/-- Request side, sizes only: `some n` = a framed message of `n` bytes is handed to the
wire; `none` = REQUEST_TOO_LARGE, nothing transmitted. -/
def requestLen (t : Transport) (ops : List Op) : Option Nat :=
  match prepareLen t.bufLimit ops with
  | .ok n => if t.rejects n then none else some n
  | _ => none

/-! ### Server side: SendReply / trapError / sendError -/

/-- What the bytes in the server's output buffer are. -/
inductive ReplyKind where
  | result                 -- a complete REPLY message
  | exception (ty : Nat)   -- a complete EXCEPTION message carrying TApplicationException `ty`
  | garbage                -- remains of a message whose writes partly failed
  deriving Repr, DecidableEq

def appResponseTooLarge : Nat := 100

/-- `sendError`: five steps (`WriteResponseHeader`, `WriteMessageBegin`, the exception
struct, `WriteMessageEnd`, `Flush`), each an encoder call that returns at its own first
failing write; `sendError` ignores their errors and goes on. `true` = some write failed. -/
def sendError (b : LBuf) : List (List Op) → LBuf × Bool
  | [] => (b, false)
  | seg :: t =>
    let r := b.runStop seg
    let rest := sendError r.1 t
    (rest.1, r.2 || rest.2)

/-- `SendReply(fctx, oprot, method, result)` on output buffer `b`: `rep` are the
operations of the reply (response header, message begin, result struct, flush), `errp`
the steps of the RESPONSE_TOO_LARGE error reply. The first failing write makes the
encoder return the too-large error (the buffer has reset itself); `trapError` then runs
`sendError`. -/
def sendReply (b : LBuf) (rep : List Op) (errp : List (List Op)) : LBuf × ReplyKind :=
  let r := b.runStop rep
  if r.2 then
    let e := sendError r.1 errp
    (e.1, if e.2 then .garbage else .exception appResponseTooLarge)
  else (r.1, .result)

/-- `SendReply` through a *buffered* encoder (TJSONProtocol: a `bufio.Writer` inside the
protocol) whose `Flush` failed: the writer keeps the error, so of the error reply only the
response header — written directly to the transport (`hdr`) — reaches the buffer. Describes
known finding `json-sticky-writer`; the harness does not generate this class. -/
def sendReplySticky (b : LBuf) (rep : List Op) (hdr : Op) : LBuf × ReplyKind :=
  let r := b.runStop rep
  if r.2 then ((r.1.apply hdr).1, .garbage) else (r.1, .result)

/-- `processReply`: a REPLY is read into the result; an EXCEPTION of application type
100 becomes transport exception 101, any other application exception is returned as is. -/
def processReply : ReplyKind → Option CallErr
  | .result => none
  | .exception ty => if ty = appResponseTooLarge then some .responseTooLarge else some (.application ty)
  | .garbage => some .other

/-- Result of one `Call`: was the request transmitted, and what the caller gets
(`none` = the result). -/
structure CallOut where
  sent : Bool
  res : Option CallErr
  deriving Repr, DecidableEq

/-- One `Call` against a NATS-shaped server (`fNatsServer.processFrame`): request
transport `t`, server output buffer `NewTMemoryOutputBuffer(r)`; no write data ⇒
nothing is published ⇒ the caller times out. -/
def callVia (t : Transport) (r : Nat) (req rep : List Op) (errp : List (List Op)) : CallOut :=
  match requestLen t req with
  | none => ⟨false, some .requestTooLarge⟩
  | some _ =>
    let s := sendReply (LBuf.new r) rep errp
    if s.1.hasWriteData then ⟨true, processReply s.2⟩ else ⟨true, some .timedOut⟩

/-- The same with a parametrised request limit `q` (0 = unbounded), as the harness's
in-process transport has it. -/
def callLoop (q r : Nat) (req rep : List Op) (errp : List (List Op)) : CallOut := callVia (limitTransport q) r req rep errp

/-- `fNatsTransport` + `fNatsServer`: both limits are 1 MiB. The NATS client routes a reply
to its caller by the op id in the reply's frugal header (registry); a garbage reply has lost
its header (every failing write resets the buffer), is dropped there, and the caller times
out. -/
def callNats (req rep : List Op) (errp : List (List Op)) : CallOut :=
  match callVia natsTransport natsMaxMessageSize req rep errp with
  | ⟨true, some .other⟩ => ⟨true, some .timedOut⟩
  | o => o

/-- `Oneway` / `Publish`: `prepareMessage`, the transport's own check, hand-over to the wire;
there is no reply (`fHTTPTransport.Oneway` discards it). -/
def sendOnly (t : Transport) (req : List Op) : CallOut :=
  match requestLen t req with
  | none => ⟨false, some .requestTooLarge⟩
  | some _ => ⟨true, none⟩

/-! ### The HTTP payload-limit header

The client (`fHTTPTransport.makeRequest`) sends `x-frugal-payload-limit:
strconv.FormatUint(uint64(responseSizeLimit), 10)` when the limit is positive; the handler
(`NewFrugalHandlerFunc`) reads it with `strconv.ParseInt(limitStr, 10, 64)`: an empty / absent
header means no limit, a value that is not a decimal `int64` is answered `400`, a value `≤ 0`
means no limit. -/

/-- Decimal digits of `n`, most significant first (`strconv.FormatUint(n, 10)` as digit values). -/
def digitsAux : Nat → Nat → List Nat → List Nat
  | 0, _, acc => acc
  | fuel + 1, n, acc => if n < 10 then n :: acc else digitsAux fuel (n / 10) (n % 10 :: acc)

def digits (n : Nat) : List Nat := digitsAux (n + 1) n []

def digitChar (d : Nat) : Char := Char.ofNat (48 + d)

/-- `strconv.FormatUint(n, 10)`. -/
def formatUint (n : Nat) : List Char := (digits n).map digitChar

/-- Value of a digit character, `none` for any other character. -/
def digitVal (c : Char) : Option Nat :=
  if 48 ≤ c.toNat ∧ c.toNat ≤ 57 then some (c.toNat - 48) else none

def digitStep (acc : Option Nat) (c : Char) : Option Nat :=
  match acc, digitVal c with
  | some a, some d => some (a * 10 + d)
  | _, _ => none

/-- Value of a non-empty string of decimal digits (no sign, no underscores, no spaces). -/
def parseDigits : List Char → Option Nat
  | [] => none
  | cs => cs.foldl digitStep (some 0)

/-- Range check of `ParseInt(…, 64)` on the magnitude. -/
def inInt64 (neg : Bool) (v : Nat) : Option Int :=
  if neg then (if v ≤ int64Max + 1 then some (-(v : Int)) else none)
  else (if v ≤ int64Max then some (v : Int) else none)

/-- `strconv.ParseInt(s, 10, 64)`: optional sign, at least one digit, nothing else; `none` =
syntax or range error. -/
def parseInt64 (s : List Char) : Option Int :=
  match s with
  | [] => none
  | c :: cs =>
    if c = '-' then (parseDigits cs).bind (inInt64 true)
    else if c = '+' then (parseDigits cs).bind (inInt64 false)
    else (parseDigits (c :: cs)).bind (inInt64 false)

/-- What the handler answers for a request whose reply (unframed) has `repSize` bytes:
400 = header not an integer, 413 = reply larger than the requested limit, 200 = the reply. -/
def handlerStatus (hdr : List Char) (repSize : Nat) : Nat :=
  if hdr = [] then 200
  else match parseInt64 hdr with
    | none => 400
    | some limit => if 0 < limit ∧ limit < (repSize : Int) then 413 else 200

/-- The header the client sends for `WithResponseSizeLimit(r)`. -/
def limitHeader (r : Nat) : List Char := if 0 < r then formatUint r else []

/-- One `Call` over HTTP: `fHTTPTransport` with request limit `q` and response limit `r`
(sent as `x-frugal-payload-limit`); the handler buffers the reply unbounded and answers 413
when the unframed reply is larger than the limit; the client maps 413 to 101 and any other
status ≥ 300 to an UNKNOWN transport exception. -/
def callHttp (q r : Nat) (req rep : List Op) : CallOut :=
  match requestLen (httpTransport q) req with
  | none => ⟨false, some .requestTooLarge⟩
  | some _ =>
    match handlerStatus (limitHeader r) (opsSize rep) with
    | 200 => ⟨true, none⟩
    | 413 => ⟨true, some .responseTooLarge⟩
    | _ => ⟨true, some .other⟩

/-! ### The request's registration (fNatsTransport.Request)

`Request` registers the context's op id in the transport's registry before the size check and
removes it on every exit (`defer Unregister` right after `Register`). A registration that
survived a rejected request would make the next request with the same FContext fail
("context already registered"), however small. -/

/-- `fNatsTransport.Request(ctx, data)` with `L` = the transport's limit, as far as the
registry and the caller's outcome are concerned. `reg` = op ids registered before the call,
`size` = `len(data)`, `replied` = a reply arrives before the context's timeout.
Returns the registry after the call and the caller's outcome (`none` = a reply / nil). -/
def regRequest (L : Nat) (reg : List Nat) (opid size : Nat) (replied : Bool) : List Nat × Option CallErr :=
  if size = 4 then (reg, none)                               -- nothing to send
  else if opid ∈ reg then (reg, some .other)                 -- Register fails: "context already registered"
  else
    let reg' := opid :: reg                                  -- Register; defer Unregister
    if 0 < L ∧ L < size then (reg'.erase opid, some .requestTooLarge)   -- checkMessageSize
    else (reg'.erase opid, if replied then none else some .timedOut)   -- PublishRequest, wait

/-- `Oneway`: no registration at all. -/
def regOneway (L : Nat) (reg : List Nat) (size : Nat) : List Nat × Option CallErr :=
  if size = 4 then (reg, none)
  else if 0 < L ∧ L < size then (reg, some .requestTooLarge)
  else (reg, none)

/-- One step of a sequence of uses of one transport. -/
structure SeqStep where
  opid : Nat
  size : Nat
  oneway : Bool
  deriving Repr, DecidableEq

/-- A sequence of requests on one transport (every published request is answered): per step
the caller's outcome and the registry size afterwards. -/
def runSeq (L : Nat) : List Nat → List SeqStep → List (Option CallErr × Nat)
  | _, [] => []
  | reg, st :: t =>
    let r := if st.oneway then regOneway L reg st.size else regRequest L reg st.opid st.size true
    (r.2, r.1.length) :: runSeq L r.1 t

end FV
