/-
Model of lib/go/context.go (FContextImpl) and of the part of
lib/go/protocol.go that creates contexts (FProtocol.ReadRequestHeader), with an
EXPLICIT HEAP so that aliasing between maps is expressible (C17).

  State        process-wide op id counter (uint64), heap of maps, the contexts,
               the FProtocols' ephemeral maps, the maps handed out by accessors
  Ctx          an FContextImpl = three references (request headers, response
               headers, ephemeral properties). The timeout is NOT a field: the
               code keeps it in the request header `_timeout`, so does the model.
  Op           NewFContext / Clone / ReadRequestHeader / Add*Header /
               AddEphemeralProperty / SetTimeout / the reads / the copying
               accessors / mutation of a map an accessor returned
  effect       what one operation does, as a small record (`Effect`): at most one
               overwrite of an existing map, fresh maps appended to the heap, new
               holders of references. `step = apply ∘ effect`.

Atomicity: each Op is one atomic action. That is what `c.mu` gives for every
method except `Clone`, which takes the lock three times (RequestHeaders(),
ResponseHeaders(), EphemeralProperties()); the model's `clone` is the
uninterrupted case, an interleaved Clone is the three `get` ops followed by an
allocation and differs only in WHICH snapshot of each map is copied, not in the
freshness of the copies (the independence theorems do not depend on it).

ReadRequestHeader: `ctx.ephemeralProperties = f.ephemeralProperties` — a received
context SHARES its ephemeral map with the FProtocol it was read from (and with
every other context read from the same FProtocol). The model keeps that alias.

Not modelled: NewFContext("") (random correlation id; the harness never passes
""), non-string ephemeral keys/values (`interface{}`), unhashable keys.
-/
import FV.Basic
import FV.Model.Headers
import FV.Model.Registry0

namespace FV.CH
open FV

abbrev AMap := Hdrs
abbrev Ref := Nat

/-- 2^64: the op id counter is a Go `uint64`. -/
def M64 : Nat := 18446744073709551616

/-- `strconv.FormatUint(n, 10)`. -/
def dec (n : Nat) : Bytes :=
  if h : n < 10 then [UInt8.ofNat (48 + n)] else dec (n / 10) ++ [UInt8.ofNat (48 + n % 10)]
termination_by n
decreasing_by omega

/-- `strconv.FormatInt(z, 10)`. -/
def decInt (z : Int) : Bytes := if z < 0 then 45 :: dec z.natAbs else dec z.toNat

/-- `strconv.ParseInt(s, 10, 64)`: optional sign, at least one digit, digits only
(no underscores in base 10), value inside int64; anything else is an error. -/
def parseI64 (s : Bytes) : Option Int :=
  let neg := s.head? = some 45
  let ds := if s.head? = some 45 ∨ s.head? = some 43 then s.tail else s
  if ds.isEmpty then none else
  match digitsVal ds 0 with
  | none => none
  | some n =>
    if neg then (if n ≤ 9223372036854775808 then some (-(n : Int)) else none)
    else (if n < 9223372036854775808 then some (n : Int) else none)

/-- Go `int64` wrap-around of a mathematical integer. -/
def wrap64 (z : Int) : Int := (z + 9223372036854775808) % 18446744073709551616 - 9223372036854775808

/-- Milliseconds `SetTimeout(ns)` writes: truncated toward zero, except that a positive duration below
1 ms is written as 1 (0 would mean "no deadline"; fix 6fdb59c). -/
def wireMs (ns : Int) : Int := if 0 < ns ∧ Int.tdiv ns 1000000 = 0 then 1 else Int.tdiv ns 1000000

/-- `Timeout()` in nanoseconds, from the request header map: `_timeout` parsed as
milliseconds times `time.Millisecond` (an int64 multiplication), default 5 s. -/
def timeoutOf (req : AMap) : Int :=
  match parseI64 ((req.get? timeoutHeader).getD []) with
  | some ms => wrap64 (ms * 1000000)
  | none => 5000000000

/-- Go `delete(m, k)`. -/
def mdel (m : AMap) (k : Bytes) : AMap := m.filter (fun kv => kv.1 ≠ k)

/-- An FContextImpl: three references into the heap. -/
structure Ctx where
  req : Ref
  resp : Ref
  eph : Ref
  deriving Repr, DecidableEq

def Ctx.refs (c : Ctx) : List Ref := [c.req, c.resp, c.eph]

inductive Which | req | resp | eph
  deriving Repr, DecidableEq

def Ctx.sel (c : Ctx) : Which → Ref
  | .req => c.req | .resp => c.resp | .eph => c.eph

structure State where
  nextOpId : Nat          -- `nextOpID`
  heap : List AMap        -- Ref r ↦ heap[r]
  ctxs : List Ctx         -- every context ever produced, in order of creation
  protos : List Ref       -- `FProtocol.ephemeralProperties` of every protocol created
  rets : List Ref         -- every map an accessor has returned
  deriving Repr

def State.init (start : Nat) : State := ⟨start, [], [], [], []⟩

def hget (h : List AMap) (r : Ref) : AMap := (h[r]?).getD []

/-- What the three maps of a context contain (everything a read can see). -/
structure View where
  req : AMap
  resp : AMap
  eph : AMap
  deriving Repr, DecidableEq

def View.sel (v : View) : Which → AMap
  | .req => v.req | .resp => v.resp | .eph => v.eph

def viewOf (h : List AMap) (c : Ctx) : View := ⟨hget h c.req, hget h c.resp, hget h c.eph⟩

def view (s : State) (i : Nat) : Option View := (s.ctxs[i]?).map (viewOf s.heap)

/-- Non-mutating, non-allocating reads of a context. -/
inductive Query
  | header (w : Which) (k : Bytes)   -- RequestHeader / ResponseHeader / EphemeralProperty
  | timeout                          -- Timeout()
  | cid                              -- CorrelationID()
  | wireReq                          -- FProtocol.WriteRequestHeader(ctx): the header map a reader of the frame decodes
  | wireResp                         -- FProtocol.WriteResponseHeader(ctx)
  | toContext                        -- ToContext(ctx): does the context.Context carry a deadline
  | opId                             -- getOpID(ctx)
  deriving Repr, DecidableEq

inductive Op
  | newProto                                   -- FProtocolFactory.GetProtocol
  | new (cid : Bytes)                          -- NewFContext(cid), cid ≠ ""
  | clone (c : Nat) (generic : Bool)           -- Clone(ctx): `generic = false` FContextImpl.Clone (also reached by the
                                               -- package-level Clone for every FContextWithEphemeralProperties);
                                               -- `generic = true` the package-level Clone of an FContext that is NOT
                                               -- FContextWithEphemeralProperties (a foreign implementation): request and
                                               -- response headers through the accessors, EMPTY ephemeral properties
  | fromRequest (p : Nat) (hdrs : Hdrs)        -- protocol p .ReadRequestHeader() on these wire headers
  | add (c : Nat) (w : Which) (k v : Bytes)    -- AddRequestHeader / AddResponseHeader / AddEphemeralProperty
  | setTimeout (c : Nat) (ns : Int)            -- SetTimeout(time.Duration(ns))
  | read (c : Nat) (q : Query)
  | get (c : Nat) (w : Which)                  -- RequestHeaders() / ResponseHeaders() / EphemeralProperties()
  | retSet (i : Nat) (k v : Bytes)             -- m[k] = v on the i-th returned map
  | retDel (i : Nat) (k : Bytes)               -- delete(m, k) on the i-th returned map
  | retRead (i : Nat)
  deriving Repr, DecidableEq

/-- What the caller of an operation observes. -/
inductive Obs
  | unit                              -- mutators return the context itself
  | bad                               -- no such context / protocol / returned map
  | created (opid : Option Bytes)     -- a context was produced; its request header `_opid`
  | err (e : Err)
  | val (v : Option Bytes)
  | dur (ns : Int)
  | map (m : AMap)
  | num (n : Nat)
  | flag (b : Bool)
  deriving Repr, DecidableEq

def query (v : View) : Query → Obs
  | .header w k => .val ((v.sel w).get? k)
  | .timeout => .dur (timeoutOf v.req)
  | .cid => .val (some ((v.req.get? cidHeader).getD []))
  | .wireReq => .map v.req        -- writeHeader(ctx.RequestHeaders()): a snapshot of the map (codec: C04)
  | .wireResp => .map v.resp
  | .toContext => .flag (decide (timeoutOf v.req > 0))
  | .opId =>
    match v.req.get? opIdHeader with
    | none => .err .missingOpId
    | some x =>
      match parseU64 x with
      | some n => .num n
      | none => .err .badOpId

/-- The effect of one operation on the state. -/
structure Effect where
  nextOpId : Nat
  write : Option (Ref × AMap) := none    -- overwrite of an existing map
  allocs : List AMap := []               -- fresh maps, appended to the heap
  ctxs : List Ctx := []
  protos : List Ref := []
  rets : List Ref := []

def State.apply (s : State) (e : Effect) : State :=
  { nextOpId := e.nextOpId
    heap := (match e.write with
             | some (r, m) => s.heap.set r m
             | none => s.heap) ++ e.allocs
    ctxs := s.ctxs ++ e.ctxs
    protos := s.protos ++ e.protos
    rets := s.rets ++ e.rets }

/-- `atomic.AddUint64(&nextOpID, 1)`. -/
def State.bump (s : State) : Nat := (s.nextOpId + 1) % M64

def State.noop (s : State) : Effect := { nextOpId := s.nextOpId }

/-- The request map `NewFContext` builds. -/
def newReq (cid : Bytes) (id : Nat) : AMap :=
  [(cidHeader, cid), (opIdHeader, dec id), (timeoutHeader, dec 5000)]

/-- The request and response maps `ReadRequestHeader` builds from wire headers `m`
that contain the op id `oid`. -/
def recvReq (m : AMap) (id : Nat) : AMap :=
  Hdrs.set (Hdrs.setAll [] (m.filter (fun kv => kv.1 ≠ opIdHeader))) opIdHeader (dec id)

def recvResp (req : AMap) (oid : Bytes) : AMap :=
  let resp0 := Hdrs.set [] opIdHeader oid
  let cid := (req.get? cidHeader).getD []
  if cid = [] then resp0 else Hdrs.set resp0 cidHeader cid

def effect (s : State) : Op → Effect × Obs
  | .newProto =>
    ({ nextOpId := s.nextOpId, allocs := [[]], protos := [s.heap.length] }, .unit)
  | .new cid =>
    let id := s.bump
    let n := s.heap.length
    let req := newReq cid id
    ({ nextOpId := id, allocs := [req, [], []], ctxs := [⟨n, n + 1, n + 2⟩] }, .created (req.get? opIdHeader))
  | .clone c generic =>
    match s.ctxs[c]? with
    | none => (s.noop, .bad)
    | some x =>
      let id := s.bump
      let n := s.heap.length
      let v := viewOf s.heap x
      let req := v.req.set opIdHeader (dec id)
      ({ nextOpId := id, allocs := [req, v.resp, if generic then [] else v.eph], ctxs := [⟨n, n + 1, n + 2⟩] },
       .created (req.get? opIdHeader))
  | .fromRequest p hdrs =>
    match s.protos[p]? with
    | none => (s.noop, .bad)
    | some pe =>
      let m := Hdrs.setAll [] hdrs          -- the Go map `readHeader` returned
      match m.get? opIdHeader with
      | none => (s.noop, .err .invalidData)     -- before getNextOpID: no id is consumed
      | some oid =>
        let id := s.bump
        let n := s.heap.length
        let req := recvReq m id
        ({ nextOpId := id, allocs := [req, recvResp req oid], ctxs := [⟨n, n + 1, pe⟩] },
         .created (req.get? opIdHeader))
  | .add c w k v =>
    match s.ctxs[c]? with
    | none => (s.noop, .bad)
    | some x => ({ nextOpId := s.nextOpId, write := some (x.sel w, (hget s.heap (x.sel w)).set k v) }, .unit)
  | .setTimeout c ns =>
    match s.ctxs[c]? with
    | none => (s.noop, .bad)
    | some x =>
      ({ nextOpId := s.nextOpId,
         write := some (x.req, (hget s.heap x.req).set timeoutHeader (decInt (wireMs ns))) }, .unit)
  | .read c q =>
    match view s c with
    | none => (s.noop, .bad)
    | some v => (s.noop, query v q)
  | .get c w =>
    match view s c with
    | none => (s.noop, .bad)
    | some v => ({ nextOpId := s.nextOpId, allocs := [v.sel w], rets := [s.heap.length] }, .map (v.sel w))
  | .retSet i k v =>
    match s.rets[i]? with
    | none => (s.noop, .bad)
    | some r => ({ nextOpId := s.nextOpId, write := some (r, (hget s.heap r).set k v) }, .unit)
  | .retDel i k =>
    match s.rets[i]? with
    | none => (s.noop, .bad)
    | some r => ({ nextOpId := s.nextOpId, write := some (r, mdel (hget s.heap r) k) }, .unit)
  | .retRead i =>
    match s.rets[i]? with
    | none => (s.noop, .bad)
    | some r => (s.noop, .map (hget s.heap r))

def step (s : State) (op : Op) : State × Obs := (s.apply (effect s op).1, (effect s op).2)

/-- A history: any list of operations (each atomic), by any number of goroutines. -/
def run (s : State) : List Op → State × List Obs
  | [] => (s, [])
  | op :: t => ((run (step s op).1 t).1, (step s op).2 :: (run (step s op).1 t).2)

/-- The context an operation mutates, if any. -/
def Op.target : Op → Option Nat
  | .add c _ _ _ => some c
  | .setTimeout c _ => some c
  | _ => none

/-- Operations that produce a context (each consumes one op id when it succeeds). -/
def Op.creates : Op → Bool
  | .new _ | .clone _ _ | .fromRequest _ _ => true
  | _ => false

def creations (ops : List Op) : Nat := (ops.filter Op.creates).length

/-- The op ids of the contexts produced, in order, as the callers observed them. -/
def createdIds : List Obs → List (Option Bytes)
  | [] => []
  | .created o :: t => o :: createdIds t
  | _ :: t => createdIds t

end FV.CH
