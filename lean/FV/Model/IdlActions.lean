/-
The semantic actions of `compiler/parser/grammar.peg` (the Go code inside `{ … }`) as functions
from the parse tree of `FV.Peg` to the syntax of `FV.Syn`.  Core Lean only.

An action is identified by its tag (rule name + ordinal, see `Generated/Grammar.lean`); it reads
the labelled parts of its expression (`Tree.get`), unlabelled parts by position (`Tree.nth`, as the
Go code does with `.([]interface{})[i]`) and the matched text (`c.text`).

Errors.  pigeon records an action's error and goes on; the parse then returns an error at the
end.  Every action of this grammar that can fail does so as a function of its matched text only
(`SyntaxError`, `EndOfServiceError`, `EndOfScopeError`, `IntConstant`: strconv.ParseInt range,
`DoubleConstant`: strconv.ParseFloat syntax, `Literal`: strconv.Unquote, `Prefix`: invalid
variable), so `treeErr` decides it by a walk over the tree, and the evaluators may assume success.
(Difference to the real parser: an error of an action inside a branch that is later backtracked
is also reported by pigeon; the model only sees the final tree.)

Modelled fragment of Go library functions: `strconv.Unquote` for the escapes \\ \" \n \t \r \a \b
\f \v (others: `unsupported`), `strconv.ParseFloat` as exact decimal (sign, digits, exponent),
`strings.TrimSpace` for ASCII white space, U+0085 and U+00A0.
-/
import FV.Model.Peg
import FV.Model.IdlSyntax

namespace FV.Act
open FV.Peg FV.Syn

/-! ### tree access -/

def unlab : Tree → Tree
  | .lab _ t => t
  | t => t

def kids : Tree → List Tree
  | .seq ts => ts
  | .lab _ (.seq ts) => ts
  | _ => []

/-- The action's expression value (`act tag text t ↦ t`). -/
def body : Tree → Tree
  | .act _ _ t => t
  | .lab _ (.act _ _ t) => t
  | t => t

def tagOf : Tree → String
  | .act tag _ _ => tag
  | .lab _ (.act tag _ _) => tag
  | _ => ""

def textOf : Tree → List Char
  | .act _ tx _ => tx
  | .text cs => cs
  | .lab _ (.act _ tx _) => tx
  | .lab _ (.text cs) => cs
  | _ => []

def isNil : Tree → Bool
  | .nil => true
  | .lab _ .nil => true
  | _ => false

def findLab (name : String) : List Tree → Tree
  | [] => .nil
  | .lab n t :: rest => if n = name then t else findLab name rest
  | _ :: rest => findLab name rest

/-- The value labelled `name` in the action's expression (a sequence, or the labelled value itself). -/
def get (t : Tree) (name : String) : Tree :=
  match body t with
  | .seq ts => findLab name ts
  | .lab n x => if n = name then x else .nil
  | _ => .nil

/-- Element `i` of a sequence value (`v.([]interface{})[i]`). -/
def nth (t : Tree) (i : Nat) : Tree :=
  unlab ((kids t).getD i .nil)

/-! ### Go library functions -/

def isDigit (c : Char) : Bool := '0' ≤ c && c ≤ '9'
def isLetter (c : Char) : Bool := ('a' ≤ c && c ≤ 'z') || ('A' ≤ c && c ≤ 'Z')
def isWord (c : Char) : Bool := isLetter c || isDigit c || c = '_'

def digitsVal : List Char → Nat → Nat
  | [], acc => acc
  | c :: cs, acc => digitsVal cs (acc * 10 + (c.toNat - 48))

def posInt (ds : List Char) : Option Int :=
  if digitsVal ds 0 ≤ 9223372036854775807 then some (digitsVal ds 0 : Int) else none

def negInt (ds : List Char) : Option Int :=
  if digitsVal ds 0 ≤ 9223372036854775808 then some (-(digitsVal ds 0 : Int)) else none

/-- `strconv.ParseInt(text, 10, 64)` on `[-+]? Digit+`; `none` = out of range. -/
def parseInt : List Char → Option Int
  | [] => posInt []
  | c :: r => if c = '-' then negInt r else if c = '+' then posInt r else posInt (c :: r)

/-- `strconv.ParseFloat` on `[+-]? Digit* '.' Digit* ([’Ee] IntConstant)?`: sign, all digits,
decimal exponent; `none` = syntax error (no digit in the mantissa, `'` as exponent marker). -/
def parseDouble (tx : List Char) : Option (Bool × List Char × Int) :=
  let (neg, r) := match tx with
    | '-' :: r => (true, r)
    | '+' :: r => (false, r)
    | r => (false, r)
  let ip := r.takeWhile isDigit
  let r1 := r.dropWhile isDigit
  match r1 with
  | '.' :: r2 =>
    let fp := r2.takeWhile isDigit
    let r3 := r2.dropWhile isDigit
    if ip.isEmpty && fp.isEmpty then none else
    match r3 with
    | [] => some (neg, ip ++ fp, -(fp.length : Int))
    | m :: er =>
      if m = 'e' || m = 'E' then
        let (eneg, eds) := match er with
          | '-' :: x => (true, x)
          | '+' :: x => (false, x)
          | x => (false, x)
        let e : Int := digitsVal eds 0
        some (neg, ip ++ fp, (if eneg then -e else e) - (fp.length : Int))
      else none
  | _ => none

inductive UQ where
  | ok (s : List Char)
  | err
  | unsupported
  deriving Repr, Inhabited

/-- `strconv.Unquote` of `"` body `"` given the body. -/
def unquoteBody : List Char → List Char → UQ
  | [], acc => .ok acc.reverse
  | '\\' :: c :: r, acc =>
    if c = '\\' then unquoteBody r ('\\' :: acc)
    else if c = '"' then unquoteBody r ('"' :: acc)
    else if c = 'n' then unquoteBody r ('\n' :: acc)
    else if c = 't' then unquoteBody r ('\t' :: acc)
    else if c = 'r' then unquoteBody r ('\r' :: acc)
    else if c = 'a' then unquoteBody r (Char.ofNat 7 :: acc)
    else if c = 'b' then unquoteBody r (Char.ofNat 8 :: acc)
    else if c = 'f' then unquoteBody r (Char.ofNat 12 :: acc)
    else if c = 'v' then unquoteBody r (Char.ofNat 11 :: acc)
    else if c = 'x' || c = 'u' || c = 'U' || isDigit c then .unsupported
    else .err
  | ['\\'], _ => .err
  | c :: r, acc => if c = '"' || c = '\n' then .err else unquoteBody r (c :: acc)

/-- `strings.Replace(s, [a,b], rep, -1)` for a two-character pattern. -/
def replace2 (a b : Char) (rep : List Char) : List Char → List Char
  | x :: y :: r => if x = a && y = b then rep ++ replace2 a b rep r else x :: replace2 a b rep (y :: r)
  | l => l

def replace1 (a : Char) (rep : List Char) : List Char → List Char
  | [] => []
  | x :: r => if x = a then rep ++ replace1 a rep r else x :: replace1 a rep r

/-- The `Literal` action on the matched text. -/
def literalValue (tx : List Char) : UQ :=
  match tx with
  | '\'' :: r =>
    let inner := r.dropLast
    unquoteBody (replace1 '"' ['\\', '"'] (replace2 '\\' '\'' ['\''] inner)) []
  | '"' :: r => unquoteBody r.dropLast []
  | _ => .err

def isSpace (c : Char) : Bool :=
  c = ' ' || c = '\t' || c = '\n' || c = '\r' || c = Char.ofNat 11 || c = Char.ofNat 12 || c = Char.ofNat 133 || c = Char.ofNat 160

def trimSpace (s : List Char) : List Char :=
  ((s.dropWhile isSpace).reverse.dropWhile isSpace).reverse

def splitOn (sep : Char) : List Char → List Char → List (List Char)
  | [], cur => [cur.reverse]
  | c :: r, cur => if c = sep then cur.reverse :: splitOn sep r [] else splitOn sep r (c :: cur)

def stripPrefix (p s : List Char) : List Char :=
  if p.isPrefixOf s then s.drop p.length else s

def stripSuffix (p s : List Char) : List Char :=
  if p.reverse.isPrefixOf s.reverse then s.take (s.length - p.length) else s

/-- The `DocString` action followed by `rawCommentToDocStr`. -/
def docLines (tx : List Char) : List (List Char) :=
  let c := trimSpace (stripSuffix ['*', '/'] (stripPrefix ['/', '*', '*', '@'] tx))
  (splitOn '\n' c []).map (fun l => l.dropWhile (fun ch => ch = '*' || ch = ' '))

/-- `prefixVariable.FindAllString` (`{\w*}`), braces stripped. -/
def prefixVars : Nat → List Char → List (List Char)
  | 0, _ => []
  | _ + 1, [] => []
  | f + 1, c :: r =>
    if c = '{' then
      let w := r.takeWhile isWord
      match r.dropWhile isWord with
      | '}' :: r' => w :: prefixVars f r'
      | _ => prefixVars f r
    else prefixVars f r

/-- `len(v) != 0 && identifier.MatchString(v)` with `identifier = ^[A-Za-z]+[A-Za-z0-9]`. -/
def validVar : List Char → Bool
  | a :: b :: _ => isLetter a && (isLetter b || isDigit b)
  | _ => false

def prefixString (tx : List Char) : List Char :=
  trimSpace (stripPrefix ['p', 'r', 'e', 'f', 'i', 'x'] tx)

/-- `filepath.Base(file)` without its extension (the `Include` action), for paths without trailing '/'. -/
def includeName (file : List Char) : List Char :=
  let base := ((splitOn '/' file []).getLast?).getD []
  let base := if base.isEmpty then (if file.isEmpty then ['.'] else ['/']) else base
  -- strings.LastIndex(name, ".") > 0
  let rev := base.reverse
  let afterDot := rev.dropWhile (· ≠ '.')
  match afterDot with
  | _ :: stem => if stem.isEmpty then base else stem.reverse
  | [] => base

/-! ### action errors -/

def actErr (tag : String) (tx : List Char) : Bool :=
  if tag = "SyntaxError1" || tag = "EndOfServiceError1" || tag = "EndOfScopeError1" then true
  else if tag = "IntConstant1" then (parseInt tx).isNone
  else if tag = "DoubleConstant1" then (parseDouble tx).isNone
  else if tag = "Literal1" then (match literalValue tx with | .ok _ => false | _ => true)
  else if tag = "Prefix1" then
    let p := prefixString tx
    (prefixVars (p.length + 1) p).any (fun v => !validVar v)
  else false

mutual
/-- Some action in the tree returned an error. -/
def treeErr : Tree → Bool
  | .nil => false
  | .text _ => false
  | .seq ts => treeErrList ts
  | .lab _ t => treeErr t
  | .act tag tx t => actErr tag tx || treeErr t
def treeErrList : List Tree → Bool
  | [] => false
  | t :: ts => treeErr t || treeErrList ts
end

/-- A `Literal` whose escapes are outside the modelled fragment of strconv.Unquote occurs. -/
def actUnsupported (tag : String) (tx : List Char) : Bool :=
  tag = "Literal1" && (match literalValue tx with | .unsupported => true | _ => false)

mutual
def treeUnsupported : Tree → Bool
  | .nil => false
  | .text _ => false
  | .seq ts => treeUnsupportedList ts
  | .lab _ t => treeUnsupported t
  | .act tag tx t => actUnsupported tag tx || treeUnsupported t
def treeUnsupportedList : List Tree → Bool
  | [] => false
  | t :: ts => treeUnsupported t || treeUnsupportedList ts
end

/-! ### the actions -/

def evIdent (t : Tree) : Name := textOf t

def evLiteral (t : Tree) : List Char :=
  match literalValue (textOf t) with
  | .ok s => s
  | _ => []

def evInt (t : Tree) : Int := (parseInt (textOf t)).getD 0

/-- `TypeAnnotation`. -/
def evAnn (t : Tree) : Ann :=
  let v := get t "value"
  { name := evIdent (get t "name"), value := if isNil v then [] else evLiteral (get v "value") }

/-- `annotations:TypeAnnotations?` → `toAnnotations`. -/
def evAnns (t : Tree) : List Ann :=
  if isNil t then [] else (kids (get t "annotations")).map evAnn

/-- `FieldType` (and the rules below it); fuel bounds the nesting depth. -/
def evTy : Nat → Tree → Option Ty
  | 0, _ => none
  | f + 1, t =>
    -- t = act FieldType1 (lab typ x)
    let x := get t "typ"
    let tag := tagOf x
    if tag = "Identifier1" then some (.named (evIdent x))
    else if tag = "BaseType1" then some (.base (textOf (get x "name")) (evAnns (get x "annotations")))
    else if tag = "ContainerType1" then
      let c := get x "typ"
      let ctag := tagOf c
      if ctag = "ListType1" then (evTy f (get c "typ")).map (fun e => .list e (evAnns (get c "annotations")))
      else if ctag = "SetType1" then (evTy f (get c "typ")).map (fun e => .set e (evAnns (get c "annotations")))
      else if ctag = "MapType1" then
        match evTy f (get c "key"), evTy f (get c "value") with
        | some k, some v => some (.map k v (evAnns (get c "annotations")))
        | _, _ => none
      else none
    else none

def evCVs (ev : Tree → Option CV) : List Tree → Option (List CV)
  | [] => some []
  | t :: ts => match ev (nth t 0), evCVs ev ts with
    | some v, some vs => some (v :: vs)
    | _, _ => none

def evKVs (ev : Tree → Option CV) : List Tree → Option (List (CV × CV))
  | [] => some []
  | t :: ts => match ev (nth t 0), ev (nth t 4), evKVs ev ts with
    | some k, some v, some vs => some ((k, v) :: vs)
    | _, _, _ => none

/-- `ConstValue`. -/
def evCV : Nat → Tree → Option CV
  | 0, _ => none
  | f + 1, t =>
    let tag := tagOf t
    if tag = "Literal1" then some (.str (evLiteral t))
    else if tag = "BoolConstant1" then some (.bool (textOf t = ['t', 'r', 'u', 'e']))
    else if tag = "DoubleConstant1" then
      (parseDouble (textOf t)).map (fun (n, d, e) => .dbl n d e)
    else if tag = "IntConstant1" then some (.int (evInt t))
    else if tag = "Identifier1" then some (.ref (evIdent t))
    else if tag = "ConstList1" then (evCVs (evCV f) (kids (get t "values"))).map .list
    else if tag = "ConstMap1" then (evKVs (evCV f) (kids (get t "values"))).map .map
    else none

/-- `docstr:(DocString __)?`. -/
def evDoc (t : Tree) : Doc :=
  if isNil t then none else some (docLines (textOf (nth t 0)))

def evMod (t : Tree) : Mod :=
  if isNil t then .dflt
  else if textOf t = ['r', 'e', 'q', 'u', 'i', 'r', 'e', 'd'] then .required else .optional

def tyFuel (t : Tree) : Nat := (textOf t).length + 2

/-- `Field`. -/
def evField (t : Tree) : Option Field :=
  let d := get t "def"
  let ty := get t "typ"
  match evTy (tyFuel ty) ty, (if isNil d then some none else (evCV (tyFuel t) (nth d 2)).map some) with
  | some ty', some dv =>
    some { doc := evDoc (get t "docstr"), id := evInt (get t "id"), mod := evMod (get t "mod"),
           name := evIdent (get t "name"), ty := ty', dflt := dv, anns := evAnns (get t "annotations") }
  | _, _ => none

def evFieldsAux : List Tree → Option (List Field)
  | [] => some []
  | t :: ts => match evField (nth t 0), evFieldsAux ts with
    | some f, some fs => some (f :: fs)
    | _, _ => none

/-- `FieldList`. -/
def evFields (t : Tree) : Option (List Field) := evFieldsAux (kids (get t "fields"))

def forceOptional (fs : List Field) : List Field := fs.map (fun f => { f with mod := .optional })

/-- `StructLike`. -/
def evStructLike (t : Tree) : Option Struct :=
  (evFields (get t "fields")).map fun fs =>
    { doc := none, name := evIdent (get t "name"), fields := fs, anns := evAnns (get t "annotations") }

/-- One enum value as the `EnumValue` action returns it: explicit value or none. -/
structure RawEV where
  doc : Doc
  name : Name
  value : Option Int
  anns : List Ann

def evEnumValue (t : Tree) : RawEV :=
  let v := get t "value"
  { doc := evDoc (get t "docstr"), name := evIdent (get t "name"),
    value := if isNil v then none else some (evInt (nth v 2)), anns := evAnns (get t "annotations") }

/-- The numbering loop of the `Enum` action: `next` is the number an implicit value gets. -/
def numberEnum : Int → List RawEV → List EnumValue
  | _, [] => []
  | next, v :: vs =>
    let n := match v.value with
      | some x => x
      | none => next
    { doc := v.doc, name := v.name, num := n, anns := v.anns } :: numberEnum (n + 1) vs

/-- `Enum`. -/
def evEnum (t : Tree) : Enum :=
  { doc := none, name := evIdent (get t "name"),
    values := numberEnum 0 ((kids (get t "values")).map (fun x => evEnumValue (nth x 0))),
    anns := evAnns (get t "annotations") }

def evTypedef (t : Tree) : Option Typedef :=
  let ty := get t "typ"
  (evTy (tyFuel ty) ty).map fun ty' =>
    { doc := none, name := evIdent (get t "name"), ty := ty', anns := evAnns (get t "annotations") }

def evConst (t : Tree) : Option Const :=
  let ty := get t "typ"
  match evTy (tyFuel ty) ty, evCV (tyFuel t) (get t "value") with
  | some ty', some v =>
    some { doc := none, name := evIdent (get t "name"), ty := ty', value := v, anns := evAnns (get t "annotations") }
  | _, _ => none

def evInclude (t : Tree) : Include :=
  let file := evLiteral (get t "file")
  { name := includeName file, value := file, anns := evAnns (get t "annotations") }

def evNamespace (t : Tree) : Namespace :=
  { scope := ((kids (get t "scope")).map textOf).flatten, value := evIdent (get t "ns"), anns := evAnns (get t "annotations") }

/-- `Function`. -/
def evMethod (t : Tree) : Option Method :=
  let ft := get t "typ"                 -- act FunctionType1 (lab typ (text "void" | FieldType))
  let inner := get ft "typ"
  let ret : Option (Option Ty) :=
    if tagOf inner = "FieldType1" then (evTy (tyFuel inner) inner).map some else some none
  let ex := get t "exceptions"
  match ret, evFields (get t "arguments"), (if isNil ex then some [] else evFields (get ex "exceptions")) with
  | some r, some args, some excs =>
    some { doc := evDoc (get t "docstr"), name := evIdent (get t "name"), oneway := !isNil (get t "oneway"),
           ret := r, args := args, excs := forceOptional excs, anns := evAnns (get t "annotations") }
  | _, _, _ => none

def evMethodsAux : List Tree → Option (List Method)
  | [] => some []
  | t :: ts => match evMethod (nth t 0), evMethodsAux ts with
    | some m, some ms => some (m :: ms)
    | _, _ => none

def evService (t : Tree) : Option Service :=
  let ex := get t "extends"
  (evMethodsAux (kids (get t "methods"))).map fun ms =>
    { doc := none, name := evIdent (get t "name"), ext := if isNil ex then [] else evIdent (nth ex 2),
      methods := ms, anns := evAnns (get t "annotations") }

def evOp (t : Tree) : Option Op :=
  let ty := get t "typ"
  (evTy (tyFuel ty) ty).map fun ty' =>
    { doc := evDoc (get t "docstr"), name := evIdent (get t "name"), ty := ty', anns := evAnns (get t "annotations") }

def evOpsAux : List Tree → Option (List Op)
  | [] => some []
  | t :: ts => match evOp (nth t 0), evOpsAux ts with
    | some o, some os => some (o :: os)
    | _, _ => none

def evScope (t : Tree) : Option Scope :=
  let p := get t "prefix"
  let ps := if isNil p then [] else prefixString (textOf p)
  (evOpsAux (kids (get t "operations"))).map fun os =>
    { doc := none, name := evIdent (get t "name"), pfx := ps, vars := prefixVars (ps.length + 1) ps,
      ops := os, anns := evAnns (get t "annotations") }

/-- The `Grammar` action's loop over the statements (`Statement` wraps comment and statement). -/
def addStatement (file : File) (st : Tree) : Option File :=
  let doc := evDoc (get st "docstr")
  let s := get st "statement"
  let tag := tagOf s
  if tag = "Include1" then some { file with includes := file.includes ++ [evInclude s] }
  else if tag = "Namespace1" then some { file with namespaces := file.namespaces ++ [evNamespace s] }
  else if tag = "Const1" then (evConst s).map fun c => { file with consts := file.consts ++ [{ c with doc := doc }] }
  else if tag = "Enum1" then some { file with enums := file.enums ++ [{ evEnum s with doc := doc }] }
  else if tag = "TypeDef1" then (evTypedef s).map fun c => { file with typedefs := file.typedefs ++ [{ c with doc := doc }] }
  else if tag = "Struct1" then (evStructLike (get s "st")).map fun c => { file with structs := file.structs ++ [{ c with doc := doc }] }
  else if tag = "Exception1" then (evStructLike (get s "st")).map fun c => { file with exceptions := file.exceptions ++ [{ c with doc := doc }] }
  else if tag = "Union1" then (evStructLike (get s "st")).map fun c =>
    { file with unions := file.unions ++ [{ c with doc := doc, fields := forceOptional c.fields }] }
  else if tag = "Service1" then (evService s).map fun c => { file with services := file.services ++ [{ c with doc := doc }] }
  else if tag = "Scope1" then (evScope s).map fun c => { file with scopes := file.scopes ++ [{ c with doc := doc }] }
  else none

def addStatements : File → List Tree → Option File
  | file, [] => some file
  | file, t :: ts => match addStatement file (nth t 0) with
    | some f' => addStatements f' ts
    | none => none

/-- `Grammar`. -/
def evFile (t : Tree) : Option File := addStatements {} (kids (get t "statements"))

end FV.Act
