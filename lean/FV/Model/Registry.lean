/-
Model of the client-side correlation mechanism (C01, C06, C13):

  lib/go/registry.go          fRegistryImpl.Register / Unregister / Execute / dispatch
  lib/go/adapter_transport.go Request (result channel of capacity `cap`, select on result / send error / ctx.Done)
  lib/go/nats_transport.go    Request, handler (503 routing through dispatch)

A system is any number of callers sharing one transport, one reader goroutine
(the adapter's read loop, or the NATS subscription callback — nats.go runs one
callback at a time per subscription), and the registry. One `Action` is one
statement group that is atomic in the code: a call under the registry mutex,
one channel operation, one `select` arm. `step s a = none` means the action is
not enabled (the goroutine would block, or is not at that point).

The split `readerLookup` / `readerSend` is exactly the point between
`c.mu.RUnlock()` and the channel send in `dispatch` (yield point
`registry.dispatch.presend` in the guard-on build); `recv` / `unregister` is the
point between the `select` arm and the deferred `Unregister`.

`sendBlocking = true` describes a `dispatch` whose channel send blocks when the
buffer is full (the code before the C06 fix); `false` the `select … default`
send of the code as it is. The parameter is tied to the source on every run
(`Generated/Params.lean`).
-/
import FV.Basic

namespace FV.Reg

abbrev OpId := Nat

/-- A response frame as far as correlation is concerned: its `_opid` and an opaque payload tag. -/
structure Frame where
  opid : OpId
  tag : Nat
  deriving DecidableEq, Repr

inductive Outcome where
  | ok (f : Frame)      -- Request returned the frame
  | timedOut            -- TRANSPORT_EXCEPTION_TIMED_OUT
  | sendErr             -- error from Write/Flush (adapter) or Publish (NATS)
  | regErr              -- Register refused: op id already in flight
  deriving DecidableEq, Repr

/-- Program counter of one `Request` call. -/
inductive Pc where
  | new                       -- not started
  | waiting                   -- registered, send started, blocked in `select`
  | leaving (o : Outcome)     -- a select arm was taken; deferred Unregister not yet run
  | done (o : Outcome)        -- returned
  deriving DecidableEq, Repr

structure Caller where
  opid : OpId
  pc : Pc
  buf : List Frame            -- the result channel (oldest first), capacity `cap`
  deriving DecidableEq, Repr

inductive Reader where
  | idle
  | lookedUp (ch : Nat) (f : Frame)   -- found channel `ch` under the read lock, about to send `f`
  deriving DecidableEq, Repr

structure Sys where
  cap : Nat                           -- capacity of every result channel
  sendBlocking : Bool                 -- dispatch's send blocks on a full channel
  callers : List Caller
  registry : List (OpId × Nat)        -- op id ↦ index of the caller whose channel is registered
  reader : Reader
  deriving DecidableEq, Repr

inductive Action where
  | register (i : Nat)        -- Register + start of send + enter select
  | recv (i : Nat)            -- select arm: result := <-resultC
  | timeout (i : Nat)         -- select arm: <-ctx.Done() / time.After
  | sendError (i : Nat)       -- select arm: err := <-errorC
  | unregister (i : Nat)      -- deferred Unregister, then return
  | readerLookup (f : Frame)  -- reader: Execute → dispatch → map lookup under RLock
  | readerSend                -- reader: the channel send after RUnlock
  deriving DecidableEq, Repr

def lookup (r : List (OpId × Nat)) (o : OpId) : Option Nat :=
  match r.find? (fun e => e.1 = o) with
  | some e => some e.2
  | none => none

def updCaller (cs : List Caller) (i : Nat) (f : Caller → Caller) : List Caller :=
  cs.modify i f

def Caller.setPc (c : Caller) (p : Pc) : Caller := { c with pc := p }
def Caller.push (c : Caller) (f : Frame) : Caller := { c with buf := c.buf ++ [f] }
def Caller.take (c : Caller) (p : Pc) (rest : List Frame) : Caller := { c with pc := p, buf := rest }

def init (cap : Nat) (sendBlocking : Bool) (opids : List OpId) : Sys :=
  { cap := cap, sendBlocking := sendBlocking,
    callers := opids.map (fun o => ⟨o, .new, []⟩), registry := [], reader := .idle }

def step (s : Sys) : Action → Option Sys
  | .register i =>
    match s.callers[i]? with
    | some c =>
      if c.pc ≠ .new then none
      else if (lookup s.registry c.opid).isSome then
        -- "context already registered": Register returns an error, nothing is registered
        some { s with callers := updCaller s.callers i (fun c => c.setPc (.done .regErr)) }
      else
        some { s with callers := updCaller s.callers i (fun c => c.setPc .waiting),
                      registry := s.registry ++ [(c.opid, i)] }
    | none => none
  | .recv i =>
    match s.callers[i]? with
    | some c =>
      if c.pc ≠ .waiting then none else
      match c.buf with
      | [] => none                                   -- nothing to receive: this arm is not ready
      | f :: rest => some { s with callers := updCaller s.callers i (fun c => c.take (.leaving (.ok f)) rest) }
    | none => none
  | .timeout i =>
    match s.callers[i]? with
    | some c => if c.pc ≠ .waiting then none else
      some { s with callers := updCaller s.callers i (fun c => c.setPc (.leaving .timedOut)) }
    | none => none
  | .sendError i =>
    match s.callers[i]? with
    | some c => if c.pc ≠ .waiting then none else
      some { s with callers := updCaller s.callers i (fun c => c.setPc (.leaving .sendErr)) }
    | none => none
  | .unregister i =>
    match s.callers[i]? with
    | some c =>
      match c.pc with
      | .leaving o =>
        some { s with callers := updCaller s.callers i (fun c => c.setPc (.done o)),
                      registry := s.registry.filter (fun e => e.1 ≠ c.opid) }
      | _ => none
    | none => none
  | .readerLookup f =>
    match s.reader with
    | .idle =>
      match lookup s.registry f.opid with
      | some ch => some { s with reader := .lookedUp ch f }
      | none => some s                               -- "unregistered context": frame dropped
    | _ => none
  | .readerSend =>
    match s.reader with
    | .lookedUp ch f =>
      match s.callers[ch]? with
      | some c =>
        if c.buf.length < s.cap then
          some { s with callers := updCaller s.callers ch (fun c => c.push f), reader := .idle }
        else if s.sendBlocking then none             -- blocked on a full channel
        else some { s with reader := .idle }         -- select … default: frame dropped
      | none => none
    | _ => none

/-- Run an action list; `none` as soon as an action is not enabled. -/
def run (s : Sys) : List Action → Option Sys
  | [] => some s
  | a :: as => match step s a with
    | some s' => run s' as
    | none => none

/-- Run an action list, skipping actions that are not enabled (what a scheduler that
offers a disabled action observes: nothing happens). Returns the final state and
the list of enabled flags. -/
def runSkip (s : Sys) : List Action → Sys × List Bool
  | [] => (s, [])
  | a :: as => match step s a with
    | some s' => let (r, bs) := runSkip s' as; (r, true :: bs)
    | none => let (r, bs) := runSkip s as; (r, false :: bs)

end FV.Reg
