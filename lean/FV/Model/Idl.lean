/-
A compact abstract syntax of Frugal IDL programs (`compiler/parser/types.go`), as much of it
as the breaking-change auditor (C18) looks at. Core Lean only (linked into the driver).

Correspondence with the Go AST (`parser.Frugal`):
* `Ty`: a `parser.Type{Name, KeyType, ValueType}`. `base n` iff `Name` is one of the eight base
  type names, `list`/`set`/`map` iff `Name` is that container keyword, `named n` otherwise
  (struct, union, exception, enum or typedef reference of the same file); a name with an include
  prefix `inc.n` (`Type.IncludeName`/`ParamName`: split at the first `.`) is `qual inc n`. This
  is how the real parser's value is converted by the harness; a `Ty` outside the image
  (`named "i32"`, `named "a.b"`) denotes no parser output.
* `Prog.includes`: `Frugal.ParsedIncludes` as far as the auditor can reach into it: the typedefs
  of each directly included file (and the names it declares, for `WF`).
* `Field.mod`: `parser.FieldModifier` (no keyword = `dflt`; the parser forces `optional` on
  union fields and on `throws` fields). `Field.dflt`: a canonical token of the default value
  (`none` = no default; tokens are equal iff the parsed values are `reflect.DeepEqual`).
* `Prog.structs` holds structs, unions and exceptions with their `kind` (Go keeps three slices).
* `Scope.pfx`: the prefix split at `.`; `{x}` is `PTok.var x`, any other piece is `PTok.lit`.
* Go maps built with `m[key] = v` in slice order: the LAST entry with a key wins (`findLast?`);
  ranging over such a map visits each key once (`dedupLast`), in an unspecified order.
-/
namespace FV.Idl

abbrev Name := String

inductive Ty where
  | base (n : Name)
  | named (n : Name)
  | qual (inc n : Name)    -- `inc.n`: a type of the included file `inc`
  | list (e : Ty)
  | set (e : Ty)
  | map (k v : Ty)
  deriving DecidableEq, Repr, Inhabited

inductive Modifier where
  | required | optional | dflt
  deriving DecidableEq, Repr, Inhabited

structure Field where
  id : Int
  name : Name
  mod : Modifier
  ty : Ty
  dflt : Option String := none
  deriving DecidableEq, Repr, Inhabited

inductive StructKind where
  | struct | union | exception
  deriving DecidableEq, Repr, Inhabited

structure StructLike where
  kind : StructKind
  name : Name
  fields : List Field
  deriving DecidableEq, Repr, Inhabited

structure EnumValue where
  name : Name
  num : Int
  deriving DecidableEq, Repr, Inhabited

structure Enum where
  name : Name
  values : List EnumValue
  deriving DecidableEq, Repr, Inhabited

structure Typedef where
  name : Name
  ty : Ty
  deriving DecidableEq, Repr, Inhabited

structure Method where
  name : Name
  oneway : Bool
  ret : Option Ty          -- `none` = void
  args : List Field
  excs : List Field
  deriving DecidableEq, Repr, Inhabited

structure Service where
  name : Name
  ext : Option Name        -- `extends`
  methods : List Method
  deriving DecidableEq, Repr, Inhabited

/-- One `.`-separated piece of a scope prefix. -/
inductive PTok where
  | var (n : Name)         -- `{n}`
  | lit (s : String)
  deriving DecidableEq, Repr, Inhabited

structure Operation where
  name : Name
  ty : Ty
  deriving DecidableEq, Repr, Inhabited

structure Scope where
  name : Name
  pfx : List PTok
  ops : List Operation
  deriving DecidableEq, Repr, Inhabited

structure Namespace where
  scope : String
  value : String
  deriving DecidableEq, Repr, Inhabited

structure Const where
  name : Name
  ty : Ty
  value : String           -- canonical token of the value
  deriving DecidableEq, Repr, Inhabited

/-- A directly included file, as far as type resolution of the including file reaches into it. -/
structure IncFile where
  name : Name              -- include name (file base name)
  typedefs : List Typedef
  decls : List Name := []  -- names of its structs, unions, exceptions, enums
  deriving DecidableEq, Repr, Inhabited

structure Prog where
  typedefs : List Typedef := []
  enums : List Enum := []
  structs : List StructLike := []
  services : List Service := []
  scopes : List Scope := []
  namespaces : List Namespace := []
  consts : List Const := []
  includes : List IncFile := []
  deriving DecidableEq, Repr, Inhabited

def baseTypeNames : List Name := ["bool", "byte", "i16", "i32", "i64", "double", "string", "binary"]
def reservedTypeNames : List Name := baseTypeNames ++ ["list", "set", "map", "void"]

/-! ### Go map idioms -/

/-- `m := map…; for _, x := range l { m[key x] = x }; m[k]`: the last `x` with `p x`. -/
def findLast? (p : α → Bool) : List α → Option α
  | [] => none
  | a :: l =>
    match findLast? p l with
    | some b => some b
    | none => if p a then some a else none

/-- The values of such a map: for every key the last entry, (here) in slice order. -/
def dedupLast [DecidableEq κ] (key : α → κ) : List α → List α
  | [] => []
  | a :: l => if l.any (fun b => key b = key a) then dedupLast key l else a :: dedupLast key l

/-! ### Types -/

def Ty.size : Ty → Nat
  | .base _ => 1
  | .named _ => 1
  | .qual _ _ => 1
  | .list e => e.size + 1
  | .set e => e.size + 1
  | .map k v => k.size + v.size + 1

/-- Names of the named types mentioned anywhere in the type. -/
def Ty.refs : Ty → List Name
  | .base _ => []
  | .named n => [n]
  | .qual _ _ => []
  | .list e => e.refs
  | .set e => e.refs
  | .map k v => k.refs ++ v.refs

/-- Base names are base names, named references are not reserved words. -/
def Ty.wellNamed : Ty → Bool
  | .base n => baseTypeNames.contains n
  | .named n => !reservedTypeNames.contains n
  | .qual _ n => !reservedTypeNames.contains n
  | .list e => e.wellNamed
  | .set e => e.wellNamed
  | .map k v => k.wellNamed && v.wellNamed

/-- The typedef a name denotes (`typedefIndex[name]`). -/
def lookupTd (tds : List Typedef) (n : Name) : Option Ty :=
  (findLast? (fun td => td.name == n) tds).map (·.ty)

/-- What type resolution of a file sees: its own typedefs and its directly included files. -/
structure TEnv where
  tds : List Typedef
  incs : List IncFile

/-- `typedefIndex[n]` of the file itself. -/
def TEnv.loc (e : TEnv) (n : Name) : Option Ty := lookupTd e.tds n

/-- `ParsedIncludes[inc].typedefIndex[n]`: a qualified name is looked up ONLY in that include. -/
def TEnv.inInc (e : TEnv) (inc n : Name) : Option Ty :=
  (findLast? (fun f => f.name == inc) e.incs).bind fun f => lookupTd f.typedefs n

/-- No named or qualified reference anywhere in the type (base types and containers of them). -/
def Ty.nameFree : Ty → Bool
  | .base _ => true
  | .named _ => false
  | .qual _ _ => false
  | .list e => e.nameFree
  | .set e => e.nameFree
  | .map k v => k.nameFree && v.nameFree

/-- Include-qualified references of the type. -/
def Ty.qrefs : Ty → List (Name × Name)
  | .base _ => []
  | .named _ => []
  | .qual i n => [(i, n)]
  | .list e => e.qrefs
  | .set e => e.qrefs
  | .map k v => k.qrefs ++ v.qrefs

/-- The type with every typedef expanded, at every depth: a plain name through the file's own
typedefs, `inc.n` ONLY through the typedefs of the included file `inc`. `none`: out of fuel
(only possible when the fuel is too small for the nesting, e.g. on cyclic typedefs).
The body of an included typedef is continued as written; it is only meaningful when that body
mentions no names (`WF` demands this of every included typedef the file refers to — a body with
names would have to be re-qualified, see `resolveAcross?` and the known finding in `Props/C18`). -/
def resolve? (e : TEnv) : Nat → Ty → Option Ty
  | 0, _ => none
  | _ + 1, .base n => some (.base n)
  | f + 1, .named n =>
    match e.loc n with
    | some body => resolve? e f body
    | none => some (.named n)
  | f + 1, .qual i n =>
    match e.inInc i n with
    | some body => resolve? e f body
    | none => some (.qual i n)
  | f + 1, .list t => (resolve? e f t).map .list
  | f + 1, .set t => (resolve? e f t).map .set
  | f + 1, .map k v =>
    match resolve? e f k, resolve? e f v with
    | some k', some v' => some (.map k' v')
    | _, _ => none

/-- A type written inside the included file `inc`, seen from the including file: its plain
names are names of `inc`. (Qualified names inside `inc` refer to `inc`'s own includes, which
are not part of this model; they are left as they are.) -/
def Ty.requal (inc : Name) : Ty → Ty
  | .base n => .base n
  | .named n => .qual inc n
  | .qual i n => .qual i n
  | .list t => .list (t.requal inc)
  | .set t => .set (t.requal inc)
  | .map k v => .map (k.requal inc) (v.requal inc)

/-- Expansion with the body of an included typedef read in ITS file (what the IDL means,
for any body). Coincides with `resolve?` on the well-formed fragment; used to state the
known finding about typedef chains inside an include. -/
def resolveAcross? (e : TEnv) : Nat → Ty → Option Ty
  | 0, _ => none
  | _ + 1, .base n => some (.base n)
  | f + 1, .named n =>
    match e.loc n with
    | some body => resolveAcross? e f body
    | none => some (.named n)
  | f + 1, .qual i n =>
    match e.inInc i n with
    | some body => resolveAcross? e f (body.requal i)
    | none => some (.qual i n)
  | f + 1, .list t => (resolveAcross? e f t).map .list
  | f + 1, .set t => (resolveAcross? e f t).map .set
  | f + 1, .map k v =>
    match resolveAcross? e f k, resolveAcross? e f v with
    | some k', some v' => some (.map k' v')
    | _, _ => none

/-! ### Programs -/

def Method.tys (m : Method) : List Ty :=
  m.ret.toList ++ m.args.map (·.ty) ++ m.excs.map (·.ty)

/-- Every type written in the program (typedef bodies included). -/
def Prog.allTys (p : Prog) : List Ty :=
  p.typedefs.map (·.ty) ++ p.consts.map (·.ty)
    ++ p.structs.flatMap (fun s => s.fields.map (·.ty))
    ++ p.services.flatMap (fun s => s.methods.flatMap Method.tys)
    ++ p.scopes.flatMap (fun s => s.ops.map (·.ty))

/-- Fuel that suffices to expand any type of a program whose typedefs are acyclic: a path
in an expanded type descends through the written type and through each typedef body at most
once. Well-formedness (`WF.resolves`) *checks* that it suffices. -/
def Prog.fuel (p : Prog) : Nat :=
  (p.allTys.map (fun t => t.size + 1)).sum
    + (p.includes.flatMap fun f => f.typedefs.map fun td => td.ty.size + 1).sum + 1

def Prog.env (p : Prog) : TEnv := ⟨p.typedefs, p.includes⟩

/-- Names a `named` type may refer to. -/
def Prog.typeNames (p : Prog) : List Name :=
  p.typedefs.map (·.name) ++ p.enums.map (·.name) ++ p.structs.map (·.name)

def fieldsWF (fs : List Field) : Prop := (fs.map (·.id)).Nodup

/-- Well-formed programs: unique names per kind, unique field ids, typedefs acyclic (every
type expands within `p.fuel` typedef hops and container levels), types resolve. The real
parser enforces part of this (`validate`), the rest is what every sensible IDL satisfies. -/
def WF (p : Prog) : Prop :=
  (p.typedefs.map (·.name)).Nodup ∧
  (p.enums.map (·.name)).Nodup ∧
  (∀ e ∈ p.enums, (e.values.map (·.num)).Nodup) ∧
  (p.structs.map (fun s => (s.kind, s.name))).Nodup ∧
  (∀ s ∈ p.structs, fieldsWF s.fields) ∧
  (p.services.map (·.name)).Nodup ∧
  (∀ s ∈ p.services, (s.methods.map (·.name)).Nodup ∧
      ∀ m ∈ s.methods, fieldsWF m.args ∧ fieldsWF m.excs) ∧
  (p.scopes.map (·.name)).Nodup ∧
  (∀ s ∈ p.scopes, (s.ops.map (·.name)).Nodup) ∧
  (p.namespaces.map (·.scope)).Nodup ∧
  (p.consts.map (·.name)).Nodup ∧
  -- typedefs acyclic / types resolve
  (∀ t ∈ p.allTys, (resolve? p.env p.fuel t).isSome) ∧
  (∀ t ∈ p.allTys, t.wellNamed = true ∧ (∀ n ∈ t.refs, n ∈ p.typeNames) ∧
      ∀ q ∈ t.qrefs, ∃ f ∈ p.includes, f.name = q.1 ∧ q.2 ∈ f.typedefs.map (·.name) ++ f.decls) ∧
  -- includes: unique names; an included typedef the file refers to has a body without names
  -- (exact shape of the recorded finding: a second typedef hop, or any name, inside an include)
  (p.includes.map (·.name)).Nodup ∧
  (∀ f ∈ p.includes, (f.typedefs.map (·.name)).Nodup) ∧
  (∀ t ∈ p.allTys, ∀ q ∈ t.qrefs, ∀ b, p.env.inInc q.1 q.2 = some b → b.nameFree = true)

instance (p : Prog) : Decidable (WF p) := by
  unfold WF fieldsWF; exact inferInstance

end FV.Idl
