/-
Model of the READ SIDE OF A TRANSPORT under `readHeader` (lib/go/protocol.go / headers.go), for C04.

`readHeader(reader io.Reader)` and `v0ProtocolMarshaler.unmarshalHeaders` see the transport under the
FProtocol only through `io.ReadFull(reader, buf)`. A transport is therefore modelled as

  * `chunks`     the pieces in which its `Read` hands the bytes out (a `Read(p)` returns at most the rest of
                 the current piece: short reads; an empty piece is a `Read` that returns `0, nil`), followed
                 by end-of-file — ANY chunking of the byte string it carries: a memory buffer (one piece), a
                 framed transport (one piece per frame), a buffered / inflating transport (whatever its
                 window holds), a pipe (whatever the writer wrote);
  * `remaining`  what its `RemainingBytes()` (thrift.ReadSizeProvider) reports when the given pieces are still
                 unread — ADVISORY and arbitrary: transports that decode or buffer report what is left
                 underneath them, 0, or max-uint64.

`readFull` is `io.ReadFull`; `readHeaderT` is `readHeader` → `unmarshalHeaders` written against that
interface, step by step as the Go code (1 byte, 4 bytes, `size` bytes, `readPairs`). The code does not
consult `RemainingBytes`; the theorem `FV.C04.c04_read_independent_of_chunking_and_remaining` (with
`readHeaderT_eq` in Proofs/HeadersTransport) states what that buys, and the differential suite `c04tr`
ties it to the real code over real transports.
-/
import FV.Model.Headers
import FV.Model.Context

namespace FV

structure RdTransport where
  chunks : List Bytes
  remaining : List Bytes → Nat

def RdTransport.bytes (t : RdTransport) : Bytes := t.chunks.flatten

def readFull : List Bytes → Nat → Option (Bytes × List Bytes)
  | [], n => if n = 0 then some ([], []) else none
  | c :: cs, n =>
    if n ≤ c.length then some (c.take n, c.drop n :: cs)
    else match readFull cs (n - c.length) with
      | some (b, r) => some (c ++ b, r)
      | none => none

def readHeaderT (t : RdTransport) : Res (Hdrs × Bytes) :=
  match readFull t.chunks 1 with
  | none => .err .transport
  | some (vb, c1) =>
    if vb ≠ [0] then .err .badVersion else
    match readFull c1 4 with
    | none => .err .transport
    | some (sb, c2) =>
      let size := toI32 (rd32 sb)
      if size < 0 then .err .invalidData else
      match readFull c2 size.toNat with
      | none => .err .transport
      | some (buf, c3) =>
        match readPairs buf 0 size [] with
        | .ok h => .ok (h, c3.flatten)
        | .err e => .err e
        | .panic p => .panic p

/-- `FProtocol.ReadRequestHeader()` over a transport. -/
def readRequestHeaderT (t : RdTransport) (ctr : Nat) : Res (Ctx × Bytes) :=
  match readHeaderT t with
  | .ok (h, rest) =>
    match serverCtx h (ctr + 1) with
    | .ok c => .ok (c, rest)
    | .err e => .err e
    | .panic p => .panic p
  | .err e => .err e
  | .panic p => .panic p

/-- `FProtocol.ReadResponseHeader(ctx)` over a transport. -/
def readResponseHeaderT (c : Ctx) (t : RdTransport) : Res (Ctx × Bytes) :=
  match readHeaderT t with
  | .ok (h, rest) => .ok (mergeResponse c h, rest)
  | .err e => .err e
  | .panic p => .panic p

/-- Cut a byte string into pieces of `k` bytes (`fuel` pieces at most, the rest in one). -/
def chunksOf (k : Nat) : Nat → Bytes → List Bytes
  | 0, b => [b]
  | fuel + 1, b => if b.length ≤ k then [b] else b.take k :: chunksOf k fuel (b.drop k)

end FV
