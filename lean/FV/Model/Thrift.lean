/-
Model of what the Go generator emits for IDL types (C02): the `Write` and `Read` methods of
generated structs, unions and exceptions, over the STREAM OF TProtocol CALLS (the generated code is
protocol agnostic: it only talks to `thrift.TProtocol`).

  compiler/generator/golang/generator.go   generateWrite / generateWriteFieldRec / generateRead /
                                           generateReadFieldRec, getEnumFromThriftType, isPointerField
  compiler/parser/types.go                 UnderlyingType (typedef resolution)

`encV`/`encStruct` = emitted Write code; `decV`/`decStruct` = emitted Read code; `skip` =
`thrift.SkipDefaultDepth`. All functions recurse on a depth budget `n` (fuel); running out of it is
the outcome `Res.panic .fuel`, which the theorems exclude for values within the budget.

Values (`Val`) are IDL-level: a struct value lists the fields that are SET (for the emitted Go
types: non-nil pointer / non-nil optional container; required and default fields are always set
in a well-formed value). Typedefs are resolved through `Defs` exactly where the generator calls
`UnderlyingType`.

IDL default values (`2: optional i32 b = 5`), `Field.dflt`, as the generator treats them
(isPointerField / generateIsSetField / generateConstructor):
* an OPTIONAL (or union) field of base / enum / string / binary type with a default `d` is a NON-pointer
  Go field; `IsSet<F>()` is `p.F != d`, and `writeFieldN` writes the field iff `IsSet<F>()`. So such a
  field is SET iff its value differs from `d` (`isSetVal`), a struct value lists it iff it differs from
  `d`, and the reader — which starts from the constructor `New<T>()`, where the field holds `d` — ends
  in a state that is normalised the same way (`normFields`): a field that arrived with the value `d`
  is unset.
* a required / default-requiredness field with a default is always written; when a stream omits it the
  reader leaves the constructor's default (`normFields` lists it with `d`).
* an OPTIONAL field of container type with a default is a pointer to the container, `IsSet` is non-nil
  and the constructor does NOT apply the default: on the wire it behaves as an optional field without
  default (`cmpDflt` = none for a non-scalar default).
Which of the two optional cases applies is read off the SHAPE of the default value (`Val.scalar`); for
a well-typed default (`WT` demands it) that is the class of the field's resolved type. A struct value
that does not list a NON-optional field stands for the Go field as the constructor left it: the default
(written as such), else the Go zero value (`zeroEvents`). The emitted service args/result structs are
made by zero literals, not constructors; their fields carry no defaults (C03's assumption).
Doubles are compared as Go compares float64 (`goEq` / `dblEq`: NaN differs from everything, -0.0 = 0.0).
-/
import FV.Basic

namespace FV.Thrift

inductive Ty where
  | bool | byte | i16 | i32 | i64 | double | string | binary
  | enum (n : String) | struct (n : String) | typedef (n : String)
  | list (a : Ty) | set (a : Ty) | map (k v : Ty)
  deriving Repr, DecidableEq, Inhabited

inductive Req where | required | optional | default
  deriving Repr, DecidableEq

inductive Kind where | struct | union | exception
  deriving Repr, DecidableEq

inductive Val where
  | bool (b : Bool)
  | int (n : Int)                    -- byte, i16, i32, i64, enum
  | dbl (bits : Nat)                 -- IEEE bits, never compared as a float
  | bytes (b : List UInt8)           -- string, binary
  | list (vs : List Val)             -- list, set
  | map (kvs : List (Val × Val))
  | struct (fs : List (Int × Val))   -- the fields that are set
  deriving Repr, Inhabited

mutual
/-- Boolean equality of values (the nested inductive has no derived `DecidableEq`); `Val.beq_iff` in
`FV.Proofs.Thrift`: `Val.beq v w = true ↔ v = w`. -/
def Val.beq : Val → Val → Bool
  | .bool a, w => match w with | .bool b => a == b | _ => false
  | .int a, w => match w with | .int b => a == b | _ => false
  | .dbl a, w => match w with | .dbl b => a == b | _ => false
  | .bytes a, w => match w with | .bytes b => a == b | _ => false
  | .list a, w => match w with | .list b => Val.beqList a b | _ => false
  | .map a, w => match w with | .map b => Val.beqPairs a b | _ => false
  | .struct a, w => match w with | .struct b => Val.beqFields a b | _ => false
def Val.beqList : List Val → List Val → Bool
  | [], l => match l with | [] => true | _ => false
  | x :: xs, l => match l with | y :: ys => Val.beq x y && Val.beqList xs ys | _ => false
def Val.beqPairs : List (Val × Val) → List (Val × Val) → Bool
  | [], l => match l with | [] => true | _ => false
  | (k1, v1) :: xs, l => match l with | (k2, v2) :: ys => Val.beq k1 k2 && (Val.beq v1 v2 && Val.beqPairs xs ys) | _ => false
def Val.beqFields : List (Int × Val) → List (Int × Val) → Bool
  | [], l => match l with | [] => true | _ => false
  | (i1, v1) :: xs, l => match l with | (i2, v2) :: ys => (i1 == i2) && (Val.beq v1 v2 && Val.beqFields xs ys) | _ => false
end

/-- Base-typed / enum / string / binary values (what a non-pointer Go field can be compared with). -/
def Val.scalar : Val → Bool
  | .bool _ | .int _ | .dbl _ | .bytes _ => true
  | _ => false

structure Field where
  id : Int
  req : Req
  name : String
  ty : Ty
  dflt : Option Val := none      -- IDL default value (`= 5`)
  deriving Repr

structure StructDef where
  kind : Kind
  key : String           -- how types refer to it (file-qualified)
  name : String          -- the IDL name, passed to WriteStructBegin
  fields : List Field
  deriving Repr

structure Defs where
  typedefs : List (String × Ty)
  enums : List (String × List Int)
  structs : List StructDef
  deriving Repr

/-- One TProtocol call. -/
inductive Event where
  | sb (name : String) | se
  | fb (name : String) (tt : Nat) (id : Int) | fe | fs
  | mb (kt vt n : Nat) | me
  | lb (tt n : Nat) | le
  | tb (tt n : Nat) | te
  | bool (b : Bool) | byte (n : Int) | i16 (n : Int) | i32 (n : Int) | i64 (n : Int)
  | dbl (bits : Nat) | str (binary : Bool) (b : List UInt8)
  deriving Repr, DecidableEq, Inhabited

def lookupTypedef (d : Defs) (n : String) : Option Ty := (d.typedefs.find? (·.1 = n)).map (·.2)
def lookupStruct (d : Defs) (n : String) : Option StructDef := d.structs.find? (·.key = n)

/-- `UnderlyingType`: follow typedefs (fuelled; 64 hops). A dangling name resolves to itself. -/
def resolveN (d : Defs) : Nat → Ty → Ty
  | 0, t => t
  | n + 1, .typedef nm => match lookupTypedef d nm with
    | some t => resolveN d n t
    | none => .typedef nm
  | _ + 1, t => t

def resolve (d : Defs) (t : Ty) : Ty := resolveN d 64 t

/-- `getEnumFromThriftType`: the TType written for a value of (resolved) type `t`. -/
def wireOf (d : Defs) (t : Ty) : Nat :=
  match resolve d t with
  | .bool => 2 | .byte => 3 | .double => 4 | .i16 => 6 | .i32 => 8 | .i64 => 10
  | .string => 11 | .binary => 11 | .enum _ => 8 | .struct _ => 12
  | .map _ _ => 13 | .set _ => 14 | .list _ => 15
  | .typedef _ => 0

def lookupVal (fs : List (Int × Val)) (id : Int) : Option Val := (fs.find? (·.1 = id)).map (·.2)

/-- What the emitted `writeFieldN` writes for a non-optional field whose Go value is the zero
value (`none` = the emitted code dereferences a nil struct pointer: panic). -/
def zeroEvents (d : Defs) (t : Ty) : Option (List Event) :=
  match resolve d t with
  | .bool => some [.bool false] | .byte => some [.byte 0] | .i16 => some [.i16 0] | .i32 => some [.i32 0]
  | .i64 => some [.i64 0] | .double => some [.dbl 0] | .string => some [.str false []] | .binary => some [.str true []]
  | .enum _ => some [.i32 0]
  | .list a => some [.lb (wireOf d a) 0, .le]
  | .set a => some [.tb (wireOf d a) 0, .te]
  | .map k v => some [.mb (wireOf d k) (wireOf d v) 0, .me]
  | .struct _ => none
  | .typedef _ => none

def concatRes : List (Res (List Event)) → Res (List Event)
  | [] => .ok []
  | r :: rs => match r with
    | .ok es => match concatRes rs with
      | .ok es' => .ok (es ++ es')
      | .err e => .err e
      | .panic p => .panic p
    | .err e => .err e
    | .panic p => .panic p

/-- The default that the emitted `IsSet<F>()` of field `f` compares the field with: `f` is optional (or
a union field) and has a default of base / enum / string / binary type — a NON-pointer Go field. -/
def cmpDflt (sd : StructDef) (f : Field) : Option Val :=
  if f.req = .optional ∨ sd.kind = .union then
    match f.dflt with
    | some dv => if dv.scalar then some dv else none
    | none => none
  else none

/-- Go's `==` on float64, on IEEE-754 bit patterns: a NaN (exponent all ones, fraction non-zero) equals
nothing, not even itself; +0.0 and -0.0 are equal; otherwise equality of the bits. -/
def dblIsNaN (b : Nat) : Bool := (b / 4503599627370496) % 2048 == 2047 && b % 4503599627370496 != 0
def dblIsZero (b : Nat) : Bool := b % 9223372036854775808 == 0
def dblEq (a b : Nat) : Bool := !(dblIsNaN a) && !(dblIsNaN b) && ((dblIsZero a && dblIsZero b) || a == b)

/-- The comparison the emitted `IsSet<F>()` makes between a non-pointer field and its default:
`p.F != T_F_DEFAULT` is Go's `!=` of the field's type — on doubles the float comparison `dblEq` (NaN is
never equal, so a NaN field is always set; -0.0 against a 0.0 default is NOT set), `bytes.Equal` on
binary, plain equality on the rest. -/
def goEq (v w : Val) : Bool :=
  match v, w with
  | .dbl a, .dbl b => dblEq a b
  | _, _ => Val.beq v w

/-- The emitted `IsSet<F>()` of a field holding `v` (`p.F != T_F_DEFAULT`; pointer fields and fields
without default: listed = set). -/
def isSetVal (sd : StructDef) (f : Field) (v : Val) : Bool :=
  match cmpDflt sd f with
  | some dv => !(goEq v dv)
  | none => true

/-- `IsSet<F>()` on a struct value with listed fields `fs` (what `CountSetFields…()` of a union counts). -/
def isSetIn (sd : StructDef) (fs : List (Int × Val)) (f : Field) : Bool :=
  match lookupVal fs f.id with
  | some v => isSetVal sd f v
  | none => false

/-- One emitted `writeFieldN`: what is written for field `f` of a struct value with set fields `fs`
(`enc` = the writer for nested values). -/
def fieldEvents (d : Defs) (enc : Ty → Val → Res (List Event)) (sd : StructDef) (fs : List (Int × Val))
    (f : Field) : Res (List Event) :=
  match lookupVal fs f.id with
  | some fv =>
    if isSetVal sd f fv = true then
      match enc f.ty fv with
      | .ok es => .ok ([.fb f.name (wireOf d f.ty) f.id] ++ es ++ [.fe])
      | .err e => .err e
      | .panic p => .panic p
    else .ok []                        -- `if p.IsSetF() {…}`: the field holds its default
  | none =>
    if f.req = .optional ∨ sd.kind = .union then .ok []
    else match f.dflt with
      | some dv =>                     -- the constructor's default, written unconditionally
        match enc f.ty dv with
        | .ok es => .ok ([.fb f.name (wireOf d f.ty) f.id] ++ es ++ [.fe])
        | .err e => .err e
        | .panic p => .panic p
      | none =>
        match zeroEvents d f.ty with
        | some es => .ok ([.fb f.name (wireOf d f.ty) f.id] ++ es ++ [.fe])
        | none => .panic .index        -- nil struct pointer dereferenced in the emitted Write

/-- Emitted Write code. `encV d n t v`: the calls made for value `v` of declared type `t`. -/
def encV (d : Defs) : Nat → Ty → Val → Res (List Event)
  | 0, _, _ => .panic .fuel
  | n + 1, t, v =>
    match resolve d t, v with
    | .bool, .bool b => .ok [.bool b]
    | .byte, .int k => .ok [.byte k]
    | .i16, .int k => .ok [.i16 k]
    | .i32, .int k => .ok [.i32 k]
    | .i64, .int k => .ok [.i64 k]
    | .enum _, .int k => .ok [.i32 k]
    | .double, .dbl b => .ok [.dbl b]
    | .string, .bytes b => .ok [.str false b]
    | .binary, .bytes b => .ok [.str true b]
    | .list a, .list vs =>
      match concatRes (vs.map (encV d n a)) with
      | .ok es => .ok ([.lb (wireOf d a) vs.length] ++ es ++ [.le])
      | .err e => .err e
      | .panic p => .panic p
    | .set a, .list vs =>
      match concatRes (vs.map (encV d n a)) with
      | .ok es => .ok ([.tb (wireOf d a) vs.length] ++ es ++ [.te])
      | .err e => .err e
      | .panic p => .panic p
    | .map kt vt, .map kvs =>
      match concatRes (kvs.map fun kv => concatRes [encV d n kt kv.1, encV d n vt kv.2]) with
      | .ok es => .ok ([.mb (wireOf d kt) (wireOf d vt) kvs.length] ++ es ++ [.me])
      | .err e => .err e
      | .panic p => .panic p
    | .struct nm, .struct fs =>
      match lookupStruct d nm with
      | none => .panic .typeAssert
      | some sd =>
        if sd.kind = .union ∧ (sd.fields.filter (isSetIn sd fs)).length ≠ 1 then .err .invalidData else
        match concatRes (sd.fields.map (fieldEvents d (encV d n) sd fs)) with
        | .ok es => .ok ([.sb sd.name] ++ es ++ [.fs, .se])
        | .err e => .err e
        | .panic p => .panic p
    | _, _ => .panic .typeAssert      -- ill-typed value: not expressible in the emitted Go types

/-- Skip `k` consecutive values of wire type `tt` (`sk` = the skipper for one value). -/
def skipN (sk : Nat → List Event → Res (List Event)) : Nat → Nat → List Event → Res (List Event)
  | 0, _, es => .ok es
  | k + 1, tt, es => match sk tt es with
    | .ok es' => skipN sk k tt es'
    | .err e => .err e
    | .panic p => .panic p

def skipKV (sk : Nat → List Event → Res (List Event)) (kt vt : Nat) : Nat → List Event → Res (List Event)
  | 0, es => .ok es
  | k + 1, es => match sk kt es with
    | .ok es1 => match sk vt es1 with
      | .ok es2 => skipKV sk kt vt k es2
      | .err e => .err e
      | .panic p => .panic p
    | .err e => .err e
    | .panic p => .panic p

/-- Skip the fields of a struct up to and including FieldStop, StructEnd. -/
def skipFields (sk : Nat → List Event → Res (List Event)) : Nat → List Event → Res (List Event)
  | 0, _ => .err .invalidData
  | _ + 1, .fs :: .se :: r => .ok r
  | f + 1, .fb _ ft _ :: r =>
    match sk ft r with
    | .ok (.fe :: r') => skipFields sk f r'
    | .ok _ => .err .invalidData
    | .err e => .err e
    | .panic p => .panic p
  | _ + 1, _ => .err .invalidData

/-- `thrift.SkipDefaultDepth`: consume one value of wire type `tt`. -/
def skip : Nat → Nat → List Event → Res (List Event)
  | 0, _, _ => .panic .fuel
  | n + 1, tt, es =>
    match tt, es with
    | 2, .bool _ :: r => .ok r
    | 3, .byte _ :: r => .ok r
    | 6, .i16 _ :: r => .ok r
    | 8, .i32 _ :: r => .ok r
    | 10, .i64 _ :: r => .ok r
    | 4, .dbl _ :: r => .ok r
    | 11, .str _ _ :: r => .ok r
    | 12, .sb _ :: r => skipFields (skip n) r.length r
    | 15, .lb et k :: r => match skipN (skip n) k et r with
      | .ok (.le :: r') => .ok r'
      | .ok _ => .err .invalidData
      | .err e => .err e
      | .panic p => .panic p
    | 14, .tb et k :: r => match skipN (skip n) k et r with
      | .ok (.te :: r') => .ok r'
      | .ok _ => .err .invalidData
      | .err e => .err e
      | .panic p => .panic p
    | 13, .mb kt vt k :: r =>
      match skipKV (skip n) kt vt k r with
      | .ok (.me :: r') => .ok r'
      | .ok _ => .err .invalidData
      | .err e => .err e
      | .panic p => .panic p
    | _, _ => .err .invalidData

/-- `m[k] = v` on the association list of read fields / map entries: overwrite or append. -/
def setField (fs : List (Int × Val)) (id : Int) (v : Val) : List (Int × Val) :=
  match fs with
  | [] => [(id, v)]
  | (i, w) :: t => if i = id then (id, v) :: t else (i, w) :: setField t id v

/-- The state of field `f` of an emitted Go struct after `Read` saw the fields `acc` (`none` = unset). -/
def readState (sd : StructDef) (acc : List (Int × Val)) (f : Field) : Option Val :=
  match lookupVal acc f.id with
  | some v => if isSetVal sd f v = true then some v else none
  | none => if f.req = .optional ∨ sd.kind = .union then none else f.dflt

/-- The state of an emitted Go struct after reading `acc` (what arrived, by id) into `New<T>()`: its
fields are positional, so the fields that are set are listed in declaration order, whatever order
they arrived in; a non-pointer optional field that arrived with its default value is NOT set
(`IsSet<F>()` compares with the default); a required / default-requiredness field that did not
arrive holds the constructor's default. -/
def normFields (sd : StructDef) (acc : List (Int × Val)) : List (Int × Val) :=
  sd.fields.filterMap fun f => (readState sd acc f).map fun v => (f.id, v)

/-- The emitted getter `Get<F>()` on a struct value: the field's value when set, else the declared
default (for a non-pointer field that IS the field's content). -/
def getField (fs : List (Int × Val)) (f : Field) : Option Val :=
  match lookupVal fs f.id with
  | some v => some v
  | none => f.dflt

/-- Read `k` consecutive values with reader `dec` (the emitted `for i := 0; i < size; i++` loop). -/
def decN (dec : List Event → Res (Val × List Event)) : Nat → List Event → List Val → Res (List Val × List Event)
  | 0, es, acc => .ok (acc.reverse, es)
  | k + 1, es, acc => match dec es with
    | .ok (v, es') => decN dec k es' (v :: acc)
    | .err e => .err e
    | .panic p => .panic p

def decKV (deck decv : List Event → Res (Val × List Event)) :
    Nat → List Event → List (Val × Val) → Res (List (Val × Val) × List Event)
  | 0, es, acc => .ok (acc.reverse, es)
  | k + 1, es, acc => match deck es with
    | .ok (kv, es1) => match decv es1 with
      | .ok (vv, es2) => decKV deck decv k es2 ((kv, vv) :: acc)
      | .err e => .err e
      | .panic p => .panic p
    | .err e => .err e
    | .panic p => .panic p

/-- The emitted field loop of `Read`: `ReadFieldBegin`, STOP ends it, a declared id is read with
its declared type (`dec`), any other id is skipped (`skp`), `ReadFieldEnd`. -/
def decFields (dec : Ty → List Event → Res (Val × List Event)) (skp : Nat → List Event → Res (List Event))
    (sd : StructDef) : Nat → List Event → List (Int × Val) → Res (List (Int × Val) × List Event)
  | 0, _, _ => .err .invalidData
  | _ + 1, .fs :: r, acc => .ok (acc, r)
  | f + 1, .fb _ ft id :: r, acc =>
    match sd.fields.find? (·.id = id) with
    | some fd =>
      match dec fd.ty r with
      | .ok (v, .fe :: r') => decFields dec skp sd f r' (setField acc id v)
      | .ok _ => .err .invalidData
      | .err e => .err e
      | .panic p => .panic p
    | none =>
      match skp ft r with
      | .ok (.fe :: r') => decFields dec skp sd f r' acc
      | .ok _ => .err .invalidData
      | .err e => .err e
      | .panic p => .panic p
  | _ + 1, _, _ => .err .invalidData

/-- Emitted Read code. `decV d n t es`: read one value of declared type `t`. -/
def decV (d : Defs) : Nat → Ty → List Event → Res (Val × List Event)
  | 0, _, _ => .panic .fuel
  | n + 1, t, es =>
    match resolve d t, es with
    | .bool, .bool b :: r => .ok (.bool b, r)
    | .byte, .byte k :: r => .ok (.int k, r)
    | .i16, .i16 k :: r => .ok (.int k, r)
    | .i32, .i32 k :: r => .ok (.int k, r)
    | .i64, .i64 k :: r => .ok (.int k, r)
    | .enum _, .i32 k :: r => .ok (.int k, r)
    | .double, .dbl b :: r => .ok (.dbl b, r)
    | .string, .str _ b :: r => .ok (.bytes b, r)
    | .binary, .str _ b :: r => .ok (.bytes b, r)
    | .list a, .lb _ k :: r => match decN (decV d n a) k r [] with
      | .ok (vs, .le :: r') => .ok (.list vs, r')
      | .ok _ => .err .invalidData
      | .err e => .err e
      | .panic p => .panic p
    | .set a, .tb _ k :: r => match decN (decV d n a) k r [] with
      | .ok (vs, .te :: r') => .ok (.list vs, r')
      | .ok _ => .err .invalidData
      | .err e => .err e
      | .panic p => .panic p
    | .map kt vt, .mb _ _ k :: r => match decKV (decV d n kt) (decV d n vt) k r [] with
      | .ok (kvs, .me :: r') => .ok (.map kvs, r')
      | .ok _ => .err .invalidData
      | .err e => .err e
      | .panic p => .panic p
    | .struct nm, .sb _ :: r =>
      match lookupStruct d nm with
      | none => .panic .typeAssert
      | some sd =>
        match decFields (decV d n) (skip (n + 1)) sd r.length r [] with
        | .ok (fs, .se :: r') =>
          -- required fields must have been seen (`issetF` flags); a union must have exactly one field
          -- set (`CountSetFields…()`: `IsSet<F>()` on the final state = arrived and differs from the default)
          if sd.fields.any (fun f => f.req = .required ∧ sd.kind ≠ .union ∧ (lookupVal fs f.id).isNone) then .err .invalidData
          else if sd.kind = .union ∧ (sd.fields.filter (isSetIn sd fs)).length ≠ 1 then .err .invalidData
          else .ok (.struct (normFields sd fs), r')
        | .ok _ => .err .invalidData
        | .err e => .err e
        | .panic p => .panic p
    | _, _ => .err .invalidData

end FV.Thrift
