/-
C11 — constant-value generation of the Go generator (`generateConstantValue`,
`ContextFromIdentifier`, `KeyToString`, `FindStruct`, `IsEnum`) with its partial operations
kept as outcomes: a type assertion `value.(T)` on a value of another dynamic type is
`panic typeAssert`, a `panic("…")` call is `panic explicit`.

A constant value is what the parser builds: string, bool, int64, float64, `Identifier`,
`[]interface{}` (ConstList), `[]KeyValue` (ConstMap). The recursion of the code is structural on
the value; here it is fuelled (`fuel` ≥ nesting depth + 1 suffices — `genConst_ok_of_fits`).
Core Lean only (linked into the driver).
-/
import FV.Model.Compile

namespace FV.Compile

inductive Val where
  | str (s : Name)
  | bool (b : Bool)
  | int (i : Int)
  | dbl
  | ident (id : Name)
  | list (vs : List Val)
  | map (kvs : List (Val × Val))
  deriving Repr, Inhabited

/-- `ContextFromIdentifier(identifier)` followed by the (total) switch on its result. -/
def identContext (ctx : Ctx) (id : Name) : CRes Unit :=
  match splitOn '.' id with
  | [_] => if ctx.self.consts.any (·.name = id) then .ok () else .panic .explicit
  | [a, b] =>
    if hasEnumValue ctx.self.enums a b then .ok ()
    else
      match ctx.incs.lookup a with
      | none => .panic .explicit
      | some f => if f.consts.any (·.name = b) then .ok () else .panic .explicit
  | [a, b, c] =>
    match ctx.incs.lookup a with
    | none => .panic .explicit
    | some f =>
      match f.enums.find? (·.name = b) with
      | some en => if en.values.contains c then .ok () else .panic .explicit
      | none => .panic .explicit
  | _ => .panic .explicit

/-- `KeyValue.KeyToString`. -/
def keyToString : Val → CRes Name
  | .str s => .ok s
  | .ident id => .ok id
  | _ => .panic .explicit

/-- `Frugal.IsEnum(t)` for a custom type name (an unknown include falls back to this file). -/
def isEnumName (ctx : Ctx) (n : Name) : Bool :=
  let f := if includeName n ≠ [] then
      (match ctx.incs.lookup (includeName n) with
       | some g => g
       | none => ctx.self)
    else ctx.self
  f.enums.any (·.name = paramName n)

/-- `Frugal.FindStruct(t)`: structs only (not unions, not exceptions). -/
def findStruct (ctx : Ctx) (n : Name) : Option StructLike :=
  let f? := if includeName n ≠ [] then ctx.incs.lookup (includeName n) else some ctx.self
  match f? with
  | none => none
  | some f => (f.structs.filter (·.kind = .struct)).find? (·.name = paramName n)

/-- `generateConstantValue(t, value)`; the generated text is not modelled, only whether the
function returns. -/
def genConst (ctx : Ctx) : Nat → Ty → Val → CRes Unit
  | 0, _, _ => .panic .stackOverflow
  | fuel + 1, t, v =>
    match v with
    | .ident id => identContext ctx id
    | _ =>
      match underlying ctx (typedefLimit ctx + 2) t with
      | .err e => .err e
      | .panic p => .panic p
      | .ok (.list e) =>
        (match v with
         | .list vs => firstErr (genConst ctx fuel e) vs
         | _ => .panic .typeAssert)
      | .ok (.set e) =>
        (match v with
         | .list vs => firstErr (genConst ctx fuel e) vs
         | _ => .panic .typeAssert)
      | .ok (.map k w) =>
        (match v with
         | .map kvs => firstErr (fun kv => do genConst ctx fuel k kv.1; genConst ctx fuel w kv.2) kvs
         | _ => .panic .typeAssert)
      | .ok (.named n) =>
        if baseTypes.contains n then
          if n = "string".toList then
            (match v with
             | .str _ => .ok ()
             | _ => .panic .typeAssert)
          else .ok ()
        else if containerNames.contains n then .panic .explicit   -- never passes `validate`
        else if isEnumName ctx n then .ok ()
        else
          match findStruct ctx n with
          | none => .panic .explicit
          | some s =>
            (match v with
             | .map kvs =>
               firstErr (fun kv => do
                 let key ← keyToString kv.1
                 let nm ← title key
                 firstErr (fun fl => do
                   let fn ← title fl.name
                   if fn = nm then genConst ctx fuel fl.ty kv.2 else pure ()) s.fields) kvs
             | _ => .panic .typeAssert)

end FV.Compile
