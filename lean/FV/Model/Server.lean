/-
The simple server around the processor (C14): what lies between the socket and `Process`.

  FV.Chunked.deframe / feed / feedAll
      TFramedTransport's reading side as a function of the byte stream: `deframe` cuts all
      complete frames `[4-byte big-endian size][size bytes]` off the front; `feedAll` is the
      same reader fed the stream in CHUNKS (what successive reads of the socket / refills of
      the bufio.Reader deliver), keeping the bytes of an incomplete frame between chunks
      (`readFrameHeader` uses io.ReadFull: a size prefix split across chunks is reassembled).
      A size above the maximum poisons the stream (`bad`). `enframe` is the writing side (Flush).
  FV.Proc.ConnSt / connStep / srvStep / srvRun
      FSimpleServer.acceptLoop: one goroutine per accepted connection, each running the
      per-connection loop (`processConn`, one request per step); a schedule is the list of
      connection indices in the order in which their goroutines take a step.
  FV.Proc.ephRequest / ephProtocol / ephStep / ephRun
      the ephemeral-properties map handlers reach through their FContext: per protocol, i.e. shared by
      the requests of one connection, separate between connections / HTTP requests / NATS messages.
Core Lean only.
-/
import FV.Basic
import FV.Model.Processor

namespace FV.Chunked
open FV

/-- What is left after the complete frames: bytes of an incomplete frame, or a poisoned stream. -/
inductive Tail where
  | pending (b : Bytes)
  | bad
  deriving DecidableEq, Repr

/-- All complete frames `[be32 size][size bytes]` at the front of `a`. -/
def deframe (maxLen : Nat) (a : Bytes) : List Bytes × Tail :=
  if h : a.length < 4 then ([], .pending a) else
  let size := rd32 a
  if size > maxLen then ([], .bad) else
  if h2 : a.length < 4 + size then ([], .pending a) else
  let r := deframe maxLen (a.drop (4 + size))
  (((a.drop 4).take size) :: r.1, r.2)
termination_by a.length
decreasing_by simp only [List.length_drop]; omega

/-- The reader, fed one chunk: the unconsumed bytes so far plus the chunk are deframed. -/
def feed (maxLen : Nat) (t : Tail) (chunk : Bytes) : List Bytes × Tail :=
  match t with
  | .bad => ([], .bad)
  | .pending p => deframe maxLen (p ++ chunk)

def feedAll (maxLen : Nat) (t : Tail) : List Bytes → List Bytes × Tail
  | [] => ([], t)
  | c :: cs =>
    let r := feed maxLen t c
    let r' := feedAll maxLen r.2 cs
    (r.1 ++ r'.1, r'.2)

/-- Frames written by `Flush` (size prefix + body) come back, whatever follows being kept. -/
def enframe (fs : List Bytes) : Bytes := (fs.map fun f => be32 f.length ++ f).flatten

end FV.Chunked

namespace FV.Proc

structure ConnSt where
  todo : List (Request × HOutcome)
  out : List (List ReplyMsg × Res Unit)
  alive : Bool

def ConnSt.init (rs : List (Request × HOutcome)) : ConnSt := ⟨rs, [], true⟩

def connStep (pm : ProcMap) (c : ConnSt) : ConnSt :=
  match c.todo with
  | [] => c
  | r :: t =>
    if !c.alive then c else
    let o := process pm r.1 r.2
    ⟨t, c.out ++ [o], o.2.isOk && positionKept pm r.1⟩

def srvStep (pm : ProcMap) (s : List ConnSt) (i : Nat) : List ConnSt := s.modify i (connStep pm)

def srvRun (pm : ProcMap) (s : List ConnSt) (sched : List Nat) : List ConnSt := sched.foldl (srvStep pm) s

def iter (f : α → α) : Nat → α → α
  | 0, a => a
  | n + 1, a => iter f n (f a)

/-! ### Request-scoped state a handler reaches through its FContext

`ReadRequestHeader` builds a fresh FContext per request (own request and response header maps)
and makes the ephemeral-properties map OF THE INPUT FProtocol the context's ephemeral
properties. `FProtocolFactory.GetProtocol` gives every protocol its own empty map. Hence:
one map per HTTP request and per NATS message (one protocol each), one map per simple-server
connection — shared by the requests read one after the other from that connection — and
nothing shared between connections. A handler script here: look the key up, set it to the
request's own value, look it up again, count the properties. -/

structure EphScript where
  key : Bytes
  val : Bytes
  deriving DecidableEq, Repr

structure EphObs where
  entry : Option Bytes
  back : Option Bytes
  count : Nat
  deriving DecidableEq, Repr

def ephRequest (st : Hdrs) (s : EphScript) : EphObs × Hdrs :=
  let st' := st.set s.key s.val
  (⟨st.get? s.key, st'.get? s.key, st'.length⟩, st')

def ephProtocol (st : Hdrs) : List EphScript → List EphObs × Hdrs
  | [] => ([], st)
  | s :: t =>
    let r := ephRequest st s
    let r' := ephProtocol r.2 t
    (r.1 :: r'.1, r'.2)

structure EphConn where
  todo : List EphScript
  seen : List EphObs
  store : Hdrs

def EphConn.init (c : List EphScript) : EphConn := ⟨c, [], []⟩

def ephStep (c : EphConn) : EphConn :=
  match c.todo with
  | [] => c
  | s :: t => ⟨t, c.seen ++ [(ephRequest c.store s).1], (ephRequest c.store s).2⟩

def ephRun (s : List EphConn) (sched : List Nat) : List EphConn := sched.foldl (fun s i => s.modify i ephStep) s

end FV.Proc
