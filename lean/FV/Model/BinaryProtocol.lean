/-
Byte-level model of Apache Thrift's BINARY protocol as the emitted Go code uses it (C02):

  github.com/apache/thrift@v0.19.0/lib/go/thrift/binary_protocol.go   Write* / Read* methods
  .../configuration.go                                                checkSizeForProtocol

configuration = `thrift.NewTBinaryProtocolFactoryConf(nil)` (strict write / non-strict read only
matter for message envelopes, which are not part of a struct's encoding; MaxMessageSize = default).

The emitted Write/Read code talks to a `thrift.TProtocol`; `FV.Thrift.Event` is one WRITE call,
`Call` (below) is one READ call. `binWrite e` = the bytes the binary protocol puts on the transport
for the write call `e`; `binRead c bs` = what the read call `c` returns on input `bs` (as the event
a recording protocol would have logged for it) and the unread input. The binary protocol is
stateless. Integers are Go's fixed-width types: a write call's parameter is converted with
`toU8/16/32/64` (two's complement), a read result with `toS8/16/32/64`.
-/
import FV.Model.Thrift

namespace FV.Thrift

/-! ### fixed-width integers -/

/-- Go `uint8(x)` of a signed value (two's complement), likewise 16/64 (32: `FV.toU32`). -/
def toU8 (z : Int) : Nat := (z % 256).toNat
def toU16 (z : Int) : Nat := (z % 65536).toNat
def toU64 (z : Int) : Nat := (z % 18446744073709551616).toNat

/-- Go `int8(x)` of an unsigned value, likewise 16/64 (32: `FV.toI32`). -/
def toS8 (n : Nat) : Int := if n % 256 < 128 then (n % 256 : Nat) else (n % 256 : Nat) - 256
def toS16 (n : Nat) : Int := if n % 65536 < 32768 then (n % 65536 : Nat) else (n % 65536 : Nat) - 65536
def toS64 (n : Nat) : Int :=
  if n % 18446744073709551616 < 9223372036854775808 then (n % 18446744073709551616 : Nat)
  else (n % 18446744073709551616 : Nat) - 18446744073709551616

/-- `k` bytes, least significant first, of `n mod 256^k`. -/
def leBytes : Nat → Nat → Bytes
  | 0, _ => []
  | k + 1, n => UInt8.ofNat (n % 256) :: leBytes k (n / 256)

/-- The number a little-endian byte string denotes. -/
def leNat : Bytes → Nat
  | [] => 0
  | b :: r => b.toNat + 256 * leNat r

/-- `binary.BigEndian.PutUint16/32/64` (`k` = 2, 4, 8). -/
def beBytes (k n : Nat) : Bytes := (leBytes k n).reverse

/-- `binary.BigEndian.Uint16/32/64`. -/
def beNat (b : Bytes) : Nat := leNat b.reverse

/-- `io.ReadFull` of `k` bytes from the transport: all of them, or an error. -/
def readN (k : Nat) (bs : Bytes) : Res (Bytes × Bytes) :=
  if bs.length < k then .err .eof else .ok (bs.take k, bs.drop k)

/-- `DEFAULT_MAX_MESSAGE_SIZE` (100 MiB). -/
def maxMessageSize : Nat := 104857600

/-- `checkSizeForProtocol(size32, cfg)`: negative → NEGATIVE_SIZE, above the limit → SIZE_LIMIT. -/
def checkSize (size : Int) : Res Nat :=
  if size < 0 then .err .other
  else if size > (maxMessageSize : Nat) then .err .tooLarge
  else .ok size.toNat

/-! ### read calls -/

/-- One TProtocol READ call of the emitted code. -/
inductive Call where
  | structBegin | structEnd | fieldBegin | fieldEnd
  | mapBegin | mapEnd | listBegin | listEnd | setBegin | setEnd
  | bool | byte | i16 | i32 | i64 | double | string | binary
  deriving Repr, DecidableEq, Inhabited

/-- The read call that consumes what the write call `e` produced (`ReadFieldBegin` is the one call
that answers both a field header and the stop marker). This is exactly the kind check of the
harness's replaying protocol (`runner/events.go`, `replayer.next`). -/
def callOf : Event → Call
  | .sb _ => .structBegin | .se => .structEnd
  | .fb _ _ _ => .fieldBegin | .fs => .fieldBegin | .fe => .fieldEnd
  | .mb _ _ _ => .mapBegin | .me => .mapEnd
  | .lb _ _ => .listBegin | .le => .listEnd
  | .tb _ _ => .setBegin | .te => .setEnd
  | .bool _ => .bool | .byte _ => .byte | .i16 _ => .i16 | .i32 _ => .i32 | .i64 _ => .i64
  | .dbl _ => .double
  | .str false _ => .string | .str true _ => .binary

/-! ### the binary protocol -/

/-- Bytes written by one Write* call. -/
def binWrite : Event → Bytes
  | .sb _ => [] | .se => [] | .fe => [] | .me => [] | .le => [] | .te => []
  | .fb _ tt id => UInt8.ofNat tt :: beBytes 2 (toU16 id)            -- WriteByte(int8(typeId)); WriteI16(id)
  | .fs => [0]
  | .mb kt vt n => UInt8.ofNat kt :: UInt8.ofNat vt :: beBytes 4 n   -- …; WriteI32(int32(size))
  | .lb tt n => UInt8.ofNat tt :: beBytes 4 n
  | .tb tt n => UInt8.ofNat tt :: beBytes 4 n
  | .bool b => [if b then 1 else 0]
  | .byte n => [UInt8.ofNat (toU8 n)]
  | .i16 n => beBytes 2 (toU16 n)
  | .i32 n => beBytes 4 (toU32 n)
  | .i64 n => beBytes 8 (toU64 n)
  | .dbl bits => beBytes 8 bits                                      -- WriteI64(int64(Float64bits(v)))
  | .str _ b => beBytes 4 b.length ++ b                              -- WriteI32(int32(len)); Write(bytes)

/-- What the emitted `Write` puts on the transport: the bytes of its calls, in order. -/
def binEnc (es : List Event) : Bytes := (es.map binWrite).flatten

def binReadU8 : Bytes → Res (Nat × Bytes)
  | [] => .err .eof
  | b :: r => .ok (b.toNat, r)

/-- `ReadI16/32/64` (`k` = 2, 4, 8 bytes): the unsigned big-endian number. -/
def binReadBE (k : Nat) (bs : Bytes) : Res (Nat × Bytes) :=
  match readN k bs with
  | .ok (b, r) => .ok (beNat b, r)
  | .err e => .err e
  | .panic p => .panic p

/-- `ReadI32` followed by `checkSizeForProtocol`. -/
def binReadSize (bs : Bytes) : Res (Nat × Bytes) :=
  match binReadBE 4 bs with
  | .ok (u, r) => (match checkSize (toI32 u) with
    | .ok n => .ok (n, r)
    | .err e => .err e
    | .panic p => .panic p)
  | .err e => .err e
  | .panic p => .panic p

def binReadElemHdr (mk : Nat → Nat → Event) (bs : Bytes) : Res (Event × Bytes) :=
  match binReadU8 bs with
  | .ok (tt, r) => (match binReadSize r with
    | .ok (n, r') => .ok (mk tt n, r')
    | .err e => .err e
    | .panic p => .panic p)
  | .err e => .err e
  | .panic p => .panic p

def binReadStr (flag : Bool) (bs : Bytes) : Res (Event × Bytes) :=
  match binReadSize bs with
  | .ok (n, r) => (match readN n r with
    | .ok (b, r') => .ok (.str flag b, r')
    | .err e => .err e
    | .panic p => .panic p)
  | .err e => .err e
  | .panic p => .panic p

/-- One Read* call: its result (as the event a recorder would log; the binary protocol returns
empty struct and field names) and the unread input. -/
def binRead : Call → Bytes → Res (Event × Bytes)
  | .structBegin, bs => .ok (.sb "", bs)
  | .structEnd, bs => .ok (.se, bs)
  | .fieldEnd, bs => .ok (.fe, bs)
  | .mapEnd, bs => .ok (.me, bs)
  | .listEnd, bs => .ok (.le, bs)
  | .setEnd, bs => .ok (.te, bs)
  | .fieldBegin, bs =>
    match binReadU8 bs with
    | .ok (t, r) =>
      if t = 0 then .ok (.fs, r)
      else (match binReadBE 2 r with
        | .ok (u, r') => .ok (.fb "" t (toS16 u), r')
        | .err e => .err e
        | .panic p => .panic p)
    | .err e => .err e
    | .panic p => .panic p
  | .mapBegin, bs =>
    match binReadU8 bs with
    | .ok (kt, r) => binReadElemHdr (fun vt n => .mb kt vt n) r
    | .err e => .err e
    | .panic p => .panic p
  | .listBegin, bs => binReadElemHdr (fun tt n => .lb tt n) bs
  | .setBegin, bs => binReadElemHdr (fun tt n => .tb tt n) bs
  | .bool, bs =>
    match binReadU8 bs with
    | .ok (b, r) => .ok (.bool (b = 1), r)
    | .err e => .err e
    | .panic p => .panic p
  | .byte, bs =>
    match binReadU8 bs with
    | .ok (b, r) => .ok (.byte (toS8 b), r)
    | .err e => .err e
    | .panic p => .panic p
  | .i16, bs =>
    match binReadBE 2 bs with
    | .ok (u, r) => .ok (.i16 (toS16 u), r)
    | .err e => .err e
    | .panic p => .panic p
  | .i32, bs =>
    match binReadBE 4 bs with
    | .ok (u, r) => .ok (.i32 (toI32 u), r)
    | .err e => .err e
    | .panic p => .panic p
  | .i64, bs =>
    match binReadBE 8 bs with
    | .ok (u, r) => .ok (.i64 (toS64 u), r)
    | .err e => .err e
    | .panic p => .panic p
  | .double, bs =>
    match binReadBE 8 bs with
    | .ok (u, r) => .ok (.dbl u, r)
    | .err e => .err e
    | .panic p => .panic p
  | .string, bs => binReadStr false bs
  | .binary, bs => binReadStr true bs

/-- A sequence of read calls. -/
def binReads : List Call → Bytes → Res (List Event × Bytes)
  | [], bs => .ok ([], bs)
  | c :: cs, bs =>
    match binRead c bs with
    | .ok (e, r) => (match binReads cs r with
      | .ok (es, r') => .ok (e :: es, r')
      | .err e => .err e
      | .panic p => .panic p)
    | .err e => .err e
    | .panic p => .panic p

/-- What the binary protocol does not carry: struct and field names. -/
def binErase : Event → Event
  | .sb _ => .sb ""
  | .fb _ tt id => .fb "" tt id
  | e => e

/-- The write call is one a Go caller can make and the protocol can carry back: integer
parameters within their Go types, type codes are bytes (0 is the stop marker), sizes and lengths
within `MaxMessageSize`, IEEE bits within 64 bits. -/
def BinFits : Event → Prop
  | .fb _ tt id => 0 < tt ∧ tt < 256 ∧ -32768 ≤ id ∧ id < 32768
  | .mb kt vt n => kt < 256 ∧ vt < 256 ∧ n ≤ maxMessageSize
  | .lb tt n => tt < 256 ∧ n ≤ maxMessageSize
  | .tb tt n => tt < 256 ∧ n ≤ maxMessageSize
  | .byte n => -128 ≤ n ∧ n < 128
  | .i16 n => -32768 ≤ n ∧ n < 32768
  | .i32 n => -2147483648 ≤ n ∧ n < 2147483648
  | .i64 n => -9223372036854775808 ≤ n ∧ n < 9223372036854775808
  | .dbl bits => bits < 18446744073709551616
  | .str _ b => b.length ≤ maxMessageSize
  | _ => True

instance : DecidablePred BinFits := fun e => by
  cases e <;> simp only [BinFits] <;> exact inferInstance

end FV.Thrift
