/-
Receiving entry points of lib/go that take bytes off a CONNECTION or hand a reply to generic client
code (C05, second part):

  FT / FT.header / FT.readFull   lib/go/framed_transport.go, read side: `TFramedTransport.Read`,
                                 `readFrameHeader`, as seen through `io.ReadFull(framed, buf)`
  readFrame / adapterLoop        lib/go/adapter_transport.go `readFrame`, `readLoop`
  readHeaderF                    lib/go/protocol.go `readHeader` → `unmarshalHeaders` reading from a
                                 TFramedTransport (not a TMemoryBuffer: frame boundaries matter)
  drainProcess / acceptLoop      lib/go/simple_server.go `accept` with a processor that reads the request
                                 header and then takes the rest of the frame
  Stomp                          lib/go/stomp_transport.go `processMessages`
  Sys / recvOn                   several connections of one process: what one connection's bytes can touch

The peer's bytes are `s : Bytes` followed by the end of the stream (the connection's reads then fail with a
TTransportException of type END_OF_FILE, as thrift.TSocket reports it). How the bytes are cut into
reads does not matter to `io.ReadFull`; the harness varies the chunking, the model has none.

Go's partial operations stay explicit: `make([]byte, n)` is `makeBytes n` (`Res.panic` for n < 0), the
header pairs are read by `FV.readPairs` with Go's slice semantics. Loops are written with a fuel argument
and `Res.panic .fuel` when it runs out, so "never blocks forever" is part of "never panics" below: the
theorems show the fuel `len s + 1` is never exhausted.
-/
import FV.Basic
import FV.Model.Headers
import FV.Model.Registry0
import FV.Model.Receivers

namespace FV.Recv2
open FV

/-- `defaultMaxLength` of framed_transport.go. -/
def maxFrame : Nat := 16384000

/-- `make([]byte, n)`: run-time panic for a negative length. -/
def makeBytes (n : Int) : Res Nat := if n < 0 then .panic .makeNegative else .ok n.toNat

/-- Read side of a `TFramedTransport` over a connection. -/
structure FT where
  s : Bytes     -- bytes of the peer not read yet (then END_OF_FILE)
  rem : Nat     -- `frameSize`: what is left of the current frame (uint32)
  deriving Repr, DecidableEq

/-- Outcome of `readFrameHeader`. -/
inductive Hdr where
  | eof                -- fewer than 4 bytes before the stream ends: END_OF_FILE
  | bad (t : FT)       -- size above maxLength: TRANSPORT_EXCEPTION_UNKNOWN, frameSize stays 0
  | size (t : FT)      -- frameSize = the prefix (0 ≤ size ≤ maxLength; the `size < 0` test is on a uint32)
  deriving Repr, DecidableEq

def FT.header (t : FT) : Hdr :=
  if t.s.length < 4 then .eof
  else if rd32 t.s > maxFrame then .bad ⟨t.s.drop 4, 0⟩
  else .size ⟨t.s.drop 4, rd32 t.s⟩

/-- First statement of `Read`: `if p.frameSize == 0 { p.frameSize, err = p.readFrameHeader() … }`. -/
def FT.ensure (t : FT) : Hdr := if t.rem = 0 then t.header else .size t

/-- `io.ReadFull(framed, buf)` with `len(buf) = n`: the `n` bytes and the transport afterwards, or the
error (`eof` = typed END_OF_FILE, `transport` = any other transport exception).

* `n = 0`: `io.ReadFull` returns at once without calling `Read`.
* `frameSize < len(buf)`: `tmp := make([]byte, p.frameSize); l, err = p.Read(tmp)`; when that read
  succeeds the result is "not enough frame". With `frameSize = 0` (an empty frame) the inner `Read`
  reads the NEXT frame header; if that header is refused, its error is overwritten by the
  `got, err := p.reader.Read(buf)` that follows and `frameSize - got` wraps around (uint32).
* otherwise the bytes come from the buffered reader; END_OF_FILE if the stream ends first. -/
def FT.readFull (t : FT) (n : Nat) : Res (Bytes × FT) :=
  if n = 0 then .ok ([], t) else
  match t.ensure with
  | .eof => .err .eof
  | .bad _ => .err .transport
  | .size t1 =>
    if t1.rem < n then
      match makeBytes t1.rem with
      | .panic p => .panic p
      | .err e => .err e
      | .ok _ =>
        if t1.rem = 0 then
          match t1.header with
          | .eof => .err .eof
          | .size _ => .err .transport
          | .bad t2 =>
            if t2.s.length < n then .err .eof
            else .ok (t2.s.take n, ⟨t2.s.drop n, 4294967296 - n⟩)
        else if t1.s.length = 0 then .err .eof
        else .err .transport
    else if t1.s.length < n then .err .eof
    else .ok (t1.s.take n, ⟨t1.s.drop n, t1.rem - n⟩)

/-! ### (a) adapter transport: `readFrame`, `readLoop` -/

/-- `fAdapterTransport.readFrame`: `framedTransport.Read([]byte{})` (reads a frame header when none is
pending), `buff := make([]byte, framedTransport.RemainingBytes())`, `io.ReadFull(framedTransport, buff)`. -/
def readFrame (t : FT) : Res (Bytes × FT) :=
  match t.ensure with
  | .eof => .err .eof
  | .bad _ => .err .transport
  | .size t1 =>
    match makeBytes t1.rem with
    | .panic p => .panic p
    | .err e => .err e
    | .ok n => t1.readFull n

/-- How a read loop ended: the value published on `Closed()` (`none` = nil: the peer hung up) and the
number of frames handed to the registry before. -/
structure LoopEnd where
  cause : Option Err
  delivered : Nat
  deriving Repr, DecidableEq

/-- `fAdapterTransport.readLoop` over the peer's stream (no local `Close()` in between):
read error END_OF_FILE → `f.Close()` (cause nil); other read error → `f.close(err)`;
`registry.Execute` error → `f.close(err)`. -/
def adapterLoop : Nat → FT → Nat → Res LoopEnd
  | 0, _, _ => .panic .fuel
  | fuel + 1, t, d =>
    match readFrame t with
    | .panic p => .panic p
    | .err .eof => .ok ⟨none, d⟩
    | .err e => .ok ⟨some e, d⟩
    | .ok (frame, t') =>
      match registryExecuteEmpty frame with
      | .ok _ => adapterLoop fuel t' (d + 1)
      | .err e => .ok ⟨some e, d⟩
      | .panic p => .panic p

def adapterRecv (s : Bytes) : Res LoopEnd := adapterLoop (s.length + 1) ⟨s, 0⟩ 0

/-! ### (b) FSimpleServer.accept -/

/-- `readHeader(framed)`: version byte, 4-byte size, `make([]byte, size)`, the pairs. A read error that is
not END_OF_FILE is re-typed TRANSPORT_EXCEPTION_UNKNOWN. -/
def readHeaderF (t : FT) : Res (Hdrs × FT) :=
  match t.readFull 1 with
  | .panic p => .panic p
  | .err .eof => .err .eof
  | .err _ => .err .transport
  | .ok (vb, t1) =>
    if vb ≠ [0] then .err .badVersion else
    match t1.readFull 4 with
    | .panic p => .panic p
    | .err .eof => .err .eof
    | .err _ => .err .transport
    | .ok (sb, t2) =>
      let size := toI32 (rd32 sb)
      if size < 0 then .err .invalidData else
      match makeBytes size with
      | .panic p => .panic p
      | .err e => .err e
      | .ok n =>
        match t2.readFull n with
        | .panic p => .panic p
        | .err .eof => .err .eof
        | .err _ => .err .transport
        | .ok (body, t3) =>
          match readPairs body 0 size [] with
          | .ok h => .ok (h, t3)
          | .err e => .err e
          | .panic p => .panic p

/-- `Process` of a processor that reads the request header (`ReadRequestHeader`: the op id must be present)
and then takes the rest of the frame off the transport (`io.CopyN(io.Discard, framed, RemainingBytes())`:
reads of at most what is left of the frame). -/
def drainProcess (t : FT) : Res FT :=
  match readHeaderF t with
  | .panic p => .panic p
  | .err e => .err e
  | .ok (h, t1) =>
    if (h.get? opIdHeader).isSome then
      if t1.s.length < t1.rem then .err .eof else .ok ⟨t1.s.drop t1.rem, 0⟩
    else .err .invalidData

/-- How `accept` ended: its return value (`none` = nil, the peer hung up) and the requests handled before. -/
structure AcceptEnd where
  ret : Option Err
  handled : Nat
  deriving Repr, DecidableEq

/-- `FSimpleServer.accept`: `Process` until it returns an error; END_OF_FILE → `return nil`, any other
error → logged and returned (to `acceptLoop`, which logs it as the reason the client was dropped). -/
def acceptLoop : Nat → FT → Nat → Res AcceptEnd
  | 0, _, _ => .panic .fuel
  | fuel + 1, t, handled =>
    match drainProcess t with
    | .panic p => .panic p
    | .ok t' => acceptLoop fuel t' (handled + 1)
    | .err .eof => .ok ⟨none, handled⟩
    | .err e => .ok ⟨some e, handled⟩

def accept (s : Bytes) : Res AcceptEnd := acceptLoop (s.length + 1) ⟨s, 0⟩ 0

/-! ### Several connections of one process -/

/-- One connection as its owner sees it: still open, and the causes published for it so far. -/
structure Conn where
  isOpen : Bool
  causes : List (Option Err)
  deriving Repr, DecidableEq

def Conn.fresh : Conn := ⟨true, []⟩

/-- A process with several connections; `crashed` = a receiver panicked (which takes all of them down). -/
structure Sys where
  crashed : Bool
  conns : List Conn
  deriving Repr, DecidableEq

/-- The peer of connection `i` sends `s` and hangs up; `recv` is the connection's receiver
(`fun s => (adapterRecv s).map cause`, …). -/
def recvOn (recv : Bytes → Res (Option Err)) (i : Nat) (s : Bytes) (y : Sys) : Sys :=
  if y.crashed then y else
  match y.conns[i]? with
  | none => y
  | some c =>
    if !c.isOpen then y else
    match recv s with
    | .ok cause => { y with conns := y.conns.set i ⟨false, c.causes ++ [cause]⟩ }
    | .err e => { y with conns := y.conns.set i ⟨false, c.causes ++ [some e]⟩ }
    | .panic _ => { y with crashed := true }

def adapterCause (s : Bytes) : Res (Option Err) :=
  match adapterRecv s with
  | .ok e => .ok e.cause
  | .err e => .err e
  | .panic p => .panic p

def acceptCause (s : Bytes) : Res (Option Err) :=
  match accept s with
  | .ok e => .ok e.ret
  | .err e => .err e
  | .panic p => .panic p

/-! ### (c) STOMP subscriber: `processMessages` -/

/-- The message loop of one STOMP subscription. -/
structure Stomp where
  alive : Bool
  delivered : Nat    -- callbacks run
  acked : Nat        -- messages acknowledged (callback returned nil)
  deriving Repr, DecidableEq

def Stomp.init : Stomp := ⟨true, 0, 0⟩

/-- One MESSAGE frame with body `body`; `cbOk` = what the callback returns for it (nil or an error —
the callback is the generated `recv<Op>`, its verdict is a parameter). A body shorter than the
frame-size prefix is discarded (`continue`); `message.Body[4:]` is `sliceFrom body 4`. -/
def Stomp.recv (cbOk : Bytes → Bool) (w : Stomp) (body : Bytes) : Res Stomp :=
  if !w.alive then .ok w
  else if body.length < 4 then .ok w
  else
    match sliceFrom body 4 with
    | .panic p => .panic p
    | .err e => .err e
    | .ok payload =>
      if cbOk payload then .ok { w with delivered := w.delivered + 1, acked := w.acked + 1 }
      else .ok { w with delivered := w.delivered + 1 }

def Stomp.recvAll (cbOk : Bytes → Bool) : Stomp → List Bytes → Res Stomp
  | w, [] => .ok w
  | w, m :: t =>
    match Stomp.recv cbOk w m with
    | .ok w' => Stomp.recvAll cbOk w' t
    | .err e => .err e
    | .panic p => .panic p

end FV.Recv2
