/-
transport_monitor.go as pure functions (C15).

  Base.onClosedUncleanly / Base.onReopenFailed   BaseFTransportMonitor's policy
  attemptReopen / handleClose / runner            monitorRunner.attemptReopen / handle*Close / run
                                                  as a function of the scripted outcomes of `transport.Open()`

`time.Duration` is an `int64` of nanoseconds: `prevWait * 2` wraps (`wrap64`). `uint` attempt
counters are `Nat` (assumption: fewer than 2^64 attempts).
-/
namespace FV.Monitor

/-- Two's-complement wrap of an `int64` computation. -/
def wrap64 (z : Int) : Int := (z + 9223372036854775808) % 18446744073709551616 - 9223372036854775808

/-- What the runner asks of an `FTransportMonitor`. -/
structure Policy where
  onClosedUncleanly : Bool × Int
  onReopenFailed : Nat → Int → Bool × Int

/-- `BaseFTransportMonitor` (fields as in the struct). -/
structure Base where
  maxReopenAttempts : Nat
  initialWait : Int
  maxWait : Int
  deriving Repr, DecidableEq

/-- `return m.MaxReopenAttempts > 0, m.InitialWait` -/
def Base.onClosedUncleanly (m : Base) : Bool × Int :=
  (decide (m.maxReopenAttempts > 0), m.initialWait)

/-- `if prevAttempts >= Max {return false, 0}; next := prevWait*2; if next > MaxWait {next = MaxWait}; return true, next` -/
def Base.onReopenFailed (m : Base) (prevAttempts : Nat) (prevWait : Int) : Bool × Int :=
  if prevAttempts ≥ m.maxReopenAttempts then (false, 0)
  else
    let next := wrap64 (prevWait * 2)
    (true, if next > m.maxWait then m.maxWait else next)

def Base.policy (m : Base) : Policy := ⟨m.onClosedUncleanly, m.onReopenFailed⟩

/-- The harness's policy stub: `OnClosedUncleanly` answers a fixed `reopen`, the rest is Base. -/
def stubPolicy (reopen : Bool) (m : Base) : Policy := ⟨(reopen, m.initialWait), m.onReopenFailed⟩

/-- What the runner does, in order. -/
inductive MEv where
  | closedCleanly
  | closedUncleanly (reopen : Bool) (wait : Int)
  | sleep (wait : Int)
  | attempt (ok : Bool)
  | reopenFailed (prevAttempts : Nat) (prevWait : Int) (reopen : Bool) (wait : Int)
  | reopenSucceeded
  | terminated
  | pending            -- the script of Open outcomes ran out while the runner still wants to reopen
  deriving Repr, DecidableEq

/-- `monitorRunner.attemptReopen`: `outs` are the results of the successive `transport.Open()` calls. -/
def attemptReopen (p : Policy) : List Bool → Int → Nat → List MEv
  | [], w, _ => [.sleep w, .pending]
  | true :: _, w, _ => [.sleep w, .attempt true, .reopenSucceeded]
  | false :: rest, w, prev =>
    let rw := p.onReopenFailed (prev + 1) w
    [.sleep w, .attempt false, .reopenFailed (prev + 1) w rw.1 rw.2] ++
      (if rw.1 then attemptReopen p rest rw.2 (prev + 1) else [.terminated])

/-- One value received from the monitor channel (`clean` = nil cause). -/
def handleClose (p : Policy) (clean : Bool) (outs : List Bool) : List MEv :=
  if clean then [.closedCleanly, .terminated]
  else
    let rw := p.onClosedUncleanly
    .closedUncleanly rw.1 rw.2 :: (if rw.1 then attemptReopen p outs rw.2 0 else [.terminated])

def endsRunner (t : List MEv) : Bool := t.contains .terminated || t.contains .pending

/-- `monitorRunner.run`: one entry per value received on the channel, until the runner returns. -/
def runner (p : Policy) : List (Bool × List Bool) → List MEv
  | [] => []
  | (clean, outs) :: rest =>
    let t := handleClose p clean outs
    t ++ (if endsRunner t then [] else runner p rest)

def attempts (t : List MEv) : Nat := (t.filter fun e => match e with | .attempt _ => true | _ => false).length

def sleeps : List MEv → List Int
  | [] => []
  | .sleep w :: t => w :: sleeps t
  | _ :: t => sleeps t

/-- an outage in which the first `k` reopen attempts fail and the next one succeeds -/
def outageOuts (k : Nat) (rest : List Bool) : List Bool := List.replicate k false ++ true :: rest

/-! Several transports, each with its own monitor value (product of independent instances). -/

/-- One transport's monitor: its policy value (exported fields, may be rewritten by the application
at any time) and whether its runner is still running. -/
structure Inst where
  pol : Base
  alive : Bool
  deriving Repr, DecidableEq

/-- What the application / the environment does to transport `t`. -/
inductive MAct where
  | outage (t k : Nat)               -- unclean close of transport t; the next k Opens fail
  | setPolicy (t : Nat) (b : Base)   -- the application rewrites the fields of monitor t
  deriving Repr, DecidableEq

def Inst.outage (m : Inst) (k : Nat) : Inst × List MEv :=
  if !m.alive then (m, [])
  else
    let t := handleClose m.pol.policy false (outageOuts k [])
    ({ m with alive := !endsRunner t }, t)

/-- One action on the product: only instance `t` is read and written. -/
def multiStep (ms : List Inst) : MAct → List Inst × Option (Nat × List MEv)
  | .outage t k =>
    match ms[t]? with
    | none => (ms, none)
    | some m => (ms.set t (m.outage k).1, some (t, (m.outage k).2))
  | .setPolicy t b =>
    match ms[t]? with
    | none => (ms, none)
    | some m => (ms.set t { m with pol := b }, none)

/-- The log of (transport, runner trace) of a run of the product. -/
def multiRun (ms : List Inst) : List MAct → List (Nat × List MEv)
  | [] => []
  | a :: as =>
    match (multiStep ms a).2 with
    | none => multiRun (multiStep ms a).1 as
    | some e => e :: multiRun (multiStep ms a).1 as

/-- The same actions seen by ONE instance alone. -/
def singleRun (m : Inst) : List MAct → Nat → List (List MEv)
  | [], _ => []
  | .outage t k :: as, i => if t = i then (m.outage k).2 :: singleRun (m.outage k).1 as i else singleRun m as i
  | .setPolicy t b :: as, i => if t = i then singleRun { m with pol := b } as i else singleRun m as i

end FV.Monitor
