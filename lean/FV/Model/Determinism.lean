/-
Model of the places where the frugal compiler's output could depend on something
other than the IDL text and the options (C19).  Core Lean only.

The sources of variation are explicit:
* a Go map is an association list whose ORDER is arbitrary (Go randomises map
  iteration per run): a statement about "the map" quantifies over every
  permutation of that list;
* `sort.Sort` is not stable: it may return ANY sorted permutation of its input
  (`IsSortOf`);
* the absolute location of the sources `root`, the working directory `cwd` and the
  `-out` directory are fields of an `Invocation`; paths are lists of segments.

The census (`Generated/Census19.lean`, regenerated from the source on every check)
maps every syntactic site of such variation under `compiler/**` and `main.go` to one
of the `Pattern`s below.
-/
namespace FV.Determinism

-- ---------------------------------------------------------------- census vocabulary

/-- what a site of variation does with the varying order / location -/
inductive Pattern
  /-- collect the keys (or values) of a map in iteration order, then sort them by a key that is
      distinct per element (`c19_keys_sort`, `c19_sorted_perm_unique`) -/
  | keysThenSort
  /-- the loop body only inserts into another map / set or accumulates a commutative value
      (`c19_insert_commutes`) -/
  | commutativeInsertion
  /-- the map is only indexed / tested for membership, never iterated into output -/
  | keyOnly
  /-- the order produced here is erased later (a set that is sorted before use, a lookup table) -/
  | orderIrrelevant
  /-- an unstable sort whose keys are validated distinct (scope names, include names) -/
  | sortedDistinctKeys
  /-- `java:generated_annotations=use` embeds the date: excluded by the property's statement -/
  | excludedByProperty
  /-- not reachable from code generation (audit, usage text, parser construction of slices) -/
  | notOnGenPath
  /-- listed by the syntactic census, but the operand is a slice / string (read at the site) -/
  | notAMap
  /-- a location (cwd, absolute path) is read but cancels out (`c19_location_independent`) -/
  | locationNormalised
  /-- Go generator text that refers to a package whose import line the generator itself emits
      under a guard that covers the use: goimports (PostProcess) only formats and drops unused
      imports; an import left for goimports to ADD would be found by searching around the
      working directory / output directory — location-dependent, never classified as this -/
  | explicitImport
  /-- a generated file is opened so that nothing of an earlier content survives: `os.Create`,
      `O_TRUNC`, `WriteFile` — or without truncation but only after the SAME compile has created /
      truncated that very file (read at the site); otherwise the history of the `-out` directory
      would reach the output -/
  | freshFile
  /-- order-SENSITIVE and recorded in KNOWN_FINDINGS.txt (`c19_unstable_sort_counterexample`) -/
  | knownFinding
  /-- a site the committed expectation does not know: broken tie -/
  | unclassified
  /-- an expected site that is no longer in the source: broken tie -/
  | vanished
  deriving DecidableEq, Repr

def Pattern.insensitive : Pattern → Bool
  | .knownFinding | .unclassified | .vanished => false
  | _ => true

/-- tied: classified as insensitive, or a recorded finding -/
def Pattern.accounted : Pattern → Bool
  | .unclassified | .vanished => false
  | _ => true

def Pattern.name : Pattern → String
  | .keysThenSort => "keys-then-sort"
  | .commutativeInsertion => "commutative-insertion"
  | .keyOnly => "key-only"
  | .orderIrrelevant => "output-order-irrelevant"
  | .sortedDistinctKeys => "sorted-distinct-keys"
  | .excludedByProperty => "excluded-by-property"
  | .notOnGenPath => "not-on-generation-path"
  | .notAMap => "not-a-map"
  | .locationNormalised => "location-normalised"
  | .explicitImport => "explicit-import"
  | .freshFile => "fresh-file"
  | .knownFinding => "known-finding"
  | .unclassified => "unclassified"
  | .vanished => "vanished"

structure Site where
  key : String
  kind : String
  pattern : Pattern

-- ---------------------------------------------------------------- sorting

/-- insertion into a list sorted by `le` -/
def insertBy (le : α → α → Bool) (a : α) : List α → List α
  | [] => [a]
  | b :: t => if le a b then a :: b :: t else b :: insertBy le a t

/-- a deterministic sort (the model's own; used by the driver) -/
def sortBy (le : α → α → Bool) (l : List α) : List α := l.foldr (insertBy le) []

/-- `s` is A result an unstable sort of `l` by `le` may return: any sorted permutation -/
def IsSortOf (le : α → α → Bool) (l s : List α) : Prop :=
  s.Perm l ∧ s.Pairwise (fun a b => le a b = true)

-- ---------------------------------------------------------------- maps

/-- a Go map as an association list in arbitrary order -/
abbrev AMap (κ β : Type) := List (κ × β)

def alookup [DecidableEq κ] (k : κ) : AMap κ β → Option β
  | [] => none
  | (k', v) :: t => if k' = k then some v else alookup k t

/-- the extensional content of a map being built by insertion -/
abbrev FMap (κ β : Type) := κ → Option β

def FMap.empty : FMap κ β := fun _ => none

def FMap.insert [DecidableEq κ] (m : FMap κ β) (kv : κ × β) : FMap κ β :=
  fun x => if x = kv.1 then some kv.2 else m x

/-- `for k, v := range src { dst[k] = v }` visiting `src` in the order of the list -/
def insertAll [DecidableEq κ] (dst : FMap κ β) (src : List (κ × β)) : FMap κ β :=
  src.foldl FMap.insert dst

/-- `for k := range m { keys = append(keys, k) }; sort.Strings(keys)` -/
def keysSorted (le : κ → κ → Bool) (m : AMap κ β) : List κ := sortBy le (m.map Prod.fst)

-- ---------------------------------------------------------------- traversal (compiler.go generateFrugalRec)

/-- one `include` statement of a file -/
structure Inc where
  name : String      -- base name without extension: the key of ParsedIncludes and of the sort
  vendor : Bool      -- `(vendor)` annotation
  deriving DecidableEq, Repr

def strLe (a b : String) : Bool := decide (a ≤ b)

def incLe (a b : Inc) : Bool := strLe a.name b.name

/-- parser/types.go `OrderedIncludes`: the includes sorted by name -/
def orderedIncludes (incs : List Inc) : List Inc := sortBy incLe incs

/-- a parsed program: per file (a node is a number) its include statements and its
    `ParsedIncludes` map (include name ↦ file), the latter in arbitrary order -/
structure Prog where
  incs : Nat → List Inc
  parsed : Nat → AMap String Nat

/-- `generateFrugalRec`: `acc` = the files generated so far, in generation order
    (= the keys of `globals.CompiledFiles`); a file is generated once; includes are
    visited in `OrderedIncludes` order; vendored includes are skipped under `use_vendor`.
    `fuel` bounds the include depth. -/
def genRec (p : Prog) (useVendor : Bool) : Nat → Nat → List Nat → List Nat
  | 0, _, acc => acc
  | fuel + 1, n, acc =>
    if n ∈ acc then acc else
    (orderedIncludes (p.incs n)).foldl
      (fun acc i =>
        if i.vendor && useVendor then acc else
        match alookup i.name (p.parsed n) with
        | some t => genRec p useVendor fuel t acc
        | none => acc)
      (acc ++ [n])

/-- the sequence of files for which code is generated -/
def genOrder (p : Prog) (useVendor : Bool) (fuel root : Nat) : List Nat :=
  genRec p useVendor fuel root []

/-- html generator `transitiveIncludesRec`: every file reachable through ParsedIncludes,
    collected into a map keyed by file (a set of nodes; order of discovery = map iteration order) -/
def reachRec (p : Prog) : Nat → Nat → List Nat → List Nat
  | 0, _, acc => acc
  | fuel + 1, n, acc =>
    if n ∈ acc then acc else
    (p.parsed n).foldl (fun acc kv => reachRec p fuel kv.2 acc) (n :: acc)

-- ---------------------------------------------------------------- locations

abbrev Path := List String

/-- how the compiler was invoked -/
structure Invocation where
  root : Path      -- absolute directory of the source tree
  cwd : Path       -- absolute working directory
  outAbs : Bool    -- `-out` given as an absolute path?
  out : Path       -- `-out` as given

/-- `filepath.Abs` -/
def absPath (cwd : Path) (isAbs : Bool) (p : Path) : Path := if isAbs then p else cwd ++ p

/-- the output root as an absolute path -/
def Invocation.outRoot (i : Invocation) : Path := absPath i.cwd i.outAbs i.out

/-- `GetOutputDir(out, f)`: the `-out` value joined with the namespace components of the file -/
def outputDir (i : Invocation) (ns : Path) : Path := i.out ++ ns

/-- `filepath.Rel(base, target)` for a target below base -/
def relTo (base target : Path) : Option Path :=
  if base.isPrefixOf target then some (target.drop base.length) else none

/-- python `SetupGenerator`: `Rel(Abs(outRoot), Abs(outputDir))`, the package directories that get an `__init__.py` -/
def pyPackageRel (i : Invocation) (ns : Path) : Option Path :=
  relTo (absPath i.cwd i.outAbs i.out) (absPath i.cwd i.outAbs (outputDir i ns))

/-- key of a source file in `globals.CompiledFiles` / the html module map: its absolute path -/
def fileKey (i : Invocation) (rel : Path) : Path := i.root ++ rel

/-- what one source file contributes: namespace components and emitted file names -/
structure GenUnit where
  ns : Path
  files : List String

/-- absolute paths of all emitted files -/
def emittedAbs (i : Invocation) (us : List GenUnit) : List Path :=
  us.flatMap fun u => u.files.map fun f => absPath i.cwd i.outAbs (outputDir i u.ns ++ [f])

/-- emitted paths relative to the `-out` directory: what the property compares -/
def emittedRel (us : List GenUnit) : List Path :=
  us.flatMap fun u => u.files.map fun f => u.ns ++ [f]

end FV.Determinism
