/-
Model of the shutdown protocol of the NATS server (C20):

  lib/go/nats_server.go   Serve, drainNatsMessages, Stop, handler, worker, processFrame
  lib/go/processor.go     FBaseProcessorFunction.SendReply / SendError / trapError (the write mutex)
  nats.go v1.33.1         Subscription (pending list, one callback goroutine per subscription),
                          Drain / Conn.Flush / Conn.Barrier
  nats-server             SUB/UNSUB/PUB processing in connection order

A system is: one `Sub` per SUBJECT the server was built with — the broker side of that subscription
(`inflight` = requests the broker has accepted for it and not yet handed to the client library) and
the nats.go subscription (`pending` FIFO, its own callback goroutine `cb`: callbacks of different
subscriptions run concurrently) —, `active` (the broker has the subscriptions), the `barrier` flag, and the
frugal side: `workC` (a channel of capacity `q`, `closed`), the workers with the processor's write
mutex `wmu`, the program counters of `Serve` and `Stop`, and the history (`arrived`, `handed`,
`processed`, `replied`, `dropped`, as lists = multisets).

One `Action` is one statement group that is atomic in the code: a single channel operation, one
library call, one mutex operation, one protocol message processed by the broker.
`step s a = none` means the action is not enabled: the goroutine is blocked there (handler on a
full `workC`, worker on an empty open `workC` or on the write mutex, `wg.Wait` while a worker is
alive, the barrier while a callback is outstanding, `sendMu.Lock` in Serve while a handler is
inside its send) or is not at that point.

Contract of nats.go / the broker that is assumed (read from the sources, not verified):
  * the broker hands the messages of one subscription over in the order it accepted them and
    accepts nothing for the subscription once it has processed UNSUB (`drainStart`);
  * the PONG that ends `Conn.Flush` comes after every message the broker sent before it, so when
    `Flush` returns `inflight` is empty (`flushBarrier` is enabled only then);
  * one callback at a time per subscription, in FIFO order; the pending count drops only after
    the callback returned (`callbackDone`);
  * the function given to `Conn.Barrier` runs after every callback pending at the call completed
    (`barrierFires` needs `pending = []` and an idle callback goroutine).

FAULTS. `fault` (adversary, any time, once) stands for: the application closes the connection, the
broker goes away, the link stalls beyond the flush timeout. Afterwards `Drain` / `Flush` /
`Barrier` may return an error (`drainFail`: Serve hands the error to Stop and goes on to close the
work queue) — or not, and the drain may even "succeed" without the broker having removed the
subscription (`drainStartIgnored`); messages in flight or pending may never be delivered (no action forces
`deliver` / `cbStart`), or may still be (a stall that recovers): the model allows both.

The drain waits for EVERY subscription: `flushBarrier` needs every `inflight` empty, `barrierFires`
every `pending` empty and every callback goroutine idle (`Conn.Barrier` puts a marker behind the
pending messages of every subscription of the connection and fires when the last one is reached).

Three parameters describe the code:
  * `guarded` — Serve closes `workC` holding `sendMu` exclusively, the handler sends holding it
    shared and turns requests away once `stopped` is set (the code since fix 2a98083). With
    `guarded = false` (the code before) `close(workC)` can happen under a sender: a send on the
    closed channel is a Go panic, recorded in `panicked`.
  * `lastOnly` — the drain would wait for the LAST subject's subscription only (not the code; a
    mutation of it: goroutines that all capture the same loop variable).
  * `reentrant` — `trapError` would answer an oversize reply through the LOCKING `SendError`
    while `SendReply` holds the write mutex (not the code; a mutation of it): the worker blocks
    on the mutex it holds.
-/
import FV.Basic

namespace FV.NS

abbrev Msg := Nat

/-- The subscription's callback goroutine (`waitForMsgs` → `fNatsServer.handler`). -/
inductive Cb where
  | idle                    -- waiting for the next pending message
  | sending (m : Msg)       -- in `handler` (holding `sendMu` shared), at `f.workC <- frame` for request `m`
  | sent (m : Msg)          -- the send completed, `handler` has not returned yet
  deriving DecidableEq, Repr

inductive Wk where
  | idle                    -- at `for frame := range f.workC`
  | busy (m : Msg)          -- in `processFrame`: the handler method for request `m` runs
  | locking (m : Msg)       -- at `writeMu.Lock()` in `SendReply` / `SendError`
  | writing (m : Msg)       -- holds the write mutex, writes the reply into the output buffer
  | overflow (m : Msg)      -- holds it; the reply exceeded the limit (`trapError`), the error reply is next
  | written (m : Msg)       -- holds it; the reply (or the error reply) is in the buffer; `Unlock` is next
  | publishing (m : Msg)    -- mutex released; `conn.Publish(reply)` and back to the loop head
  | exited                  -- the range loop ended (`workC` closed and empty), `wg.Done` ran
  deriving DecidableEq, Repr

/-- Program counter of `Serve` (after `QueueSubscribe` and the start of the workers). -/
inductive ServePc where
  | running                 -- `done := <-f.quit`
  | gotQuit                 -- received the rendezvous; about to call `sub.Drain()`
  | unsubbed                -- `Drain` called and UNSUB processed by the broker; in `conn.Flush()`
  | barrierWait             -- `Flush` returned, `Barrier` registered; `<-barrier`
  | barrierDone             -- `drainNatsMessages` returned (barrier fired, or an error); at `done <- err`
  | resultSent              -- Stop has the result; at `sendMu.Lock()` / `close(f.workC)`
  | closedQ                 -- `wg.Wait()`
  | returned
  deriving DecidableEq, Repr

inductive StopPc where
  | notCalled
  | atQuit                  -- `f.quit <- done`
  | waitResult              -- `<-done`
  | gotResult               -- received; about to return
  | returned
  deriving DecidableEq, Repr

/-- One subject: the broker's side of the subscription and the nats.go subscription. -/
structure Sub where
  inflight : List Msg       -- broker → client library (oldest first)
  pending : List Msg        -- nats.go pending list, callbacks not started (oldest first)
  cb : Cb                   -- this subscription's callback goroutine
  deriving DecidableEq, Repr

/-- Nothing pending and the callback goroutine idle: the barrier marker of this subscription is reached. -/
def Sub.quiet (sb : Sub) : Bool := sb.pending.isEmpty && sb.cb == .idle

structure Sys where
  q : Nat                   -- capacity of `workC`
  guarded : Bool            -- close of `workC` under `sendMu` (the code as it is)
  reentrant : Bool          -- `trapError` re-locks the write mutex (a mutation; the code: false)
  lastOnly : Bool           -- the drain waits for the last subscription only (a mutation; the code: false)
  active : Bool             -- broker: the subscriptions exist
  faulty : Bool             -- a connection fault has happened
  subs : List Sub           -- one per subject, in the order of the builder's subject list
  barrier : Bool            -- a barrier is registered behind the pending messages
  workC : List Msg          -- oldest first
  closed : Bool
  workers : List Wk
  wmu : Option Nat          -- which worker holds the processor's write mutex
  serve : ServePc
  stop : StopPc
  arrived : List Msg        -- every request the broker accepted for the subscription
  handed : List Msg         -- every request the handler took over (reached its send to `workC`)
  processed : List Msg      -- one entry per invocation of the processor
  replied : List Msg        -- one entry per reply handed to the connection
  dropped : List Msg        -- turned away by the handler after the queue was closed
  panicked : Bool           -- a send on the closed `workC` happened
  deriving DecidableEq, Repr

inductive Action where
  | arrive (j : Nat) (m : Msg) -- adversary: the broker accepts request `m` for subscription `j`
  | fault                   -- adversary: connection closed / broker gone / link stalled
  | deliver (j : Nat)       -- broker → nats.go: oldest in-flight message of `j` is appended to its `pending`
  | cbStart (j : Nat)       -- callback goroutine of `j` pops its oldest pending message, enters `handler`
  | handlerEnqueue (j : Nat) -- `f.workC <- frame` of `j`'s handler completes into the buffer
  | callbackDone (j : Nat)  -- `handler` returns; nats.go decrements the pending count
  | workerTake (i : Nat)    -- worker `i` receives from the buffer of `workC`
  | workerHandoff (i j : Nat) -- worker `i` receives directly from `j`'s blocked sender (empty buffer)
  | workerHandlerDone (i : Nat) -- the handler method returned; `SendReply` / `SendError` is entered
  | workerLock (i : Nat)    -- `writeMu.Lock()` succeeds
  | workerWriteOk (i : Nat) -- the reply fits: written
  | workerOverflow (i : Nat) -- the reply exceeds the limit: `trapError`
  | workerErrReply (i : Nat) -- `sendError` writes RESPONSE_TOO_LARGE under the mutex already held
  | workerUnlock (i : Nat)  -- `writeMu.Unlock()`
  | workerReply (i : Nat)   -- reply published, back to the loop head
  | workerExit (i : Nat)    -- worker `i` sees `workC` closed and empty
  | stopCall                -- `Stop()` is called: blocks at `f.quit <- done`
  | serveGotQuit            -- rendezvous on `quit`
  | drainStart              -- `sub.Drain()`: UNSUB processed by the broker, no arrivals after
  | drainStartIgnored       -- after a fault: `sub.Drain()` returns nil but the broker does not act on the UNSUB
                            -- (a nats-server that is shutting down ignores UNSUB and still answers PING)
  | flushBarrier            -- `conn.Flush()` returned (PONG), `conn.Barrier(f)` registered
  | barrierFires            -- every callback pending at the barrier call completed: `close(barrier)`
  | drainFail               -- after a fault: `Drain` / `Flush` / `Barrier` returns an error
  | sendResult              -- rendezvous `done <- err` / `<-done`
  | stopReturn              -- `Stop()` returns
  | closeWorkC              -- `sendMu.Lock(); stopped = true; close(f.workC); sendMu.Unlock()`
  | serveReturn             -- `wg.Wait()` returns, `Serve` returns
  deriving DecidableEq, Repr

def initP (guarded reentrant lastOnly : Bool) (w q k : Nat) : Sys :=
  { q := q, guarded := guarded, reentrant := reentrant, lastOnly := lastOnly, active := true, faulty := false,
    subs := List.replicate k ⟨[], [], .idle⟩, barrier := false,
    workC := [], closed := false, workers := List.replicate w .idle, wmu := none, serve := .running,
    stop := .notCalled, arrived := [], handed := [], processed := [], replied := [], dropped := [],
    panicked := false }

/-- The code as it is: w workers, queue length q, k subjects. -/
def init (w q k : Nat) : Sys := initP true false false w q k

def allExited (ws : List Wk) : Bool := ws.all (· == .exited)

/-- What the barrier wait waits for. -/
def drained (s : Sys) : Bool :=
  if s.lastOnly then (match s.subs.getLast? with | some sb => sb.quiet | none => true)
  else s.subs.all Sub.quiet

def step (s : Sys) : Action → Option Sys
  | .arrive j m =>
    match s.subs[j]? with
    | some sb =>
      if s.active ∧ m ∉ s.arrived then
        some { s with subs := s.subs.set j { sb with inflight := sb.inflight ++ [m] }, arrived := s.arrived ++ [m] }
      else none
    | none => none
  | .fault =>
    if s.faulty then none else some { s with faulty := true }
  | .deliver j =>
    match s.subs[j]? with
    | some sb =>
      match sb.inflight with
      | m :: rest => some { s with subs := s.subs.set j { sb with inflight := rest, pending := sb.pending ++ [m] } }
      | [] => none
    | none => none
  | .cbStart j =>
    match s.subs[j]? with
    | some sb =>
      match sb.cb, sb.pending with
      | .idle, m :: rest =>
        if s.guarded ∧ s.closed then
          some { s with subs := s.subs.set j { sb with pending := rest }, dropped := s.dropped ++ [m] }  -- `stopped`: turned away
        else some { s with subs := s.subs.set j { sb with cb := .sending m, pending := rest }, handed := s.handed ++ [m] }
      | _, _ => none
    | none => none
  | .handlerEnqueue j =>
    match s.subs[j]? with
    | some sb =>
      match sb.cb with
      | .sending m =>
        if s.closed then some { s with subs := s.subs.set j { sb with cb := .idle }, panicked := true }   -- send on closed channel
        else if s.workC.length < s.q then
          some { s with subs := s.subs.set j { sb with cb := .sent m }, workC := s.workC ++ [m] }
        else none                                                          -- blocked: queue full
      | _ => none
    | none => none
  | .callbackDone j =>
    match s.subs[j]? with
    | some sb =>
      match sb.cb with
      | .sent _ => some { s with subs := s.subs.set j { sb with cb := .idle } }
      | _ => none
    | none => none
  | .workerTake i =>
    match s.workers[i]? with
    | some .idle =>
      match s.workC with
      | m :: rest =>
        some { s with workC := rest, workers := s.workers.set i (.busy m), processed := s.processed ++ [m] }
      | [] => none                                                         -- blocked: nothing buffered
    | _ => none
  | .workerHandoff i j =>
    match s.workers[i]?, s.subs[j]? with
    | some .idle, some sb =>
      match sb.cb with
      | .sending m =>
        if s.closed ∨ s.workC ≠ [] then none
        else -- direct hand-off from the blocked sender (the only way through when q = 0)
          some { s with subs := s.subs.set j { sb with cb := .sent m }, workers := s.workers.set i (.busy m),
                        processed := s.processed ++ [m] }
      | _ => none
    | _, _ => none
  | .workerHandlerDone i =>
    match s.workers[i]? with
    | some (.busy m) => some { s with workers := s.workers.set i (.locking m) }
    | _ => none
  | .workerLock i =>
    match s.workers[i]? with
    | some (.locking m) =>
      if s.wmu = none then some { s with workers := s.workers.set i (.writing m), wmu := some i } else none
    | _ => none
  | .workerWriteOk i =>
    match s.workers[i]? with
    | some (.writing m) => some { s with workers := s.workers.set i (.written m) }
    | _ => none
  | .workerOverflow i =>
    match s.workers[i]? with
    | some (.writing m) => some { s with workers := s.workers.set i (.overflow m) }
    | _ => none
  | .workerErrReply i =>
    match s.workers[i]? with
    | some (.overflow m) =>
      if s.reentrant ∧ s.wmu ≠ none then none     -- the mutation: Lock() on the mutex this worker holds
      else some { s with workers := s.workers.set i (.written m) }
    | _ => none
  | .workerUnlock i =>
    match s.workers[i]? with
    | some (.written m) => some { s with workers := s.workers.set i (.publishing m), wmu := none }
    | _ => none
  | .workerReply i =>
    match s.workers[i]? with
    | some (.publishing m) => some { s with workers := s.workers.set i .idle, replied := s.replied ++ [m] }
    | _ => none
  | .workerExit i =>
    match s.workers[i]? with
    | some .idle =>
      if s.closed ∧ s.workC = [] then some { s with workers := s.workers.set i .exited } else none
    | _ => none
  | .stopCall =>
    if s.stop = .notCalled then some { s with stop := .atQuit } else none
  | .serveGotQuit =>
    if s.serve = .running ∧ s.stop = .atQuit then some { s with serve := .gotQuit, stop := .waitResult } else none
  | .drainStart =>
    if s.serve = .gotQuit then some { s with serve := .unsubbed, active := false } else none
  | .drainStartIgnored =>
    if s.faulty ∧ s.serve = .gotQuit then some { s with serve := .unsubbed } else none
  | .flushBarrier =>
    if s.serve = .unsubbed ∧ s.subs.all (fun sb => sb.inflight.isEmpty) then
      some { s with serve := .barrierWait, barrier := true }
    else none
  | .barrierFires =>
    if s.serve = .barrierWait ∧ s.barrier ∧ drained s then
      some { s with serve := .barrierDone, barrier := false }
    else none
  | .drainFail =>
    if s.faulty ∧ (s.serve = .gotQuit ∨ s.serve = .unsubbed ∨ s.serve = .barrierWait) then
      some { s with serve := .barrierDone, barrier := false }
    else none
  | .sendResult =>
    if s.serve = .barrierDone ∧ s.stop = .waitResult then some { s with serve := .resultSent, stop := .gotResult } else none
  | .stopReturn =>
    if s.stop = .gotResult then some { s with stop := .returned } else none
  | .closeWorkC =>
    if s.serve = .resultSent ∧ (s.guarded → s.subs.all (fun sb => sb.cb == .idle)) then
      some { s with serve := .closedQ, closed := true }
    else none
  | .serveReturn =>
    if s.serve = .closedQ ∧ allExited s.workers then some { s with serve := .returned } else none

/-- Run an action list; `none` as soon as an action is not enabled. -/
def run (s : Sys) : List Action → Option Sys
  | [] => some s
  | a :: as => match step s a with
    | some s' => run s' as
    | none => none

/-- Everything but the adversary: the broker accepting a new request, a connection fault, the
user calling `Stop`. -/
def Action.isSystem : Action → Bool
  | .arrive _ _ => false
  | .fault => false
  | .stopCall => false
  | _ => true

/-- The steps of the workers. -/
def Action.isWorker : Action → Bool
  | .workerTake _ | .workerHandoff _ _ | .workerHandlerDone _ | .workerLock _ | .workerWriteOk _ | .workerOverflow _
  | .workerErrReply _ | .workerUnlock _ | .workerReply _ | .workerExit _ => true
  | _ => false

end FV.NS
