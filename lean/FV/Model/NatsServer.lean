/-
Model of the shutdown protocol of the NATS server (C20):

  lib/go/nats_server.go   Serve, drainNatsMessages, Stop, handler, worker, processFrame
  nats.go v1.33.1         Subscription (pending list, one callback goroutine per subscription),
                          Drain / Conn.Flush / Conn.Barrier
  nats-server             SUB/UNSUB/PUB processing in connection order

A system is: the broker side of the server's subscription (`active`, and `inflight` = requests
the broker has accepted for the subscription and not yet handed to the client library), the
nats.go subscription (`pending` FIFO, the callback goroutine `cb`, the `barrier` flag), and the
frugal side: `workC` (a channel of capacity `q`, `closed`), the workers, the program counters of
`Serve` and `Stop`, and the history (`arrived`, `processed`, `replied`, as lists = multisets).

One `Action` is one statement group that is atomic in the code: a single channel operation, one
library call, one protocol message processed by the broker. `step s a = none` means the action is
not enabled: the goroutine is blocked there (handler on a full `workC`, worker on an empty open
`workC`, `wg.Wait` while a worker is alive, the barrier while a callback is outstanding) or is
not at that point.

Contract of nats.go / the broker that is assumed (read from the sources, not verified):
  * the broker hands the messages of one subscription over in the order it accepted them and
    accepts nothing for the subscription once it has processed UNSUB (`drainStart`);
  * the PONG that ends `Conn.Flush` comes after every message the broker sent before it, so when
    `Flush` returns `inflight` is empty (`flushBarrier` is enabled only then);
  * one callback at a time per subscription, in FIFO order; the pending count drops only after
    the callback returned (`callbackDone`);
  * the function given to `Conn.Barrier` runs after every callback pending at the call completed
    (`barrierFires` needs `pending = []` and an idle callback goroutine).

A send on the closed `workC` would be a Go panic; the model records it in `panicked` instead of
blocking, so that "never happens" is a theorem about reachable states rather than a convention.
-/
import FV.Basic

namespace FV.NS

abbrev Msg := Nat

/-- The subscription's callback goroutine (`waitForMsgs` → `fNatsServer.handler`). -/
inductive Cb where
  | idle                    -- waiting for the next pending message
  | sending (m : Msg)       -- in `handler`, at `f.workC <- frame` for request `m`
  | sent (m : Msg)          -- the send completed, `handler` has not returned yet
  deriving DecidableEq, Repr

inductive Wk where
  | idle                    -- at `for frame := range f.workC`
  | busy (m : Msg)          -- in `processFrame` for request `m`
  | exited                  -- the range loop ended (`workC` closed and empty), `wg.Done` ran
  deriving DecidableEq, Repr

/-- Program counter of `Serve` (after `QueueSubscribe` and the start of the workers). -/
inductive ServePc where
  | running                 -- `done := <-f.quit`
  | gotQuit                 -- received the rendezvous; about to call `sub.Drain()`
  | unsubbed                -- `Drain` called and UNSUB processed by the broker; in `conn.Flush()`
  | barrierWait             -- `Flush` returned, `Barrier` registered; `<-barrier`
  | barrierDone             -- barrier fired; at `done <- err`
  | resultSent              -- Stop has the result; about to `close(f.workC)`
  | closedQ                 -- `wg.Wait()`
  | returned
  deriving DecidableEq, Repr

inductive StopPc where
  | notCalled
  | atQuit                  -- `f.quit <- done`
  | waitResult              -- `<-done`
  | gotResult               -- received; about to return
  | returned
  deriving DecidableEq, Repr

structure Sys where
  q : Nat                   -- capacity of `workC`
  active : Bool             -- broker: the subscription exists
  inflight : List Msg       -- broker → client library (oldest first)
  pending : List Msg        -- nats.go pending list, callbacks not started (oldest first)
  cb : Cb
  barrier : Bool            -- a barrier is registered behind the pending messages
  workC : List Msg          -- oldest first
  closed : Bool
  workers : List Wk
  serve : ServePc
  stop : StopPc
  arrived : List Msg        -- every request the broker accepted for the subscription
  processed : List Msg      -- one entry per invocation of the processor
  replied : List Msg        -- one entry per reply published
  panicked : Bool           -- a send on the closed `workC` happened
  deriving DecidableEq, Repr

inductive Action where
  | arrive (m : Msg)        -- adversary: the broker accepts request `m` for the subscription
  | deliver                 -- broker → nats.go: oldest in-flight message is appended to `pending`
  | cbStart                 -- callback goroutine pops the oldest pending message, enters `handler`
  | handlerEnqueue          -- `f.workC <- frame` completes into the buffer
  | callbackDone            -- `handler` returns; nats.go decrements the pending count
  | workerTake (i : Nat)    -- worker `i` receives from `workC` (or directly from the blocked sender)
  | workerReply (i : Nat)   -- worker `i`: processor ran, reply published, back to the loop head
  | workerExit (i : Nat)    -- worker `i` sees `workC` closed and empty
  | stopCall                -- `Stop()` is called: blocks at `f.quit <- done`
  | serveGotQuit            -- rendezvous on `quit`
  | drainStart              -- `sub.Drain()`: UNSUB processed by the broker, no arrivals after
  | flushBarrier            -- `conn.Flush()` returned (PONG), `conn.Barrier(f)` registered
  | barrierFires            -- every callback pending at the barrier call completed: `close(barrier)`
  | sendResult              -- rendezvous `done <- err` / `<-done`
  | stopReturn              -- `Stop()` returns
  | closeWorkC              -- `close(f.workC)`
  | serveReturn             -- `wg.Wait()` returns, `Serve` returns
  deriving DecidableEq, Repr

def init (w q : Nat) : Sys :=
  { q := q, active := true, inflight := [], pending := [], cb := .idle, barrier := false,
    workC := [], closed := false, workers := List.replicate w .idle, serve := .running,
    stop := .notCalled, arrived := [], processed := [], replied := [], panicked := false }

def allExited (ws : List Wk) : Bool := ws.all (· == .exited)

def step (s : Sys) : Action → Option Sys
  | .arrive m =>
    if s.active ∧ m ∉ s.arrived then
      some { s with inflight := s.inflight ++ [m], arrived := s.arrived ++ [m] }
    else none
  | .deliver =>
    match s.inflight with
    | m :: rest => some { s with inflight := rest, pending := s.pending ++ [m] }
    | [] => none
  | .cbStart =>
    match s.cb, s.pending with
    | .idle, m :: rest => some { s with cb := .sending m, pending := rest }
    | _, _ => none
  | .handlerEnqueue =>
    match s.cb with
    | .sending m =>
      if s.closed then some { s with cb := .idle, panicked := true }     -- send on closed channel
      else if s.workC.length < s.q then some { s with cb := .sent m, workC := s.workC ++ [m] }
      else none                                                          -- blocked: queue full
    | _ => none
  | .callbackDone =>
    match s.cb with
    | .sent _ => some { s with cb := .idle }
    | _ => none
  | .workerTake i =>
    match s.workers[i]? with
    | some .idle =>
      match s.workC with
      | m :: rest =>
        some { s with workC := rest, workers := s.workers.set i (.busy m), processed := s.processed ++ [m] }
      | [] =>
        match s.cb with
        | .sending m =>
          if s.closed then none
          else -- direct hand-off from the blocked sender (the only way through when q = 0)
            some { s with cb := .sent m, workers := s.workers.set i (.busy m), processed := s.processed ++ [m] }
        | _ => none                                                      -- blocked: nothing to receive
    | _ => none
  | .workerReply i =>
    match s.workers[i]? with
    | some (.busy m) => some { s with workers := s.workers.set i .idle, replied := s.replied ++ [m] }
    | _ => none
  | .workerExit i =>
    match s.workers[i]? with
    | some .idle =>
      if s.closed ∧ s.workC = [] then some { s with workers := s.workers.set i .exited } else none
    | _ => none
  | .stopCall =>
    if s.stop = .notCalled then some { s with stop := .atQuit } else none
  | .serveGotQuit =>
    if s.serve = .running ∧ s.stop = .atQuit then some { s with serve := .gotQuit, stop := .waitResult } else none
  | .drainStart =>
    if s.serve = .gotQuit then some { s with serve := .unsubbed, active := false } else none
  | .flushBarrier =>
    if s.serve = .unsubbed ∧ s.inflight = [] then some { s with serve := .barrierWait, barrier := true } else none
  | .barrierFires =>
    if s.serve = .barrierWait ∧ s.barrier ∧ s.pending = [] ∧ s.cb = .idle then
      some { s with serve := .barrierDone, barrier := false }
    else none
  | .sendResult =>
    if s.serve = .barrierDone ∧ s.stop = .waitResult then some { s with serve := .resultSent, stop := .gotResult } else none
  | .stopReturn =>
    if s.stop = .gotResult then some { s with stop := .returned } else none
  | .closeWorkC =>
    if s.serve = .resultSent then some { s with serve := .closedQ, closed := true } else none
  | .serveReturn =>
    if s.serve = .closedQ ∧ allExited s.workers then some { s with serve := .returned } else none

/-- Run an action list; `none` as soon as an action is not enabled. -/
def run (s : Sys) : List Action → Option Sys
  | [] => some s
  | a :: as => match step s a with
    | some s' => run s' as
    | none => none

/-- Everything but the broker accepting a new request and the user calling `Stop`. -/
def Action.isSystem : Action → Bool
  | .arrive _ => false
  | .stopCall => false
  | _ => true

end FV.NS
