/-
Include resolution and the per-run parse cache of `compiler/parser/parser.go` (`parseFrugal`).
Core Lean only (linked into the driver).

The file system is a finite map from CLEANED root-relative paths to parsed files (`FS`): what a
file contributes is its payload (its own declarations) and its include edges (include name, path
as written).  An include is resolved relative to the directory of the including file:
`filepath.Join(frugal.Dir, include)` — `joinPath` (join, then `filepath.Clean`: "." and empty
components dropped, "d/.." cancelled).  `deep` is the meaning of a path: the file at exactly that
path with, per include edge, the meaning of exactly the resolved path (its ORIGIN is kept).
`deepC key` is the code that exists: the same walk with the cache `map[string]*Frugal`, looked up
before parsing and filled afterwards, keyed by `key path` (`key = id` in parser.go: the joined path).
Not modelled: the circular-include check (`visitedIncludes`), validation.
-/
namespace FV.Inc

/-- A relative path as its components (`a/sub/x.frugal` = `["a", "sub", "x.frugal"]`). -/
abbrev Path := List String

/-- `filepath.Clean` on the components of a relative path (`acc` is the cleaned prefix, reversed). -/
def cleanComps : List String → List String → List String
  | acc, [] => acc.reverse
  | acc, c :: r =>
    if c = "." || c = "" then cleanComps acc r
    else if c = ".." then
      (match acc with
       | [] => cleanComps [".."] r
       | a :: t => if a = ".." then cleanComps (".." :: a :: t) r else cleanComps t r)
    else cleanComps (c :: acc) r

def cleanPath (p : Path) : Path := cleanComps [] p

/-- `filepath.Dir` of a cleaned relative path. -/
def dirOf (p : Path) : Path := p.dropLast

/-- `filepath.Join(dir, include)`. -/
def joinPath (dir inc : Path) : Path := cleanPath (dir ++ inc)

/-- A parsed file: its own declarations and its include edges (include name, path as written). -/
structure FileNode (α : Type) where
  payload : α
  includes : List (String × Path)

abbrev FS (α : Type) := List (Path × FileNode α)

/-- The meaning of a path: origin, own declarations, and per include edge the meaning of the file it resolves to. -/
inductive Deep (α : Type) where
  | node (origin : Path) (payload : α) (subs : List (String × Deep α))

/-- The include edges of a file in directory `dir`, each resolved by `f`. -/
def subsWith {α : Type} (f : Path → Option (Deep α)) (dir : Path) : List (String × Path) → Option (List (String × Deep α))
  | [] => some []
  | (nm, inc) :: r =>
    match f (joinPath dir inc), subsWith f dir r with
    | some d, some ds => some ((nm, d) :: ds)
    | _, _ => none

/-- The meaning of `path` (no cache); `none`: a file is missing or the include depth exceeds the fuel. -/
def deep {α : Type} : Nat → FS α → Path → Option (Deep α)
  | 0, _, _ => none
  | n + 1, fs, path =>
    match fs.lookup path with
    | none => none
    | some nd => (subsWith (deep n fs) (dirOf path) nd.includes).map (Deep.node path nd.payload)

/-- The cache `map[string]*Frugal`; its keys are `key path`. -/
abbrev Cache (κ α : Type) := List (κ × Deep α)

/-- The include edges with the cache threaded through, left to right. -/
def subsC {κ α : Type} (f : Cache κ α → Path → Option (Cache κ α × Deep α)) (dir : Path) :
    Cache κ α → List (String × Path) → Option (Cache κ α × List (String × Deep α))
  | c, [] => some (c, [])
  | c, (nm, inc) :: r =>
    match f c (joinPath dir inc) with
    | none => none
    | some (c1, d) =>
      match subsC f dir c1 r with
      | none => none
      | some (c2, ds) => some (c2, (nm, d) :: ds)

/-- `parseFrugal` with its cache keyed by `key path` (`key = id` in parser.go: the joined, cleaned path). -/
def deepC {κ α : Type} [BEq κ] (key : Path → κ) : Nat → FS α → Cache κ α → Path → Option (Cache κ α × Deep α)
  | 0, _, _, _ => none
  | n + 1, fs, c, path =>
    match c.lookup (key path) with
    | some d => some (c, d)
    | none =>
      match fs.lookup path with
      | none => none
      | some nd =>
        match subsC (deepC key n fs) (dirOf path) c nd.includes with
        | none => none
        | some (c1, ds) => some ((key path, Deep.node path nd.payload ds) :: c1, Deep.node path nd.payload ds)

/-- Accessors used to state properties of a meaning. -/
def Deep.origin {α : Type} : Deep α → Path
  | .node o _ _ => o
def Deep.payload {α : Type} : Deep α → α
  | .node _ p _ => p
def Deep.sub? {α : Type} (d : Deep α) (name : String) : Option (Deep α) :=
  match d with
  | .node _ _ subs => subs.lookup name

end FV.Inc
