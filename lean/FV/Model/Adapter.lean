/-
adapter_transport.go as a transition system (C15).

One `Inc` per successful `Open` (an *incarnation*): its closeSignal (a fresh channel per Open in
the repaired code; `Sys.fresh = false` is the code before the repair, where all incarnations
share one channel `sharedSig`), its closeChan, its read loop.

Goroutines: user calls (`Open`, `Close`, `IsOpen`; the monitor runner's `Open` is one of them) and
one read loop per incarnation. `step s a = none` means the goroutine named by `a` is blocked
(mutex held by someone else, closeSignal full) or `a` does not apply.

Statement groups = actions (the split points are the blocking points and the yield points of the
guard-on build):

  Open      Lock; isOpen? ; transport.Open(); go readLoop; isOpen = true; closeChan = make; Unlock   (one action)
  IsOpen    RLock; !isOpen -> false; read loop of this incarnation still running -> true            (one action)
            otherwise (and always, before the second repair: `Sys.guarded = false`) the underlying
            transport's IsOpen() is called HOLDING the read lock -> `atSignal`; over a thrift.TSocket
            that call waits for a pending Read (second action, blocked while the loop is `reading`)
  close(c)  Lock; if !isOpen {Unlock; return NOT_OPEN}            -> `atSignal` (yield point adapter.close.presignal)
            closeSignal <- {}; transport.Close(); closeChan <- c; close(closeChan);
            monitor <- c (non-blocking); isOpen = false; Unlock   (second action; blocks while closeSignal is full)
  readLoop  readFrame fails -> `onerror` (yield point adapter.readloop.onerror)
            select closeSignal: token -> return | default -> EOF ? Close() : close(err)
            Execute fails -> close(err) directly
-/
namespace FV.Adapter

/-- Capacities as written in the code: `make(chan struct{}, 1)`, `make(chan error, 1)` (twice). -/
def closeSignalCap : Nat := 1
def closeChanCap : Nat := 1
def monitorChanCap : Nat := 1

/-- What the next read of the inbound stream yields. -/
inductive Ev where
  | frame      -- a whole well-formed frame
  | garbage    -- a whole frame that `registry.Execute` rejects
  | eof        -- END_OF_FILE (at a frame boundary or inside a frame: same type by the time it reaches the loop)
  | err        -- any other read error (read failure, oversized header, transport closed under the reader)
  deriving DecidableEq, Repr

/-- Who asked for a close. -/
inductive Closer where
  | user       -- `Close()`
  | peerEof    -- read loop after END_OF_FILE: `f.Close()`
  | failure    -- read loop after another error / Execute error: `f.close(err)`
  deriving DecidableEq, Repr

/-- The value published on `Closed()` and sent to the monitor: nil or an error. -/
inductive Cause where
  | clean | dirty
  deriving DecidableEq, Repr

/-- The code's classification: nil for `Close()` and for EOF, the error otherwise. -/
def Closer.cause : Closer → Cause
  | .user => .clean
  | .peerEof => .clean
  | .failure => .dirty

inductive Pid where
  | call (i : Nat)
  | loop (k : Nat)
  deriving DecidableEq, Repr

inductive LPc where
  | reading
  | onerror (ev : Ev)
  | closing (w : Closer)     -- about to call close(): waits for the mutex
  | atSignal (w : Closer)    -- holds the mutex, before `closeSignal <-`
  | done
  deriving DecidableEq, Repr

structure Inc where
  sig : Nat                  -- tokens in this incarnation's closeSignal (repaired code)
  chan : List Cause          -- values sent on its closeChan
  chanClosed : Bool
  closedBy : Option Closer   -- ghost: who closed it
  loop : LPc
  delivered : Nat            -- ghost: frames handed to the registry
  deriving DecidableEq, Repr

inductive Kind where
  | open | close | isOpen
  deriving DecidableEq, Repr

inductive Ret where
  | ok | alreadyOpen | notOpen | other | bool (b : Bool)
  deriving DecidableEq, Repr

inductive CPc where
  | start | atSignal | done (r : Ret)
  deriving DecidableEq, Repr

structure Call where
  kind : Kind
  pc : CPc
  deriving DecidableEq, Repr

structure Sys where
  fresh : Bool
  guarded : Bool             -- IsOpen asks the underlying transport only once the read loop has returned (repaired code)
  isOpen : Bool
  mu : Option Pid
  sharedSig : Nat            -- the single closeSignal of the code before the repair
  incs : List Inc
  calls : List Call
  mon : Option (List Cause)  -- monitor channel buffer; none = no monitor set
  monLog : List Cause        -- ghost: values the runner received
  monSent : Nat              -- ghost: closes that put a value into the monitor channel
  monDropped : Nat           -- ghost: closes whose non-blocking send found the channel full
  panicked : Bool            -- close of a closed channel
  deriving DecidableEq, Repr

def init (fresh : Bool) (guarded : Bool := true) : Sys :=
  { fresh := fresh, guarded := guarded, isOpen := false, mu := none, sharedSig := 0, incs := [], calls := [],
    mon := none, monLog := [], monSent := 0, monDropped := 0, panicked := false }

inductive Action where
  | invoke (k : Kind)                     -- a goroutine calls Open / Close / IsOpen
  | callStep (i : Nat) (openOk : Bool)    -- call i runs to its next blocking point (openOk: result of the underlying Open)
  | read (k : Nat) (ev : Ev)              -- the blocked read of loop k returns
  | loopStep (k : Nat)
  | setMonitor
  | monRecv                               -- the monitor runner receives from its channel
  deriving DecidableEq, Repr

/-- Index of the current incarnation (the last one). -/
def Sys.cur (s : Sys) : Nat := s.incs.length - 1

/-- Tokens in the closeSignal that incarnation `k`'s read loop selects on. -/
def Sys.sigOf (s : Sys) (k : Nat) : Nat :=
  if s.fresh then (s.incs[k]?.map Inc.sig).getD 0 else s.sharedSig

/-- Tokens in the closeSignal `close()` sends to (`f.closeSignal`). -/
def Sys.curSig (s : Sys) : Nat := s.sigOf s.cur

def Sys.setSig (s : Sys) (k : Nat) (n : Nat) : Sys :=
  if s.fresh then { s with incs := s.incs.modify k fun i => { i with sig := n } }
  else { s with sharedSig := n }

def newInc : Inc := { sig := 0, chan := [], chanClosed := false, closedBy := none, loop := .reading, delivered := 0 }

/-- `transport.Close()`: every read blocked on the transport returns an error. -/
def wake (i : Inc) : Inc := if i.loop = .reading then { i with loop := .onerror .err } else i

/-- `closeChan <- cause` (non-blocking) and `close(closeChan)` on the current incarnation. -/
def publish (w : Closer) (i : Inc) : Inc :=
  { i with chan := if i.chan.length < closeChanCap then i.chan ++ [w.cause] else i.chan,
           chanClosed := true,
           closedBy := if i.closedBy.isNone then some w else i.closedBy }

/-- `select { case f.monitorCloseSignal <- cause: default: }` -/
def notifyMon (s : Sys) (c : Cause) : Sys :=
  match s.mon with
  | none => s
  | some buf =>
    if buf.length < monitorChanCap then { s with mon := some (buf ++ [c]), monSent := s.monSent + 1 }
    else { s with monDropped := s.monDropped + 1 }

/-- The second half of `close(cause)`, executed holding the mutex:
`closeSignal <- {}`; `transport.Close()`; publish; notify the monitor; `isOpen = false`; `Unlock`. -/
def doClose (s : Sys) (w : Closer) : Sys :=
  let k := s.cur
  let already := (s.incs[k]?.map Inc.chanClosed).getD false
  let s1 := s.setSig k (s.curSig + 1)
  let s2 := { s1 with incs := (s1.incs.map wake).modify k (publish w), panicked := s1.panicked || already }
  let s3 := notifyMon s2 w.cause
  { s3 with isOpen := false, mu := none }

def setLoop (s : Sys) (k : Nat) (pc : LPc) : Sys :=
  { s with incs := s.incs.modify k fun i => { i with loop := pc } }

def setCall (s : Sys) (i : Nat) (pc : CPc) : Sys :=
  { s with calls := s.calls.modify i fun c => { c with pc := pc } }

def step (s : Sys) : Action → Option Sys
  | .invoke kd => some { s with calls := s.calls ++ [⟨kd, .start⟩] }
  | .callStep i openOk =>
    match s.calls[i]? with
    | some ⟨.open, .start⟩ =>
      if s.mu.isSome then none
      else if s.isOpen then some (setCall s i (.done .alreadyOpen))
      else if !openOk then some (setCall s i (.done .other))
      else some (setCall { s with isOpen := true, incs := s.incs ++ [newInc] } i (.done .ok))
    | some ⟨.isOpen, .start⟩ =>
      if s.mu.isSome then none
      else if s.isOpen && (if s.guarded then decide (s.incs[s.incs.length - 1]?.map Inc.loop = some .done) else true) then
        -- `f.transport.IsOpen()`: an environment call made holding the read lock (the model's one
        -- mutex stands for the RWMutex; readers excluding each other only matters here)
        some (setCall { s with mu := some (.call i) } i .atSignal)
      else some (setCall s i (.done (.bool s.isOpen)))
    | some ⟨.isOpen, .atSignal⟩ =>
      -- inside thrift's TSocket.IsOpen: the connectivity check reads from the fd and waits for a pending Read
      if s.incs[s.incs.length - 1]?.map Inc.loop = some .reading then none
      else some (setCall { s with mu := none } i (.done (.bool s.isOpen)))
    | some ⟨.close, .start⟩ =>
      if s.mu.isSome then none
      else if !s.isOpen then some (setCall s i (.done .notOpen))
      else some (setCall { s with mu := some (.call i) } i .atSignal)
    | some ⟨.close, .atSignal⟩ =>
      if s.curSig < closeSignalCap then some (setCall (doClose s .user) i (.done .ok)) else none
    | _ => none
  | .read k ev =>
    match s.incs[k]?.map Inc.loop with
    | some .reading =>
      match ev with
      | .frame => some { s with incs := s.incs.modify k fun i => { i with delivered := i.delivered + 1 } }
      | .garbage => some (setLoop s k (.closing .failure))
      | e => some (setLoop s k (.onerror e))
    | _ => none
  | .loopStep k =>
    match s.incs[k]?.map Inc.loop with
    | some (.onerror ev) =>
      if s.sigOf k > 0 then some (setLoop (s.setSig k (s.sigOf k - 1)) k .done)
      else some (setLoop s k (.closing (if ev = .eof then .peerEof else .failure)))
    | some (.closing w) =>
      if s.mu.isSome then none
      else if !s.isOpen then some (setLoop s k .done)
      else some (setLoop { s with mu := some (.loop k) } k (.atSignal w))
    | some (.atSignal w) =>
      if s.curSig < closeSignalCap then some (setLoop (doClose s w) k .done) else none
    | _ => none
  | .setMonitor =>
    match s.mon with
    | none => some { s with mon := some [] }
    | some _ => none
  | .monRecv =>
    match s.mon with
    | some (c :: rest) => some { s with mon := some rest, monLog := s.monLog ++ [c] }
    | _ => none

/-- Run an action list; `none` if some action was not enabled. -/
def run (s : Sys) : List Action → Option Sys
  | [] => some s
  | a :: as => (step s a).bind fun s' => run s' as

/-- Reachable states of the repaired code. -/
def Reachable (s : Sys) : Prop := ∃ as, run (init true) as = some s

/-- The action by which a goroutine continues. -/
def Pid.act : Pid → Action
  | .call i => .callStep i true
  | .loop k => .loopStep k

def Sys.loopPc (s : Sys) (k : Nat) : Option LPc := s.incs[k]?.map Inc.loop

/-- Incarnation `k` is the open one. -/
def Sys.openAt (s : Sys) (k : Nat) : Prop := s.isOpen = true ∧ k + 1 = s.incs.length

instance (s : Sys) (k : Nat) : Decidable (s.openAt k) := by unfold Sys.openAt; infer_instance

end FV.Adapter
