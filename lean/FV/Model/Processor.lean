/-
Model of the server side of one request (C14):

  process            FBaseProcessor.Process (lib/go/processor.go) followed by the emitted
                     per-method processor function (compiler/generator/golang/generator.go,
                     generateMethodProcessor) with FBaseProcessorFunction.SendReply/SendError
  processAll         a sequence of requests handled one after the other by one processor
  processConn        the same on ONE connection: the loop of FSimpleServer.accept over one input stream
  Sys / step / run   n goroutines writing the chunks of their replies to one shared output
                     protocol, each holding `writeMu` from its first to its last chunk

What a request is, as far as the code looks at it:

  * the outcome of `readHeader` on its header block (`Res Hdrs`; `_opid` must be present),
  * whether `ReadMessageBegin` succeeds, and the method name it yields
    (message type and sequence id are read and IGNORED by `Process`: `name, _, _, err :=`),
  * whether the method's `args.Read` succeeds (`readable`), and whether `Skip(STRUCT)`
    succeeds (`skippable`; only attempted when the method is unknown, and since the fix
    "FBaseProcessor answers an unknown-method request even when its arguments cannot be
    skipped" without influence on the answer).

What the handler does is a parameter (`HOutcome`), so every statement quantifies over it.

Facts of the code that are kept as they are:
  * replies always carry sequence id 0;
  * the response headers are `_opid` (the request's value, echoed as a string, never parsed)
    and `_cid` when the request had a non-empty one;
  * a ONEWAY method sends nothing when its handler succeeds, but the emitted code sends an
    EXCEPTION message when the arguments are unreadable or the handler fails;
  * an exception type returned by the handler that the method does not declare is an
    "other error" (the `default:` arm of the emitted type switch).
Core Lean only.
-/
import FV.Basic
import FV.Model.Headers
import FV.Model.Registry0

namespace FV.Proc

inductive MsgKind where
  | reply | exception
  deriving DecidableEq, Repr

/-- `thrift.UNKNOWN_METHOD`, `thrift.INTERNAL_ERROR`, `thrift.PROTOCOL_ERROR`. -/
def exUnknownMethod : Int := 1
def exInternalError : Int := 6
def exProtocolError : Int := 7
/-- `APPLICATION_EXCEPTION_RESPONSE_TOO_LARGE`. -/
def exResponseTooLarge : Int := 100

/-- What the body of a reply message is. -/
inductive PayloadTag where
  | success (v : Bytes)      -- result struct carrying the handler's return value
  | declared (field : Nat)   -- result struct carrying the declared exception in field `field`
  | appEx                    -- a TApplicationException struct
  deriving DecidableEq, Repr

structure ReplyMsg where
  opId : Bytes       -- value of the `_opid` response header
  hdrs : Hdrs        -- all response headers
  kind : MsgKind
  exType : Int       -- TApplicationException type (0 for a REPLY)
  method : Bytes
  seqid : Int
  payload : PayloadTag
  deriving DecidableEq, Repr

/-- What the user's handler returns. -/
inductive HOutcome where
  | success (v : Bytes)
  | declared (field : Nat)   -- an exception struct; `field` = its field id in a result struct that declares it
  | appEx (t : Int)          -- a thrift.TApplicationException of type `t`
  | other                    -- any other error
  deriving DecidableEq, Repr

structure MethodSpec where
  oneway : Bool
  throws : List Nat          -- field ids of the declared exceptions
  deriving DecidableEq, Repr

/-- `FBaseProcessor.processMap`. -/
abbrev ProcMap := List (Bytes × MethodSpec)

def ProcMap.find? : ProcMap → Bytes → Option MethodSpec
  | [], _ => none
  | (k, m) :: t, n => if k = n then some m else ProcMap.find? t n

/-- `AddToProcessorMap`. -/
def ProcMap.add : ProcMap → Bytes → MethodSpec → ProcMap
  | [], k, m => [(k, m)]
  | (k', m') :: t, k, m => if k' = k then (k, m) :: t else (k', m') :: ProcMap.add t k m

structure Args where
  readable : Bool     -- the method's generated `args.Read` returns nil
  skippable : Bool    -- `iprot.Skip(STRUCT)` + `ReadMessageEnd` return nil
  deriving DecidableEq, Repr

/-- What the output protocol of this request does with the reply. -/
inductive OutCond where
  | healthy    -- every write succeeds
  | tooSmall   -- a bounded buffer (`TMemoryOutputBuffer`, NATS server) that the REPLY message — or, for an
               -- unknown method, the UNKNOWN_METHOD message echoing the name — does not fit; the overflowing
               -- write empties the buffer and returns REQUEST_TOO_LARGE. Every other EXCEPTION message fits.
  | fails      -- the peer is gone: a `Write` or the `Flush` of the reply returns an error
  deriving DecidableEq, Repr

structure Request where
  hdr : Res Hdrs      -- `readHeader` on the request's header block
  envOk : Bool        -- `ReadMessageBegin` returns nil
  method : Bytes
  msgType : Nat       -- read, ignored
  seqid : Int         -- read, ignored
  args : Args
  out : OutCond

/-- The response headers `ReadRequestHeader` prepares: the op id, and the correlation id if non-empty. -/
def respHdrs (h : Hdrs) (opid : Bytes) : Hdrs :=
  (opIdHeader, opid) ::
    (match h.get? cidHeader with
     | some c => if c = [] then [] else [(cidHeader, c)]
     | none => [])

def mkException (h : Hdrs) (opid : Bytes) (method : Bytes) (t : Int) : ReplyMsg :=
  ⟨opid, respHdrs h opid, .exception, t, method, 0, .appEx⟩

def mkReply (h : Hdrs) (opid : Bytes) (method : Bytes) (p : PayloadTag) : ReplyMsg :=
  ⟨opid, respHdrs h opid, .reply, 0, method, 0, p⟩

/-- The emitted per-method processor function, after the arguments were read. -/
def methodReply (ms : MethodSpec) (h : Hdrs) (opid name : Bytes) (ho : HOutcome) : List ReplyMsg :=
  match ho with
  | .appEx t => [mkException h opid name t]
  | .other => [mkException h opid name exInternalError]
  | .declared f =>
    if ms.oneway then [mkException h opid name exInternalError]
    else if f ∈ ms.throws then [mkReply h opid name (.declared f)]
    else [mkException h opid name exInternalError]
  | .success v => if ms.oneway then [] else [mkReply h opid name (.success v)]

/-- `FBaseProcessor.Process(iprot, oprot)` for one request: the messages written to the
output protocol and the error returned to the server loop. -/
def process (pm : ProcMap) (rq : Request) (ho : HOutcome) : List ReplyMsg × Res Unit :=
  match rq.hdr with
  | .err e => ([], .err e)
  | .panic p => ([], .panic p)
  | .ok h =>
    match h.get? opIdHeader with
    | none => ([], .err .invalidData)                 -- "frugal: request missing op id"
    | some opid =>
      if !rq.envOk then ([], .err .other) else        -- ReadMessageBegin failed
      match pm.find? rq.method with
      | none =>
        -- unknown method: the arguments are skipped when they can be (a failure is logged); the
        -- caller is answered either way. The message is written under `writeMu`; a failing write
        -- (dead peer, or the message does not fit a bounded buffer, which is emptied) is returned.
        match rq.out with
        | .healthy => ([mkException h opid rq.method exUnknownMethod], .ok ())
        | _ => ([], .err .other)
      | some ms =>
        let msgs :=
          if !rq.args.readable then [mkException h opid rq.method exProtocolError]
          else methodReply ms h opid rq.method ho
        match rq.out with
        | .healthy => (msgs, .ok ())
        -- SendReply / trapError: the overflowing REPLY is dropped from the (emptied) buffer and
        -- replaced by one RESPONSE_TOO_LARGE exception
        | .tooSmall => (msgs.map fun m =>
            if m.kind = .reply then mkException h opid rq.method exResponseTooLarge else m, .ok ())
        -- the error of SendReply / SendError is logged by `Process`, which returns nil
        | .fails => ([], .ok ())

/-- A sequence of requests handled by one processor, each with its handler outcome. The
processor keeps no state between requests (the process map is read-only after construction). -/
def processAll (pm : ProcMap) (rs : List (Request × HOutcome)) : List (List ReplyMsg × Res Unit) :=
  rs.map fun r => process pm r.1 r.2

/-- Does handling this request leave the input of a connection exactly at the first byte of
the next request? Yes when header block and envelope were read and the argument struct was
consumed to its end: by `Skip` (unknown method), or by the method's `Read` — which has read the
whole struct when it succeeds, and also when it fails only after the struct's end (a missing
required field; then `Skip` would have succeeded too). What the handler does plays no role. -/
def positionKept (pm : ProcMap) (rq : Request) : Bool :=
  match rq.hdr with
  | .ok h =>
    (h.get? opIdHeader).isSome && rq.envOk &&
      (match pm.find? rq.method with
       | none => rq.args.skippable
       | some _ => rq.args.readable || rq.args.skippable)
  | _ => false

/-- The per-connection loop (`FSimpleServer.accept`; any server that feeds one input protocol
to `Process` repeatedly): requests are handled one after the other while `Process` returns nil.
On an error the loop ends (the connection is closed). After a request that did not leave the
input at the next request nothing is claimed about what follows: the model stops there too. -/
def processConn (pm : ProcMap) : List (Request × HOutcome) → List (List ReplyMsg × Res Unit)
  | [] => []
  | r :: t =>
    let o := process pm r.1 r.2
    if o.2.isOk && positionKept pm r.1 then o :: processConn pm t else [o]

/-! ### User-supplied code that PANICS inside the request path, and the write mutex

User code runs at five places of a request: the arguments' `Read`, a middleware before and
after the handler, the handler, and the result's `Write`. Only the last runs while `writeMu` is
held (inside `SendReply`). A panic unwinds `Process`; an embedding that recovers per request
(net/http; any caller with `recover`) goes on serving. `SendReply` releases the mutex with
`defer`, so the unwinding releases it too — `Exits.deferred` is the code, `Exits.manual`
(Lock(); …; Unlock()) is the variant in which a panic under the mutex leaves it locked. -/

inductive PanicPos where
  | argsRead | mwBefore | handler | mwAfter
  | resultWrite (k : Nat)    -- after k protocol writes of the result struct
  deriving DecidableEq, Repr

def PanicPos.underMutex : PanicPos → Bool
  | .resultWrite _ => true
  | _ => false

inductive Exits where
  | deferred | manual
  deriving DecidableEq, Repr

/-- A request, what its handler returns, and where (if anywhere) user code panics. -/
structure MuReq where
  rq : Request
  ho : HOutcome
  panicAt : Option PanicPos

/-- Is the scripted panic position reached at all? (An unknown method runs no user code; an
unreadable argument struct is answered before the handler runs; `result.Write` runs only for a
REPLY of a two-way method.) -/
def panicReached (pm : ProcMap) (r : MuReq) (p : PanicPos) : Bool :=
  match r.rq.hdr with
  | .ok h =>
    (h.get? opIdHeader).isSome && r.rq.envOk &&
      (match pm.find? r.rq.method with
       | none => false
       | some ms =>
         match p with
         | .argsRead => true
         | .resultWrite _ => r.rq.args.readable && (methodReply ms h [] r.rq.method r.ho).any (·.kind = .reply)
         | _ => r.rq.args.readable)
  | _ => false

inductive MuEnd where
  | returned (r : List ReplyMsg × Res Unit)   -- `Process` returned
  | panicked                                  -- unwound by a panic (recovered by the embedding)
  | blocked                                   -- waits for `writeMu` for ever
  deriving DecidableEq, Repr

/-- Does the request write a message, i.e. take `writeMu`? -/
def takesMutex (pm : ProcMap) (r : MuReq) : Bool :=
  !(process pm r.rq r.ho).1.isEmpty || r.rq.out != .healthy

/-- One request against the mutex (`locked` = held by nobody who will ever release it). -/
def serveOne (ex : Exits) (pm : ProcMap) (locked : Bool) (r : MuReq) : MuEnd × Bool :=
  match r.panicAt with
  | some p =>
    if panicReached pm r p then
      if p.underMutex then
        if locked then (.blocked, locked)
        else (.panicked, ex = .manual)         -- deferred Unlock runs while unwinding; a manual one is skipped
      else (.panicked, locked)
    else if locked && takesMutex pm r then (.blocked, locked)
    else (.returned (process pm r.rq r.ho), locked)
  | none =>
    if locked && takesMutex pm r then (.blocked, locked)
    else (.returned (process pm r.rq r.ho), locked)

/-- Requests served one after the other by ONE processor (any connections, any server). -/
def serveAll (ex : Exits) (pm : ProcMap) (locked : Bool) : List MuReq → List MuEnd
  | [] => []
  | r :: t => (serveOne ex pm locked r).1 :: serveAll ex pm (serveOne ex pm locked r).2 t

/-! ### Concurrent writers of one output protocol -/

inductive GState where
  | idle                     -- has not taken `writeMu` yet
  | holding (written : Nat)  -- holds `writeMu`, has written this many chunks of its reply
  | done                     -- has released `writeMu`
  deriving DecidableEq, Repr

/-- `n` goroutines; goroutine `g` has the reply `reply g` to send, as the list of the byte
chunks its `Write` calls carry (header block, message begin, fields, …). -/
structure Sys where
  n : Nat
  reply : Nat → List Bytes
  st : Nat → GState
  holder : Option Nat        -- who holds `writeMu`
  out : Bytes                -- what the shared transport has received
  fin : List Nat             -- history: goroutines that released the mutex, in that order

inductive Action where
  | lock (g : Nat) | writeChunk (g : Nat) | unlock (g : Nat)
  deriving DecidableEq, Repr

def upd (f : Nat → GState) (g : Nat) (v : GState) : Nat → GState := fun i => if i = g then v else f i

def Sys.init (n : Nat) (reply : Nat → List Bytes) : Sys := ⟨n, reply, fun _ => .idle, none, [], []⟩

/-- One step of one goroutine; `none` = the action is not enabled (the goroutine is blocked on
`writeMu.Lock()`, or is not at that point of its program). -/
def step (s : Sys) : Action → Option Sys
  | .lock g =>
    if g < s.n ∧ s.holder = none ∧ s.st g = .idle then
      some { s with holder := some g, st := upd s.st g (.holding 0) }
    else none
  | .writeChunk g =>
    if s.holder = some g then
      match s.st g with
      | .holding w =>
        match (s.reply g)[w]? with
        | some c => some { s with out := s.out ++ c, st := upd s.st g (.holding (w + 1)) }
        | none => none
      | _ => none
    else none
  | .unlock g =>
    if s.holder = some g ∧ s.st g = .holding (s.reply g).length then
      some { s with holder := none, st := upd s.st g .done, fin := s.fin ++ [g] }
    else none

def run (s : Sys) : List Action → Option Sys
  | [] => some s
  | a :: as => match step s a with
    | some s' => run s' as
    | none => none

/-- The bytes of goroutine `g`'s whole reply. -/
def Sys.whole (s : Sys) (g : Nat) : Bytes := (s.reply g).flatten

/-- The part of the current lock holder's reply that is already on the output. -/
def Sys.partialOut (s : Sys) : Bytes :=
  match s.holder with
  | none => []
  | some g => match s.st g with
    | .holding w => ((s.reply g).take w).flatten
    | _ => []

end FV.Proc
