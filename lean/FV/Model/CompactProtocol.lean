/-
Byte-level model of Apache Thrift's COMPACT protocol as the emitted Go code uses it (C02):

  github.com/apache/thrift@v0.19.0/lib/go/thrift/compact_protocol.go   Write* / Read* methods,
      writeVarint32/64, readVarint64, int32ToZigzag / zigzagToInt32, writeFieldBeginInternal,
      writeCollectionBegin, getCompactType / getTType

configuration = `thrift.NewTCompactProtocolFactoryConf(nil)`. Unlike the binary protocol this one
has STATE: the id of the last field written/read in the current struct and a stack of them for the
enclosing structs (field headers carry the DELTA to the previous id in their high nibble), a bool
field's header is written only when its value arrives (the value is folded into the type nibble),
and on reading the value found in a bool field's header is kept for the `ReadBool` that follows.
`CW` / `CR` are those parts of `TCompactProtocol` on the writing / reading side.

Arithmetic reading of the Go bit operations (all operands within their Go types):
  `(n << 1) ^ (n >> 31)` on int32 (>> arithmetic), as uint32   = `zigzag n`
  `int32(u>>1) ^ -(n&1)` with `u = uint32(n)`                  = `unzigzag u`
  the `& 0x7F | 0x80`, `>> 7` loop of writeVarint              = `uvarint` (base-128 digits, least first)
  `result |= int64(b&0x7f) << shift`                           = a sum (the shifted groups are disjoint), mod 2^64
-/
import FV.Model.BinaryProtocol

namespace FV.Thrift

/-! ### varint, zigzag -/

/-- `writeVarint32(n)` / `writeVarint64(n)` on `u = uint32(n)` / `uint64(n)`. -/
def uvarint (u : Nat) : Bytes :=
  if u < 128 then [UInt8.ofNat u] else UInt8.ofNat (u % 128 + 128) :: uvarint (u / 128)
termination_by u
decreasing_by omega

/-- The loop of `readVarint64` (`shift`, `acc` = its two variables, before truncation to 64 bits). -/
def uvarintDec : Bytes → Nat → Nat → Res (Nat × Bytes)
  | [], _, _ => .err .eof
  | b :: r, shift, acc =>
    if b.toNat < 128 then .ok (acc + b.toNat % 128 * 2 ^ shift, r)
    else uvarintDec r (shift + 7) (acc + b.toNat % 128 * 2 ^ shift)

/-- `readVarint64()`, as the 64 bits of the result. -/
def readVarint64 (bs : Bytes) : Res (Nat × Bytes) :=
  match uvarintDec bs 0 0 with
  | .ok (v, r) => .ok (v % 18446744073709551616, r)
  | .err e => .err e
  | .panic p => .panic p

/-- `readVarint32()` = `int32(readVarint64())`, as the 32 bits of the result. -/
def readVarint32 (bs : Bytes) : Res (Nat × Bytes) :=
  match readVarint64 bs with
  | .ok (v, r) => .ok (v % 4294967296, r)
  | .err e => .err e
  | .panic p => .panic p

/-- `int32ToZigzag` / `int64ToZigzag`, as an unsigned number. -/
def zigzag (z : Int) : Nat := if 0 ≤ z then (2 * z).toNat else (-2 * z - 1).toNat

/-- `zigzagToInt32` / `zigzagToInt64` of the unsigned bits. -/
def unzigzag (u : Nat) : Int := if u % 2 = 0 then ((u / 2 : Nat) : Int) else -((u / 2 : Nat) : Int) - 1

/-- `ttypeToCompactType[t]` (a Go map: 0 for a TType it does not contain). -/
def ctype : Nat → Nat
  | 0 => 0 | 2 => 1 | 3 => 3 | 4 => 7 | 6 => 4 | 8 => 5 | 10 => 6 | 11 => 8
  | 12 => 12 | 13 => 11 | 14 => 10 | 15 => 9 | 16 => 13 | _ => 0

/-- `getTType` of a nibble (`none` = "don't know what type"). -/
def ttypeOf : Nat → Option Nat
  | 0 => some 0 | 1 => some 2 | 2 => some 2 | 3 => some 3 | 4 => some 6 | 5 => some 8 | 6 => some 10
  | 7 => some 4 | 8 => some 11 | 9 => some 15 | 10 => some 14 | 11 => some 13 | 12 => some 12
  | 13 => some 16 | _ => none

/-! ### writing -/

/-- Writer side of `TCompactProtocol`: `lastField`, `lastFieldId`, and the id of a bool field whose
header is pending (`booleanFieldPending`, `booleanFieldId`). -/
structure CW where
  stack : List Int
  last : Int
  pend : Option Int
  deriving Repr, DecidableEq

def CW.init : CW := ⟨[], 0, none⟩

/-- `writeFieldBeginInternal` with type nibble `nib`: short form `delta<<4 | nib` when
`0 < id - last ≤ 15`, else the nibble byte followed by `WriteI16(id)`. -/
def cmpFieldHdr (last : Int) (nib : Nat) (id : Int) : Bytes :=
  if id > last ∧ id - last ≤ 15 then [UInt8.ofNat ((id - last).toNat * 16 + nib)]
  else UInt8.ofNat nib :: uvarint (zigzag id)

def cmpCollHdr (tt n : Nat) : Bytes :=
  if n ≤ 14 then [UInt8.ofNat (n * 16 + ctype tt)]
  else UInt8.ofNat (240 + ctype tt) :: uvarint (n % 4294967296)

/-- One Write* call: bytes put on the transport and the new protocol state. -/
def cmpWrite (w : CW) : Event → Res (Bytes × CW)
  | .sb _ => .ok ([], { w with stack := w.last :: w.stack, last := 0 })
  | .se => match w.stack with
    | [] => .err .invalidData
    | l :: s => .ok ([], { w with stack := s, last := l })
  | .fb _ tt id =>
    if tt = 2 then .ok ([], { w with pend := some id })
    else .ok (cmpFieldHdr w.last (ctype tt) id, { w with last := id })
  | .fe => .ok ([], w) | .me => .ok ([], w) | .le => .ok ([], w) | .te => .ok ([], w)
  | .fs => .ok ([0], w)
  | .mb kt vt n =>
    if n = 0 then .ok ([0], w)
    else .ok (uvarint (n % 4294967296) ++ [UInt8.ofNat (ctype kt * 16 + ctype vt)], w)
  | .lb tt n => .ok (cmpCollHdr tt n, w)
  | .tb tt n => .ok (cmpCollHdr tt n, w)
  | .bool b =>
    match w.pend with
    | some id => .ok (cmpFieldHdr w.last (if b then 1 else 2) id, { w with last := id, pend := none })
    | none => .ok ([if b then 1 else 2], w)
  | .byte n => .ok ([UInt8.ofNat (toU8 n)], w)
  | .i16 n => .ok (uvarint (zigzag n), w)
  | .i32 n => .ok (uvarint (zigzag n), w)
  | .i64 n => .ok (uvarint (zigzag n), w)
  | .dbl bits => .ok (leBytes 8 bits, w)                 -- binary.LittleEndian.PutUint64
  | .str _ b => .ok (uvarint (b.length % 4294967296) ++ b, w)

/-- The bytes the emitted `Write` puts on the transport through the compact protocol. -/
def cmpEnc (w : CW) : List Event → Res (Bytes × CW)
  | [] => .ok ([], w)
  | e :: es =>
    match cmpWrite w e with
    | .ok (b, w') => (match cmpEnc w' es with
      | .ok (bs, w'') => .ok (b ++ bs, w'')
      | .err x => .err x
      | .panic p => .panic p)
    | .err x => .err x
    | .panic p => .panic p

/-! ### reading -/

/-- Reader side of `TCompactProtocol`: `lastField`, `lastFieldId`, `boolValue` (when
`boolValueIsNotNull`). -/
structure CR where
  stack : List Int
  last : Int
  bool : Option Bool
  deriving Repr, DecidableEq

def CR.init : CR := ⟨[], 0, none⟩

/-- Go `int16(x)` of an int. -/
def wrap16 (z : Int) : Int := toS16 (toU16 z)

/-- `ReadI32`: varint, un-zigzag. -/
def cmpReadI32 (bs : Bytes) : Res (Int × Bytes) :=
  match readVarint32 bs with
  | .ok (u, r) => .ok (unzigzag u, r)
  | .err e => .err e
  | .panic p => .panic p

/-- `readVarint32` followed by `checkSizeForProtocol`. -/
def cmpReadSize (bs : Bytes) : Res (Nat × Bytes) :=
  match readVarint32 bs with
  | .ok (u, r) => (match checkSize (toI32 u) with
    | .ok n => .ok (n, r)
    | .err e => .err e
    | .panic p => .panic p)
  | .err e => .err e
  | .panic p => .panic p

def cmpReadColl (mk : Nat → Nat → Event) (s : CR) (bs : Bytes) : Res (Event × Bytes × CR) :=
  match bs with
  | [] => .err .eof
  | b :: r =>
    let fin (n : Nat) (r' : Bytes) : Res (Event × Bytes × CR) :=
      match ttypeOf (b.toNat % 16) with
      | some tt => .ok (mk tt n, r', s)
      | none => .err .other
    if b.toNat / 16 = 15 then
      (match cmpReadSize r with
      | .ok (n, r') => fin n r'
      | .err e => .err e
      | .panic p => .panic p)
    else fin (b.toNat / 16) r

def cmpReadStr (flag : Bool) (s : CR) (bs : Bytes) : Res (Event × Bytes × CR) :=
  match cmpReadSize bs with
  | .ok (n, r) => (match readN n r with
    | .ok (b, r') => .ok (.str flag b, r', s)
    | .err e => .err e
    | .panic p => .panic p)
  | .err e => .err e
  | .panic p => .panic p

/-- One Read* call: result (as the event a recorder would log), unread input, new state. -/
def cmpRead (s : CR) : Call → Bytes → Res (Event × Bytes × CR)
  | .structBegin, bs => .ok (.sb "", bs, { s with stack := s.last :: s.stack, last := 0 })
  | .structEnd, bs => (match s.stack with
    | [] => .err .invalidData
    | l :: st => .ok (.se, bs, { s with stack := st, last := l }))
  | .fieldEnd, bs => .ok (.fe, bs, s)
  | .mapEnd, bs => .ok (.me, bs, s)
  | .listEnd, bs => .ok (.le, bs, s)
  | .setEnd, bs => .ok (.te, bs, s)
  | .fieldBegin, bs =>
    match bs with
    | [] => .err .eof
    | t :: r =>
      let nib := t.toNat % 16
      if nib = 0 then .ok (.fs, r, s) else
      let fin (id : Int) (r' : Bytes) : Res (Event × Bytes × CR) :=
        match ttypeOf nib with
        | some tt => .ok (.fb "" tt id, r',
            { s with last := id, bool := if nib = 1 ∨ nib = 2 then some (nib = 1) else s.bool })
        | none => .err .other
      if t.toNat / 16 = 0 then
        (match cmpReadI32 r with
        | .ok (v, r') => fin (wrap16 v) r'
        | .err e => .err e
        | .panic p => .panic p)
      else fin (wrap16 (wrap16 s.last + (t.toNat / 16 : Nat))) r
  | .mapBegin, bs =>
    (match cmpReadSize bs with
    | .ok (n, r) =>
      if n = 0 then .ok (.mb 0 0 0, r, s)
      else (match r with
        | [] => .err .eof
        | kv :: r' => .ok (.mb ((ttypeOf (kv.toNat / 16)).getD 0) ((ttypeOf (kv.toNat % 16)).getD 0) n, r', s))
    | .err e => .err e
    | .panic p => .panic p)
  | .listBegin, bs => cmpReadColl (fun tt n => .lb tt n) s bs
  | .setBegin, bs => cmpReadColl (fun tt n => .tb tt n) s bs
  | .bool, bs =>
    (match s.bool with
    | some v => .ok (.bool v, bs, { s with bool := none })
    | none => (match bs with
      | [] => .err .eof
      | b :: r => .ok (.bool (b.toNat = 1), r, s)))
  | .byte, bs => (match bs with
    | [] => .err .eof
    | b :: r => .ok (.byte (toS8 b.toNat), r, s))
  | .i16, bs => (match cmpReadI32 bs with
    | .ok (v, r) => .ok (.i16 (wrap16 v), r, s)
    | .err e => .err e
    | .panic p => .panic p)
  | .i32, bs => (match cmpReadI32 bs with
    | .ok (v, r) => .ok (.i32 v, r, s)
    | .err e => .err e
    | .panic p => .panic p)
  | .i64, bs => (match readVarint64 bs with
    | .ok (u, r) => .ok (.i64 (unzigzag u), r, s)
    | .err e => .err e
    | .panic p => .panic p)
  | .double, bs => (match readN 8 bs with
    | .ok (b, r) => .ok (.dbl (leNat b), r, s)            -- binary.LittleEndian.Uint64
    | .err e => .err e
    | .panic p => .panic p)
  | .string, bs => cmpReadStr false s bs
  | .binary, bs => cmpReadStr true s bs

/-- A sequence of read calls. -/
def cmpReads (s : CR) : List Call → Bytes → Res (List Event × Bytes × CR)
  | [], bs => .ok ([], bs, s)
  | c :: cs, bs =>
    match cmpRead s c bs with
    | .ok (e, r, s') => (match cmpReads s' cs r with
      | .ok (es, r', s'') => .ok (e :: es, r', s'')
      | .err x => .err x
      | .panic p => .panic p)
    | .err x => .err x
    | .panic p => .panic p

/-- What the compact protocol does not carry: struct and field names, and the key/value types of
an EMPTY map (one zero byte). -/
def cmpErase : Event → Event
  | .sb _ => .sb ""
  | .fb _ tt id => .fb "" tt id
  | .mb _ _ 0 => .mb 0 0 0
  | e => e

/-- A TType the compact protocol can carry in a nibble and give back. -/
def cmpTT (tt : Nat) : Prop := ttypeOf (ctype tt) = some tt

instance : DecidablePred cmpTT := fun tt => by unfold cmpTT; exact inferInstance

/-- The write call is one a Go caller can make and the protocol can carry back (cf. `BinFits`); a
field's type is a real one (nibble 0 is the stop marker). Bool FIELDS are constrained by `CmpOK`. -/
def CmpFits : Event → Prop
  | .fb _ tt id => cmpTT tt ∧ ctype tt ≠ 0 ∧ -32768 ≤ id ∧ id < 32768
  | .mb kt vt n => cmpTT kt ∧ cmpTT vt ∧ n ≤ maxMessageSize
  | .lb tt n => cmpTT tt ∧ n ≤ maxMessageSize
  | .tb tt n => cmpTT tt ∧ n ≤ maxMessageSize
  | .byte n => -128 ≤ n ∧ n < 128
  | .i16 n => -32768 ≤ n ∧ n < 32768
  | .i32 n => -2147483648 ≤ n ∧ n < 2147483648
  | .i64 n => -9223372036854775808 ≤ n ∧ n < 9223372036854775808
  | .dbl bits => bits < 18446744073709551616
  | .str _ b => b.length ≤ maxMessageSize
  | _ => True

instance : DecidablePred CmpFits := fun e => by
  cases e <;> simp only [CmpFits] <;> exact inferInstance

/-- Shape of a call sequence the compact protocol round-trips: every call fits, and the header of a
bool field is immediately followed by its value (as in everything the emitted `Write` produces:
a field of wire type BOOL holds a bool). -/
def cmpOKb : List Event → Bool
  | [] => true
  | .fb _ 2 id :: .bool _ :: es => decide (-32768 ≤ id ∧ id < 32768) && cmpOKb es
  | .fb _ 2 _ :: _ => false
  | e :: es => decide (CmpFits e) && cmpOKb es

def CmpOK (es : List Event) : Prop := cmpOKb es = true

instance : DecidablePred CmpOK := fun es => by unfold CmpOK; exact inferInstance

/-- `WriteStructEnd` / `ReadStructEnd` never come without their `…Begin` (`depth` = structs open). -/
def cmpBalanced : Nat → List Event → Bool
  | _, [] => true
  | k, .sb _ :: es => cmpBalanced (k + 1) es
  | 0, .se :: _ => false
  | k + 1, .se :: es => cmpBalanced k es
  | k, _ :: es => cmpBalanced k es

end FV.Thrift
