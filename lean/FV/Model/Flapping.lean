/-
The monitor runner as the consumer of the monitor channel, under a FLAPPING peer (C15).

What the driver steps for a history with an open script (`Driver/Adapter.lean`: `openScript`,
`flapNewLoop`, the monitor channel of `FV.Adapter`) reduced to what matters here: the transport is
open or closed; every actual failure of an open transport closes it and offers ONE cause to the
monitor channel (capacity 1, non-blocking send: `notifyMon`); the runner takes one cause at a time
(`monRecv`), calls `OnClosedUncleanly` and runs `attemptReopen` over the script of the next
underlying Opens: refused / accepted-and-dies-at-once / healthy. A connection that dies at once IS a
failure of an open transport: its read loop closes the transport and offers its cause before the
runner's `IsOpen()` sanity check, which only logs; the runner then reports success and goes back to
its channel. While the runner handles a report the transport is closed and nothing else can fail
(one action `handle`).
-/
import FV.Model.Monitor

namespace FV.Flapping
open FV.Monitor

/-- Outcome of one underlying `Open()` made by the runner. -/
inductive Outcome where
  | refused          -- Open returns an error
  | flap             -- Open succeeds, the connection dies at once (lifetime 0)
  | healthy          -- Open succeeds, the connection lives until the environment fails it
  deriving DecidableEq, Repr

inductive Result where
  | gaveUp | flapped | healthy
  deriving DecidableEq, Repr

/-- `attemptReopen` over the script: how it ends and what is left of the script. An exhausted
script means the peer is healthy. -/
def reopen (p : Policy) : List Outcome → Int → Nat → Result × List Outcome
  | [], _, _ => (.healthy, [])
  | .healthy :: r, _, _ => (.healthy, r)
  | .flap :: r, _, _ => (.flapped, r)
  | .refused :: r, w, prev =>
    let rw := p.onReopenFailed (prev + 1) w
    if rw.1 then reopen p r rw.2 (prev + 1) else (.gaveUp, r)

structure Sys where
  isOpen : Bool
  byMonitor : Bool      -- the open incarnation was (re)opened by the monitor
  alive : Bool          -- the runner goroutine has not returned
  chan : Nat            -- causes waiting in the monitor channel (capacity 1)
  script : List Outcome
  failures : Nat        -- ghost: actual failures of an open transport
  reports : Nat         -- ghost: close reports the runner has handled (OnClosedUncleanly calls)
  dropped : Nat         -- ghost: causes the non-blocking send found no room for
  deriving DecidableEq, Repr

/-- An application-opened transport with a monitor set, runner idle. -/
def init (script : List Outcome) : Sys :=
  { isOpen := true, byMonitor := false, alive := true, chan := 0, script := script,
    failures := 0, reports := 0, dropped := 0 }

inductive Act where
  | fail       -- the environment fails the open transport (read error, reset, …)
  | handle     -- the runner takes a cause and handles it to the end
  | appOpen    -- the application reopens a closed transport itself
  deriving DecidableEq, Repr

/-- `select { case monitorCloseSignal <- cause: default: }` -/
def post (s : Sys) : Sys :=
  if s.chan < 1 then { s with chan := s.chan + 1 } else { s with dropped := s.dropped + 1 }

def step (p : Policy) (s : Sys) : Act → Sys
  | .fail =>
    if s.isOpen then post { s with isOpen := false, failures := s.failures + 1 } else s
  | .appOpen =>
    if s.isOpen then s else { s with isOpen := true, byMonitor := false }
  | .handle =>
    if !s.alive || s.chan = 0 then s
    else
      let s := { s with chan := s.chan - 1, reports := s.reports + 1 }
      if s.isOpen then
        -- somebody else reopened it: every attempt answers ALREADY_OPEN; the runner spends its
        -- budget (or never stops) and no longer serves this transport
        { s with alive := false }
      else if !p.onClosedUncleanly.1 then { s with alive := false }
      else
        match reopen p s.script p.onClosedUncleanly.2 0 with
        | (.gaveUp, r) => { s with alive := false, script := r }
        | (.healthy, r) => { s with isOpen := true, byMonitor := true, script := r }
        | (.flapped, r) =>
          -- Open succeeded, the connection died at once: a failure of an open transport, its cause is
          -- offered to the channel before the sanity check; OnReopenSucceeded; back to the channel
          post { s with isOpen := false, byMonitor := true, failures := s.failures + 1, script := r }

def run (p : Policy) (s : Sys) : List Act → Sys
  | [] => s
  | a :: as => run p (step p s a) as

end FV.Flapping
