/-
C11 — the shared front half of the compiler pipeline, as a model with explicit failure.

What is modelled (after the two `fix:` commits the model was written together with):
* Go string helpers used on identifiers (`strings.Split`, `strings.ToUpper` on ASCII,
  `s[i]`, `s[:n]`) with Go's run-time checks: an index or slice expression out of range is the
  outcome `CRes.panic`, not a default value.
* `compiler/generator/golang`: `snakeToCamel`, `title`, `titleServiceName`,
  `includeNameToReference`; `compiler/parser`: `LowercaseFirstLetter`; `compiler`: `CleanGenParam`.
* `compiler/parser/types.go`: `Type.IncludeName/ParamName`, `isValidType`, `validate` and all its
  parts in the order of the code (first error wins), the typedef step shared by `UnderlyingType`
  and the cycle check of `validateTypedefs`, `UnderlyingType` itself (fuelled: running out of
  fuel is the outcome `panic stackOverflow`).
* `compiler/parser/parser.go`: `parseFrugal`'s include traversal (bad include name, missing file,
  circular include, includes validated before the including file).

Abstractions (checked by the harness on every run, op `val`/`und`/casing ops):
* Identifiers are `List Char`; the parser only yields ASCII identifiers and the harness only
  generates ASCII, `toUpperC`/`toLowerC` are exact there.
* All files of a program live in one directory; an include value is `<name>.frugal`.
* A constant's value is abstracted to "an identifier (reference)" or "a literal".
* `File.vendorWild` abstracts "some `namespace *` carries a `vendor` annotation".
Core Lean only (linked into the driver).
-/
import FV.Basic

namespace FV.Compile

abbrev Name := List Char

/-- Error classes of `validate` / `parseFrugal` (messages are not compared). -/
inductive VErr where
  | dupService | conflictService | dupMethod | conflictMethod
  | dupScope | conflictScope | dupOp | conflictOp
  | vendorWildcard | dupInclude
  | constType | constRef | constRefInclude | constRefIncluded | constRefEnum | constName
  | typedefType | typedefCycle
  | fieldType | dupFieldId
  | retType | argType | excType | onewayThrows | onewayReturns | dupArgId
  | opType
  | badIncludeName | missingInclude | circularInclude
  | unknownOption
  deriving DecidableEq, Repr, Inhabited

/-- Ways the modelled Go code can crash. `stackOverflow` is fatal in Go (not recoverable). -/
inductive CPanic where
  | index | slice | stackOverflow
  | typeAssert   -- `x.(T)` on a value of another dynamic type
  | explicit     -- a `panic("…")` call of the code
  deriving DecidableEq, Repr, Inhabited

/-- Result of a modelled compiler function. -/
inductive CRes (α : Type) where
  | ok (a : α)
  | err (e : VErr)
  | panic (p : CPanic)
  deriving Repr, DecidableEq

namespace CRes
def bind (r : CRes α) (f : α → CRes β) : CRes β :=
  match r with
  | ok a => f a
  | err e => err e
  | panic p => panic p
instance : Monad CRes where
  pure := ok
  bind := bind
def isOk : CRes α → Bool
  | ok _ => true
  | _ => false
def isErr : CRes α → Bool
  | err _ => true
  | _ => false
def isPanic : CRes α → Bool
  | panic _ => true
  | _ => false
end CRes

/-! ### Go strings -/

def toUpperC (c : Char) : Char :=
  if 'a' ≤ c ∧ c ≤ 'z' then Char.ofNat (c.toNat - 32) else c
def toLowerC (c : Char) : Char :=
  if 'A' ≤ c ∧ c ≤ 'Z' then Char.ofNat (c.toNat + 32) else c
def upper (s : Name) : Name := s.map toUpperC

/-- `strings.Split(s, sep)` for a one-character separator: never empty. -/
def splitOn (sep : Char) : Name → List Name
  | [] => [[]]
  | c :: cs =>
    if c = sep then [] :: splitOn sep cs
    else
      match splitOn sep cs with
      | w :: ws => (c :: w) :: ws
      | [] => [[c]]

/-- `strings.FieldsFunc(s, isSep)`: maximal runs of non-separators; may be empty. -/
def fieldsAux (isSep : Char → Bool) : Name → Name → List Name
  | [], cur => if cur = [] then [] else [cur.reverse]
  | c :: cs, cur =>
    if isSep c then (if cur = [] then fieldsAux isSep cs [] else cur.reverse :: fieldsAux isSep cs [])
    else fieldsAux isSep cs (c :: cur)
def fields (isSep : Char → Bool) (s : Name) : List Name := fieldsAux isSep s []

/-- `l[i]` with Go's bounds check. -/
def goIndex (l : List α) (i : Int) : CRes α :=
  if 0 ≤ i then
    match l[i.toNat]? with
    | some a => .ok a
    | none => .panic .index
  else .panic .index

/-- `s[:n]` with Go's bounds check. -/
def goSliceTo (s : Name) (n : Int) : CRes Name :=
  if 0 ≤ n ∧ n ≤ s.length then .ok (s.take n.toNat) else .panic .slice

def hasPrefix (s p : Name) : Bool := p.isPrefixOf s
def hasSuffix (s p : Name) : Bool := p.reverse.isPrefixOf s.reverse

/-! ### Casing helpers of the Go generator -/

def initialisms : List Name :=
  ["API", "ASCII", "CPU", "CSS", "DNS", "EOF", "GUID", "HTML", "HTTP", "HTTPS", "ID", "IP", "JSON", "LHS",
   "QPS", "RAM", "RHS", "RPC", "SLA", "SMTP", "SSH", "TLS", "TTL", "UI", "UID", "UUID", "URI", "URL",
   "UTF8", "VM", "XML"].map String.toList

/-- One `_`-separated word in `snakeToCamel`'s loop: empty words are skipped (the fix); a common
initialism is upper-cased; otherwise `w := []rune(word); w[0] = unicode.ToUpper(w[0])`. -/
def camelWord (w : Name) : CRes Name :=
  if w = [] then .ok []
  else if initialisms.contains (upper w) then .ok (upper w)
  else do
    let c ← goIndex w 0
    pure (toUpperC c :: w.drop 1)

def camelWords : List Name → CRes Name
  | [] => .ok []
  | w :: ws => do
    let a ← camelWord w
    let b ← camelWords ws
    pure (a ++ b)

/-- `snakeToCamel`. -/
def snakeToCamel (s : Name) : CRes Name :=
  if s = [] then .ok [] else camelWords (splitOn '_' s)

/-- `titleServiceName(name, serviceName)`. -/
def titleServiceName (name service : Name) : CRes Name :=
  if name = [] then .ok name
  else if name = upper name then .ok name
  else do
    let full := if service ≠ [] then service ++ '_' :: name else name
    let r ← snakeToCamel full
    if service = [] ∧ (hasPrefix r "New".toList ∨ hasSuffix r "Args".toList ∨ hasSuffix r "Result".toList)
    then pure (r ++ ['_']) else pure r

/-- `title(name)`. -/
def title (name : Name) : CRes Name := titleServiceName name []

/-- `parser.LowercaseFirstLetter`: `runes[0] = unicode.ToLower(runes[0])`. -/
def lowerFirst (s : Name) : CRes Name := do
  let c ← goIndex s 0
  pure (toLowerC c :: s.drop 1)

/-- `includeNameToReference`: `split[len(split)-1]` of the `.`/`/`-separated fields. -/
def includeNameToReference (s : Name) : CRes Name :=
  let split := fields (fun c => c = '.' ∨ c = '/') s
  goIndex split ((split.length : Int) - 1)

/-! ### `CleanGenParam` -/

def languageOptions : List (Name × List Name) :=
  [("go", ["thrift_import", "frugal_import", "package_prefix", "async", "use_vendor", "slim",
           "suppress_deprecated_logging", "omit_server_service_generation"]),
   ("java", ["generated_annotations", "async", "boxed_primitives", "default_unsupported", "use_vendor",
             "suppress_deprecated_logging"]),
   ("json", ["indent"]),
   ("dart", ["library_prefix", "use_enums", "use_int64", "use_null_for_unset", "use_vendor", "nullsafe"]),
   ("py", ["tornado", "asyncio", "package_prefix"]),
   ("html", ["standalone"])].map fun (l, os) => (l.toList, os.map String.toList)

def validateOption (lang opt : Name) : Bool :=
  match languageOptions.lookup lang with
  | some os => os.contains opt
  | none => false

/-- Go map assignment `m[k] = v`. -/
def mapSet (m : List (Name × Name)) (k v : Name) : List (Name × Name) :=
  (k, v) :: m.filter (fun kv => kv.1 ≠ k)

def cleanOptions (lang : Name) : List Name → List (Name × Name) → CRes (List (Name × Name))
  | [], acc => .ok acc
  | o :: os, acc => do
    let s := splitOn '=' o
    let k ← goIndex s 0
    if !validateOption lang k then .err .unknownOption
    else if s.length = 1 then cleanOptions lang os (mapSet acc k [])
    else do
      let v ← goIndex s 1
      cleanOptions lang os (mapSet acc k v)

/-- `CleanGenParam(gen)`: language and option map. -/
def cleanGenParam (gen : Name) : CRes (Name × List (Name × Name)) :=
  if !gen.contains ':' then .ok (gen, [])
  else do
    let s := splitOn ':' gen
    let lang ← goIndex s 0
    let dirty ← goIndex s 1
    let optionArray := if dirty.contains ',' then splitOn ',' dirty else [dirty]
    let m ← cleanOptions lang optionArray []
    pure (lang, m)

/-! ### Abstract syntax (what `validate`, `UnderlyingType` and the casing path look at) -/

/-- `parser.Type`: `named n` has `Name = n` and no key/value types (base types are names). -/
inductive Ty where
  | named (n : Name)
  | list (e : Ty)
  | set (e : Ty)
  | map (k v : Ty)
  deriving DecidableEq, Repr, Inhabited

def Ty.name : Ty → Name
  | .named n => n
  | .list _ => "list".toList
  | .set _ => "set".toList
  | .map _ _ => "map".toList

structure Field where
  id : Int
  name : Name
  ty : Ty
  deriving DecidableEq, Repr, Inhabited

inductive SKind where
  | struct | union | exception
  deriving DecidableEq, Repr, Inhabited

structure StructLike where
  kind : SKind
  name : Name
  fields : List Field
  deriving DecidableEq, Repr, Inhabited

structure Typedef where
  name : Name
  ty : Ty
  deriving DecidableEq, Repr, Inhabited

structure Enum where
  name : Name
  values : List Name
  deriving DecidableEq, Repr, Inhabited

structure Const where
  name : Name
  ty : Ty
  ref : Option Name      -- `some id`: the value is the identifier `id`
  deriving DecidableEq, Repr, Inhabited

structure Method where
  name : Name
  oneway : Bool
  ret : Option Ty
  args : List Field
  excs : List Field
  deriving DecidableEq, Repr, Inhabited

structure Service where
  name : Name
  ext : Option Name
  methods : List Method
  deriving DecidableEq, Repr, Inhabited

structure Op where
  name : Name
  ty : Ty
  deriving DecidableEq, Repr, Inhabited

structure Scope where
  name : Name
  ops : List Op
  deriving DecidableEq, Repr, Inhabited

structure File where
  name : Name                 -- file name without extension
  vendorWild : Bool := false
  includes : List Name := []  -- include values as written (`base.frugal`)
  typedefs : List Typedef := []
  enums : List Enum := []
  structs : List StructLike := []
  consts : List Const := []
  services : List Service := []
  scopes : List Scope := []
  deriving DecidableEq, Repr, Inhabited

/-- All files of the directory; the first one is the file given to the compiler. -/
abbrev Prog := List File

/-- What validation / resolution of one file sees: the file and its `ParsedIncludes`. -/
structure Ctx where
  self : File
  incs : List (Name × File)
  deriving Repr, Inhabited

/-! ### Types -/

def baseTypes : List Name :=
  ["bool", "byte", "i8", "i16", "i32", "i64", "double", "string", "binary"].map String.toList
def containerNames : List Name := ["list", "set", "map"].map String.toList

/-- `Type.IncludeName`. -/
def includeName (n : Name) : Name := if n.contains '.' then n.takeWhile (· ≠ '.') else []
/-- `Type.ParamName`. -/
def paramName (n : Name) : Name := if n.contains '.' then (n.dropWhile (· ≠ '.')).drop 1 else n

def File.declares (f : File) (n : Name) : Bool :=
  f.structs.any (·.name = n) || f.enums.any (·.name = n) || f.typedefs.any (·.name = n)

/-- `isValidType` (a bare container keyword used as a type name is invalid). -/
def isValidType (ctx : Ctx) : Ty → Bool
  | .list e => isValidType ctx e
  | .set e => isValidType ctx e
  | .map k v => isValidType ctx k && isValidType ctx v
  | .named n =>
    if baseTypes.contains n then true
    else if containerNames.contains n then false
    else if includeName n ≠ [] then
      match ctx.incs.lookup (includeName n) with
      | none => false
      | some f => f.declares (paramName n)
    else ctx.self.declares (paramName n)

/-- Go map built with `m[td.Name] = td` in slice order: the last entry wins. -/
def tdLookup : List Typedef → Name → Option Ty
  | [], _ => none
  | td :: tds, n =>
    match tdLookup tds n with
    | some t => some t
    | none => if td.name = n then some td.ty else none

/-- One typedef hop as `UnderlyingType` takes it (NOTE: every hop is looked up from the ROOT
file `ctx.self`, also after a hop into an include — the recorded finding
`typedef-second-hop-in-include`). `none` = `t` is not a typedef: resolution stops. -/
def typedefTarget (ctx : Ctx) (t : Ty) : Option Ty :=
  if includeName t.name ≠ [] then
    match ctx.incs.lookup (includeName t.name) with
    | none => none
    | some f => tdLookup f.typedefs (paramName t.name)
  else tdLookup ctx.self.typedefs (paramName t.name)

/-- `UnderlyingType`: Go recursion; `fuel` = available stack. -/
def underlying (ctx : Ctx) : Nat → Ty → CRes Ty
  | 0, _ => .panic .stackOverflow
  | fuel + 1, t =>
    match typedefTarget ctx t with
    | none => .ok t
    | some t' => underlying ctx fuel t'

/-- The bounded walk of `validateTypedefs`' cycle check: `true` iff resolution from `t` stops
within `n` hops. -/
def walkEnds (ctx : Ctx) : Nat → Ty → Bool
  | n, t =>
    match typedefTarget ctx t with
    | none => true
    | some t' =>
      match n with
      | 0 => false
      | n + 1 => walkEnds ctx n t'

/-- Every typedef the resolution can reach from this file. -/
def allTypedefs (ctx : Ctx) : List Typedef :=
  ctx.self.typedefs ++ (ctx.incs.map (·.2.typedefs)).flatten

def typedefLimit (ctx : Ctx) : Nat := (allTypedefs ctx).length

/-! ### `validate` -/

/-- A `for … { if !check { return err } }` loop. -/
def firstErr (f : α → CRes Unit) : List α → CRes Unit
  | [] => .ok ()
  | a :: as =>
    match f a with
    | .ok _ => firstErr f as
    | .err e => .err e
    | .panic p => .panic p

def guardV (b : Bool) (e : VErr) : CRes Unit := if b then .ok () else .err e

/-- The `names := make(map[string]string)` loops of `validate`: key = name with its first letter
lower-cased; an equal key is a duplicate (same name) or a conflict (other spelling); `inner` runs
after the name has been recorded. -/
def dupLoop (dupE conflictE : VErr) (nameOf : α → Name) (inner : α → CRes Unit) :
    List (Name × Name) → List α → CRes Unit
  | _, [] => .ok ()
  | seen, x :: xs =>
    match lowerFirst (nameOf x) with
    | .panic p => .panic p
    | .err e => .err e
    | .ok k =>
      match seen.lookup k with
      | some prev => if nameOf x = prev then .err dupE else .err conflictE
      | none =>
        match inner x with
        | .ok _ => dupLoop dupE conflictE nameOf inner ((k, nameOf x) :: seen) xs
        | .err e => .err e
        | .panic p => .panic p

/-- `ids := make(map[int]struct{})` loops. -/
def dupIds (e : VErr) : List Int → List Int → CRes Unit
  | _, [] => .ok ()
  | seen, i :: is => if seen.contains i then .err e else dupIds e (i :: seen) is

def validateNames (f : File) : CRes Unit := do
  dupLoop .dupService .conflictService (·.name)
    (fun s => dupLoop .dupMethod .conflictMethod (·.name) (fun _ => .ok ()) [] s.methods) [] f.services
  dupLoop .dupScope .conflictScope (·.name)
    (fun s => dupLoop .dupOp .conflictOp (·.name) (fun _ => .ok ()) [] s.ops) [] f.scopes

/-- `Include.Name` as the grammar computes it: the value up to its last `.` (if that is not
the first character). Flat directory: `filepath.Base` is the identity. -/
def includeDeclName (v : Name) : Name :=
  match (splitOn '.' v).reverse with
  | _ :: rest@(_ :: _) =>
    let stem := ".".toList.intercalate rest.reverse
    if stem = [] then v else stem
  | _ => v

def validateIncludes : List Name → List Name → CRes Unit
  | _, [] => .ok ()
  | seen, v :: vs =>
    if seen.contains (includeDeclName v) then .err .dupInclude
    else validateIncludes (includeDeclName v :: seen) vs

def hasEnumValue (enums : List Enum) (e v : Name) : Bool :=
  enums.any fun en => en.name = e && en.values.contains v

def validateConstant (ctx : Ctx) (c : Const) : CRes Unit :=
  if !isValidType ctx c.ty then .err .constType
  else
    match c.ref with
    | none => .ok ()
    | some id =>
      match splitOn '.' id with
      | [_] => guardV (ctx.self.consts.any (·.name = id)) .constRef
      | [inc, param] =>
        if hasEnumValue ctx.self.enums inc param then .ok ()
        else if inc ≠ [] then
          match ctx.incs.lookup inc with
          | none => .err .constRefInclude
          | some f => guardV (f.consts.any (·.name = param)) .constRefIncluded
        else guardV (ctx.self.consts.any (·.name = param)) .constRefIncluded
      | [inc, en, v] =>
        match ctx.incs.lookup inc with
        | none => .err .constRefInclude
        | some f => guardV (hasEnumValue f.enums en v) .constRefEnum
      | _ => .err .constName

def validateTypedefs (ctx : Ctx) : CRes Unit := do
  firstErr (fun td => guardV (isValidType ctx td.ty) .typedefType) ctx.self.typedefs
  firstErr (fun td => guardV (walkEnds ctx (typedefLimit ctx) td.ty) .typedefCycle) (allTypedefs ctx)

def validateStructLike (ctx : Ctx) (s : StructLike) : List Int → List Field → CRes Unit
  | _, [] => .ok ()
  | seen, fl :: fls =>
    if !isValidType ctx fl.ty then .err .fieldType
    else if seen.contains fl.id then .err .dupFieldId
    else validateStructLike ctx s (fl.id :: seen) fls

def validateKind (ctx : Ctx) (k : SKind) : CRes Unit :=
  firstErr (fun s => validateStructLike ctx s [] s.fields) (ctx.self.structs.filter (·.kind = k))

def validateServiceTypes (ctx : Ctx) (s : Service) : CRes Unit :=
  firstErr (fun m => do
    (match m.ret with
      | some t => guardV (isValidType ctx t) .retType
      | none => .ok ())
    firstErr (fun a => guardV (isValidType ctx a.ty) .argType) m.args
    firstErr (fun a => guardV (isValidType ctx a.ty) .excType) m.excs) s.methods

/-- `Service.validate`. -/
def validateServiceShape (s : Service) : CRes Unit :=
  firstErr (fun m => do
    (if m.oneway then do
        guardV m.excs.isEmpty .onewayThrows
        guardV m.ret.isNone .onewayReturns
      else .ok ())
    dupIds .dupArgId [] (m.args.map (·.id))) s.methods

def validateServices (ctx : Ctx) : CRes Unit :=
  firstErr (fun s => do
    validateServiceTypes ctx s
    validateServiceShape s) ctx.self.services

def validateScopes (ctx : Ctx) : CRes Unit :=
  firstErr (fun s => firstErr (fun o => guardV (isValidType ctx o.ty) .opType) s.ops) ctx.self.scopes

/-- `(*Frugal).validate`, in the order of the code. -/
def validateFile (ctx : Ctx) : CRes Unit := do
  validateNames ctx.self
  guardV (!ctx.self.vendorWild) .vendorWildcard
  validateIncludes [] ctx.self.includes
  firstErr (validateConstant ctx) ctx.self.consts
  validateTypedefs ctx
  validateKind ctx .struct
  validateKind ctx .union
  validateKind ctx .exception
  validateServices ctx
  validateScopes ctx

/-! ### `parseFrugal`: include traversal -/

def frugalExt : Name := ".frugal".toList
def thriftExt : Name := ".thrift".toList

def findFile (p : Prog) (value : Name) : Option File :=
  p.find? (fun f => f.name ++ frugalExt = value ∨ f.name ++ thriftExt = value)

/-- The key under which an include is stored in `ParsedIncludes`:
`filepath.Base(include[:len(include)-7])`. -/
def includeKey (v : Name) : CRes Name := goSliceTo v ((v.length : Int) - 7)

def ctxOf (p : Prog) (f : File) : Ctx :=
  { self := f,
    incs := f.includes.filterMap fun v =>
      match findFile p v, includeKey v with
      | some g, .ok k => some (k, g)
      | _, _ => none }

mutual
/-- `parseFrugal(file, visited, cache)` without the cache (same verdict). `fuel` bounds the
include depth; `visited` makes it finite in the code (a name cannot repeat on a path). -/
def load (p : Prog) : Nat → List Name → Name → CRes Unit
  | 0, _, _ => .panic .stackOverflow
  | fuel + 1, visited, value =>
    match findFile p value with
    | none => .err .missingInclude
    | some f =>
      if visited.contains f.name then .err .circularInclude
      else
        match loadIncludes p fuel (visited ++ [f.name]) f.includes with
        | .ok _ => validateFile (ctxOf p f)
        | .err e => .err e
        | .panic q => .panic q
def loadIncludes (p : Prog) : Nat → List Name → List Name → CRes Unit
  | _, _, [] => .ok ()
  | fuel, visited, v :: vs =>
    if !(hasSuffix v thriftExt || hasSuffix v frugalExt) then .err .badIncludeName
    else
      match load p fuel visited v with
      | .ok _ =>
        match includeKey v with
        | .ok _ => loadIncludes p fuel visited vs
        | .err e => .err e
        | .panic q => .panic q
      | .err e => .err e
      | .panic q => .panic q
end

/-- The front end on a whole program: parse + validate the main file and, first, everything it
includes. Include depth is at most the number of files (a name cannot repeat on a path). -/
def front (p : Prog) : CRes Unit :=
  match p with
  | [] => .err .missingInclude
  | f :: _ => load p (p.length + 1) [] (f.name ++ frugalExt)

/-! ### The Go generation path over a validated file: every declared identifier goes through
`title`, every type that is used through `UnderlyingType`. -/

def File.declaredNames (f : File) : List Name :=
  f.typedefs.map (·.name) ++ f.enums.map (·.name) ++ (f.enums.map (·.values)).flatten ++
  f.structs.map (·.name) ++ (f.structs.map (fun s => s.fields.map (·.name))).flatten ++
  f.consts.map (·.name) ++ f.services.map (·.name) ++
  (f.services.map (fun s => s.methods.map (·.name))).flatten ++
  (f.services.map (fun s => (s.methods.map (fun m => (m.args ++ m.excs).map (·.name))).flatten)).flatten ++
  f.scopes.map (·.name) ++ (f.scopes.map (fun s => s.ops.map (·.name))).flatten

def File.usedTypes (f : File) : List Ty :=
  f.typedefs.map (·.ty) ++ (f.structs.map (fun s => s.fields.map (·.ty))).flatten ++
  f.consts.map (·.ty) ++
  (f.services.map (fun s => (s.methods.map (fun m =>
    m.ret.toList ++ (m.args ++ m.excs).map (·.ty))).flatten)).flatten ++
  (f.scopes.map (fun s => s.ops.map (·.ty))).flatten

/-- The modelled partial operations of the Go path on one file. -/
def goPath (ctx : Ctx) : CRes Unit := do
  firstErr (fun n => do let _ ← title n; pure ()) ctx.self.declaredNames
  firstErr (fun t => do let _ ← underlying ctx (typedefLimit ctx + 2) t; pure ()) ctx.self.usedTypes

/-- Front end + Go path for the main file. -/
def compileGo (p : Prog) : CRes Unit :=
  match p with
  | [] => .err .missingInclude
  | f :: _ => do
    front p
    goPath (ctxOf p f)


/-! ### The command line (`main.go`): flags, the loop over the input files, the exit status -/

/-- What `compiler.Compile` does with one input file: returns nil, or an error / a recovered
panic (both end as `Failed to generate …` and `os.Exit(1)`). -/
inductive FileVerdict where
  | valid | invalid
  deriving DecidableEq, Repr, Inhabited

structure CliResult where
  exit : Nat        -- process exit status
  compiled : Nat    -- number of input files `Compile` was called on
  deriving DecidableEq, Repr, Inhabited

/-- `for _, options.File = range c.Args() { err = Compile(options); if err != nil { …; os.Exit(1) } }`. -/
def cliLoop : List FileVerdict → Nat → CliResult
  | [], n => { exit := 0, compiled := n }
  | .valid :: fs, n => cliLoop fs (n + 1)
  | .invalid :: _, n => { exit := 1, compiled := n + 1 }

/-- Languages `GetProgramGenerator` knows. -/
def knownLanguages : List Name := ["dart", "go", "java", "json", "py", "html"].map String.toList

/-- The `-gen` value is accepted by `CleanGenParam` and names a known language. It is looked at
inside `Compile`, after the file has been parsed: a bad value makes EVERY file fail. -/
def genAccepted (gen : Name) : Bool :=
  match cleanGenParam gen with
  | .ok (lang, _) => knownLanguages.contains lang
  | _ => false

/-- `frugal [-gen g] [-r] -out d f1 … fk` (no `-help`, `-version`, `-audit`): no file or no `-gen`
is a usage error (exit 1, nothing compiled). -/
def cliMain (gen : Option Name) (files : List FileVerdict) : CliResult :=
  if files = [] then { exit := 1, compiled := 0 }
  else
    match gen with
    | none => { exit := 1, compiled := 0 }
    | some g => cliLoop (files.map fun v => if genAccepted g then v else .invalid) 0

end FV.Compile
