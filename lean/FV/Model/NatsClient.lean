/-
nats_transport.go + transport.go (fBaseTransport) life cycle (C15): the NATS client transport as a
small sequential machine. The transport has no lock and no goroutine of its own: `Open`, `Close`,
`IsOpen`, `Request` are plain calls; the environment is the nats.Conn (connected / reconnecting
after the broker went away / closed for good) and the broker.

  Open     conn.Status() != CONNECTED -> error; sub != nil -> ALREADY_OPEN;
           sub = conn.Subscribe(..); closed = make(chan error, 1)                  (fBaseTransport.Open)
  Close    sub == nil -> nil; sub.Unsubscribe() fails -> that error, NOTHING else;
           sub = nil; closed <- nil (non-blocking); close(closed)                 (fBaseTransport.Close(nil))
  IsOpen   sub != nil && conn.Status() == CONNECTED
  Request  !IsOpen() -> NOT_OPEN; publish, wait for the reply

nats.go contract assumed (read in v1.33.1): `Subscription.Unsubscribe` fails with
ErrConnectionClosed once the connection is closed for good and succeeds while it is connected or
reconnecting; `Subscribe` succeeds on a connected connection. A send on a closed Go channel panics,
also inside `select`.
-/
namespace FV.NatsClient

inductive Conn where
  | connected | reconnecting | closed
  deriving DecidableEq, Repr

/-- One `fBaseTransport.Open()`: its `closed` channel (values are always nil here). -/
structure Inc where
  sent : Nat            -- values written to the channel
  chanClosed : Bool
  deriving DecidableEq, Repr

structure Sys where
  conn : Conn
  broker : Bool         -- the broker is running
  sub : Bool            -- f.sub != nil
  incs : List Inc
  panicked : Bool       -- send on / close of a closed channel
  deriving DecidableEq, Repr

def init : Sys := { conn := .connected, broker := true, sub := false, incs := [], panicked := false }

inductive Act where
  | open | close | isOpen | request
  | connClose      -- the application closes the nats.Conn (closed for good)
  | brokerDown     -- the broker is shut down: the connection goes to RECONNECTING
  | brokerUp       -- the broker is back on the same address: the connection reconnects
  deriving DecidableEq, Repr

inductive Ret where
  | ok | alreadyOpen | notOpen | other | bool (b : Bool) | env
  deriving DecidableEq, Repr

def Sys.isOpen (s : Sys) : Bool := s.sub && decide (s.conn = .connected)

/-- `fBaseTransport.Close(nil)` on the channel of the latest incarnation. -/
def baseClose (s : Sys) : Sys :=
  match s.incs.getLast? with
  | none => { s with panicked := true }          -- nil channel: close(nil) panics
  | some i =>
    if i.chanClosed then { s with panicked := true }
    else { s with incs := s.incs.dropLast ++ [{ sent := if i.sent < 1 then i.sent + 1 else i.sent, chanClosed := true }] }

def step (s : Sys) : Act → Sys × Ret
  | .open =>
    if s.conn ≠ .connected then (s, .other)
    else if s.sub then (s, .alreadyOpen)
    else ({ s with sub := true, incs := s.incs ++ [⟨0, false⟩] }, .ok)
  | .close =>
    if !s.sub then (s, .ok)
    else if s.conn = .closed then (s, .other)      -- Unsubscribe: nats: connection closed
    else (baseClose { s with sub := false }, .ok)
  | .isOpen => (s, .bool s.isOpen)
  | .request => (s, if s.isOpen then .ok else .notOpen)
  | .connClose => ({ s with conn := .closed }, .env)
  | .brokerDown => ({ s with broker := false, conn := if s.conn = .connected then .reconnecting else s.conn }, .env)
  | .brokerUp => ({ s with broker := true, conn := if s.conn = .reconnecting then .connected else s.conn }, .env)

def run (s : Sys) : List Act → Sys
  | [] => s
  | a :: t => run (step s a).1 t

def Reachable (s : Sys) : Prop := ∃ as, run init as = s

/-- Incarnation `k` is the open one. -/
def Sys.openAt (s : Sys) (k : Nat) : Prop := s.sub = true ∧ k + 1 = s.incs.length

end FV.NatsClient
