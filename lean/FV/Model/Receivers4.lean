/-
The HTTP client response path (C05 (e)): `fHTTPTransport.Request` / `makeRequest` (lib/go/http_transport.go)
after the round trip, and `FStandardClient.Call` / `.Oneway` (lib/go/client.go) on top of it.

What comes back from the server is a status code and a body; `base64.StdEncoding.DecodeString(body)` is
Go's library (environment): the model starts from its result (`B64.invalid` or the decoded bytes).

  httpRequest   makeRequest's status tests and decode error, then Request's frame-size cases:
                413 → RESPONSE_TOO_LARGE; ≥ 300 → transport exception; not base64 → transport exception;
                fewer than 4 bytes → INVALID_DATA "invalid frame size"; exactly 4 bytes, non-zero →
                INVALID_DATA "missing data"; exactly 4 zero bytes → `return nil, nil` ("it's a one-way,
                drop it"); otherwise a TMemoryBuffer over `response[4:]` — the prefix is never compared
                with the length of what follows.
  httpCall      `Call`: Request, then `processReply` (FV.Recv3) on the transport handed back. `guarded` is
                the test `resultTransport == nil` in `Call` (the code as it is now); without it
                (`guarded = false`, the code before the repair) `processReply` is entered with a nil
                transport and `readHeader` dereferences it: `CallOut.nilDeref`, a run-time panic in the
                caller's goroutine.
  httpOneway    `Oneway`: Request, only the error is looked at.
-/
import FV.Basic
import FV.Model.Headers
import FV.Model.Receivers3

namespace FV.Recv4
open FV

/-- Result of `base64.StdEncoding.DecodeString` on the response body. -/
inductive B64 where
  | invalid
  | decoded (b : Bytes)
  deriving Repr, DecidableEq

/-- What `Request` returns: an error, `(nil, nil)`, or a transport holding reply bytes. -/
inductive ReqOut where
  | err (e : Err)
  | nilTransport
  | transport (reply : Bytes)
  | panic (p : Panic)
  deriving Repr, DecidableEq

def httpRequest (status : Nat) (body : B64) : ReqOut :=
  if status = 413 then .err .tooLarge
  else if status ≥ 300 then .err .transport
  else
    match body with
    | .invalid => .err .transport
    | .decoded b =>
      if b.length < 4 then .err .invalidData
      else if b.length = 4 then
        (if rd32 b ≠ 0 then .err .invalidData else .nilTransport)
      else
        match sliceFrom b 4 with     -- response[4:]
        | .ok r => .transport r
        | .err e => .err e
        | .panic p => .panic p

/-- Outcome of `FStandardClient.Call` over the HTTP transport. -/
inductive CallOut where
  | req (e : Err)                        -- the transport's error, returned as is
  | reply (o : Recv3.ReplyOutcome)       -- `processReply` ran on the reply bytes
  | nilDeref                             -- `processReply` on a nil transport: nil-pointer panic
  | panic (p : Panic)
  deriving Repr, DecidableEq

/-- The error `Call` returns for `(nil, nil)` from a two-way request: INVALID_DATA, like the transport's own
"missing data". -/
def emptyReplyErr : Err := .invalidData

def httpCall (guarded : Bool) (method : Bytes) (status : Nat) (body : B64) : CallOut :=
  match httpRequest status body with
  | .err e => .req e
  | .panic p => .panic p
  | .nilTransport => if guarded then .req emptyReplyErr else .nilDeref
  | .transport r =>
    match Recv3.processReply method r with
    | .ok o => .reply o
    | .err e => .req e
    | .panic p => .panic p

/-- `Oneway`: `none` = nil. -/
def httpOneway (status : Nat) (body : B64) : Res (Option Err) :=
  match httpRequest status body with
  | .err e => .ok (some e)
  | .panic p => .panic p
  | .nilTransport => .ok none
  | .transport _ => .ok none

/-! ### The HTTP envelope: size fields of the HTTP layer chosen by the peer

The peer announces a body length (`Content-Length: a`, or chunk-size lines) and sends what it likes. What
`net/http` hands to `makeRequest` before the body ends is `delivered` (RFC 7230 framing as Go's client applies
it; environment, observed by the harness): with a Content-Length the first `a` bytes when at least that many
arrive, otherwise a read error (the connection is closed, or the caller's timeout expires); with chunked
coding the whole body when every chunk-size line is truthful and the 0-chunk arrives, otherwise a read error;
nothing for 204/304. `makeRequest` reads with `buf.ReadFrom(response.Body)`: the buffer grows with what
arrives, no allocation is sized by an announced length. -/

inductive Framing where
  | length (announced : Nat)
  | chunked (chunks : List (Nat × Nat)) (terminated : Bool)   -- (announced size, bytes carried)
  deriving Repr, DecidableEq

def delivered (status : Nat) (fr : Framing) (sent : Bytes) : Option Bytes :=
  if status = 204 ∨ status = 304 then some [] else
  match fr with
  | .length a => if a ≤ sent.length then some (sent.take a) else none
  | .chunked cs t =>
    if t ∧ cs.all (fun c => decide (c.1 = c.2 ∧ 0 < c.1)) ∧ (cs.map (·.2)).sum = sent.length then some sent else none

/-- What `Call` makes of status and delivered bytes (`dec` = base64.StdEncoding.DecodeString): 413 is answered
before the body is read; a body read error is the transport's error. -/
def httpReceived (dec : Bytes → B64) (guarded : Bool) (method : Bytes) (status : Nat) (got : Option Bytes) : CallOut :=
  if status = 413 then .req .tooLarge else
  match got with
  | none => .req .transport
  | some b => httpCall guarded method status (dec b)

def httpCallEnvelope (dec : Bytes → B64) (guarded : Bool) (method : Bytes) (status : Nat) (fr : Framing) (sent : Bytes) : CallOut :=
  httpReceived dec guarded method status (delivered status fr sent)

def httpOnewayEnvelope (dec : Bytes → B64) (status : Nat) (fr : Framing) (sent : Bytes) : Res (Option Err) :=
  if status = 413 then .ok (some .tooLarge) else
  match delivered status fr sent with
  | none => .ok (some .transport)
  | some b => httpOneway status (dec b)

/-- `maxAlloc` on linux/amd64: `make([]byte, n)` beyond it panics (bytes.Buffer turns that into ErrTooLarge). -/
def maxAlloc : Nat := 281474976710656

/-- NOT the code: a `makeRequest` that sizes its buffer by the announced Content-Length before reading
(`buf.Grow(int(response.ContentLength))`). -/
def httpCallPresized (dec : Bytes → B64) (guarded : Bool) (method : Bytes) (status : Nat) (fr : Framing) (sent : Bytes) : CallOut :=
  match fr with
  | .length a => if status ≠ 413 ∧ a > maxAlloc then .panic .overflow else httpCallEnvelope dec guarded method status fr sent
  | _ => httpCallEnvelope dec guarded method status fr sent

end FV.Recv4
