/-
Receiving entry points after the header codec (C05): what each does with an
arbitrary received byte string.

  readRequestHeaderClass   FProtocol.ReadRequestHeader over a TMemoryBuffer holding the bytes
  natsServerProcessFrame   fNatsServer.processFrame with a processor that reads the request header
  Worker / Worker.recv     fNatsSubscriberTransport.worker: one message at a time
-/
import FV.Basic
import FV.Model.Headers
import FV.Model.Registry0

namespace FV

/-- `ReadRequestHeader`: header parse, then the op id must be present. -/
def readRequestHeaderClass (bs : Bytes) : Res Unit :=
  match unmarshalStream bs with
  | .ok (h, _) => if (h.get? opIdHeader).isSome then .ok () else .err .invalidData
  | .err e => .err e
  | .panic p => .panic p

/-- `fNatsServer.processFrame(data)` with a processor that only reads the request header. -/
def natsServerProcessFrame (data : Bytes) : Res Unit :=
  if data.length < 4 then .err .invalidData else readRequestHeaderClass (data.drop 4)

/-- `NewFrugalHandlerFunc` with a processor that only reads the request header, on a body that is the
base64 encoding of `frame`: HTTP status. Fewer than 4 decoded bytes → 400 (frame size unreadable);
a request header that cannot be read → 500; else 200. -/
def httpHandle (frame : Bytes) : Res Nat :=
  if frame.length < 4 then .ok 400 else
  match readRequestHeaderClass (frame.drop 4) with
  | .ok _ => .ok 200
  | .err _ => .ok 500
  | .panic p => .panic p

/-- One NATS subscriber worker goroutine. -/
structure Worker where
  alive : Bool
  delivered : Nat
  deriving Repr, DecidableEq

def Worker.init : Worker := ⟨true, 0⟩

/-- One received message: shorter than the frame-size prefix → discarded
(`continue`); otherwise the callback runs once (its error is only logged). -/
def Worker.recv (w : Worker) (msg : Bytes) : Worker :=
  if !w.alive then w
  else if msg.length < 4 then w
  else { w with delivered := w.delivered + 1 }

def Worker.recvAll (w : Worker) (msgs : List Bytes) : Worker := msgs.foldl Worker.recv w

end FV
