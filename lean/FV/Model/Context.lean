/-
Model of lib/go/context.go (FContextImpl as two header maps) and of the four
FProtocol header operations of lib/go/protocol.go that move a context over the
wire (C09):

  natDigits / formatInt     strconv.FormatUint(n,10) / strconv.FormatInt(z,10)
  parseI64                  strconv.ParseInt(s,10,64) (`none` = any error)
  Ctx.new                   NewFContext(cid) once the correlation id is known (an empty
                            argument is replaced by a generated id before this point) and
                            getNextOpID() has returned `opid`
  Ctx.addRequestHeader / addResponseHeader / setTimeout / timeout / correlationID / opId
  serverCtx hdrs fresh      the context ReadRequestHeader builds from decoded headers
  readRequestHeader         readHeader (C04 stream codec) → serverCtx with fresh = counter+1
  mergeResponse             the loop of ReadResponseHeader
  readResponseHeader        readHeader → mergeResponse
  Write{Request,Response}Header write `marshal w` for SOME iteration order `w` of the map
                            (Go's map order); the theorems quantify over every permutation.

Durations are `Int` nanoseconds, `time.Duration` arithmetic is int64 (`toI64`).
-/
import FV.Basic
import FV.Model.Headers
import FV.Model.Registry0

namespace FV

/-! ### Decimal integers -/

def natDigitsAux (n : Nat) (acc : Bytes) : Bytes :=
  if h : n < 10 then UInt8.ofNat (48 + n) :: acc
  else natDigitsAux (n / 10) (UInt8.ofNat (48 + n % 10) :: acc)
termination_by n
decreasing_by omega

/-- `strconv.FormatUint(n, 10)`. -/
def natDigits (n : Nat) : Bytes := natDigitsAux n []

/-- `strconv.FormatInt(z, 10)`. -/
def formatInt (z : Int) : Bytes :=
  if z < 0 then 45 :: natDigits z.natAbs else natDigits z.toNat

/-- `strconv.ParseInt(s, 10, 64)`; `none` for every error (syntax or range). An optional
leading `+`/`-`, then one or more decimal digits (no underscores in base 10). -/
def parseI64 (s : Bytes) : Option Int :=
  match s with
  | [] => none
  | c :: t =>
    let neg := c = 45
    let body := if c = 43 ∨ c = 45 then t else s
    if body.isEmpty then none else
    match digitsVal body 0 with
    | none => none
    | some n =>
      if neg then (if n ≤ 9223372036854775808 then some (-(n : Int)) else none)
      else (if n < 9223372036854775808 then some (n : Int) else none)

/-- Go's int64 wrap-around. -/
def toI64 (z : Int) : Int := (z + 9223372036854775808) % 18446744073709551616 - 9223372036854775808

/-- `defaultTimeout` = 5 s, in nanoseconds. -/
def defaultTimeoutNs : Int := 5000000000

def nsPerMs : Int := 1000000

/-- Value of the `_timeout` header written by `SetTimeout(d)`: `int64(d / time.Millisecond)`
(Go integer division truncates toward zero) in decimal; since fix
`SetTimeout rounds a positive sub-millisecond timeout up to 1 ms` a positive duration never encodes as 0. -/
def encodeTimeout (ns : Int) : Bytes :=
  -- a positive timeout below the header's resolution is written as 1 ms, not as 0 ("no deadline")
  if 0 < ns ∧ Int.tdiv ns nsPerMs = 0 then formatInt 1 else formatInt (Int.tdiv ns nsPerMs)

/-- Milliseconds `Timeout()` parses from the header value, `none` when ParseInt fails. -/
def decodeTimeoutMs (v : Bytes) : Option Int := parseI64 v

/-- `Timeout()` given the value of `requestHeaders["_timeout"]` ("" when missing). -/
def decodeTimeout (v : Bytes) : Int :=
  match decodeTimeoutMs v with
  | none => defaultTimeoutNs
  | some ms => toI64 (nsPerMs * ms)

/-! ### FContextImpl -/

structure Ctx where
  req : Hdrs
  resp : Hdrs
  deriving Repr, DecidableEq

/-- "5000": `strconv.FormatInt(int64(defaultTimeout/time.Millisecond), 10)`. -/
def defaultTimeoutHeader : Bytes := [53, 48, 48, 48]

/-- `NewFContext(cid)` with the correlation id and the op id it was assigned. -/
def Ctx.new (cid : Bytes) (opid : Nat) : Ctx :=
  ⟨[(cidHeader, cid), (opIdHeader, natDigits opid), (timeoutHeader, defaultTimeoutHeader)], []⟩

def Ctx.addRequestHeader (c : Ctx) (k v : Bytes) : Ctx := { c with req := c.req.set k v }
def Ctx.addResponseHeader (c : Ctx) (k v : Bytes) : Ctx := { c with resp := c.resp.set k v }
def Ctx.addRequestHeaders (c : Ctx) (hs : Hdrs) : Ctx := { c with req := c.req.setAll hs }
def Ctx.addResponseHeaders (c : Ctx) (hs : Hdrs) : Ctx := { c with resp := c.resp.setAll hs }
def Ctx.setTimeout (c : Ctx) (ns : Int) : Ctx := c.addRequestHeader timeoutHeader (encodeTimeout ns)

/-- `CorrelationID()`: `requestHeaders["_cid"]`, "" when missing. -/
def Ctx.correlationID (c : Ctx) : Bytes := (c.req.get? cidHeader).getD []

/-- `Timeout()` in nanoseconds. -/
def Ctx.timeout (c : Ctx) : Int := decodeTimeout ((c.req.get? timeoutHeader).getD [])

/-- `getOpID(ctx)`. -/
def Ctx.opId (c : Ctx) : Res Nat :=
  match c.req.get? opIdHeader with
  | none => .err .missingOpId
  | some s => match parseU64 s with
    | some n => .ok n
    | none => .err .badOpId

/-- The context a caller builds: `NewFContext(cid)`, `AddRequestHeader` for each of `U`,
`SetTimeout(ns)`, then `AddRequestHeader` for each of `over` (empty in the property's
region; used by the correspondence for reserved-name overrides). -/
def clientCtx (cid : Bytes) (opid : Nat) (U : Hdrs) (ns : Int) (over : Hdrs) : Ctx :=
  (((Ctx.new cid opid).addRequestHeaders U).setTimeout ns).addRequestHeaders over

/-! ### ReadRequestHeader / ReadResponseHeader -/

/-- Headers without the entry named `k` (the `if name == opIDHeader { continue }`). -/
def Hdrs.without (h : Hdrs) (k : Bytes) : Hdrs := h.filter (fun kv => kv.1 ≠ k)

/-- The context `ReadRequestHeader` builds from the decoded headers; `fresh` is what
`getNextOpID()` returns. -/
def serverCtx (hdrs : Hdrs) (fresh : Nat) : Res Ctx :=
  -- for name, value := range headers { if name == opIDHeader { continue }; ctx.AddRequestHeader(name, value) }
  let c : Ctx := (⟨[], []⟩ : Ctx).addRequestHeaders (hdrs.without opIdHeader)
  match hdrs.get? opIdHeader with
  | none => .err .invalidData
  | some opid =>
    let c := c.addResponseHeader opIdHeader opid             -- setResponseOpID
    let c := c.addRequestHeader opIdHeader (natDigits fresh)  -- AddRequestHeader(opIDHeader, getNextOpID())
    let cid := c.correlationID
    .ok (if cid ≠ [] then c.addResponseHeader cidHeader cid else c)

/-- `FProtocol.ReadRequestHeader()` over a transport holding `wire`, with the op id
counter at `ctr`: the context and the bytes left on the transport. -/
def readRequestHeader (wire : Bytes) (ctr : Nat) : Res (Ctx × Bytes) :=
  match unmarshalStream wire with
  | .ok (h, rest) =>
    match serverCtx h (ctr + 1) with
    | .ok c => .ok (c, rest)
    | .err e => .err e
    | .panic p => .panic p
  | .err e => .err e
  | .panic p => .panic p

/-- Value of the op id counter after `readRequestHeader`: `getNextOpID` runs only on success. -/
def ctrAfterRead (wire : Bytes) (ctr : Nat) : Nat :=
  match readRequestHeader wire ctr with
  | .ok _ => ctr + 1
  | _ => ctr

/-- The loop of `ReadResponseHeader(ctx)`: every decoded header except `_opid` is added. -/
def mergeResponse (c : Ctx) (hdrs : Hdrs) : Ctx := c.addResponseHeaders (hdrs.without opIdHeader)

/-- `FProtocol.ReadResponseHeader(ctx)` over a transport holding `wire`. -/
def readResponseHeader (c : Ctx) (wire : Bytes) : Res (Ctx × Bytes) :=
  match unmarshalStream wire with
  | .ok (h, rest) => .ok (mergeResponse c h, rest)
  | .err e => .err e
  | .panic p => .panic p

/-! ### The op id counter under concurrency

`getNextOpID` is `atomic.AddUint64(&nextOpID, 1)`: an atomic fetch-and-add. However many goroutines
call it at the same time, the calls take effect one after the other (linearizability of the atomic
— trusted, and tied on every run by the `c9ids` correspondence op), so `n` calls starting from
counter value `ctr` return `ctr+1 … ctr+n`, each value exactly once, in some order. -/

/-- The op ids handed out by `n` calls of `getNextOpID` when the counter is at `ctr`. -/
def issuedIds (ctr n : Nat) : List Bytes := (List.range n).map (fun i => natDigits (ctr + 1 + i))

/-- A whole call in the model, used by the transport-level correspondence (`c9e2e`): caller context →
request header bytes → `ReadRequestHeader` → handler adds `R` → response header bytes →
`ReadResponseHeader` into the caller's context. Returns the handler's context (before `R`) and the
caller's context after the call. -/
def callThrough (cid : Bytes) (opid : Nat) (U : Hdrs) (ns : Int) (ctr : Nat) (R : Hdrs) : Res (Ctx × Ctx) :=
  let c := clientCtx cid opid U ns []
  match readRequestHeader (marshal c.req) ctr with
  | .ok (s, _) =>
    match readResponseHeader c (marshal (s.addResponseHeaders R).resp) with
    | .ok (cc, _) => .ok (s, cc)
    | .err e => .err e
    | .panic p => .panic p
  | .err e => .err e
  | .panic p => .panic p

end FV
