/-
Model of pub/sub topic construction in the code emitted by the four generators
(compiler/generator/{golang,java,dartlang,python}/…, `generatePrefixStringTemplate`
and the `topic := …` lines of publisher and subscriber) and of the prefix handling in
compiler/parser (grammar.peg `Prefix`/`PrefixToken`/`PrefixWord`, `newScopePrefix`,
`ScopePrefix.Template`).

Strings are `List Char`.  A scope prefix is a list of tokens (`word s` or `{s}`); the
IDL text of the prefix is the tokens joined by '.' (`prefixString`) — the grammar fixes
'.' as the separator INSIDE a prefix, whatever `-delim` is.  The compiler never sees
tokens: it scans the prefix string with the regular expression `{\w*}` (`scanAux`,
variables) and replaces the matches (`replAux`, `ScopePrefix.Template`).  The generators
paste the result and the delimiter into a format string / string literal of the target
language; what that language then makes of the pasted text is modelled by small
interpreters of the formatting constructs (`pct`: Go `fmt.Sprintf` / Java
`String.format`; `br`: Python `str.format`; `dolAux`: Dart string interpolation) that
return a topic TEMPLATE, a list of segments.  Everything outside the `%s` / `{}` /
`$name` fragment becomes the segment `bad` (run-time exception, `%!verb(…)` noise, or
output that does not compile — the model does not distinguish these).

The topic line itself (`"%s" + Title(scope) + delim + "%s"` etc.) is modelled at segment
level.  `tmpl` describes the tree AFTER the fix of the Go generator (the delimiter, not a
literal ".", between scope and operation); `goTopicUnfixed` keeps the old line.
-/
import FV.Basic

namespace FV.Topic

abbrev Str := List Char

/-! ## Prefix tokens, the prefix string, the parser's regular expression -/

inductive Tok where
  | word (s : Str)      -- PrefixWord
  | braced (s : Str)    -- '{' PrefixWord '}'
deriving DecidableEq, Repr

/-- `\w` of Go's regexp (ASCII). -/
def isWordChar (c : Char) : Bool := c.isAlphanum || c == '_'

def Tok.text : Tok → Str
  | .word s => s
  | .braced s => '{' :: (s ++ ['}'])

/-- A token the regular expression `{\w*}` matches: it is a variable. -/
def Tok.isVar : Tok → Bool
  | .word _ => false
  | .braced s => s.all isWordChar

def Tok.varName : Tok → Option Str
  | .word _ => none
  | .braced s => if s.all isWordChar then some s else none

/-- Characters a `PrefixWord` may consist of: `[^\r\n\t\f .{}]`. -/
def okWordChar (c : Char) : Bool :=
  !(c == '\r' || c == '\n' || c == '\t' || c == '\x0c' || c == ' ' || c == '.' || c == '{' || c == '}')

def Tok.inner : Tok → Str
  | .word s => s
  | .braced s => s

/-- Well-formed per the grammar: a non-empty `PrefixWord`, bare or in braces. -/
def Tok.wf (t : Tok) : Bool := !t.inner.isEmpty && t.inner.all okWordChar

def tailString : List Tok → Str
  | [] => []
  | t :: ts => '.' :: (t.text ++ tailString ts)

/-- The prefix as written in the IDL (`ScopePrefix.String`): tokens joined by '.'. -/
def prefixString : List Tok → Str
  | [] => []
  | t :: ts => t.text ++ tailString ts

/-- `prefixVariable.FindAllString(prefix, -1)` for `{\w*}`, braces stripped: a scanner with the
state "inside a candidate match, word characters read so far". -/
def scanAux : Option Str → Str → List Str
  | _, [] => []
  | none, c :: t => if c = '{' then scanAux (some []) t else scanAux none t
  | some acc, c :: t =>
    if isWordChar c then scanAux (some (acc ++ [c])) t
    else if c = '}' then acc :: scanAux none t
    else if c = '{' then scanAux (some []) t
    else scanAux none t

def scanVars (s : Str) : List Str := scanAux none s

/-- `prefixVariable.ReplaceAllString(prefix, repl)` (`ScopePrefix.Template`; `repl` has no `$`). -/
def replAux (repl : Str) : Option Str → Str → Str
  | none, [] => []
  | some acc, [] => '{' :: acc
  | none, c :: t => if c = '{' then replAux repl (some []) t else c :: replAux repl none t
  | some acc, c :: t =>
    if isWordChar c then replAux repl (some (acc ++ [c])) t
    else if c = '}' then repl ++ replAux repl none t
    else if c = '{' then '{' :: (acc ++ replAux repl (some []) t)
    else '{' :: (acc ++ c :: replAux repl none t)

def templateStr (repl : Str) (s : Str) : Str := replAux repl none s

/-- The parser's `identifier` regexp `^[A-Za-z]+[A-Za-z0-9]` (anchored at the start only):
a letter followed by a letter or digit. -/
def identOk : Str → Bool
  | a :: b :: _ => a.isAlpha && b.isAlphanum
  | _ => false

/-- `newScopePrefix`: the variables, or `none` = "invalid prefix variable". -/
def extractVars (pfx : Str) : Option (List Str) :=
  let vs := scanVars pfx
  if vs.all identOk then some vs else none

structure Scope where
  name : Str
  pfx : List Tok          -- [] = no prefix
deriving Repr

def Scope.pfxStr (sc : Scope) : Str := prefixString sc.pfx
/-- `scope.Prefix.Variables` -/
def Scope.vars (sc : Scope) : List Str := scanVars sc.pfxStr

/-! ## Templates -/

inductive Seg where
  | lit (s : Str)
  | var (i : Nat)                 -- i-th prefix variable (argument of the generated method)
  | delim                          -- the generated DELIMITER constant
  | scopeName (titled : Bool)      -- scope name, `strings.Title`d or as written
  | op
  | bad                            -- pasted text the target language does not read as text
deriving DecidableEq, Repr

abbrev Template := List Seg

structure Env where
  vals : List Str
  delim : Str
  op : Str
  name : Str

/-- `strings.Title` on an identifier: the first letter in upper case. -/
def title : Str → Str
  | [] => []
  | c :: t => c.toUpper :: t

def isTitled (s : Str) : Bool := title s == s

def evalSeg (e : Env) : Seg → Option Str
  | .lit s => some s
  | .var i => some (e.vals.getD i [])
  | .delim => some e.delim
  | .scopeName b => some (if b then title e.name else e.name)
  | .op => some e.op
  | .bad => none

def eval (e : Env) : Template → Option Str
  | [] => some []
  | s :: t =>
    match evalSeg e s, eval e t with
    | some a, some b => some (a ++ b)
    | _, _ => none

/-! ## What the target languages make of pasted text -/

/-- Characters that end or escape a double-quoted Go/Java string literal. -/
def hzDQ (c : Char) : Bool := c == '"' || c == '\\'
/-- … a single-quoted Python/Dart literal. -/
def hzSQ (c : Char) : Bool := c == '\'' || c == '\\'
def hzNone (_ : Char) : Bool := false

/-- Text pasted between quotes, no formatting applied. -/
def litq (hz : Char → Bool) (s : Str) : Template :=
  s.map fun c => if hz c then Seg.bad else Seg.lit [c]

/-- Go `fmt.Sprintf` / Java `String.format` on a pasted format string: `%s` takes the next
argument, `%%` is a percent sign, any other verb is `bad` (and consumes an argument, as Go does). -/
def pct (hz : Char → Bool) : Str → Nat → Template
  | [], _ => []
  | c :: t, i =>
    if c = '%' then
      match t with
      | [] => [.bad]
      | d :: t' =>
        if d = 's' then .var i :: pct hz t' (i + 1)
        else if d = '%' then .lit ['%'] :: pct hz t' i
        else .bad :: pct hz t' (i + 1)
    else if hz c then .bad :: pct hz t i
    else .lit [c] :: pct hz t i

/-- Python `'…'.format(args)`: `{}` takes the next argument, `{{` `}}` are braces, other fields are `bad`. -/
def br (hz : Char → Bool) : Str → Nat → Template
  | [], _ => []
  | c :: t, i =>
    if c = '{' then
      match t with
      | [] => [.bad]
      | d :: t' =>
        if d = '}' then .var i :: br hz t' (i + 1)
        else if d = '{' then .lit ['{'] :: br hz t' i
        else .bad :: br hz t' i
    else if c = '}' then
      match t with
      | [] => [.bad]
      | d :: t' => if d = '}' then .lit ['}'] :: br hz t' i else .bad :: br hz t' i
    else if hz c then .bad :: br hz t i
    else .lit [c] :: br hz t i

/-- A Dart `$name`: bound to the method parameter of that name, or an undefined identifier. -/
def resolve (names : List Str) (n : Str) : Seg :=
  if n ∈ names ∧ n ≠ [] then .var (names.idxOf n) else .bad

/-- Dart interpolation in a single-quoted literal: `$` followed by the LONGEST identifier. -/
def dolAux (names : List Str) : Option Str → Str → Template
  | none, [] => []
  | some acc, [] => [resolve names acc]
  | none, c :: t =>
    if c = '$' then dolAux names (some []) t
    else if hzSQ c then .bad :: dolAux names none t
    else .lit [c] :: dolAux names none t
  | some acc, c :: t =>
    if isWordChar c then dolAux names (some (acc ++ [c])) t
    else if c = '$' then resolve names acc :: dolAux names (some []) t
    else if hzSQ c then resolve names acc :: .bad :: dolAux names none t
    else resolve names acc :: .lit [c] :: dolAux names none t

/-! ## The generators -/

inductive Lang where
  | go | java | dart | py | pyAsyncio | pyTornado
deriving DecidableEq, Repr

inductive Role where
  | pub | sub
deriving DecidableEq, Repr

def Lang.isPython : Lang → Bool
  | .py | .pyAsyncio | .pyTornado => true
  | _ => false

/-- golang/java `generatePrefixStringTemplate`. -/
def prefixPct (pfx delim : Str) (vars : List Str) : Template :=
  if vars = [] then (if pfx = [] then [] else litq hzDQ (pfx ++ delim))
  else pct hzDQ (templateStr ['%', 's'] pfx ++ delim) 0

/-- python `generatePrefixStringTemplate`. -/
def prefixPy (pfx delim : Str) (vars : List Str) : Template :=
  if vars = [] then (if pfx = [] then [] else litq hzSQ (pfx ++ delim))
  else br hzSQ (templateStr ['{', '}'] pfx ++ delim) 0

/-- dartlang `generatePrefixStringTemplate`: the text placed between the quotes of
`var prefix = '…'` (a `Sprintf` at generation time with the arguments `$v`). -/
def dartSrc (pfx delim : Str) (vars : List Str) : Option Str :=
  if pfx = [] then some []
  else if vars = [] then some (templateStr ['%', 's'] pfx ++ delim)
  else eval ⟨vars.map (fun v => '$' :: v), [], [], []⟩ (pct hzNone (templateStr ['%', 's'] pfx ++ delim) 0)

def prefixDart (pfx delim : Str) (vars : List Str) : Template :=
  match dartSrc pfx delim vars with
  | none => [.bad]
  | some src => dolAux vars none src

def prefixTmpl (l : Lang) (sc : Scope) (delim : Str) : Template :=
  match l with
  | .go | .java => prefixPct sc.pfxStr delim sc.vars
  | .dart => prefixDart sc.pfxStr delim sc.vars
  | .py | .pyAsyncio | .pyTornado => prefixPy sc.pfxStr delim sc.vars

/-- Publisher: `topic := fmt.Sprintf("%s<Title><delim>%s", prefix, op)` (Go; delimiter pasted),
`String.format("%s<Title>%s%s", prefix, DELIMITER, op)` (Java), `'${prefix}<Title>$delimiter$op'`
(Dart), `'{}<name>{}{}'.format(prefix, self._DELIMITER, op)` (Python). -/
def pubTopic (l : Lang) (delim : Str) : Template :=
  match l with
  | .go => [.scopeName true, .lit delim, .op]
  | .java => [.scopeName true, .delim, .op]
  | .dart => [.scopeName true, .delim, .op]
  | .py | .pyAsyncio | .pyTornado => [.scopeName false, .delim, .op]

/-- Subscriber: the corresponding lines of `GenerateSubscriber` / `generateSubscribeMethod`. -/
def subTopic (l : Lang) (delim : Str) : Template :=
  match l with
  | .go => [.scopeName true, .lit delim, .op]
  | .java => [.scopeName true, .delim, .op]
  | .dart => [.scopeName true, .delim, .op]
  | .py | .pyAsyncio | .pyTornado => [.scopeName false, .delim, .op]

def tmpl (l : Lang) (r : Role) (sc : Scope) (delim : Str) : Template :=
  prefixTmpl l sc delim ++ (match r with | .pub => pubTopic l delim | .sub => subTopic l delim)

/-- Vanilla Python has no generated subscriber (`GenerateSubscriber` only prints a warning). -/
def hasRole : Lang → Role → Bool
  | .py, .sub => false
  | _, _ => true

/-- The Go topic line before the fix: a literal "." between scope and operation. -/
def goTopicUnfixed : Template := [.scopeName true, .lit ['.'], .op]
def tmplGoUnfixed (sc : Scope) (delim : Str) : Template := prefixTmpl .go sc delim ++ goTopicUnfixed

/-- The topic string generated code of language `l` uses for `op` with the variable values `vals`. -/
def evalTopic (l : Lang) (r : Role) (sc : Scope) (vals : List Str) (delim op : Str) : Option Str :=
  eval ⟨vals, delim, op, sc.name⟩ (tmpl l r sc delim)

/-! ## From the public API to the topic lines: parameters, arguments, forwarding

The topic lines use the prefix variables BY NAME (`fmt.Sprintf("…", region, tenant)`). The
values come from the arguments of the public entry point: every emitted function declares the
variables as parameters (in `scope.Prefix.Variables` order) and some entry points only forward
them — Go `Publish<Op>` → `p.methods["publish<Op>"].Invoke([…])` → `publish<Op>`, Go
`Subscribe<Op>` → `Subscribe<Op>Errorable`, Java `Client.publish<Op>` → `proxy.publish<Op>`,
Dart `publish<Op>` → `_methods['<Op>']` → `_publish<Op>`, Python `publish_<Op>` →
`_methods['publish_<Op>']` → `_publish_<Op>`. A call binds the i-th argument to the i-th
parameter; a forwarding call passes the values of the names it lists. -/

/-- The entry points per language. `subAlt`: Go `Subscribe<Op>Errorable`, Java
`subscribe<Op>Throwable` (other languages have none). -/
inductive Entry where
  | pub | sub | subAlt
deriving DecidableEq, Repr

def Entry.role : Entry → Role
  | .pub => .pub
  | _ => .sub

/-- One emitted function that only forwards: its declared variable parameters and the names it
passes on (in the order it passes them). -/
structure Hop where
  params : List Str
  args : List Str
deriving Repr

def lookupVal (env : List (Str × Str)) (n : Str) : Str := (env.lookup n).getD []

/-- The values the innermost function is called with. -/
def runChain : List Hop → List Str → List Str
  | [], vals => vals
  | h :: t, vals => runChain t (h.args.map (lookupVal (h.params.zip vals)))

/-- The forwarding functions between entry point and topic lines, as the generators emit them:
parameters and forwarded arguments are the prefix variables in declaration order. -/
def chain (l : Lang) (e : Entry) (vars : List Str) : List Hop :=
  match l, e with
  | .go, .pub => [⟨vars, vars⟩]          -- Publish<Op> → method table → publish<Op>
  | .go, .sub => [⟨vars, vars⟩]          -- Subscribe<Op> → Subscribe<Op>Errorable
  | .go, .subAlt => []
  | .java, .pub => [⟨vars, vars⟩]        -- Client.publish<Op> → proxy → Internal…publish<Op>
  | .java, _ => []
  | .dart, .pub => [⟨vars, vars⟩]        -- publish<Op> → _methods → _publish<Op>
  | .dart, _ => []
  | _, .pub => [⟨vars, vars⟩]            -- Python publish_<Op> → _methods → _publish_<Op>
  | _, _ => []

/-- Which entry points a language has. -/
def hasEntry : Lang → Entry → Bool
  | .go, _ => true
  | .java, _ => true
  | .py, .pub => true
  | .py, _ => false
  | _, .subAlt => false
  | _, _ => true

/-- The values of the format arguments (the variables, by name, in order) inside the function
that holds the topic lines, when entry point `e` is called with the variable arguments `args`. -/
def reachVals (l : Lang) (e : Entry) (vars : List Str) (args : List Str) : List Str :=
  vars.map (lookupVal (vars.zip (runChain (chain l e vars) args)))

/-- The topic an entry point of the generated code publishes on / subscribes to when called with
the variable arguments `args` (in prefix order). -/
def entryTopic (l : Lang) (e : Entry) (sc : Scope) (args : List Str) (delim op : Str) : Option Str :=
  eval ⟨reachVals l e sc.vars args, delim, op, sc.name⟩ (tmpl l e.role sc delim)

/-! ## The specification

The topic is: the prefix with its variables substituted (tokens joined by '.', as written in
the IDL), the scope name, the operation name — joined by the delimiter; without a prefix there
is no leading delimiter (README: `<scope>.<operation>`, `foo.bar.Events.EventCreated`).  The scope
name appears capitalised (three of four generators; identical to the name as written when that
is already capitalised); `specRaw` is the reading "exactly as written". -/

def substTok (vals : List Str) (t : Tok) (i : Nat) : Str :=
  if t.isVar then vals.getD i [] else t.text

def nextIdx (t : Tok) (i : Nat) : Nat := if t.isVar then i + 1 else i

def substTail (vals : List Str) : List Tok → Nat → Str
  | [], _ => []
  | t :: ts, i => '.' :: (substTok vals t i ++ substTail vals ts (nextIdx t i))

def substPrefix (vals : List Str) : List Tok → Str
  | [] => []
  | t :: ts => substTok vals t 0 ++ substTail vals ts (nextIdx t 0)

def specWith (nm : Str) (sc : Scope) (vals : List Str) (delim op : Str) : Str :=
  (if sc.pfx = [] then [] else substPrefix vals sc.pfx ++ delim) ++ (nm ++ (delim ++ op))

def spec (sc : Scope) (vals : List Str) (delim op : Str) : Str := specWith (title sc.name) sc vals delim op
def specRaw (sc : Scope) (vals : List Str) (delim op : Str) : Str := specWith sc.name sc vals delim op

/-! ## The classes of the recorded findings -/

/-- Characters that are not plain text in at least one target's format string / literal. -/
def plainChar (c : Char) : Bool :=
  !(c == '%' || c == '"' || c == '\'' || c == '\\' || c == '$' || c == '{' || c == '}')

def plainStr (s : Str) : Bool := s.all plainChar

/-- Every static token consists of characters satisfying `P`. -/
def tokensOk (P : Char → Bool) (ts : List Tok) : Bool := ts.all fun t => t.isVar || t.text.all P

/-- No static token contains any format / quoting character: safe in every language. -/
def plainTokens (ts : List Tok) : Bool := tokensOk plainChar ts

/-- The EXACT class of the finding prefix-token-format-chars (known/c08_format_chars_expected.json,
re-established against the real generators on every run): the characters of a static token that
language `l` does not read as text, depending on whether the prefix has variables (`hv`).
Without variables the prefix is pasted into a plain string literal (only the quote and the
backslash matter; Dart literals are always interpolated: `$`); with variables it becomes a
`fmt.Sprintf` / `String.format` format (`%`), a `str.format` format (`{` `}`), or goes through
`Sprintf` at generation time and Dart interpolation (`%`, `$`). -/
def hazard (l : Lang) (hv : Bool) (c : Char) : Bool :=
  match l with
  | .go | .java => c == '"' || c == '\\' || (hv && c == '%')
  | .dart => c == '\'' || c == '\\' || c == '$' || (hv && c == '%')
  | .py | .pyAsyncio | .pyTornado => c == '\'' || c == '\\' || (hv && (c == '{' || c == '}'))

def safeChar (l : Lang) (hv : Bool) (c : Char) : Bool := !hazard l hv c

/-- The static tokens of the scope are outside the finding's class for language `l`. -/
def safeTokens (l : Lang) (sc : Scope) : Bool := tokensOk (safeChar l (!sc.vars.isEmpty)) sc.pfx

def lastIsVar : List Tok → Bool
  | [] => false
  | [t] => t.isVar
  | _ :: t :: ts => lastIsVar (t :: ts)

def identStart : Str → Bool
  | [] => false
  | c :: _ => isWordChar c

/-- Dart reads `$user__` as the identifier `user__`: a prefix ending in a variable must not be
followed by a delimiter that continues the identifier (finding dart-variable-glued-to-delimiter). -/
def dartSafe (ts : List Tok) (delim : Str) : Bool := !(lastIsVar ts && identStart delim)

end FV.Topic
