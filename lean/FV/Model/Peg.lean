/-
A generic PEG interpreter with pigeon's semantics (github.com/mna/pigeon, the generator of
`compiler/parser/grammar.peg.go`), fuel-indexed so that it is total and structurally recursive.
Core Lean only (linked into the driver).

Correspondence with the generated parser (`grammar.peg.go`, functions `parse*Expr`):
* `seq`     parseSeqExpr: all in order; on a failure the position is restored, result `fail`.
            Value: the slice of the values.
* `choice`  parseChoiceExpr: first alternative that matches (ordered, no backtracking into it).
* `star`/`plus` parseZeroOrMoreExpr / parseOneOrMoreExpr: greedy, never give back. A body that
            matches without consuming loops forever in pigeon; here it runs out of fuel.
* `opt`     parseZeroOrOneExpr: value or `nil`, always a match.
* `andP`/`notP` parseAndExpr / parseNotExpr: consume nothing, value `nil`.
* `lit`     parseLitMatcher (with `ignoreCase` the INPUT rune is lower-cased; the translator
            lower-cases the literal, as pigeon does). Value: the matched text.
* `cls`     parseCharClassMatcher: listed characters, ranges, inversion; never matches at end of input.
* `any`     parseAnyMatcher: any one character; fails at end of input.
* `ref`     parseRuleRefExpr → parseRule: the rule's expression (an undefined rule is a failure).
* `lab`     parseLabeledExpr: the value, remembered under the label for the enclosing action.
* `act`     parseActionExpr: the action runs when its expression matched; `c.text` is the text
            matched by the expression. The action's Go code is not part of the grammar value: the
            tree keeps tag, matched text and the sub-tree, `FV.Model.IdlActions` interprets them.
Memoisation is off in the real parser (`Memoize(false)` default) and would not change results.
Fuel is a bound on the recursion DEPTH (every recursive call passes `fuel - 1`); a repetition
costs one unit per iteration, so `c·(|input|+1)` suffices for this grammar (the driver reports
`outOfFuel` as a disagreement if it ever happens).
-/
namespace FV.Peg

inductive Expr where
  | seq (es : List Expr)
  | choice (es : List Expr)
  | star (e : Expr)
  | plus (e : Expr)
  | opt (e : Expr)
  | andP (e : Expr)
  | notP (e : Expr)
  | lit (s : List Char) (ignoreCase : Bool)
  | cls (chars : List Char) (ranges : List (Char × Char)) (inverted : Bool) (ignoreCase : Bool)
  | any
  | ref (name : String)
  | lab (name : String) (e : Expr)
  | act (tag : String) (e : Expr)
  deriving Repr, Inhabited

abbrev Grammar := List (String × Expr)

/-- The value pigeon builds (`interface{}`), with labels and actions kept as nodes. -/
inductive Tree where
  | nil
  | text (cs : List Char)
  | seq (ts : List Tree)
  | lab (name : String) (t : Tree)
  | act (tag : String) (text : List Char) (t : Tree)
  deriving Repr, Inhabited

inductive PRes (α : Type) where
  | ok (a : α) (rest : List Char)
  | fail
  | outOfFuel
  deriving Repr, Inhabited

def lowerChar (c : Char) : Char := if 'A' ≤ c ∧ c ≤ 'Z' then Char.ofNat (c.toNat + 32) else c

/-- `parseLitMatcher`: the literal as a prefix of the input. -/
def matchLit (ic : Bool) : List Char → List Char → Option (List Char)
  | [], inp => some inp
  | _ :: _, [] => none
  | w :: ws, c :: cs => if (if ic then lowerChar c else c) = w then matchLit ic ws cs else none

def inRanges (c : Char) : List (Char × Char) → Bool
  | [] => false
  | (lo, hi) :: t => (lo ≤ c && c ≤ hi) || inRanges c t

/-- `parseCharClassMatcher` on one character. -/
def clsMatches (chars : List Char) (ranges : List (Char × Char)) (inverted ic : Bool) (c : Char) : Bool :=
  let c' := if ic then lowerChar c else c
  let hit := chars.contains c' || inRanges c' ranges
  if inverted then !hit else hit

/-- The text consumed between input `inp` and remainder `rest` (`p.sliceFrom(start)`). -/
def consumed (inp rest : List Char) : List Char := inp.take (inp.length - rest.length)

mutual
/-- `parseExpr`. -/
def pExpr (g : Grammar) : Nat → Expr → List Char → PRes Tree
  | 0, _, _ => .outOfFuel
  | f + 1, e, inp =>
    match e with
    | .any => match inp with
      | c :: r => .ok (.text [c]) r
      | [] => .fail
    | .lit s ic => match matchLit ic s inp with
      | some r => .ok (.text (consumed inp r)) r
      | none => .fail
    | .cls cs rs inv ic => match inp with
      | c :: r => if clsMatches cs rs inv ic c then .ok (.text [c]) r else .fail
      | [] => .fail
    | .ref n => match g.lookup n with
      | some e' => pExpr g f e' inp
      | none => .fail
    | .lab n e' => match pExpr g f e' inp with
      | .ok t r => .ok (.lab n t) r
      | .fail => .fail
      | .outOfFuel => .outOfFuel
    | .act tag e' => match pExpr g f e' inp with
      | .ok t r => .ok (.act tag (consumed inp r) t) r
      | .fail => .fail
      | .outOfFuel => .outOfFuel
    | .opt e' => match pExpr g f e' inp with
      | .ok t r => .ok t r
      | .fail => .ok .nil inp
      | .outOfFuel => .outOfFuel
    | .andP e' => match pExpr g f e' inp with
      | .ok _ _ => .ok .nil inp
      | .fail => .fail
      | .outOfFuel => .outOfFuel
    | .notP e' => match pExpr g f e' inp with
      | .ok _ _ => .fail
      | .fail => .ok .nil inp
      | .outOfFuel => .outOfFuel
    | .seq es => match pSeq g f es inp with
      | .ok ts r => .ok (.seq ts) r
      | .fail => .fail
      | .outOfFuel => .outOfFuel
    | .choice es => pChoice g f es inp
    | .star e' => match pStar g f e' inp with
      | .ok ts r => .ok (.seq ts) r
      | .fail => .fail
      | .outOfFuel => .outOfFuel
    | .plus e' => match pExpr g f e' inp with
      | .ok t r => match pStar g f e' r with
        | .ok ts r' => .ok (.seq (t :: ts)) r'
        | .fail => .fail
        | .outOfFuel => .outOfFuel
      | .fail => .fail
      | .outOfFuel => .outOfFuel
/-- `parseSeqExpr`. -/
def pSeq (g : Grammar) : Nat → List Expr → List Char → PRes (List Tree)
  | 0, _, _ => .outOfFuel
  | _ + 1, [], inp => .ok [] inp
  | f + 1, e :: es, inp => match pExpr g f e inp with
    | .ok t r => match pSeq g f es r with
      | .ok ts r' => .ok (t :: ts) r'
      | .fail => .fail
      | .outOfFuel => .outOfFuel
    | .fail => .fail
    | .outOfFuel => .outOfFuel
/-- `parseChoiceExpr`. -/
def pChoice (g : Grammar) : Nat → List Expr → List Char → PRes Tree
  | 0, _, _ => .outOfFuel
  | _ + 1, [], _ => .fail
  | f + 1, e :: es, inp => match pExpr g f e inp with
    | .ok t r => .ok t r
    | .fail => pChoice g f es inp
    | .outOfFuel => .outOfFuel
/-- `parseZeroOrMoreExpr`. -/
def pStar (g : Grammar) : Nat → Expr → List Char → PRes (List Tree)
  | 0, _, _ => .outOfFuel
  | f + 1, e, inp => match pExpr g f e inp with
    | .ok t r => match pStar g f e r with
      | .ok ts r' => .ok (t :: ts) r'
      | .fail => .fail
      | .outOfFuel => .outOfFuel
    | .fail => .ok [] inp
    | .outOfFuel => .outOfFuel
end

/-- `parse fuel g rule input`: the rule's expression on the input (`parseRule`); the result
carries the tree and the unconsumed rest. -/
def parse (fuel : Nat) (g : Grammar) (rule : String) (inp : List Char) : PRes Tree :=
  pExpr g fuel (.ref rule) inp

end FV.Peg
