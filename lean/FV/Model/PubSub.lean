/-
Model of pub/sub delivery (C07):

  lib/go/client.go                  FStandardClient.Publish / prepareMessage (publisher side)
  generator.go (emitted code)       publish<Op>: `_topic_<var>` headers, topic; recv<Op>: header read,
                                    op-name check, payload read, handler
  lib/go/nats_scope_transport.go    fNatsSubscriberTransport: work queue, n workers, Unsubscribe
  lib/go/stomp_transport.go         fStompSubscriberTransport: processMessages, Unsubscribe
                                    (+ go-stomp's Subscription hand-over, `Stomp` section below)

ENVIRONMENT (assumed, stated, exercised by the harness — not proved): the broker hands a
subscription the messages published on its topic in FIFO order, each at most once, and none
that was published after the unsubscribe was acknowledged. Thrift protocols are environment
too: what follows the Frugal header block is represented by what the TProtocol layered on the
remaining bytes yields (`Tail`), exactly as the C02 model represents a struct by its stream of
TProtocol calls.

A message is a `Packet`: the bytes Frugal's own code parses (frame-size prefix and header
block — or anything at all, for a malformed message) and the `Tail`.

The handler's FContext is `serverCtx hdrs fresh` of the decoded header map (C09: every
publisher header, `_opid` replaced by a fresh one); a `Delivery` records the decoded map itself,
which determines it.
-/
import FV.Basic
import FV.Model.Headers
import FV.Model.Registry0
import FV.Model.Receivers
import FV.Model.Thrift

namespace FV.PubSub
open FV FV.Thrift

abbrev Topic := Bytes

/-- What follows the header block, as seen through the TProtocol. -/
inductive Tail where
  | garbage                                   -- `ReadMessageBegin` fails (nothing there / not an envelope)
  | msg (name : String) (es : List Event)     -- envelope naming `name`, then these TProtocol events
  deriving Repr

structure Packet where
  data : Bytes          -- frame-size prefix ++ header block; arbitrary bytes for a malformed message
  tail : Tail
  deriving Repr

/-- One `FPublisherTransport.Publish(topic, data)` reaching the broker. -/
structure Published where
  topic : Topic
  pkt : Packet
  deriving Repr

/-- The subscriber of one operation: definitions table, depth budget, op name, payload type. -/
structure SubCfg where
  d : Defs
  fuel : Nat
  op : String
  ty : Ty

/-- One handler invocation: the decoded header map and the payload value. -/
structure Delivery where
  hdrs : Hdrs
  payload : Val
  deriving Repr

inductive Outcome where
  | delivered (dl : Delivery)
  | discarded                 -- the transport dropped it before the callback (shorter than 4 bytes)
  | failed (e : Err)          -- the callback returned an error (logged by the transport)
  | crashed (p : Panic)       -- a panic: lib/go has no recover, the process dies
  deriving Repr

/-! ### Publisher side -/

/-- `"_topic_"`. -/
def topicHeaderPrefix : Bytes := [95, 116, 111, 112, 105, 99, 95]

/-- The emitted `publish<Op>`: one `fctx.AddRequestHeader("_topic_<var>", value)` per prefix
variable, in declaration order, on top of the context's request headers. -/
def pubHeaders (ctxReq : Hdrs) (vars : List (Bytes × Bytes)) : Hdrs :=
  ctxReq.setAll (vars.map fun nv => (topicHeaderPrefix ++ nv.1, nv.2))

/-- `prepareMessage`: size prefix, `WriteRequestHeader`, `WriteMessageBegin(op, CALL, 0)`, the
emitted `Write` of the payload. `sz` is the frame size written in front (no receiver reads it). -/
def publishPkt (c : SubCfg) (sz : Nat) (hdrs : Hdrs) (v : Val) : Res Packet :=
  match encV c.d c.fuel c.ty v with
  | .ok es => .ok ⟨be32 sz ++ marshal hdrs, .msg c.op es⟩
  | .err e => .err e
  | .panic p => .panic p

/-! ### Subscriber side: the emitted callback and the transport's worker -/

/-- The emitted `recv<Op>` callback on the bytes after the frame-size prefix. -/
def callback (c : SubCfg) (body : Bytes) (tail : Tail) : Outcome :=
  match unmarshalStream body with
  | .panic p => .crashed p
  | .err e => .failed e
  | .ok (h, _) =>
    if (h.get? opIdHeader).isNone then .failed .invalidData      -- ReadRequestHeader: request missing op id
    else match tail with
      | .garbage => .failed .other                               -- ReadMessageBegin error
      | .msg name es =>
        if name ≠ c.op then .failed .other                       -- UNKNOWN_METHOD application exception
        else match decV c.d c.fuel c.ty es with
          | .ok (v, _) => .delivered ⟨h, v⟩
          | .err e => .failed e
          | .panic p => .crashed p

/-- What a worker (NATS `worker`, STOMP `processMessages`) does with one message. -/
def handle (c : SubCfg) (p : Packet) : Outcome :=
  if p.data.length < 4 then .discarded else callback c (p.data.drop 4) p.tail

def Outcome.delivery? : Outcome → Option Delivery
  | .delivered dl => some dl
  | _ => none

def Outcome.isCrash : Outcome → Bool
  | .crashed _ => true
  | _ => false

/-- The handler invocation a message leads to, if any. -/
def deliver (c : SubCfg) (p : Packet) : Option Delivery := (handle c p).delivery?

/-- One worker goroutine: alive flag, handler invocations (oldest first), callback
invocations, callback errors. Extends `FV.Worker` (C05), which only counts. -/
structure WState where
  alive : Bool
  log : List Delivery
  cbs : Nat
  errs : Nat
  deriving Repr

def WState.init : WState := ⟨true, [], 0, 0⟩

def WState.recv (c : SubCfg) (w : WState) (p : Packet) : WState :=
  if !w.alive then w else
  match handle c p with
  | .discarded => w                                             -- `continue`
  | .delivered dl => { w with log := w.log ++ [dl], cbs := w.cbs + 1 }
  | .failed _ => { w with cbs := w.cbs + 1, errs := w.errs + 1 }
  | .crashed _ => { w with alive := false }

def WState.recvAll (c : SubCfg) (w : WState) (ps : List Packet) : WState := ps.foldl (WState.recv c) w

/-! ### Broker (assumed contract) -/

/-- Per-topic FIFO to a subscription on `topic`. -/
def brokerDeliver (topic : Topic) (pubs : List Published) : List Packet :=
  (pubs.filter fun m => m.topic = topic).map (·.pkt)

/-- A subscriber that stays subscribed, one worker: everything published, in order. -/
def run1 (c : SubCfg) (topic : Topic) (pubs : List Published) : WState :=
  WState.init.recvAll c (brokerDeliver topic pubs)

/-! ### n workers: arbitrary interleavings -/

/-- `Merge ls out`: `out` is an interleaving of the lists `ls` (each keeps its own order). -/
inductive Merge {α : Type} : List (List α) → List α → Prop where
  | done (ls : List (List α)) (h : ∀ l ∈ ls, l = []) : Merge ls []
  | take (pre : List (List α)) (x : α) (t : List α) (post : List (List α)) (out : List α)
      (h : Merge (pre ++ t :: post) out) : Merge (pre ++ (x :: t) :: post) (x :: out)

/-! ### Subscription life cycle as a transition system (any schedule) -/

structure St where
  subscribed : Bool          -- the broker has the subscription
  queue : List Packet        -- handed over by the broker, not yet taken by a worker (nats.go pending + workC / sub.C)
  quit : Bool                -- quit signal given (`close(quitC)`; STOMP: `sub.C` closed, then `close(stopC)`)
  unsubReturned : Bool
  w : WState
  accepted : List Packet     -- history: everything the broker ever handed over (ghost)
  deriving Repr

def St.init : St := ⟨true, [], false, false, WState.init, []⟩

inductive Act where
  | publish (m : Published)   -- a publisher's message reaches the broker
  | work                      -- a worker takes the oldest queued message and handles it
  | unsubscribe               -- Unsubscribe: removed at the broker, then the quit signal; returns
  | abandon                   -- the workers observe the quit signal: what is still queued is dropped
  deriving Repr

/-- `none` = not enabled. After the quit signal a worker may still take a message (the `select`
between `quitC` and `workC` is a race) or stop. -/
def step (c : SubCfg) (topic : Topic) (s : St) : Act → Option St
  | .publish m =>
    if s.subscribed ∧ m.topic = topic then
      some { s with queue := s.queue ++ [m.pkt], accepted := s.accepted ++ [m.pkt] }
    else some s
  | .work =>
    match s.queue with
    | [] => none
    | p :: q => some { s with queue := q, w := s.w.recv c p }
  | .unsubscribe => some { s with subscribed := false, quit := true, unsubReturned := true }
  | .abandon => if s.quit then some { s with queue := [] } else none

def run (c : SubCfg) (topic : Topic) : St → List Act → Option St
  | s, [] => some s
  | s, a :: as => match step c topic s a with
    | some s' => run c topic s' as
    | none => none

/-- The publishes of a schedule that precede its first `unsubscribe`. -/
def pubsBeforeUnsub : List Act → List Published
  | [] => []
  | .publish m :: as => m :: pubsBeforeUnsub as
  | .unsubscribe :: _ => []
  | _ :: as => pubsBeforeUnsub as

/-! ### go-stomp's hand-over and `Unsubscribe` (why the order in `Unsubscribe` matters)

`frames`: what the broker sent on the connection and the client has not yet processed, oldest first
(`true` = a MESSAGE of this subscription, `false` = the RECEIPT of the UNSUBSCRIBE). go-stomp's
subscription loop moves a MESSAGE into `sub.C` (capacity `cap`, blocking when full) and only then
looks at the next frame; the RECEIPT closes the subscription, which is what `Unsubscribe` waits for.
`loopRunning` = frugal's `processMessages` is still draining `sub.C`. -/

structure Stomp where
  cap : Nat
  frames : List Bool
  subC : Nat                 -- messages sitting in sub.C
  loopRunning : Bool
  closed : Bool              -- RECEIPT processed: `Subscription.Unsubscribe` returns
  deriving Repr, DecidableEq

inductive SAct where
  | handOver       -- go-stomp: next frame is a MESSAGE and sub.C has room
  | receipt        -- go-stomp: next frame is the RECEIPT
  | drain          -- frugal: processMessages takes one message from sub.C (and runs the callback)
  deriving Repr, DecidableEq

def sstep (s : Stomp) : SAct → Option Stomp
  | .handOver => match s.frames with
    | true :: fs => if s.subC < s.cap then some { s with frames := fs, subC := s.subC + 1 } else none
    | _ => none
  | .receipt => match s.frames with
    | false :: fs => some { s with frames := fs, closed := true }
    | _ => none
  | .drain => if s.loopRunning ∧ 0 < s.subC then some { s with subC := s.subC - 1 } else none

/-- State when `Unsubscribe` waits for the RECEIPT with `k` messages in flight before it.
`stopFirst = true`: `close(stopC)` came first (the loop is no longer draining) — the code before
the fix; `false`: the loop keeps running until `sub.C` is closed — the code as it is. -/
def Stomp.waiting (cap k : Nat) (stopFirst : Bool) : Stomp :=
  ⟨cap, List.replicate k true ++ [false], 0, !stopFirst, false⟩

end FV.PubSub
