/-
Lock discipline of lib/go, decided on facts REGENERATED from the source on every check
(harness/locks → FV/Generated/Locks.lean).

The transition-system models of the registry (C01/C06/C13), of the processor's write mutex
(C14/C20), of the adapter's lifecycle lock (C15) and of FContext (C17) treat a critical section
as ONE atomic step and a mutex as always released when a function returns. That abstraction is
sound only if, in the Go code,

  (N) no function, while it holds a mutex, calls — directly or through callees — something that
      acquires the same mutex (Go's mutexes are not re-entrant: Lock under Lock deadlocks at once,
      RLock under RLock deadlocks as soon as a writer queues between the two), and
  (L) every function releases on every path what it locked.

`Fn` is one function as the extractor saw it; mutexes and functions are numbers (names are in
the generated file). `closure` computes, per function, the set of mutexes acquired by it or by
anything it reaches through resolved calls, as a bit mask; `closed` checks that the result IS
closed under the call relation (so the number of iterations is not trusted), `ok` is the
discipline restricted to the mutexes whose tag is in `tags` (tag 0 = unclassified counts for
every property).
-/
namespace FV.Locks

structure Fn where
  id : Nat
  acquires : List Nat            -- mutexes locked in the body
  calls : List Nat               -- resolved callees
  heldCalls : List (Nat × Nat)   -- (mutex held, callee)
  relocks : List Nat             -- mutex locked again while lexically held
  leaks : List Nat               -- mutex locked here and still held at a return
  heldAcq : List (Nat × Nat) := []  -- (mutex held, ANOTHER mutex locked lexically under it)
  deriving Repr

def bit (m : Nat) : Nat := 1 <<< m

def maskOf (ms : List Nat) : Nat := ms.foldl (fun a m => a ||| bit m) 0

def hasBit (mask m : Nat) : Bool := mask.testBit m

/-- One round: every function's mask absorbs the masks of its callees. -/
def step (fs : List Fn) (r : List Nat) : List Nat :=
  fs.map fun f => f.calls.foldl (fun a g => a ||| r.getD g 0) (maskOf f.acquires ||| r.getD f.id 0)

def iter (fs : List Fn) : Nat → List Nat → List Nat
  | 0, r => r
  | n + 1, r => iter fs n (step fs r)

/-- 6 rounds cover call chains of that depth; `closed` below makes the bound untrusted. -/
def closure (fs : List Fn) : List Nat := iter fs 6 (fs.map fun f => maskOf f.acquires)

/-- `r` contains every function's own acquisitions and is closed under calls. -/
def closed (fs : List Fn) (r : List Nat) : Bool :=
  r.length == fs.length &&
  fs.all fun f =>
    let mine := r.getD f.id 0
    (maskOf f.acquires &&& mine) == maskOf f.acquires &&
    f.calls.all fun g => (r.getD g 0 &&& mine) == r.getD g 0

/-- Ids are positions (what `getD` relies on). -/
def wellNumbered (fs : List Fn) : Bool :=
  (fs.zipIdx.all fun (f, i) => f.id == i) && fs.all fun f => f.calls.all (· < fs.length) && f.heldCalls.all (·.2 < fs.length)

def relevant (tags : List Nat) (mutexTags : List Nat) (m : Nat) : Bool :=
  let t := mutexTags.getD m 0
  t == 0 || tags.contains t

/-- (N) for the mutexes tagged `tags`: no call made under mutex `m` reaches an acquisition of `m`,
and no lexical re-lock. -/
def noNested (tags mutexTags : List Nat) (fs : List Fn) (r : List Nat) : Bool :=
  fs.all fun f =>
    (f.heldCalls.all fun (m, g) => !(relevant tags mutexTags m) || !(hasBit (r.getD g 0) m)) &&
    (f.relocks.all fun m => !(relevant tags mutexTags m))

/-- (L) for the mutexes tagged `tags`. -/
def noLeak (tags mutexTags : List Nat) (fs : List Fn) : Bool :=
  fs.all fun f => f.leaks.all fun m => !(relevant tags mutexTags m)

def ok (tags mutexTags : List Nat) (fs : List Fn) : Bool :=
  let r := closure fs
  wellNumbered fs && closed fs r && noNested tags mutexTags fs r && noLeak tags mutexTags fs

/-- No mutex whose tag is in `tags` is acquired on any resolved call path that starts at one of `roots`
(the lifecycle lock is held across the underlying transport's Open / Close, which may stall in the
network: a call that had to take it could not honour its FContext timeout). -/
def rootsAvoid (tags mutexTags : List Nat) (fs : List Fn) (roots : List Nat) : Bool :=
  let r := closure fs
  wellNumbered fs && closed fs r && roots.all fun f =>
    (List.range mutexTags.length).all fun m =>
      !(tags.contains (mutexTags.getD m 0)) || !(hasBit (r.getD f 0) m)

/-! ### Lock order: no cycle among different mutexes

`m → m'` when some function acquires `m'` (itself or through callees) while it holds `m`. A cycle
`m → … → m` is the classic two-lock deadlock. The relation is collected per mutex as a mask and closed
like the call graph; `acyclic` says no mutex reaches itself. -/

/-- Direct successors of every mutex (index = mutex id): what is acquired under it anywhere. -/
def orderSucc (nm : Nat) (fs : List Fn) (r : List Nat) : List Nat :=
  (List.range nm).map fun m =>
    fs.foldl (fun a f =>
      let viaCalls := f.heldCalls.foldl (fun a' (h, g) => if h == m then a' ||| r.getD g 0 else a') a
      f.heldAcq.foldl (fun a' (h, k) => if h == m then a' ||| bit k else a') viaCalls) 0

def orderStep (succ : List Nat) (t : List Nat) : List Nat :=
  t.zipIdx.map fun (mask, _) =>
    (List.range succ.length).foldl (fun a k => if hasBit mask k then a ||| t.getD k 0 else a) mask

def orderIter (succ : List Nat) : Nat → List Nat → List Nat
  | 0, t => t
  | n + 1, t => orderIter succ n (orderStep succ t)

/-- Every mutex id that occurs is below `nm`. -/
def inRange (nm : Nat) (fs : List Fn) : Bool :=
  fs.all fun f => f.acquires.all (· < nm) && f.heldAcq.all (fun (m, k) => m < nm && k < nm) &&
    f.heldCalls.all (fun (m, _) => m < nm)

/-- `t` covers every order edge: what is acquired lexically under `m`, and everything the callees of calls
made under `m` can acquire (their closed masks `r`). Checked directly on the facts, so that how `t` was
computed (`orderSucc`, `orderIter`) is not trusted. -/
def orderCovers (fs : List Fn) (r t : List Nat) : Bool :=
  fs.all fun f =>
    (f.heldCalls.all fun (m, g) => (r.getD g 0 &&& t.getD m 0) == r.getD g 0) &&
    (f.heldAcq.all fun (m, k) => hasBit (t.getD m 0) k)

/-- `t` is transitively closed. -/
def orderTrans (nm : Nat) (t : List Nat) : Bool :=
  (List.range nm).all fun m => (List.range nm).all fun k =>
    !(hasBit (t.getD m 0) k) || (t.getD k 0 &&& t.getD m 0) == t.getD k 0

/-- No cycle among the mutexes tagged `tags` (tag 0 counts for everybody): nobody reaches itself. The
self-edge is excluded already by `noNested`; here it would also show, conservatively. -/
def acyclic (tags mutexTags : List Nat) (fs : List Fn) : Bool :=
  let r := closure fs
  let nm := mutexTags.length
  let succ := orderSucc nm fs r
  let t := orderIter succ 6 succ
  wellNumbered fs && closed fs r && inRange nm fs && orderCovers fs r t && orderTrans nm t &&
  (List.range nm).all fun m => !(relevant tags mutexTags m) || !(hasBit (t.getD m 0) m)

/-- f0 takes mutex 1 under mutex 0, f1 takes mutex 0 under mutex 1: a cycle; one direction only: fine. -/
example : acyclic [1] [1, 1] [⟨0, [0, 1], [], [], [], [], [(0, 1)]⟩, ⟨1, [0, 1], [], [], [], [], [(1, 0)]⟩] = false ∧
    acyclic [1] [1, 1] [⟨0, [0, 1], [], [], [], [], [(0, 1)]⟩, ⟨1, [0, 1], [], [], [], [], []⟩] = true := by decide

/-! ### Guarded-by: fields of a mutex-holding struct are written under its write lock

`unguardedUnexpected` (regenerated) lists, with the tag of the struct's lock, every write to a field of a struct
that holds a mutex which is made while no mutex of that struct is write-held — in a method that is not only
ever called under one — and which `known/locks_unguarded_expected.txt` does not classify (set-up before use,
single-reader contract). A derived value stored after the read lock was released (a cache filled from a stale
read), a counter bumped outside the lock, a map replaced without it all show up here; the race detector is
silent about the atomic variants. -/

/-- No unclassified unguarded write concerns the locks tagged `tags` (tag 0 counts for everybody). -/
def writesGuarded (tags : List Nat) (u : List (Nat × String)) : Bool :=
  u.all fun p => !(p.1 == 0 || tags.contains p.1)

example : writesGuarded [4] [(4, "FContextImpl.Timeout:FContextImpl.timeout")] = false ∧
    writesGuarded [4] [(2, "x")] = true ∧ writesGuarded [4] [(0, "y")] = false ∧ writesGuarded [4] [] = true := by decide

/-! ### Panic safety of critical sections

`manualUnexpected` (regenerated) lists every call made while a mutex is held that no deferred unlock covers and
that is not hand-classified as unable to panic: the servers recover a panic of user-supplied code (a handler, the
serialisation of a handler's result) and carry on, so a mutex released by hand after such a call stays locked for
ever and every later request that needs it is never answered. -/

/-- No unclassified call under a hand-released lock concerns the locks tagged `tags` (tag 0 counts for everybody). -/
def releasedByDefer (tags : List Nat) (u : List (Nat × String)) : Bool := writesGuarded tags u

example : releasedByDefer [5] [(5, "FBaseProcessorFunction.SendReply:FBaseProcessor.writeMu:f.sendReply")] = false ∧
    releasedByDefer [5] [] = true := by decide

/-! Sanity of the decision procedure on the two shapes it exists for (kernel-evaluated). -/

/-- f0 holds mutex 0 and calls f1, which calls f2, which takes mutex 0 again: rejected. -/
example : ok [1] [1] [⟨0, [0], [1], [(0, 1)], [], [], []⟩, ⟨1, [], [2], [], [], [], []⟩, ⟨2, [0], [], [], [], [], []⟩] = false := by decide

/-- The same call chain made after the unlock: accepted. -/
example : ok [1] [1] [⟨0, [0], [1], [], [], [], []⟩, ⟨1, [], [2], [], [], [], []⟩, ⟨2, [0], [], [], [], [], []⟩] = true := by decide

/-- A path that returns with the mutex held: rejected; under another property's tag: not its business. -/
example : ok [1] [1] [⟨0, [0], [], [], [], [0], []⟩] = false ∧ ok [2] [1] [⟨0, [0], [], [], [], [0], []⟩] = true := by decide

/-- A root that reaches (two calls deep) an acquisition of the tagged mutex: rejected; of another mutex: accepted. -/
example : rootsAvoid [2] [2, 1] [⟨0, [], [1], [], [], [], []⟩, ⟨1, [], [2], [], [], [], []⟩, ⟨2, [0], [], [], [], [], []⟩] [0] = false ∧
    rootsAvoid [2] [2, 1] [⟨0, [], [1], [], [], [], []⟩, ⟨1, [], [2], [], [], [], []⟩, ⟨2, [1], [], [], [], [], []⟩] [0] = true := by decide

end FV.Locks
