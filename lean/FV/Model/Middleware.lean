/-
Model of lib/go/middleware.go (ServiceMiddleware, InvocationHandler, Method,
NewMethod, composeMiddleware, Invoke, AddMiddleware), of the middleware part of
lib/go/provider.go and lib/go/processor.go, and of the wiring the Go generator
emits (compiler/generator/golang/generator.go) for clients, processors (incl.
`extends` chains), publishers and subscribers.

An invocation returns its results together with the ordered trace of what the
middleware and the proxied function observed. Arguments `α` and results `ρ`
are arbitrary types (the driver instantiates them with strings / string+error).
Core Lean only (linked into the driver).
-/
import FV.Basic

namespace FV.Mw

/-- What can be observed during one invocation. -/
inductive Ev (α ρ : Type) where
  | enter (i : Nat) (a : α)   -- middleware `i` was called with arguments `a`
  | base (a : α)              -- the proxied function was called with `a`
  | exit (i : Nat) (r : ρ)    -- middleware `i` got `r` back from `next`
  deriving DecidableEq, Repr

/-- `InvocationHandler`: arguments to results, plus the trace of the call. -/
abbrev Handler (α ρ : Type) := α → ρ × List (Ev α ρ)

/-- `ServiceMiddleware func(InvocationHandler) InvocationHandler`: any function. -/
abbrev Middleware (α ρ : Type) := Handler α ρ → Handler α ρ

/-- `newInvocationHandler(method)`: calls the proxied function. -/
def baseHandler (f : α → ρ) : Handler α ρ := fun a => (f a, [Ev.base a])

/-- `composeMiddleware`:
```go
handler := newInvocationHandler(method)
for _, m := range middleware { handler = m(handler) }
```
a left fold in list order: every later element is applied to (wraps) the result so far. -/
def compose (base : Handler α ρ) (ms : List (Middleware α ρ)) : Handler α ρ :=
  ms.foldl (fun h m => m h) base

/-- A *wrapping* middleware with label `i`: records what it was called with, calls
`next` exactly once on the (possibly rewritten) arguments, records what came back,
returns the (possibly rewritten) results. `ρ` includes the error return. -/
def wrap (i : Nat) (pre : α → α) (post : ρ → ρ) : Middleware α ρ :=
  fun next a =>
    let r := next (pre a)
    (post r.1, Ev.enter i a :: (r.2 ++ [Ev.exit i r.1]))

/-- A middleware that calls `next` twice (a retry policy) — outside hypothesis H. -/
def wrapTwice (i : Nat) : Middleware α ρ :=
  fun next a =>
    let r₁ := next a
    let r₂ := next a
    (r₂.1, Ev.enter i a :: (r₁.2 ++ r₂.2 ++ [Ev.exit i r₂.1]))

/-- The behaviour of one wrapping middleware (its label is its position in the list). -/
structure W (α ρ : Type) where
  pre : α → α
  post : ρ → ρ

/-- Observing middleware: changes nothing. -/
def W.observe : W α ρ := ⟨id, id⟩

/-- The wrapping middleware for the behaviours `ws`, labelled `k, k+1, …`. -/
def wrapsFrom (k : Nat) : List (W α ρ) → List (Middleware α ρ)
  | [] => []
  | w :: ws => wrap k w.pre w.post :: wrapsFrom (k + 1) ws

/-- Labelled by list position. -/
def wraps (ws : List (W α ρ)) : List (Middleware α ρ) := wrapsFrom 0 ws

/-- Arguments after the rewrites of all of `ws`, applied in the order the call
travels inwards: last-listed first. `preAll [w₀,…,wₙ₋₁] a = pre₀ (… (preₙ₋₁ a))`. -/
def preAll (ws : List (W α ρ)) (a : α) : α := ws.foldr (fun w x => w.pre x) a

/-- Results after the rewrites of all of `ws`, in the order the return travels
outwards: first-listed first. `postAll [w₀,…,wₙ₋₁] r = postₙ₋₁ (… (post₀ r))`. -/
def postAll (ws : List (W α ρ)) (r : ρ) : ρ := ws.foldl (fun x w => w.post x) r

/-! ### Method -/

/-- `frugal.Method` (the reflect handles do not take part in the composition). -/
structure Method (α ρ : Type) where
  handler : Handler α ρ

/-- `NewMethod(proxiedHandler, method, name, middleware)` for a valid name. -/
def newMethod (f : α → ρ) (ms : List (Middleware α ρ)) : Method α ρ :=
  ⟨compose (baseHandler f) ms⟩

/-- `(*Method).Invoke(args)`. -/
def Method.invoke (m : Method α ρ) (a : α) : ρ × List (Ev α ρ) := m.handler a

/-- `(*Method).AddMiddleware(mw)`: `m.handler = mw(m.handler)`. -/
def Method.addMiddleware (m : Method α ρ) (mw : Middleware α ρ) : Method α ρ :=
  ⟨mw m.handler⟩

/-- Several `AddMiddleware` calls, in call order. -/
def Method.addAll (m : Method α ρ) (mws : List (Middleware α ρ)) : Method α ρ :=
  mws.foldl Method.addMiddleware m

/-- The name handling at the top of `NewMethod`: `methodName[0]` (index panic on
the empty name); a lower-case first letter builds the `reflect.Method` by hand;
otherwise `MethodByName` on the handler's type must succeed or NewMethod panics
explicitly. -/
inductive NameOutcome where
  | ok | panicIndex | panicNoSuchMethod
  deriving DecidableEq, Repr

def nameOutcome (methodSet : List String) (name : String) : NameOutcome :=
  match name.toList with
  | [] => .panicIndex
  | c :: _ =>
    if c.isLower then .ok
    else if methodSet.contains name then .ok else .panicNoSuchMethod

/-! ### Generated wiring

`NewF<S>Client(provider, middleware...)`, `New<Scope>Publisher(provider, middleware...)`:
```go
middleware = append(middleware, provider.GetMiddleware()...)
methods["op"] = frugal.NewMethod(client, client.op, "op", middleware)      // per operation
```
`GetMiddleware` returns a copy of the list given to `NewF…Provider(…, middleware...)`.
A processor has no provider: `NewMethod(handler, handler.Op, "Op", middleware)`. -/

/-- The list every client method / publisher operation is composed with. -/
def clientWiring (ctor prov : List τ) : List τ := ctor ++ prov
def publisherWiring (ctor prov : List τ) : List τ := ctor ++ prov
/-- The list a subscriber stores and composes at `Subscribe<Op>` time. -/
def subscriberWiring (ctor prov : List τ) : List τ := ctor ++ prov
/-- Processors take constructor middleware only. -/
def processorWiring (ctor : List τ) : List τ := ctor

/-- One generated operation: its name and the proxied function. -/
abbrev Op (α ρ : Type) := String × (α → ρ)

/-- Generated client of a service with an `extends` chain, leaf first. The child
constructor first builds the embedded parent client with the *same* provider and
the *original* constructor middleware (`NewF<Parent>Client(provider, middleware...)`
is evaluated before the child's `append`), then wires its own methods. -/
def genClient : List (List (Op α ρ)) → List (Middleware α ρ) → List (Middleware α ρ) →
    List (String × Method α ρ)
  | [], _, _ => []
  | leaf :: parents, ctor, prov =>
    genClient parents ctor prov ++
      leaf.map (fun op => (op.1, newMethod op.2 (clientWiring ctor prov)))

/-- Generated publisher: one Method per scope operation. -/
def genPublisher (ops : List (Op α ρ)) (ctor prov : List (Middleware α ρ)) :
    List (String × Method α ρ) :=
  ops.map (fun op => (op.1, newMethod op.2 (publisherWiring ctor prov)))

/-- Generated subscriber: `Subscribe<Op>(handler)` composes the stored list around the
user's handler; every delivery invokes that Method. -/
def genSubscribe (handler : α → ρ) (ctor prov : List (Middleware α ρ)) : Method α ρ :=
  newMethod handler (subscriberWiring ctor prov)

/-! ### Processor: `FBaseProcessor.processMap`, `AddToProcessorMap`, `AddMiddleware` -/

/-- Go `map[string]FProcessorFunction` as an association list with distinct keys. -/
abbrev ProcMap (α ρ : Type) := List (String × Method α ρ)

/-- `processMap[key] = proc`. -/
def ProcMap.insert (pm : ProcMap α ρ) (k : String) (m : Method α ρ) : ProcMap α ρ :=
  match pm with
  | [] => [(k, m)]
  | (k', m') :: t => if k' = k then (k, m) :: t else (k', m') :: ProcMap.insert t k m

/-- `FBaseProcessor.AddMiddleware`: `for _, p := range processMap { p.AddMiddleware(mw) }`
— every registered function once; the map's iteration order does not matter because
the functions are independent. -/
def ProcMap.addMiddleware (pm : ProcMap α ρ) (mw : Middleware α ρ) : ProcMap α ρ :=
  pm.map (fun km => (km.1, km.2.addMiddleware mw))

def ProcMap.addAll (pm : ProcMap α ρ) (mws : List (Middleware α ρ)) : ProcMap α ρ :=
  mws.foldl ProcMap.addMiddleware pm

/-- `Process` dispatch on the method name (`none` = unknown function). -/
def ProcMap.find (pm : ProcMap α ρ) (k : String) : Option (Method α ρ) :=
  match pm with
  | [] => none
  | (k', m) :: t => if k' = k then some m else ProcMap.find t k

def ProcMap.invoke (pm : ProcMap α ρ) (k : String) (a : α) : Option (ρ × List (Ev α ρ)) :=
  (pm.find k).map (fun m => m.invoke a)

/-- Generated processor of an `extends` chain, ROOT first: `NewF<Child>Processor`
embeds `NewF<Parent>Processor(handler, middleware...)`, so there is ONE
`FBaseProcessor` and one map; the parent's functions are registered first, then the
child's (a child function with the same name replaces the parent's). -/
def genProcessor (chain : List (List (Op α ρ))) (ctor : List (Middleware α ρ)) : ProcMap α ρ :=
  chain.foldl (fun pm level =>
    level.foldl (fun pm op => pm.insert op.1 (newMethod op.2 (processorWiring ctor))) pm) []

/-! ### The variadic slice in the generated constructors

`middleware ...T` is the caller's slice when called as `f(provider, s...)`, and
`append(middleware, x...)` writes into the caller's backing array when it has
spare capacity. Clients, publishers and processors compose inside the
constructor, so that is not observable in their chains. A subscriber *stores* the
list and composes at `Subscribe<Op>` time, so what it stores matters.

`Backing` is the caller's array (length = capacity), `k` the length of the slice
passed. `SubList` is what a subscriber holds. -/

inductive AppendForm where
  | alias   -- `append(middleware, provider.GetMiddleware()...)`
  | copy    -- append onto a fresh copy of `middleware`
  deriving DecidableEq, Repr

inductive SubList (τ : Type) where
  | view (len : Nat)     -- a slice of the caller's backing array: `arr[0:len]`
  | own (l : List τ)     -- freshly allocated
  deriving Repr

/-- Overwrite `arr[k .. k+|xs|)` with `xs` (callers guarantee it fits). -/
def overwrite (arr : List τ) (k : Nat) (xs : List τ) : List τ :=
  arr.take k ++ xs ++ arr.drop (k + xs.length)

/-- The constructor's `append` on the caller's array `arr` / slice length `k`:
the new contents of the caller's array and what the subscriber keeps. -/
def ctorAppend (form : AppendForm) (arr : List τ) (k : Nat) (prov : List τ) : List τ × SubList τ :=
  match form with
  | .copy => (arr, .own (arr.take k ++ prov))
  | .alias =>
    if k + prov.length ≤ arr.length then (overwrite arr k prov, .view (k + prov.length))
    else (arr, .own (arr.take k ++ prov))

/-- The list a subscriber composes with when `Subscribe<Op>` runs. -/
def SubList.read (arr : List τ) : SubList τ → List τ
  | .view len => arr.take len
  | .own l => l

/-- Two subscribers built from the same caller slice with providers A then B; the
list the FIRST one composes with when it subscribes afterwards. -/
def twoSubscribers (form : AppendForm) (arr : List τ) (k : Nat) (provA provB : List τ) : List τ :=
  let (arr₁, s₁) := ctorAppend form arr k provA
  let (arr₂, _) := ctorAppend form arr₁ k provB
  s₁.read arr₂

/-! ### Dynamically typed values in Arguments and Results

`Arguments`/`Results` are `[]interface{}`: every element carries a DYNAMIC type
(or is the untyped `nil`). Generated code consumes them with type assertions
(`ret[0].(*T)`), so the dynamic type is part of "what the other side observes". -/

/-- Go kinds that matter here: pointers, the other nil-able kinds, everything else. -/
inductive VKind where
  | ptr | slice | map | prim
  deriving DecidableEq, Repr

/-- A value stored in an `interface{}`: the untyped nil, or a dynamic type with its
nil-ness and (an opaque rendering of) its contents. A nil pointer / slice / map in an
interface is `val ty k true _` — NOT `untyped`. -/
inductive DVal where
  | untyped
  | val (ty : String) (kind : VKind) (isNil : Bool) (payload : String)
  deriving DecidableEq, Repr

/-- A value as a Go function returns it, with its DECLARED type: a concrete type, or an
interface type (`error`) holding nothing or some dynamic value. -/
inductive SVal where
  | concrete (ty : String) (kind : VKind) (isNil : Bool) (payload : String)
  | iface (dyn : DVal)
  deriving DecidableEq, Repr

/-- `reflect.Value.Interface()` on a returned value: a concrete value keeps its type even
when it is nil; an interface-typed value yields what it holds (nothing = untyped nil; a
typed-nil `*Exc` returned as `error` stays a non-nil interface holding a nil `*Exc`). -/
def SVal.toIface : SVal → DVal
  | .concrete ty k n p => .val ty k n p
  | .iface d => d

/-- The conversion at the end of `newInvocationHandler`:
`for i, ret := range returnValues { results[i] = ret.Interface() }`. -/
def baseConvert (rets : List SVal) : List DVal := rets.map SVal.toIface

/-- A variant that turns nil pointers (also inside an interface) into the untyped nil —
NOT what the code does; `c16_nil_normalising_counterexample` shows what it breaks. -/
def SVal.toIfaceNilNorm : SVal → DVal
  | .concrete ty k n p => if k = .ptr ∧ n then .untyped else .val ty k n p
  | .iface (.val ty k n p) => if k = .ptr ∧ n then .untyped else .val ty k n p
  | .iface .untyped => .untyped

def baseConvertNilNorm (rets : List SVal) : List DVal := rets.map SVal.toIfaceNilNorm

/-- The proxied function of a Method whose Go function returns declared-type values. -/
def baseFnDyn (h : α → List SVal) : α → List DVal := fun a => baseConvert (h a)

/-- `x.(T)` succeeds iff the dynamic type is exactly `T` (it fails on the untyped nil). -/
def DVal.hasType (ty : String) : DVal → Bool
  | .untyped => false
  | .val t _ _ _ => t == ty

/-- How generated code ends up after consuming `Results`. -/
inductive Consumed where
  | success      -- processor: `ret[0].(R)` done, reply with the value / void success
  | errPath      -- an error was found in the last position; `ret[0]` is not looked at
  | returned     -- client: `(r, err)` handed to the caller
  | panic
  deriving DecidableEq, Repr

/-- Generated processor function of a method returning `R`:
```go
if len(ret) != 2 { panic(…) }
if ret[1] != nil { err = ret[1].(error) }
if err != nil { … } else { var retval R = ret[0].(R) … }
``` -/
def consumeProcessor (R : String) (isErr : String → Bool) : List DVal → Consumed
  | [r0, e] =>
    match e with
    | .untyped => if r0.hasType R then .success else .panic
    | .val t _ _ _ => if isErr t then .errPath else .panic
  | _ => .panic

/-- Generated client method: `if ret[0] != nil { r = ret[0].(R) }; if ret[1] != nil { err = ret[1].(error) }`. -/
def consumeClient (R : String) (isErr : String → Bool) : List DVal → Consumed
  | [r0, e] =>
    if r0 ≠ .untyped ∧ !r0.hasType R then .panic
    else match e with
      | .untyped => .returned
      | .val t _ _ _ => if isErr t then .returned else .panic
  | _ => .panic

/-- Void methods, publishers, subscriber callbacks: `if ret[0] != nil { err = ret[0].(error) }`. -/
def consumeVoid (isErr : String → Bool) : List DVal → Consumed
  | [e] =>
    match e with
    | .untyped => .success
    | .val t _ _ _ => if isErr t then .errPath else .panic
  | _ => .panic

/-- `Results` a function of declared signature `(R, error)` can produce, after boxing:
position 0 has dynamic type `R` (nil or not), the last holds nothing or an error. -/
def WellTyped (R : String) (isErr : String → Bool) (ret : List DVal) : Prop :=
  ∃ r0 e, ret = [r0, e] ∧ r0.hasType R = true ∧
    (e = .untyped ∨ ∃ t k n p, e = .val t k n p ∧ isErr t = true)

/-! ### When, and from what, a chain is composed

`NewMethod` composes inside the call (`handler: composeMiddleware(method, middleware)`),
so a Method's chain is a function of the VALUES in the slice at that moment; the
generated client / publisher / processor constructors call `NewMethod` before they
return. What the caller — or another constructor appending into the same backing
array — does to the slice afterwards is not seen by a Method that exists already.

`Life` is a caller-owned backing array (`arr`, length = capacity; the slice passed
variadically is `arr[:k]`) and the objects constructed so far (one Method each). -/

structure Life (α ρ : Type) where
  arr : List (Middleware α ρ)
  k : Nat
  objs : List (Method α ρ)

inductive LifeStep (α ρ : Type) where
  /-- a constructor given `arr[:k]...`; `aliasAppend`: it does
  `middleware = append(middleware, provider.GetMiddleware()...)` on its parameter (generated
  client / publisher) — which writes `prov` into the caller's spare capacity when it fits -/
  | construct (f : α → ρ) (aliasAppend : Bool) (prov : List (Middleware α ρ))
  /-- the caller overwrites an element of its backing array (visible or spare part) -/
  | write (j : Nat) (m : Middleware α ρ)
  /-- the caller appends to its slice: `append(arr[:k], m)` -/
  | push (m : Middleware α ρ)
  /-- `AddMiddleware` on object `i` -/
  | add (i : Nat) (m : Middleware α ρ)

def Life.step (s : Life α ρ) : LifeStep α ρ → Life α ρ
  | .construct f al prov =>
    { s with
      arr := if al ∧ s.k + prov.length ≤ s.arr.length then overwrite s.arr s.k prov else s.arr,
      objs := s.objs ++ [newMethod f (s.arr.take s.k ++ prov)] }
  | .write j m => { s with arr := s.arr.set j m }
  | .push m => { s with arr := s.arr.set s.k m }
  | .add i m => { s with objs := s.objs.modify i (fun o => o.addMiddleware m) }

def Life.run (s : Life α ρ) (steps : List (LifeStep α ρ)) : Life α ρ := steps.foldl Life.step s

/-- `AddMiddleware` steps aimed at object `i`. -/
def LifeStep.addsTo (i : Nat) : LifeStep α ρ → Bool
  | .add j _ => j == i
  | _ => false

end FV.Mw
